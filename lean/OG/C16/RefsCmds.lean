/-
C16 — `RefsInv` is preserved by every command other than the pruning of an index group.
-/
import OG.C16.Refs

namespace OG.C16
open OG.Meta

/-- not `PruneGroups(index)` -/
def safeRefs : Cmd → Bool
  | .pruneGroups false _ => false
  | _ => true

variable {d : Data}

theorem r_createDatabase (hinv : RefsInv d) (n rp rep) : RefsInv (createDatabase d n rp rep).1 := by
  unfold createDatabase
  simp only
  repeat' split
  all_goals first
    | exact hinv
    | (obtain ⟨y, rfl⟩ := checkCanCreateRP_create (by assumption)
       apply refs_setDB hinv
       intro kr hkr
       simp only [DB.setRetentionPolicy] at hkr
       rcases mem_alInsert hkr with rfl | hkr
       · exact refsOK_empty _ _ _
       · simp at hkr)

theorem r_dropDatabase (hinv : RefsInv d) (n) : RefsInv (dropDatabase d n).1 := by
  unfold dropDatabase
  split
  · exact hinv
  · intro rp hrp; exact hinv rp (allRPs_erase (d := d) rfl hrp)

theorem r_markDatabaseDelete (hinv : RefsInv d) (n) : RefsInv (markDatabaseDelete d n).1 := by
  unfold markDatabaseDelete
  split
  · exact hinv
  · next db hf =>
    split
    · exact hinv
    · exact refs_setDB hinv (fun kr hkr => refsOk_of_mem hinv (alFind_mem hf) kr hkr)

theorem r_createRetentionPolicy (hinv : RefsInv d) (db s md) : RefsInv (createRetentionPolicy d db s md).1 := by
  unfold createRetentionPolicy
  split
  · exact hinv
  · next dbi hd =>
    have hm := (getDatabase_ok hd).1
    split
    · exact hinv
    · exact hinv
    · next r hr =>
      obtain ⟨y, rfl⟩ := checkCanCreateRP_create hr
      apply refs_setDB hinv
      intro kr hkr
      simp only [DB.setRetentionPolicy] at hkr
      rcases mem_alInsert hkr with rfl | hkr
      · exact refsOK_empty _ _ _
      · exact refsOk_of_mem hinv hm kr hkr

theorem r_dropRetentionPolicy (hinv : RefsInv d) (db rp) : RefsInv (dropRetentionPolicy d db rp).1 := by
  unfold dropRetentionPolicy
  split
  · exact hinv
  · next dbi hd =>
    have hm := (getDatabase_ok hd).1
    apply refs_setDB hinv
    intro kr hkr
    exact refsOk_of_mem hinv hm kr (mem_alErase hkr)

theorem r_setDefaultRetentionPolicy (hinv : RefsInv d) (db rp) : RefsInv (setDefaultRetentionPolicy d db rp).1 := by
  unfold setDefaultRetentionPolicy
  split
  · exact hinv
  · next dbi hd =>
    have hm := (getDatabase_ok hd).1
    split
    · exact hinv
    · exact refs_setDB hinv (fun kr hkr => refsOk_of_mem hinv hm kr hkr)

theorem r_updateRetentionPolicy (hinv : RefsInv d) (db rp u) : RefsInv (updateRetentionPolicy d db rp u).1 := by
  unfold updateRetentionPolicy
  split
  · exact hinv
  · next dbi hd =>
    have hm := (getDatabase_ok hd).1
    split
    · exact hinv
    · next k r hr =>
      have hkr := (DB.getRP_ok hr).1
      have h := refsOk_of_mem hinv hm (k, r) hkr
      simp only at h
      split
      · exact hinv
      · simp only
        split
        · exact hinv
        · apply refs_setDB hinv
          intro kr hmem
          rcases mem_writeBack hmem with he | hmem
          · rw [he]; exact refsOK_same h rfl rfl
          · exact refsOk_of_mem hinv hm kr hmem

theorem r_setRP_cmds (hinv : RefsInv d) (pick : Nat) :
    (∀ db rp, RefsInv (markRetentionPolicyDelete d db rp).1) ∧
    (∀ db rp m ski e fs, RefsInv (createMeasurement pick d db rp m ski e fs).1) ∧
    (∀ db rp m ski, RefsInv (alterShardKey pick d db rp m ski).1) ∧
    (∀ db rp m fs, RefsInv (updateSchema d db rp m fs).1) ∧
    (∀ db rp m, RefsInv (markMeasurementDelete d db rp m).1) ∧
    (∀ db rp m, RefsInv (dropMeasurement d db rp m).1) := by
  refine ⟨?_, ?_, ?_, ?_, ?_, ?_⟩
  · intro db rp
    unfold markRetentionPolicyDelete
    split
    · exact hinv
    · next dbi k r hg => exact refs_setRP hinv rfl (Nat.le_refl _) (getRP_ok hg).1 (refsOK_same (refsOK_of_getRP hinv hg) rfl rfl)
  · intro db rp m ski e fs
    unfold createMeasurement
    split
    · exact hinv
    · next dbi k r hg =>
      simp only
      repeat' split
      all_goals first
        | exact hinv
        | exact refs_setRP (d' := { d with maxMstID := d.maxMstID + 1 }) hinv rfl (Nat.le_refl _) (getRP_ok hg).1
            (refsOK_same (refsOK_of_getRP hinv hg) rfl rfl)
  · intro db rp m ski
    unfold alterShardKey
    split
    · exact hinv
    · next dbi k r hg =>
      split
      · exact hinv
      · simp only
        repeat' split
        all_goals first
          | exact hinv
          | exact refs_setRP hinv rfl (Nat.le_refl _) (getRP_ok hg).1 (refsOK_same (refsOK_of_getRP hinv hg) rfl rfl)
  · intro db rp m fs
    unfold updateSchema
    split
    · exact hinv
    · next dbi k r ms hg =>
      obtain ⟨hg', _⟩ := getMeasurement_mem hg
      split
      · exact hinv
      · exact refs_setRP hinv rfl (Nat.le_refl _) (getRP_ok hg').1 (refsOK_same (refsOK_of_getRP hinv hg') rfl rfl)
  · intro db rp m
    unfold markMeasurementDelete
    split
    · exact hinv
    · next dbi k r ms hg =>
      obtain ⟨hg', _⟩ := getMeasurement_mem hg
      exact refs_setRP hinv rfl (Nat.le_refl _) (getRP_ok hg').1 (refsOK_same (refsOK_of_getRP hinv hg') rfl rfl)
  · intro db rp m
    unfold dropMeasurement
    split
    · exact hinv
    · next dbi k r hg => exact refs_setRP hinv rfl (Nat.le_refl _) (getRP_ok hg).1 (refsOK_same (refsOK_of_getRP hinv hg) rfl rfl)

theorem r_deleteShardGroup (hinv : RefsInv d) (db rp id t) : RefsInv (deleteShardGroup d db rp id t).1 := by
  unfold deleteShardGroup
  split
  · exact hinv
  · next dbi k r hg =>
    apply refs_setRP hinv rfl (Nat.le_refl _) (getRP_ok hg).1
    exact refsOK_updSG _ _ (refsOK_of_getRP hinv hg) (fun g => ⟨fun s hs => ⟨s, hs, rfl, rfl⟩, rfl⟩)

theorem r_updateShardInfoTier (hinv : RefsInv d) (s t db rp) : RefsInv (updateShardInfoTier d s t db rp).1 := by
  unfold updateShardInfoTier
  split
  · exact hinv
  · next dbi k r hg =>
    split
    · apply refs_setRP hinv rfl (Nat.le_refl _) (getRP_ok hg).1
      apply refsOK_updSG (fun g => g.shards.any (·.id = s))
        (fun g => { g with shards := updFirst (·.id = s) (fun x => { x with tier := t }) g.shards }) (refsOK_of_getRP hinv hg)
      intro g
      refine ⟨?_, by simp [length_updFirst]⟩
      intro s' hs'
      rcases mem_updFirst hs' with hs' | ⟨z, hz, rfl⟩
      · exact ⟨s', hs', rfl, rfl⟩
      · exact ⟨z, hz, rfl, rfl⟩
    · exact hinv

theorem r_deleteIndexGroup (hinv : RefsInv d) (db rp id) : RefsInv (deleteIndexGroup d db rp id).1 := by
  unfold deleteIndexGroup
  split
  · exact hinv
  · next dbi k r hg =>
    have h := refsOK_of_getRP hinv hg
    apply refs_setRP hinv rfl (Nat.le_refl _) (getRP_ok hg).1
    exact ⟨fun g hgm s hs => rpIndexIds_updIG (fun x => decide (x.id = id)) (fun g => { g with deleted := true }) (fun _ => rfl) _
      (h.index g hgm s hs), h.owners, h.len⟩

theorem mem_mkShards_refs {d : Data} {r : RP} {m : Mst} {ig : IG} {tier : Nat} {s : Shard} (h : s ∈ mkShards d r m ig tier)
    (hlen : (mkShards d r m ig tier).length ≤ d.clusterPtNum) (hig : d.clusterPtNum ≤ ig.indexes.length) :
    (∃ x ∈ ig.indexes, x.id = s.indexID) ∧ ∀ o ∈ s.owners, o < d.clusterPtNum := by
  have hlen' := hlen
  unfold mkShards at h hlen'
  simp only [List.mem_map, List.mem_range, List.length_map, List.length_range] at h hlen'
  obtain ⟨i, hi, rfl⟩ := h
  have hi' : i < d.clusterPtNum := by omega
  simp only [hi', if_true]
  refine ⟨?_, by simp; omega⟩
  obtain ⟨x, hx, he⟩ := nthIndexID_mem (ig := ig) (i := i) (by omega)
  exact ⟨x, hx, he⟩

theorem r_createShardGroup (hinv : RefsInv d) (pick db rp ts tier e v) : RefsInv (createShardGroup pick d db rp ts tier e v).1 := by
  unfold createShardGroup
  split
  · exact hinv
  · next hpt =>
    split
    · exact hinv
    · next dbi k r hg =>
      have h := refsOK_of_getRP hinv hg
      split
      · exact hinv
      · split
        · exact hinv
        · next msti hpick =>
          split
          · exact hinv
          · next k0 krest hkeys =>
            have hsame := indexGroupFor_same d r ts e
            have hdb := indexGroupFor_dbs d r ts e
            have hig := indexGroupFor_ig d r ts e
            generalize indexGroupFor d r ts e = x at hsame hdb hig
            obtain ⟨d1, r1, ig⟩ := x
            obtain ⟨hig1, hig2, hig3, hig4⟩ := hig
            simp only at hsame hdb hig1 hig2 hig3 hig4 ⊢
            -- the number of shards of the new group is at most the number of partitions
            have hlen : (mkShards d1 r1 msti ig tier).length ≤ d1.clusterPtNum := by
              unfold mkShards
              simp only [List.length_map, List.length_range, hkeys]
              split
              · split
                · omega
                · next l hl =>
                  have hm : l ∈ r.shardGroups := by
                    rw [← hsame.1]; exact List.mem_of_getLast? hl
                  rw [hig4]; exact h.len l hm
              · omega
            apply refs_setRP (d' := _) hinv (by simpa using hdb) (by simp [hig4]) (getRP_ok hg).1
            simp only
            have hsub : ∀ x, x ∈ rpIndexIds r → x ∈ rpIndexIds r1 := by
              intro x hx
              obtain ⟨g, hgm, i, hi, rfl⟩ := mem_rpIndexIds.1 hx
              exact mem_rpIndexIds.2 ⟨g, hig3 g hgm, i, hi, rfl⟩
            refine ⟨?_, ?_, ?_⟩
            · intro g hgm s hs
              rcases mem_insertSG.1 hgm with rfl | hgm
              · obtain ⟨⟨x, hx, he⟩, _⟩ := mem_mkShards_refs hs hlen (by rw [hig4]; exact hig2)
                show s.indexID ∈ rpIndexIds { r1 with shardGroups := _ }
                exact mem_rpIndexIds.2 ⟨ig, hig1, x, hx, he⟩
              · rw [hsame.1] at hgm
                have := hsub _ (h.index g hgm s hs)
                exact this
            · intro g hgm s hs o ho
              rcases mem_insertSG.1 hgm with rfl | hgm
              · exact (mem_mkShards_refs hs hlen (by rw [hig4]; exact hig2)).2 o ho
              · rw [hsame.1] at hgm
                rw [hig4]; exact h.owners g hgm s hs o ho
            · intro g hgm
              rcases mem_insertSG.1 hgm with rfl | hgm
              · exact hlen
              · rw [hsame.1] at hgm
                rw [hig4]; exact h.len g hgm

theorem r_applyP (pick : Nat) (hinv : RefsInv d) (c : Cmd) (hs : safeRefs c = true) : RefsInv (applyP pick d c).1 := by
  have hc := r_setRP_cmds hinv pick
  cases c with
  | createDatabase n rp rep => exact r_createDatabase hinv n rp rep
  | dropDatabase n => exact r_dropDatabase hinv n
  | markDatabaseDelete n => exact r_markDatabaseDelete hinv n
  | createRetentionPolicy db s md => exact r_createRetentionPolicy hinv db s md
  | dropRetentionPolicy db rp => exact r_dropRetentionPolicy hinv db rp
  | markRetentionPolicyDelete db rp => exact hc.1 db rp
  | setDefaultRetentionPolicy db rp => exact r_setDefaultRetentionPolicy hinv db rp
  | updateRetentionPolicy db rp u => exact r_updateRetentionPolicy hinv db rp u
  | createMeasurement db rp m ski e fs => exact hc.2.1 db rp m ski e fs
  | alterShardKey db rp m ski => exact hc.2.2.1 db rp m ski
  | updateSchema db rp m fs => exact hc.2.2.2.1 db rp m fs
  | markMeasurementDelete db rp m => exact hc.2.2.2.2.1 db rp m
  | dropMeasurement db rp m => exact hc.2.2.2.2.2 db rp m
  | createShardGroup db rp ts tier e v => exact r_createShardGroup hinv pick db rp ts tier e v
  | deleteShardGroup db rp id t => exact r_deleteShardGroup hinv db rp id t
  | deleteIndexGroup db rp id => exact r_deleteIndexGroup hinv db rp id
  | pruneGroups sg id =>
    cases sg with
    | false => simp [safeRefs] at hs
    | true =>
      simp only [applyP]; unfold pruneGroups
      simp only [if_true]
      exact refs_mapRPs _ (fun db rp h => refsOK_pruneShardGroupsRP id db.markDeleted rp h) hinv
  | createDataNode hh t r =>
    simp only [applyP]; unfold createDataNode
    split
    · exact refs_of_eq hinv rfl (Nat.le_refl _)
    · simp only
      split
      · exact refs_of_eq hinv rfl (Nat.le_refl _)
      · split
        · refine refs_of_eq (d' := _) hinv rfl ?_
          simp only [done]; split <;> omega
        · refine refs_of_eq (d' := _) hinv rfl ?_
          simp only [done]; split <;> omega
  | createDbPtView db =>
    simp only [applyP]; unfold createDbPtView
    split
    · exact hinv
    · simp only
      split
      · exact hinv
      · exact refs_of_eq hinv rfl (Nat.le_refl _)
  | updateShardInfoTier s t db rp => exact r_updateShardInfoTier hinv s t db rp
  | createUser n hh a rw =>
    simp only [applyP]; unfold createUser
    repeat' split
    all_goals first | exact hinv | exact refs_of_eq hinv rfl (Nat.le_refl _)
  | dropUser n =>
    simp only [applyP]; unfold dropUser
    repeat' split
    all_goals first | exact hinv | exact refs_of_eq hinv rfl (Nat.le_refl _)
  | updateUser n hh =>
    simp only [applyP]; unfold updateUser
    repeat' split
    all_goals first | exact hinv | exact refs_of_eq hinv rfl (Nat.le_refl _)
  | setPrivilege u db p =>
    simp only [applyP]; unfold setPrivilege
    repeat' split
    all_goals first | exact hinv | exact refs_of_eq hinv rfl (Nat.le_refl _)
  | setAdminPrivilege u a =>
    simp only [applyP]; unfold setAdminPrivilege
    split <;> exact hinv

end OG.C16
