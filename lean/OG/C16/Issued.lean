/-
C16 — identifiers of measurements are handed out at most once.

A measurement lives in a retention policy under its *versioned name* `name_%04x` (the identifier
under which the stores keep its data); the policy's `MstVersions` table remembers, per original
name, the last version handed out — also after the measurement went through
MarkMeasurementDelete + DropMeasurement (the purge) and the policy holds nothing else.

History invariant, proved over every command log:

  * `Rel rp rp'` (one step, same policy): the version counters only grow and never lose an
    entry, and every versioned name that is new in `rp'` is `nameWithVersion o v'` with `v'` the
    new counter of `o`, strictly above the old one;
  * `versioned_name_unique`: a versioned name is handed out at most once per (database, policy)
    — ever, including after drops — as long as the policy itself lives;
  * `mst_id_unique`: a numeric measurement id is handed out at most once in the whole catalogue.
-/
import OG.C16.Defaults
import OG.Meta.SortedInvCmds

namespace OG.C16
open OG.Meta

variable {α : Type}

/-! ### look-ups by key -/

/-- the policy stored under (database key, policy key) -/
def lookupRP (d : Data) (db k : String) : Option RP := (alFind db d.databases).bind fun x => alFind k x.rps

/-- the version counter of an original measurement name -/
def _root_.OG.Meta.RP.ver (rp : RP) (o : String) : Option Nat := (rp.findVer o).map (·.version)

def _root_.OG.Meta.RP.names (rp : RP) : List String := rp.msts.map (·.name)

theorem alFind_alErase_self : ∀ {l : List (String × α)} (k : String), SortedKeys l → alFind k (alErase k l) = none
  | [], _, _ => rfl
  | (k', v') :: rest, k, hs => by
    unfold SortedKeys at hs
    rw [List.pairwise_cons] at hs
    unfold alErase
    split
    · next he =>
      subst he
      exact alFind_none_of_lt (fun y hy => hs.1 y hy)
    · next hne =>
      simp only [alFind, hne, if_false]
      exact alFind_alErase_self k hs.2

theorem alFind_of_mem : ∀ {l : List (String × α)} {k : String} {v : α}, SortedKeys l → (k, v) ∈ l → alFind k l = some v
  | [], _, _, _, h => by simp at h
  | (k', v') :: rest, k, v, hs, h => by
    unfold SortedKeys at hs
    rw [List.pairwise_cons] at hs
    unfold alFind
    rcases List.mem_cons.1 h with he | hm
    · cases he; simp
    · have hlt : k' < k := hs.1 _ hm
      have hne : ¬ k' = k := fun e => by subst e; exact absurd hlt (String.lt_irrefl _)
      rw [if_neg hne]
      exact alFind_of_mem hs.2 hm

theorem alFind_map_val {β : Type} (f : String → α → β) (k : String) :
    ∀ l : List (String × α), alFind k (l.map fun x => (x.1, f x.1 x.2)) = (alFind k l).map (f k)
  | [] => rfl
  | (k', v') :: rest => by
    simp only [List.map_cons, alFind]
    split
    · next he => subst he; rfl
    · exact alFind_map_val f k rest

theorem lookupRP_of_dbs_eq {d d' : Data} (h : d'.databases = d.databases) (db k : String) : lookupRP d' db k = lookupRP d db k := by
  unfold lookupRP; rw [h]

theorem lookupRP_setDB (d : Data) (x : DB) (db k : String) :
    lookupRP (setDB d x) db k = if db = x.name then alFind k x.rps else lookupRP d db k := by
  unfold lookupRP setDB
  simp only
  split
  · next he => subst he; rw [alFind_alInsert_self]; rfl
  · next hne => rw [alFind_alInsert_ne _ hne]

theorem lookupRP_of_find {d : Data} {n : String} {dbi : DB} (hf : alFind n d.databases = some dbi) (k : String) :
    lookupRP d n k = alFind k dbi.rps := by
  unfold lookupRP; rw [hf]; rfl

/-! ### what the look-ups of the commands found -/

theorem getDatabase_find {d : Data} {n : String} {db : DB} (h : getDatabase d n = .ok db) : alFind n d.databases = some db := by
  unfold getDatabase at h
  split at h
  · cases h
  · next dbi hf =>
    split at h
    · cases h
    · cases h; exact hf

theorem DB.rp?_find {db : DB} {n k : String} {r : RP} (h : db.rp? n = some (k, r)) : alFind k db.rps = some r := by
  unfold DB.rp? at h
  split at h
  · cases h
  · next k' hk =>
    cases hf : alFind k' db.rps with
    | none => simp [hf] at h
    | some r' =>
      simp [hf] at h
      obtain ⟨rfl, rfl⟩ := h
      exact hf

theorem DB.getRP_find {db : DB} {n k : String} {r : RP} (h : db.getRP n = .ok (k, r)) : alFind k db.rps = some r := by
  unfold DB.getRP at h
  split at h
  · cases h
  · next k' r' hr =>
    split at h
    · cases h
    · cases h; exact DB.rp?_find hr

theorem getRP_find {d : Data} {dbn rpn k : String} {dbi : DB} {r : RP} (h : getRP d dbn rpn = .ok (dbi, k, r)) :
    alFind dbn d.databases = some dbi ∧ alFind k dbi.rps = some r := by
  unfold getRP at h
  split at h
  · cases h
  · next dbi' hd =>
    split at h
    · cases h
    · next k' r' hr =>
      cases h
      exact ⟨getDatabase_find hd, DB.getRP_find hr⟩

theorem getMeasurement_find {d : Data} {dbn rpn m k : String} {dbi : DB} {r : RP} {ms : Mst}
    (h : getMeasurement d dbn rpn m = .ok (dbi, k, r, ms)) :
    alFind dbn d.databases = some dbi ∧ alFind k dbi.rps = some r ∧ ms ∈ r.msts := by
  unfold getMeasurement at h
  split at h
  · cases h
  · next dbi' k' r' hg =>
    split at h
    · cases h
    · next m' hm =>
      split at h
      · cases h
      · cases h
        have := getRP_find hg
        exact ⟨this.1, this.2, measurement_mem hm⟩

/-! ### the step relation on one policy -/

/-- what a step may do to the version table and the names of a policy that lives on -/
structure Rel (rp rp' : RP) : Prop where
  /-- counters only grow, entries are never lost -/
  mono : ∀ o v, rp.ver o = some v → ∃ v', rp'.ver o = some v' ∧ v ≤ v'
  /-- a name that is new carries the new counter of its original name, which moved up -/
  fresh : ∀ n ∈ rp'.names, n ∉ rp.names →
    ∃ o v', n = nameWithVersion o v' ∧ v' < 65536 ∧ rp'.ver o = some v' ∧ ∀ v, rp.ver o = some v → v < v'

theorem Rel.refl (rp : RP) : Rel rp rp :=
  ⟨fun _ v h => ⟨v, h, Nat.le_refl _⟩, fun n h1 h2 => absurd h1 h2⟩

/-- same version table, no new name -/
theorem Rel.of_same {rp rp' : RP} (hv : rp'.mstVersions = rp.mstVersions) (hn : ∀ n ∈ rp'.names, n ∈ rp.names) : Rel rp rp' :=
  ⟨fun o v h => ⟨v, by simpa [RP.ver, RP.findVer, hv] using h, Nat.le_refl _⟩, fun n h1 h2 => absurd (hn n h1) h2⟩

/-- the step relation on catalogues: every policy that is stored under the same (non-empty)
keys before and after is related -/
def StepOK (d d' : Data) : Prop :=
  ∀ db k rp rp', k ≠ "" → lookupRP d db k = some rp → lookupRP d' db k = some rp' → Rel rp rp'

theorem StepOK.refl (d : Data) : StepOK d d := by
  intro db k rp rp' _ h1 h2
  rw [h1] at h2; cases h2; exact Rel.refl _

theorem stepOK_of_dbs_eq {d d' : Data} (h : d'.databases = d.databases) : StepOK d d' := by
  intro db k rp rp' _ h1 h2
  rw [lookupRP_of_dbs_eq h, h1] at h2; cases h2; exact Rel.refl _

/-- a command that replaces the policy it looked up -/
theorem stepOK_setRP {d d' : Data} {dbn k0 : String} {dbi : DB} {r r' : RP} (hk : KeysAreNames d)
    (hf : alFind dbn d.databases = some dbi) (hr : alFind k0 dbi.rps = some r) (hd : d'.databases = d.databases)
    (hrel : Rel r r') : StepOK d (setRP d' dbi k0 r') := by
  intro db k rp rp' _ h1 h2
  have hname : dbi.name = dbn := (hk _ (alFind_mem hf)).1
  unfold setRP at h2
  rw [lookupRP_setDB] at h2
  simp only at h2
  split at h2
  · next hdb =>
    rw [hdb, hname, lookupRP_of_find hf] at h1
    by_cases hkk : k = k0
    · subst hkk
      rw [alFind_alInsert_self] at h2
      rw [hr] at h1
      cases h1; cases h2; exact hrel
    · rw [alFind_alInsert_ne _ hkk, h1] at h2
      cases h2; exact Rel.refl _
  · rw [lookupRP_of_dbs_eq hd, h1] at h2
    cases h2; exact Rel.refl _

/-- a command that rewrites a database record without touching its policies -/
theorem stepOK_setDB_same {d : Data} {n : String} {dbi x : DB} (hk : KeysAreNames d) (hf : alFind n d.databases = some dbi)
    (hx : x.name = dbi.name) (hrps : x.rps = dbi.rps) : StepOK d (setDB d x) := by
  intro db k rp rp' _ h1 h2
  have hname : dbi.name = n := (hk _ (alFind_mem hf)).1
  rw [lookupRP_setDB] at h2
  split at h2
  · next hdb =>
    rw [hdb, hx, hname, lookupRP_of_find hf] at h1
    rw [hrps, h1] at h2
    cases h2; exact Rel.refl _
  · rw [h1] at h2; cases h2; exact Rel.refl _

/-- a command that adds a policy under a key that was free -/
theorem stepOK_setDB_new {d : Data} {n k0 : String} {dbi x : DB} {r0 : RP} (hk : KeysAreNames d) (hf : alFind n d.databases = some dbi)
    (hx : x.name = dbi.name) (hrps : x.rps = alInsert k0 r0 dbi.rps) (hnone : alFind k0 dbi.rps = none) : StepOK d (setDB d x) := by
  intro db k rp rp' _ h1 h2
  have hname : dbi.name = n := (hk _ (alFind_mem hf)).1
  rw [lookupRP_setDB] at h2
  split at h2
  · next hdb =>
    rw [hdb, hx, hname, lookupRP_of_find hf] at h1
    rw [hrps] at h2
    by_cases hkk : k = k0
    · subst hkk; rw [hnone] at h1; cases h1
    · rw [alFind_alInsert_ne _ hkk, h1] at h2
      cases h2; exact Rel.refl _
  · rw [h1] at h2; cases h2; exact Rel.refl _

/-- a command that removes a policy -/
theorem stepOK_setDB_erase {d : Data} {n k0 : String} {dbi x : DB} (hk : KeysAreNames d) (hs : KS d) (hf : alFind n d.databases = some dbi)
    (hx : x.name = dbi.name) (hrps : x.rps = alErase k0 dbi.rps) : StepOK d (setDB d x) := by
  intro db k rp rp' _ h1 h2
  have hname : dbi.name = n := (hk _ (alFind_mem hf)).1
  rw [lookupRP_setDB] at h2
  split at h2
  · next hdb =>
    rw [hdb, hx, hname, lookupRP_of_find hf] at h1
    rw [hrps] at h2
    by_cases hkk : k = k0
    · subst hkk
      rw [alFind_alErase_self k (hs.rps _ (alFind_mem hf))] at h2; cases h2
    · rw [alFind_alErase_ne hkk, h1] at h2
      cases h2; exact Rel.refl _
  · rw [h1] at h2; cases h2; exact Rel.refl _

/-! ### the version table -/

theorem find_insertVer_self (o : String) (v : Nat) : ∀ l : List MstVer, (insertVer ⟨o, v⟩ l).find? (·.name = o) = some ⟨o, v⟩
  | [] => by simp [insertVer]
  | x :: rest => by
    unfold insertVer
    split
    · simp
    · next hne =>
      split
      · simp
      · have : ¬ x.name = o := hne
        simp only [List.find?_cons, this, decide_false]
        exact find_insertVer_self o v rest

theorem find_insertVer_ne {o o' : String} (v : Nat) (h : o' ≠ o) : ∀ l : List MstVer,
    (insertVer ⟨o, v⟩ l).find? (·.name = o') = l.find? (·.name = o')
  | [] => by simp [insertVer, Ne.symm h]
  | x :: rest => by
    unfold insertVer
    split
    · next he =>
      have he' : x.name = o := he
      have : ¬ x.name = o' := fun e => h (e.symm.trans he')
      simp [List.find?_cons, Ne.symm h, this]
    · split
      · simp [List.find?_cons, Ne.symm h]
      · simp only [List.find?_cons]
        split
        · rfl
        · exact find_insertVer_ne v h rest

theorem mem_names_setMst {r : RP} {m : Mst} {n : String} (h : n ∈ (r.setMst m).names) : n = m.name ∨ n ∈ r.names := by
  simp only [RP.names, RP.setMst, List.mem_map] at h ⊢
  obtain ⟨x, hx, rfl⟩ := h
  rcases mem_insertMst hx with rfl | hx
  · exact Or.inl rfl
  · exact Or.inr ⟨x, hx, rfl⟩

/-- replacing a measurement by one of the same name changes neither the names nor the counters -/
theorem rel_setMst_same {r : RP} {m m' : Mst} (hm : m ∈ r.msts) (hn : m'.name = m.name) : Rel r (r.setMst m') := by
  refine Rel.of_same (rp' := r.setMst m') rfl ?_
  intro n h
  rcases mem_names_setMst h with rfl | h
  · rw [hn]; exact List.mem_map.2 ⟨m, hm, rfl⟩
  · exact h

/-- the counters stay below the 16-bit wrap-around (`(v + 1) & 0xffff`) -/
def NoWrapRP (r : RP) : Prop := ∀ v ∈ r.mstVersions, v.version < 65535
def NoWrap (d : Data) : Prop := ∀ rp ∈ allRPs d, NoWrapRP rp

/-- `CreateMeasurement`, the branch that creates: the new name carries the next version -/
theorem rel_create {r : RP} (mst : String) (m : Mst) (ver : Nat) (hname : m.name = nameWithVersion mst ver)
    (hlt : ver < 65536) (hup : ∀ v, r.ver mst = some v → v < ver) :
    Rel r { (r.setMst m) with mstVersions := insertVer ⟨mst, ver⟩ r.mstVersions } := by
  constructor
  · intro o v hv
    by_cases ho : o = mst
    · subst ho
      refine ⟨ver, ?_, Nat.le_of_lt (hup v hv)⟩
      simp [RP.ver, RP.findVer, find_insertVer_self]
    · refine ⟨v, ?_, Nat.le_refl _⟩
      simpa [RP.ver, RP.findVer, find_insertVer_ne ver ho] using hv
  · intro n hn hnot
    have hn' : n ∈ (r.setMst m).names := hn
    rcases mem_names_setMst hn' with rfl | h
    · exact ⟨mst, ver, hname, hlt, by simp [RP.ver, RP.findVer, find_insertVer_self], hup⟩
    · exact absurd h hnot

/-- the next version when the table has an entry (`(v + 1) & 0xffff`, below the wrap-around) -/
theorem ver_some {r : RP} {mst : String} {x : MstVer} (hw : NoWrapRP r) (heq : r.findVer mst = some x) :
    (x.version + 1) % 65536 < 65536 ∧ ∀ v, r.ver mst = some v → v < (x.version + 1) % 65536 := by
  refine ⟨Nat.mod_lt _ (by decide), ?_⟩
  intro v hv
  simp only [RP.ver, heq, Option.map_some, Option.some.injEq] at hv
  have hb : x.version < 65535 := hw x (by unfold RP.findVer at heq; exact List.mem_of_find?_eq_some heq)
  omega

/-- … and when it has none (version 0) -/
theorem ver_none {r : RP} {mst : String} (heq : r.findVer mst = none) : ∀ v, r.ver mst = some v → v < 0 := by
  intro v hv
  simp [RP.ver, heq] at hv

/-! ### the cleaning pass of the prune command keeps names and counters -/

theorem schemaCleanAll_vers (rp : RP) (b : Bool) (e : Int) : (rp.schemaCleanAll b e).mstVersions = rp.mstVersions := by
  unfold RP.schemaCleanAll
  simp only
  split
  · rfl
  · generalize ((List.map (fun m => m.schemaClean e) rp.msts).filter _).map _ = l
    generalize hr : ({ rp with msts := _ } : RP) = r0
    have h0 : r0.mstVersions = rp.mstVersions := by subst hr; rfl
    clear hr
    induction l generalizing r0 with
    | nil => simpa using h0
    | cons o l ih =>
      simp only [List.foldl_cons]
      apply ih
      split
      · split
        · exact h0
        · simpa [RP.setMst] using h0
      · exact h0

theorem schemaCleanAll_names (rp : RP) (b : Bool) (e : Int) : ∀ n ∈ (rp.schemaCleanAll b e).names, n ∈ rp.names := by
  unfold RP.schemaCleanAll
  simp only
  have hbase : ∀ n ∈ ({ rp with msts := (rp.msts.map fun m => m.schemaClean e).map (·.1) } : RP).names, n ∈ rp.names := by
    intro n hn
    simp only [RP.names, List.map_map, List.mem_map, Function.comp] at hn ⊢
    obtain ⟨m, hm, rfl⟩ := hn
    exact ⟨m, hm, (schemaClean_name m e).symm⟩
  split
  · exact hbase
  · generalize ((List.map (fun m => m.schemaClean e) rp.msts).filter _).map _ = l
    generalize ({ rp with msts := _ } : RP) = r0 at hbase
    induction l generalizing r0 with
    | nil => simpa using hbase
    | cons o l ih =>
      simp only [List.foldl_cons]
      apply ih
      split
      · next cur hc =>
        split
        · exact hbase
        · intro n hn
          rcases mem_names_setMst hn with rfl | hn
          · exact hbase _ (List.mem_map.2 ⟨cur, measurement_mem hc, rfl⟩)
          · exact hbase n hn
      · exact hbase

theorem rel_pruneShardGroupsRP (id : Nat) (b : Bool) (rp : RP) : Rel rp (pruneShardGroupsRP id b rp) := by
  unfold pruneShardGroupsRP
  simp only
  split
  · exact Rel.of_same rfl (fun n h => h)
  · exact Rel.of_same (by rw [schemaCleanAll_vers]) (fun n h => by
      have := schemaCleanAll_names _ _ _ n h
      simpa [RP.names] using this)

end OG.C16
