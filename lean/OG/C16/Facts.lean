/-
C16 — expectations about the regenerated facts: the fingerprints of the Go functions the
catalogue model (OG/Meta/Model.lean) transcribes, as they were when the model was written and
validated against the real code. A failure here means a modelled function changed: the
correspondence run decides whether the model still agrees (and supplies the failing input).
-/
import OG.Generated.C16

namespace OG.C16.Facts
open OG.Gen.C16

theorem generation_ok : generationFailed = false := by rfl

theorem fingerprints_expected : fingerprints = [
  ("Data.CreateDatabase", "1443cccbe50e297a"),
  ("Data.CheckCanCreateDatabase", "7cfda95485141ad5"),
  ("Data.DropDatabase", "18605c246be2e77f"),
  ("Data.MarkDatabaseDelete", "bab075528c9d0866"),
  ("Data.CheckCanCreateRetentionPolicy", "0e4dd0b8afed45a9"),
  ("Data.CreateRetentionPolicy", "86fb8545d0306e2a"),
  ("Data.SetRetentionPolicy", "14ce3351b911a07e"),
  ("Data.DropRetentionPolicy", "cbe7955e9fb41838"),
  ("Data.MarkRetentionPolicyDelete", "1bebcce36629706d"),
  ("Data.SetDefaultRetentionPolicy", "8092578aee4aa8a3"),
  ("Data.UpdateRetentionPolicy", "6e60da56b637d1ca"),
  ("RetentionPolicyInfo.updateWithOtherRetentionPolicy", "47fd24dd41a07c33"),
  ("RetentionPolicyInfo.CheckSpecValid", "bb8090d32defb627"),
  ("RetentionPolicyInfo.checkGeqThanMinDuration", "38ea3eb80be5bccf"),
  ("RetentionPolicyInfo.checkGeqThanShardGroupDuration", "f1d81e048b2ae2e3"),
  ("RetentionPolicyInfo.checkLeqThanDuration", "74edf03fc45f60b6"),
  ("RetentionPolicyInfo.checkShardMergeDuration", "da00f78476af602e"),
  ("RetentionPolicyInfo.checkIndexColdDuration", "d57b6b7fcac3047d"),
  ("shardGroupDuration", "a36b2210fa73134d"),
  ("normalisedShardDuration", "92296c3f1ed1782b"),
  ("normalisedShardMergeDuration", "b16fd158925fc8cc"),
  ("normalisedIndexDuration", "37e39f2c24758082"),
  ("RetentionPolicyInfo.EqualsAnotherRp", "169ea6b2fa2329ab"),
  ("RetentionPolicyInfo.ShardGroupByTimestampAndEngineType", "32ee60703ce2a2a4"),
  ("RetentionPolicyInfo.validMeasurementShardType", "498f17da74763482"),
  ("RetentionPolicyInfo.Measurement", "b706aa1a09fc7853"),
  ("RetentionPolicyInfo.maxShardGroupID", "5d50435602a30b67"),
  ("Data.CreateMeasurement", "e8e7c1a4e4fff288"),
  ("Data.createVersionMeasurement", "957f544eb4e120ca"),
  ("Data.UpdateSchema", "44debe133eb743ae"),
  ("checkFieldsToCreate", "7475e9830912d69d"),
  ("Data.AlterShardKey", "b535ba2785e6c5cc"),
  ("Data.Measurement", "fa8ecc3861b4201e"),
  ("Data.MarkMeasurementDelete", "4d218381ee6898df"),
  ("Data.DropMeasurement", "df4c1bfdbc3dc6e3"),
  ("Data.CreateShardGroup", "e0bdf55259c0831a"),
  ("Data.newShardGroup", "d53b524abaa41c7e"),
  ("Data.createShards", "eef1a580f7e07672"),
  ("Data.CreateIndexGroup", "7703bd60f7e922d6"),
  ("Data.createIndexGroupIfNeeded", "d412d288cf7f32ea"),
  ("Data.DeleteShardGroup", "b25803af2fd67a01"),
  ("Data.DeleteIndexGroup", "78f8575f36c11a73"),
  ("Data.pruneShardGroups", "022bc8afbeaa4bdd"),
  ("Data.pruneIndexGroups", "1f8c89266fab6f12"),
  ("Data.SchemaClean", "19041c8595af1489"),
  ("ShardGroupInfos.Less", "71fd468f922d51a9"),
  ("IndexGroupInfos.Less", "bcbb215204a629c9"),
  ("ShardGroupInfo.Contains", "b373304f39954596"),
  ("Data.CreateDataNode", "951df10212cf6be9"),
  ("Data.initDataNodePtView", "8759d340f7565bac"),
  ("Data.expandDBPtView", "41a2df387a787c08"),
  ("Data.updatePtStatus", "b1c0436d936929f4"),
  ("Data.DBReplicaN", "4a105f91a357d2b4"),
  ("Data.CreateDBPtView", "e7e90a936792bf00"),
  ("assignPtForWAF", "479f0debecb8e2ba"),
  ("Data.UpdateShardInfoTier", "4be83696429480de"),
  ("Data.CreateUser", "857937f8604f9f01"),
  ("Data.DropUser", "874cd8974cd7bc56"),
  ("Data.UpdateUser", "17ff72134efda03e"),
  ("Data.SetPrivilege", "8a1faac330b447ab"),
  ("Data.SetAdminPrivilege", "47c1f191dd3ccea2"),
  ("ApplyCreateDataNode", "618ab87ccf77531d"),
  ("ApplyCreateDbPtViewCommand", "2adf4326bf4f2dd9"),
  ("ApplyUpdateRetentionPolicy", "a84f790255a6d0a6"),
  ("ApplyCreateShardGroup", "43ef21a1c3a9f45a"),
  ("ApplyDeleteShardGroup", "4d84bba1e5447e2d"),
  ("storeFSM.applyCreateDatabaseCommand", "09e653a8453801a2")
] := by rfl

theorem src_newShardGroup_expected : src_newShardGroup = "{ startTime := timestamp.Truncate(rpi.ShardGroupDuration) data.MaxShardGroupID++ sgi := ShardGroupInfo{ ID: data.MaxShardGroupID, StartTime: startTime.UTC(), EndTime: startTime.Add(rpi.ShardGroupDuration).UTC(), EngineType: engineType, Version: version, } if sgi.EndTime.After(time.Unix(0, models.MaxNanoTime)) { sgi.EndTime = time.Unix(0, models.MaxNanoTime+1) } return &sgi }" := by rfl

theorem const_MinRetentionPolicyDuration_expected : const_MinRetentionPolicyDuration = "time.Hour" := by rfl
theorem const_MarkDelete_expected : const_MarkDelete = "0" := by rfl
theorem const_CancelDelete_expected : const_CancelDelete = "1" := by rfl

/-- the functions the second model layer (OG/Meta/Model2.lean) transcribes -/
theorem fingerprints2_expected : fingerprints2 = [
  ("Data.UpdateIndexInfoTier", "f646eda6d8341354"),
  ("Data.UpdatePtVersion", "5bd693590165e8a7"),
  ("Data.ReSharding", "eadf078f2244066e"),
  ("Data.createIndexGroup", "ced451459b14cc52"),
  ("Data.CreateShardGroupWithBounds", "e44f037c93b2b427"),
  ("Data.ExpandGroups", "0432295b1547e634"),
  ("RetentionPolicyInfo.shardingType", "8aa7094c4b00dbef"),
  ("RetentionPolicyInfo.firstMeasurement", "5d220ca70ab0948b"),
  ("Data.MarkTakeover", "5719b6cf0c2c8195"),
  ("Data.MarkBalancer", "4ef14fc767887c9d"),
  ("Data.CreateSubscription", "bb07389541537d54"),
  ("Data.DropSubscription", "d2581e106e9660d1"),
  ("Data.CreateContinuousQueryBase", "8ae65d4121e34b52"),
  ("Data.CreateContinuousQuery", "10d6136e8fab9eb8"),
  ("Data.DropContinuousQueryBase", "1587cf87597d116c"),
  ("Data.DropContinuousQuery", "70be251840753aee"),
  ("Data.BatchUpdateContinuousQueryStat", "69afbb5b4d7631b1"),
  ("ContinuousQueryInfo.UpdateContinuousQueryStat", "18f224978a59a619"),
  ("Data.SetStream", "60a1eff3258465be"),
  ("Data.CreateStream", "475f6ad5b13921a7"),
  ("Data.DropStream", "87ba4c75f52b59cf"),
  ("StreamInfo.Equal", "67c6416c40bf450b"),
  ("Data.CheckStreamExistInDatabase", "83eeb44070bd2437"),
  ("Data.CheckStreamExistInRetention", "98e027968138706c"),
  ("Data.CheckStreamExistInMst", "3932371841b719ba"),
  ("ApplyUpdatePtVersion", "09b2d2f56143f6d0"),
  ("ApplyReSharding", "e19af32d4f39eb95"),
  ("storeFSM.applyDropDatabaseCommand", "371dbd2c5a6c3a5c"),
  ("storeFSM.applyCreateContinuousQueryCommand", "4f3310c8f5c6df30"),
  ("storeFSM.applyDropContinuousQueryCommand", "7dd0ad6299f2f852"),
  ("storeFSM.applyExpandGroupsCommand", "c3da5cf472978e0c")] := by rfl

end OG.C16.Facts
