/-
C16 — two more clauses of well-formedness, proved for every command log:

  * `users`   user names are unique, at most one user is admin, and every privilege names a
              database that exists (DropDatabase revokes the privileges on it);
  * `ptview`  every database's partition view has exactly `ClusterPtNum` partitions, numbered
              0, 1, 2, … in order, each owned by a data node that exists; and the cluster has at
              least `PtNumPerNode` partitions per writer node.
-/
import OG.C16.Defaults
import OG.C16.Issued

namespace OG.C16
open OG.Meta

/-! ### frames: which commands touch which part -/

def touchesPt : Cmd → Bool
  | .createDataNode .. => true
  | .createDbPtView .. => true
  | .dropDatabase .. => true
  | _ => false

def touchesUsers : Cmd → Bool
  | .createUser .. => true
  | .dropUser .. => true
  | .updateUser .. => true
  | .setPrivilege .. => true
  | .setAdminPrivilege .. => true
  | .dropDatabase .. => true
  | _ => false

structure PtPart where
  ptNum : Nat
  perNode : Nat
  nodes : List Node
  view : List (String × List Pt)
deriving DecidableEq

def ptPart (d : Data) : PtPart := ⟨d.clusterPtNum, d.ptNumPerNode, d.dataNodes, d.ptView⟩

macro "frame_close" : tactic =>
  `(tactic| ((repeat' split) <;> (simp [ptPart, fail, done, setRP, setDB, mapRPs, indexGroupFor, createIndexGroup])))

theorem indexGroupFor_ptPart (d : Data) (r : RP) (t : Int) (e : Nat) :
    ptPart (indexGroupFor d r t e).1 = ptPart d ∧ (indexGroupFor d r t e).1.users = d.users := by
  unfold indexGroupFor
  repeat' split
  all_goals simp [ptPart, createIndexGroup]

theorem frame_createShardGroup (p : Nat) (d : Data) (db rp ts tier e v) :
    ptPart (createShardGroup p d db rp ts tier e v).1 = ptPart d ∧ (createShardGroup p d db rp ts tier e v).1.users = d.users := by
  unfold createShardGroup
  split
  · exact ⟨rfl, rfl⟩
  · split
    · exact ⟨rfl, rfl⟩
    · next dbi k r hg =>
      split
      · exact ⟨rfl, rfl⟩
      · split
        · exact ⟨rfl, rfl⟩
        · split
          · exact ⟨rfl, rfl⟩
          · have h := indexGroupFor_ptPart d r ts e
            generalize indexGroupFor d r ts e = x at h
            obtain ⟨d1, r1, ig⟩ := x
            simp only at h ⊢
            simp only [done, setRP, setDB, ptPart] at h ⊢
            exact h

theorem frame_pt (pick : Nat) (d : Data) (c : Cmd) (h : touchesPt c = false) : ptPart (applyP pick d c).1 = ptPart d := by
  cases c with
  | createShardGroup db rp ts tier e v => exact (frame_createShardGroup pick d db rp ts tier e v).1
  | createDataNode _ _ _ => simp [touchesPt] at h
  | createDbPtView _ => simp [touchesPt] at h
  | dropDatabase _ => simp [touchesPt] at h
  | createDatabase n rp rep => simp only [applyP]; unfold createDatabase; simp only; frame_close
  | markDatabaseDelete n => simp only [applyP]; unfold markDatabaseDelete; frame_close
  | createRetentionPolicy db s md => simp only [applyP]; unfold createRetentionPolicy; frame_close
  | dropRetentionPolicy db rp => simp only [applyP]; unfold dropRetentionPolicy; frame_close
  | markRetentionPolicyDelete db rp => simp only [applyP]; unfold markRetentionPolicyDelete; frame_close
  | setDefaultRetentionPolicy db rp => simp only [applyP]; unfold setDefaultRetentionPolicy; frame_close
  | updateRetentionPolicy db rp u => simp only [applyP]; unfold updateRetentionPolicy; simp only; frame_close
  | createMeasurement db rp m ski e fs => simp only [applyP]; unfold createMeasurement; simp only; frame_close
  | alterShardKey db rp m ski => simp only [applyP]; unfold alterShardKey; simp only; frame_close
  | updateSchema db rp m fs => simp only [applyP]; unfold updateSchema; frame_close
  | markMeasurementDelete db rp m => simp only [applyP]; unfold markMeasurementDelete; frame_close
  | dropMeasurement db rp m => simp only [applyP]; unfold dropMeasurement; frame_close
  | deleteShardGroup db rp id t => simp only [applyP]; unfold deleteShardGroup; simp only; frame_close
  | deleteIndexGroup db rp id => simp only [applyP]; unfold deleteIndexGroup; simp only; frame_close
  | pruneGroups sg id => simp only [applyP]; unfold pruneGroups; frame_close
  | updateShardInfoTier s t db rp => simp only [applyP]; unfold updateShardInfoTier; simp only; frame_close
  | createUser n hh a rw => simp only [applyP]; unfold createUser; frame_close
  | dropUser n => simp only [applyP]; unfold dropUser; frame_close
  | updateUser n hh => simp only [applyP]; unfold updateUser; frame_close
  | setPrivilege u db pr => simp only [applyP]; unfold setPrivilege; frame_close
  | setAdminPrivilege u a => simp only [applyP]; unfold setAdminPrivilege; frame_close

theorem frame_users (pick : Nat) (d : Data) (c : Cmd) (h : touchesUsers c = false) : (applyP pick d c).1.users = d.users := by
  cases c with
  | createShardGroup db rp ts tier e v => exact (frame_createShardGroup pick d db rp ts tier e v).2
  | createUser _ _ _ _ => simp [touchesUsers] at h
  | dropUser _ => simp [touchesUsers] at h
  | updateUser _ _ => simp [touchesUsers] at h
  | setPrivilege _ _ _ => simp [touchesUsers] at h
  | setAdminPrivilege _ _ => simp [touchesUsers] at h
  | dropDatabase _ => simp [touchesUsers] at h
  | createDatabase n rp rep => simp only [applyP]; unfold createDatabase; simp only; frame_close
  | markDatabaseDelete n => simp only [applyP]; unfold markDatabaseDelete; frame_close
  | createRetentionPolicy db s md => simp only [applyP]; unfold createRetentionPolicy; frame_close
  | dropRetentionPolicy db rp => simp only [applyP]; unfold dropRetentionPolicy; frame_close
  | markRetentionPolicyDelete db rp => simp only [applyP]; unfold markRetentionPolicyDelete; frame_close
  | setDefaultRetentionPolicy db rp => simp only [applyP]; unfold setDefaultRetentionPolicy; frame_close
  | updateRetentionPolicy db rp u => simp only [applyP]; unfold updateRetentionPolicy; simp only; frame_close
  | createMeasurement db rp m ski e fs => simp only [applyP]; unfold createMeasurement; simp only; frame_close
  | alterShardKey db rp m ski => simp only [applyP]; unfold alterShardKey; simp only; frame_close
  | updateSchema db rp m fs => simp only [applyP]; unfold updateSchema; frame_close
  | markMeasurementDelete db rp m => simp only [applyP]; unfold markMeasurementDelete; frame_close
  | dropMeasurement db rp m => simp only [applyP]; unfold dropMeasurement; frame_close
  | deleteShardGroup db rp id t => simp only [applyP]; unfold deleteShardGroup; simp only; frame_close
  | deleteIndexGroup db rp id => simp only [applyP]; unfold deleteIndexGroup; simp only; frame_close
  | pruneGroups sg id => simp only [applyP]; unfold pruneGroups; frame_close
  | updateShardInfoTier s t db rp => simp only [applyP]; unfold updateShardInfoTier; simp only; frame_close
  | createDataNode hh t r => simp only [applyP]; unfold createDataNode; simp only; frame_close
  | createDbPtView db => simp only [applyP]; unfold createDbPtView; simp only; frame_close

/-! ### database keys survive every command but DropDatabase -/

def KeysKept (d d' : Data) : Prop := ∀ k, (alFind k d.databases).isSome = true → (alFind k d'.databases).isSome = true

theorem keysKept_refl (d : Data) : KeysKept d d := fun _ h => h
theorem keysKept_of_eq {d d' : Data} (h : d'.databases = d.databases) : KeysKept d d' := fun k hk => by rw [h]; exact hk
theorem keysKept_setDB {d d' : Data} (x : DB) (h : d'.databases = d.databases) : KeysKept d (setDB d' x) := by
  intro k hk
  unfold setDB
  simp only
  rw [h]
  exact alFind_alInsert_isSome _ hk
theorem keysKept_setRP {d d' : Data} (x : DB) (k0 : String) (r : RP) (h : d'.databases = d.databases) : KeysKept d (setRP d' x k0 r) :=
  keysKept_setDB _ h
theorem keysKept_mapRPs (f : DB → RP → RP) (d : Data) : KeysKept d (mapRPs f d) := by
  intro k hk
  unfold mapRPs
  simp only
  have := alFind_map_val (fun (_ : String) (x : DB) => ({ x with rps := x.rps.map fun (rk, rp) => (rk, f x rp) } : DB)) k d.databases
  simp only at this
  rw [this]
  cases hf : alFind k d.databases with
  | none => simp [hf] at hk
  | some x => rfl

macro "keys_close" : tactic =>
  `(tactic| ((repeat' split) <;> (first
      | exact keysKept_refl _
      | exact keysKept_of_eq rfl
      | exact keysKept_setDB _ rfl
      | exact keysKept_setRP _ _ _ rfl
      | exact keysKept_mapRPs _ _)))

theorem keysKept_createShardGroup (p : Nat) (d : Data) (db rp ts tier e v) : KeysKept d (createShardGroup p d db rp ts tier e v).1 := by
  unfold createShardGroup
  split
  · exact keysKept_refl d
  · split
    · exact keysKept_refl d
    · next dbi k r hg =>
      split
      · exact keysKept_refl d
      · split
        · exact keysKept_refl d
        · split
          · exact keysKept_refl d
          · have h := indexGroupFor_dbs d r ts e
            generalize indexGroupFor d r ts e = x at h
            obtain ⟨d1, r1, ig⟩ := x
            simp only at h ⊢
            exact keysKept_setRP (d' := _) _ _ _ (by simpa using h)

def isDropDatabase : Cmd → Bool
  | .dropDatabase .. => true
  | _ => false

theorem keysKept_applyP (pick : Nat) (d : Data) (c : Cmd) (h : isDropDatabase c = false) : KeysKept d (applyP pick d c).1 := by
  cases c with
  | dropDatabase _ => simp [isDropDatabase] at h
  | createShardGroup db rp ts tier e v => exact keysKept_createShardGroup pick d db rp ts tier e v
  | createDatabase n rp rep => simp only [applyP]; unfold createDatabase; simp only; keys_close
  | markDatabaseDelete n => simp only [applyP]; unfold markDatabaseDelete; keys_close
  | createRetentionPolicy db s md => simp only [applyP]; unfold createRetentionPolicy; keys_close
  | dropRetentionPolicy db rp => simp only [applyP]; unfold dropRetentionPolicy; keys_close
  | markRetentionPolicyDelete db rp => simp only [applyP]; unfold markRetentionPolicyDelete; keys_close
  | setDefaultRetentionPolicy db rp => simp only [applyP]; unfold setDefaultRetentionPolicy; keys_close
  | updateRetentionPolicy db rp u => simp only [applyP]; unfold updateRetentionPolicy; simp only; keys_close
  | createMeasurement db rp m ski e fs => simp only [applyP]; unfold createMeasurement; simp only; keys_close
  | alterShardKey db rp m ski => simp only [applyP]; unfold alterShardKey; simp only; keys_close
  | updateSchema db rp m fs => simp only [applyP]; unfold updateSchema; keys_close
  | markMeasurementDelete db rp m => simp only [applyP]; unfold markMeasurementDelete; keys_close
  | dropMeasurement db rp m => simp only [applyP]; unfold dropMeasurement; keys_close
  | deleteShardGroup db rp id t => simp only [applyP]; unfold deleteShardGroup; simp only; keys_close
  | deleteIndexGroup db rp id => simp only [applyP]; unfold deleteIndexGroup; simp only; keys_close
  | pruneGroups sg id => simp only [applyP]; unfold pruneGroups; keys_close
  | updateShardInfoTier s t db rp => simp only [applyP]; unfold updateShardInfoTier; simp only; keys_close
  | createDataNode hh t r => simp only [applyP]; unfold createDataNode; simp only; keys_close
  | createDbPtView db => simp only [applyP]; unfold createDbPtView; simp only; keys_close
  | createUser n hh a rw => simp only [applyP]; unfold createUser; keys_close
  | dropUser n => simp only [applyP]; unfold dropUser; keys_close
  | updateUser n hh => simp only [applyP]; unfold updateUser; keys_close
  | setPrivilege u db pr => simp only [applyP]; unfold setPrivilege; keys_close
  | setAdminPrivilege u a => simp only [applyP]; unfold setAdminPrivilege; keys_close

/-! ### clause `users` -/

structure UInv (d : Data) : Prop where
  nodup : d.users.Pairwise (fun a b => a.name ≠ b.name)
  oneAdmin : (d.users.filter (·.admin)).length ≤ 1
  sorted : ∀ u ∈ d.users, SortedKeys u.privileges
  privs : ∀ u ∈ d.users, ∀ p ∈ u.privileges, (alFind p.1 d.databases).isSome = true

theorem usersOK_of_inv {d : Data} (h : UInv d) : usersOK d = true := by
  unfold usersOK
  simp only [Bool.and_eq_true, decide_eq_true_eq, List.all_eq_true]
  refine ⟨⟨?_, h.oneAdmin⟩, fun u hu p hp => h.privs u hu p hp⟩
  rw [pairwiseB_iff]
  exact h.nodup.imp (fun hne => by simpa using hne)

theorem uinv_init : UInv Data.init :=
  ⟨by simp [Data.init], by simp [Data.init], by simp [Data.init], by simp [Data.init]⟩

/-- users untouched, database keys kept -/
theorem uinv_frame {d d' : Data} (h : UInv d) (hu : d'.users = d.users) (hk : KeysKept d d') : UInv d' :=
  ⟨by rw [hu]; exact h.nodup, by rw [hu]; exact h.oneAdmin, by rw [hu]; exact h.sorted,
   by rw [hu]; exact fun u hu' p hp => hk _ (h.privs u hu' p hp)⟩

theorem filter_admin_map {f : User → User} (hf : ∀ u, (f u).admin = u.admin) (l : List User) :
    ((l.map f).filter (·.admin)).length = (l.filter (·.admin)).length := by
  induction l with
  | nil => rfl
  | cons x l ih =>
    simp only [List.map_cons, List.filter_cons, hf]
    split <;> simp [ih]

theorem uinv_createUser {d : Data} (h : UInv d) (n hh : String) (a rw : Bool) : UInv (createUser d n hh a rw).1 := by
  unfold createUser
  split
  · exact h
  · split
    · exact h
    · next hex =>
      split
      · exact h
      · next hadm =>
        simp only [done]
        refine ⟨?_, ?_, ?_, ?_⟩
        · rw [List.pairwise_append]
          refine ⟨h.nodup, by simp, ?_⟩
          intro x hx y hy
          simp only [List.mem_singleton] at hy
          subst hy
          simp only [List.any_eq_true, decide_eq_true_eq, not_exists, not_and] at hex
          exact hex x hx
        · simp only [List.filter_append]
          by_cases ha : a = true
          · have hnone : d.users.filter (·.admin) = [] := by
              rw [List.filter_eq_nil_iff]
              intro u hu hua
              apply hadm
              simp only [ha, List.any_eq_true, decide_true, true_and]
              exact ⟨u, hu, hua⟩
            simp [hnone, List.filter_cons]
            split <;> simp
          · have : a = false := by simpa using ha
            subst this
            simpa [List.filter_cons] using h.oneAdmin
        · intro u hu
          rcases List.mem_append.1 hu with hu | hu
          · exact h.sorted u hu
          · simp only [List.mem_singleton] at hu; subst hu; exact sortedKeys_nil
        · intro u hu p hp
          rcases List.mem_append.1 hu with hu | hu
          · exact h.privs u hu p hp
          · simp only [List.mem_singleton] at hu; subst hu; simp at hp

theorem uinv_dropUser {d : Data} (h : UInv d) (n : String) : UInv (dropUser d n).1 := by
  unfold dropUser
  split
  · exact h
  · split
    · exact h
    · simp only [done]
      refine ⟨h.nodup.filter _, ?_, fun u hu => h.sorted u (List.mem_filter.1 hu).1, fun u hu => h.privs u (List.mem_filter.1 hu).1⟩
      refine Nat.le_trans ?_ h.oneAdmin
      rw [List.filter_filter]
      have : (d.users.filter fun a => a.admin && decide (a.name ≠ n)) = (d.users.filter (·.admin)).filter (fun a => decide (a.name ≠ n)) := by
        rw [List.filter_filter]; congr; funext a; exact Bool.and_comm _ _
      rw [this]
      exact (List.filter_sublist).length_le

theorem uinv_updateUser {d : Data} (h : UInv d) (n hh : String) : UInv (updateUser d n hh).1 := by
  unfold updateUser
  split
  · exact h
  · split
    · exact h
    · simp only [done]
      have hname : ∀ x : User, (if x.name = n then { x with hash := hh } else x).name = x.name := by intro x; split <;> rfl
      have hadm : ∀ x : User, (if x.name = n then { x with hash := hh } else x).admin = x.admin := by intro x; split <;> rfl
      have hpr : ∀ x : User, (if x.name = n then { x with hash := hh } else x).privileges = x.privileges := by intro x; split <;> rfl
      refine ⟨?_, ?_, ?_, ?_⟩
      · rw [List.pairwise_map]
        exact h.nodup.imp (fun hne => by rw [hname, hname]; exact hne)
      · rw [filter_admin_map hadm]; exact h.oneAdmin
      · intro u hu
        simp only [List.mem_map] at hu
        obtain ⟨x, hx, rfl⟩ := hu
        rw [hpr]; exact h.sorted x hx
      · intro u hu p hp
        simp only [List.mem_map] at hu
        obtain ⟨x, hx, rfl⟩ := hu
        rw [hpr] at hp; exact h.privs x hx p hp

theorem uinv_setPrivilege {d : Data} (h : UInv d) (un db : String) (pr : Int) : UInv (setPrivilege d un db pr).1 := by
  unfold setPrivilege
  split
  · exact h
  · split
    · exact h
    · next dbi hd =>
      simp only [done]
      have hname : ∀ x : User, (if x.name = un then { x with privileges := alInsert db pr x.privileges } else x).name = x.name := by
        intro x; split <;> rfl
      have hadm : ∀ x : User, (if x.name = un then { x with privileges := alInsert db pr x.privileges } else x).admin = x.admin := by
        intro x; split <;> rfl
      refine ⟨?_, ?_, ?_, ?_⟩
      · rw [List.pairwise_map]
        exact h.nodup.imp (fun hne => by rw [hname, hname]; exact hne)
      · rw [filter_admin_map hadm]; exact h.oneAdmin
      · intro u hu
        simp only [List.mem_map] at hu
        obtain ⟨x, hx, rfl⟩ := hu
        split
        · exact sortedKeys_alInsert (h.sorted x hx)
        · exact h.sorted x hx
      · intro u hu p hp
        simp only [List.mem_map] at hu
        obtain ⟨x, hx, rfl⟩ := hu
        split at hp
        · rcases mem_alInsert hp with rfl | hp
          · simp [getDatabase_find hd]
          · exact h.privs x hx p hp
        · exact h.privs x hx p hp

theorem uinv_setAdminPrivilege {d : Data} (h : UInv d) (un : String) : UInv (setAdminPrivilege d un).1 := by
  unfold setAdminPrivilege
  split <;> exact h

theorem not_mem_alErase_self {α : Type} {k : String} {l : List (String × α)} (hs : SortedKeys l) {p : String × α} (hp : p ∈ alErase k l) : p.1 ≠ k := by
  intro e
  have h1 := alFind_of_mem (sortedKeys_alErase (k := k) hs) (show (p.1, p.2) ∈ alErase k l from hp)
  rw [e, alFind_alErase_self k hs] at h1
  cases h1

theorem uinv_dropDatabase {d : Data} (h : UInv d) (n : String) : UInv (dropDatabase d n).1 := by
  unfold dropDatabase
  split
  · exact h
  · simp only [done]
    refine ⟨?_, ?_, ?_, ?_⟩
    · rw [List.pairwise_map]
      exact h.nodup
    · show ((d.users.map fun u => ({ u with privileges := alErase n u.privileges } : User)).filter (·.admin)).length ≤ 1
      rw [filter_admin_map (f := fun u => ({ u with privileges := alErase n u.privileges } : User)) (fun _ => rfl)]; exact h.oneAdmin
    · intro u hu
      simp only [List.mem_map] at hu
      obtain ⟨x, hx, rfl⟩ := hu
      exact sortedKeys_alErase (h.sorted x hx)
    · intro u hu p hp
      simp only [List.mem_map] at hu
      obtain ⟨x, hx, rfl⟩ := hu
      simp only at hp
      have hne := not_mem_alErase_self (h.sorted x hx) hp
      rw [alFind_alErase_ne hne]
      exact h.privs x hx p (mem_alErase hp)

theorem uinv_applyP (pick : Nat) {d : Data} (h : UInv d) (c : Cmd) : UInv (applyP pick d c).1 := by
  by_cases ht : touchesUsers c = true
  · cases c with
    | createUser n hh a rw => exact uinv_createUser h n hh a rw
    | dropUser n => exact uinv_dropUser h n
    | updateUser n hh => exact uinv_updateUser h n hh
    | setPrivilege u db p => exact uinv_setPrivilege h u db p
    | setAdminPrivilege u a => exact uinv_setAdminPrivilege h u
    | dropDatabase n => exact uinv_dropDatabase h n
    | _ => simp [touchesUsers] at ht
  · have ht' : touchesUsers c = false := by simpa using ht
    refine uinv_frame h (frame_users pick d c ht') (keysKept_applyP pick d c ?_)
    cases c <;> simp_all [touchesUsers, isDropDatabase]

theorem uinv_applyAll {d : Data} (h : UInv d) (cs : List Cmd) : UInv (applyAll d cs) := by
  induction cs generalizing d with
  | nil => exact h
  | cons c cs ih => exact ih (uinv_applyP 0 h c)

/-- **T10** clause `users` in every reachable state: user names are unique, at most one user is
admin, every privilege names an existing database. -/
theorem users_invariant (log : List Cmd) : usersOK (applyAll Data.init log) = true :=
  usersOK_of_inv (uinv_applyAll uinv_init log)

/-! ### clause `ptview` -/

structure PInv (d : Data) : Prop where
  enough : d.ptNumPerNode * (d.dataNodes.filter isWriterNode).length ≤ d.clusterPtNum
  views : ∀ v ∈ d.ptView, v.2.length = d.clusterPtNum ∧ ptNumbered 0 v.2 = true ∧ ∀ p ∈ v.2, p.owner ∈ nodeIds d

theorem ptViewOK_of_inv {d : Data} (h : PInv d) : ptViewOK d = true := by
  unfold ptViewOK
  simp only [Bool.and_eq_true, decide_eq_true_eq, List.all_eq_true, beq_iff_eq, List.contains_eq_mem]
  exact ⟨h.enough, fun v hv => ⟨⟨(h.views v hv).1, (h.views v hv).2.1⟩, fun p hp => (h.views v hv).2.2 p hp⟩⟩

theorem pinv_init : PInv Data.init := ⟨by simp [Data.init], by simp [Data.init]⟩

theorem pinv_frame {d d' : Data} (h : PInv d) (hp : ptPart d' = ptPart d) : PInv d' := by
  simp only [ptPart, PtPart.mk.injEq] at hp
  obtain ⟨h1, h2, h3, h4⟩ := hp
  refine ⟨by rw [h1, h2, h3]; exact h.enough, ?_⟩
  intro v hv
  rw [h4] at hv
  have := h.views v hv
  simp only [nodeIds] at this ⊢
  rw [h1, h3]
  exact this

theorem ptNumbered_append : ∀ (k : Nat) (a b : List Pt), ptNumbered k (a ++ b) = (ptNumbered k a && ptNumbered (k + a.length) b)
  | k, [], b => by simp [ptNumbered]
  | k, p :: a, b => by
    simp only [List.cons_append, ptNumbered, List.length_cons, ptNumbered_append (k + 1) a b, Bool.and_assoc]
    congr 2
    congr 1
    omega

theorem ptNumbered_ext (own : Nat → Nat) (s ver : Nat) : ∀ (m L : Nat),
    ptNumbered L ((List.range m).map fun i => (⟨own i, s, L + i, ver⟩ : Pt)) = true
  | 0, _ => by simp [ptNumbered]
  | m + 1, L => by
    rw [List.range_succ, List.map_append, ptNumbered_append]
    simp [ptNumbered, ptNumbered_ext own s ver m L]

theorem mem_insertNode_self (n : Node) : ∀ l : List Node, n ∈ insertNode n l
  | [] => by simp [insertNode]
  | x :: rest => by
    unfold insertNode
    split
    · simp
    · exact List.mem_cons_of_mem _ (mem_insertNode_self n rest)

theorem mem_insertNode_old (n : Node) {y : Node} : ∀ {l : List Node}, y ∈ l → y ∈ insertNode n l
  | x :: rest, h => by
    unfold insertNode
    split
    · exact List.mem_cons_of_mem _ h
    · rcases List.mem_cons.1 h with rfl | h
      · simp
      · exact List.mem_cons_of_mem _ (mem_insertNode_old n h)

theorem filter_insertNode (p : Node → Bool) (n : Node) : ∀ l : List Node,
    ((insertNode n l).filter p).length = (l.filter p).length + (if p n then 1 else 0)
  | [] => by simp [insertNode, List.filter_cons]; split <;> simp
  | x :: rest => by
    unfold insertNode
    split
    · simp only [List.filter_cons]
      by_cases h1 : p n = true <;> by_cases h2 : p x = true <;> simp [h1, h2] <;> omega
    · simp only [List.filter_cons]
      by_cases h2 : p x = true <;> simp [h2, filter_insertNode p n rest] <;> omega

theorem updFirst_ids {p : Node → Bool} {f : Node → Node} (hf : ∀ x, (f x).id = x.id) : ∀ l : List Node, (updFirst p f l).map (·.id) = l.map (·.id)
  | [] => rfl
  | x :: rest => by
    unfold updFirst
    split
    · simp [hf]
    · simp [updFirst_ids hf rest]

theorem updFirst_filter {p q : Node → Bool} {f : Node → Node} (hf : ∀ x, q (f x) = q x) : ∀ l : List Node,
    ((updFirst p f l).filter q).length = (l.filter q).length
  | [] => rfl
  | x :: rest => by
    unfold updFirst
    split
    · simp only [List.filter_cons, hf]
      split <;> simp
    · simp only [List.filter_cons]
      split <;> simp [updFirst_filter hf rest]

/-- the data nodes change only in their connection ids -/
theorem pinv_connOnly {d d' : Data} (h : PInv d) (p : Node → Bool) (c : Nat) (h1 : d'.clusterPtNum = d.clusterPtNum)
    (h2 : d'.ptNumPerNode = d.ptNumPerNode) (h3 : d'.dataNodes = updFirst p (fun n => { n with connID := c }) d.dataNodes)
    (h4 : d'.ptView = d.ptView) : PInv d' := by
  have hids : nodeIds d' = nodeIds d := by
    simp only [nodeIds, h3]; exact updFirst_ids (f := fun n => { n with connID := c }) (fun _ => rfl) _
  refine ⟨?_, ?_⟩
  · rw [h1, h2, h3, updFirst_filter (q := isWriterNode) (f := fun n => { n with connID := c }) (fun _ => rfl)]; exact h.enough
  · intro v hv
    rw [h4] at hv
    rw [h1, hids]
    exact h.views v hv

theorem getD_mem : ∀ {l : List Node} {i : Nat}, i < l.length → l.getD i default ∈ l
  | _ :: _, 0, _ => by simp
  | _ :: rest, i + 1, h => by
    simp only [List.getD_cons_succ]
    exact List.mem_cons_of_mem _ (getD_mem (l := rest) (by simpa using h))

theorem pinv_createDbPtView {d : Data} (h : PInv d) (db : String) : PInv (createDbPtView d db).1 := by
  unfold createDbPtView
  split
  · exact h
  · simp only
    split
    · exact h
    · next hw =>
      simp only [done]
      refine ⟨h.enough, ?_⟩
      intro v hv
      rcases mem_alInsert hv with rfl | hv
      · refine ⟨by simp, ?_, ?_⟩
        · have := ptNumbered_ext (fun i => ((d.dataNodes.filter fun x => isWriter x.role).getD (i % (d.dataNodes.filter fun x => isWriter x.role).length) default).id) statusOffline 1 d.clusterPtNum 0
          simpa using this
        · intro p hp
          simp only [List.mem_map, List.mem_range] at hp
          obtain ⟨i, _, rfl⟩ := hp
          simp only [nodeIds, List.mem_map]
          have hpos : 0 < (d.dataNodes.filter fun x => isWriter x.role).length := by
            cases hl : d.dataNodes.filter fun x => isWriter x.role with
            | nil => exact absurd hl hw
            | cons _ _ => simp
          have hm := getD_mem (l := d.dataNodes.filter fun x => isWriter x.role) (Nat.mod_lt i hpos)
          exact ⟨_, (List.mem_filter.1 hm).1, rfl⟩
      · exact h.views v hv

theorem pinv_dropDatabase {d : Data} (h : PInv d) (n : String) : PInv (dropDatabase d n).1 := by
  unfold dropDatabase
  split
  · exact h
  · simp only [done]
    exact ⟨h.enough, fun v hv => h.views v (mem_alErase hv)⟩

theorem pinv_createDataNode {d : Data} (h : PInv d) (httpAddr tcpAddr role : String) : PInv (createDataNode d httpAddr tcpAddr role).1 := by
  unfold createDataNode
  split
  · exact pinv_connOnly h _ _ rfl rfl rfl rfl
  · simp only
    split
    · exact pinv_connOnly h _ _ rfl rfl rfl rfl
    · -- a new node
      simp only [show (fun x : Node => isWriter x.role) = isWriterNode from rfl]
      generalize hn : ({ id := d.maxNodeID + 1, host := httpAddr, tcpHost := tcpAddr, role := role, connID := d.maxConnID + 1 } : Node) = nd
      have hwr : ((insertNode nd d.dataNodes).filter isWriterNode).length =
          (d.dataNodes.filter isWriterNode).length + (if isWriter role then 1 else 0) := by
        have := filter_insertNode isWriterNode nd d.dataNodes
        have hr : isWriterNode nd = isWriter role := by subst hn; rfl
        rw [hr] at this
        exact this
      have hold : ∀ x, x ∈ nodeIds d → x ∈ (insertNode nd d.dataNodes).map (·.id) := by
        intro x hx
        simp only [nodeIds, List.mem_map] at hx ⊢
        obtain ⟨y, hy, rfl⟩ := hx
        exact ⟨y, mem_insertNode_old nd hy, rfl⟩
      have hnew : nd.id ∈ (insertNode nd d.dataNodes).map (·.id) := List.mem_map.2 ⟨nd, mem_insertNode_self nd _, rfl⟩
      rw [hwr]
      generalize hW : d.ptNumPerNode * ((d.dataNodes.filter isWriterNode).length + if isWriter role = true then 1 else 0) = W
      generalize hpt : (if d.clusterPtNum < W then W else d.clusterPtNum) = ptNum
      have hge : d.clusterPtNum ≤ ptNum ∧ W ≤ ptNum := by
        rw [← hpt]; split <;> omega
      split
      · next hreader =>
        -- a reader adds no partitions
        have hnw : isWriter role = false := by subst hreader; decide
        have hWle : W ≤ d.clusterPtNum := by
          rw [← hW, hnw]; simpa using h.enough
        have hpeq : ptNum = d.clusterPtNum := by
          rw [← hpt, if_neg (Nat.not_lt.2 hWle)]
        simp only [done]
        refine ⟨?_, ?_⟩
        · show d.ptNumPerNode * ((insertNode nd d.dataNodes).filter isWriterNode).length ≤ ptNum
          rw [hwr, hW]; exact hge.2
        · intro v hv
          have := h.views v hv
          exact ⟨by rw [hpeq]; exact this.1, this.2.1, fun p hp => hold _ (this.2.2 p hp)⟩
      · simp only [done]
        refine ⟨?_, ?_⟩
        · show d.ptNumPerNode * ((insertNode nd d.dataNodes).filter isWriterNode).length ≤ ptNum
          rw [hwr, hW]; exact hge.2
        · intro v hv
          simp only [List.mem_map] at hv
          obtain ⟨⟨dbn, v0⟩, hv0, rfl⟩ := hv
          have hv' := h.views _ hv0
          simp only at hv' ⊢
          refine ⟨by simp only [List.length_append, List.length_map, List.length_range]; omega, ?_, ?_⟩
          · rw [ptNumbered_append, hv'.2.1]
            simp only [Bool.true_and, Nat.zero_add]
            subst hn
            exact ptNumbered_ext (fun _ => d.maxNodeID + 1) statusOffline 1 _ _
          · intro p hp
            rcases List.mem_append.1 hp with hp | hp
            · exact hold _ (hv'.2.2 p hp)
            · simp only [List.mem_map, List.mem_range] at hp
              obtain ⟨i, _, rfl⟩ := hp
              subst hn
              exact hnew

theorem pinv_applyP (pick : Nat) {d : Data} (h : PInv d) (c : Cmd) : PInv (applyP pick d c).1 := by
  by_cases ht : touchesPt c = true
  · cases c with
    | createDataNode hh t r => exact pinv_createDataNode h hh t r
    | createDbPtView db => exact pinv_createDbPtView h db
    | dropDatabase n => exact pinv_dropDatabase h n
    | _ => simp [touchesPt] at ht
  · exact pinv_frame h (frame_pt pick d c (by simpa using ht))

theorem pinv_applyAll {d : Data} (h : PInv d) (cs : List Cmd) : PInv (applyAll d cs) := by
  induction cs generalizing d with
  | nil => exact h
  | cons c cs ih => exact ih (pinv_applyP 0 h c)

/-- **T11** clause `ptview` in every reachable state: every partition view has exactly
`ClusterPtNum` partitions numbered 0, 1, 2, …, each owned by an existing data node, and the
cluster has at least `PtNumPerNode` partitions per writer node. -/
theorem ptview_invariant (log : List Cmd) : ptViewOK (applyAll Data.init log) = true :=
  ptViewOK_of_inv (pinv_applyAll pinv_init log)

/-- non-vacuity: two writer nodes, a database created in between: its view is grown to two partitions -/
example : (applyAll Data.init [.createDataNode "n1:8400" "n1:8401" "", .createDatabase "db0" none 1, .createDbPtView "db0",
    .createDataNode "n2:8400" "n2:8401" ""]).ptView = [("db0", [⟨1, 3, 0, 1⟩, ⟨2, 3, 1, 1⟩])] := by decide +kernel

end OG.C16
