/-
C16 — `Inv` (ids bounded by the counters, groups sorted) is preserved by every command.
-/
import OG.C16.InvLemmas

namespace OG.C16
open OG.Meta

variable {d : Data}

theorem rpok_empty (c : Ctr) (s : RPSpec) (y : Durs) : RPOk c (s.toRP y) :=
  ⟨by simp [RPSpec.toRP], by simp [RPSpec.toRP], by simp [RPSpec.toRP], by simp [RPSpec.toRP], by simp [RPSpec.toRP],
   by simp [RPSpec.toRP, sortedRP, pairwiseB]⟩

theorem checkCanCreateRP_create {db : DB} {s : RPSpec} {md : Bool} {r : RP} (h : checkCanCreateRP db s md = .create r) :
    ∃ y, r = s.toRP y := by
  unfold checkCanCreateRP at h
  split at h
  · cases h
  · split at h
    · cases h
    · next y hy =>
      split at h
      · split at h
        · cases h
        · cases h; exact ⟨y, rfl⟩
      · split at h
        · cases h
        · split at h <;> cases h

theorem rpsOk_of_mem (hinv : Inv d) {n : String} {db : DB} (hm : (n, db) ∈ d.databases) : ∀ kr ∈ db.rps, RPOk (ctr d) kr.2 :=
  fun kr hkr => hinv.1 kr.2 (mem_allRPs.2 ⟨_, hm, kr, hkr, rfl⟩)

theorem inv_createDatabase (hinv : Inv d) (n : String) (rp : Option RPSpec) (rep : Nat) : Inv (createDatabase d n rp rep).1 := by
  unfold createDatabase
  simp only
  repeat' split
  all_goals first
    | exact hinv
    | (obtain ⟨y, rfl⟩ := checkCanCreateRP_create (by assumption)
       apply inv_setDB hinv
       intro kr hkr
       simp only [DB.setRetentionPolicy] at hkr
       rcases mem_alInsert hkr with rfl | hkr
       · exact rpok_empty _ _ _
       · simp at hkr)

theorem inv_dropDatabase (hinv : Inv d) (n : String) : Inv (dropDatabase d n).1 := by
  unfold dropDatabase
  split
  · exact hinv
  · exact inv_sub hinv (fun rp hrp => allRPs_erase (d := d) rfl hrp) rfl (Ctr.le_refl _)

theorem inv_markDatabaseDelete (hinv : Inv d) (n : String) : Inv (markDatabaseDelete d n).1 := by
  unfold markDatabaseDelete
  split
  · exact hinv
  · next db hf =>
    split
    · exact hinv
    · exact inv_setDB hinv (fun kr hkr => rpsOk_of_mem hinv (alFind_mem hf) kr hkr)

theorem inv_createRetentionPolicy (hinv : Inv d) (db : String) (s : RPSpec) (md : Bool) : Inv (createRetentionPolicy d db s md).1 := by
  unfold createRetentionPolicy
  split
  · exact hinv
  · next dbi hd =>
    have hm := (getDatabase_ok hd).1
    split
    · exact hinv
    · exact hinv
    · next r hr =>
      obtain ⟨y, rfl⟩ := checkCanCreateRP_create hr
      apply inv_setDB hinv
      intro kr hkr
      simp only [DB.setRetentionPolicy] at hkr
      rcases mem_alInsert hkr with rfl | hkr
      · exact rpok_empty _ _ _
      · exact rpsOk_of_mem hinv hm kr hkr

theorem inv_dropRetentionPolicy (hinv : Inv d) (db rp : String) : Inv (dropRetentionPolicy d db rp).1 := by
  unfold dropRetentionPolicy
  split
  · exact hinv
  · next dbi hd =>
    have hm := (getDatabase_ok hd).1
    apply inv_setDB hinv
    intro kr hkr
    exact rpsOk_of_mem hinv hm kr (mem_alErase hkr)

theorem inv_markRetentionPolicyDelete (hinv : Inv d) (db rp : String) : Inv (markRetentionPolicyDelete d db rp).1 := by
  unfold markRetentionPolicyDelete
  split
  · exact hinv
  · next dbi k r hg =>
    have h := rpok_of_getRP hinv hg
    exact inv_setRP hinv rfl rfl (Ctr.le_refl _) (getRP_ok hg).1 ⟨h.sgBound, h.shardBound, h.igBound, h.idxBound, h.mstBound, h.sorted⟩

theorem inv_setDefaultRetentionPolicy (hinv : Inv d) (db rp : String) : Inv (setDefaultRetentionPolicy d db rp).1 := by
  unfold setDefaultRetentionPolicy
  split
  · exact hinv
  · next dbi hd =>
    have hm := (getDatabase_ok hd).1
    split
    · exact hinv
    · exact inv_setDB hinv (fun kr hkr => rpsOk_of_mem hinv hm kr hkr)

theorem mem_writeBack {dbi : DB} {k newName : String} {r r' : RP} {md : Bool} {kr : String × RP}
    (h : kr ∈ (writeBack dbi k newName r r' md).rps) : kr.2 = r' ∨ kr ∈ dbi.rps := by
  unfold writeBack at h
  simp only at h
  split at h
  · simp only at h
    rcases mem_alInsert h with rfl | h
    · exact Or.inl rfl
    · exact Or.inr (mem_alErase (mem_alErase h))
  · simp only at h
    rcases mem_alInsert h with rfl | h
    · exact Or.inl rfl
    · exact Or.inr h

theorem inv_updateRetentionPolicy (hinv : Inv d) (db rp : String) (u : RPUpdate) : Inv (updateRetentionPolicy d db rp u).1 := by
  unfold updateRetentionPolicy
  split
  · exact hinv
  · next dbi hd =>
    have hm := (getDatabase_ok hd).1
    split
    · exact hinv
    · next k r hr =>
      have hkr := (DB.getRP_ok hr).1
      have h := rpsOk_of_mem hinv hm (k, r) hkr
      simp only at h
      split
      · exact hinv
      · simp only
        split
        · exact hinv
        · apply inv_setDB hinv
          intro kr hmem
          rcases mem_writeBack hmem with he | hmem
          · rw [he]; exact ⟨h.sgBound, h.shardBound, h.igBound, h.idxBound, h.mstBound, h.sorted⟩
          · exact rpsOk_of_mem hinv hm kr hmem

theorem ctr_le_mst (d : Data) : (ctr d).le (ctr { d with maxMstID := d.maxMstID + 1 }) := by
  simp [Ctr.le, ctr]

theorem inv_createMeasurement (hinv : Inv d) (pick : Nat) (db rp m : String) (ski : Option ShardKey) (e : Nat) (fs : List FieldReq) :
    Inv (createMeasurement pick d db rp m ski e fs).1 := by
  unfold createMeasurement
  split
  · exact hinv
  · next dbi k r hg =>
    have h := (rpok_of_getRP hinv hg).mono (ctr_le_mst d)
    have hd := (getRP_ok hg).1
    simp only
    repeat' split
    all_goals first
      | exact hinv
      | (apply inv_setRP (d' := { d with maxMstID := d.maxMstID + 1 }) hinv rfl rfl (ctr_le_mst d) hd
         exact ⟨h.sgBound, h.shardBound, h.igBound, h.idxBound, mstBound_setMst h.mstBound (by simp [ctr]), h.sorted⟩)

theorem inv_alterShardKey (hinv : Inv d) (pick : Nat) (db rp m : String) (ski : Option ShardKey) : Inv (alterShardKey pick d db rp m ski).1 := by
  unfold alterShardKey
  split
  · exact hinv
  · next dbi k r hg =>
    have h := rpok_of_getRP hinv hg
    have hd := (getRP_ok hg).1
    split
    · exact hinv
    · next ms hms =>
      have hmem := measurement_mem hms
      simp only
      repeat' split
      all_goals first
        | exact hinv
        | exact inv_setRP hinv rfl rfl (Ctr.le_refl _) hd (rpok_setMst h (h.mstBound ms hmem))

theorem inv_updateSchema (hinv : Inv d) (db rp m : String) (fs : List FieldReq) : Inv (updateSchema d db rp m fs).1 := by
  unfold updateSchema
  split
  · exact hinv
  · next dbi k r ms hg =>
    obtain ⟨hg', hmem⟩ := getMeasurement_mem hg
    have h := rpok_of_getRP hinv hg'
    split
    · exact hinv
    · exact inv_setRP hinv rfl rfl (Ctr.le_refl _) (getRP_ok hg').1 (rpok_setMst h (h.mstBound ms hmem))

theorem inv_markMeasurementDelete (hinv : Inv d) (db rp m : String) : Inv (markMeasurementDelete d db rp m).1 := by
  unfold markMeasurementDelete
  split
  · exact hinv
  · next dbi k r ms hg =>
    obtain ⟨hg', hmem⟩ := getMeasurement_mem hg
    have h := rpok_of_getRP hinv hg'
    exact inv_setRP hinv rfl rfl (Ctr.le_refl _) (getRP_ok hg').1 (rpok_setMst h (h.mstBound ms hmem))

theorem inv_dropMeasurement (hinv : Inv d) (db rp m : String) : Inv (dropMeasurement d db rp m).1 := by
  unfold dropMeasurement
  split
  · exact hinv
  · next dbi k r hg =>
    have h := rpok_of_getRP hinv hg
    exact inv_setRP hinv rfl rfl (Ctr.le_refl _) (getRP_ok hg).1
      ⟨h.sgBound, h.shardBound, h.igBound, h.idxBound, fun x hx => h.mstBound x (List.mem_filter.1 hx).1, h.sorted⟩

/-- what `createIndexGroup` / `indexGroupFor` return: same databases and nodes, counters not
lower, the policy ok, same shard groups, shard counters untouched -/
def IGResult (d : Data) (r : RP) (x : Data × RP × IG) : Prop :=
  x.1.databases = d.databases ∧ x.1.dataNodes = d.dataNodes ∧ (ctr d).le (ctr x.1) ∧ RPOk (ctr x.1) x.2.1 ∧
  x.2.1.shardGroups = r.shardGroups ∧ x.1.maxShardGroupID = d.maxShardGroupID ∧ x.1.maxShardID = d.maxShardID

theorem createIndexGroup_ok (d : Data) (r : RP) (t : Int) (e : Nat) (h : RPOk (ctr d) r) : IGResult d r (createIndexGroup d r t e) := by
  unfold IGResult createIndexGroup
  simp only
  have hc : (ctr d).le (ctr { d with maxIndexGroupID := d.maxIndexGroupID + 1, maxIndexID := d.maxIndexID + d.clusterPtNum }) := by
    simp [Ctr.le, ctr]
  have h' := h.mono hc
  refine ⟨trivial, trivial, hc, ?_, trivial, trivial, trivial⟩
  refine ⟨h'.sgBound, h'.shardBound, ?_, ?_, h'.mstBound, h'.sorted⟩
  · intro g hg
    rcases mem_insertIG hg with rfl | hg
    · simp [ctr]
    · exact h'.igBound g hg
  · intro g hg x hx
    rcases mem_insertIG hg with rfl | hg
    · simp only [mkIndexes, List.mem_map, List.mem_range] at hx
      obtain ⟨i, hi, rfl⟩ := hx
      simp only [ctr]
      omega
    · exact h'.idxBound g hg x hx

theorem indexGroupFor_ok (d : Data) (r : RP) (t : Int) (e : Nat) (h : RPOk (ctr d) r) : IGResult d r (indexGroupFor d r t e) := by
  unfold indexGroupFor
  split
  · split
    · exact ⟨rfl, rfl, Ctr.le_refl _, h, rfl, rfl, rfl⟩
    · exact createIndexGroup_ok d r t e h
  · exact createIndexGroup_ok d r t e h

theorem mem_mkShards {d : Data} {r : RP} {m : Mst} {ig : IG} {tier : Nat} {s : Shard} (h : s ∈ mkShards d r m ig tier) :
    d.maxShardID < s.id ∧ s.id ≤ d.maxShardID + (mkShards d r m ig tier).length := by
  unfold mkShards at h ⊢
  simp only [List.mem_map, List.mem_range, List.length_map, List.length_range] at h ⊢
  obtain ⟨i, hi, rfl⟩ := h
  split <;> simp only <;> omega

theorem inv_createShardGroup (hinv : Inv d) (pick : Nat) (db rp : String) (ts : Int) (tier e v : Nat) :
    Inv (createShardGroup pick d db rp ts tier e v).1 := by
  unfold createShardGroup
  split
  · exact hinv
  · split
    · exact hinv
    · next dbi k r hg =>
      have h := rpok_of_getRP hinv hg
      have hd := (getRP_ok hg).1
      split
      · exact hinv
      · split
        · exact hinv
        · next msti hpick =>
          split
          · exact hinv
          · have hres := indexGroupFor_ok d r ts e h
            generalize indexGroupFor d r ts e = x at hres
            obtain ⟨d1, r1, ig⟩ := x
            obtain ⟨h1, h2, h3, h4, h5, h6, h7⟩ := hres
            simp only at h1 h2 h3 h4 h5 h6 h7 ⊢
            let n := (mkShards d1 r1 msti ig tier).length
            have hc2 : (ctr d1).le (ctr { d1 with maxShardGroupID := d1.maxShardGroupID + 1, maxShardID := d1.maxShardID + n }) := by
              simp [Ctr.le, ctr]
            apply inv_setRP (d' := { d1 with maxShardGroupID := d1.maxShardGroupID + 1, maxShardID := d1.maxShardID + n }) hinv
              (by simpa using h1) (by simpa using h2) (Ctr.le_trans h3 hc2) hd
            have h4' := h4.mono hc2
            refine ⟨?_, ?_, h4'.igBound, h4'.idxBound, h4'.mstBound, ?_⟩
            · intro g hgm
              rcases mem_insertSG.1 hgm with rfl | hgm
              · simp [ctr]
              · exact h4'.sgBound g hgm
            · intro g hgm s hs
              rcases mem_insertSG.1 hgm with rfl | hgm
              · exact (mem_mkShards hs).2
              · exact h4'.shardBound g hgm s hs
            · rw [sortedRP_iff]
              exact sorted_insertSG _ _ ((sortedRP_iff r1).1 h4.sorted)

theorem rpok_updSG {c : Ctr} {r : RP} (p : SG → Bool) (f : SG → SG) (h : RPOk c r)
    (hid : ∀ g, (f g).id = g.id) (hspan : ∀ g, (f g).start = g.start ∧ (f g).stop = g.stop)
    (hsh : ∀ g, ∀ s ∈ (f g).shards, ∃ s0 ∈ g.shards, s.id = s0.id) :
    RPOk c { r with shardGroups := updFirst p f r.shardGroups } := by
  refine ⟨?_, ?_, h.igBound, h.idxBound, h.mstBound, ?_⟩
  · intro g hg
    rcases mem_updFirst hg with hg | ⟨z, hz, rfl⟩
    · exact h.sgBound g hg
    · rw [hid]; exact h.sgBound z hz
  · intro g hg s hs
    rcases mem_updFirst hg with hg | ⟨z, hz, rfl⟩
    · exact h.shardBound g hg s hs
    · obtain ⟨s0, hs0, he⟩ := hsh z s hs
      rw [he]; exact h.shardBound z hz s0 hs0
  · rw [sortedRP_iff]
    apply pairwise_updFirst _ _ _ ((sortedRP_iff r).1 h.sorted)
    · intro a b hab
      unfold leSG at hab ⊢
      rw [(hspan a).1, (hspan a).2]; exact hab
    · intro a b hab
      unfold leSG at hab ⊢
      rw [(hspan b).1, (hspan b).2]; exact hab

theorem inv_deleteShardGroup (hinv : Inv d) (db rp : String) (id : Nat) (t : Int) : Inv (deleteShardGroup d db rp id t).1 := by
  unfold deleteShardGroup
  split
  · exact hinv
  · next dbi k r hg =>
    have h := rpok_of_getRP hinv hg
    exact inv_setRP hinv rfl rfl (Ctr.le_refl _) (getRP_ok hg).1
      (rpok_updSG _ _ h (fun _ => rfl) (fun _ => ⟨rfl, rfl⟩) (fun g s hs => ⟨s, hs, rfl⟩))

theorem inv_deleteIndexGroup (hinv : Inv d) (db rp : String) (id : Nat) : Inv (deleteIndexGroup d db rp id).1 := by
  unfold deleteIndexGroup
  split
  · exact hinv
  · next dbi k r hg =>
    have h := rpok_of_getRP hinv hg
    apply inv_setRP hinv rfl rfl (Ctr.le_refl _) (getRP_ok hg).1
    refine ⟨h.sgBound, h.shardBound, ?_, ?_, h.mstBound, h.sorted⟩
    · intro g hgm
      rcases mem_updFirst hgm with hgm | ⟨z, hz, rfl⟩
      · exact h.igBound g hgm
      · exact h.igBound z hz
    · intro g hgm x hx
      rcases mem_updFirst hgm with hgm | ⟨z, hz, rfl⟩
      · exact h.idxBound g hgm x hx
      · exact h.idxBound z hz x hx

theorem inv_pruneGroups (hinv : Inv d) (sg : Bool) (id : Nat) : Inv (pruneGroups d sg id).1 := by
  unfold pruneGroups
  split
  · exact inv_mapRPs _ (fun db rp h => rpok_pruneShardGroupsRP id db.markDeleted rp h) hinv
  · exact inv_mapRPs _ (fun _ rp h => rpok_pruneIGs id rp h) hinv

theorem inv_createDataNode (hinv : Inv d) (h t r : String) : Inv (createDataNode d h t r).1 := by
  have hupd : ∀ (p : Node → Bool) (c : Nat), ∀ nd ∈ updFirst p (fun n => { n with connID := c }) d.dataNodes, nd.id ≤ d.maxNodeID := by
    intro p c nd hnd
    rcases mem_updFirst hnd with hnd | ⟨z, hz, rfl⟩
    · exact hinv.2 nd hnd
    · exact hinv.2 z hz
  unfold createDataNode
  split
  · exact ⟨fun rp hrp => hinv.1 rp hrp, hupd _ _⟩
  · simp only
    split
    · exact ⟨fun rp hrp => hinv.1 rp hrp, hupd _ _⟩
    · have hnodes : ∀ nd ∈ insertNode { id := d.maxNodeID + 1, host := h, tcpHost := t, role := r, connID := d.maxConnID + 1 } d.dataNodes,
          nd.id ≤ d.maxNodeID + 1 := by
        intro nd hnd
        rcases mem_insertNode hnd with rfl | hnd
        · simp
        · have := hinv.2 nd hnd; omega
      have hrps : ∀ (d' : Data), d'.databases = d.databases → (ctr d).le (ctr d') → ∀ rp ∈ allRPs d', RPOk (ctr d') rp := by
        intro d' hdb hc rp hrp
        rw [allRPs_of_dbs_eq hdb] at hrp
        exact (hinv.1 rp hrp).mono hc
      split
      · exact ⟨hrps _ rfl (by simp [Ctr.le, ctr, done]), hnodes⟩
      · exact ⟨hrps _ rfl (by simp [Ctr.le, ctr, done]), hnodes⟩

theorem inv_createDbPtView (hinv : Inv d) (db : String) : Inv (createDbPtView d db).1 := by
  unfold createDbPtView
  split
  · exact hinv
  · simp only
    split
    · exact hinv
    · exact inv_of_eq hinv rfl rfl (Ctr.le_refl _)

theorem inv_updateShardInfoTier (hinv : Inv d) (s t : Nat) (db rp : String) : Inv (updateShardInfoTier d s t db rp).1 := by
  unfold updateShardInfoTier
  split
  · exact hinv
  · next dbi k r hg =>
    have h := rpok_of_getRP hinv hg
    split
    · apply inv_setRP hinv rfl rfl (Ctr.le_refl _) (getRP_ok hg).1
      apply rpok_updSG (fun g => g.shards.any (·.id = s))
        (fun g => { g with shards := updFirst (·.id = s) (fun x => { x with tier := t }) g.shards }) h (fun _ => rfl) (fun _ => ⟨rfl, rfl⟩)
      intro g s' hs'
      rcases mem_updFirst hs' with hs' | ⟨z, hz, rfl⟩
      · exact ⟨s', hs', rfl⟩
      · exact ⟨z, hz, rfl⟩
    · exact hinv

theorem inv_users (hinv : Inv d) {d' : Data} (h1 : d'.databases = d.databases) (h2 : d'.dataNodes = d.dataNodes) (h3 : ctr d' = ctr d) : Inv d' :=
  inv_of_eq hinv h1 h2 (by rw [h3]; exact Ctr.le_refl _)

theorem inv_createUser (hinv : Inv d) (n h : String) (a rw : Bool) : Inv (createUser d n h a rw).1 := by
  unfold createUser
  repeat' split
  all_goals first | exact hinv | exact inv_users hinv rfl rfl rfl

theorem inv_dropUser (hinv : Inv d) (n : String) : Inv (dropUser d n).1 := by
  unfold dropUser
  repeat' split
  all_goals first | exact hinv | exact inv_users hinv rfl rfl rfl

theorem inv_updateUser (hinv : Inv d) (n h : String) : Inv (updateUser d n h).1 := by
  unfold updateUser
  repeat' split
  all_goals first | exact hinv | exact inv_users hinv rfl rfl rfl

theorem inv_setPrivilege (hinv : Inv d) (u db : String) (p : Int) : Inv (setPrivilege d u db p).1 := by
  unfold setPrivilege
  repeat' split
  all_goals first | exact hinv | exact inv_users hinv rfl rfl rfl

theorem inv_setAdminPrivilege (hinv : Inv d) (u : String) : Inv (setAdminPrivilege d u).1 := by
  unfold setAdminPrivilege
  split <;> exact hinv

theorem inv_applyP (pick : Nat) (hinv : Inv d) (c : Cmd) : Inv (applyP pick d c).1 := by
  cases c with
  | createDatabase n rp rep => exact inv_createDatabase hinv n rp rep
  | dropDatabase n => exact inv_dropDatabase hinv n
  | markDatabaseDelete n => exact inv_markDatabaseDelete hinv n
  | createRetentionPolicy db s md => exact inv_createRetentionPolicy hinv db s md
  | dropRetentionPolicy db rp => exact inv_dropRetentionPolicy hinv db rp
  | markRetentionPolicyDelete db rp => exact inv_markRetentionPolicyDelete hinv db rp
  | setDefaultRetentionPolicy db rp => exact inv_setDefaultRetentionPolicy hinv db rp
  | updateRetentionPolicy db rp u => exact inv_updateRetentionPolicy hinv db rp u
  | createMeasurement db rp m ski e fs => exact inv_createMeasurement hinv pick db rp m ski e fs
  | alterShardKey db rp m ski => exact inv_alterShardKey hinv pick db rp m ski
  | updateSchema db rp m fs => exact inv_updateSchema hinv db rp m fs
  | markMeasurementDelete db rp m => exact inv_markMeasurementDelete hinv db rp m
  | dropMeasurement db rp m => exact inv_dropMeasurement hinv db rp m
  | createShardGroup db rp ts tier e v => exact inv_createShardGroup hinv pick db rp ts tier e v
  | deleteShardGroup db rp id t => exact inv_deleteShardGroup hinv db rp id t
  | deleteIndexGroup db rp id => exact inv_deleteIndexGroup hinv db rp id
  | pruneGroups sg id => exact inv_pruneGroups hinv sg id
  | createDataNode h t r => exact inv_createDataNode hinv h t r
  | createDbPtView db => exact inv_createDbPtView hinv db
  | updateShardInfoTier s t db rp => exact inv_updateShardInfoTier hinv s t db rp
  | createUser n h a rw => exact inv_createUser hinv n h a rw
  | dropUser n => exact inv_dropUser hinv n
  | updateUser n h => exact inv_updateUser hinv n h
  | setPrivilege u db p => exact inv_setPrivilege hinv u db p
  | setAdminPrivilege u a => exact inv_setAdminPrivilege hinv u

end OG.C16
