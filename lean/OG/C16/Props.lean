/-
C16 — property theorems (part 1: failed commands, the full invariant and its counterexamples).

Property: after any sequence of administrative commands the catalogue is well-formed (`WF`,
OG/C16/WF.lean); a command that fails leaves the catalogue unchanged.
-/
import OG.C16.WF
import OG.C16.Failed

namespace OG.C16
open OG.Meta

/-- **T1** a command that fails — returns an error or panics — leaves the catalogue unchanged
(every modelled command, every state, every map order). -/
theorem failed_cmd_unchanged (d : Data) (c : Cmd) (h : (apply d c).2 ≠ .ok) : (apply d c).1 = d := by
  apply failed_unchanged_pick d 0 c
  unfold apply at h
  cases hr : (applyP 0 d c).2 <;> simp_all [Result.failed]

/-- non-vacuity: a schema request with an internal conflict fails and changes nothing (before
the repair `a` had already been added). -/
example :
    let d := applyAll Data.init [.createDataNode "n:8400" "n:8401" "", .createDatabase "db0" none 1,
      .createMeasurement "db0" "autogen" "m0" (some ⟨["t0"], "hash", 0⟩) 0 [⟨"b", 3, none⟩]]
    (apply d (.updateSchema "db0" "autogen" "m0" [⟨"a", 1, none⟩, ⟨"b", 4, none⟩])).2 = .err eFieldTypeConflict := by decide +kernel

/-- **the full invariant**: every command preserves well-formedness. -/
def wf_invariant_full : Prop := ∀ (d : Data) (c : Cmd), WF d → WF (apply d c).1

/-- a policy with the live group [4h,6h) under a 2h shard-group duration -/
def twoHourLog : List Cmd := [
  .createDataNode "n:8400" "n:8401" "",
  .createDatabase "db0" (some ⟨"autogen", 1, 0, 2 * hour, 0, 0, 0, 0, 0⟩) 1,
  .createDbPtView "db0",
  .createMeasurement "db0" "autogen" "m0" (some ⟨["t0"], "hash", 0⟩) 0 [],
  .createShardGroup "db0" "autogen" (4 * hour) 1 0 0]

def setDuration (h : Int) : Cmd :=
  .updateRetentionPolicy "db0" "autogen" ⟨none, none, some (h * hour), none, none, none, none, false⟩

/-- **the full invariant is false on the code as it is** — three independent witnesses found
by the model and replayed on the real state machine (findings `group_after_duration_change`,
`cancel_delete_resurrects_stale_group`, `index_pruned_under_live_shard`). -/
theorem wf_invariant_full_false : ¬ wf_invariant_full := by
  intro h
  -- group [4h,6h) under 2h; alter to 3h: the live group is no longer duration-aligned
  have := h (applyAll Data.init twoHourLog) (setDuration 3) (by decide +kernel)
  revert this
  decide +kernel

/-- witness 1, continued: after the duration change a group created at 3h30 is [3h,6h) and
overlaps the live [4h,6h). -/
theorem overlap_after_duration_change :
    let d := applyAll Data.init (twoHourLog ++ [setDuration 3, .createShardGroup "db0" "autogen" (3 * hour + hour / 2) 1 0 0])
    groupsDisjoint d = false ∧ ((allSGs d).map fun g => (g.start / hour, g.stop / hour, g.deleted)) = [(3, 6, false), (4, 6, false)] := by
  decide +kernel

/-- witness 2: delete [4h,6h), create it again, cancel the delete: two live groups on one span. -/
theorem overlap_after_cancel_delete :
    let d := applyAll Data.init (twoHourLog ++ [.deleteShardGroup "db0" "autogen" 1 0, .createShardGroup "db0" "autogen" (4 * hour) 1 0 0])
    WF d ∧ ¬ WF (apply d (.deleteShardGroup "db0" "autogen" 1 1)).1 := by
  decide +kernel

/-- witness 3: pruning the only index of the index group leaves the shard with a dangling IndexID. -/
theorem dangling_index_after_prune :
    let d := applyAll Data.init twoHourLog
    WF d ∧ refsValid (apply d (.pruneGroups false 1)).1 = false := by
  decide +kernel

/-- witness 4 (why `safe` bounds the instant of CreateShardGroup by MaxNanoTime): the group
created for MaxNanoTime ends at the clamp MaxNanoTime+1 = MaxInt64 and does not contain the
instant MaxInt64, so a CreateShardGroup for that instant adds a second live group on the same
span (finding `group_beyond_max_nanotime`). -/
theorem overlap_at_max_int64 :
    let d := applyAll Data.init (twoHourLog ++ [.createShardGroup "db0" "autogen" maxNanoTime 1 0 0])
    WF d ∧ groupsDisjoint (apply d (.createShardGroup "db0" "autogen" (maxNanoTime + 1) 1 0 0)).1 = false := by
  decide +kernel

end OG.C16
