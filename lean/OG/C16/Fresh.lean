/-
C16 — ids are never handed out twice: every id in use after a command was in use before it, or
is above the counter the command started from (counters are monotone, ids in use stay below
them: `Inv`). Proved once for an abstract predicate on ids (`IdPred`), instantiated with
"old or above the old counter".
-/
import OG.C16.Counters

namespace OG.C16
open OG.Meta

structure IdPred where
  sg : Nat → Prop
  shard : Nat → Prop
  ig : Nat → Prop
  idx : Nat → Prop
  mst : Nat → Prop
  node : Nat → Prop

structure RPOkP (P : IdPred) (rp : RP) : Prop where
  sgB : ∀ g ∈ rp.shardGroups, P.sg g.id
  shardB : ∀ g ∈ rp.shardGroups, ∀ s ∈ g.shards, P.shard s.id
  igB : ∀ g ∈ rp.indexGroups, P.ig g.id
  idxB : ∀ g ∈ rp.indexGroups, ∀ x ∈ g.indexes, P.idx x.id
  mstB : ∀ m ∈ rp.msts, P.mst m.id

def InvP (P : IdPred) (d : Data) : Prop := (∀ rp ∈ allRPs d, RPOkP P rp) ∧ ∀ n ∈ d.dataNodes, P.node n.id

/-- the ids a command may hand out in state `d` satisfy `P` -/
structure NewIds (P : IdPred) (d : Data) : Prop where
  sg : P.sg (d.maxShardGroupID + 1)
  shard : ∀ i, P.shard (d.maxShardID + 1 + i)
  ig : P.ig (d.maxIndexGroupID + 1)
  idx : ∀ i, P.idx (d.maxIndexID + 1 + i)
  mst : P.mst d.maxMstID
  node : P.node (d.maxNodeID + 1)

variable {P : IdPred} {d : Data}

theorem invP_setRP {d' : Data} {n k : String} {dbi : DB} {r' : RP} (hinv : InvP P d) (hdbs : d'.databases = d.databases)
    (hnodes : d'.dataNodes = d.dataNodes) (hd : (n, dbi) ∈ d.databases) (hr' : RPOkP P r') : InvP P (setRP d' dbi k r') := by
  constructor
  · intro rp hrp
    have hd' : (n, dbi) ∈ d'.databases := by rw [hdbs]; exact hd
    rcases allRPs_setRP hd' hrp with rfl | hrp
    · exact hr'
    · rw [allRPs_of_dbs_eq hdbs] at hrp
      exact hinv.1 rp hrp
  · intro nd hnd
    have : nd ∈ d.dataNodes := by simpa [setRP, setDB, hnodes] using hnd
    exact hinv.2 nd this

theorem invP_setDB {db : DB} (hinv : InvP P d) (hdb : ∀ kr ∈ db.rps, RPOkP P kr.2) : InvP P (setDB d db) := by
  constructor
  · intro rp hrp
    rcases allRPs_setDB hrp with ⟨kr, hkr, rfl⟩ | hrp
    · exact hdb kr hkr
    · exact hinv.1 rp hrp
  · exact hinv.2

theorem invP_of_eq {d' : Data} (hinv : InvP P d) (hdbs : d'.databases = d.databases) (hnodes : d'.dataNodes = d.dataNodes) : InvP P d' := by
  constructor
  · intro rp hrp
    rw [allRPs_of_dbs_eq hdbs] at hrp
    exact hinv.1 rp hrp
  · intro nd hnd
    rw [hnodes] at hnd
    exact hinv.2 nd hnd

theorem invP_sub {d' : Data} (hinv : InvP P d) (hsub : ∀ rp ∈ allRPs d', rp ∈ allRPs d) (hnodes : d'.dataNodes = d.dataNodes) : InvP P d' :=
  ⟨fun rp hrp => hinv.1 rp (hsub rp hrp), fun nd hnd => hinv.2 nd (hnodes ▸ hnd)⟩

theorem invP_mapRPs (f : DB → RP → RP) (hf : ∀ db rp, RPOkP P rp → RPOkP P (f db rp)) (hinv : InvP P d) : InvP P (mapRPs f d) := by
  constructor
  · intro rp hrp
    obtain ⟨db, r, hr, rfl⟩ := allRPs_mapRPs hrp
    exact hf db r (hinv.1 r hr)
  · exact hinv.2

theorem rpokP_of_getRP (hinv : InvP P d) {db rp k : String} {dbi : DB} {r : RP} (hg : getRP d db rp = .ok (dbi, k, r)) : RPOkP P r :=
  hinv.1 r (mem_allRPs_of (getRP_ok hg).1 (getRP_ok hg).2.1)

theorem rpsOkP_of_mem (hinv : InvP P d) {n : String} {db : DB} (hm : (n, db) ∈ d.databases) : ∀ kr ∈ db.rps, RPOkP P kr.2 :=
  fun kr hkr => hinv.1 kr.2 (mem_allRPs.2 ⟨_, hm, kr, hkr, rfl⟩)

theorem rpokP_empty (s : RPSpec) (y : Durs) : RPOkP P (s.toRP y) :=
  ⟨by simp [RPSpec.toRP], by simp [RPSpec.toRP], by simp [RPSpec.toRP], by simp [RPSpec.toRP], by simp [RPSpec.toRP]⟩

theorem rpokP_setMst {r : RP} {m : Mst} (h : RPOkP P r) (hm : P.mst m.id) : RPOkP P (r.setMst m) :=
  ⟨h.sgB, h.shardB, h.igB, h.idxB, fun x hx => by
    rcases mem_insertMst hx with rfl | hx
    · exact hm
    · exact h.mstB x hx⟩

theorem rpokP_schemaCleanAll (rp : RP) (b : Bool) (e : Int) (h : RPOkP P rp) : RPOkP P (rp.schemaCleanAll b e) := by
  unfold RP.schemaCleanAll
  simp only
  have h1 : RPOkP P { rp with msts := (rp.msts.map fun m => m.schemaClean e).map (·.1) } := by
    refine ⟨h.sgB, h.shardB, h.igB, h.idxB, ?_⟩
    intro x hx
    simp only [List.map_map, List.mem_map, Function.comp] at hx
    obtain ⟨m, hm, rfl⟩ := hx
    rw [schemaClean_id]
    exact h.mstB m hm
  split
  · exact h1
  · generalize ((List.map (fun m => m.schemaClean e) rp.msts).filter _).map _ = l
    generalize ({ rp with msts := _ } : RP) = r0 at h1
    induction l generalizing r0 with
    | nil => simpa using h1
    | cons o l ih =>
      simp only [List.foldl_cons]
      apply ih
      split
      · next cur hc =>
        split
        · exact h1
        · exact rpokP_setMst h1 (h1.mstB cur (measurement_mem hc))
      · exact h1

theorem rpokP_pruneShardGroupsRP (id : Nat) (b : Bool) (rp : RP) (h : RPOkP P rp) : RPOkP P (pruneShardGroupsRP id b rp) := by
  unfold pruneShardGroupsRP
  simp only
  have h1 : RPOkP P { rp with shardGroups := (pruneSGs id rp.shardGroups).1 } := by
    refine ⟨?_, ?_, h.igB, h.idxB, h.mstB⟩
    · intro g hg
      obtain ⟨y, hy, hs⟩ := mem_pruneSGs hg
      rw [hs.1]; exact h.sgB y hy
    · intro g hg s hs'
      obtain ⟨y, hy, hs⟩ := mem_pruneSGs hg
      obtain ⟨s0, hs0, hid, _, _⟩ := hs.2.2.2.2.2 s hs'
      rw [hid]; exact h.shardB y hy s0 hs0
  split
  · exact h1
  · exact rpokP_schemaCleanAll _ _ _ h1

theorem rpokP_pruneIGs (id : Nat) (rp : RP) (h : RPOkP P rp) : RPOkP P { rp with indexGroups := pruneIGs id rp.indexGroups } := by
  refine ⟨h.sgB, h.shardB, ?_, ?_, h.mstB⟩
  · intro g hg
    obtain ⟨y, hy, hs⟩ := mem_pruneIGs hg
    rw [hs.1]; exact h.igB y hy
  · intro g hg x hx
    obtain ⟨y, hy, hs⟩ := mem_pruneIGs hg
    obtain ⟨x0, hx0, hid⟩ := hs.2.2.2 x hx
    rw [hid]; exact h.idxB y hy x0 hx0

theorem rpokP_updSG {r : RP} (p : SG → Bool) (f : SG → SG) (h : RPOkP P r)
    (hid : ∀ g, (f g).id = g.id) (hsh : ∀ g, ∀ s ∈ (f g).shards, ∃ s0 ∈ g.shards, s.id = s0.id) :
    RPOkP P { r with shardGroups := updFirst p f r.shardGroups } := by
  refine ⟨?_, ?_, h.igB, h.idxB, h.mstB⟩
  · intro g hg
    rcases mem_updFirst hg with hg | ⟨z, hz, rfl⟩
    · exact h.sgB g hg
    · rw [hid]; exact h.sgB z hz
  · intro g hg s hs
    rcases mem_updFirst hg with hg | ⟨z, hz, rfl⟩
    · exact h.shardB g hg s hs
    · obtain ⟨s0, hs0, he⟩ := hsh z s hs
      rw [he]; exact h.shardB z hz s0 hs0

/-! ### the commands -/

theorem invP_createDatabase (hinv : InvP P d) (n : String) (rp : Option RPSpec) (rep : Nat) : InvP P (createDatabase d n rp rep).1 := by
  unfold createDatabase
  simp only
  repeat' split
  all_goals first
    | exact hinv
    | (obtain ⟨y, rfl⟩ := checkCanCreateRP_create (by assumption)
       apply invP_setDB hinv
       intro kr hkr
       simp only [DB.setRetentionPolicy] at hkr
       rcases mem_alInsert hkr with rfl | hkr
       · exact rpokP_empty _ _
       · simp at hkr)

theorem invP_dropDatabase (hinv : InvP P d) (n : String) : InvP P (dropDatabase d n).1 := by
  unfold dropDatabase
  split
  · exact hinv
  · exact invP_sub hinv (fun rp hrp => allRPs_erase (d := d) rfl hrp) rfl

theorem invP_markDatabaseDelete (hinv : InvP P d) (n : String) : InvP P (markDatabaseDelete d n).1 := by
  unfold markDatabaseDelete
  split
  · exact hinv
  · next db hf =>
    split
    · exact hinv
    · exact invP_setDB hinv (fun kr hkr => rpsOkP_of_mem hinv (alFind_mem hf) kr hkr)

theorem invP_createRetentionPolicy (hinv : InvP P d) (db : String) (s : RPSpec) (md : Bool) : InvP P (createRetentionPolicy d db s md).1 := by
  unfold createRetentionPolicy
  split
  · exact hinv
  · next dbi hd =>
    have hm := (getDatabase_ok hd).1
    split
    · exact hinv
    · exact hinv
    · next r hr =>
      obtain ⟨y, rfl⟩ := checkCanCreateRP_create hr
      apply invP_setDB hinv
      intro kr hkr
      simp only [DB.setRetentionPolicy] at hkr
      rcases mem_alInsert hkr with rfl | hkr
      · exact rpokP_empty _ _
      · exact rpsOkP_of_mem hinv hm kr hkr

theorem invP_dropRetentionPolicy (hinv : InvP P d) (db rp : String) : InvP P (dropRetentionPolicy d db rp).1 := by
  unfold dropRetentionPolicy
  split
  · exact hinv
  · next dbi hd =>
    have hm := (getDatabase_ok hd).1
    apply invP_setDB hinv
    intro kr hkr
    exact rpsOkP_of_mem hinv hm kr (mem_alErase hkr)

theorem invP_markRetentionPolicyDelete (hinv : InvP P d) (db rp : String) : InvP P (markRetentionPolicyDelete d db rp).1 := by
  unfold markRetentionPolicyDelete
  split
  · exact hinv
  · next dbi k r hg =>
    have h := rpokP_of_getRP hinv hg
    exact invP_setRP hinv rfl rfl (getRP_ok hg).1 ⟨h.sgB, h.shardB, h.igB, h.idxB, h.mstB⟩

theorem invP_setDefaultRetentionPolicy (hinv : InvP P d) (db rp : String) : InvP P (setDefaultRetentionPolicy d db rp).1 := by
  unfold setDefaultRetentionPolicy
  split
  · exact hinv
  · next dbi hd =>
    have hm := (getDatabase_ok hd).1
    split
    · exact hinv
    · exact invP_setDB hinv (fun kr hkr => rpsOkP_of_mem hinv hm kr hkr)

theorem invP_updateRetentionPolicy (hinv : InvP P d) (db rp : String) (u : RPUpdate) : InvP P (updateRetentionPolicy d db rp u).1 := by
  unfold updateRetentionPolicy
  split
  · exact hinv
  · next dbi hd =>
    have hm := (getDatabase_ok hd).1
    split
    · exact hinv
    · next k r hr =>
      have hkr := (DB.getRP_ok hr).1
      have h := rpsOkP_of_mem hinv hm (k, r) hkr
      simp only at h
      split
      · exact hinv
      · simp only
        split
        · exact hinv
        · apply invP_setDB hinv
          intro kr hmem
          rcases mem_writeBack hmem with he | hmem
          · rw [he]; exact ⟨h.sgB, h.shardB, h.igB, h.idxB, h.mstB⟩
          · exact rpsOkP_of_mem hinv hm kr hmem

theorem invP_createMeasurement (hnew : NewIds P d) (hinv : InvP P d) (pick : Nat) (db rp m : String) (ski : Option ShardKey) (e : Nat)
    (fs : List FieldReq) : InvP P (createMeasurement pick d db rp m ski e fs).1 := by
  unfold createMeasurement
  split
  · exact hinv
  · next dbi k r hg =>
    have h := rpokP_of_getRP hinv hg
    have hd := (getRP_ok hg).1
    simp only
    repeat' split
    all_goals first
      | exact hinv
      | (apply invP_setRP (d' := { d with maxMstID := d.maxMstID + 1 }) hinv rfl rfl hd
         refine ⟨h.sgB, h.shardB, h.igB, h.idxB, fun x hx => ?_⟩
         rcases mem_insertMst hx with rfl | hx
         · exact hnew.mst
         · exact h.mstB x hx)

theorem invP_alterShardKey (hinv : InvP P d) (pick : Nat) (db rp m : String) (ski : Option ShardKey) : InvP P (alterShardKey pick d db rp m ski).1 := by
  unfold alterShardKey
  split
  · exact hinv
  · next dbi k r hg =>
    have h := rpokP_of_getRP hinv hg
    have hd := (getRP_ok hg).1
    split
    · exact hinv
    · next ms hms =>
      have hmem := measurement_mem hms
      simp only
      repeat' split
      all_goals first
        | exact hinv
        | exact invP_setRP hinv rfl rfl hd (rpokP_setMst h (h.mstB ms hmem))

theorem invP_updateSchema (hinv : InvP P d) (db rp m : String) (fs : List FieldReq) : InvP P (updateSchema d db rp m fs).1 := by
  unfold updateSchema
  split
  · exact hinv
  · next dbi k r ms hg =>
    obtain ⟨hg', hmem⟩ := getMeasurement_mem hg
    have h := rpokP_of_getRP hinv hg'
    split
    · exact hinv
    · exact invP_setRP hinv rfl rfl (getRP_ok hg').1 (rpokP_setMst h (h.mstB ms hmem))

theorem invP_markMeasurementDelete (hinv : InvP P d) (db rp m : String) : InvP P (markMeasurementDelete d db rp m).1 := by
  unfold markMeasurementDelete
  split
  · exact hinv
  · next dbi k r ms hg =>
    obtain ⟨hg', hmem⟩ := getMeasurement_mem hg
    have h := rpokP_of_getRP hinv hg'
    exact invP_setRP hinv rfl rfl (getRP_ok hg').1 (rpokP_setMst h (h.mstB ms hmem))

theorem invP_dropMeasurement (hinv : InvP P d) (db rp m : String) : InvP P (dropMeasurement d db rp m).1 := by
  unfold dropMeasurement
  split
  · exact hinv
  · next dbi k r hg =>
    have h := rpokP_of_getRP hinv hg
    exact invP_setRP hinv rfl rfl (getRP_ok hg).1 ⟨h.sgB, h.shardB, h.igB, h.idxB, fun x hx => h.mstB x (List.mem_filter.1 hx).1⟩

def IGResultP (P : IdPred) (d : Data) (r : RP) (x : Data × RP × IG) : Prop :=
  x.1.databases = d.databases ∧ x.1.dataNodes = d.dataNodes ∧ RPOkP P x.2.1 ∧
  x.1.maxShardGroupID = d.maxShardGroupID ∧ x.1.maxShardID = d.maxShardID

theorem createIndexGroup_okP (hnew : NewIds P d) (r : RP) (t : Int) (e : Nat) (h : RPOkP P r) : IGResultP P d r (createIndexGroup d r t e) := by
  unfold IGResultP createIndexGroup
  simp only
  refine ⟨trivial, trivial, ?_, trivial, trivial⟩
  refine ⟨h.sgB, h.shardB, ?_, ?_, h.mstB⟩
  · intro g hg
    rcases mem_insertIG hg with rfl | hg
    · exact hnew.ig
    · exact h.igB g hg
  · intro g hg x hx
    rcases mem_insertIG hg with rfl | hg
    · simp only [mkIndexes, List.mem_map, List.mem_range] at hx
      obtain ⟨i, _, rfl⟩ := hx
      exact hnew.idx i
    · exact h.idxB g hg x hx

theorem indexGroupFor_okP (hnew : NewIds P d) (r : RP) (t : Int) (e : Nat) (h : RPOkP P r) : IGResultP P d r (indexGroupFor d r t e) := by
  unfold indexGroupFor
  split
  · split
    · exact ⟨rfl, rfl, h, rfl, rfl⟩
    · exact createIndexGroup_okP hnew r t e h
  · exact createIndexGroup_okP hnew r t e h

theorem mem_mkShards' {d : Data} {r : RP} {m : Mst} {ig : IG} {tier : Nat} {s : Shard} (h : s ∈ mkShards d r m ig tier) :
    ∃ i, s.id = d.maxShardID + 1 + i := by
  unfold mkShards at h
  simp only [List.mem_map, List.mem_range] at h
  obtain ⟨i, _, rfl⟩ := h
  exact ⟨i, by split <;> rfl⟩

theorem invP_createShardGroup (hnew : NewIds P d) (hinv : InvP P d) (pick : Nat) (db rp : String) (ts : Int) (tier e v : Nat) :
    InvP P (createShardGroup pick d db rp ts tier e v).1 := by
  unfold createShardGroup
  split
  · exact hinv
  · split
    · exact hinv
    · next dbi k r hg =>
      have h := rpokP_of_getRP hinv hg
      have hd := (getRP_ok hg).1
      split
      · exact hinv
      · split
        · exact hinv
        · next msti hpick =>
          split
          · exact hinv
          · have hres := indexGroupFor_okP hnew r ts e h
            generalize indexGroupFor d r ts e = x at hres
            obtain ⟨d1, r1, ig⟩ := x
            obtain ⟨h1, h2, h4, h6, h7⟩ := hres
            simp only at h1 h2 h4 h6 h7 ⊢
            let n := (mkShards d1 r1 msti ig tier).length
            apply invP_setRP (d' := { d1 with maxShardGroupID := d1.maxShardGroupID + 1, maxShardID := d1.maxShardID + n }) hinv
              (by simpa using h1) (by simpa using h2) hd
            refine ⟨?_, ?_, h4.igB, h4.idxB, h4.mstB⟩
            · intro g hgm
              rcases mem_insertSG.1 hgm with rfl | hgm
              · simp only [h6]; exact hnew.sg
              · exact h4.sgB g hgm
            · intro g hgm s hs
              rcases mem_insertSG.1 hgm with rfl | hgm
              · obtain ⟨i, hi⟩ := mem_mkShards' hs
                rw [hi, h7]; exact hnew.shard i
              · exact h4.shardB g hgm s hs

theorem invP_deleteShardGroup (hinv : InvP P d) (db rp : String) (id : Nat) (t : Int) : InvP P (deleteShardGroup d db rp id t).1 := by
  unfold deleteShardGroup
  split
  · exact hinv
  · next dbi k r hg =>
    have h := rpokP_of_getRP hinv hg
    exact invP_setRP hinv rfl rfl (getRP_ok hg).1 (rpokP_updSG _ _ h (fun _ => rfl) (fun g s hs => ⟨s, hs, rfl⟩))

theorem invP_deleteIndexGroup (hinv : InvP P d) (db rp : String) (id : Nat) : InvP P (deleteIndexGroup d db rp id).1 := by
  unfold deleteIndexGroup
  split
  · exact hinv
  · next dbi k r hg =>
    have h := rpokP_of_getRP hinv hg
    apply invP_setRP hinv rfl rfl (getRP_ok hg).1
    refine ⟨h.sgB, h.shardB, ?_, ?_, h.mstB⟩
    · intro g hgm
      rcases mem_updFirst hgm with hgm | ⟨z, hz, rfl⟩
      · exact h.igB g hgm
      · exact h.igB z hz
    · intro g hgm x hx
      rcases mem_updFirst hgm with hgm | ⟨z, hz, rfl⟩
      · exact h.idxB g hgm x hx
      · exact h.idxB z hz x hx

theorem invP_pruneGroups (hinv : InvP P d) (sg : Bool) (id : Nat) : InvP P (pruneGroups d sg id).1 := by
  unfold pruneGroups
  split
  · exact invP_mapRPs _ (fun db rp h => rpokP_pruneShardGroupsRP id db.markDeleted rp h) hinv
  · exact invP_mapRPs _ (fun _ rp h => rpokP_pruneIGs id rp h) hinv

theorem invP_createDataNode (hnew : NewIds P d) (hinv : InvP P d) (h t r : String) : InvP P (createDataNode d h t r).1 := by
  have hupd : ∀ (p : Node → Bool) (c : Nat), ∀ nd ∈ updFirst p (fun n => { n with connID := c }) d.dataNodes, P.node nd.id := by
    intro p c nd hnd
    rcases mem_updFirst hnd with hnd | ⟨z, hz, rfl⟩
    · exact hinv.2 nd hnd
    · exact hinv.2 z hz
  unfold createDataNode
  split
  · exact ⟨fun rp hrp => hinv.1 rp hrp, hupd _ _⟩
  · simp only
    split
    · exact ⟨fun rp hrp => hinv.1 rp hrp, hupd _ _⟩
    · have hnodes : ∀ nd ∈ insertNode { id := d.maxNodeID + 1, host := h, tcpHost := t, role := r, connID := d.maxConnID + 1 } d.dataNodes,
          P.node nd.id := by
        intro nd hnd
        rcases mem_insertNode hnd with rfl | hnd
        · exact hnew.node
        · exact hinv.2 nd hnd
      split
      · exact ⟨fun rp hrp => hinv.1 rp hrp, hnodes⟩
      · exact ⟨fun rp hrp => hinv.1 rp hrp, hnodes⟩

theorem invP_createDbPtView (hinv : InvP P d) (db : String) : InvP P (createDbPtView d db).1 := by
  unfold createDbPtView
  split
  · exact hinv
  · simp only
    split
    · exact hinv
    · exact invP_of_eq hinv rfl rfl

theorem invP_updateShardInfoTier (hinv : InvP P d) (s t : Nat) (db rp : String) : InvP P (updateShardInfoTier d s t db rp).1 := by
  unfold updateShardInfoTier
  split
  · exact hinv
  · next dbi k r hg =>
    have h := rpokP_of_getRP hinv hg
    split
    · apply invP_setRP hinv rfl rfl (getRP_ok hg).1
      apply rpokP_updSG (fun g => g.shards.any (·.id = s))
        (fun g => { g with shards := updFirst (·.id = s) (fun x => { x with tier := t }) g.shards }) h (fun _ => rfl)
      intro g s' hs'
      rcases mem_updFirst hs' with hs' | ⟨z, hz, rfl⟩
      · exact ⟨s', hs', rfl⟩
      · exact ⟨z, hz, rfl⟩
    · exact hinv

theorem invP_createUser (hinv : InvP P d) (n h : String) (a rw : Bool) : InvP P (createUser d n h a rw).1 := by
  unfold createUser
  repeat' split
  all_goals first | exact hinv | exact invP_of_eq hinv rfl rfl

theorem invP_dropUser (hinv : InvP P d) (n : String) : InvP P (dropUser d n).1 := by
  unfold dropUser
  repeat' split
  all_goals first | exact hinv | exact invP_of_eq hinv rfl rfl

theorem invP_updateUser (hinv : InvP P d) (n h : String) : InvP P (updateUser d n h).1 := by
  unfold updateUser
  repeat' split
  all_goals first | exact hinv | exact invP_of_eq hinv rfl rfl

theorem invP_setPrivilege (hinv : InvP P d) (u db : String) (p : Int) : InvP P (setPrivilege d u db p).1 := by
  unfold setPrivilege
  repeat' split
  all_goals first | exact hinv | exact invP_of_eq hinv rfl rfl

theorem invP_setAdminPrivilege (hinv : InvP P d) (u : String) : InvP P (setAdminPrivilege d u).1 := by
  unfold setAdminPrivilege
  split <;> exact hinv

theorem invP_applyP (pick : Nat) (hnew : NewIds P d) (hinv : InvP P d) (c : Cmd) : InvP P (applyP pick d c).1 := by
  cases c with
  | createDatabase n rp rep => exact invP_createDatabase hinv n rp rep
  | dropDatabase n => exact invP_dropDatabase hinv n
  | markDatabaseDelete n => exact invP_markDatabaseDelete hinv n
  | createRetentionPolicy db s md => exact invP_createRetentionPolicy hinv db s md
  | dropRetentionPolicy db rp => exact invP_dropRetentionPolicy hinv db rp
  | markRetentionPolicyDelete db rp => exact invP_markRetentionPolicyDelete hinv db rp
  | setDefaultRetentionPolicy db rp => exact invP_setDefaultRetentionPolicy hinv db rp
  | updateRetentionPolicy db rp u => exact invP_updateRetentionPolicy hinv db rp u
  | createMeasurement db rp m ski e fs => exact invP_createMeasurement hnew hinv pick db rp m ski e fs
  | alterShardKey db rp m ski => exact invP_alterShardKey hinv pick db rp m ski
  | updateSchema db rp m fs => exact invP_updateSchema hinv db rp m fs
  | markMeasurementDelete db rp m => exact invP_markMeasurementDelete hinv db rp m
  | dropMeasurement db rp m => exact invP_dropMeasurement hinv db rp m
  | createShardGroup db rp ts tier e v => exact invP_createShardGroup hnew hinv pick db rp ts tier e v
  | deleteShardGroup db rp id t => exact invP_deleteShardGroup hinv db rp id t
  | deleteIndexGroup db rp id => exact invP_deleteIndexGroup hinv db rp id
  | pruneGroups sg id => exact invP_pruneGroups hinv sg id
  | createDataNode h t r => exact invP_createDataNode hnew hinv h t r
  | createDbPtView db => exact invP_createDbPtView hinv db
  | updateShardInfoTier s t db rp => exact invP_updateShardInfoTier hinv s t db rp
  | createUser n h a rw => exact invP_createUser hinv n h a rw
  | dropUser n => exact invP_dropUser hinv n
  | updateUser n h => exact invP_updateUser hinv n h
  | setPrivilege u db p => exact invP_setPrivilege hinv u db p
  | setAdminPrivilege u a => exact invP_setAdminPrivilege hinv u

end OG.C16
