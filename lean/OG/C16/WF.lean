/-
C16 — well-formedness of the catalogue (computable; evaluated by the driver on the dump of the
real `meta.Data` after every step, and the subject of the invariant theorems).
-/
import OG.Meta.Model

namespace OG.C16
open OG.Meta

/-! ### flattened views -/

def allRPs (d : Data) : List RP := d.databases.flatMap fun (_, db) => db.rps.map (·.2)
def allSGs (d : Data) : List SG := (allRPs d).flatMap (·.shardGroups)
def allIGs (d : Data) : List IG := (allRPs d).flatMap (·.indexGroups)
def allMsts (d : Data) : List Mst := (allRPs d).flatMap (·.msts)

def sgIds (d : Data) : List Nat := (allSGs d).map (·.id)
def shardIds (d : Data) : List Nat := (allSGs d).flatMap fun g => g.shards.map (·.id)
def igIds (d : Data) : List Nat := (allIGs d).map (·.id)
def indexIds (d : Data) : List Nat := (allIGs d).flatMap fun g => g.indexes.map (·.id)
def mstIds (d : Data) : List Nat := (allMsts d).map (·.id)
def nodeIds (d : Data) : List Nat := d.dataNodes.map (·.id)

/-! ### clauses -/

def nodupB : List Nat → Bool
  | [] => true
  | x :: xs => !xs.contains x && nodupB xs

/-- pairwise, in list order -/
def pairwiseB {α : Type} (r : α → α → Bool) : List α → Bool
  | [] => true
  | x :: xs => xs.all (r x) && pairwiseB r xs

def SG.live (g : SG) : Bool := !g.deleted

/-- sorted the way the rest of the system binary-searches: by end time, then start time. -/
def sortedRP (rp : RP) : Bool :=
  pairwiseB (fun a b => !spanLess b.start b.stop a.start a.stop) rp.shardGroups

/-- live groups of the same engine kind cover pairwise disjoint spans. -/
def disjointRP (rp : RP) : Bool :=
  pairwiseB (fun a b => a.engine ≠ b.engine || a.stop ≤ b.start || b.stop ≤ a.start) (rp.shardGroups.filter SG.live)

/-- a live group starts on a multiple of the policy's shard-group duration (counted, as
`Time.Truncate` does, from the Go zero time) and spans one duration (clamped at MaxNanoTime). -/
def alignedRP (rp : RP) : Bool :=
  (rp.shardGroups.filter SG.live).all fun g =>
    rp.sgDuration > 0 && (g.start + epochOffset) % rp.sgDuration == 0 && g.stop == clampEnd (g.start + rp.sgDuration)

def rpIndexIds (rp : RP) : List Nat := rp.indexGroups.flatMap fun g => g.indexes.map (·.id)

/-- every shard refers to an index of its own policy and to partitions that exist. -/
def refsRP (ptNum : Nat) (rp : RP) : Bool :=
  rp.shardGroups.all fun g => g.shards.all fun s => (rpIndexIds rp).contains s.indexID && s.owners.all (· < ptNum)

def defaultDB (db : DB) : Bool := db.defaultRP == "" || (alFind db.defaultRP db.rps).isSome

def idsUnique (d : Data) : Bool :=
  nodupB (sgIds d) && nodupB (shardIds d) && nodupB (igIds d) && nodupB (indexIds d) && nodupB (mstIds d) && nodupB (nodeIds d)

/-- counters are above every id that is in use (ids come from pre-incremented counters;
`MaxMstID` is post-incremented). -/
def countersBound (d : Data) : Bool :=
  (sgIds d).all (· ≤ d.maxShardGroupID) && (shardIds d).all (· ≤ d.maxShardID) && (igIds d).all (· ≤ d.maxIndexGroupID) &&
  (indexIds d).all (· ≤ d.maxIndexID) && (mstIds d).all (· < d.maxMstID) && (nodeIds d).all (· ≤ d.maxNodeID)

/-! ### users and partition views (proved as unconditional invariants in OG/C16/UsersPt.lean) -/

def usersOK (d : Data) : Bool :=
  pairwiseB (fun a b => a.name != b.name) d.users &&
  decide ((d.users.filter (·.admin)).length ≤ 1) &&
  d.users.all fun u => u.privileges.all fun p => (alFind p.1 d.databases).isSome

def isWriterNode (n : Node) : Bool := isWriter n.role

def ptNumbered : Nat → List Pt → Bool
  | _, [] => true
  | i, p :: rest => p.ptId == i && ptNumbered (i + 1) rest

def ptViewOK (d : Data) : Bool :=
  decide (d.ptNumPerNode * (d.dataNodes.filter isWriterNode).length ≤ d.clusterPtNum) &&
  d.ptView.all fun v => v.2.length == d.clusterPtNum && ptNumbered 0 v.2 && v.2.all fun p => (nodeIds d).contains p.owner

def groupsSorted (d : Data) : Bool := (allRPs d).all sortedRP
def groupsDisjoint (d : Data) : Bool := (allRPs d).all disjointRP
def groupsAligned (d : Data) : Bool := (allRPs d).all alignedRP
def refsValid (d : Data) : Bool := (allRPs d).all (refsRP d.clusterPtNum)
def defaultsExist (d : Data) : Bool := d.databases.all fun (_, db) => defaultDB db

/-- names of the violated clauses, in a fixed order -/
def wfViolations (d : Data) : List String :=
  (if groupsSorted d then [] else ["sorted"]) ++ (if groupsDisjoint d then [] else ["disjoint"]) ++
  (if groupsAligned d then [] else ["aligned"]) ++ (if idsUnique d then [] else ["ids"]) ++
  (if countersBound d then [] else ["counters"]) ++ (if refsValid d then [] else ["refs"]) ++
  (if defaultsExist d then [] else ["default"]) ++
  (if usersOK d then [] else ["users"]) ++ (if ptViewOK d then [] else ["ptview"])

def WF (d : Data) : Prop :=
  groupsSorted d = true ∧ groupsDisjoint d = true ∧ groupsAligned d = true ∧ idsUnique d = true ∧
  countersBound d = true ∧ refsValid d = true ∧ defaultsExist d = true

instance (d : Data) : Decidable (WF d) := by unfold WF; infer_instance

end OG.C16
