/-
C16 — clauses `aligned` and `disjoint`: live shard groups of a policy and engine kind start on
multiples of the policy's shard-group duration, span one duration, and are pairwise disjoint.
Arithmetic and list lemmas; the per-command proofs are in GroupsCmds.lean.
-/
import OG.C16.Defaults

namespace OG.C16
open OG.Meta

/-! ### arithmetic of aligned spans -/

theorem truncate_aligned (t dur : Int) (hd : 0 < dur) : (truncateTime t dur + epochOffset) % dur = 0 := by
  unfold truncateTime
  rw [if_neg (by omega)]
  have h := Int.emod_add_mul_ediv (t + epochOffset) dur
  have : t - (t + epochOffset) % dur + epochOffset = dur * ((t + epochOffset) / dur) := by omega
  rw [this]
  exact Int.mul_emod_right _ _

theorem truncate_range (t dur : Int) (hd : 0 < dur) : truncateTime t dur ≤ t ∧ t < truncateTime t dur + dur := by
  unfold truncateTime
  rw [if_neg (by omega)]
  have h1 := Int.emod_nonneg (t + epochOffset) (by omega : dur ≠ 0)
  have h2 := Int.emod_lt_of_pos (t + epochOffset) hd
  omega

/-- two different instants aligned to the same duration are at least one duration apart -/
theorem aligned_apart {dur a b : Int} (hd : 0 < dur) (ha : (a + epochOffset) % dur = 0) (hb : (b + epochOffset) % dur = 0)
    (hne : a ≠ b) : a + dur ≤ b ∨ b + dur ≤ a := by
  obtain ⟨k1, hk1⟩ := Int.dvd_of_emod_eq_zero ha
  obtain ⟨k2, hk2⟩ := Int.dvd_of_emod_eq_zero hb
  have hk : k1 ≠ k2 := by
    intro h; subst h; omega
  rcases Int.lt_or_gt_of_ne hk with h | h
  · left
    have : dur * (k1 + 1) ≤ dur * k2 := Int.mul_le_mul_of_nonneg_left (by omega) (by omega)
    rw [Int.mul_add, Int.mul_one] at this
    omega
  · right
    have : dur * (k2 + 1) ≤ dur * k1 := Int.mul_le_mul_of_nonneg_left (by omega) (by omega)
    rw [Int.mul_add, Int.mul_one] at this
    omega

theorem clampEnd_le (e : Int) : clampEnd e ≤ e ∨ e ≤ maxNanoTime := by
  unfold clampEnd
  split <;> omega

theorem clampEnd_le' (e : Int) : clampEnd e ≤ max e (maxNanoTime + 1) := by
  unfold clampEnd; split <;> omega

/-! ### the per-policy invariant -/

/-- a live group is aligned to `dur` and spans one duration -/
def AlignedG (dur : Int) (g : SG) : Prop :=
  (g.start + epochOffset) % dur = 0 ∧ g.stop = clampEnd (g.start + dur)

/-- two groups do not conflict: one of them is deleted, or they are of different engine kinds,
or their spans are disjoint -/
def Compat (a b : SG) : Prop :=
  a.deleted = false → b.deleted = false → a.engine ≠ b.engine ∨ a.stop ≤ b.start ∨ b.stop ≤ a.start

theorem Compat.symm {a b : SG} (h : Compat a b) : Compat b a := by
  intro hb ha
  rcases h ha hb with h | h | h
  · exact Or.inl (Ne.symm h)
  · exact Or.inr (Or.inr h)
  · exact Or.inr (Or.inl h)

structure GOK (rp : RP) : Prop where
  durPos : hour ≤ rp.sgDuration
  aligned : ∀ g ∈ rp.shardGroups, g.deleted = false → AlignedG rp.sgDuration g
  compat : rp.shardGroups.Pairwise Compat

def GInv (d : Data) : Prop := ∀ rp ∈ allRPs d, GOK rp

theorem hour_pos : (0 : Int) < hour := by decide

/-- `GOK` gives the two Boolean clauses -/
theorem clauses_of_gok {rp : RP} (h : GOK rp) : alignedRP rp = true ∧ disjointRP rp = true := by
  have hp : 0 < rp.sgDuration := Int.lt_of_lt_of_le hour_pos h.durPos
  constructor
  · unfold alignedRP
    rw [List.all_eq_true]
    intro g hg
    obtain ⟨hg1, hg2⟩ := List.mem_filter.1 hg
    have hl : g.deleted = false := by simpa [SG.live] using hg2
    obtain ⟨ha1, ha2⟩ := h.aligned g hg1 hl
    simp [hp, ha1, ha2]
  · unfold disjointRP
    rw [pairwiseB_iff, List.pairwise_filter]
    refine h.compat.imp ?_
    intro a b hab ha hb
    have ha' : a.deleted = false := by simpa [SG.live] using ha
    have hb' : b.deleted = false := by simpa [SG.live] using hb
    rcases hab ha' hb' with h1 | h1 | h1
    · simp [h1]
    · simp [h1]
    · simp [h1]

theorem clauses_of_ginv {d : Data} (h : GInv d) : groupsAligned d = true ∧ groupsDisjoint d = true := by
  unfold groupsAligned groupsDisjoint
  rw [List.all_eq_true, List.all_eq_true]
  exact ⟨fun rp hrp => (clauses_of_gok (h rp hrp)).1, fun rp hrp => (clauses_of_gok (h rp hrp)).2⟩

theorem ginv_init : GInv Data.init := by intro rp h; simp [allRPs, Data.init] at h

theorem ginv_setRP {d d' : Data} {n k : String} {dbi : DB} {r' : RP} (hinv : GInv d) (hdbs : d'.databases = d.databases)
    (hd : (n, dbi) ∈ d.databases) (hr' : GOK r') : GInv (setRP d' dbi k r') := by
  intro rp hrp
  have hd' : (n, dbi) ∈ d'.databases := by rw [hdbs]; exact hd
  rcases allRPs_setRP hd' hrp with rfl | hrp
  · exact hr'
  · rw [allRPs_of_dbs_eq hdbs] at hrp
    exact hinv rp hrp

theorem ginv_setDB {d : Data} {db : DB} (hinv : GInv d) (hdb : ∀ kr ∈ db.rps, GOK kr.2) : GInv (setDB d db) := by
  intro rp hrp
  rcases allRPs_setDB hrp with ⟨kr, hkr, rfl⟩ | hrp
  · exact hdb kr hkr
  · exact hinv rp hrp

theorem ginv_of_eq {d d' : Data} (hinv : GInv d) (hdbs : d'.databases = d.databases) : GInv d' := by
  intro rp hrp
  rw [allRPs_of_dbs_eq hdbs] at hrp
  exact hinv rp hrp

theorem ginv_mapRPs {d : Data} (f : DB → RP → RP) (hf : ∀ db rp, GOK rp → GOK (f db rp)) (hinv : GInv d) : GInv (mapRPs f d) := by
  intro rp hrp
  obtain ⟨db, r, hr, rfl⟩ := allRPs_mapRPs hrp
  exact hf db r (hinv r hr)

theorem gok_of_getRP {d : Data} (hinv : GInv d) {db rp k : String} {dbi : DB} {r : RP} (hg : getRP d db rp = .ok (dbi, k, r)) : GOK r :=
  hinv r (mem_allRPs_of (getRP_ok hg).1 (getRP_ok hg).2.1)

theorem gsOk_of_mem {d : Data} (hinv : GInv d) {n : String} {db : DB} (hm : (n, db) ∈ d.databases) : ∀ kr ∈ db.rps, GOK kr.2 :=
  fun kr hkr => hinv kr.2 (mem_allRPs.2 ⟨_, hm, kr, hkr, rfl⟩)

/-! ### list operations -/

theorem compat_insertSG (g : SG) : ∀ l : List SG, l.Pairwise Compat → (∀ h ∈ l, Compat g h) → (insertSG g l).Pairwise Compat
  | [], _, _ => by simp [insertSG]
  | x :: rest, hp, hg => by
    rw [List.pairwise_cons] at hp
    unfold insertSG
    split
    · rw [List.pairwise_cons]
      exact ⟨hg, List.pairwise_cons.2 hp⟩
    · rw [List.pairwise_cons]
      refine ⟨?_, compat_insertSG g rest hp.2 (fun h hh => hg h (List.mem_cons_of_mem _ hh))⟩
      intro y hy
      rcases mem_insertSG.1 hy with rfl | hy
      · exact (hg x List.mem_cons_self).symm
      · exact hp.1 y hy

theorem compat_pruneSGs (id : Nat) : ∀ l : List SG, l.Pairwise Compat → (pruneSGs id l).1.Pairwise Compat
  | [], _ => by simp [pruneSGs]
  | g :: rest, h => by
    rw [List.pairwise_cons] at h
    have ih := compat_pruneSGs id rest h.2
    unfold pruneSGs
    simp only
    split
    · exact ih
    · rw [List.pairwise_cons]
      refine ⟨fun y' hy' => ?_, ih⟩
      obtain ⟨y, hy, hs⟩ := mem_pruneSGs hy'
      have hc := h.1 y hy
      have hg := markShardIn_same id g
      intro h1 h2
      rw [hg.2.2.2.1] at h1
      rw [hs.2.2.2.1] at h2
      rw [hg.2.2.2.2.1, hs.2.2.2.2.1, hg.2.2.1, hs.2.1, hs.2.2.1, hg.2.1]
      exact hc h1 h2

/-- a checked specification has a shard-group duration of at least one hour -/
theorem normalisedShardDuration_ge (sgd d : Int) : hour ≤ normalisedShardDuration sgd d := by
  unfold normalisedShardDuration shardGroupDuration minRetentionPolicyDuration
  have : hour = 3600000000000 := rfl
  have : day = 24 * 3600000000000 := rfl
  repeat' split
  all_goals omega

theorem checkSpecValid_sg {x y : Durs} (h : checkSpecValid x = .ok y) : y.sg = normalisedShardDuration x.sg x.duration := by
  unfold checkSpecValid at h
  split at h
  · cases h
  · cases h; rfl

end OG.C16
