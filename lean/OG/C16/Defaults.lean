/-
C16 — clause `default`: a database's default policy exists (or the database has none).
Invariant after the `fix:` caea1ce (DropRetentionPolicy clears a dangling default) and 7b717c6
(a rename moves the default along).
-/
import OG.C16.Props2
import OG.Meta.KeysInvCmds

namespace OG.C16
open OG.Meta

variable {α : Type}

theorem alFind_alInsert_self (k : String) (v : α) : ∀ l : List (String × α), alFind k (alInsert k v l) = some v
  | [] => by simp [alInsert, alFind]
  | (k', v') :: rest => by
    unfold alInsert
    split
    · simp [alFind]
    · split
      · simp [alFind]
      · next h1 h2 =>
        simp only [alFind, h1, if_false]
        exact alFind_alInsert_self k v rest

theorem alFind_alInsert_ne {k k' : String} (v : α) (h : k' ≠ k) : ∀ l : List (String × α), alFind k' (alInsert k v l) = alFind k' l
  | [] => by simp [alInsert, alFind, Ne.symm h]
  | (k2, v2) :: rest => by
    unfold alInsert
    split
    · next h1 => subst h1; simp [alFind, Ne.symm h]
    · split
      · simp [alFind, Ne.symm h]
      · simp only [alFind]
        split
        · rfl
        · exact alFind_alInsert_ne v h rest

theorem alFind_alInsert_isSome {k k' : String} (v : α) {l : List (String × α)} (h : (alFind k' l).isSome = true) :
    (alFind k' (alInsert k v l)).isSome = true := by
  by_cases hk : k' = k
  · subst hk; simp [alFind_alInsert_self]
  · rw [alFind_alInsert_ne v hk]; exact h

theorem alFind_alErase_ne {k k' : String} (h : k' ≠ k) : ∀ l : List (String × α), alFind k' (alErase k l) = alFind k' l
  | [] => by simp [alErase]
  | (k2, v2) :: rest => by
    unfold alErase
    split
    · next h1 => subst h1; simp [alFind, Ne.symm h]
    · simp only [alFind]
      split
      · rfl
      · exact alFind_alErase_ne h rest

def DefOK (db : DB) : Prop := defaultDB db = true

def DefInv (d : Data) : Prop := ∀ x ∈ d.databases, DefOK x.2

theorem defInv_iff (d : Data) : DefInv d ↔ defaultsExist d = true := by
  unfold DefInv defaultsExist DefOK
  rw [List.all_eq_true]

theorem defInv_init : DefInv Data.init := by intro x hx; simp [Data.init] at hx

theorem defInv_setDB {d : Data} {db : DB} (h : DefInv d) (hdb : DefOK db) : DefInv (setDB d db) := by
  intro x hx
  rcases mem_setDB hx with rfl | hx
  · exact hdb
  · exact h x hx

theorem defInv_of_eq {d d' : Data} (h : DefInv d) (he : d'.databases = d.databases) : DefInv d' := by
  intro x hx; rw [he] at hx; exact h x hx

/-- replacing the value under an existing or new key keeps the default alive -/
theorem defOK_insert {db : DB} {k : String} {r : RP} (h : DefOK db) : DefOK { db with rps := alInsert k r db.rps } := by
  unfold DefOK defaultDB at *
  simp only [Bool.or_eq_true, beq_iff_eq] at h ⊢
  rcases h with h | h
  · exact Or.inl h
  · exact Or.inr (alFind_alInsert_isSome r h)

theorem defInv_setRP {d d' : Data} {n k : String} {dbi : DB} {r : RP} (h : DefInv d) (hdbs : d'.databases = d.databases)
    (hd : (n, dbi) ∈ d.databases) : DefInv (setRP d' dbi k r) := by
  unfold setRP
  exact defInv_setDB (defInv_of_eq h hdbs) (defOK_insert (h _ hd))

theorem defInv_mapRPs {d : Data} (f : DB → RP → RP) (h : DefInv d) : DefInv (mapRPs f d) := by
  intro x hx
  simp only [mapRPs, List.mem_map] at hx
  obtain ⟨⟨k, db⟩, hm, rfl⟩ := hx
  have := h _ hm
  unfold DefOK defaultDB at *
  simp only [Bool.or_eq_true, beq_iff_eq] at this ⊢
  rcases this with h1 | h1
  · exact Or.inl h1
  · right
    -- mapping the values keeps the keys
    have key : ∀ (l : List (String × RP)) (kk : String), (alFind kk l).isSome = true →
        (alFind kk (l.map fun (x : String × RP) => (x.1, f db x.2))).isSome = true := by
      intro l kk
      induction l with
      | nil => simp [alFind]
      | cons a l ih =>
        obtain ⟨ka, va⟩ := a
        simp only [List.map_cons, alFind]
        split
        · simp
        · exact ih
    exact key _ _ h1

variable {d : Data}

theorem def_createDatabase (h : DefInv d) (n rp rep) : DefInv (createDatabase d n rp rep).1 := by
  unfold createDatabase
  simp only
  repeat' split
  all_goals first
    | exact h
    | (apply defInv_setDB h
       simp [DefOK, defaultDB, DB.setRetentionPolicy, alInsert, alFind])

theorem def_dropDatabase (h : DefInv d) (n) : DefInv (dropDatabase d n).1 := by
  unfold dropDatabase
  split
  · exact h
  · intro x hx; exact h x (mem_alErase hx)

theorem def_markDatabaseDelete (h : DefInv d) (n) : DefInv (markDatabaseDelete d n).1 := by
  unfold markDatabaseDelete
  split
  · exact h
  · next db hf =>
    split
    · exact h
    · exact defInv_setDB h (h _ (alFind_mem hf))

theorem def_createRetentionPolicy (h : DefInv d) (db s md) : DefInv (createRetentionPolicy d db s md).1 := by
  unfold createRetentionPolicy
  split
  · exact h
  · next dbi hd =>
    have hm := (getDatabase_ok hd).1
    split
    · exact h
    · exact h
    · next r hr =>
      apply defInv_setDB h
      have h0 := h _ hm
      unfold DefOK defaultDB DB.setRetentionPolicy at *
      simp only [Bool.or_eq_true, beq_iff_eq] at h0 ⊢
      split
      · right; simp [alFind_alInsert_self]
      · rcases h0 with h0 | h0
        · exact Or.inl h0
        · exact Or.inr (alFind_alInsert_isSome r h0)

theorem def_dropRetentionPolicy (h : DefInv d) (db rp) : DefInv (dropRetentionPolicy d db rp).1 := by
  unfold dropRetentionPolicy
  split
  · exact h
  · next dbi hd =>
    have hm := (getDatabase_ok hd).1
    apply defInv_setDB h
    have h0 := h _ hm
    unfold DefOK defaultDB at *
    simp only [Bool.or_eq_true, beq_iff_eq] at h0 ⊢
    split
    · exact Or.inl rfl
    · next hc =>
      by_cases hdef : dbi.defaultRP = ""
      · exact Or.inl hdef
      · right
        have h1 : (alFind dbi.defaultRP dbi.rps).isSome = true := by
          rcases h0 with h0 | h0
          · exact absurd h0 hdef
          · exact h0
        have hne : dbi.defaultRP ≠ rp := by
          intro he
          apply hc
          exact ⟨fun h => hdef (he.trans h), he⟩
        rw [alFind_alErase_ne hne]; exact h1

theorem def_setDefaultRetentionPolicy (h : DefInv d) (db rp) : DefInv (setDefaultRetentionPolicy d db rp).1 := by
  unfold setDefaultRetentionPolicy
  split
  · exact h
  · next dbi hd =>
    split
    · exact h
    · next kr hr =>
      apply defInv_setDB h
      unfold DefOK defaultDB
      simp only [Bool.or_eq_true, beq_iff_eq]
      by_cases hrp : rp = ""
      · exact Or.inl hrp
      · right
        -- `getRP rp` succeeded for a non-empty name: the key `rp` exists
        unfold DB.getRP DB.rp? DB.rpKey at hr
        simp only [hrp, if_false] at hr
        cases hf : alFind rp dbi.rps with
        | none => simp [hf] at hr
        | some r => simp

/-- the database `updateRetentionPolicy` writes back keeps a live default -/
theorem defOK_writeBack {dbi : DB} {k newName : String} {r r' : RP} (md : Bool) (h0 : DefOK dbi) (hname : r.name = k) :
    DefOK (writeBack dbi k newName r r' md) := by
  unfold DefOK defaultDB writeBack at *
  simp only [Bool.or_eq_true, beq_iff_eq] at h0 ⊢
  subst hname
  by_cases hren : newName ≠ r.name
  · simp only [if_pos hren]
    by_cases hmd : md = true
    · right; simp [hmd, alFind_alInsert_self]
    · have hmd' : md = false := by simpa using hmd
      subst hmd'
      simp only [Bool.false_eq_true, if_false]
      by_cases hdo : dbi.defaultRP = r.name
      · right; simp [hdo, alFind_alInsert_self]
      · simp only [hdo, if_false]
        rcases h0 with h0 | h0
        · exact Or.inl h0
        · right
          by_cases hdn : dbi.defaultRP = newName
          · rw [hdn]; simp [alFind_alInsert_self]
          · rw [alFind_alInsert_ne _ hdn, alFind_alErase_ne hdo, alFind_alErase_ne hdo]; exact h0
  · have hnn : newName = r.name := by simpa using hren
    simp only [if_neg hren]
    by_cases hmd : md = true
    · right; simp [hmd, hnn, alFind_alInsert_self]
    · have hmd' : md = false := by simpa using hmd
      subst hmd'
      simp only [Bool.false_eq_true, if_false]
      rcases h0 with h0 | h0
      · exact Or.inl h0
      · exact Or.inr (alFind_alInsert_isSome r' h0)

theorem def_updateRetentionPolicy (h : DefInv d) (hk : KeysAreNames d) (db rp u) : DefInv (updateRetentionPolicy d db rp u).1 := by
  unfold updateRetentionPolicy
  split
  · exact h
  · next dbi hd =>
    have hm := (getDatabase_ok hd).1
    have h0 := h _ hm
    split
    · exact h
    · next k r hr =>
      have hname : r.name = k := (hk _ hm).2 _ (DB.getRP_ok hr).1
      split
      · exact h
      · simp only
        split
        · exact h
        · exact defInv_setDB h (defOK_writeBack u.makeDefault h0 hname)

theorem def_setRP_cmds (h : DefInv d) (pick : Nat) :
    (∀ db rp, DefInv (markRetentionPolicyDelete d db rp).1) ∧
    (∀ db rp m ski e fs, DefInv (createMeasurement pick d db rp m ski e fs).1) ∧
    (∀ db rp m ski, DefInv (alterShardKey pick d db rp m ski).1) ∧
    (∀ db rp m fs, DefInv (updateSchema d db rp m fs).1) ∧
    (∀ db rp m, DefInv (markMeasurementDelete d db rp m).1) ∧
    (∀ db rp m, DefInv (dropMeasurement d db rp m).1) ∧
    (∀ db rp id t, DefInv (deleteShardGroup d db rp id t).1) ∧
    (∀ db rp id, DefInv (deleteIndexGroup d db rp id).1) ∧
    (∀ s t db rp, DefInv (updateShardInfoTier d s t db rp).1) := by
  refine ⟨?_, ?_, ?_, ?_, ?_, ?_, ?_, ?_, ?_⟩
  · intro db rp
    unfold markRetentionPolicyDelete
    split
    · exact h
    · next dbi k r hg => exact defInv_setRP h rfl (getRP_ok hg).1
  · intro db rp m ski e fs
    unfold createMeasurement
    split
    · exact h
    · next dbi k r hg =>
      simp only
      repeat' split
      all_goals first
        | exact h
        | exact defInv_setRP (d' := { d with maxMstID := d.maxMstID + 1 }) h rfl (getRP_ok hg).1
  · intro db rp m ski
    unfold alterShardKey
    split
    · exact h
    · next dbi k r hg =>
      split
      · exact h
      · simp only
        repeat' split
        all_goals first
          | exact h
          | exact defInv_setRP h rfl (getRP_ok hg).1
  · intro db rp m fs
    unfold updateSchema
    split
    · exact h
    · next dbi k r ms hg =>
      split
      · exact h
      · exact defInv_setRP h rfl (getMeasurement_ok hg).1
  · intro db rp m
    unfold markMeasurementDelete
    split
    · exact h
    · next dbi k r ms hg => exact defInv_setRP h rfl (getMeasurement_ok hg).1
  · intro db rp m
    unfold dropMeasurement
    split
    · exact h
    · next dbi k r hg => exact defInv_setRP h rfl (getRP_ok hg).1
  · intro db rp id t
    unfold deleteShardGroup
    split
    · exact h
    · next dbi k r hg => exact defInv_setRP h rfl (getRP_ok hg).1
  · intro db rp id
    unfold deleteIndexGroup
    split
    · exact h
    · next dbi k r hg => exact defInv_setRP h rfl (getRP_ok hg).1
  · intro s t db rp
    unfold updateShardInfoTier
    split
    · exact h
    · next dbi k r hg =>
      split
      · exact defInv_setRP h rfl (getRP_ok hg).1
      · exact h

theorem indexGroupFor_dbs (d : Data) (r : RP) (ts : Int) (e : Nat) : (indexGroupFor d r ts e).1.databases = d.databases := by
  unfold indexGroupFor
  repeat' split
  all_goals simp [createIndexGroup]

theorem def_createShardGroup (h : DefInv d) (pick db rp ts tier e v) : DefInv (createShardGroup pick d db rp ts tier e v).1 := by
  unfold createShardGroup
  split
  · exact h
  · split
    · exact h
    · next dbi k r hg =>
      split
      · exact h
      · split
        · exact h
        · split
          · exact h
          · have hdb := indexGroupFor_dbs d r ts e
            generalize indexGroupFor d r ts e = x at hdb
            obtain ⟨d1, r1, ig⟩ := x
            simp only at hdb ⊢
            exact defInv_setRP (d' := _) h (by simpa using hdb) (getRP_ok hg).1

theorem def_applyP (pick : Nat) (h : DefInv d) (hk : KeysAreNames d) (c : Cmd) : DefInv (applyP pick d c).1 := by
  have hs := def_setRP_cmds h pick
  cases c with
  | createDatabase n rp rep => exact def_createDatabase h n rp rep
  | dropDatabase n => exact def_dropDatabase h n
  | markDatabaseDelete n => exact def_markDatabaseDelete h n
  | createRetentionPolicy db s md => exact def_createRetentionPolicy h db s md
  | dropRetentionPolicy db rp => exact def_dropRetentionPolicy h db rp
  | markRetentionPolicyDelete db rp => exact hs.1 db rp
  | setDefaultRetentionPolicy db rp => exact def_setDefaultRetentionPolicy h db rp
  | updateRetentionPolicy db rp u => exact def_updateRetentionPolicy h hk db rp u
  | createMeasurement db rp m ski e fs => exact hs.2.1 db rp m ski e fs
  | alterShardKey db rp m ski => exact hs.2.2.1 db rp m ski
  | updateSchema db rp m fs => exact hs.2.2.2.1 db rp m fs
  | markMeasurementDelete db rp m => exact hs.2.2.2.2.1 db rp m
  | dropMeasurement db rp m => exact hs.2.2.2.2.2.1 db rp m
  | createShardGroup db rp ts tier e v => exact def_createShardGroup h pick db rp ts tier e v
  | deleteShardGroup db rp id t => exact hs.2.2.2.2.2.2.1 db rp id t
  | deleteIndexGroup db rp id => exact hs.2.2.2.2.2.2.2.1 db rp id
  | pruneGroups sg id =>
    simp only [applyP]; unfold pruneGroups
    split <;> exact defInv_mapRPs _ h
  | createDataNode hh t r =>
    simp only [applyP]; unfold createDataNode
    split
    · exact defInv_of_eq h rfl
    · simp only
      repeat' split
      all_goals exact defInv_of_eq h rfl
  | createDbPtView db =>
    simp only [applyP]; unfold createDbPtView
    split
    · exact h
    · simp only
      split
      · exact h
      · exact defInv_of_eq h rfl
  | updateShardInfoTier s t db rp => exact hs.2.2.2.2.2.2.2.2 s t db rp
  | createUser n hh a rw =>
    simp only [applyP]; unfold createUser
    repeat' split
    all_goals first | exact h | exact defInv_of_eq h rfl
  | dropUser n =>
    simp only [applyP]; unfold dropUser
    repeat' split
    all_goals first | exact h | exact defInv_of_eq h rfl
  | updateUser n hh =>
    simp only [applyP]; unfold updateUser
    repeat' split
    all_goals first | exact h | exact defInv_of_eq h rfl
  | setPrivilege u db p =>
    simp only [applyP]; unfold setPrivilege
    repeat' split
    all_goals first | exact h | exact defInv_of_eq h rfl
  | setAdminPrivilege u a =>
    simp only [applyP]; unfold setAdminPrivilege
    split <;> exact h

theorem defInv_applyAll (h : DefInv d) (hk : KeysAreNames d) (cs : List Cmd) : DefInv (applyAll d cs) := by
  induction cs generalizing d with
  | nil => exact h
  | cons c cs ih => exact ih (def_applyP 0 h hk c) (kn_apply hk c)

/-- **T5** in every reachable state each database's default policy exists (or the database
has no default) — clause `default` of WF, with no side condition. -/
theorem default_exists_invariant (log : List Cmd) : defaultsExist (applyAll Data.init log) = true :=
  (defInv_iff _).1 (defInv_applyAll defInv_init kn_init log)

end OG.C16
