/-
C16 — a command that fails (returns an error, or panics) leaves the catalogue unchanged.
Holds for the repaired code (`fix:` 40820ee — validate the field list before changing
anything); before it `UpdateSchema` and `CreateMeasurement` half-applied.
-/
import OG.Meta.Model

namespace OG.C16
open OG.Meta

/-- the result is an error or a panic -/
def Result.failed : Result → Bool
  | .ok => false
  | _ => true

macro "close_step" : tactic =>
  `(tactic| (repeat' split) <;> (intro h; first | rfl | (simp [fail, done, Result.failed] at h) | (simp [fail, done, Result.failed] at h ⊢)))

variable (d : Data)

theorem fu_createDatabase (n rp rep) : Result.failed (createDatabase d n rp rep).2 = true → (createDatabase d n rp rep).1 = d := by
  unfold createDatabase; simp only; close_step
theorem fu_dropDatabase (n) : Result.failed (dropDatabase d n).2 = true → (dropDatabase d n).1 = d := by
  unfold dropDatabase; close_step
theorem fu_markDatabaseDelete (n) : Result.failed (markDatabaseDelete d n).2 = true → (markDatabaseDelete d n).1 = d := by
  unfold markDatabaseDelete; close_step
theorem fu_createRetentionPolicy (db s md) : Result.failed (createRetentionPolicy d db s md).2 = true → (createRetentionPolicy d db s md).1 = d := by
  unfold createRetentionPolicy; close_step
theorem fu_dropRetentionPolicy (db rp) : Result.failed (dropRetentionPolicy d db rp).2 = true → (dropRetentionPolicy d db rp).1 = d := by
  unfold dropRetentionPolicy; close_step
theorem fu_markRetentionPolicyDelete (db rp) : Result.failed (markRetentionPolicyDelete d db rp).2 = true → (markRetentionPolicyDelete d db rp).1 = d := by
  unfold markRetentionPolicyDelete; close_step
theorem fu_setDefaultRetentionPolicy (db rp) : Result.failed (setDefaultRetentionPolicy d db rp).2 = true → (setDefaultRetentionPolicy d db rp).1 = d := by
  unfold setDefaultRetentionPolicy; close_step
theorem fu_updateRetentionPolicy (db rp u) : Result.failed (updateRetentionPolicy d db rp u).2 = true → (updateRetentionPolicy d db rp u).1 = d := by
  unfold updateRetentionPolicy; simp only; close_step
theorem fu_createMeasurement (p db rp m ski e fs) : Result.failed (createMeasurement p d db rp m ski e fs).2 = true → (createMeasurement p d db rp m ski e fs).1 = d := by
  unfold createMeasurement; simp only; close_step
theorem fu_alterShardKey (p db rp m ski) : Result.failed (alterShardKey p d db rp m ski).2 = true → (alterShardKey p d db rp m ski).1 = d := by
  unfold alterShardKey; simp only; close_step
theorem fu_updateSchema (db rp m fs) : Result.failed (updateSchema d db rp m fs).2 = true → (updateSchema d db rp m fs).1 = d := by
  unfold updateSchema; close_step
theorem fu_markMeasurementDelete (db rp m) : Result.failed (markMeasurementDelete d db rp m).2 = true → (markMeasurementDelete d db rp m).1 = d := by
  unfold markMeasurementDelete; close_step
theorem fu_dropMeasurement (db rp m) : Result.failed (dropMeasurement d db rp m).2 = true → (dropMeasurement d db rp m).1 = d := by
  unfold dropMeasurement; close_step
theorem fu_createShardGroup (p db rp ts tier e v) : Result.failed (createShardGroup p d db rp ts tier e v).2 = true → (createShardGroup p d db rp ts tier e v).1 = d := by
  unfold createShardGroup; simp only; close_step
theorem fu_deleteShardGroup (db rp id t) : Result.failed (deleteShardGroup d db rp id t).2 = true → (deleteShardGroup d db rp id t).1 = d := by
  unfold deleteShardGroup; simp only; close_step
theorem fu_deleteIndexGroup (db rp id) : Result.failed (deleteIndexGroup d db rp id).2 = true → (deleteIndexGroup d db rp id).1 = d := by
  unfold deleteIndexGroup; simp only; close_step
theorem fu_pruneGroups (sg id) : Result.failed (pruneGroups d sg id).2 = true → (pruneGroups d sg id).1 = d := by
  unfold pruneGroups; close_step
theorem fu_createDataNode (h t r) : Result.failed (createDataNode d h t r).2 = true → (createDataNode d h t r).1 = d := by
  unfold createDataNode; simp only; close_step
theorem fu_createDbPtView (db) : Result.failed (createDbPtView d db).2 = true → (createDbPtView d db).1 = d := by
  unfold createDbPtView; simp only; close_step
theorem fu_updateShardInfoTier (s t db rp) : Result.failed (updateShardInfoTier d s t db rp).2 = true → (updateShardInfoTier d s t db rp).1 = d := by
  unfold updateShardInfoTier; simp only; close_step
theorem fu_createUser (n h a rw) : Result.failed (createUser d n h a rw).2 = true → (createUser d n h a rw).1 = d := by
  unfold createUser; close_step
theorem fu_dropUser (n) : Result.failed (dropUser d n).2 = true → (dropUser d n).1 = d := by
  unfold dropUser; close_step
theorem fu_updateUser (n h) : Result.failed (updateUser d n h).2 = true → (updateUser d n h).1 = d := by
  unfold updateUser; close_step
theorem fu_setPrivilege (u db p) : Result.failed (setPrivilege d u db p).2 = true → (setPrivilege d u db p).1 = d := by
  unfold setPrivilege; close_step
theorem fu_setAdminPrivilege (u) : Result.failed (setAdminPrivilege d u).2 = true → (setAdminPrivilege d u).1 = d := by
  unfold setAdminPrivilege; close_step

theorem failed_unchanged_pick (p : Nat) (c : Cmd) : Result.failed (applyP p d c).2 = true → (applyP p d c).1 = d := by
  cases c with
  | createDatabase n rp rep => exact fu_createDatabase d n rp rep
  | dropDatabase n => exact fu_dropDatabase d n
  | markDatabaseDelete n => exact fu_markDatabaseDelete d n
  | createRetentionPolicy db s md => exact fu_createRetentionPolicy d db s md
  | dropRetentionPolicy db rp => exact fu_dropRetentionPolicy d db rp
  | markRetentionPolicyDelete db rp => exact fu_markRetentionPolicyDelete d db rp
  | setDefaultRetentionPolicy db rp => exact fu_setDefaultRetentionPolicy d db rp
  | updateRetentionPolicy db rp u => exact fu_updateRetentionPolicy d db rp u
  | createMeasurement db rp m ski e fs => exact fu_createMeasurement d p db rp m ski e fs
  | alterShardKey db rp m ski => exact fu_alterShardKey d p db rp m ski
  | updateSchema db rp m fs => exact fu_updateSchema d db rp m fs
  | markMeasurementDelete db rp m => exact fu_markMeasurementDelete d db rp m
  | dropMeasurement db rp m => exact fu_dropMeasurement d db rp m
  | createShardGroup db rp ts tier e v => exact fu_createShardGroup d p db rp ts tier e v
  | deleteShardGroup db rp id t => exact fu_deleteShardGroup d db rp id t
  | deleteIndexGroup db rp id => exact fu_deleteIndexGroup d db rp id
  | pruneGroups sg id => exact fu_pruneGroups d sg id
  | createDataNode h t r => exact fu_createDataNode d h t r
  | createDbPtView db => exact fu_createDbPtView d db
  | updateShardInfoTier s t db rp => exact fu_updateShardInfoTier d s t db rp
  | createUser n h a rw => exact fu_createUser d n h a rw
  | dropUser n => exact fu_dropUser d n
  | updateUser n h => exact fu_updateUser d n h
  | setPrivilege u db pr => exact fu_setPrivilege d u db pr
  | setAdminPrivilege u a => exact fu_setAdminPrivilege d u

end OG.C16
