/-
C16 — `GInv` (live groups aligned and pairwise disjoint) is preserved by every command that is
`safe`: not a shard-duration change of a policy that has live groups, not a CancelDelete, and —
for CreateShardGroup — an instant within the valid range of point times.
-/
import OG.C16.Groups

namespace OG.C16
open OG.Meta

/-- the hypotheses of the conditional clauses, as one decidable predicate on (state, command) -/
def safe (d : Data) : Cmd → Bool
  | .updateRetentionPolicy db rp u =>
    match getRP d db rp with
    | .ok (_, _, r) =>
      (match u.sgDuration with
       | none => true
       | some s => normalisedShardDuration s (u.duration.getD r.duration) == r.sgDuration) ||
      r.shardGroups.all (·.deleted)
    | .error _ => true
  | .deleteShardGroup _ _ _ t => t != 1
  | .createShardGroup _ _ ts _ _ _ => ts ≤ maxNanoTime
  | _ => true

variable {d : Data}

theorem gok_empty (s : RPSpec) (y : Durs) (hy : hour ≤ y.sg) : GOK (s.toRP y) :=
  ⟨by simpa [RPSpec.toRP] using hy, by simp [RPSpec.toRP], by simp [RPSpec.toRP]⟩

theorem checkCanCreateRP_create' {db : DB} {s : RPSpec} {md : Bool} {r : RP} (h : checkCanCreateRP db s md = .create r) :
    ∃ y, r = s.toRP y ∧ hour ≤ y.sg := by
  unfold checkCanCreateRP at h
  split at h
  · cases h
  · split at h
    · cases h
    · next y hy =>
      have hsg : hour ≤ y.sg := by rw [checkSpecValid_sg hy]; exact normalisedShardDuration_ge _ _
      split at h
      · split at h
        · cases h
        · cases h; exact ⟨y, rfl, hsg⟩
      · split at h
        · cases h
        · split at h <;> cases h

theorem g_createDatabase (hinv : GInv d) (n rp rep) : GInv (createDatabase d n rp rep).1 := by
  unfold createDatabase
  simp only
  repeat' split
  all_goals first
    | exact hinv
    | (obtain ⟨y, rfl, hy⟩ := checkCanCreateRP_create' (by assumption)
       apply ginv_setDB hinv
       intro kr hkr
       simp only [DB.setRetentionPolicy] at hkr
       rcases mem_alInsert hkr with rfl | hkr
       · exact gok_empty _ _ hy
       · simp at hkr)

theorem g_dropDatabase (hinv : GInv d) (n) : GInv (dropDatabase d n).1 := by
  unfold dropDatabase
  split
  · exact hinv
  · intro rp hrp; exact hinv rp (allRPs_erase (d := d) rfl hrp)

theorem g_markDatabaseDelete (hinv : GInv d) (n) : GInv (markDatabaseDelete d n).1 := by
  unfold markDatabaseDelete
  split
  · exact hinv
  · next db hf =>
    split
    · exact hinv
    · exact ginv_setDB hinv (fun kr hkr => gsOk_of_mem hinv (alFind_mem hf) kr hkr)

theorem g_createRetentionPolicy (hinv : GInv d) (db s md) : GInv (createRetentionPolicy d db s md).1 := by
  unfold createRetentionPolicy
  split
  · exact hinv
  · next dbi hd =>
    have hm := (getDatabase_ok hd).1
    split
    · exact hinv
    · exact hinv
    · next r hr =>
      obtain ⟨y, rfl, hy⟩ := checkCanCreateRP_create' hr
      apply ginv_setDB hinv
      intro kr hkr
      simp only [DB.setRetentionPolicy] at hkr
      rcases mem_alInsert hkr with rfl | hkr
      · exact gok_empty _ _ hy
      · exact gsOk_of_mem hinv hm kr hkr

theorem g_dropRetentionPolicy (hinv : GInv d) (db rp) : GInv (dropRetentionPolicy d db rp).1 := by
  unfold dropRetentionPolicy
  split
  · exact hinv
  · next dbi hd =>
    have hm := (getDatabase_ok hd).1
    apply ginv_setDB hinv
    intro kr hkr
    exact gsOk_of_mem hinv hm kr (mem_alErase hkr)

theorem g_setDefaultRetentionPolicy (hinv : GInv d) (db rp) : GInv (setDefaultRetentionPolicy d db rp).1 := by
  unfold setDefaultRetentionPolicy
  split
  · exact hinv
  · next dbi hd =>
    have hm := (getDatabase_ok hd).1
    split
    · exact hinv
    · exact ginv_setDB hinv (fun kr hkr => gsOk_of_mem hinv hm kr hkr)

theorem getRP_of_parts {db rp k : String} {dbi : DB} {r : RP} (hd : getDatabase d db = .ok dbi) (hr : dbi.getRP rp = .ok (k, r)) :
    getRP d db rp = .ok (dbi, k, r) := by
  unfold getRP; rw [hd]; simp only; rw [hr]

theorem normalised_self {sgd dur : Int} (h : hour ≤ sgd) : normalisedShardDuration sgd dur = sgd := by
  unfold normalisedShardDuration minRetentionPolicyDuration
  have : (0 : Int) < hour := hour_pos
  rw [if_neg (by omega), if_neg (by omega)]

theorem g_updateRetentionPolicy (hinv : GInv d) (db rp u) (hs : safe d (.updateRetentionPolicy db rp u) = true) :
    GInv (updateRetentionPolicy d db rp u).1 := by
  unfold updateRetentionPolicy
  split
  · exact hinv
  · next dbi hd =>
    have hm := (getDatabase_ok hd).1
    split
    · exact hinv
    · next k r hr =>
      have hkr := (DB.getRP_ok hr).1
      have h := gsOk_of_mem hinv hm (k, r) hkr
      simp only at h
      have hgr := getRP_of_parts hd hr
      split
      · exact hinv
      · simp only
        split
        · exact hinv
        · next y hy =>
          apply ginv_setDB hinv
          intro kr hmem
          rcases mem_writeBack hmem with he | hmem
          · rw [he]
            have hysg := checkSpecValid_sg hy
            simp only at hysg
            refine ⟨?_, ?_, h.compat⟩
            · show hour ≤ y.sg
              rw [hysg]; exact normalisedShardDuration_ge _ _
            · intro g hg hl
              -- either the duration is unchanged, or there is no live group
              simp only [safe, hgr, Bool.or_eq_true, List.all_eq_true] at hs
              rcases hs with hs | hs
              · have : y.sg = r.sgDuration := by
                  rw [hysg]
                  cases hu : u.sgDuration with
                  | none => simp only [Option.getD_none]; exact normalised_self h.durPos
                  | some s => simp only [hu, beq_iff_eq] at hs; simpa using hs
                show AlignedG y.sg g
                rw [this]; exact h.aligned g hg hl
              · have := hs g hg
                simp [hl] at this
          · exact gsOk_of_mem hinv hm kr hmem

/-- commands that replace a policy by one with the same groups and the same duration -/
theorem gok_same {r r' : RP} (h : GOK r) (h1 : r'.shardGroups = r.shardGroups) (h2 : r'.sgDuration = r.sgDuration) : GOK r' :=
  ⟨by rw [h2]; exact h.durPos, by rw [h1, h2]; exact h.aligned, by rw [h1]; exact h.compat⟩

theorem schemaCleanAll_same (rp : RP) (b : Bool) (e : Int) :
    (rp.schemaCleanAll b e).shardGroups = rp.shardGroups ∧ (rp.schemaCleanAll b e).sgDuration = rp.sgDuration := by
  unfold RP.schemaCleanAll
  simp only
  split
  · exact ⟨rfl, rfl⟩
  · generalize ((List.map (fun m => m.schemaClean e) rp.msts).filter _).map _ = l
    generalize hr : ({ rp with msts := _ } : RP) = r0
    have h0 : r0.shardGroups = rp.shardGroups ∧ r0.sgDuration = rp.sgDuration := by subst hr; exact ⟨rfl, rfl⟩
    clear hr
    induction l generalizing r0 with
    | nil => simpa using h0
    | cons o l ih =>
      simp only [List.foldl_cons]
      apply ih
      split
      · split
        · exact h0
        · exact h0
      · exact h0

theorem gok_pruneShardGroupsRP (id : Nat) (b : Bool) (rp : RP) (h : GOK rp) : GOK (pruneShardGroupsRP id b rp) := by
  unfold pruneShardGroupsRP
  simp only
  have h1 : GOK { rp with shardGroups := (pruneSGs id rp.shardGroups).1 } := by
    refine ⟨h.durPos, ?_, compat_pruneSGs id _ h.compat⟩
    intro g hg hl
    obtain ⟨y, hy, hs⟩ := mem_pruneSGs hg
    have := h.aligned y hy (by rw [← hs.2.2.2.1]; exact hl)
    unfold AlignedG at this ⊢
    rw [hs.2.1, hs.2.2.1]; exact this
  split
  · exact h1
  · exact gok_same h1 (schemaCleanAll_same _ _ _).1 (schemaCleanAll_same _ _ _).2

theorem gok_updSG {r : RP} (p : SG → Bool) (f : SG → SG) (h : GOK r)
    (hsame : ∀ g, (f g).start = g.start ∧ (f g).stop = g.stop ∧ (f g).engine = g.engine ∧ ((f g).deleted = false → g.deleted = false)) :
    GOK { r with shardGroups := updFirst p f r.shardGroups } := by
  refine ⟨h.durPos, ?_, ?_⟩
  · intro g hg hl
    rcases mem_updFirst hg with hg | ⟨z, hz, rfl⟩
    · exact h.aligned g hg hl
    · have := h.aligned z hz ((hsame z).2.2.2 hl)
      unfold AlignedG at this ⊢
      rw [(hsame z).1, (hsame z).2.1]; exact this
  · apply pairwise_updFirst _ _ _ h.compat
    · intro a b hab h1 h2
      have := hab ((hsame a).2.2.2 h1) h2
      rw [(hsame a).1, (hsame a).2.1, (hsame a).2.2.1]; exact this
    · intro a b hab h1 h2
      have := hab h1 ((hsame b).2.2.2 h2)
      rw [(hsame b).1, (hsame b).2.1, (hsame b).2.2.1]; exact this

theorem g_deleteShardGroup (hinv : GInv d) (db rp id t) (hs : safe d (.deleteShardGroup db rp id t) = true) :
    GInv (deleteShardGroup d db rp id t).1 := by
  unfold deleteShardGroup
  split
  · exact hinv
  · next dbi k r hg =>
    have h := gok_of_getRP hinv hg
    apply ginv_setRP hinv rfl (getRP_ok hg).1
    apply gok_updSG _ _ h
    intro g
    refine ⟨rfl, rfl, rfl, ?_⟩
    intro hdel
    -- a mark-delete sets the flag, so the updated group cannot be live
    have ht : t ≠ 1 := by simpa [safe] using hs
    simp [ht] at hdel

theorem indexGroupFor_same (d : Data) (r : RP) (ts : Int) (e : Nat) :
    (indexGroupFor d r ts e).2.1.shardGroups = r.shardGroups ∧ (indexGroupFor d r ts e).2.1.sgDuration = r.sgDuration := by
  unfold indexGroupFor
  repeat' split
  all_goals simp [createIndexGroup]

theorem groupAt_none {r : RP} {ts : Int} {e : Nat} (h : (r.groupAt ts e).isSome = false) :
    ∀ g ∈ r.shardGroups, ¬ (g.engine = e ∧ g.contains ts = true ∧ g.deleted = false) := by
  intro g hg hc
  unfold RP.groupAt at h
  have hnone : r.shardGroups.reverse.find? (fun g => decide (g.engine = e ∧ g.contains ts = true ∧ (!g.deleted) = true)) = none := by
    cases hf : r.shardGroups.reverse.find? (fun g => decide (g.engine = e ∧ g.contains ts = true ∧ (!g.deleted) = true)) with
    | none => rfl
    | some x => rw [hf] at h; simp at h
  rw [List.find?_eq_none] at hnone
  have := hnone g (List.mem_reverse.2 hg)
  simp [hc.1, hc.2.1, hc.2.2] at this

theorem g_createShardGroup (hinv : GInv d) (pick db rp ts tier e v) (hs : safe d (.createShardGroup db rp ts tier e v) = true) :
    GInv (createShardGroup pick d db rp ts tier e v).1 := by
  have hts : ts ≤ maxNanoTime := by simpa [safe] using hs
  unfold createShardGroup
  split
  · exact hinv
  · split
    · exact hinv
    · next dbi k r hg =>
      have h := gok_of_getRP hinv hg
      split
      · exact hinv
      · next hnone =>
        have hnone' : (r.groupAt ts e).isSome = false := by simpa using hnone
        split
        · exact hinv
        · split
          · exact hinv
          · have hsame := indexGroupFor_same d r ts e
            have hdb := indexGroupFor_dbs d r ts e
            generalize indexGroupFor d r ts e = x at hsame hdb
            obtain ⟨d1, r1, ig⟩ := x
            simp only at hsame hdb ⊢
            have hp : 0 < r.sgDuration := Int.lt_of_lt_of_le hour_pos h.durPos
            apply ginv_setRP (d' := _) hinv (by simpa using hdb) (getRP_ok hg).1
            have h1 : GOK r1 := gok_same h hsame.1 hsame.2
            refine ⟨h1.durPos, ?_, ?_⟩
            · intro g hgm hl
              rcases mem_insertSG.1 hgm with rfl | hgm
              · rw [hsame.2]
                exact ⟨truncate_aligned ts _ hp, rfl⟩
              · exact h1.aligned g hgm hl
            · apply compat_insertSG _ _ h1.compat
              intro x hx _ hxl
              by_cases hen : e = x.engine
              · right
                rw [hsame.1] at hx
                have hxa := h.aligned x hx hxl
                have hnc := groupAt_none hnone' x hx
                rw [hsame.2]
                have htr := truncate_range ts r.sgDuration hp
                have hta := truncate_aligned ts r.sgDuration hp
                simp only
                by_cases heq : x.start = truncateTime ts r.sgDuration
                · -- same start: the existing live group would contain the instant
                  exfalso
                  apply hnc
                  refine ⟨hen.symm, ?_, hxl⟩
                  unfold SG.contains
                  rw [hxa.2, heq]
                  simp only [decide_eq_true_eq, Bool.and_eq_true]
                  refine ⟨htr.1, ?_⟩
                  unfold clampEnd
                  split <;> omega
                · rcases aligned_apart hp hxa.1 hta heq with hlt | hlt
                  · right
                    rw [hxa.2]
                    have := clampEnd_le (x.start + r.sgDuration)
                    unfold clampEnd at *
                    split <;> omega
                  · left
                    have : clampEnd (truncateTime ts r.sgDuration + r.sgDuration) ≤ truncateTime ts r.sgDuration + r.sgDuration := by
                      unfold clampEnd; split <;> omega
                    omega
              · exact Or.inl hen

theorem g_setRP_cmds (hinv : GInv d) (pick : Nat) :
    (∀ db rp, GInv (markRetentionPolicyDelete d db rp).1) ∧
    (∀ db rp m ski e fs, GInv (createMeasurement pick d db rp m ski e fs).1) ∧
    (∀ db rp m ski, GInv (alterShardKey pick d db rp m ski).1) ∧
    (∀ db rp m fs, GInv (updateSchema d db rp m fs).1) ∧
    (∀ db rp m, GInv (markMeasurementDelete d db rp m).1) ∧
    (∀ db rp m, GInv (dropMeasurement d db rp m).1) ∧
    (∀ db rp id, GInv (deleteIndexGroup d db rp id).1) ∧
    (∀ s t db rp, GInv (updateShardInfoTier d s t db rp).1) := by
  refine ⟨?_, ?_, ?_, ?_, ?_, ?_, ?_, ?_⟩
  · intro db rp
    unfold markRetentionPolicyDelete
    split
    · exact hinv
    · next dbi k r hg => exact ginv_setRP hinv rfl (getRP_ok hg).1 (gok_same (gok_of_getRP hinv hg) rfl rfl)
  · intro db rp m ski e fs
    unfold createMeasurement
    split
    · exact hinv
    · next dbi k r hg =>
      simp only
      repeat' split
      all_goals first
        | exact hinv
        | exact ginv_setRP (d' := { d with maxMstID := d.maxMstID + 1 }) hinv rfl (getRP_ok hg).1 (gok_same (gok_of_getRP hinv hg) rfl rfl)
  · intro db rp m ski
    unfold alterShardKey
    split
    · exact hinv
    · next dbi k r hg =>
      split
      · exact hinv
      · simp only
        repeat' split
        all_goals first
          | exact hinv
          | exact ginv_setRP hinv rfl (getRP_ok hg).1 (gok_same (gok_of_getRP hinv hg) rfl rfl)
  · intro db rp m fs
    unfold updateSchema
    split
    · exact hinv
    · next dbi k r ms hg =>
      obtain ⟨hg', _⟩ := getMeasurement_mem hg
      split
      · exact hinv
      · exact ginv_setRP hinv rfl (getRP_ok hg').1 (gok_same (gok_of_getRP hinv hg') rfl rfl)
  · intro db rp m
    unfold markMeasurementDelete
    split
    · exact hinv
    · next dbi k r ms hg =>
      obtain ⟨hg', _⟩ := getMeasurement_mem hg
      exact ginv_setRP hinv rfl (getRP_ok hg').1 (gok_same (gok_of_getRP hinv hg') rfl rfl)
  · intro db rp m
    unfold dropMeasurement
    split
    · exact hinv
    · next dbi k r hg => exact ginv_setRP hinv rfl (getRP_ok hg).1 (gok_same (gok_of_getRP hinv hg) rfl rfl)
  · intro db rp id
    unfold deleteIndexGroup
    split
    · exact hinv
    · next dbi k r hg => exact ginv_setRP hinv rfl (getRP_ok hg).1 (gok_same (gok_of_getRP hinv hg) rfl rfl)
  · intro s t db rp
    unfold updateShardInfoTier
    split
    · exact hinv
    · next dbi k r hg =>
      split
      · apply ginv_setRP hinv rfl (getRP_ok hg).1
        exact gok_updSG (fun g => g.shards.any (·.id = s))
          (fun g => { g with shards := updFirst (·.id = s) (fun x => { x with tier := t }) g.shards }) (gok_of_getRP hinv hg)
          (fun g => ⟨rfl, rfl, rfl, fun h => h⟩)
      · exact hinv

theorem g_applyP (pick : Nat) (hinv : GInv d) (c : Cmd) (hs : safe d c = true) : GInv (applyP pick d c).1 := by
  have hc := g_setRP_cmds hinv pick
  cases c with
  | createDatabase n rp rep => exact g_createDatabase hinv n rp rep
  | dropDatabase n => exact g_dropDatabase hinv n
  | markDatabaseDelete n => exact g_markDatabaseDelete hinv n
  | createRetentionPolicy db s md => exact g_createRetentionPolicy hinv db s md
  | dropRetentionPolicy db rp => exact g_dropRetentionPolicy hinv db rp
  | markRetentionPolicyDelete db rp => exact hc.1 db rp
  | setDefaultRetentionPolicy db rp => exact g_setDefaultRetentionPolicy hinv db rp
  | updateRetentionPolicy db rp u => exact g_updateRetentionPolicy hinv db rp u hs
  | createMeasurement db rp m ski e fs => exact hc.2.1 db rp m ski e fs
  | alterShardKey db rp m ski => exact hc.2.2.1 db rp m ski
  | updateSchema db rp m fs => exact hc.2.2.2.1 db rp m fs
  | markMeasurementDelete db rp m => exact hc.2.2.2.2.1 db rp m
  | dropMeasurement db rp m => exact hc.2.2.2.2.2.1 db rp m
  | createShardGroup db rp ts tier e v => exact g_createShardGroup hinv pick db rp ts tier e v hs
  | deleteShardGroup db rp id t => exact g_deleteShardGroup hinv db rp id t hs
  | deleteIndexGroup db rp id => exact hc.2.2.2.2.2.2.1 db rp id
  | pruneGroups sg id =>
    simp only [applyP]; unfold pruneGroups
    split
    · exact ginv_mapRPs _ (fun db rp h => gok_pruneShardGroupsRP id db.markDeleted rp h) hinv
    · exact ginv_mapRPs _ (fun _ rp h => gok_same h rfl rfl) hinv
  | createDataNode hh t r =>
    simp only [applyP]; unfold createDataNode
    split
    · exact ginv_of_eq hinv rfl
    · simp only
      repeat' split
      all_goals exact ginv_of_eq hinv rfl
  | createDbPtView db =>
    simp only [applyP]; unfold createDbPtView
    split
    · exact hinv
    · simp only
      split
      · exact hinv
      · exact ginv_of_eq hinv rfl
  | updateShardInfoTier s t db rp => exact hc.2.2.2.2.2.2.2 s t db rp
  | createUser n hh a rw =>
    simp only [applyP]; unfold createUser
    repeat' split
    all_goals first | exact hinv | exact ginv_of_eq hinv rfl
  | dropUser n =>
    simp only [applyP]; unfold dropUser
    repeat' split
    all_goals first | exact hinv | exact ginv_of_eq hinv rfl
  | updateUser n hh =>
    simp only [applyP]; unfold updateUser
    repeat' split
    all_goals first | exact hinv | exact ginv_of_eq hinv rfl
  | setPrivilege u db p =>
    simp only [applyP]; unfold setPrivilege
    repeat' split
    all_goals first | exact hinv | exact ginv_of_eq hinv rfl
  | setAdminPrivilege u a =>
    simp only [applyP]; unfold setAdminPrivilege
    split <;> exact hinv

end OG.C16
