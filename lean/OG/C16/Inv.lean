/-
C16 — the unconditional part of well-formedness as a per-policy invariant:
ids in use are bounded by the (monotone) counters, and the shard groups of a policy are sorted.
-/
import OG.C16.Frame

namespace OG.C16
open OG.Meta

/-- the id counters of the catalogue -/
structure Ctr where
  sg : Nat
  shard : Nat
  ig : Nat
  idx : Nat
  mst : Nat
  node : Nat
deriving DecidableEq, Repr

def ctr (d : Data) : Ctr :=
  ⟨d.maxShardGroupID, d.maxShardID, d.maxIndexGroupID, d.maxIndexID, d.maxMstID, d.maxNodeID⟩

def Ctr.le (a b : Ctr) : Prop :=
  a.sg ≤ b.sg ∧ a.shard ≤ b.shard ∧ a.ig ≤ b.ig ∧ a.idx ≤ b.idx ∧ a.mst ≤ b.mst ∧ a.node ≤ b.node

theorem Ctr.le_refl (a : Ctr) : a.le a := by simp [Ctr.le]
theorem Ctr.le_trans {a b c : Ctr} (h1 : a.le b) (h2 : b.le c) : a.le c := by
  unfold Ctr.le at *; omega

/-- ids of one policy are bounded by the counters; its groups are sorted -/
structure RPOk (c : Ctr) (rp : RP) : Prop where
  sgBound : ∀ g ∈ rp.shardGroups, g.id ≤ c.sg
  shardBound : ∀ g ∈ rp.shardGroups, ∀ s ∈ g.shards, s.id ≤ c.shard
  igBound : ∀ g ∈ rp.indexGroups, g.id ≤ c.ig
  idxBound : ∀ g ∈ rp.indexGroups, ∀ x ∈ g.indexes, x.id ≤ c.idx
  mstBound : ∀ m ∈ rp.msts, m.id < c.mst
  sorted : sortedRP rp = true

theorem RPOk.mono {a b : Ctr} {rp : RP} (h : a.le b) (hr : RPOk a rp) : RPOk b rp := by
  unfold Ctr.le at h
  exact ⟨fun g hg => Nat.le_trans (hr.sgBound g hg) h.1, fun g hg s hs => Nat.le_trans (hr.shardBound g hg s hs) h.2.1,
    fun g hg => Nat.le_trans (hr.igBound g hg) h.2.2.1, fun g hg x hx => Nat.le_trans (hr.idxBound g hg x hx) h.2.2.2.1,
    fun m hm => Nat.lt_of_lt_of_le (hr.mstBound m hm) h.2.2.2.2.1, hr.sorted⟩

/-- the invariant: every policy is ok w.r.t. the counters, every node id is bounded -/
def Inv (d : Data) : Prop := (∀ rp ∈ allRPs d, RPOk (ctr d) rp) ∧ ∀ n ∈ d.dataNodes, n.id ≤ d.maxNodeID

theorem inv_init : Inv Data.init := by
  constructor
  · intro rp h; simp [allRPs, Data.init] at h
  · intro n h; simp [Data.init] at h

/-- generic step: the state keeps its databases except for one policy that is replaced -/
theorem inv_setRP {d d' : Data} {n k : String} {dbi : DB} {r' : RP} (hinv : Inv d) (hdbs : d'.databases = d.databases)
    (hnodes : d'.dataNodes = d.dataNodes) (hc : (ctr d).le (ctr d')) (hd : (n, dbi) ∈ d.databases) (hr' : RPOk (ctr d') r') :
    Inv (setRP d' dbi k r') := by
  constructor
  · intro rp hrp
    have hd' : (n, dbi) ∈ d'.databases := by rw [hdbs]; exact hd
    rcases allRPs_setRP hd' hrp with rfl | hrp
    · exact hr'
    · rw [allRPs_of_dbs_eq hdbs] at hrp
      exact (hinv.1 rp hrp).mono hc
  · intro nd hnd
    have : nd ∈ d.dataNodes := by simpa [setRP, setDB, hnodes] using hnd
    have hb := hinv.2 nd this
    have h6 : d.maxNodeID ≤ d'.maxNodeID := hc.2.2.2.2.2
    show nd.id ≤ d'.maxNodeID
    omega

/-- generic step: a database is replaced by one whose policies are all ok -/
theorem inv_setDB {d : Data} {db : DB} (hinv : Inv d) (hdb : ∀ kr ∈ db.rps, RPOk (ctr d) kr.2) : Inv (setDB d db) := by
  constructor
  · intro rp hrp
    rcases allRPs_setDB hrp with ⟨kr, hkr, rfl⟩ | hrp
    · exact hdb kr hkr
    · exact hinv.1 rp hrp
  · exact hinv.2

/-- generic step: nothing but counters-irrelevant fields change -/
theorem inv_of_eq {d d' : Data} (hinv : Inv d) (hdbs : d'.databases = d.databases) (hnodes : d'.dataNodes = d.dataNodes)
    (hc : (ctr d).le (ctr d')) : Inv d' := by
  constructor
  · intro rp hrp
    rw [allRPs_of_dbs_eq hdbs] at hrp
    exact (hinv.1 rp hrp).mono hc
  · intro nd hnd
    rw [hnodes] at hnd
    have := hinv.2 nd hnd
    have h6 : d.maxNodeID ≤ d'.maxNodeID := hc.2.2.2.2.2
    omega

/-- a policy found by `getRP` is ok -/
theorem rpok_of_getRP {d : Data} (hinv : Inv d) {db rp k : String} {dbi : DB} {r : RP} (hg : getRP d db rp = .ok (dbi, k, r)) :
    RPOk (ctr d) r :=
  hinv.1 r (mem_allRPs_of (getRP_ok hg).1 (getRP_ok hg).2.1)

end OG.C16
