/-
C16 — line-protocol driver of the catalogue model (core only): see OG/Meta/Session.lean.
-/
import OG.Meta.Session

namespace OG.C16

def main : IO Unit := do
  OG.Meta.runLoop (fun _ _ _ => none) (← IO.getStdin) (← IO.getStdout) {}

end OG.C16

def main : IO Unit := OG.C16.main
