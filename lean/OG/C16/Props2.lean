/-
C16 — property theorems, part 2: the unconditional clauses of well-formedness.

  * `counters_monotone`          the id counters never decrease
  * `ids_never_reused`           an id in use after a command was in use before it or lies above
                                 the old counter — so an id is never handed out twice, also
                                 after deletions (ids in use stay below the counters: next item)
  * `bounded_sorted_invariant`   clauses `counters` and `sorted` of WF are invariants
-/
import OG.C16.Fresh

namespace OG.C16
open OG.Meta

/-- **T2** the id counters (shard group, shard, index group, index, measurement, node) never
decrease — every command, every state, every map order. -/
theorem counters_monotone (d : Data) (c : Cmd) : (ctr d).le (ctr (apply d c).1) := counters_monotone_pick d 0 c

/-- "old, or above the counter of the state the command started from" -/
def freshPred (d : Data) : IdPred where
  sg id := id ∈ sgIds d ∨ d.maxShardGroupID < id
  shard id := id ∈ shardIds d ∨ d.maxShardID < id
  ig id := id ∈ igIds d ∨ d.maxIndexGroupID < id
  idx id := id ∈ indexIds d ∨ d.maxIndexID < id
  mst id := id ∈ mstIds d ∨ d.maxMstID ≤ id
  node id := id ∈ nodeIds d ∨ d.maxNodeID < id

theorem mem_sgIds {d : Data} {id : Nat} : id ∈ sgIds d ↔ ∃ rp ∈ allRPs d, ∃ g ∈ rp.shardGroups, g.id = id := by
  simp [sgIds, allSGs, List.mem_map, List.mem_flatMap]
  constructor
  · rintro ⟨a, ⟨b, hb, ha⟩, h⟩; exact ⟨b, hb, a, ha, h⟩
  · rintro ⟨b, hb, a, ha, h⟩; exact ⟨a, ⟨b, hb, ha⟩, h⟩
theorem mem_shardIds {d : Data} {id : Nat} : id ∈ shardIds d ↔ ∃ rp ∈ allRPs d, ∃ g ∈ rp.shardGroups, ∃ s ∈ g.shards, s.id = id := by
  simp [shardIds, allSGs, List.mem_map, List.mem_flatMap]
  constructor
  · rintro ⟨a, ⟨b, hb, ha⟩, h⟩; exact ⟨b, hb, a, ha, h⟩
  · rintro ⟨b, hb, a, ha, h⟩; exact ⟨a, ⟨b, hb, ha⟩, h⟩
theorem mem_igIds {d : Data} {id : Nat} : id ∈ igIds d ↔ ∃ rp ∈ allRPs d, ∃ g ∈ rp.indexGroups, g.id = id := by
  simp [igIds, allIGs, List.mem_map, List.mem_flatMap]
  constructor
  · rintro ⟨a, ⟨b, hb, ha⟩, h⟩; exact ⟨b, hb, a, ha, h⟩
  · rintro ⟨b, hb, a, ha, h⟩; exact ⟨a, ⟨b, hb, ha⟩, h⟩
theorem mem_indexIds {d : Data} {id : Nat} : id ∈ indexIds d ↔ ∃ rp ∈ allRPs d, ∃ g ∈ rp.indexGroups, ∃ x ∈ g.indexes, x.id = id := by
  simp [indexIds, allIGs, List.mem_map, List.mem_flatMap]
  constructor
  · rintro ⟨a, ⟨b, hb, ha⟩, h⟩; exact ⟨b, hb, a, ha, h⟩
  · rintro ⟨b, hb, a, ha, h⟩; exact ⟨a, ⟨b, hb, ha⟩, h⟩
theorem mem_mstIds {d : Data} {id : Nat} : id ∈ mstIds d ↔ ∃ rp ∈ allRPs d, ∃ m ∈ rp.msts, m.id = id := by
  simp [mstIds, allMsts, List.mem_map, List.mem_flatMap]
  constructor
  · rintro ⟨a, ⟨b, hb, ha⟩, h⟩; exact ⟨b, hb, a, ha, h⟩
  · rintro ⟨b, hb, a, ha, h⟩; exact ⟨a, ⟨b, hb, ha⟩, h⟩
theorem mem_nodeIds {d : Data} {id : Nat} : id ∈ nodeIds d ↔ ∃ n ∈ d.dataNodes, n.id = id := by
  simp [nodeIds, List.mem_map]

theorem freshPred_base (d : Data) : InvP (freshPred d) d :=
  ⟨fun rp hrp =>
    ⟨fun g hg => Or.inl (mem_sgIds.2 ⟨rp, hrp, g, hg, rfl⟩),
     fun g hg s hs => Or.inl (mem_shardIds.2 ⟨rp, hrp, g, hg, s, hs, rfl⟩),
     fun g hg => Or.inl (mem_igIds.2 ⟨rp, hrp, g, hg, rfl⟩),
     fun g hg x hx => Or.inl (mem_indexIds.2 ⟨rp, hrp, g, hg, x, hx, rfl⟩),
     fun m hm => Or.inl (mem_mstIds.2 ⟨rp, hrp, m, hm, rfl⟩)⟩,
   fun n hn => Or.inl (mem_nodeIds.2 ⟨n, hn, rfl⟩)⟩

theorem freshPred_new (d : Data) : NewIds (freshPred d) d :=
  ⟨Or.inr (by omega), fun i => Or.inr (by omega), Or.inr (by omega), fun i => Or.inr (by omega), Or.inr (Nat.le_refl _), Or.inr (by omega)⟩

/-- **T3** identifiers are never handed out twice. After any command, every shard-group /
shard / index-group / index / measurement / node id in use was already in use before the
command, or lies above the counter the command started from. With `counters_monotone` and the
bound of T4 this covers deleted objects too: their ids stay below the counters for ever. -/
theorem ids_never_reused (d : Data) (c : Cmd) :
    let d' := (apply d c).1
    (∀ id ∈ sgIds d', id ∈ sgIds d ∨ d.maxShardGroupID < id) ∧
    (∀ id ∈ shardIds d', id ∈ shardIds d ∨ d.maxShardID < id) ∧
    (∀ id ∈ igIds d', id ∈ igIds d ∨ d.maxIndexGroupID < id) ∧
    (∀ id ∈ indexIds d', id ∈ indexIds d ∨ d.maxIndexID < id) ∧
    (∀ id ∈ mstIds d', id ∈ mstIds d ∨ d.maxMstID ≤ id) ∧
    (∀ id ∈ nodeIds d', id ∈ nodeIds d ∨ d.maxNodeID < id) := by
  have h := invP_applyP 0 (freshPred_new d) (freshPred_base d) c
  refine ⟨?_, ?_, ?_, ?_, ?_, ?_⟩
  · intro id hid
    obtain ⟨rp, hrp, g, hg, rfl⟩ := mem_sgIds.1 hid
    exact (h.1 rp hrp).sgB g hg
  · intro id hid
    obtain ⟨rp, hrp, g, hg, s, hs, rfl⟩ := mem_shardIds.1 hid
    exact (h.1 rp hrp).shardB g hg s hs
  · intro id hid
    obtain ⟨rp, hrp, g, hg, rfl⟩ := mem_igIds.1 hid
    exact (h.1 rp hrp).igB g hg
  · intro id hid
    obtain ⟨rp, hrp, g, hg, x, hx, rfl⟩ := mem_indexIds.1 hid
    exact (h.1 rp hrp).idxB g hg x hx
  · intro id hid
    obtain ⟨rp, hrp, m, hm, rfl⟩ := mem_mstIds.1 hid
    exact (h.1 rp hrp).mstB m hm
  · intro id hid
    obtain ⟨n, hn, rfl⟩ := mem_nodeIds.1 hid
    exact h.2 n hn

/-- `Inv` gives the two Boolean clauses of WF -/
theorem clauses_of_inv {d : Data} (h : Inv d) : countersBound d = true ∧ groupsSorted d = true := by
  constructor
  · unfold countersBound
    simp only [Bool.and_eq_true, List.all_eq_true, decide_eq_true_eq]
    refine ⟨⟨⟨⟨⟨?_, ?_⟩, ?_⟩, ?_⟩, ?_⟩, ?_⟩
    · intro id hid
      obtain ⟨rp, hrp, g, hg, rfl⟩ := mem_sgIds.1 hid
      exact (h.1 rp hrp).sgBound g hg
    · intro id hid
      obtain ⟨rp, hrp, g, hg, s, hs, rfl⟩ := mem_shardIds.1 hid
      exact (h.1 rp hrp).shardBound g hg s hs
    · intro id hid
      obtain ⟨rp, hrp, g, hg, rfl⟩ := mem_igIds.1 hid
      exact (h.1 rp hrp).igBound g hg
    · intro id hid
      obtain ⟨rp, hrp, g, hg, x, hx, rfl⟩ := mem_indexIds.1 hid
      exact (h.1 rp hrp).idxBound g hg x hx
    · intro id hid
      obtain ⟨rp, hrp, m, hm, rfl⟩ := mem_mstIds.1 hid
      exact (h.1 rp hrp).mstBound m hm
    · intro id hid
      obtain ⟨n, hn, rfl⟩ := mem_nodeIds.1 hid
      exact h.2 n hn
  · unfold groupsSorted
    rw [List.all_eq_true]
    exact fun rp hrp => (h.1 rp hrp).sorted

theorem inv_apply {d : Data} (h : Inv d) (c : Cmd) : Inv (apply d c).1 := inv_applyP 0 h c

theorem inv_applyAll {d : Data} (h : Inv d) (cs : List Cmd) : Inv (applyAll d cs) := by
  induction cs generalizing d with
  | nil => exact h
  | cons c cs ih => exact ih (inv_apply h c)

/-- **T4** in every reachable state the ids in use lie below the counters and the shard groups
of every policy are sorted (by end time, then start time) — clauses `counters` and `sorted`
of WF, with no side condition. -/
theorem bounded_sorted_invariant (log : List Cmd) :
    countersBound (applyAll Data.init log) = true ∧ groupsSorted (applyAll Data.init log) = true :=
  clauses_of_inv (inv_applyAll inv_init log)

end OG.C16
