/-
C16 — the id counters never decrease.
-/
import OG.C16.InvCmds

namespace OG.C16
open OG.Meta

variable (d : Data)

macro "ctr_close" : tactic =>
  `(tactic| ((repeat' split) <;> (simp [Ctr.le, ctr, fail, done, setRP, setDB, mapRPs])))

theorem indexGroupFor_ctr (r : RP) (t : Int) (e : Nat) :
    (ctr d).le (ctr (indexGroupFor d r t e).1) ∧ (indexGroupFor d r t e).1.maxShardGroupID = d.maxShardGroupID ∧
    (indexGroupFor d r t e).1.maxShardID = d.maxShardID := by
  unfold indexGroupFor
  repeat' split
  all_goals simp [Ctr.le, ctr, createIndexGroup]

theorem cm_createShardGroup (p db rp ts tier e v) : (ctr d).le (ctr (createShardGroup p d db rp ts tier e v).1) := by
  unfold createShardGroup
  split
  · exact Ctr.le_refl _
  · split
    · exact Ctr.le_refl _
    · next dbi k r hg =>
      split
      · exact Ctr.le_refl _
      · split
        · exact Ctr.le_refl _
        · split
          · exact Ctr.le_refl _
          · have h := indexGroupFor_ctr d r ts e
            generalize indexGroupFor d r ts e = x at h
            obtain ⟨d1, r1, ig⟩ := x
            obtain ⟨h1, h2, h3⟩ := h
            simp only [Ctr.le, ctr] at h1 h2 h3 ⊢
            simp only [done, setRP, setDB]
            omega

theorem counters_monotone_pick (p : Nat) (c : Cmd) : (ctr d).le (ctr (applyP p d c).1) := by
  cases c with
  | createShardGroup db rp ts tier e v => exact cm_createShardGroup d p db rp ts tier e v
  | createDatabase n rp rep => simp only [applyP]; unfold createDatabase; simp only; ctr_close
  | dropDatabase n => simp only [applyP]; unfold dropDatabase; ctr_close
  | markDatabaseDelete n => simp only [applyP]; unfold markDatabaseDelete; ctr_close
  | createRetentionPolicy db s md => simp only [applyP]; unfold createRetentionPolicy; ctr_close
  | dropRetentionPolicy db rp => simp only [applyP]; unfold dropRetentionPolicy; ctr_close
  | markRetentionPolicyDelete db rp => simp only [applyP]; unfold markRetentionPolicyDelete; ctr_close
  | setDefaultRetentionPolicy db rp => simp only [applyP]; unfold setDefaultRetentionPolicy; ctr_close
  | updateRetentionPolicy db rp u => simp only [applyP]; unfold updateRetentionPolicy; simp only; ctr_close
  | createMeasurement db rp m ski e fs => simp only [applyP]; unfold createMeasurement; simp only; ctr_close
  | alterShardKey db rp m ski => simp only [applyP]; unfold alterShardKey; simp only; ctr_close
  | updateSchema db rp m fs => simp only [applyP]; unfold updateSchema; ctr_close
  | markMeasurementDelete db rp m => simp only [applyP]; unfold markMeasurementDelete; ctr_close
  | dropMeasurement db rp m => simp only [applyP]; unfold dropMeasurement; ctr_close
  | deleteShardGroup db rp id t => simp only [applyP]; unfold deleteShardGroup; simp only; ctr_close
  | deleteIndexGroup db rp id => simp only [applyP]; unfold deleteIndexGroup; simp only; ctr_close
  | pruneGroups sg id => simp only [applyP]; unfold pruneGroups; ctr_close
  | createDataNode h t r => simp only [applyP]; unfold createDataNode; simp only; ctr_close
  | createDbPtView db => simp only [applyP]; unfold createDbPtView; simp only; ctr_close
  | updateShardInfoTier s t db rp => simp only [applyP]; unfold updateShardInfoTier; simp only; ctr_close
  | createUser n h a rw => simp only [applyP]; unfold createUser; ctr_close
  | dropUser n => simp only [applyP]; unfold dropUser; ctr_close
  | updateUser n h => simp only [applyP]; unfold updateUser; ctr_close
  | setPrivilege u db pr => simp only [applyP]; unfold setPrivilege; ctr_close
  | setAdminPrivilege u a => simp only [applyP]; unfold setAdminPrivilege; ctr_close

end OG.C16
