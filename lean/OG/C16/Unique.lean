/-
C16 — clause `ids` of well-formedness as an invariant: inside one catalogue every shard-group,
shard, index-group, index, measurement and data-node id occurs once.

Engine: the ids of one kind are `(allRPs d).flatMap f` for a per-policy id list `f`. A command
replaces a policy `r` by `r'` in place (`allRPs` decomposes as `A ++ r :: B` → `A ++ r' :: B`,
through the sorted keys), and `f r'` is, up to order, a sublist of `f r` plus new ids that occur
nowhere in the catalogue (`RPStep`); or it removes policies, or adds an empty one.
-/
import OG.C16.Step2

namespace OG.C16
open OG.Meta

/-! ### the engine, for an arbitrary per-policy id list -/

section engine
variable (f : RP → List Nat)

def idsOf (d : Data) : List Nat := (allRPs d).flatMap f

/-- `f r'` is a rearrangement of (a sublist of `f r`) ++ (new ids, each once, none of them in `old`) -/
def RPStep (old : List Nat) (r r' : RP) : Prop :=
  ∃ X N : List Nat, (f r').Perm (X ++ N) ∧ X.Sublist (f r) ∧ N.Nodup ∧ ∀ x ∈ N, x ∉ old

variable {f}

theorem rpStep_sub {old : List Nat} {r r' : RP} (h : (f r').Sublist (f r)) : RPStep f old r r' :=
  ⟨f r', [], by simp, h, List.nodup_nil, by simp⟩

theorem rpStep_same {old : List Nat} {r r' : RP} (h : f r' = f r) : RPStep f old r r' :=
  rpStep_sub (by rw [h]; exact List.Sublist.refl _)

theorem rpStep_new {old : List Nat} {r r' : RP} {N : List Nat} (h : (f r').Perm (f r ++ N)) (hn : N.Nodup) (hf : ∀ x ∈ N, x ∉ old) :
    RPStep f old r r' := ⟨f r, N, h, List.Sublist.refl _, hn, hf⟩

theorem nodup_replace {A B : List RP} {r r' : RP} (h0 : ((A ++ r :: B).flatMap f).Nodup)
    (hs : RPStep f ((A ++ r :: B).flatMap f) r r') : ((A ++ r' :: B).flatMap f).Nodup := by
  obtain ⟨X, N, hp, hx, hn, hfresh⟩ := hs
  simp only [List.flatMap_append, List.flatMap_cons] at h0 hfresh ⊢
  -- target ~ (A.f ++ X ++ B.f) ++ N
  have hperm : (A.flatMap f ++ (f r' ++ B.flatMap f)).Perm ((A.flatMap f ++ (X ++ B.flatMap f)) ++ N) := by
    have h1 : (f r' ++ B.flatMap f).Perm ((X ++ N) ++ B.flatMap f) := hp.append_right _
    have h2 : ((X ++ N) ++ B.flatMap f).Perm ((X ++ B.flatMap f) ++ N) := by
      rw [List.append_assoc, List.append_assoc]
      exact List.Perm.append_left _ List.perm_append_comm
    have h3 := (h1.trans h2).append_left (A.flatMap f)
    rw [← List.append_assoc (A.flatMap f) (X ++ B.flatMap f) N] at h3
    exact h3
  rw [hperm.nodup_iff]
  have hsub : (A.flatMap f ++ (X ++ B.flatMap f)).Sublist (A.flatMap f ++ (f r ++ B.flatMap f)) :=
    List.Sublist.append (List.Sublist.refl _) (List.Sublist.append hx (List.Sublist.refl _))
  rw [List.nodup_append]
  refine ⟨h0.sublist hsub, hn, ?_⟩
  intro a ha b hb hab
  subst hab
  exact hfresh a hb (hsub.subset ha)

theorem nodup_sub {l l' : List RP} (h0 : (l.flatMap f).Nodup) (hs : (l'.flatMap f).Sublist (l.flatMap f)) : (l'.flatMap f).Nodup :=
  h0.sublist hs

theorem flatMap_sublist_of_sublist {l l' : List RP} (h : l'.Sublist l) : (l'.flatMap f).Sublist (l.flatMap f) := by
  induction h with
  | slnil => exact List.Sublist.refl _
  | cons a _ ih => simp only [List.flatMap_cons]; exact ih.trans (List.sublist_append_right _ _)
  | cons_cons a _ ih => simp only [List.flatMap_cons]; exact List.Sublist.append (List.Sublist.refl _) ih

theorem flatMap_map_sublist (g : RP → RP) (hg : ∀ r, (f (g r)).Sublist (f r)) : ∀ l : List RP, ((l.map g).flatMap f).Sublist (l.flatMap f)
  | [] => List.Sublist.refl _
  | r :: rest => by
    simp only [List.map_cons, List.flatMap_cons]
    exact List.Sublist.append (hg r) (flatMap_map_sublist g hg rest)

end engine

/-! ### how `allRPs` changes -/

theorem allRPs_eq (d : Data) : allRPs d = d.databases.flatMap fun x => x.2.rps.map (·.2) := rfl

/-- replacing the policy found under (n, k) — through the sorted keys -/
theorem allRPs_setRP_decomp {d d' : Data} {n k : String} {dbi : DB} {r r' : RP} (hk : KeysAreNames d) (hs : KS d)
    (hf : alFind n d.databases = some dbi) (hr : alFind k dbi.rps = some r) (hd : d'.databases = d.databases) :
    ∃ A B, allRPs d = A ++ r :: B ∧ allRPs (setRP d' dbi k r') = A ++ r' :: B := by
  have hname : dbi.name = n := (hk _ (alFind_mem hf)).1
  have hf' : alFind dbi.name d.databases = some dbi := by rw [hname]; exact hf
  obtain ⟨p, q, hp1, hp2⟩ := alInsert_present (v := r') (hs.rps _ (alFind_mem hf)) hr
  obtain ⟨P, Q, hP1, hP2⟩ := alInsert_present (v := ({ dbi with rps := alInsert k r' dbi.rps } : DB)) hs.dbs hf'
  simp only at hp1 hp2
  refine ⟨P.flatMap (fun x => x.2.rps.map (·.2)) ++ p.map (·.2), q.map (·.2) ++ Q.flatMap (fun x => x.2.rps.map (·.2)), ?_, ?_⟩
  · rw [allRPs_eq, hP1]
    simp only [List.flatMap_append, List.flatMap_cons, hp1, List.map_append, List.map_cons, List.append_assoc, List.cons_append]
  · have hdbs : (setRP d' dbi k r').databases = P ++ (dbi.name, ({ dbi with rps := alInsert k r' dbi.rps } : DB)) :: Q := by
      unfold setRP setDB
      simp only [hd]
      exact hP2
    rw [allRPs_eq, hdbs]
    simp only [List.flatMap_append, List.flatMap_cons, hp2, List.map_append, List.map_cons, List.append_assoc, List.cons_append]

/-- rewriting a database record whose policies stay -/
theorem allRPs_setDB_same {d : Data} {n : String} {dbi x : DB} (hk : KeysAreNames d) (hs : KS d) (hf : alFind n d.databases = some dbi)
    (hx : x.name = dbi.name) (hrps : x.rps = dbi.rps) : allRPs (setDB d x) = allRPs d := by
  have hname : dbi.name = n := (hk _ (alFind_mem hf)).1
  have hf' : alFind x.name d.databases = some dbi := by rw [hx, hname]; exact hf
  obtain ⟨P, Q, hP1, hP2⟩ := alInsert_present (v := x) hs.dbs hf'
  have hdbs : (setDB d x).databases = P ++ (x.name, x) :: Q := by
    unfold setDB
    exact hP2
  rw [allRPs_eq, allRPs_eq, hdbs, hP1]
  simp only [List.flatMap_append, List.flatMap_cons, hrps]

/-! ### the five kinds of ids that live in a policy -/

def fSG (r : RP) : List Nat := r.shardGroups.map (·.id)
def fShard (r : RP) : List Nat := r.shardGroups.flatMap fun g => g.shards.map (·.id)
def fIG (r : RP) : List Nat := r.indexGroups.map (·.id)
def fIdx (r : RP) : List Nat := r.indexGroups.flatMap fun g => g.indexes.map (·.id)
def fMst (r : RP) : List Nat := r.msts.map (·.id)

theorem idsOf_sg (d : Data) : idsOf fSG d = sgIds d := by
  simp [idsOf, sgIds, allSGs, List.map_flatMap]; rfl
theorem idsOf_shard (d : Data) : idsOf fShard d = shardIds d := by
  simp [idsOf, shardIds, allSGs, List.flatMap_assoc]; rfl
theorem idsOf_ig (d : Data) : idsOf fIG d = igIds d := by
  simp [idsOf, igIds, allIGs, List.map_flatMap]; rfl
theorem idsOf_idx (d : Data) : idsOf fIdx d = indexIds d := by
  simp [idsOf, indexIds, allIGs, List.flatMap_assoc]; rfl
theorem idsOf_mst (d : Data) : idsOf fMst d = mstIds d := by
  simp [idsOf, mstIds, allMsts, List.map_flatMap]; rfl

/-- **every id occurs once** -/
structure IdsU (d : Data) : Prop where
  sg : (idsOf fSG d).Nodup
  shard : (idsOf fShard d).Nodup
  ig : (idsOf fIG d).Nodup
  idx : (idsOf fIdx d).Nodup
  mst : (idsOf fMst d).Nodup
  node : (nodeIds d).Nodup

theorem nodupB_iff : ∀ l : List Nat, nodupB l = true ↔ l.Nodup
  | [] => by simp [nodupB]
  | x :: xs => by simp [nodupB, nodupB_iff xs, List.nodup_cons]

theorem idsUnique_of {d : Data} (h : IdsU d) : idsUnique d = true := by
  unfold idsUnique
  simp only [Bool.and_eq_true, nodupB_iff]
  exact ⟨⟨⟨⟨⟨idsOf_sg d ▸ h.sg, idsOf_shard d ▸ h.shard⟩, idsOf_ig d ▸ h.ig⟩, idsOf_idx d ▸ h.idx⟩, idsOf_mst d ▸ h.mst⟩, h.node⟩

theorem idsU_init : IdsU Data.init := by
  refine ⟨?_, ?_, ?_, ?_, ?_, ?_⟩ <;> simp [idsOf, allRPs, Data.init, nodeIds]

/-- the five per-policy steps of a command that replaces one policy -/
structure RPSteps (d : Data) (r r' : RP) : Prop where
  sg : RPStep fSG (idsOf fSG d) r r'
  shard : RPStep fShard (idsOf fShard d) r r'
  ig : RPStep fIG (idsOf fIG d) r r'
  idx : RPStep fIdx (idsOf fIdx d) r r'
  mst : RPStep fMst (idsOf fMst d) r r'

theorem idsU_setRP {d d' : Data} {n k : String} {dbi : DB} {r r' : RP} (hu : IdsU d) (hk : KeysAreNames d) (hs : KS d)
    (hf : alFind n d.databases = some dbi) (hr : alFind k dbi.rps = some r) (hd : d'.databases = d.databases)
    (hnodes : d'.dataNodes = d.dataNodes) (st : RPSteps d r r') : IdsU (setRP d' dbi k r') := by
  obtain ⟨A, B, h1, h2⟩ := allRPs_setRP_decomp (r' := r') hk hs hf hr hd
  have key : ∀ (f : RP → List Nat), (idsOf f d).Nodup → RPStep f (idsOf f d) r r' → (idsOf f (setRP d' dbi k r')).Nodup := by
    intro f h0 hst
    unfold idsOf at h0 hst ⊢
    rw [h1] at h0 hst
    rw [h2]
    exact nodup_replace h0 hst
  refine ⟨key _ hu.sg st.sg, key _ hu.shard st.shard, key _ hu.ig st.ig, key _ hu.idx st.idx, key _ hu.mst st.mst, ?_⟩
  have : (setRP d' dbi k r').dataNodes = d.dataNodes := by simpa [setRP, setDB] using hnodes
  unfold nodeIds; rw [this]; exact hu.node

/-- a policy whose id lists are all unchanged -/
theorem rpSteps_same {d : Data} {r r' : RP} (h1 : r'.shardGroups.map (·.id) = r.shardGroups.map (·.id))
    (h2 : (r'.shardGroups.flatMap fun g => g.shards.map (·.id)) = r.shardGroups.flatMap fun g => g.shards.map (·.id))
    (h3 : r'.indexGroups.map (·.id) = r.indexGroups.map (·.id))
    (h4 : (r'.indexGroups.flatMap fun g => g.indexes.map (·.id)) = r.indexGroups.flatMap fun g => g.indexes.map (·.id))
    (h5 : r'.msts.map (·.id) = r.msts.map (·.id)) : RPSteps d r r' :=
  ⟨rpStep_same h1, rpStep_same h2, rpStep_same h3, rpStep_same h4, rpStep_same h5⟩

/-! ### list lemmas -/

theorem map_updFirst {α β : Type} (p : α → Bool) (g : α → α) (h : α → β) : ∀ (l : List α) (_ : ∀ x, h (g x) = h x), (updFirst p g l).map h = l.map h
  | [], _ => rfl
  | x :: rest, hg => by
    unfold updFirst
    split
    · simp [hg]
    · simp [map_updFirst p g h rest hg]

theorem flatMap_updFirst {α β : Type} (p : α → Bool) (g : α → α) (h : α → List β) :
    ∀ (l : List α) (_ : ∀ x, h (g x) = h x), (updFirst p g l).flatMap h = l.flatMap h
  | [], _ => rfl
  | x :: rest, hg => by
    unfold updFirst
    split
    · simp [hg]
    · simp [flatMap_updFirst p g h rest hg]

theorem insertSG_perm (g : SG) : ∀ l : List SG, (insertSG g l).Perm (g :: l)
  | [] => by simp [insertSG]
  | x :: rest => by
    unfold insertSG
    split
    · exact List.Perm.refl _
    · exact ((insertSG_perm g rest).cons x).trans (List.Perm.swap g x rest)

theorem insertIG_perm (g : IG) : ∀ l : List IG, (insertIG g l).Perm (g :: l)
  | [] => by simp [insertIG]
  | x :: rest => by
    unfold insertIG
    split
    · exact List.Perm.refl _
    · exact ((insertIG_perm g rest).cons x).trans (List.Perm.swap g x rest)

theorem insertNode_perm (n : Node) : ∀ l : List Node, (insertNode n l).Perm (n :: l)
  | [] => by simp [insertNode]
  | x :: rest => by
    unfold insertNode
    split
    · exact List.Perm.refl _
    · exact ((insertNode_perm n rest).cons x).trans (List.Perm.swap n x rest)

/-- replacing a measurement by one with the same name and id leaves the id list as it is
(names are unique: `MstsSorted`) -/
theorem insertMst_same_ids {m m' : Mst} (hn : m'.name = m.name) (hi : m'.id = m.id) : ∀ {l : List Mst}, MstsSorted l → m ∈ l →
    (insertMst m' l).map (·.id) = l.map (·.id)
  | [], _, h => by cases h
  | x :: rest, hs, h => by
    unfold MstsSorted at hs
    rw [List.pairwise_cons] at hs
    unfold insertMst
    rcases List.mem_cons.1 h with rfl | h
    · simp [hn, hi]
    · have hlt : x.name < m.name := hs.1 m h
      have hne : ¬ x.name = m'.name := by rw [hn]; intro e; rw [e] at hlt; exact absurd hlt (String.lt_irrefl _)
      have hnl : ¬ m'.name < x.name := by rw [hn]; intro e; exact absurd (String.lt_trans hlt e) (String.lt_irrefl _)
      rw [if_neg hne, if_neg hnl]
      simp [insertMst_same_ids hn hi hs.2 h]

/-- inserting a measurement: the old ids minus at most one, plus the new id -/
theorem insertMst_ids (m : Mst) : ∀ l : List Mst, ∃ X, ((insertMst m l).map (·.id)).Perm (X ++ [m.id]) ∧ X.Sublist (l.map (·.id))
  | [] => ⟨[], by simp [insertMst], List.Sublist.refl _⟩
  | x :: rest => by
    unfold insertMst
    split
    · exact ⟨rest.map (·.id), by simpa using (List.perm_append_comm (l₁ := [m.id]) (l₂ := rest.map (·.id))), List.sublist_cons_self _ _⟩
    · split
      · exact ⟨(x :: rest).map (·.id), by simpa using (List.perm_append_comm (l₁ := [m.id]) (l₂ := x.id :: rest.map (·.id))), List.Sublist.refl _⟩
      · obtain ⟨X, hp, hx⟩ := insertMst_ids m rest
        exact ⟨x.id :: X, by simpa using hp.cons x.id, by simpa using hx.cons_cons x.id⟩


/-! ### ids in use lie below the counters: an id above a counter is nowhere in the catalogue -/

theorem bounds_of_inv {d : Data} (hinv : Inv d) :
    (∀ x ∈ idsOf fSG d, x ≤ d.maxShardGroupID) ∧ (∀ x ∈ idsOf fShard d, x ≤ d.maxShardID) ∧ (∀ x ∈ idsOf fIG d, x ≤ d.maxIndexGroupID) ∧
    (∀ x ∈ idsOf fIdx d, x ≤ d.maxIndexID) ∧ (∀ x ∈ idsOf fMst d, x < d.maxMstID) ∧ (∀ x ∈ nodeIds d, x ≤ d.maxNodeID) := by
  have hc := (clauses_of_inv hinv).1
  unfold countersBound at hc
  simp only [Bool.and_eq_true, List.all_eq_true, decide_eq_true_eq] at hc
  obtain ⟨⟨⟨⟨⟨h1, h2⟩, h3⟩, h4⟩, h5⟩, h6⟩ := hc
  rw [idsOf_sg, idsOf_shard, idsOf_ig, idsOf_idx, idsOf_mst]
  exact ⟨h1, h2, h3, h4, h5, h6⟩

variable {d : Data}

/-! ### the commands that replace the policy they looked up -/

theorem idsU_setRP_cmds (hu : IdsU d) (hinv : Inv d) (hk : KeysAreNames d) (hs : KS d) (pick : Nat) :
    (∀ db rp, IdsU (markRetentionPolicyDelete d db rp).1) ∧
    (∀ db rp m ski e fs, IdsU (createMeasurement pick d db rp m ski e fs).1) ∧
    (∀ db rp m ski, IdsU (alterShardKey pick d db rp m ski).1) ∧
    (∀ db rp m fs, IdsU (updateSchema d db rp m fs).1) ∧
    (∀ db rp m, IdsU (markMeasurementDelete d db rp m).1) ∧
    (∀ db rp m, IdsU (dropMeasurement d db rp m).1) ∧
    (∀ db rp id t, IdsU (deleteShardGroup d db rp id t).1) ∧
    (∀ db rp id, IdsU (deleteIndexGroup d db rp id).1) ∧
    (∀ s t db rp, IdsU (updateShardInfoTier d s t db rp).1) := by
  have hb := bounds_of_inv hinv
  -- replacing a measurement by one of the same name and id
  have setSame : ∀ {db rp k : String} {dbi : DB} {r : RP} {m m' : Mst}, getRP d db rp = .ok (dbi, k, r) → m ∈ r.msts →
      m'.name = m.name → m'.id = m.id → IdsU (setRP d dbi k (r.setMst m')) := by
    intro db rp k dbi r m m' hg hm hn hi
    have hf := getRP_find hg
    have h := getRP_ok hg
    exact idsU_setRP hu hk hs hf.1 hf.2 rfl rfl
      (rpSteps_same rfl rfl rfl rfl (insertMst_same_ids hn hi (hs.msts _ h.1 _ h.2.1) hm))
  refine ⟨?_, ?_, ?_, ?_, ?_, ?_, ?_, ?_, ?_⟩
  · intro db rp
    unfold markRetentionPolicyDelete
    split
    · exact hu
    · next dbi k r hg => exact idsU_setRP hu hk hs (getRP_find hg).1 (getRP_find hg).2 rfl rfl (rpSteps_same rfl rfl rfl rfl rfl)
  · intro db rp m ski e fs
    unfold createMeasurement
    split
    · exact hu
    · next dbi k r hg =>
      have hf := getRP_find hg
      simp only
      repeat' split
      all_goals first
        | exact hu
        | (apply idsU_setRP (d' := { d with maxMstID := d.maxMstID + 1 }) hu hk hs hf.1 hf.2 rfl rfl
           refine ⟨rpStep_same rfl, rpStep_same rfl, rpStep_same rfl, rpStep_same rfl, ?_⟩
           obtain ⟨X, hp, hx⟩ := insertMst_ids _ r.msts
           exact ⟨X, [d.maxMstID], hp, hx, by simp, by
             intro x hx'; simp only [List.mem_singleton] at hx'; subst hx'
             intro hmem; exact absurd (hb.2.2.2.2.1 _ hmem) (Nat.lt_irrefl _)⟩)
  · intro db rp m ski
    unfold alterShardKey
    split
    · exact hu
    · next dbi k r hg =>
      split
      · exact hu
      · next ms hms =>
        simp only
        repeat' split
        all_goals first
          | exact hu
          | exact setSame hg (measurement_mem hms) rfl rfl
  · intro db rp m fs
    unfold updateSchema
    split
    · exact hu
    · next dbi k r ms hg =>
      obtain ⟨hg', hmem⟩ := getMeasurement_mem hg
      split
      · exact hu
      · exact setSame hg' hmem rfl rfl
  · intro db rp m
    unfold markMeasurementDelete
    split
    · exact hu
    · next dbi k r ms hg =>
      obtain ⟨hg', hmem⟩ := getMeasurement_mem hg
      exact setSame hg' hmem rfl rfl
  · intro db rp m
    unfold dropMeasurement
    split
    · exact hu
    · next dbi k r hg =>
      apply idsU_setRP hu hk hs (getRP_find hg).1 (getRP_find hg).2 rfl rfl
      exact ⟨rpStep_same rfl, rpStep_same rfl, rpStep_same rfl, rpStep_same rfl,
        rpStep_sub (List.Sublist.map _ List.filter_sublist)⟩
  · intro db rp id t
    unfold deleteShardGroup
    split
    · exact hu
    · next dbi k r hg =>
      exact idsU_setRP hu hk hs (getRP_find hg).1 (getRP_find hg).2 rfl rfl
        (rpSteps_same (map_updFirst _ _ _ _ (fun _ => rfl)) (flatMap_updFirst _ _ _ _ (fun _ => rfl)) rfl rfl rfl)
  · intro db rp id
    unfold deleteIndexGroup
    split
    · exact hu
    · next dbi k r hg =>
      exact idsU_setRP hu hk hs (getRP_find hg).1 (getRP_find hg).2 rfl rfl
        (rpSteps_same rfl rfl (map_updFirst _ _ _ _ (fun _ => rfl)) (flatMap_updFirst _ _ _ _ (fun _ => rfl)) rfl)
  · intro s t db rp
    unfold updateShardInfoTier
    split
    · exact hu
    · next dbi k r hg =>
      split
      · exact idsU_setRP hu hk hs (getRP_find hg).1 (getRP_find hg).2 rfl rfl
          (rpSteps_same (map_updFirst _ _ _ _ (fun _ => rfl))
            (flatMap_updFirst _ _ _ _ (fun g => map_updFirst _ _ _ _ (fun _ => rfl))) rfl rfl rfl)
      · exact hu


/-! ### CreateShardGroup, ReSharding: new ids taken from the counters -/

theorem nodup_map_range (g : Nat → Nat) (hg : ∀ i j, g i = g j → i = j) (n : Nat) : ((List.range n).map g).Nodup := by
  unfold List.Nodup
  rw [List.pairwise_map]
  exact (List.nodup_range (n := n)).imp (fun hne he => hne (hg _ _ he))

theorem mkIndexes_ids (a n : Nat) : (mkIndexes a n).map (·.id) = (List.range n).map (a + ·) := by
  simp [mkIndexes, List.map_map, Function.comp_def]

theorem mkShards_ids (d : Data) (r : RP) (m : Mst) (ig : IG) (tier : Nat) :
    ∃ n, (mkShards d r m ig tier).map (·.id) = (List.range n).map (d.maxShardID + 1 + ·) := by
  unfold mkShards
  simp only [List.map_map]
  refine ⟨_, List.map_congr_left ?_⟩
  intro i _
  simp only [Function.comp]
  split <;> rfl

/-- `createIndexGroupIfNeeded`: the index-group ids and index ids of the policy afterwards -/
theorem igf_steps (hinv : Inv d) (r : RP) (t : Int) (e : Nat) :
    RPStep fIG (idsOf fIG d) r (indexGroupFor d r t e).2.1 ∧ RPStep fIdx (idsOf fIdx d) r (indexGroupFor d r t e).2.1 := by
  have hb := bounds_of_inv hinv
  have hcreate : RPStep fIG (idsOf fIG d) r (createIndexGroup d r t e).2.1 ∧ RPStep fIdx (idsOf fIdx d) r (createIndexGroup d r t e).2.1 := by
    unfold createIndexGroup
    simp only
    constructor
    · refine rpStep_new (N := [d.maxIndexGroupID + 1]) ?_ (by simp) ?_
      · simp only [fIG]
        refine ((insertIG_perm _ r.indexGroups).map (·.id)).trans ?_
        simp only [List.map_cons]
        exact (List.perm_append_comm (l₁ := [d.maxIndexGroupID + 1]) (l₂ := r.indexGroups.map (·.id)))
      · intro x hx hmem
        simp only [List.mem_singleton] at hx; subst hx
        have := hb.2.2.1 _ hmem; omega
    · refine rpStep_new (N := (List.range d.clusterPtNum).map (d.maxIndexID + 1 + ·)) ?_ (nodup_map_range _ (by intro i j h; omega) _) ?_
      · simp only [fIdx]
        refine ((insertIG_perm _ r.indexGroups).flatMap_right (fun g => g.indexes.map (·.id))).trans ?_
        simp only [List.flatMap_cons, mkIndexes_ids]
        exact List.perm_append_comm
      · intro x hx hmem
        simp only [List.mem_map, List.mem_range] at hx
        obtain ⟨i, _, rfl⟩ := hx
        have := hb.2.2.2.1 _ hmem; omega
  unfold indexGroupFor
  split
  · split
    · exact ⟨rpStep_same rfl, rpStep_same rfl⟩
    · exact hcreate
  · exact hcreate

theorem igf_others (r : RP) (t : Int) (e : Nat) :
    (indexGroupFor d r t e).2.1.shardGroups = r.shardGroups ∧ (indexGroupFor d r t e).2.1.msts = r.msts := by
  unfold indexGroupFor
  repeat' split
  all_goals simp [createIndexGroup]

theorem idsU_createShardGroup (hu : IdsU d) (hinv : Inv d) (hk : KeysAreNames d) (hs : KS d) (pick db rp ts tier e v) :
    IdsU (createShardGroup pick d db rp ts tier e v).1 := by
  have hb := bounds_of_inv hinv
  unfold createShardGroup
  split
  · exact hu
  · split
    · exact hu
    · next dbi k r hg =>
      have hf := getRP_find hg
      split
      · exact hu
      · split
        · exact hu
        · next msti hp =>
          split
          · exact hu
          · have hst := igf_steps hinv r ts e
            have hoth := igf_others (d := d) r ts e
            have hdb := indexGroupFor_dbs d r ts e
            have hc := indexGroupFor_ctr d r ts e
            have hpt := indexGroupFor_ptPart d r ts e
            generalize indexGroupFor d r ts e = x at hst hoth hdb hc hpt
            obtain ⟨d1, r1, ig⟩ := x
            simp only at hst hoth hdb hc hpt ⊢
            obtain ⟨n, hn⟩ := mkShards_ids d1 r1 msti ig tier
            have hnodes : d1.dataNodes = d.dataNodes := by have := hpt.1; simp only [ptPart, PtPart.mk.injEq] at this; exact this.2.2.1
            apply idsU_setRP (d' := _) hu hk hs hf.1 hf.2 (by simpa using hdb) (by simpa using hnodes)
            refine ⟨?_, ?_, ?_, ?_, rpStep_same (by simp [fMst, hoth.2])⟩
            · refine rpStep_new (N := [d1.maxShardGroupID + 1]) ?_ (by simp) ?_
              · simp only [fSG]
                refine ((insertSG_perm _ r1.shardGroups).map (·.id)).trans ?_
                simp only [List.map_cons, hoth.1]
                exact (List.perm_append_comm (l₁ := [d1.maxShardGroupID + 1]) (l₂ := r.shardGroups.map (·.id)))
              · intro x hx hmem
                simp only [List.mem_singleton] at hx; subst hx
                have := hb.1 _ hmem; omega
            · refine rpStep_new (N := (List.range n).map (d1.maxShardID + 1 + ·)) ?_ (nodup_map_range _ (by intro i j h; omega) _) ?_
              · simp only [fShard]
                refine ((insertSG_perm _ r1.shardGroups).flatMap_right (fun g => g.shards.map (·.id))).trans ?_
                simp only [List.flatMap_cons, hn, hoth.1]
                exact List.perm_append_comm
              · intro x hx hmem
                simp only [List.mem_map, List.mem_range] at hx
                obtain ⟨i, _, rfl⟩ := hx
                have := hb.2.1 _ hmem; omega
            · exact hst.1
            · exact hst.2


/-! ### commands on databases and policies as a whole -/

inductive Kind : (RP → List Nat) → Prop
  | sg : Kind fSG
  | shard : Kind fShard
  | ig : Kind fIG
  | idx : Kind fIdx
  | mst : Kind fMst

/-- a policy without groups and measurements has no ids -/
def EmptyRP (r : RP) : Prop := r.shardGroups = [] ∧ r.indexGroups = [] ∧ r.msts = []

theorem Kind.empty {f : RP → List Nat} (hf : Kind f) {r : RP} (h : EmptyRP r) : f r = [] := by
  cases hf <;> simp [fSG, fShard, fIG, fIdx, fMst, h.1, h.2.1, h.2.2]

/-- two policies with the same groups and measurements have the same ids -/
theorem Kind.congr {f : RP → List Nat} (hf : Kind f) {r r' : RP} (h1 : r'.shardGroups = r.shardGroups) (h2 : r'.indexGroups = r.indexGroups)
    (h3 : r'.msts = r.msts) : f r' = f r := by
  cases hf <;> simp [fSG, fShard, fIG, fIdx, fMst, h1, h2, h3]

/-- every id occurs in `a` at most as often as in `b` -/
def CLe (a b : List Nat) : Prop := ∀ x, a.count x ≤ b.count x

theorem CLe.refl (a : List Nat) : CLe a a := fun _ => Nat.le_refl _
theorem CLe.trans {a b c : List Nat} (h1 : CLe a b) (h2 : CLe b c) : CLe a c := fun x => Nat.le_trans (h1 x) (h2 x)
theorem CLe.of_eq {a b : List Nat} (h : a = b) : CLe a b := h ▸ CLe.refl a
theorem CLe.of_perm {a b : List Nat} (h : a.Perm b) : CLe a b := fun x => Nat.le_of_eq (h.count_eq x)
theorem CLe.of_sublist {a b : List Nat} (h : a.Sublist b) : CLe a b := fun x => h.count_le x
theorem CLe.append {a b a' b' : List Nat} (h1 : CLe a a') (h2 : CLe b b') : CLe (a ++ b) (a' ++ b') := by
  intro x; simp only [List.count_append]; exact Nat.add_le_add (h1 x) (h2 x)
theorem CLe.nodup {a b : List Nat} (h : CLe a b) (hb : b.Nodup) : a.Nodup :=
  List.nodup_iff_count.2 fun x => Nat.le_trans (h x) (List.nodup_iff_count.1 hb x)

/-- the five id lists of the whole catalogue hold no id more often than before -/
def SubIds (d d' : Data) : Prop :=
  ∀ f : RP → List Nat, Kind f → CLe (idsOf f d') (idsOf f d)

theorem idsU_of_subIds {d' : Data} (hu : IdsU d) (h : SubIds d d') (hn : d'.dataNodes = d.dataNodes) : IdsU d' := by
  have key : ∀ f : RP → List Nat, Kind f → (idsOf f d).Nodup → (idsOf f d').Nodup := fun f hf h0 => (h f hf).nodup h0
  exact ⟨key _ .sg hu.sg, key _ .shard hu.shard, key _ .ig hu.ig, key _ .idx hu.idx, key _ .mst hu.mst, by unfold nodeIds; rw [hn]; exact hu.node⟩

theorem subIds_of_eq {d' : Data} (h : allRPs d' = allRPs d) : SubIds d d' :=
  fun f _ => CLe.of_eq (by unfold idsOf; rw [h])

theorem subIds_of_sublist {d' : Data} (h : (allRPs d').Sublist (allRPs d)) : SubIds d d' :=
  fun f _ => CLe.of_sublist (flatMap_sublist_of_sublist h)

theorem subIds_of_dbs_eq {d' : Data} (h : d'.databases = d.databases) : SubIds d d' :=
  subIds_of_eq (allRPs_of_dbs_eq h)

theorem flatMap_sublist' {α β : Type} (g : α → List β) {l l' : List α} (h : l'.Sublist l) : (l'.flatMap g).Sublist (l.flatMap g) := by
  induction h with
  | slnil => exact List.Sublist.refl _
  | cons a _ ih => simp only [List.flatMap_cons]; exact ih.trans (List.sublist_append_right _ _)
  | cons_cons a _ ih => simp only [List.flatMap_cons]; exact List.Sublist.append (List.Sublist.refl _) ih

theorem alErase_sublist {α : Type} (n : String) : ∀ l : List (String × α), (alErase n l).Sublist l
  | [] => List.Sublist.refl _
  | x :: rest => by
    unfold alErase
    split
    · exact List.sublist_cons_self _ _
    · exact (alErase_sublist n rest).cons_cons _

/-- the ids of kind `f` in a list of stored policies -/
def vf (f : RP → List Nat) (l : List (String × RP)) : List Nat := (l.map (·.2)).flatMap f

theorem vf_cons (f : RP → List Nat) (x : String × RP) (l) : vf f (x :: l) = f x.2 ++ vf f l := by simp [vf]

/-- storing a policy adds at most its own ids -/
theorem vf_alInsert (f : RP → List Nat) (k : String) (v : RP) : ∀ l : List (String × RP), CLe (vf f (alInsert k v l)) (f v ++ vf f l)
  | [] => by simp [alInsert, vf]; exact CLe.refl _
  | (k', v') :: rest => by
    unfold alInsert
    split
    · rw [vf_cons, vf_cons]
      exact CLe.append (CLe.refl _) (CLe.of_sublist (List.sublist_append_right _ _))
    · split
      · rw [vf_cons]; exact CLe.refl _
      · rw [vf_cons, vf_cons]
        intro x
        have := vf_alInsert f k v rest x
        simp only [List.count_append] at this ⊢
        omega

theorem vf_alInsert_congr {f : RP → List Nat} (hf : Kind f) {r r' : RP} (h1 : r'.shardGroups = r.shardGroups) (h2 : r'.indexGroups = r.indexGroups)
    (h3 : r'.msts = r.msts) (k : String) (l : List (String × RP)) : CLe (vf f (alInsert k r' l)) (f r ++ vf f l) := by
  have e := vf_alInsert f k r' l
  rw [hf.congr h1 h2 h3] at e
  exact e

/-- the stored policy found under a key accounts for its ids; the rest is what erasing leaves -/
theorem vf_alErase (f : RP → List Nat) {k : String} {v : RP} : ∀ {l : List (String × RP)}, alFind k l = some v →
    CLe (f v ++ vf f (alErase k l)) (vf f l)
  | [], h => by simp [alFind] at h
  | (k', v') :: rest, h => by
    unfold alFind at h
    unfold alErase
    split at h
    · next he =>
      cases h
      rw [if_pos he, vf_cons]
      exact CLe.refl _
    · next hne =>
      rw [if_neg hne, vf_cons, vf_cons]
      intro x
      have := vf_alErase f h x
      simp only [List.count_append] at this ⊢
      omega

/-- a database record is replaced by one whose policies are `rps'` -/
theorem allRPs_setDB_decomp {d : Data} {n : String} {dbi x : DB} (hk : KeysAreNames d) (hs : KS d) (hf : alFind n d.databases = some dbi)
    (hx : x.name = dbi.name) :
    ∃ A B, allRPs d = A ++ dbi.rps.map (·.2) ++ B ∧ allRPs (setDB d x) = A ++ x.rps.map (·.2) ++ B := by
  have hname : dbi.name = n := (hk _ (alFind_mem hf)).1
  have hf' : alFind x.name d.databases = some dbi := by rw [hx, hname]; exact hf
  obtain ⟨P, Q, hP1, hP2⟩ := alInsert_present (v := x) hs.dbs hf'
  have hdbs : (setDB d x).databases = P ++ (x.name, x) :: Q := by unfold setDB; exact hP2
  refine ⟨P.flatMap (fun y => y.2.rps.map (·.2)), Q.flatMap (fun y => y.2.rps.map (·.2)), ?_, ?_⟩
  · rw [allRPs_eq, hP1]; simp [List.flatMap_append]
  · rw [allRPs_eq, hdbs]; simp [List.flatMap_append]

theorem subIds_setDB {d : Data} {n : String} {dbi x : DB} (hk : KeysAreNames d) (hs : KS d) (hf : alFind n d.databases = some dbi)
    (hx : x.name = dbi.name) (hrel : ∀ f : RP → List Nat, Kind f → CLe (vf f x.rps) (vf f dbi.rps)) :
    SubIds d (setDB d x) := by
  obtain ⟨A, B, h1, h2⟩ := allRPs_setDB_decomp hk hs hf hx
  intro f hfk
  unfold idsOf; rw [h1, h2]; simp only [List.flatMap_append]
  exact CLe.append (CLe.append (CLe.refl _) (hrel f hfk)) (CLe.refl _)

theorem toRP_empty (s : RPSpec) (y : Durs) : EmptyRP (s.toRP y) := ⟨rfl, rfl, rfl⟩

variable {d : Data}

/-- a database stored under a free key whose policies carry no ids -/
theorem subIds_setDB_absent {x : DB} (hnone : alFind x.name d.databases = none)
    (hx : ∀ f, Kind f → vf f x.rps = []) : SubIds d (setDB d x) := by
  intro f hf
  obtain ⟨pre, post, h1, h2⟩ := alInsert_absent (v := x) hnone
  refine CLe.of_eq ?_
  unfold idsOf
  rw [allRPs_eq, allRPs_eq]
  unfold setDB
  simp only
  rw [h2, h1]
  have := hx f hf
  unfold vf at this
  simp [List.flatMap_append, this]

theorem idsU_createDatabase (hu : IdsU d) (n rp rep) : IdsU (createDatabase d n rp rep).1 := by
  unfold createDatabase
  simp only
  split
  · exact hu
  · split
    · exact hu
    · split
      · split <;> exact hu
      · next hnone =>
        split
        · exact hu
        · exact hu
        · next r hr =>
          -- a database under a key that was free, holding one empty policy
          have hre : EmptyRP r := by
            unfold checkCanCreateRP at hr
            repeat' split at hr
            all_goals first | (cases hr; exact toRP_empty _ _) | cases hr
          simp only [done]
          refine idsU_of_subIds hu (subIds_setDB_absent (by exact hnone) ?_) rfl
          intro g hg
          simp [vf, DB.setRetentionPolicy, alInsert, hg.empty hre]

theorem idsU_dropDatabase (hu : IdsU d) (n) : IdsU (dropDatabase d n).1 := by
  unfold dropDatabase
  split
  · exact hu
  · simp only [done]
    refine idsU_of_subIds hu (subIds_of_sublist ?_) rfl
    rw [allRPs_eq, allRPs_eq]
    exact flatMap_sublist' _ (alErase_sublist n d.databases)

theorem idsU_markDatabaseDelete (hk : KeysAreNames d) (hs : KS d) (hu : IdsU d) (n) : IdsU (markDatabaseDelete d n).1 := by
  unfold markDatabaseDelete
  split
  · exact hu
  · next dbi hf =>
    split
    · exact hu
    · exact idsU_of_subIds hu (subIds_of_eq (allRPs_setDB_same hk hs hf rfl rfl)) rfl

theorem idsU_setDefaultRetentionPolicy (hk : KeysAreNames d) (hs : KS d) (hu : IdsU d) (db rp) : IdsU (setDefaultRetentionPolicy d db rp).1 := by
  unfold setDefaultRetentionPolicy
  split
  · exact hu
  · next dbi hd =>
    split
    · exact hu
    · exact idsU_of_subIds hu (subIds_of_eq (allRPs_setDB_same hk hs (getDatabase_find hd) rfl rfl)) rfl

theorem idsU_createRetentionPolicy (hk : KeysAreNames d) (hs : KS d) (hu : IdsU d) (db s md) : IdsU (createRetentionPolicy d db s md).1 := by
  unfold createRetentionPolicy
  split
  · exact hu
  · next dbi hd =>
    split
    · exact hu
    · exact hu
    · next r hr =>
      have hre : EmptyRP r := by
        unfold checkCanCreateRP at hr
        repeat' split at hr
        all_goals first | (cases hr; exact toRP_empty _ _) | cases hr
      refine idsU_of_subIds hu (subIds_setDB hk hs (getDatabase_find hd) rfl ?_) rfl
      intro f hf
      have := vf_alInsert f r.name r dbi.rps
      rw [hf.empty hre] at this
      exact this

theorem idsU_dropRetentionPolicy (hk : KeysAreNames d) (hs : KS d) (hu : IdsU d) (db rp) : IdsU (dropRetentionPolicy d db rp).1 := by
  unfold dropRetentionPolicy
  split
  · exact hu
  · next dbi hd =>
    refine idsU_of_subIds hu (subIds_setDB hk hs (getDatabase_find hd) rfl ?_) rfl
    intro f _
    exact CLe.of_sublist (flatMap_sublist' _ ((alErase_sublist rp dbi.rps).map _))

theorem idsU_updateRetentionPolicy (hk : KeysAreNames d) (hs : KS d) (hu : IdsU d) (db rp u) : IdsU (updateRetentionPolicy d db rp u).1 := by
  unfold updateRetentionPolicy
  split
  · exact hu
  · next dbi hd =>
    split
    · exact hu
    · next k r hr =>
      split
      · exact hu
      · simp only
        split
        · exact hu
        · next y hy =>
          have hfind := DB.getRP_find hr
          refine idsU_of_subIds hu (subIds_setDB hk hs (getDatabase_find hd) ?_ ?_) rfl
          · unfold writeBack; simp only; split <;> rfl
          · intro f hf
            have hname : r.name = k := (hk _ (alFind_mem (getDatabase_find hd))).2 _ (alFind_mem hfind)
            have e3 : f ({ r with name := u.newName.getD r.name, sgDuration := y.sg, hot := y.hot, warm := y.warm, indexCold := y.cold, igDuration := y.ig, duration := y.duration } : RP) = f r :=
              hf.congr rfl rfl rfl
            unfold writeBack
            simp only
            split
            · simp only
              rw [hname]
              refine CLe.trans (b := f r ++ vf f (alErase k (alErase k dbi.rps))) ?_ ?_
              · exact vf_alInsert_congr hf (by rfl) (by rfl) (by rfl) _ _
              refine CLe.trans (CLe.append (CLe.refl _) ?_) (vf_alErase f hfind)
              exact CLe.of_sublist (flatMap_sublist' _ ((alErase_sublist k _).map _))
            · simp only
              obtain ⟨p, q, h1, h2⟩ := alInsert_present (v := ({ r with name := u.newName.getD r.name, sgDuration := y.sg, hot := y.hot, warm := y.warm, indexCold := y.cold, igDuration := y.ig, duration := y.duration } : RP)) (hs.rps _ (alFind_mem (getDatabase_find hd))) hfind
              rw [h2]
              refine CLe.of_eq ?_
              rw [h1]
              simp only [vf, List.map_append, List.map_cons, List.flatMap_append, List.flatMap_cons, e3]

/-! ### PruneGroups: every policy keeps a sub-collection of its ids -/

theorem schemaCleanAll_mstIds (rp : RP) (b : Bool) (e : Int) (h : MstsSorted rp.msts) :
    (rp.schemaCleanAll b e).msts.map (·.id) = rp.msts.map (·.id) := by
  unfold RP.schemaCleanAll
  simp only
  have h1 : MstsSorted ((rp.msts.map fun m => m.schemaClean e).map (·.1)) := by
    rw [List.map_map]
    exact mstsSorted_map_same (fun m => schemaClean_name m e) h
  have h2 : ((rp.msts.map fun m => m.schemaClean e).map (·.1)).map (·.id) = rp.msts.map (·.id) := by
    simp [List.map_map, Function.comp_def, schemaClean_id]
  split
  · exact h2
  · generalize ((List.map (fun m => m.schemaClean e) rp.msts).filter _).map _ = l
    generalize hr : ({ rp with msts := _ } : RP) = r0
    have h0 : MstsSorted r0.msts ∧ r0.msts.map (·.id) = rp.msts.map (·.id) := by subst hr; exact ⟨h1, h2⟩
    clear hr
    induction l generalizing r0 with
    | nil => simpa using h0.2
    | cons o l ih =>
      simp only [List.foldl_cons]
      apply ih
      split
      · next cur hc =>
        split
        · exact h0
        · refine ⟨setMst_sorted h0.1, ?_⟩
          unfold RP.setMst
          simp only
          rw [insertMst_same_ids (m := cur) (m' := { cur with markDeleted := true }) rfl rfl h0.1 (measurement_mem hc)]
          exact h0.2
      · exact h0

theorem markShardIn_id (id : Nat) (g : SG) : (markShardIn id g).id = g.id := by
  unfold markShardIn; repeat' split
  all_goals rfl

theorem markShardIn_shardIds (id : Nat) (g : SG) : (markShardIn id g).shards.map (·.id) = g.shards.map (·.id) := by
  unfold markShardIn; repeat' split
  all_goals first | rfl | exact map_updFirst _ _ _ _ (fun _ => rfl)

theorem markIndexIn_id (id : Nat) (g : IG) : (markIndexIn id g).id = g.id := by
  unfold markIndexIn; repeat' split
  all_goals rfl

theorem markIndexIn_indexIds (id : Nat) (g : IG) : (markIndexIn id g).indexes.map (·.id) = g.indexes.map (·.id) := by
  unfold markIndexIn; repeat' split
  all_goals first | rfl | exact map_updFirst _ _ _ _ (fun _ => rfl)

theorem pruneSGs_ids (id : Nat) : ∀ l : List SG, ((pruneSGs id l).1.map (·.id)).Sublist (l.map (·.id)) ∧
    ((pruneSGs id l).1.flatMap fun g => g.shards.map (·.id)).Sublist (l.flatMap fun g => g.shards.map (·.id))
  | [] => by simp [pruneSGs]
  | g :: rest => by
    have ih := pruneSGs_ids id rest
    unfold pruneSGs
    simp only
    split
    · exact ⟨ih.1.trans (by simp), ih.2.trans (by simp)⟩
    · simp only [List.map_cons, List.flatMap_cons, markShardIn_id, markShardIn_shardIds]
      exact ⟨ih.1.cons_cons _, List.Sublist.append (List.Sublist.refl _) ih.2⟩

theorem pruneIGs_ids (id : Nat) : ∀ l : List IG, ((pruneIGs id l).map (·.id)).Sublist (l.map (·.id)) ∧
    ((pruneIGs id l).flatMap fun g => g.indexes.map (·.id)).Sublist (l.flatMap fun g => g.indexes.map (·.id))
  | [] => by simp [pruneIGs]
  | g :: rest => by
    have ih := pruneIGs_ids id rest
    unfold pruneIGs
    simp only
    split
    · exact ⟨ih.1.trans (by simp), ih.2.trans (by simp)⟩
    · simp only [List.map_cons, List.flatMap_cons, markIndexIn_id, markIndexIn_indexIds]
      exact ⟨ih.1.cons_cons _, List.Sublist.append (List.Sublist.refl _) ih.2⟩

theorem cle_pruneShardGroupsRP {f : RP → List Nat} (hf : Kind f) (id : Nat) (b : Bool) (rp : RP) (h : MstsSorted rp.msts) :
    CLe (f (pruneShardGroupsRP id b rp)) (f rp) := by
  have hsg : (pruneShardGroupsRP id b rp).shardGroups = (pruneSGs id rp.shardGroups).1 := by
    unfold pruneShardGroupsRP; simp only; split
    · rfl
    · exact (schemaCleanAll_same _ _ _).1
  have hig : (pruneShardGroupsRP id b rp).indexGroups = rp.indexGroups := by
    unfold pruneShardGroupsRP; simp only; split
    · rfl
    · exact schemaCleanAll_igs _ _ _
  have hm : (pruneShardGroupsRP id b rp).msts.map (·.id) = rp.msts.map (·.id) := by
    unfold pruneShardGroupsRP; simp only; split
    · rfl
    · exact schemaCleanAll_mstIds _ _ _ h
  cases hf
  · unfold fSG; rw [hsg]; exact CLe.of_sublist (pruneSGs_ids id _).1
  · unfold fShard; rw [hsg]; exact CLe.of_sublist (pruneSGs_ids id _).2
  · unfold fIG; rw [hig]; exact CLe.refl _
  · unfold fIdx; rw [hig]; exact CLe.refl _
  · unfold fMst; rw [hm]; exact CLe.refl _

theorem cle_pruneIGsRP {f : RP → List Nat} (hf : Kind f) (id : Nat) (rp : RP) :
    CLe (f { rp with indexGroups := pruneIGs id rp.indexGroups }) (f rp) := by
  cases hf
  · exact CLe.refl _
  · exact CLe.refl _
  · unfold fIG; exact CLe.of_sublist (pruneIGs_ids id _).1
  · unfold fIdx; exact CLe.of_sublist (pruneIGs_ids id _).2
  · exact CLe.refl _

theorem cle_flatMap_map {α : Type} (f : α → List Nat) (g : α → α) : ∀ l : List α, (∀ r ∈ l, CLe (f (g r)) (f r)) →
    CLe ((l.map g).flatMap f) (l.flatMap f)
  | [], _ => CLe.refl _
  | x :: rest, h => by
    simp only [List.map_cons, List.flatMap_cons]
    exact CLe.append (h x List.mem_cons_self) (cle_flatMap_map f g rest fun r hr => h r (List.mem_cons_of_mem _ hr))

theorem subIds_mapRPs (hs : KS d) (g : DB → RP → RP) (hg : ∀ f, Kind f → ∀ db rp, MstsSorted rp.msts → CLe (f (g db rp)) (f rp)) :
    SubIds d (mapRPs g d) := by
  intro f hf
  unfold idsOf
  rw [allRPs_eq, allRPs_eq]
  unfold mapRPs
  simp only
  have hm := hs.msts
  generalize d.databases = dbs at hm
  induction dbs with
  | nil => exact CLe.refl _
  | cons x rest ih =>
    simp only [List.map_cons, List.flatMap_cons, List.flatMap_append]
    refine CLe.append ?_ (ih fun y hy => hm y (List.mem_cons_of_mem _ hy))
    have := cle_flatMap_map f (g x.2) (x.2.rps.map (·.2)) (by
      intro r hr
      obtain ⟨kr, hkr, rfl⟩ := List.mem_map.1 hr
      exact hg f hf x.2 kr.2 (hm x List.mem_cons_self kr hkr))
    simpa [List.map_map, Function.comp_def] using this

theorem idsU_pruneGroups (hs : KS d) (hu : IdsU d) (sg id) : IdsU (pruneGroups d sg id).1 := by
  unfold pruneGroups
  split
  · exact idsU_of_subIds hu (subIds_mapRPs hs _ fun f hf db rp h => cle_pruneShardGroupsRP hf id _ rp h) rfl
  · exact idsU_of_subIds hu (subIds_mapRPs hs _ fun f hf db rp _ => cle_pruneIGsRP hf id rp) rfl

/-! ### the commands that leave the databases alone -/

theorem idsU_of_dbs_eq {d' : Data} (hu : IdsU d) (h : d'.databases = d.databases) (hn : (nodeIds d').Nodup) : IdsU d' := by
  have e : ∀ f, idsOf f d' = idsOf f d := fun f => by unfold idsOf; rw [allRPs_of_dbs_eq h]
  exact ⟨by rw [e]; exact hu.sg, by rw [e]; exact hu.shard, by rw [e]; exact hu.ig, by rw [e]; exact hu.idx, by rw [e]; exact hu.mst, hn⟩

theorem idsU_createDataNode (hu : IdsU d) (hinv : Inv d) (h t r) : IdsU (createDataNode d h t r).1 := by
  have hb := (bounds_of_inv hinv).2.2.2.2.2
  have hnode := hu.node
  unfold nodeIds at hnode hb
  unfold createDataNode
  simp only
  have hnew : ((insertNode ({ id := d.maxNodeID + 1, host := h, tcpHost := t, role := r, connID := d.maxConnID + 1 } : Node) d.dataNodes).map (·.id)).Nodup := by
    refine ((insertNode_perm _ _).map _).nodup_iff.2 ?_
    simp only [List.map_cons, List.nodup_cons]
    refine ⟨fun hm => ?_, hnode⟩
    have := hb _ hm
    omega
  repeat' split
  all_goals refine idsU_of_dbs_eq hu rfl ?_
  all_goals unfold nodeIds
  all_goals simp only [done]
  all_goals first | exact hnew | (rw [updFirst_ids (f := fun n => { n with connID := d.maxConnID + 1 }) (fun _ => rfl)]; exact hnode)

theorem idsU_createDbPtView (hu : IdsU d) (db) : IdsU (createDbPtView d db).1 := by
  unfold createDbPtView
  simp only
  repeat' split
  all_goals first | exact hu | exact idsU_of_dbs_eq hu rfl hu.node

theorem idsU_users (hu : IdsU d) : (∀ n h a rw, IdsU (createUser d n h a rw).1) ∧ (∀ n, IdsU (dropUser d n).1) ∧
    (∀ n h, IdsU (updateUser d n h).1) ∧ (∀ u db p, IdsU (setPrivilege d u db p).1) ∧ (∀ u, IdsU (setAdminPrivilege d u).1) := by
  refine ⟨?_, ?_, ?_, ?_, ?_⟩
  · intro n h a rw; unfold createUser; repeat' split
    all_goals first | exact hu | exact idsU_of_dbs_eq hu rfl hu.node
  · intro n; unfold dropUser; repeat' split
    all_goals first | exact hu | exact idsU_of_dbs_eq hu rfl hu.node
  · intro n h; unfold updateUser; repeat' split
    all_goals first | exact hu | exact idsU_of_dbs_eq hu rfl hu.node
  · intro u db p; unfold setPrivilege; repeat' split
    all_goals first | exact hu | exact idsU_of_dbs_eq hu rfl hu.node
  · intro u; unfold setAdminPrivilege; repeat' split
    all_goals exact hu

/-- **one step of the first layer keeps every id unique** -/
theorem idsU_applyP (pick : Nat) (hu : IdsU d) (hinv : Inv d) (hk : KeysAreNames d) (hs : KS d) (c : Cmd) : IdsU (applyP pick d c).1 := by
  obtain ⟨c1, c2, c3, c4, c5, c6, c7, c8, c9⟩ := idsU_setRP_cmds hu hinv hk hs pick
  obtain ⟨u1, u2, u3, u4, u5⟩ := idsU_users hu
  cases c with
  | createDatabase n rp rep => exact idsU_createDatabase hu n rp rep
  | dropDatabase n => exact idsU_dropDatabase hu n
  | markDatabaseDelete n => exact idsU_markDatabaseDelete hk hs hu n
  | createRetentionPolicy db s def_ => exact idsU_createRetentionPolicy hk hs hu db s def_
  | dropRetentionPolicy db rp => exact idsU_dropRetentionPolicy hk hs hu db rp
  | markRetentionPolicyDelete db rp => exact c1 db rp
  | setDefaultRetentionPolicy db rp => exact idsU_setDefaultRetentionPolicy hk hs hu db rp
  | updateRetentionPolicy db rp u => exact idsU_updateRetentionPolicy hk hs hu db rp u
  | createMeasurement db rp m ski e fs => exact c2 db rp m ski e fs
  | alterShardKey db rp m ski => exact c3 db rp m ski
  | updateSchema db rp m fs => exact c4 db rp m fs
  | markMeasurementDelete db rp m => exact c5 db rp m
  | dropMeasurement db rp m => exact c6 db rp m
  | createShardGroup db rp ts tier e v => exact idsU_createShardGroup hu hinv hk hs pick db rp ts tier e v
  | deleteShardGroup db rp id t => exact c7 db rp id t
  | deleteIndexGroup db rp id => exact c8 db rp id
  | pruneGroups sg id => exact idsU_pruneGroups hs hu sg id
  | createDataNode h t r => exact idsU_createDataNode hu hinv h t r
  | createDbPtView db => exact idsU_createDbPtView hu db
  | updateShardInfoTier s t db rp => exact c9 s t db rp
  | createUser n h a rw => exact u1 n h a rw
  | dropUser n => exact u2 n
  | updateUser n h => exact u3 n h
  | setPrivilege u db p => exact u4 u db p
  | setAdminPrivilege u b => exact u5 u

end OG.C16
