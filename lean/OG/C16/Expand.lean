/-
C16 — `Data.ExpandGroups` (OG/Meta/Model2.lean `expandGroups`): what the threaded expansion does
to the counters, the frame, and the per-policy id predicates (`RPOk`: ids below the counters,
groups sorted; `RPOkP`: an abstract predicate on ids).
-/
import OG.Meta.Model2
import OG.C16.UsersPt
import OG.C16.IssuedCmds

namespace OG.C16
open OG.Meta

/-- every id above the counters satisfies `P` (ExpandGroups may take several index-group ids) -/
structure NewIdsAll (P : IdPred) (d : Data) : Prop where
  sg : ∀ i, P.sg (d.maxShardGroupID + 1 + i)
  shard : ∀ i, P.shard (d.maxShardID + 1 + i)
  ig : ∀ i, P.ig (d.maxIndexGroupID + 1 + i)
  idx : ∀ i, P.idx (d.maxIndexID + 1 + i)
  mst : ∀ i, P.mst (d.maxMstID + i)
  node : ∀ i, P.node (d.maxNodeID + 1 + i)

theorem NewIdsAll.toNewIds {P : IdPred} {d : Data} (h : NewIdsAll P d) : NewIds P d :=
  ⟨h.sg 0, h.shard, h.ig 0, h.idx, h.mst 0, h.node 0⟩

theorem NewIdsAll.mono {P : IdPred} {d d' : Data} (h : NewIdsAll P d) (hc : (ctr d).le (ctr d')) : NewIdsAll P d' := by
  simp only [Ctr.le, ctr] at hc
  refine ⟨fun i => ?_, fun i => ?_, fun i => ?_, fun i => ?_, fun i => ?_, fun i => ?_⟩
  · have := h.sg (d'.maxShardGroupID - d.maxShardGroupID + i); rwa [show d.maxShardGroupID + 1 + (d'.maxShardGroupID - d.maxShardGroupID + i) = d'.maxShardGroupID + 1 + i by omega] at this
  · have := h.shard (d'.maxShardID - d.maxShardID + i); rwa [show d.maxShardID + 1 + (d'.maxShardID - d.maxShardID + i) = d'.maxShardID + 1 + i by omega] at this
  · have := h.ig (d'.maxIndexGroupID - d.maxIndexGroupID + i); rwa [show d.maxIndexGroupID + 1 + (d'.maxIndexGroupID - d.maxIndexGroupID + i) = d'.maxIndexGroupID + 1 + i by omega] at this
  · have := h.idx (d'.maxIndexID - d.maxIndexID + i); rwa [show d.maxIndexID + 1 + (d'.maxIndexID - d.maxIndexID + i) = d'.maxIndexID + 1 + i by omega] at this
  · have := h.mst (d'.maxMstID - d.maxMstID + i); rwa [show d.maxMstID + (d'.maxMstID - d.maxMstID + i) = d'.maxMstID + i by omega] at this
  · have := h.node (d'.maxNodeID - d.maxNodeID + i); rwa [show d.maxNodeID + 1 + (d'.maxNodeID - d.maxNodeID + i) = d'.maxNodeID + 1 + i by omega] at this

/-- what the expansion leaves alone in the catalogue around the policies -/
structure Frame (d d' : Data) : Prop where
  dbs : d'.databases = d.databases
  pt : ptPart d' = ptPart d
  users : d'.users = d.users
  cle : (ctr d).le (ctr d')
  shardLe : d.maxShardID ≤ d'.maxShardID

theorem Frame.refl (d : Data) : Frame d d := ⟨rfl, rfl, rfl, Ctr.le_refl _, Nat.le_refl _⟩
theorem Frame.trans {a b c : Data} (h1 : Frame a b) (h2 : Frame b c) : Frame a c :=
  ⟨h2.dbs.trans h1.dbs, h2.pt.trans h1.pt, h2.users.trans h1.users, Ctr.le_trans h1.cle h2.cle, Nat.le_trans h1.shardLe h2.shardLe⟩

/-- … and in a policy -/
structure Shape (r r' : RP) : Prop where
  name : r'.name = r.name
  msts : r'.msts = r.msts
  vers : r'.mstVersions = r.mstVersions

theorem Shape.refl (r : RP) : Shape r r := ⟨rfl, rfl, rfl⟩
theorem Shape.trans {a b c : RP} (h1 : Shape a b) (h2 : Shape b c) : Shape a c :=
  ⟨h2.name.trans h1.name, h2.msts.trans h1.msts, h2.vers.trans h1.vers⟩

/-- the id predicates carried from (d, r) to (d', r') -/
structure Carry (d : Data) (r : RP) (d' : Data) (r' : RP) : Prop where
  ok : RPOk (ctr d) r → RPOk (ctr d') r'
  okP : ∀ P : IdPred, NewIdsAll P d → RPOkP P r → RPOkP P r'

theorem Carry.refl (d : Data) (r : RP) : Carry d r d r := ⟨id, fun _ _ h => h⟩
theorem Carry.trans {a b c : Data} {ra rb rc : RP} (f : Frame a b) (h1 : Carry a ra b rb) (h2 : Carry b rb c rc) : Carry a ra c rc :=
  ⟨fun h => h2.ok (h1.ok h), fun P hn h => h2.okP P (hn.mono f.cle) (h1.okP P hn h)⟩

/-! ### `createIndexGroupIfNeeded` -/

theorem igf_all (d : Data) (r : RP) (t : Int) (e : Nat) :
    Frame d (indexGroupFor d r t e).1 ∧ Shape r (indexGroupFor d r t e).2.1 ∧ Carry d r (indexGroupFor d r t e).1 (indexGroupFor d r t e).2.1 ∧
    (indexGroupFor d r t e).2.1.shardGroups = r.shardGroups ∧ (indexGroupFor d r t e).1.maxShardID = d.maxShardID := by
  have hc := indexGroupFor_ctr d r t e
  have hp := indexGroupFor_ptPart d r t e
  have hn := indexGroupFor_facts d r t e
  have hm := indexGroupFor_content d r t e
  refine ⟨⟨hn.1, hp.1, hp.2, hc.1, Nat.le_of_eq hc.2.2.symm⟩, ⟨hn.2, hm.1, hm.2⟩, ⟨fun h => (indexGroupFor_ok d r t e h).2.2.2.1,
    fun P hnew h => (indexGroupFor_okP hnew.toNewIds r t e h).2.2.1⟩, ?_, hc.2.2⟩
  unfold indexGroupFor
  repeat' split
  all_goals simp [createIndexGroup]

/-! ### one shard group -/

theorem expandSG_spec : ∀ (n : Nat) (d : Data) (r : RP) (g : SG) (d' : Data) (r' : RP) (g' : SG), expandSG n d r g = some (d', r', g') →
    Frame d d' ∧ Shape r r' ∧ Carry d r d' r' ∧ r'.shardGroups = r.shardGroups ∧
    g'.id = g.id ∧ g'.start = g.start ∧ g'.stop = g.stop ∧
    ∀ s ∈ g'.shards, s ∈ g.shards ∨ (d.maxShardID < s.id ∧ s.id ≤ d'.maxShardID)
  | 0, d, r, g, d', r', g', h => by
    simp only [expandSG, Option.some.injEq, Prod.mk.injEq] at h
    obtain ⟨rfl, rfl, rfl⟩ := h
    exact ⟨Frame.refl _, Shape.refl _, Carry.refl _ _, rfl, rfl, rfl, rfl, fun s hs => Or.inl hs⟩
  | n + 1, d, r, g, d', r', g', h => by
    unfold expandSG at h
    split at h
    · cases h
    · next prev hprev =>
      have hi := igf_all d r g.start g.engine
      generalize indexGroupFor d r g.start g.engine = x at h hi
      obtain ⟨d1, r1, ig⟩ := x
      simp only at h hi
      obtain ⟨f1, s1, c1, hsg1, hms1⟩ := hi
      have ih := expandSG_spec n _ _ _ _ _ _ h
      obtain ⟨f2, s2, c2, hsg2, e1, e2, e3, hsh⟩ := ih
      have fmid : Frame d1 { d1 with maxShardID := d1.maxShardID + 1 } :=
        ⟨rfl, rfl, rfl, by simp [Ctr.le, ctr], by simp⟩
      have cmid : Carry d1 r1 { d1 with maxShardID := d1.maxShardID + 1 } r1 :=
        ⟨fun h => h.mono fmid.cle, fun _ _ h => h⟩
      refine ⟨f1.trans (fmid.trans f2), s1.trans s2, Carry.trans f1 c1 (Carry.trans fmid cmid c2), hsg2.trans hsg1, e1, e2, e3, ?_⟩
      intro s hs
      rcases hsh s hs with hs | hs
      · simp only [List.mem_append, List.mem_singleton] at hs
        rcases hs with hs | rfl
        · exact Or.inl hs
        · right
          have := f2.shardLe
          simp only at this ⊢
          omega
      · right
        simp only at hs
        omega

/-! ### the shard groups of a policy -/

theorem expandSGs_spec : ∀ (d : Data) (r : RP) (gs : List SG) (d' : Data) (r' : RP) (gs' : List SG), expandSGs d r gs = some (d', r', gs') →
    Frame d d' ∧ Shape r r' ∧ Carry d r d' r' ∧ r'.shardGroups = r.shardGroups ∧
    (∀ g' ∈ gs', ∃ g ∈ gs, g'.id = g.id ∧ g'.start = g.start ∧ g'.stop = g.stop ∧
      ∀ s ∈ g'.shards, s ∈ g.shards ∨ (d.maxShardID < s.id ∧ s.id ≤ d'.maxShardID)) ∧
    (gs.Pairwise leSG → gs'.Pairwise leSG)
  | d, r, [], d', r', gs', h => by
    simp only [expandSGs, Option.some.injEq, Prod.mk.injEq] at h
    obtain ⟨rfl, rfl, rfl⟩ := h
    exact ⟨Frame.refl _, Shape.refl _, Carry.refl _ _, rfl, by simp, fun _ => List.Pairwise.nil⟩
  | d, r, g :: rest, d', r', gs', h => by
    unfold expandSGs at h
    split at h
    · cases h
    · next d1 r1 g1 h1 =>
      split at h
      · cases h
      · next d2 r2 gs2 h2 =>
        simp only [Option.some.injEq, Prod.mk.injEq] at h
        obtain ⟨rfl, rfl, rfl⟩ := h
        obtain ⟨f1, s1, c1, hsg1, e1, e2, e3, hsh1⟩ := expandSG_spec _ _ _ _ _ _ _ h1
        obtain ⟨f2, s2, c2, hsg2, hmem2, hpw2⟩ := expandSGs_spec _ _ _ _ _ _ h2
        refine ⟨f1.trans f2, s1.trans s2, Carry.trans f1 c1 c2, hsg2.trans hsg1, ?_, ?_⟩
        · intro g' hg'
          rcases List.mem_cons.1 hg' with rfl | hg'
          · refine ⟨g, List.mem_cons_self, e1, e2, e3, ?_⟩
            intro s hs
            rcases hsh1 s hs with hs | hs
            · exact Or.inl hs
            · right; have := f2.shardLe; omega
          · obtain ⟨g0, hg0, a1, a2, a3, hs0⟩ := hmem2 g' hg'
            refine ⟨g0, List.mem_cons_of_mem _ hg0, a1, a2, a3, ?_⟩
            intro s hs
            rcases hs0 s hs with hs | hs
            · exact Or.inl hs
            · right; have := f1.shardLe; omega
        · intro hpw
          rw [List.pairwise_cons] at hpw ⊢
          refine ⟨?_, hpw2 hpw.2⟩
          intro x hx
          obtain ⟨x0, hx0, _, a2, a3, _⟩ := hmem2 x hx
          have := hpw.1 x0 hx0
          unfold leSG at this ⊢
          rw [e2, e3, a2, a3]; exact this

/-! ### the index groups of a policy -/

theorem expandIGs_spec (ptNum : Nat) : ∀ (maxIdx : Nat) (igs : List IG),
    maxIdx ≤ (expandIGs ptNum maxIdx igs).1 ∧
    ∀ g' ∈ (expandIGs ptNum maxIdx igs).2, ∃ g ∈ igs, g'.id = g.id ∧
      ∀ x ∈ g'.indexes, x ∈ g.indexes ∨ (maxIdx < x.id ∧ x.id ≤ (expandIGs ptNum maxIdx igs).1)
  | maxIdx, [] => by simp [expandIGs]
  | maxIdx, g :: rest => by
    unfold expandIGs
    simp only
    obtain ⟨hle, hmem⟩ := expandIGs_spec ptNum (maxIdx + (ptNum - g.indexes.length)) rest
    refine ⟨by omega, ?_⟩
    intro g' hg'
    rcases List.mem_cons.1 hg' with rfl | hg'
    · refine ⟨g, List.mem_cons_self, rfl, ?_⟩
      intro x hx
      simp only [List.mem_append, List.mem_map, List.mem_range] at hx
      rcases hx with hx | ⟨j, hj, rfl⟩
      · exact Or.inl hx
      · right; simp only; omega
    · obtain ⟨g0, hg0, e, hx0⟩ := hmem g' hg'
      refine ⟨g0, List.mem_cons_of_mem _ hg0, e, ?_⟩
      intro x hx
      rcases hx0 x hx with hx | hx
      · exact Or.inl hx
      · right; omega

/-! ### one policy -/

theorem expandRP_spec (d : Data) (r : RP) (d' : Data) (r' : RP) (h : expandRP d r = some (d', r')) :
    Frame d d' ∧ Shape r r' ∧ Carry d r d' r' := by
  unfold expandRP at h
  split at h
  · simp only [Option.some.injEq, Prod.mk.injEq] at h
    obtain ⟨rfl, rfl⟩ := h
    exact ⟨Frame.refl _, Shape.refl _, Carry.refl _ _⟩
  · simp only at h
    have hig := expandIGs_spec d.clusterPtNum d.maxIndexID r.indexGroups
    generalize expandIGs d.clusterPtNum d.maxIndexID r.indexGroups = y at h hig
    obtain ⟨mi, igs⟩ := y
    simp only at h hig
    obtain ⟨hmi, higm⟩ := hig
    split at h
    · cases h
    · next d2 r2 sgs hs =>
      simp only [Option.some.injEq, Prod.mk.injEq] at h
      obtain ⟨rfl, rfl⟩ := h
      obtain ⟨f2, s2, c2, hsg2, hmem, hpw⟩ := expandSGs_spec _ _ _ _ _ _ hs
      -- first step: the index groups
      have f1 : Frame d { d with maxIndexID := mi } := ⟨rfl, rfl, rfl, by simp [Ctr.le, ctr]; exact hmi, Nat.le_refl _⟩
      have c1 : Carry d r { d with maxIndexID := mi } { r with indexGroups := igs } := by
        constructor
        · intro h
          have h' := h.mono f1.cle
          refine ⟨h'.sgBound, h'.shardBound, ?_, ?_, h'.mstBound, h'.sorted⟩
          · intro g hg
            obtain ⟨g0, hg0, e, _⟩ := higm g hg
            rw [e]; exact h'.igBound g0 hg0
          · intro g hg x hx
            obtain ⟨g0, hg0, _, hx0⟩ := higm g hg
            rcases hx0 x hx with hx | hx
            · exact h'.idxBound g0 hg0 x hx
            · simp only [ctr]; exact hx.2
        · intro P hn h
          refine ⟨h.sgB, h.shardB, ?_, ?_, h.mstB⟩
          · intro g hg
            obtain ⟨g0, hg0, e, _⟩ := higm g hg
            rw [e]; exact h.igB g0 hg0
          · intro g hg x hx
            obtain ⟨g0, hg0, _, hx0⟩ := higm g hg
            rcases hx0 x hx with hx | hx
            · exact h.idxB g0 hg0 x hx
            · have := hn.idx (x.id - d.maxIndexID - 1)
              rwa [show d.maxIndexID + 1 + (x.id - d.maxIndexID - 1) = x.id by omega] at this
      refine ⟨f1.trans f2, ⟨s2.name, s2.msts, s2.vers⟩, ?_⟩
      constructor
      · intro h
        have hmid := c2.ok (c1.ok h)
        have h0 := h.mono (f1.trans f2).cle
        refine ⟨?_, ?_, hmid.igBound, hmid.idxBound, hmid.mstBound, ?_⟩
        · intro g hg
          obtain ⟨g0, hg0, e, _⟩ := hmem g hg
          rw [e]; exact h0.sgBound g0 hg0
        · intro g hg s hsm
          obtain ⟨g0, hg0, _, _, _, hs0⟩ := hmem g hg
          rcases hs0 s hsm with hsm | hsm
          · exact h0.shardBound g0 hg0 s hsm
          · simp only [ctr]; exact hsm.2
        · rw [sortedRP_iff]
          exact hpw ((sortedRP_iff r).1 h.sorted)
      · intro P hn h
        have hmid := c2.okP P (hn.mono f1.cle) (c1.okP P hn h)
        refine ⟨?_, ?_, hmid.igB, hmid.idxB, hmid.mstB⟩
        · intro g hg
          obtain ⟨g0, hg0, e, _⟩ := hmem g hg
          rw [e]; exact h.sgB g0 hg0
        · intro g hg s hsm
          obtain ⟨g0, hg0, _, _, _, hs0⟩ := hmem g hg
          rcases hs0 s hsm with hsm | hsm
          · exact h.shardB g0 hg0 s hsm
          · have := hn.shard (s.id - d.maxShardID - 1)
            simp only at hsm
            rwa [show d.maxShardID + 1 + (s.id - d.maxShardID - 1) = s.id by omega] at this

/-! ### the policies of a database, the databases -/

/-- a policy after the expansion, relative to the counters before (`d`) and after (`d'`) the
whole pass over the list it sits in -/
structure Out (d d' : Data) (r r' : RP) : Prop where
  shape : Shape r r'
  ok : ∀ c0 : Ctr, c0.le (ctr d) → ∀ c1 : Ctr, (ctr d').le c1 → RPOk c0 r → RPOk c1 r'
  okP : ∀ P : IdPred, (∀ d0, (ctr d0).le (ctr d) → NewIdsAll P d0 → RPOkP P r → RPOkP P r')

theorem expandRPs_spec : ∀ (d : Data) (rps : List (String × RP)) (d' : Data) (rps' : List (String × RP)), expandRPs d rps = some (d', rps') →
    Frame d d' ∧ rps'.map (·.1) = rps.map (·.1) ∧ ∀ kr' ∈ rps', ∃ kr ∈ rps, kr.1 = kr'.1 ∧ Out d d' kr.2 kr'.2
  | d, [], d', rps', h => by
    simp only [expandRPs, Option.some.injEq, Prod.mk.injEq] at h
    obtain ⟨rfl, rfl⟩ := h
    exact ⟨Frame.refl _, rfl, by simp⟩
  | d, (k, r) :: rest, d', rps', h => by
    unfold expandRPs at h
    split at h
    · cases h
    · next d1 r1 h1 =>
      split at h
      · cases h
      · next d2 rs h2 =>
        simp only [Option.some.injEq, Prod.mk.injEq] at h
        obtain ⟨rfl, rfl⟩ := h
        obtain ⟨f1, s1, c1⟩ := expandRP_spec _ _ _ _ h1
        obtain ⟨f2, hk2, hm2⟩ := expandRPs_spec _ _ _ _ h2
        refine ⟨f1.trans f2, by simp [hk2], ?_⟩
        intro kr' hkr'
        rcases List.mem_cons.1 hkr' with rfl | hkr'
        · refine ⟨(k, r), List.mem_cons_self, rfl, s1, ?_, ?_⟩
          · intro c0 hc0 c1' hc1 h
            exact ((c1.ok (h.mono hc0)).mono f2.cle).mono hc1
          · intro P d0 hd0 hn h
            exact c1.okP P (hn.mono hd0) h
        · obtain ⟨kr, hkr, e, o⟩ := hm2 kr' hkr'
          refine ⟨kr, List.mem_cons_of_mem _ hkr, e, o.shape, ?_, ?_⟩
          · intro c0 hc0 c1' hc1 h
            exact o.ok c0 (Ctr.le_trans hc0 f1.cle) c1' hc1 h
          · intro P d0 hd0 hn h
            exact o.okP P d0 (Ctr.le_trans hd0 f1.cle) hn h

theorem expandDBs_spec : ∀ (d : Data) (dbs : List (String × DB)) (d' : Data) (dbs' : List (String × DB)), expandDBs d dbs = some (d', dbs') →
    Frame d d' ∧ dbs'.map (·.1) = dbs.map (·.1) ∧
    ∀ kdb' ∈ dbs', ∃ kdb ∈ dbs, kdb.1 = kdb'.1 ∧ kdb'.2.name = kdb.2.name ∧ kdb'.2.defaultRP = kdb.2.defaultRP ∧
      kdb'.2.markDeleted = kdb.2.markDeleted ∧ kdb'.2.replicaN = kdb.2.replicaN ∧
      kdb'.2.rps.map (·.1) = kdb.2.rps.map (·.1) ∧ ∀ kr' ∈ kdb'.2.rps, ∃ kr ∈ kdb.2.rps, kr.1 = kr'.1 ∧ Out d d' kr.2 kr'.2
  | d, [], d', dbs', h => by
    simp only [expandDBs, Option.some.injEq, Prod.mk.injEq] at h
    obtain ⟨rfl, rfl⟩ := h
    exact ⟨Frame.refl _, rfl, by simp⟩
  | d, (k, db) :: rest, d', dbs', h => by
    unfold expandDBs at h
    split at h
    · cases h
    · next d1 rps h1 =>
      split at h
      · cases h
      · next d2 dbs2 h2 =>
        simp only [Option.some.injEq, Prod.mk.injEq] at h
        obtain ⟨rfl, rfl⟩ := h
        obtain ⟨f1, hk1, hm1⟩ := expandRPs_spec _ _ _ _ h1
        obtain ⟨f2, hk2, hm2⟩ := expandDBs_spec _ _ _ _ h2
        refine ⟨f1.trans f2, by simp [hk2], ?_⟩
        intro kdb' hkdb'
        rcases List.mem_cons.1 hkdb' with rfl | hkdb'
        · refine ⟨(k, db), List.mem_cons_self, rfl, rfl, rfl, rfl, rfl, hk1, ?_⟩
          intro kr' hkr'
          obtain ⟨kr, hkr, e, o⟩ := hm1 kr' hkr'
          refine ⟨kr, hkr, e, o.shape, ?_, ?_⟩
          · intro c0 hc0 c1' hc1 h
            exact o.ok c0 hc0 c1' (Ctr.le_trans f2.cle hc1) h
          · exact o.okP
        · obtain ⟨kdb, hkdb, e, a1, a2, a3, a4, a5, hrs⟩ := hm2 kdb' hkdb'
          refine ⟨kdb, List.mem_cons_of_mem _ hkdb, e, a1, a2, a3, a4, a5, ?_⟩
          intro kr' hkr'
          obtain ⟨kr, hkr, e', o⟩ := hrs kr' hkr'
          refine ⟨kr, hkr, e', o.shape, ?_, ?_⟩
          · intro c0 hc0 c1' hc1 h
            exact o.ok c0 (Ctr.le_trans hc0 f1.cle) c1' hc1 h
          · intro P d0 hd0 hn h
            exact o.okP P d0 (Ctr.le_trans hd0 f1.cle) hn h

end OG.C16
