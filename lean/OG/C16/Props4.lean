/-
C16 — property theorems, part 4: identifiers of measurements are handed out at most once, over
every command log.

  * `versioned_name_unique`   a versioned measurement name (`cpu_0000`: the identifier under
        which the stores keep the data) appears as a *new* entry of a policy (database key,
        policy key) at most once for as long as that policy lives — in particular not again
        after MarkMeasurementDelete + DropMeasurement purged the earlier holder and the policy
        holds nothing else. Hypothesis: the version counters stay below the 16-bit wrap-around
        of `(v + 1) & 0xffff` (`NoWrapLog`, decidable on the log) — beyond it the code does reissue.
  * `version_counter_above_issued`  the history invariant behind it: once `o_v` was handed out,
        the policy's counter of `o` stays ≥ `v`.
  * `mst_id_unique`           a numeric measurement id appears as new at most once in the whole
        catalogue, unconditionally.
-/
import OG.C16.IssuedCmds
import OG.C16.Props2

namespace OG.C16
open OG.Meta

/-! ### traces -/

/-- the catalogue after the first `m` commands of the log -/
def stateAt (log : List Cmd) (m : Nat) : Data := applyAll Data.init (log.take m)

theorem applyAll_append' (d : Data) (l1 l2 : List Cmd) : applyAll d (l1 ++ l2) = applyAll (applyAll d l1) l2 := by
  induction l1 generalizing d with
  | nil => rfl
  | cons c l1 ih => simp [applyAll, ih]

theorem stateAt_succ (log : List Cmd) (m : Nat) (h : m < log.length) :
    stateAt log (m + 1) = (apply (stateAt log m) log[m]).1 := by
  unfold stateAt
  rw [List.take_succ_eq_append_getElem h, applyAll_append']
  rfl

theorem ks_applyAll {d : Data} (h : KS d) (cs : List Cmd) : KS (applyAll d cs) := by
  induction cs generalizing d with
  | nil => exact h
  | cons c cs ih => exact ih (ks_applyP 0 h c)

/-- the version counters stay below the wrap-around of `(v + 1) & 0xffff` along the log -/
def NoWrapLog (log : List Cmd) : Prop := ∀ m, m ≤ log.length → NoWrap (stateAt log m)

theorem stepOK_stateAt (log : List Cmd) (hnw : NoWrapLog log) (m : Nat) (h : m < log.length) :
    StepOK (stateAt log m) (stateAt log (m + 1)) := by
  rw [stateAt_succ log m h]
  exact stepOK_applyP 0 (kn_applyAll kn_init _) (ks_applyAll ks_init _) (hnw m (Nat.le_of_lt h)) _

/-! ### versioned names are injective in (original name, version) -/

theorem hexNibble_inj : ∀ a : Fin 16, ∀ b : Fin 16, hexNibble a.val = hexNibble b.val → a = b := by decide

theorem hexNibble_inj' {a b : Nat} (ha : a < 16) (hb : b < 16) (h : hexNibble a = hexNibble b) : a = b := by
  have := hexNibble_inj ⟨a, ha⟩ ⟨b, hb⟩ h
  exact Fin.mk.inj_iff.1 this

theorem nameWithVersion_inj {o o' : String} {v v' : Nat} (hv : v < 65536) (hv' : v' < 65536)
    (h : nameWithVersion o v = nameWithVersion o' v') : o = o' ∧ v = v' := by
  unfold nameWithVersion at h
  have h2 := congrArg String.toList h
  simp only [String.toList_append, String.toList_ofList, List.append_assoc] at h2
  have h3 := List.append_inj' h2 (by simp)
  refine ⟨String.toList_injective h3.1, ?_⟩
  have h4 := h3.2
  have hu : "_".toList = ['_'] := rfl
  rw [hu] at h4
  simp only [List.cons_append, List.nil_append, List.cons.injEq, and_true, true_and] at h4
  obtain ⟨e3, e2, e1, e0⟩ := h4
  have a3 := hexNibble_inj' (Nat.mod_lt _ (by decide)) (Nat.mod_lt _ (by decide)) e3
  have a2 := hexNibble_inj' (Nat.mod_lt _ (by decide)) (Nat.mod_lt _ (by decide)) e2
  have a1 := hexNibble_inj' (Nat.mod_lt _ (by decide)) (Nat.mod_lt _ (by decide)) e1
  have a0 := hexNibble_inj' (Nat.mod_lt _ (by decide)) (Nat.mod_lt _ (by decide)) e0
  omega

/-! ### the history invariant -/

/-- as long as the policy lives (is found under its keys in every state from `a` to `b`), the
counter of every original name only moves up -/
theorem version_counter_monotone (log : List Cmd) (hnw : NoWrapLog log) (db k : String) (hk : k ≠ "") (a : Nat) :
    ∀ b, a ≤ b → b ≤ log.length → (∀ m, a ≤ m → m ≤ b → (lookupRP (stateAt log m) db k).isSome = true) →
    ∀ rpa rpb, lookupRP (stateAt log a) db k = some rpa → lookupRP (stateAt log b) db k = some rpb →
    ∀ o v, rpa.ver o = some v → ∃ v', rpb.ver o = some v' ∧ v ≤ v' := by
  intro b
  induction b with
  | zero =>
    intro hab _ _ rpa rpb ha hb o v hv
    have : a = 0 := Nat.le_zero.1 hab
    subst this
    rw [ha] at hb; cases hb
    exact ⟨v, hv, Nat.le_refl _⟩
  | succ b ih =>
    intro hab hbl hpres rpa rpb ha hb o v hv
    by_cases hab' : a = b + 1
    · subst hab'
      rw [ha] at hb; cases hb
      exact ⟨v, hv, Nat.le_refl _⟩
    · have hle : a ≤ b := by omega
      have hsome := hpres b hle (Nat.le_succ b)
      cases hm : lookupRP (stateAt log b) db k with
      | none => simp [hm] at hsome
      | some rpm =>
        obtain ⟨v1, hv1, hle1⟩ := ih hle (by omega) (fun m h1 h2 => hpres m h1 (by omega)) rpa rpm ha hm o v hv
        have hstep := stepOK_stateAt log hnw b (by omega) db k rpm rpb hk hm hb
        obtain ⟨v2, hv2, hle2⟩ := hstep.mono o v1 hv1
        exact ⟨v2, hv2, Nat.le_trans hle1 hle2⟩

/-- a versioned name appears as a new entry of the policy stored under (db, k) -/
def IssuedAt (d d' : Data) (db k n : String) : Prop :=
  ∃ rp rp', lookupRP d db k = some rp ∧ lookupRP d' db k = some rp' ∧ n ∈ rp'.names ∧ n ∉ rp.names

/-- what a step that hands out `n` does: `n = o_v`, `v` is the new counter of `o`, above the old one -/
theorem issued_shape (log : List Cmd) (hnw : NoWrapLog log) (i : Nat) (hi : i < log.length) (db k n : String) (hk : k ≠ "")
    (h : IssuedAt (stateAt log i) (stateAt log (i + 1)) db k n) :
    ∃ rp rp' o v, lookupRP (stateAt log i) db k = some rp ∧ lookupRP (stateAt log (i + 1)) db k = some rp' ∧
      n = nameWithVersion o v ∧ v < 65536 ∧ rp'.ver o = some v ∧ ∀ w, rp.ver o = some w → w < v := by
  obtain ⟨rp, rp', h1, h2, hn, hnot⟩ := h
  obtain ⟨o, v, e, hlt, hv, hup⟩ := (stepOK_stateAt log hnw i hi db k rp rp' hk h1 h2).fresh n hn hnot
  exact ⟨rp, rp', o, v, h1, h2, e, hlt, hv, hup⟩

/-- **history invariant**: after `o_v` was handed out at step `i`, the policy's counter of `o`
is at least `v` in every later state in which the policy still lives. -/
theorem version_counter_above_issued (log : List Cmd) (hnw : NoWrapLog log) (i j : Nat) (hij : i < j) (hj : j ≤ log.length)
    (db k o : String) (v : Nat) (hk : k ≠ "")
    (hissued : IssuedAt (stateAt log i) (stateAt log (i + 1)) db k (nameWithVersion o v)) (hv : v < 65536)
    (hlive : ∀ m, i < m → m ≤ j → (lookupRP (stateAt log m) db k).isSome = true)
    (rpj : RP) (hrj : lookupRP (stateAt log j) db k = some rpj) : ∃ w, rpj.ver o = some w ∧ v ≤ w := by
  obtain ⟨rp, rp', o', v', _, h2, e, hlt, hver, _⟩ := issued_shape log hnw i (by omega) db k _ hk hissued
  obtain ⟨rfl, rfl⟩ := nameWithVersion_inj hv hlt e
  exact version_counter_monotone log hnw db k hk (i + 1) j (by omega) hj (fun m h1 h2' => hlive m (by omega) h2') rp' rpj h2 hrj o v hver

/-- **T7** a versioned measurement name is handed out at most once per (database, policy) —
ever, also after the earlier holder was dropped: if `n` appears as a new entry of the policy
under (db, k) at step `i` and again at a later step `j`, the policy itself was gone in between
(dropped, or its database dropped, or renamed away: a later policy under that key is another one). -/
theorem versioned_name_unique (log : List Cmd) (hnw : NoWrapLog log) (i j : Nat) (hij : i < j) (hj : j < log.length)
    (db k n : String) (hk : k ≠ "")
    (hi : IssuedAt (stateAt log i) (stateAt log (i + 1)) db k n)
    (hjj : IssuedAt (stateAt log j) (stateAt log (j + 1)) db k n) :
    ∃ m, i < m ∧ m ≤ j ∧ lookupRP (stateAt log m) db k = none := by
  apply Classical.byContradiction
  intro hno
  have hlive : ∀ m, i < m → m ≤ j → (lookupRP (stateAt log m) db k).isSome = true := by
    intro m h1 h2
    cases hm : lookupRP (stateAt log m) db k with
    | none => exact absurd ⟨m, h1, h2, hm⟩ hno
    | some _ => rfl
  obtain ⟨_, _, o1, v1, _, _, e1, hlt1, _, _⟩ := issued_shape log hnw i (by omega) db k n hk hi
  obtain ⟨rpj, _, o2, v2, hrj, _, e2, hlt2, _, hup2⟩ := issued_shape log hnw j hj db k n hk hjj
  obtain ⟨rfl, rfl⟩ := nameWithVersion_inj hlt1 hlt2 (e1.symm.trans e2)
  obtain ⟨w, hw, hle⟩ := version_counter_above_issued log hnw i j hij (Nat.le_of_lt hj) db k o1 v1 hk (e1 ▸ hi) hlt1 hlive rpj hrj
  have := hup2 w hw
  omega

/-! ### why the hypothesis: beyond version 0xffff the counter restarts at 0 -/

/-- the statement without `NoWrapLog` -/
def versioned_name_unique_full : Prop :=
  ∀ (log : List Cmd) (i j : Nat), i < j → j < log.length → ∀ (db k n : String), k ≠ "" →
    IssuedAt (stateAt log i) (stateAt log (i + 1)) db k n → IssuedAt (stateAt log j) (stateAt log (j + 1)) db k n →
    ∃ m, i < m ∧ m ≤ j ∧ lookupRP (stateAt log m) db k = none

/-- a policy whose counter of `cpu` stands at 0xffff (65 536 incarnations were handed out and purged) -/
def wrapRP : RP :=
  { name := "autogen", replicaN := 1, duration := 0, sgDuration := 7 * day, shardMergeDuration := 0, hot := 0, warm := 0,
    indexCold := 0, igDuration := 7 * day, indexGroups := [], msts := [], mstVersions := [⟨"cpu", 65535⟩],
    shardGroups := [], markDeleted := false }

def wrapDB : DB := { name := "db0", defaultRP := "autogen", rps := [("autogen", wrapRP)], markDeleted := false, replicaN := 1 }

def wrapState : Data := { Data.init with clusterPtNum := 1, maxMstID := 65536, databases := [("db0", wrapDB)] }

/-- `(version + 1) & 0xffff`: the next incarnation is `cpu_0000` again, the identifier of the
very first one. (Reaching this state takes 65 536 create / mark / drop rounds on one name; the
correspondence run cannot get there, the theorem's hypothesis says so explicitly.) -/
theorem wrap_restarts_at_zero :
    ((lookupRP (apply wrapState (.createMeasurement "db0" "autogen" "cpu" (some ⟨["host"], "hash", 0⟩) 0 [])).1 "db0" "autogen").map
      fun r => (r.names, r.mstVersions)) = some (["cpu_0000"], [⟨"cpu", 0⟩]) := by decide +kernel

/-! ### numeric ids -/

theorem ctr_le_stateAt (log : List Cmd) (a b : Nat) (hab : a ≤ b) (hb : b ≤ log.length) : (ctr (stateAt log a)).le (ctr (stateAt log b)) := by
  induction b with
  | zero => have : a = 0 := Nat.le_zero.1 hab; subst this; exact Ctr.le_refl _
  | succ b ih =>
    by_cases h : a = b + 1
    · subst h; exact Ctr.le_refl _
    · have h1 := ih (by omega) (by omega)
      rw [stateAt_succ log b (by omega)]
      exact Ctr.le_trans h1 (counters_monotone _ _)

/-- **T8** a numeric measurement id appears as new at most once in the whole catalogue. -/
theorem mst_id_unique (log : List Cmd) (i j : Nat) (hij : i < j) (hj : j < log.length) (id : Nat)
    (hi : id ∈ mstIds (stateAt log (i + 1)) ∧ id ∉ mstIds (stateAt log i))
    (hjj : id ∈ mstIds (stateAt log (j + 1)) ∧ id ∉ mstIds (stateAt log j)) : False := by
  -- issued at i: below the counter from then on
  have hinv : Inv (stateAt log (i + 1)) := inv_applyAll inv_init _
  obtain ⟨rp, hrp, m, hm, rfl⟩ := mem_mstIds.1 hi.1
  have hb : m.id < (stateAt log (i + 1)).maxMstID := (hinv.1 rp hrp).mstBound m hm
  have hmono := ctr_le_stateAt log (i + 1) j (by omega) (by omega)
  have hle : (stateAt log (i + 1)).maxMstID ≤ (stateAt log j).maxMstID := hmono.2.2.2.2.1
  -- issued at j: not below the counter of state j
  have hnew := (ids_never_reused (stateAt log j) log[j]).2.2.2.2.1 m.id
  rw [← stateAt_succ log j hj] at hnew
  rcases hnew hjj.1 with h | h
  · exact hjj.2 h
  · omega

/-! ### non-vacuity: the full delete life cycle, twice -/

def lifeCycleLog : List Cmd := [
  .createDataNode "n1:8400" "n1:8401" "",
  .createDatabase "db0" none 1,
  .createDbPtView "db0",
  .createMeasurement "db0" "autogen" "cpu" (some ⟨["host"], "hash", 0⟩) 0 [],
  .markMeasurementDelete "db0" "autogen" "cpu",
  .dropMeasurement "db0" "autogen" "cpu_0000",
  .createMeasurement "db0" "autogen" "cpu" (some ⟨["host"], "hash", 0⟩) 0 [],
  .markMeasurementDelete "db0" "autogen" "cpu",
  .dropMeasurement "db0" "autogen" "cpu_0001",
  .createMeasurement "db0" "autogen" "cpu" (some ⟨["host"], "hash", 0⟩) 0 []]

/-- the policy is empty after each purge, and the three incarnations are `cpu_0000`, `cpu_0001`,
`cpu_0002` with ids 0, 1, 2 -/
example : ((lookupRP (stateAt lifeCycleLog 4) "db0" "autogen").map fun r => r.msts.map fun m => (m.name, m.id)) = some [("cpu_0000", 0)] ∧
    ((lookupRP (stateAt lifeCycleLog 6) "db0" "autogen").map fun r => (r.names, r.mstVersions)) = some ([], [⟨"cpu", 0⟩]) ∧
    ((lookupRP (stateAt lifeCycleLog 7) "db0" "autogen").map fun r => r.msts.map fun m => (m.name, m.id)) = some [("cpu_0001", 1)] ∧
    ((lookupRP (stateAt lifeCycleLog 10) "db0" "autogen").map fun r => r.msts.map fun m => (m.name, m.id)) = some [("cpu_0002", 2)] := by
  decide +kernel

/-- `IssuedAt` is inhabited: step 3 hands out `cpu_0000`, step 6 hands out `cpu_0001` -/
example : IssuedAt (stateAt lifeCycleLog 3) (stateAt lifeCycleLog 4) "db0" "autogen" "cpu_0000" ∧
    IssuedAt (stateAt lifeCycleLog 6) (stateAt lifeCycleLog 7) "db0" "autogen" "cpu_0001" := by
  have key : ∀ a n, ((lookupRP (stateAt lifeCycleLog a) "db0" "autogen").map RP.names) = some [] →
      ((lookupRP (stateAt lifeCycleLog (a + 1)) "db0" "autogen").map RP.names) = some [n] →
      IssuedAt (stateAt lifeCycleLog a) (stateAt lifeCycleLog (a + 1)) "db0" "autogen" n := by
    intro a n h1 h2
    unfold IssuedAt
    cases hr : lookupRP (stateAt lifeCycleLog a) "db0" "autogen" with
    | none => simp [hr] at h1
    | some rp =>
      cases hr' : lookupRP (stateAt lifeCycleLog (a + 1)) "db0" "autogen" with
      | none => simp [hr'] at h2
      | some rp' =>
        simp only [hr, hr', Option.map_some, Option.some.injEq] at h1 h2
        exact ⟨rp, rp', rfl, rfl, by simp [h2], by simp [h1]⟩
  exact ⟨key 3 _ (by decide +kernel) (by decide +kernel), key 6 _ (by decide +kernel) (by decide +kernel)⟩

/-- the hypothesis of T7 is satisfiable: no counter of the life-cycle log is near the wrap-around -/
example : ∀ m, m ≤ lifeCycleLog.length → ((allRPs (stateAt lifeCycleLog m)).all fun rp => rp.mstVersions.all fun v => v.version < 65535) = true := by
  decide +kernel

/-! ### all numeric ids are handed out in strictly increasing order -/

/-- the six id kinds, as (ids in use, counter, "an id in use is below the counter": `<` for the
post-incremented measurement counter, `≤` for the others) -/
structure IdKind where
  ids : Data → List Nat
  counter : Data → Nat
  strict : Bool

def IdKind.below (k : IdKind) (id c : Nat) : Prop := if k.strict then id < c else id ≤ c
def IdKind.fresh (k : IdKind) (id c : Nat) : Prop := if k.strict then c ≤ id else c < id

def kSG : IdKind := ⟨sgIds, (·.maxShardGroupID), false⟩
def kShard : IdKind := ⟨shardIds, (·.maxShardID), false⟩
def kIG : IdKind := ⟨igIds, (·.maxIndexGroupID), false⟩
def kIndex : IdKind := ⟨indexIds, (·.maxIndexID), false⟩
def kMst : IdKind := ⟨mstIds, (·.maxMstID), true⟩
def kNode : IdKind := ⟨nodeIds, (·.maxNodeID), false⟩

def idKinds : List IdKind := [kSG, kShard, kIG, kIndex, kMst, kNode]

theorem kind_bounded (k : IdKind) (hk : k ∈ idKinds) (log : List Cmd) (m : Nat) :
    ∀ id ∈ k.ids (stateAt log m), k.below id (k.counter (stateAt log m)) := by
  have hinv : Inv (stateAt log m) := inv_applyAll inv_init _
  have hc := clauses_of_inv hinv
  unfold countersBound at hc
  simp only [Bool.and_eq_true, List.all_eq_true, decide_eq_true_eq] at hc
  obtain ⟨⟨⟨⟨⟨h1, h2⟩, h3⟩, h4⟩, h5⟩, h6⟩ := hc.1
  simp only [idKinds, List.mem_cons, List.mem_nil_iff, or_false] at hk
  rcases hk with rfl | rfl | rfl | rfl | rfl | rfl <;> intro id hid <;> simp only [IdKind.below, kSG, kShard, kIG, kIndex, kMst, kNode] at *
  · simpa using h1 id hid
  · simpa using h2 id hid
  · simpa using h3 id hid
  · simpa using h4 id hid
  · simpa using h5 id hid
  · simpa using h6 id hid

theorem kind_fresh (k : IdKind) (hk : k ∈ idKinds) (d : Data) (c : Cmd) :
    ∀ id ∈ k.ids (apply d c).1, id ∈ k.ids d ∨ k.fresh id (k.counter d) := by
  have h := ids_never_reused d c
  simp only [idKinds, List.mem_cons, List.mem_nil_iff, or_false] at hk
  rcases hk with rfl | rfl | rfl | rfl | rfl | rfl <;> intro id hid <;> simp only [IdKind.fresh, kSG, kShard, kIG, kIndex, kMst, kNode] at *
  · simpa using h.1 id hid
  · simpa using h.2.1 id hid
  · simpa using h.2.2.1 id hid
  · simpa using h.2.2.2.1 id hid
  · simpa using h.2.2.2.2.1 id hid
  · simpa using h.2.2.2.2.2 id hid

theorem kind_counter_mono (k : IdKind) (hk : k ∈ idKinds) (log : List Cmd) (a b : Nat) (hab : a ≤ b) (hb : b ≤ log.length) :
    k.counter (stateAt log a) ≤ k.counter (stateAt log b) := by
  have h := ctr_le_stateAt log a b hab hb
  unfold Ctr.le ctr at h
  simp only [idKinds, List.mem_cons, List.mem_nil_iff, or_false] at hk
  rcases hk with rfl | rfl | rfl | rfl | rfl | rfl <;> simp only [kSG, kShard, kIG, kIndex, kMst, kNode]
  · exact h.1
  · exact h.2.1
  · exact h.2.2.1
  · exact h.2.2.2.1
  · exact h.2.2.2.2.1
  · exact h.2.2.2.2.2

/-- **T9** shard-group, shard, index-group, index, measurement and data-node ids are handed out
in strictly increasing order over every command log: an id that appears as new at step `j` is
larger than any id of its kind that appeared as new at an earlier step `i` — whether or not the
earlier holder still exists. In particular no id is ever handed out twice. -/
theorem ids_strictly_increasing (k : IdKind) (hk : k ∈ idKinds) (log : List Cmd) (i j : Nat) (hij : i < j) (hj : j < log.length)
    (id₁ id₂ : Nat)
    (h1 : id₁ ∈ k.ids (stateAt log (i + 1)) ∧ id₁ ∉ k.ids (stateAt log i))
    (h2 : id₂ ∈ k.ids (stateAt log (j + 1)) ∧ id₂ ∉ k.ids (stateAt log j)) : id₁ < id₂ := by
  have hb := kind_bounded k hk log (i + 1) id₁ h1.1
  have hm := kind_counter_mono k hk log (i + 1) j (by omega) (by omega)
  have hf := kind_fresh k hk (stateAt log j) log[j] id₂
  rw [← stateAt_succ log j hj] at hf
  rcases hf h2.1 with h | h
  · exact absurd h h2.2
  · unfold IdKind.below at hb
    unfold IdKind.fresh at h
    split at hb <;> simp_all <;> omega

theorem ids_never_reissued (k : IdKind) (hk : k ∈ idKinds) (log : List Cmd) (i j : Nat) (hij : i < j) (hj : j < log.length) (id : Nat)
    (h1 : id ∈ k.ids (stateAt log (i + 1)) ∧ id ∉ k.ids (stateAt log i))
    (h2 : id ∈ k.ids (stateAt log (j + 1)) ∧ id ∉ k.ids (stateAt log j)) : False :=
  Nat.lt_irrefl _ (ids_strictly_increasing k hk log i j hij hj id id h1 h2)

/-- non-vacuity: the life-cycle log hands out measurement ids 0, 1, 2 at steps 3, 6, 9 -/
example : (0 ∈ kMst.ids (stateAt lifeCycleLog 4) ∧ 0 ∉ kMst.ids (stateAt lifeCycleLog 3)) ∧
    (1 ∈ kMst.ids (stateAt lifeCycleLog 7) ∧ 1 ∉ kMst.ids (stateAt lifeCycleLog 6)) := by decide +kernel

end OG.C16
