/-
C05 — invariant about the rows a node holds: the data files answer like the entries 1 … gF, files
plus the table being flushed like 1 … gI, everything the node holds like 1 … applied; the raft
snapshot index never passes what is in the files. Hence the start-up replay (from the snapshot
index through the commit index) restores exactly the committed prefix, and a node that has applied
the whole committed log answers every key with its latest committed write.
Hypotheses on the steps (`DataOK`): one shard per partition and no failing apply — the model without
them is the code with its two known findings (see `Props.lean` for the witnesses).
-/
import OG.C05.InvLog
import OG.C05.Look

namespace OG.C05
open OG.Gen.C05

structure NodeUp (s : State) (x : Node) : Prop where
  ap : x.applied ≤ x.pub
  ph : x.pub ≤ x.hsCommit
  sca : x.sc ≤ x.applied
  gFa : x.gF ≤ x.applied
  dataLe : ∀ i ∈ x.data, i ≤ x.applied
  dataEq : Equiv s.clog x.data (idxRange 1 (x.applied + 1))
  /-- no flush is running, or one of shard 0 whose table together with the files answers like 1 … gI;
  if it will signal the raft snapshot, the committed index is frozen at or below gI -/
  flush : x.imm = [] ∨ ∃ sig t, x.imm = [(0, sig, t)] ∧ x.gF ≤ x.gI ∧ x.gI ≤ x.applied ∧ (∀ i ∈ t, i ≤ x.gI) ∧
    Equiv s.clog (x.files ++ t) (idxRange 1 (x.gI + 1)) ∧ (sig = true → x.flag = false ∧ x.sc ≤ x.gI)

structure NodeData (s : State) (x : Node) : Prop where
  snapF : x.snapIdx ≤ x.gF
  gFc : x.gF ≤ x.hsCommit
  filesLe : ∀ i ∈ x.files, i ≤ x.gF
  filesEq : Equiv s.clog x.files (idxRange 1 (x.gF + 1))
  up : x.up = true → NodeUp s x

structure DataInv (s : State) : Prop where
  node : ∀ (n : Nat) (x : Node), s.nodes[n]? = some x → NodeData s x
  shard0 : ∀ e ∈ allEnts s, ∀ k v sh, e.cmd = .write k v sh → sh = 0

def DataOK (_ : State) : Op → Bool
  | .propose _ (.write _ _ sh) _ => sh == 0
  | .coordWrite (.write _ _ sh) _ => sh == 0
  | .apply _ fail _ => !fail
  | .flushBegin _ sh => sh == 0
  | .flushEnd _ sh => sh == 0
  | _ => true

variable {s s' : State}

/-- one node changes, the entries stay -/
theorem DataInv.update (h : DataInv s) {n : Nat} {x y : Node} (hx : s.nodes[n]? = some x)
    (hy : NodeData s y) : DataInv (setNode s n y) := by
  have hlt : n < s.nodes.length := by
    rcases List.getElem?_eq_some_iff.mp hx with ⟨hl, _⟩; exact hl
  refine ⟨?_, h.shard0⟩
  intro m z hz
  rw [getElem?_setNode] at hz
  split at hz
  · simp only [hlt, if_true, Option.some.injEq] at hz
    subst hz
    exact ⟨hy.snapF, hy.gFc, hy.filesLe, hy.filesEq, fun hu => by
      have := hy.up hu
      exact ⟨this.ap, this.ph, this.sca, this.gFa, this.dataLe, this.dataEq, this.flush⟩⟩
  · have := h.node m z hz
    exact ⟨this.snapF, this.gFc, this.filesLe, this.filesEq, fun hu => by
      have := this.up hu
      exact ⟨this.ap, this.ph, this.sca, this.gFa, this.dataLe, this.dataEq, this.flush⟩⟩

/-- only nodes, committed log and the shards of the proposals matter -/
theorem DataInv.frame (h : DataInv s) (hn : s'.nodes = s.nodes) (hc : s'.clog = s.clog)
    (hi : ∀ e ∈ s'.inflight, e ∈ s.inflight ∨ ∀ k v sh, e.cmd = .write k v sh → sh = 0) : DataInv s' := by
  refine ⟨?_, ?_⟩
  · intro m z hz
    rw [hn] at hz
    have := h.node m z hz
    exact ⟨this.snapF, this.gFc, this.filesLe, by rw [hc]; exact this.filesEq, fun hu => by
      have := this.up hu
      exact ⟨this.ap, this.ph, this.sca, this.gFa, this.dataLe, by rw [hc]; exact this.dataEq, by
        rcases this.flush with h1 | ⟨sig, t, h1, h2, h3, h4, h5, h6⟩
        · exact Or.inl h1
        · exact Or.inr ⟨sig, t, h1, h2, h3, h4, by rw [hc]; exact h5, h6⟩⟩⟩
  · intro e he k v sh hcmd
    simp only [allEnts, hc, List.mem_append] at he
    rcases he with he | he
    · exact h.shard0 e (by simp [allEnts, he]) k v sh hcmd
    · rcases hi e he with h1 | h1
      · exact h.shard0 e (by simp [allEnts, h1]) k v sh hcmd
      · exact h1 k v sh hcmd

theorem dataInv_propose {p : Nat} {c : Cmd} {size : Nat} (h : DataInv s)
    (hok : DataOK s (.propose p c size) = true) (hs : doPropose s p c size = some s') : DataInv s' := by
  unfold doPropose at hs
  split at hs
  · rename_i x hx
    split at hs
    · split at hs
      · cases hs
        rename_i k v sh
        have hd := h.node p x hx
        have h1 : DataInv (setNode s p { x with pending := x.pending ++ [(x.nextSeq + 1, s.nextUid)], nextSeq := x.nextSeq + 1 }) :=
          h.update hx ⟨hd.snapF, hd.gFc, hd.filesLe, hd.filesEq, fun hu => by
            have := hd.up hu
            exact ⟨this.ap, this.ph, this.sca, this.gFa, this.dataLe, this.dataEq, this.flush⟩⟩
        refine h1.frame rfl rfl ?_
        intro e he
        simp only [setNode_inflight, List.mem_append, List.mem_singleton] at he
        rcases he with he | he
        · exact Or.inl he
        · right
          subst he
          intro k' v' sh' hc
          simp only [Cmd.write.injEq] at hc
          simp only [DataOK, beq_iff_eq] at hok
          omega
      all_goals cases hs
    · cases hs
  · cases hs

/-- a node changes in fields the data invariant does not mention -/
theorem DataInv.updateSame (h : DataInv s) {n : Nat} {x y : Node} (hx : s.nodes[n]? = some x)
    (e1 : y.snapIdx = x.snapIdx) (e2 : y.gF = x.gF) (e3 : y.hsCommit = x.hsCommit) (e4 : y.files = x.files)
    (e5 : y.up = x.up) (e6 : y.applied = x.applied) (e7 : y.pub = x.pub) (e8 : y.sc = x.sc) (e9 : y.gI = x.gI)
    (e10 : y.imm = x.imm) (e11 : y.mem = x.mem) (e12 : y.flag = x.flag) : DataInv (setNode s n y) := by
  have hd := h.node n x hx
  have edata : y.data = x.data := by simp [Node.data, Node.immIdx, e4, e10, e11]
  refine h.update hx ⟨by rw [e1, e2]; exact hd.snapF, by rw [e2, e3]; exact hd.gFc, by rw [e4, e2]; exact hd.filesLe,
    by rw [e4, e2]; exact hd.filesEq, fun hu => ?_⟩
  have := hd.up (by rw [← e5]; exact hu)
  exact ⟨by rw [e6, e7]; exact this.ap, by rw [e7, e3]; exact this.ph, by rw [e8, e6]; exact this.sca,
    by rw [e2, e6]; exact this.gFa, by rw [edata, e6]; exact this.dataLe, by rw [edata, e6]; exact this.dataEq,
    by rw [e10, e2, e9, e6, e4, e12, e8]; exact this.flush⟩

theorem dataInv_giveUp {p q : Nat} (h : DataInv s) (hs : doGiveUp s p q = some s') : DataInv s' := by
  unfold doGiveUp at hs
  split at hs
  · cases hs; rename_i x hx
    exact h.updateSame hx rfl rfl rfl rfl rfl rfl rfl rfl rfl rfl rfl rfl
  · cases hs

theorem dataInv_truncBySize {n : Nat} (h : DataInv s) (hs : doTruncBySize s n = some s') : DataInv s' := by
  unfold doTruncBySize at hs
  split at hs
  · split at hs
    · cases hs; rename_i x hx _
      exact h.updateSame hx rfl rfl rfl rfl rfl rfl rfl rfl rfl rfl rfl rfl
    · cases hs
  · cases hs

theorem dataInv_publish {n : Nat} (h : DataInv s) (hs : doPublish s n = some s') : DataInv s' := by
  unfold doPublish at hs
  split at hs
  · rename_i x hx
    split at hs
    · cases hs
      have hd := h.node n x hx
      refine h.update hx ⟨hd.snapF, hd.gFc, hd.filesLe, hd.filesEq, fun hu => ?_⟩
      have := hd.up hu
      exact ⟨Nat.le_trans this.ap this.ph, Nat.le_refl _, this.sca, this.gFa, this.dataLe, this.dataEq, this.flush⟩
    · cases hs
  · cases hs

theorem dataInv_kill {n : Nat} (h : DataInv s) (hs : doKill s n = some s') : DataInv s' := by
  unfold doKill at hs
  split at hs
  · split at hs
    · cases hs
      rename_i x hx _
      have h2 : DataInv (if s.leader = some n then { s with leader := none } else s) := by
        split
        · exact h.frame rfl rfl (fun e he => Or.inl he)
        · exact h
      have hd := h.node n x hx
      refine h2.update (x := x) (by split <;> exact hx) ⟨hd.snapF, hd.gFc, hd.filesLe, ?_, fun hu => by simp [killNode] at hu⟩
      have := hd.filesEq
      split <;> exact this
    · cases hs
  · cases hs

theorem dataInv_meta (h : DataInv s) (hn : s'.nodes = s.nodes) (hc : s'.clog = s.clog)
    (hi : s'.inflight = s.inflight) : DataInv s' :=
  h.frame hn hc (fun e he => Or.inl (by rw [← hi]; exact he))

theorem dataInv_metaDown {n : Nat} (h : DataInv s) (hs : doMetaDown s n = some s') : DataInv s' := by
  unfold doMetaDown at hs
  split at hs
  · cases hs; exact dataInv_meta h rfl rfl rfl
  · cases hs

theorem dataInv_metaUp {n : Nat} (h : DataInv s) (hs : doMetaUp s n = some s') : DataInv s' := by
  unfold doMetaUp at hs
  split at hs
  · cases hs; exact dataInv_meta h rfl rfl rfl
  · cases hs

theorem dataInv_elect (h : DataInv s) (hs : doElect s = some s') : DataInv s' := by
  unfold doElect at hs
  split at hs
  · cases hs
  · split at hs
    · cases hs; exact dataInv_meta h rfl rfl rfl
    · cases hs

theorem dataInv_setMaster {m : Nat} (h : DataInv s) (hs : doSetMaster s m = some s') : DataInv s' := by
  unfold doSetMaster at hs
  split at hs
  · cases hs; exact dataInv_meta h rfl rfl rfl
  · cases hs

theorem dataInv_raftLead {l : Nat} (h : DataInv s) (hs : doRaftLead s l = some s') : DataInv s' := by
  unfold doRaftLead at hs
  split at hs
  · simp only [] at hs
    split at hs
    · cases hs
      refine h.frame rfl rfl ?_
      intro e he
      simp only [List.mem_append, List.mem_singleton] at he
      rcases he with he | he
      · exact Or.inl he
      · right; subst he; intro k v sh hc; cases hc
    · cases hs
  · cases hs

theorem dataInv_truncPropose {f : Bool} {ms : List (Nat × Nat)} (h : DataInv s)
    (hs : doTruncPropose s f ms = some s') : DataInv s' := by
  unfold doTruncPropose at hs
  split at hs
  · split at hs
    · split at hs
      · cases hs
        refine h.frame rfl rfl ?_
        intro e he
        simp only [List.mem_append, List.mem_singleton] at he
        rcases he with he | he
        · exact Or.inl he
        · right; subst he; intro k v sh hc; cases hc
      · cases hs
    · cases hs
  · cases hs

theorem dataInv_sync {n : Nat} (hL : LogInv s) (h : DataInv s) (hs : doSync s n = some s') : DataInv s' := by
  unfold doSync at hs
  split at hs
  · rename_i l hl
    split at hs
    · rename_i lx x hlx hx
      split at hs
      · split at hs
        · cases hs
          have hd := h.node n x hx
          have hn := hL.node n x hx
          have hc : x.hsCommit ≤ s.clog.length := Nat.le_trans hn.hsL hn.lastC
          refine h.update hx ⟨hd.snapF, ?_, hd.filesLe, hd.filesEq, fun hu => ?_⟩
          · simp only [syncNode]; exact Nat.le_trans hd.gFc hc
          · have := hd.up hu
            exact ⟨this.ap, by simp only [syncNode]; exact Nat.le_trans this.ph hc, this.sca, this.gFa, this.dataLe,
              this.dataEq, this.flush⟩
        · rename_i hnot
          exact absurd (hL.avail l n lx x hlx hx) (by omega)
      · cases hs
    · cases hs
  · cases hs

/-! ### apply -/

theorem equiv_snoc {clog : List Ent} {A : List Nat} {i : Nat} (h : Equiv clog A (idxRange 1 i)) (hi : 1 ≤ i) :
    Equiv clog (A ++ [i]) (idxRange 1 (i + 1)) := by
  rw [idxRange_succ hi]
  exact h.append (Equiv.refl _ _)

theorem equiv_snoc_nonwrite {clog : List Ent} {A : List Nat} {i : Nat} (h : Equiv clog A (idxRange 1 i)) (hi : 1 ≤ i)
    (hw : isWrite clog i = false) : Equiv clog A (idxRange 1 (i + 1)) := by
  intro k
  rw [idxRange_succ hi, look_append, look_singleton, writesKey_of_not_isWrite hw]
  exact h k

theorem bumpSc_data (x : Node) (i : Nat) (u : Bool) :
    (bumpSc x i u).snapIdx = x.snapIdx ∧ (bumpSc x i u).gF = x.gF ∧ (bumpSc x i u).hsCommit = x.hsCommit ∧
    (bumpSc x i u).files = x.files ∧ (bumpSc x i u).up = x.up ∧ (bumpSc x i u).applied = x.applied ∧
    (bumpSc x i u).pub = x.pub ∧ (bumpSc x i u).gI = x.gI ∧ (bumpSc x i u).imm = x.imm ∧
    (bumpSc x i u).mem = x.mem ∧ (bumpSc x i u).flag = x.flag ∧
    ((bumpSc x i u).sc = x.sc ∨ (x.flag = true ∧ (bumpSc x i u).sc = i)) := by
  unfold bumpSc
  split
  · rename_i hc
    simp only [Bool.and_eq_true] at hc
    simp [hc.1.2]
  · simp

theorem applyEnt_data (b : List Nat) (x : Node) (e : Ent) (n i : Nat) :
    (applyEnt b x e n i false).node.snapIdx = x.snapIdx ∧ (applyEnt b x e n i false).node.gF = x.gF ∧
    (applyEnt b x e n i false).node.hsCommit = x.hsCommit ∧ (applyEnt b x e n i false).node.files = x.files ∧
    (applyEnt b x e n i false).node.up = x.up ∧ (applyEnt b x e n i false).node.applied = x.applied ∧
    (applyEnt b x e n i false).node.pub = x.pub ∧ (applyEnt b x e n i false).node.gI = x.gI ∧
    (applyEnt b x e n i false).node.imm = x.imm ∧ (applyEnt b x e n i false).node.flag = x.flag ∧
    (applyEnt b x e n i false).node.sc = x.sc ∧
    (((∃ k v sh, e.cmd = .write k v sh) ∧ (applyEnt b x e n i false).node.mem = x.mem ++ [i]) ∨
     ((∀ k v sh, e.cmd ≠ .write k v sh) ∧ (applyEnt b x e n i false).node.mem = x.mem)) := by
  cases hcmd : e.cmd with
  | write k v sh => simp [applyEnt, hcmd]
  | clear c => simp [applyEnt, hcmd]
  | noop => simp [applyEnt, hcmd]

theorem dataInv_apply {n : Nat} {f u : Bool} (h : DataInv s) (hok : DataOK s (.apply n f u) = true)
    (hs : doApply s n f u = some s') : DataInv s' := by
  simp only [DataOK, Bool.not_eq_true'] at hok
  subst hok
  unfold doApply at hs
  split at hs
  · rename_i x hx
    split at hs
    · rename_i hcond
      split at hs
      · rename_i e he
        simp only [] at hs
        cases hs
        simp only [Bool.and_eq_true, decide_eq_true_eq] at hcond
        obtain ⟨hup, hlt⟩ := hcond
        have hd := h.node n x hx
        have hu := hd.up hup
        generalize hy : (applyEnt s.bounds { x with applied := x.applied + 1 } e n (x.applied + 1) false).node = y
        obtain ⟨a1, a2, a3, a4, a5, a6, a7, a8, a9, a11, a12, a10⟩ :=
          applyEnt_data s.bounds { x with applied := x.applied + 1 } e n (x.applied + 1)
        rw [hy] at a1 a2 a3 a4 a5 a6 a7 a8 a9 a10 a11 a12
        simp only at a1 a2 a3 a4 a5 a6 a7 a8 a9 a10 a11 a12
        obtain ⟨b1, b2, b3, b4, b5, b6, b7, b8, b9, b10, b11, b12⟩ := bumpSc_data y (x.applied + 1) u
        have hnode : NodeData s (bumpSc y (x.applied + 1) u) := by
          refine ⟨by rw [b1, b2, a1, a2]; exact hd.snapF, by rw [b2, b3, a2, a3]; exact hd.gFc,
            by rw [b4, b2, a4, a2]; exact hd.filesLe, by rw [b4, b2, a4, a2]; exact hd.filesEq, fun _ => ?_⟩
          have hsc : (bumpSc y (x.applied + 1) u).sc ≤ x.applied + 1 := by
            rcases b12 with b12 | ⟨_, b12⟩ <;> rw [b12]
            · rw [a12]; have := hu.sca; omega
            · exact Nat.le_refl _
          have hfl : (bumpSc y (x.applied + 1) u).imm = [] ∨ ∃ sig t, (bumpSc y (x.applied + 1) u).imm = [(0, sig, t)] ∧
              (bumpSc y (x.applied + 1) u).gF ≤ (bumpSc y (x.applied + 1) u).gI ∧
              (bumpSc y (x.applied + 1) u).gI ≤ (bumpSc y (x.applied + 1) u).applied ∧
              (∀ i ∈ t, i ≤ (bumpSc y (x.applied + 1) u).gI) ∧
              Equiv s.clog ((bumpSc y (x.applied + 1) u).files ++ t) (idxRange 1 ((bumpSc y (x.applied + 1) u).gI + 1)) ∧
              (sig = true → (bumpSc y (x.applied + 1) u).flag = false ∧ (bumpSc y (x.applied + 1) u).sc ≤ (bumpSc y (x.applied + 1) u).gI) := by
            rw [b9, b2, b8, b6, b4, b11, a9, a2, a8, a6, a4, a11]
            rcases hu.flush with h1 | ⟨sig, t, h1, h2, h3, h4, h5, h6⟩
            · exact Or.inl h1
            · refine Or.inr ⟨sig, t, h1, h2, by omega, h4, h5, fun hsig => ?_⟩
              have := h6 hsig
              refine ⟨this.1, ?_⟩
              rcases b12 with b12 | ⟨hflag, _⟩
              · rw [b12, a12]; exact this.2
              · rw [a11, this.1] at hflag; cases hflag
          rcases a10 with ⟨⟨k, v, sh, hcmd⟩, a10⟩ | ⟨hnw, a10⟩
          · have edata : (bumpSc y (x.applied + 1) u).data = x.data ++ [x.applied + 1] := by
              simp only [Node.data, Node.immIdx, b4, b9, b10, a4, a9, a10, List.append_assoc]
            refine ⟨by rw [b6, b7, a6, a7]; exact hlt, by rw [b7, b3, a7, a3]; exact hu.ph, by rw [b6, a6]; exact hsc,
              by rw [b2, b6, a2, a6]; have := hu.gFa; omega, ?_, ?_, hfl⟩
            · rw [edata, b6, a6]
              intro i hi
              rcases List.mem_append.mp hi with hi | hi
              · have := hu.dataLe i hi; omega
              · simp only [List.mem_singleton] at hi; omega
            · rw [edata, b6, a6]
              exact equiv_snoc hu.dataEq (by omega)
          · have hw : isWrite s.clog (x.applied + 1) = false := by
              cases hcmd : e.cmd with
              | write k v sh => exact absurd hcmd (hnw k v sh)
              | clear c => simp [isWrite, he, hcmd]
              | noop => simp [isWrite, he, hcmd]
            have edata : (bumpSc y (x.applied + 1) u).data = x.data := by
              simp only [Node.data, Node.immIdx, b4, b9, b10, a4, a9, a10]
            refine ⟨by rw [b6, b7, a6, a7]; exact hlt, by rw [b7, b3, a7, a3]; exact hu.ph, by rw [b6, a6]; exact hsc,
              by rw [b2, b6, a2, a6]; have := hu.gFa; omega, ?_, ?_, hfl⟩
            · rw [edata, b6, a6]
              intro i hi
              have := hu.dataLe i hi; omega
            · rw [edata, b6, a6]
              exact equiv_snoc_nonwrite hu.dataEq (by omega) hw
        exact (h.update hx hnode).frame rfl rfl (fun e he => Or.inl he)
      · cases hs
    · cases hs
  · cases hs

/-! ### flush -/

theorem shardOf_zero (h : DataInv s) (i : Nat) : shardOf s.clog i = 0 := by
  unfold shardOf
  cases he : entAt s.clog i with
  | none => rfl
  | some e =>
    simp only
    cases hc : e.cmd with
    | write k v sh => exact h.shard0 e (by simp [allEnts, mem_of_entAt he]) k v sh hc
    | clear c => rfl
    | noop => rfl

theorem dataInv_flushBegin {n sh : Nat} (h : DataInv s) (hok : DataOK s (.flushBegin n sh) = true)
    (hs : doFlushBegin s n sh = some s') : DataInv s' := by
  simp only [DataOK, beq_iff_eq] at hok
  subst hok
  unfold doFlushBegin at hs
  split at hs
  · rename_i x hx
    split at hs
    · rename_i hcond
      cases hs
      simp only [Bool.and_eq_true, Bool.not_eq_true'] at hcond
      obtain ⟨hup, hany⟩ := hcond
      have hd := h.node n x hx
      have hu := hd.up hup
      -- no flush is running
      have himm : x.imm = [] := by
        rcases hu.flush with h1 | ⟨sig, t, h1, _⟩
        · exact h1
        · rw [h1] at hany; simp at hany
      have hmoved : x.mem.filter (fun i => shardOf s.clog i == 0) = x.mem := by
        apply List.filter_eq_self.mpr
        intro i _
        simp [shardOf_zero h i]
      have hrest : x.mem.filter (fun i => shardOf s.clog i != 0) = [] := by
        apply List.filter_eq_nil_iff.mpr
        intro i _
        simp [shardOf_zero h i]
      have hdata : x.data = x.files ++ x.mem := by simp [Node.data, Node.immIdx, himm]
      refine h.update hx ?_
      unfold flushBeginNode
      simp only [snapSignalAfterCommit, Bool.not_true, Bool.and_false, Bool.false_eq_true, if_false, hmoved, hrest, himm,
        List.nil_append]
      cases hsn : x.hasSnp.contains 0
      · simp only [Bool.false_eq_true, if_false]
        refine ⟨hd.snapF, hd.gFc, hd.filesLe, hd.filesEq, fun _ => ⟨hu.ap, hu.ph, hu.sca, hu.gFa, ?_, ?_, ?_⟩⟩
        · simp only [Node.data, Node.immIdx, List.flatMap_cons, List.flatMap_nil, List.append_nil]
          rw [← hdata]; exact hu.dataLe
        · simp only [Node.data, Node.immIdx, List.flatMap_cons, List.flatMap_nil, List.append_nil]
          rw [← hdata]; exact hu.dataEq
        · refine Or.inr ⟨false, x.mem, rfl, hu.gFa, Nat.le_refl _, ?_, ?_, fun hf => by cases hf⟩
          · intro i hi; exact hu.dataLe i (by rw [hdata]; exact List.mem_append_right _ hi)
          · rw [← hdata]; exact hu.dataEq
      · simp only [if_true]
        refine ⟨hd.snapF, hd.gFc, hd.filesLe, hd.filesEq, fun _ => ⟨hu.ap, hu.ph, hu.sca, hu.gFa, ?_, ?_, ?_⟩⟩
        · simp only [Node.data, Node.immIdx, List.flatMap_cons, List.flatMap_nil, List.append_nil]
          rw [← hdata]; exact hu.dataLe
        · simp only [Node.data, Node.immIdx, List.flatMap_cons, List.flatMap_nil, List.append_nil]
          rw [← hdata]; exact hu.dataEq
        · refine Or.inr ⟨true, x.mem, rfl, hu.gFa, Nat.le_refl _, ?_, ?_, fun _ => ⟨rfl, hu.sca⟩⟩
          · intro i hi; exact hu.dataLe i (by rw [hdata]; exact List.mem_append_right _ hi)
          · rw [← hdata]; exact hu.dataEq
    · cases hs
  · cases hs

theorem dataInv_flushEnd {n sh : Nat} (h : DataInv s) (hok : DataOK s (.flushEnd n sh) = true)
    (hs : doFlushEnd s n sh = some s') : DataInv s' := by
  simp only [DataOK, beq_iff_eq] at hok
  subst hok
  unfold doFlushEnd at hs
  split at hs
  · rename_i x hx
    split at hs
    · rename_i t0 hfind
      split at hs
      · rename_i hup
        cases hs
        have hd := h.node n x hx
        have hu := hd.up hup
        rcases hu.flush with h1 | ⟨sig, t, h1, h2, h3, h4, h5, h6⟩
        · rw [h1] at hfind; simp at hfind
        · rw [h1] at hfind
          simp only [List.find?_cons, beq_self_eq_true, Option.some.injEq] at hfind
          subst hfind
          have hdata : x.data = x.files ++ t ++ x.mem := by simp [Node.data, Node.immIdx, h1]
          have hfilt : x.imm.filter (fun p => p.1 != 0) = [] := by rw [h1]; simp
          refine h.update hx ?_
          unfold flushEndNode
          simp only [snpCapturedOnce, snapSignalAfterCommit, if_true, Bool.and_true, hfilt]
          cases sig
          · simp only [Bool.false_eq_true, if_false]
            refine ⟨by have := hd.snapF; (try dsimp only); omega, by have := hu.ap; have := hu.ph; (try dsimp only); omega, ?_, h5,
              fun _ => ⟨hu.ap, hu.ph, hu.sca, h3, ?_, ?_, Or.inl rfl⟩⟩
            · intro i hi
              rcases List.mem_append.mp hi with hi | hi
              · have := hd.filesLe i hi; (try dsimp only); omega
              · exact h4 i hi
            · simp only [Node.data, Node.immIdx, List.flatMap_nil, List.append_nil]
              rw [← hdata]; exact hu.dataLe
            · simp only [Node.data, Node.immIdx, List.flatMap_nil, List.append_nil]
              rw [← hdata]; exact hu.dataEq
          · simp only [if_true]
            have h6' := h6 rfl
            refine ⟨?_, by have := hu.ap; have := hu.ph; (try dsimp only); omega, ?_, h5,
              fun _ => ⟨hu.ap, hu.ph, hu.sca, h3, ?_, ?_, Or.inl rfl⟩⟩
            · rcases snapTo_cases { x with files := x.files ++ t, imm := [], gF := x.gI } x.sc with hsn | ⟨hsn, _, _⟩
              · simp only [hsn]; have := hd.snapF; (try dsimp only); omega
              · simp only [hsn]; exact h6'.2
            · intro i hi
              rcases List.mem_append.mp hi with hi | hi
              · have := hd.filesLe i hi; (try dsimp only); omega
              · exact h4 i hi
            · simp only [Node.data, Node.immIdx, List.flatMap_nil, List.append_nil]
              rw [← hdata]; exact hu.dataLe
            · simp only [Node.data, Node.immIdx, List.flatMap_nil, List.append_nil]
              rw [← hdata]; exact hu.dataEq
      · cases hs
    · cases hs
  · cases hs

/-! ### restart -/

theorem replayRange_eq (snap commit : Nat) :
    replayRange snap commit = (if snap = 0 then 1 else snap, commit + 1) := by
  unfold replayRange
  by_cases h : snap = 0 <;> simp [h]

theorem inHole_nil (i : Nat) : inHole [] i = false := by simp [inHole]

theorem dataInv_restart {n : Nat} (hL : LogInv s) (hL' : LogInv s') (h : DataInv s)
    (hs : doRestart s n = some s') : DataInv s' := by
  unfold doRestart at hs
  split at hs
  · rename_i x hx
    split at hs
    · cases hs
      have hlt : n < s.nodes.length := by
        rcases List.getElem?_eq_some_iff.mp hx with ⟨hl, _⟩; exact hl
      have hd := h.node n x hx
      have hn := hL.node n x hx
      -- what the log invariant says about the restarted node
      have hn' := hL'.node n (restartNode s.clog s.bounds x) (by rw [getElem?_setNode]; simp [hlt])
      obtain ⟨r1, r2, r3, r4, r5⟩ := restartNode_log s.clog s.bounds x
      have hfirst : (restartNode s.clog s.bounds x).first ≤ (if x.snapIdx = 0 then 1 else x.snapIdx) := by
        have := hn'.replayable
        have := hn'.first1
        rw [r4] at *
        split <;> omega
      have hlo : 1 ≤ (if x.snapIdx = 0 then 1 else x.snapIdx) := by split <;> omega
      have hlo2 : (if x.snapIdx = 0 then 1 else x.snapIdx) ≤ x.gF + 1 := by have := hd.snapF; split <;> omega
      -- the replay reads the whole range
      have hmem : (restartNode s.clog s.bounds x).mem =
          (idxRange (if x.snapIdx = 0 then 1 else x.snapIdx) (x.hsCommit + 1)).filter (fun i => isWrite s.clog i) := by
        have hcond : ((if x.snapIdx = 0 then 1 else x.snapIdx) < (restartNode s.clog s.bounds x).first ||
            x.hsCommit + 1 > x.last + 1) = false := by
          have := hn.hsL
          simp only [Bool.or_eq_false_iff, decide_eq_false_iff_not]
          exact ⟨by omega, by omega⟩
        rw [r1] at hcond
        simp only [restartNode, replayRange_eq, hn.noHoles, inHole_nil, Bool.not_false, Bool.and_true, hcond,
          Bool.false_eq_true, if_false]
      have hfiles : (restartNode s.clog s.bounds x).files = x.files := by simp [restartNode]
      have himm : (restartNode s.clog s.bounds x).imm = [] := by simp [restartNode]
      have hdata : (restartNode s.clog s.bounds x).data = x.files ++
          (idxRange (if x.snapIdx = 0 then 1 else x.snapIdx) (x.hsCommit + 1)).filter (fun i => isWrite s.clog i) := by
        simp only [Node.data, Node.immIdx, hfiles, himm, hmem, List.flatMap_nil, List.append_nil]
      refine h.update hx ⟨by simp [restartNode]; exact hd.snapF, by simp [restartNode]; exact hd.gFc,
        by rw [hfiles]; simp [restartNode]; exact hd.filesLe, by rw [hfiles]; simp [restartNode]; exact hd.filesEq, fun _ => ?_⟩
      refine ⟨by simp [restartNode], by simp [restartNode], ?_, by simp [restartNode]; exact hd.gFc, ?_, ?_, Or.inl himm⟩
      · simp only [restartNode]; have := hd.snapF; have := hd.gFc; omega
      · rw [hdata]
        intro i hi
        have happ : (restartNode s.clog s.bounds x).applied = x.hsCommit := by simp [restartNode]
        rw [happ]
        rcases List.mem_append.mp hi with hi | hi
        · have := hd.filesLe i hi; have := hd.gFc; omega
        · have := (mem_idxRange.mp (List.mem_filter.mp hi).1).2; omega
      · have happ : (restartNode s.clog s.bounds x).applied = x.hsCommit := by simp [restartNode]
        rw [hdata, happ]
        intro k
        rw [look_append, look_filter_isWrite, ← look_append]
        have h1 : Equiv s.clog (x.files ++ idxRange (if x.snapIdx = 0 then 1 else x.snapIdx) (x.hsCommit + 1))
            (idxRange 1 (x.gF + 1) ++ idxRange (if x.snapIdx = 0 then 1 else x.snapIdx) (x.hsCommit + 1)) :=
          hd.filesEq.append (Equiv.refl _ _)
        exact (h1.trans (equiv_replay s.clog hlo hlo2 hd.gFc)) k
    · cases hs
  · cases hs

/-! ### commit -/

theorem dataInv_commit {j : Nat} {q : List Nat} (hL : LogInv s) (h : DataInv s)
    (hs : doCommit s j q = some s') : DataInv s' := by
  unfold doCommit at hs
  split at hs
  · rename_i l e hl he
    split at hs
    · cases hs
      refine ⟨?_, ?_⟩
      · intro m x' hx'
        simp only [advanceFiles_nodes, commitNodes, List.getElem?_mapIdx] at hx'
        cases hx : s.nodes[m]? with
        | none => simp [hx] at hx'
        | some x =>
          simp only [hx, Option.map_some, Option.some.injEq] at hx'
          have hd := h.node m x hx
          have hn := hL.node m x hx
          have hcl : x.hsCommit ≤ s.clog.length := Nat.le_trans hn.hsL hn.lastC
          -- the node differs from the old one in last / hsCommit only, and hsCommit did not shrink
          have hsame : x'.snapIdx = x.snapIdx ∧ x'.gF = x.gF ∧ x'.files = x.files ∧ x'.up = x.up ∧ x'.applied = x.applied ∧
              x'.pub = x.pub ∧ x'.sc = x.sc ∧ x'.gI = x.gI ∧ x'.imm = x.imm ∧ x'.mem = x.mem ∧ x'.flag = x.flag ∧
              x.hsCommit ≤ x'.hsCommit := by
            subst hx'
            split
            · refine ⟨rfl, rfl, rfl, rfl, rfl, rfl, rfl, rfl, rfl, rfl, rfl, ?_⟩
              simp only
              split <;> omega
            · exact ⟨rfl, rfl, rfl, rfl, rfl, rfl, rfl, rfl, rfl, rfl, rfl, Nat.le_refl _⟩
          obtain ⟨e1, e2, e4, e5, e6, e7, e8, e9, e10, e11, e12, e3⟩ := hsame
          have edata : x'.data = x.data := by simp [Node.data, Node.immIdx, e4, e10, e11]
          have hrange : ∀ a, a ≤ s.clog.length → ∀ i ∈ idxRange 1 (a + 1), i ≤ s.clog.length := by
            intro a ha i hi
            have := (mem_idxRange.mp hi).2; omega
          simp only [advanceFiles_clog]
          refine ⟨by rw [e1, e2]; exact hd.snapF, by rw [e2]; have := hd.gFc; omega, by rw [e4, e2]; exact hd.filesLe, ?_, fun hu => ?_⟩
          · rw [e4, e2]
            exact hd.filesEq.append_log e (fun i hi => by have := hd.filesLe i hi; have := hd.gFc; omega)
              (hrange _ (by have := hd.gFc; omega))
          · have hxu := hd.up (by rw [← e5]; exact hu)
            have hal : x.applied ≤ s.clog.length := by have h1 := hxu.ap; have h2 := hxu.ph; omega
            have := hxu
            refine ⟨by rw [e6, e7]; exact this.ap, by rw [e7]; have := this.ph; omega, by rw [e8, e6]; exact this.sca,
              by rw [e2, e6]; exact this.gFa, by rw [edata, e6]; exact this.dataLe, ?_, ?_⟩
            · rw [edata, e6]
              exact this.dataEq.append_log e (fun i hi => by have := this.dataLe i hi; omega) (hrange _ hal)
            · rw [e10, e2, e9, e6, e4, e12, e8]
              rcases this.flush with h1 | ⟨sig, t, h1, h2, h3, h4, h5, h6⟩
              · exact Or.inl h1
              · refine Or.inr ⟨sig, t, h1, h2, h3, h4, ?_, h6⟩
                refine h5.append_log e ?_ (hrange _ (by omega))
                intro i hi
                rcases List.mem_append.mp hi with hi | hi
                · have := hd.filesLe i hi; have := hd.gFc; omega
                · have := h4 i hi; omega
      · intro e' he' k v sh hc
        refine h.shard0 e' ?_ k v sh hc
        simp only [allEnts, advanceFiles_clog, advanceFiles_inflight, List.mem_append, List.mem_singleton] at he' ⊢
        rcases he' with (h1 | h1) | h1
        · exact Or.inl h1
        · subst h1; exact Or.inr (List.mem_of_getElem? he)
        · exact Or.inr (List.mem_of_mem_eraseIdx h1)
    · cases hs
  · cases hs

theorem dataInv_coordWrite {c : Cmd} {size : Nat} (h : DataInv s) (hok : DataOK s (.coordWrite c size) = true)
    (hs : doCoordWrite s c size = some s') : DataInv s' := by
  unfold doCoordWrite at hs
  split at hs
  · split at hs
    · rename_i s1 hp
      cases hs
      refine dataInv_propose h ?_ hp
      cases c <;> simp_all [DataOK]
    · cases hs; exact h
  · cases hs; exact h

/-- the data invariant holds after every allowed step (given the log invariant before and after) -/
theorem dataInv_step {o : Op} (hL : LogInv s) (hL' : LogInv s') (h : DataInv s) (hok : DataOK s o = true)
    (hs : step s o = some s') : DataInv s' := by
  cases o <;> simp only [step] at hs
  · exact dataInv_propose h hok hs
  · exact dataInv_giveUp h hs
  · exact dataInv_commit hL h hs
  · exact dataInv_sync hL h hs
  · exact dataInv_publish h hs
  · exact dataInv_apply h hok hs
  · exact dataInv_flushBegin h hok hs
  · exact dataInv_flushEnd h hok hs
  · exact dataInv_truncPropose h hs
  · exact dataInv_truncBySize h hs
  · exact dataInv_kill h hs
  · exact dataInv_restart hL hL' h hs
  · simp [doRestartLate, commitLoopAfterReplay] at hs
  · simp [doReplayLate, commitLoopAfterReplay] at hs
  · exact dataInv_raftLead h hs
  · exact dataInv_metaDown h hs
  · exact dataInv_metaUp h hs
  · exact dataInv_elect h hs
  · exact dataInv_setMaster h hs
  · exact dataInv_coordWrite h hok hs

/-- both step hypotheses -/
def AllOK (s : State) (o : Op) : Bool := LogOK s o && DataOK s o

theorem inv_run {os : List Op} (hL : LogInv s) (h : DataInv s) (hok : runOK AllOK s os = true)
    (hs : run s os = some s') : LogInv s' ∧ DataInv s' := by
  induction os generalizing s with
  | nil => simp [run] at hs; subst hs; exact ⟨hL, h⟩
  | cons o os ih =>
    simp only [run] at hs
    simp only [runOK, AllOK, Bool.and_eq_true] at hok
    split at hs
    · rename_i s1 h1
      rw [h1] at hok
      have hL1 := logInv_step hL hok.1.1 h1
      exact ih hL1 (dataInv_step hL hL1 h hok.1.2 h1) hok.2 hs
    · cases hs

end OG.C05
