/-
C05 — invariant about the answers given to writers (for every op sequence, no hypothesis):
a writer is answered by the entry it proposed, never by another one, and `ok` only after its node
applied that entry successfully.
-/
import OG.C05.Model

namespace OG.C05
open OG.Gen.C05

def Ent.isW (e : Ent) : Bool := match e.cmd with | .write .. => true | _ => false

/-- every entry that exists: committed or in flight -/
def allEnts (s : State) : List Ent := s.clog ++ s.inflight

theorem lifeTag_eq (l : Nat) : lifeTag l = l := by
  simp [lifeTag, pidSeededPerLife]

theorem getElem?_setNode (s : State) (n m : Nat) (x : Node) :
    (setNode s n x).nodes[m]? = if n = m then (if n < s.nodes.length then some x else none) else s.nodes[m]? := by
  simp [setNode, List.getElem?_set]

@[simp] theorem setNode_clog (s : State) (n : Nat) (x : Node) : (setNode s n x).clog = s.clog := rfl
@[simp] theorem setNode_inflight (s : State) (n : Nat) (x : Node) : (setNode s n x).inflight = s.inflight := rfl
@[simp] theorem setNode_acked (s : State) (n : Nat) (x : Node) : (setNode s n x).acked = s.acked := rfl
@[simp] theorem setNode_ghost (s : State) (n : Nat) (x : Node) : (setNode s n x).ghostApplied = s.ghostApplied := rfl
@[simp] theorem setNode_bounds (s : State) (n : Nat) (x : Node) : (setNode s n x).bounds = s.bounds := rfl
@[simp] theorem setNode_leader (s : State) (n : Nat) (x : Node) : (setNode s n x).leader = s.leader := rfl
@[simp] theorem setNode_nextUid (s : State) (n : Nat) (x : Node) : (setNode s n x).nextUid = s.nextUid := rfl
@[simp] theorem setNode_alive (s : State) (n : Nat) (x : Node) : (setNode s n x).alive = s.alive := rfl
@[simp] theorem setNode_length (s : State) (n : Nat) (x : Node) : (setNode s n x).nodes.length = s.nodes.length := by
  simp [setNode]

theorem mem_of_entAt {clog : List Ent} {i : Nat} {e : Ent} (h : entAt clog i = some e) : e ∈ clog := by
  unfold entAt at h
  split at h
  · cases h
  · exact List.mem_of_getElem? h

structure AckInv (s : State) : Prop where
  /-- a waiting writer's propose id names its own proposal -/
  pend : ∀ n x, s.nodes[n]? = some x → ∀ p ∈ x.pending, ∀ e ∈ allEnts s,
    e.isW = true → e.prop = n → e.ptag = x.life → e.pseq = p.1 → e.uid = p.2
  /-- propose ids in use are below the node's counter, none belongs to a future life -/
  seqs : ∀ n x, s.nodes[n]? = some x → (∀ p ∈ x.pending, p.1 ≤ x.nextSeq) ∧
    ∀ e ∈ allEnts s, e.isW = true → e.prop = n → e.ptag ≤ x.life ∧ (e.ptag = x.life → e.pseq ≤ x.nextSeq)
  /-- every answer names a committed write; an `ok` one was applied on the proposer -/
  acks : ∀ a ∈ s.acked, ∃ i e, entAt s.clog i = some e ∧ e.isW = true ∧ e.uid = a.1 ∧
    (a.2 = true → (e.prop, i) ∈ s.ghostApplied)

/-- a state change that adds no write entry, keeps the committed ones and the answers, and keeps
every node's life / counter while its waiting writers can only leave, keeps the invariant -/
theorem AckInv.frame' {s s' : State} (h : AckInv s)
    (hsub : ∀ e ∈ allEnts s', e.isW = true → e ∈ allEnts s)
    (hent : ∀ i e, entAt s.clog i = some e → entAt s'.clog i = some e)
    (ha : s'.acked = s.acked)
    (hg : ∀ p ∈ s.ghostApplied, p ∈ s'.ghostApplied)
    (hn : ∀ (n : Nat) (x' : Node), s'.nodes[n]? = some x' → ∃ x : Node, s.nodes[n]? = some x ∧ x'.life = x.life ∧
      (∀ p ∈ x'.pending, p ∈ x.pending) ∧ x'.nextSeq = x.nextSeq) : AckInv s' := by
  refine ⟨?_, ?_, ?_⟩
  · intro n x' hx' p hp e he hw
    obtain ⟨x, hx, hl, hpd, _⟩ := hn n x' hx'
    rw [hl]
    exact h.pend n x hx p (hpd p hp) e (hsub e he hw) hw
  · intro n x' hx'
    obtain ⟨x, hx, hl, hpd, hq⟩ := hn n x' hx'
    rw [hl, hq]
    refine ⟨fun p hp => (h.seqs n x hx).1 p (hpd p hp), fun e he hw => (h.seqs n x hx).2 e (hsub e he hw) hw⟩
  · intro a ha'
    rw [ha] at ha'
    obtain ⟨i, e, hi, hw, hu, hgp⟩ := h.acks a ha'
    exact ⟨i, e, hent i e hi, hw, hu, fun hb => hg _ (hgp hb)⟩

theorem AckInv.frame {s s' : State} (h : AckInv s)
    (hc : s'.clog = s.clog) (hi : s'.inflight = s.inflight) (ha : s'.acked = s.acked)
    (hg : s'.ghostApplied = s.ghostApplied)
    (hn : ∀ (n : Nat) (x' : Node), s'.nodes[n]? = some x' → ∃ x : Node, s.nodes[n]? = some x ∧ x'.life = x.life ∧
      (∀ p ∈ x'.pending, p ∈ x.pending) ∧ x'.nextSeq = x.nextSeq) : AckInv s' := by
  refine h.frame' ?_ ?_ ha ?_ hn
  · intro e he _; simpa [allEnts, hc, hi] using he
  · intro i e hie; rw [hc]; exact hie
  · intro p hp; rw [hg]; exact hp

/-- the same for a change of one node -/
theorem AckInv.frameNode {s : State} (h : AckInv s) {n : Nat} {x y : Node} (hx : s.nodes[n]? = some x)
    (hl : y.life = x.life) (hp : ∀ p ∈ y.pending, p ∈ x.pending) (hq : y.nextSeq = x.nextSeq) :
    AckInv (setNode s n y) := by
  refine h.frame (s' := setNode s n y) rfl rfl rfl rfl ?_
  intro m x' hx'
  rw [getElem?_setNode] at hx'
  split at hx'
  · rename_i hnm
    subst hnm
    split at hx'
    · cases hx'
      exact ⟨x, hx, hl, hp, hq⟩
    · cases hx'
  · exact ⟨x', hx', rfl, fun _ hp => hp, rfl⟩

macro "frame_node" h:ident : tactic =>
  `(tactic| (refine AckInv.frameNode (x := ?x) $h ?hx ?_ ?_ ?_; (case hx => assumption); all_goals first | rfl | (intro _ hp; exact hp)))

variable {s s' : State}

theorem ackInv_sync {n : Nat} (h : AckInv s) (hs : doSync s n = some s') : AckInv s' := by
  unfold doSync at hs
  split at hs
  · split at hs
    · split at hs
      · split at hs
        · cases hs; frame_node h
        · cases hs; frame_node h
      · cases hs
    · cases hs
  · cases hs

theorem ackInv_publish {n : Nat} (h : AckInv s) (hs : doPublish s n = some s') : AckInv s' := by
  unfold doPublish at hs
  split at hs
  · split at hs
    · cases hs; frame_node h
    · cases hs
  · cases hs

theorem flushBeginNode_fields (clog : List Ent) (x : Node) (sh : Nat) :
    (flushBeginNode clog x sh).life = x.life ∧ (flushBeginNode clog x sh).pending = x.pending ∧
    (flushBeginNode clog x sh).nextSeq = x.nextSeq := by
  unfold flushBeginNode
  simp only []
  repeat' split
  all_goals simp

theorem flushEndNode_fields (x : Node) (sh : Nat) (t : Nat × Bool × List Nat) :
    (flushEndNode x sh t).life = x.life ∧ (flushEndNode x sh t).pending = x.pending ∧
    (flushEndNode x sh t).nextSeq = x.nextSeq := by
  unfold flushEndNode
  simp only []
  repeat' split
  all_goals simp

theorem ackInv_flushBegin {n sh : Nat} (h : AckInv s) (hs : doFlushBegin s n sh = some s') : AckInv s' := by
  unfold doFlushBegin at hs
  split at hs
  · split at hs
    · cases hs
      rename_i x hx _
      have := flushBeginNode_fields s.clog x sh
      exact h.frameNode hx this.1 (by rw [this.2.1]; exact fun _ hp => hp) this.2.2
    · cases hs
  · cases hs

theorem ackInv_flushEnd {n sh : Nat} (h : AckInv s) (hs : doFlushEnd s n sh = some s') : AckInv s' := by
  unfold doFlushEnd at hs
  split at hs
  · split at hs
    · split at hs
      · cases hs
        rename_i x hx _ t _ _
        have := flushEndNode_fields x sh t
        exact h.frameNode hx this.1 (by rw [this.2.1]; exact fun _ hp => hp) this.2.2
      · cases hs
    · cases hs
  · cases hs

theorem ackInv_truncBySize {n : Nat} (h : AckInv s) (hs : doTruncBySize s n = some s') : AckInv s' := by
  unfold doTruncBySize at hs
  split at hs
  · split at hs
    · cases hs; frame_node h
    · cases hs
  · cases hs

theorem ackInv_giveUp {p q : Nat} (h : AckInv s) (hs : doGiveUp s p q = some s') : AckInv s' := by
  unfold doGiveUp at hs
  split at hs
  · cases hs
    rename_i x hx
    exact h.frameNode hx rfl (fun p hp => (List.mem_filter.mp hp).1) rfl
  · cases hs

theorem ackInv_kill {n : Nat} (h : AckInv s) (hs : doKill s n = some s') : AckInv s' := by
  unfold doKill at hs
  split at hs
  · split at hs
    · cases hs
      rename_i x hx _
      have h2 : AckInv (if s.leader = some n then { s with leader := none } else s) := by
        split
        · exact h.frame rfl rfl rfl rfl (fun n x hx => ⟨x, hx, rfl, fun _ hp => hp, rfl⟩)
        · exact h
      refine h2.frameNode (x := x) ?_ rfl (by intro p hp; simp [killNode] at hp) rfl
      split <;> exact hx
    · cases hs
  · cases hs

theorem ackInv_meta (h : AckInv s) (hc : s'.clog = s.clog) (hi : s'.inflight = s.inflight)
    (ha : s'.acked = s.acked) (hg : s'.ghostApplied = s.ghostApplied) (hn : s'.nodes = s.nodes) : AckInv s' :=
  h.frame hc hi ha hg (fun n x hx => ⟨x, by rw [← hn]; exact hx, rfl, fun _ hp => hp, rfl⟩)

theorem ackInv_metaDown {n : Nat} (h : AckInv s) (hs : doMetaDown s n = some s') : AckInv s' := by
  unfold doMetaDown at hs
  split at hs
  · cases hs; exact ackInv_meta h rfl rfl rfl rfl rfl
  · cases hs

theorem ackInv_metaUp {n : Nat} (h : AckInv s) (hs : doMetaUp s n = some s') : AckInv s' := by
  unfold doMetaUp at hs
  split at hs
  · cases hs; exact ackInv_meta h rfl rfl rfl rfl rfl
  · cases hs

theorem ackInv_elect (h : AckInv s) (hs : doElect s = some s') : AckInv s' := by
  unfold doElect at hs
  split at hs
  · cases hs
  · split at hs
    · cases hs; exact ackInv_meta h rfl rfl rfl rfl rfl
    · cases hs

theorem ackInv_setMaster {m : Nat} (h : AckInv s) (hs : doSetMaster s m = some s') : AckInv s' := by
  unfold doSetMaster at hs
  split at hs
  · cases hs; exact ackInv_meta h rfl rfl rfl rfl rfl
  · cases hs

/-- one more entry in flight that no writer made -/
theorem ackInv_addNonW (h : AckInv s) (e : Ent) (he : e.isW = false) :
    AckInv { s with inflight := s.inflight ++ [e] } := by
  refine h.frame' ?_ (fun _ _ h => h) rfl (fun _ h => h) (fun n x hx => ⟨x, hx, rfl, fun _ hp => hp, rfl⟩)
  intro e' he' hw
  simp only [allEnts, List.mem_append, List.mem_singleton] at he' ⊢
  rcases he' with h1 | h1 | h1
  · exact Or.inl h1
  · exact Or.inr h1
  · subst h1; rw [he] at hw; cases hw

theorem ackInv_truncPropose {f : Bool} {ms : List (Nat × Nat)} (h : AckInv s)
    (hs : doTruncPropose s f ms = some s') : AckInv s' := by
  unfold doTruncPropose at hs
  split at hs
  · split at hs
    · split at hs
      · cases hs; exact ackInv_addNonW h _ rfl
      · cases hs
    · cases hs
  · cases hs

theorem ackInv_raftLead {l : Nat} (h : AckInv s) (hs : doRaftLead s l = some s') : AckInv s' := by
  unfold doRaftLead at hs
  split at hs
  · simp only [] at hs
    split at hs
    · cases hs
      have := ackInv_addNonW h { cmd := .noop, prop := l } rfl
      exact this.frame rfl rfl rfl rfl (fun n x hx => ⟨x, hx, rfl, fun _ hp => hp, rfl⟩)
    · cases hs
  · cases hs

theorem entAt_append {clog : List Ent} {i : Nat} {e e' : Ent} (h : entAt clog i = some e) :
    entAt (clog ++ [e']) i = some e := by
  unfold entAt at h ⊢
  split at h
  · cases h
  · rename_i hi
    simp only [hi, if_false]
    have hlt : i - 1 < clog.length := by
      rcases List.getElem?_eq_some_iff.mp h with ⟨hl, _⟩
      exact hl
    rw [List.getElem?_append_left hlt]
    exact h

@[simp] theorem advanceFiles_nodes (s : State) (i z : Nat) : (advanceFiles s i z).nodes = s.nodes := by
  unfold advanceFiles; split <;> rfl
@[simp] theorem advanceFiles_clog (s : State) (i z : Nat) : (advanceFiles s i z).clog = s.clog := by
  unfold advanceFiles; split <;> rfl
@[simp] theorem advanceFiles_inflight (s : State) (i z : Nat) : (advanceFiles s i z).inflight = s.inflight := by
  unfold advanceFiles; split <;> rfl
@[simp] theorem advanceFiles_acked (s : State) (i z : Nat) : (advanceFiles s i z).acked = s.acked := by
  unfold advanceFiles; split <;> rfl
@[simp] theorem advanceFiles_ghost (s : State) (i z : Nat) : (advanceFiles s i z).ghostApplied = s.ghostApplied := by
  unfold advanceFiles; split <;> rfl
@[simp] theorem advanceFiles_leader (s : State) (i z : Nat) : (advanceFiles s i z).leader = s.leader := by
  unfold advanceFiles; split <;> rfl

theorem ackInv_commit {j : Nat} {q : List Nat} (h : AckInv s) (hs : doCommit s j q = some s') : AckInv s' := by
  unfold doCommit at hs
  split at hs
  · split at hs
    · cases hs
      rename_i l e hl he _
      refine h.frame' ?_ ?_ ?_ ?_ ?_
      · intro e' he' _
        simp only [allEnts, advanceFiles_clog, advanceFiles_inflight, List.mem_append, List.mem_singleton] at he' ⊢
        rcases he' with (h1 | h1) | h1
        · exact Or.inl h1
        · subst h1; exact Or.inr (List.mem_of_getElem? he)
        · exact Or.inr (List.mem_of_mem_eraseIdx h1)
      · intro i e' hie
        simp only [advanceFiles_clog]
        exact entAt_append hie
      · simp
      · intro p hp; simpa using hp
      · intro n x' hx'
        simp only [advanceFiles_nodes, commitNodes, List.getElem?_mapIdx] at hx'
        cases hx : s.nodes[n]? with
        | none => simp [hx] at hx'
        | some x =>
          simp only [hx, Option.map_some, Option.some.injEq] at hx'
          refine ⟨x, rfl, ?_, ?_, ?_⟩ <;> (subst hx'; split <;> simp)
    · cases hs
  · cases hs

theorem ackInv_propose {p : Nat} {c : Cmd} {size : Nat} (h : AckInv s)
    (hs : doPropose s p c size = some s') : AckInv s' := by
  unfold doPropose at hs
  split at hs
  · rename_i x hx
    split at hs
    · split at hs
      · cases hs
        rename_i k v sh
        have hlt : p < s.nodes.length := by
          rcases List.getElem?_eq_some_iff.mp hx with ⟨hl, _⟩; exact hl
        have hsq := h.seqs p x hx
        refine ⟨?_, ?_, ?_⟩
        · intro n x' hx' p' hp' e' he' hw hprop htag hseq
          simp only [getElem?_setNode] at hx'
          simp only [allEnts, setNode_clog, List.mem_append, List.mem_singleton] at he'
          split at hx'
          · rename_i hpn
            subst hpn
            simp only [Option.some.injEq] at hx'
            subst hx'
            simp only [List.mem_append, List.mem_singleton] at hp'
            rcases hp' with hp' | hp' <;> rcases he' with he' | he' | he'
            · exact h.pend p x hx p' hp' e' (by simp [allEnts, he']) hw hprop htag hseq
            · exact h.pend p x hx p' hp' e' (by simp [allEnts, he']) hw hprop htag hseq
            · subst he'
              have := hsq.1 p' hp'
              simp only at hseq
              omega
            · have := (hsq.2 e' (by simp [allEnts, he']) hw hprop).2 htag
              subst hp'
              simp only at hseq
              omega
            · have := (hsq.2 e' (by simp [allEnts, he']) hw hprop).2 htag
              subst hp'
              simp only at hseq
              omega
            · subst he'; subst hp'; rfl
          · rcases he' with he' | he' | he'
            · exact h.pend n x' hx' p' hp' e' (by simp [allEnts, he']) hw hprop htag hseq
            · exact h.pend n x' hx' p' hp' e' (by simp [allEnts, he']) hw hprop htag hseq
            · subst he'
              rename_i hne
              simp only at hprop
              exact absurd hprop hne
        · intro n x' hx'
          simp only [getElem?_setNode] at hx'
          split at hx'
          · rename_i hpn
            subst hpn
            simp only [Option.some.injEq] at hx'
            subst hx'
            refine ⟨?_, ?_⟩
            · intro p' hp'
              simp only [List.mem_append, List.mem_singleton] at hp'
              rcases hp' with hp' | hp'
              · have := hsq.1 p' hp'; simp only; omega
              · subst hp'; simp
            · intro e' he' hw hprop
              simp only [allEnts, setNode_clog, List.mem_append, List.mem_singleton] at he'
              rcases he' with he' | he' | he'
              · have := hsq.2 e' (by simp [allEnts, he']) hw hprop
                exact ⟨this.1, fun ht => by have := this.2 ht; simp only; omega⟩
              · have := hsq.2 e' (by simp [allEnts, he']) hw hprop
                exact ⟨this.1, fun ht => by have := this.2 ht; simp only; omega⟩
              · subst he'
                simp [lifeTag_eq]
          · refine ⟨(h.seqs n x' hx').1, ?_⟩
            intro e' he' hw hprop
            simp only [allEnts, setNode_clog, List.mem_append, List.mem_singleton] at he'
            rcases he' with he' | he' | he'
            · exact (h.seqs n x' hx').2 e' (by simp [allEnts, he']) hw hprop
            · exact (h.seqs n x' hx').2 e' (by simp [allEnts, he']) hw hprop
            · subst he'
              rename_i hne
              simp only at hprop
              exact absurd hprop hne
        · intro a ha
          exact h.acks a ha
      all_goals cases hs
    · cases hs
  · cases hs

theorem bumpSc_fields (x : Node) (i : Nat) (u : Bool) :
    (bumpSc x i u).life = x.life ∧ (bumpSc x i u).pending = x.pending ∧ (bumpSc x i u).nextSeq = x.nextSeq := by
  unfold bumpSc; split <;> simp

theorem applyEnt_fields (b : List Nat) (x : Node) (e : Ent) (n i : Nat) (f : Bool) :
    (applyEnt b x e n i f).node.life = x.life ∧ (∀ p ∈ (applyEnt b x e n i f).node.pending, p ∈ x.pending) ∧
    (applyEnt b x e n i f).node.nextSeq = x.nextSeq := by
  unfold applyEnt
  split
  · simp only []
    split <;> (refine ⟨rfl, ?_, rfl⟩; intro p hp; simp only at hp; split at hp
               · exact (List.mem_filter.mp hp).1
               · exact hp)
  · exact ⟨rfl, fun _ hp => hp, rfl⟩
  · exact ⟨rfl, fun _ hp => hp, rfl⟩

/-- what an answer given by `applyEnt` is about -/
theorem applyEnt_ack {b : List Nat} {x : Node} {e : Ent} {n i : Nat} {f : Bool} {a : Nat × Bool}
    (h : (applyEnt b x e n i f).ack = some a) :
    e.isW = true ∧ e.prop = n ∧ e.ptag = x.life ∧ (∃ p ∈ x.pending, p.1 = e.pseq ∧ a.1 = p.2) ∧
    (a.2 = true → (applyEnt b x e n i f).applied = true) := by
  cases hcmd : e.cmd with
  | write k v sh =>
    have hw : e.isW = true := by simp [Ent.isW, hcmd]
    have hack : ackFor x e n (!f) = some a := by
      cases f <;> simpa [applyEnt, hcmd] using h
    unfold ackFor at hack
    split at hack
    · rename_i hc
      split at hack
      · rename_i p hp
        cases hack
        refine ⟨hw, hc.1, by rw [hc.2, lifeTag_eq], ⟨p, List.mem_of_find?_eq_some hp, ?_, rfl⟩, ?_⟩
        · have := List.find?_some hp
          simpa using this
        · intro hok
          simp only [ackCarriesApplyResult, if_true] at hok
          cases f
          · simp [applyEnt, hcmd]
          · simp at hok
      · cases hack
    · cases hack
  | clear idx => simp [applyEnt, hcmd] at h
  | noop => simp [applyEnt, hcmd] at h

theorem ackInv_apply {n : Nat} {f u : Bool} (h : AckInv s) (hs : doApply s n f u = some s') : AckInv s' := by
  unfold doApply at hs
  split at hs
  · rename_i x hx
    split at hs
    · split at hs
      · rename_i e he
        simp only [] at hs
        cases hs
        have hlt : n < s.nodes.length := by
          rcases List.getElem?_eq_some_iff.mp hx with ⟨hl, _⟩; exact hl
        generalize hr : applyEnt s.bounds { x with applied := x.applied + 1 } e n (x.applied + 1) f = r
        have hf := applyEnt_fields s.bounds { x with applied := x.applied + 1 } e n (x.applied + 1) f
        rw [hr] at hf
        have hb := bumpSc_fields r.node (x.applied + 1) u
        have hnodes : ∀ (m : Nat) (x' : Node), (setNode s n (bumpSc r.node (x.applied + 1) u)).nodes[m]? = some x' →
            ∃ y : Node, s.nodes[m]? = some y ∧ x'.life = y.life ∧ (∀ p ∈ x'.pending, p ∈ y.pending) ∧ x'.nextSeq = y.nextSeq := by
          intro m x' hx'
          rw [getElem?_setNode] at hx'
          split at hx'
          · rename_i hnm
            subst hnm
            simp only [hlt, if_true, Option.some.injEq] at hx'
            subst hx'
            refine ⟨x, hx, ?_, ?_, ?_⟩
            · rw [hb.1, hf.1]
            · intro p hp; rw [hb.2.1] at hp; exact hf.2.1 p hp
            · rw [hb.2.2, hf.2.2]
          · exact ⟨x', hx', rfl, fun _ hp => hp, rfl⟩
        refine ⟨?_, ?_, ?_⟩
        · intro m x' hx' p hp e' he' hw
          obtain ⟨y, hy, hl, hpd, _⟩ := hnodes m x' hx'
          rw [hl]
          exact h.pend m y hy p (hpd p hp) e' he' hw
        · intro m x' hx'
          obtain ⟨y, hy, hl, hpd, hq⟩ := hnodes m x' hx'
          rw [hl, hq]
          exact ⟨fun p hp => (h.seqs m y hy).1 p (hpd p hp), (h.seqs m y hy).2⟩
        · intro a ha
          simp only [setNode_acked, List.mem_append] at ha
          rcases ha with ha | ha
          · obtain ⟨i, e', hi, hw, hu, hg⟩ := h.acks a ha
            refine ⟨i, e', hi, hw, hu, fun hb => ?_⟩
            simp only [setNode_ghost]
            split
            · exact List.mem_append_left _ (hg hb)
            · exact hg hb
          · have hra : r.ack = some a := by
              cases hro : r.ack with
              | none => simp [hro] at ha
              | some a' => simp [hro] at ha; rw [ha]
            rw [← hr] at hra
            obtain ⟨hw, hprop, htag, ⟨p, hp, hpseq, hau⟩, hok⟩ := applyEnt_ack hra
            have huid := h.pend n x hx p hp e (by simp [allEnts, mem_of_entAt he]) hw hprop htag hpseq.symm
            refine ⟨x.applied + 1, e, he, hw, by rw [hau, huid], fun hb => ?_⟩
            have := hok hb
            rw [hr] at this
            simp only [setNode_ghost, this, if_true, hprop]
            exact List.mem_append_right _ (List.mem_singleton.mpr rfl)
      · cases hs
    · cases hs
  · cases hs

theorem ackInv_restart {n : Nat} (h : AckInv s) (hs : doRestart s n = some s') : AckInv s' := by
  unfold doRestart at hs
  split at hs
  · rename_i x hx
    split at hs
    · cases hs
      have hlt : n < s.nodes.length := by
        rcases List.getElem?_eq_some_iff.mp hx with ⟨hl, _⟩; exact hl
      have hl : (restartNode s.clog s.bounds x).life = x.life + 1 := by simp [restartNode]
      have hp : (restartNode s.clog s.bounds x).pending = [] := by simp [restartNode]
      have hq : (restartNode s.clog s.bounds x).nextSeq = 0 := by simp [restartNode]
      refine ⟨?_, ?_, ?_⟩
      · intro m x' hx' p hpp e' he' hw
        rw [getElem?_setNode] at hx'
        split at hx'
        · simp only [hlt, if_true, Option.some.injEq] at hx'
          subst hx'
          rw [hp] at hpp
          cases hpp
        · exact h.pend m x' hx' p hpp e' he' hw
      · intro m x' hx'
        rw [getElem?_setNode] at hx'
        split at hx'
        · rename_i hnm
          subst hnm
          simp only [hlt, if_true, Option.some.injEq] at hx'
          subst hx'
          rw [hp, hl, hq]
          refine ⟨?_, ?_⟩
          · intro p hpp; cases hpp
          · intro e' he' hw hprop
            have := (h.seqs n x hx).2 e' he' hw hprop
            exact ⟨by omega, fun ht => by omega⟩
        · exact h.seqs m x' hx'
      · exact h.acks
    · cases hs
  · cases hs

theorem ackInv_restartLate {n : Nat} (_h : AckInv s) (hs : doRestartLate s n = some s') : AckInv s' := by
  simp [doRestartLate, commitLoopAfterReplay] at hs

theorem ackInv_replayLate {n : Nat} (_h : AckInv s) (hs : doReplayLate s n = some s') : AckInv s' := by
  simp [doReplayLate, commitLoopAfterReplay] at hs

theorem ackInv_coordWrite {c : Cmd} {size : Nat} (h : AckInv s) (hs : doCoordWrite s c size = some s') : AckInv s' := by
  unfold doCoordWrite at hs
  split at hs
  · split at hs
    · rename_i s1 hp
      cases hs; exact ackInv_propose h hp
    · cases hs; exact h
  · cases hs; exact h

/-- the invariant holds after every step -/
theorem ackInv_step {o : Op} (h : AckInv s) (hs : step s o = some s') : AckInv s' := by
  cases o <;> simp only [step] at hs
  · exact ackInv_propose h hs
  · exact ackInv_giveUp h hs
  · exact ackInv_commit h hs
  · exact ackInv_sync h hs
  · exact ackInv_publish h hs
  · exact ackInv_apply h hs
  · exact ackInv_flushBegin h hs
  · exact ackInv_flushEnd h hs
  · exact ackInv_truncPropose h hs
  · exact ackInv_truncBySize h hs
  · exact ackInv_kill h hs
  · exact ackInv_restart h hs
  · exact ackInv_restartLate h hs
  · exact ackInv_replayLate h hs
  · exact ackInv_raftLead h hs
  · exact ackInv_metaDown h hs
  · exact ackInv_metaUp h hs
  · exact ackInv_elect h hs
  · exact ackInv_setMaster h hs
  · exact ackInv_coordWrite h hs

theorem ackInv_run {os : List Op} (h : AckInv s) (hs : run s os = some s') : AckInv s' := by
  induction os generalizing s with
  | nil => simp [run] at hs; subst hs; exact h
  | cons o os ih =>
    simp only [run] at hs
    split at hs
    · rename_i s1 h1
      exact ih (ackInv_step h h1) hs
    · cases hs

theorem bootLog_inv (s : State) (szs : List Nat) :
    (bootLog s szs).inflight = s.inflight ∧ (bootLog s szs).acked = s.acked ∧ (bootLog s szs).nodes = s.nodes ∧
    ((∀ e ∈ s.clog, e.isW = false) → ∀ e ∈ (bootLog s szs).clog, e.isW = false) := by
  induction szs generalizing s with
  | nil => simp [bootLog]
  | cons z rest ih =>
    simp only [bootLog]
    obtain ⟨h1, h2, h3, h4⟩ := ih { advanceFiles s (s.clog.length + 1) z with clog := s.clog ++ [{ cmd := .noop, size := z }] }
    refine ⟨h1.trans (by simp), h2.trans (by simp), h3.trans (by simp), fun hw => h4 ?_⟩
    intro e he
    simp only [List.mem_append, List.mem_singleton] at he
    rcases he with he | he
    · exact hw e he
    · subst he; rfl

theorem ackInv_boot (n : Nat) (szs : List Nat) : AckInv (boot n szs) := by
  obtain ⟨h1, h2, _, h4⟩ := bootLog_inv { nodes := [], alive := List.replicate n true, master := 0, peers := (List.range n).drop 1 }
    ((List.range n).map (fun i => szs.getD i 0))
  have hnw : ∀ e ∈ allEnts (boot n szs), e.isW = false := by
    intro e he
    simp only [allEnts, boot, h1, List.append_nil] at he
    exact h4 (by intro e he; cases he) e he
  refine ⟨?_, ?_, ?_⟩
  · intro m x hx p hp e he hw
    rw [hnw e he] at hw; cases hw
  · intro m x hx
    simp only [boot] at hx
    rcases List.getElem?_eq_some_iff.mp hx with ⟨_, hx⟩
    simp only [List.getElem_replicate] at hx
    subst hx
    refine ⟨?_, ?_⟩
    · intro p hp; cases hp
    · intro e he hw
      rw [hnw e he] at hw; cases hw
  · intro a ha
    simp only [boot, h2] at ha
    cases ha

end OG.C05
