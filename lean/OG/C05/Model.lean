/-
C05 — replicated data survives the loss of a minority of store nodes.

Model of openGemini's own replication logic around etcd raft (which is trusted at message level):
one replica group = N nodes, each with a durable raft log (first/last index over the canonical
entry files of lib/raftlog, C17), the durable HardState commit index, the durable raft snapshot
index, data files; volatile: memtable, the table being flushed, the apply progress, the
SnapShotter's committed index and flag, the writers waiting for their proposal.

Global: the committed log (the oracle standing for raft: an entry is committed when the leader and
a quorum of up nodes hold it durably), proposals in flight, the raft leader, ts-meta's replica
group record (master, peers, liveness).

Transcribed (function by function, branches as written): engine.WriteToRaft,
readCommitFromRaft/dealCommitData, readReplayForReplication, RaftNode.InitAndStartNode/replay,
entriesToApply/PublishEntries, snapShot, deleteEntryLog/forceDeleteEntryLog/
prepareDeleteEntryLogProposeData/genProposeData, deleteEntryLogBySize, raftlog.Init's
deleteBefore, entryLog.deleteBefore/slotGe, tsstoreImpl.writeSnapshot's hand-shake with the
SnapShotter, ts-meta's electRgMaster, Data.GetNewRg/UpdateReplication.
The rules that are tiny and pure come from the regenerated file (`genIndex`, `replayRange`,
`needRotate`, `clearIndex`) as do the facts that select between code variants
(`ackCarriesApplyResult`, `snapSignalAfterCommit`, `pidSeededPerLife`).
Core Lean only.
-/
import OG.Generated.C05

namespace OG.C05
open OG.Gen.C05

/-- what a raft entry asks the state machine to do -/
inductive Cmd where
  | write (key val shard : Nat)   -- DataWrapper{Normal}: one row
  | clear (idx : Nat)             -- DataWrapper{ClearEntryLog}
  | noop                          -- empty entry of a new leader / conf change
deriving DecidableEq, Repr, Inhabited

structure Ent where
  cmd : Cmd
  size : Nat := 0     -- len(Entry.Data)
  prop : Nat := 0     -- node whose identity the DataWrapper carries
  ptag : Nat := 0     -- propose id: part that identifies the life of the proposer (0 if ids restart with every life)
  pseq : Nat := 0     -- propose id: sequence number within the life
  uid : Nat := 0      -- ghost: which writer made this proposal (0 = none)
deriving DecidableEq, Repr, Inhabited

structure Node where
  up : Bool := true
  life : Nat := 1
  -- durable ------------------------------------------------------------------------------
  first : Nat := 1            -- entryLog.firstIndex()
  last : Nat := 0             -- entryLog.lastIndex()
  holes : List (Nat × Nat) := []   -- index ranges (lo, hi] absent from the log after a snapshot install
  hsCommit : Nat := 0         -- HardState.Commit
  snapIdx : Nat := 0          -- meta snapshot index
  files : List Nat := []      -- indexes whose rows are in the data files, in application order
  -- volatile -----------------------------------------------------------------------------
  imm : List (Nat × Bool × List Nat) := []   -- shard ↦ (this flush will signal the raft snapshot, table being flushed)
  mem : List Nat := []        -- active memtables, in application order
  pub : Nat := 0              -- RaftNode.appliedIndex (entries handed to the commit channel)
  applied : Nat := 0          -- progress of readCommitFromRaft
  sc : Nat := 0               -- SnapShotter.CommittedIndex
  flag : Bool := true         -- SnapShotter.RaftFlag == 1
  hasSnp : List Nat := []     -- the shards that know the SnapShotter (each learns it with its first replicated write of this life)
  pending : List (Nat × Nat) := []   -- DataCommittedC: (propose seq, ghost writer uid)
  nextSeq : Nat := 0
  replayQ : List Nat := []    -- entries read back by RaftNode.replay that readReplayForReplication has not applied yet
  -- ghost --------------------------------------------------------------------------------
  gF : Nat := 0               -- the data files hold exactly the entries ≤ gF
  gI : Nat := 0               -- files + table being flushed hold exactly the entries ≤ gI
deriving Repr, Inhabited

structure State where
  nodes : List Node
  clog : List Ent := []              -- committed log; index i ↦ clog[i-1]
  inflight : List Ent := []          -- proposed, not (yet) committed
  bounds : List Nat := [1]           -- first indexes of the canonical entry files, ascending
  curCnt : Nat := 0                  -- entries in the canonical current file
  curOff : Nat := goDataOff          -- next data offset in it
  leader : Option Nat := none        -- raft leader
  master : Nat := 0                  -- ts-meta: MasterPtID
  peers : List Nat := []             -- ts-meta: Peers (all Slave)
  alive : List Bool := []            -- ts-meta: pt Online / data node alive
  health : Bool := true              -- ts-meta: ReplicaGroup.Status is Health (else SubHealth)
  acked : List (Nat × Bool) := []    -- answers given to writers: (ghost uid, ok)
  ghostApplied : List (Nat × Nat) := []   -- ghost: (node, index) of every successful apply by the commit loop
  nextUid : Nat := 1
deriving Repr, Inhabited

/-! ### entries, data, reads -/

def entAt (clog : List Ent) (i : Nat) : Option Ent :=
  if i = 0 then none else clog[i - 1]?

/-- the value entry `i` writes to key `k`, if it is a write of `k` -/
def writesKey (clog : List Ent) (k i : Nat) : Option Nat :=
  match entAt clog i with
  | some e => match e.cmd with
    | .write k' v _ => if k' = k then some v else none
    | _ => none
  | none => none

def isWrite (clog : List Ent) (i : Nat) : Bool :=
  match entAt clog i with
  | some e => match e.cmd with | .write .. => true | _ => false
  | none => false

def shardOf (clog : List Ent) (i : Nat) : Nat :=
  match entAt clog i with
  | some e => match e.cmd with | .write _ _ sh => sh | _ => 0
  | none => 0

/-- last-applied-wins over a list of applied entry indexes (application order) -/
def look (clog : List Ent) (k : Nat) : List Nat → Option Nat
  | [] => none
  | i :: rest => match look clog k rest with
    | some v => some v
    | none => writesKey clog k i

def Node.immIdx (x : Node) : List Nat := x.imm.flatMap (·.2.2)

def Node.data (x : Node) : List Nat := x.files ++ x.immIdx ++ x.mem

/-- what a query served by node `x` returns for key `k` -/
def readNode (clog : List Ent) (x : Node) (k : Nat) : Option Nat := look clog k x.data

/-- indexes lo … hi-1 -/
def idxRange (lo hi : Nat) : List Nat := (List.range (hi - lo)).map (· + lo)

/-- the specification: the latest committed write of `k` -/
def specRead (clog : List Ent) (k : Nat) : Option Nat := look clog k (idxRange 1 (clog.length + 1))

/-! ### the entry files (canonical layout, see C17) -/

def toNatI (i : Int) : Nat := i.toNat

/-- first indexes of the files node `x` still has -/
def Node.segs (x : Node) (bounds : List Nat) : List Nat :=
  bounds.filter (fun b => x.first ≤ b && b ≤ x.last)

/-- `entryLog.slotGe(i)`, first result (-1 = current file). `segs` ascending; with
`cnt` = number of files starting at or below `i`: the current file when `cnt` reaches all files
(`l.current.slotGe(i) ≥ 0`); `(-1, -1)` when there is no rotated file; otherwise the `sort.Search`
over the rotated files, one step back unless it hit a first index exactly, and 0 when `i` is below
the first file. -/
def fileOf (segs : List Nat) (i : Nat) : Int :=
  let cnt := (segs.filter (· ≤ i)).length
  if cnt = segs.length then -1
  else if segs.length ≤ 1 then -1
  else if cnt = 0 then 0
  else ((cnt - 1 : Nat) : Int)

/-- `entryLog.deleteBefore(i)`: the new first index (the first index of the file holding `i`;
unchanged when `i` is below the log) -/
def delBefore (x : Node) (bounds : List Nat) (i : Nat) : Nat :=
  match ((x.segs bounds).filter (· ≤ i)).getLast? with
  | some b => b
  | none => x.first

/-- one more committed entry of payload size `sz` at index `idx`: the canonical files -/
def advanceFiles (s : State) (idx sz : Nat) : State :=
  if needRotate goCap goDataOff goMaxSize (s.curCnt : Int) (s.curOff : Int) (sz : Int) then
    { s with bounds := s.bounds ++ [idx], curCnt := 1, curOff := toNatI (nextOffset (goDataOff : Int) (sz : Int)) }
  else
    { s with curCnt := s.curCnt + 1, curOff := toNatI (nextOffset (s.curOff : Int) (sz : Int)) }

/-! ### steps -/

def setNode (s : State) (n : Nat) (x : Node) : State := { s with nodes := s.nodes.set n x }

def maxU64 : Nat := 18446744073709551615

/-- the tag propose ids of life `life` carry -/
def lifeTag (life : Nat) : Nat := if pidSeededPerLife then life else 0

def inHole (holes : List (Nat × Nat)) (i : Nat) : Bool := holes.any (fun h => h.1 < i && i ≤ h.2)

/-- `CreateSnapshot(i)` as snapShot() uses it: out-of-date and unavailable indexes change nothing -/
def snapTo (x : Node) (i : Nat) : Nat :=
  if i < x.first then x.snapIdx else if i > x.last then x.snapIdx else if inHole x.holes i then x.snapIdx else i

inductive Op where
  | propose (p : Nat) (c : Cmd) (size : Nat)    -- WriteToRaft on node p: register the waiter, propose
  | giveUp (p : Nat) (seq : Nat)                -- the waiter times out
  | commit (j : Nat) (q : List Nat)             -- proposal j is committed: leader and quorum q hold it
  | sync (n : Nat)                              -- follower n receives what it lacks, and the commit index
  | publish (n : Nat)                           -- serveChannels hands the committed entries to the commit loop
  | apply (n : Nat) (fail upd : Bool)           -- the commit loop applies one entry (upd: last of its batch)
  | flushBegin (n sh : Nat) | flushEnd (n sh : Nat)
  | truncPropose (forced : Bool) (ms : List (Nat × Nat))   -- deleteEntryLog on the leader
  | truncBySize (n : Nat)                       -- deleteEntryLogBySize with the size limit exceeded
  | kill (n : Nat) | restart (n : Nat)
  | restartLate (n : Nat)                       -- restart, the replayed entries not applied yet (the commit loop already runs)
  | replayLate (n : Nat)                        -- readReplayForReplication applies them now
  | raftLead (l : Nat)                          -- l wins a raft election
  | metaDown (n : Nat) | metaUp (n : Nat)
  | elect                                       -- ts-meta: electRgMaster after the master failed
  | setMaster (m : Nat)                         -- ts-meta: GetNewRg + UpdateReplication
  | coordWrite (c : Cmd) (size : Nat)           -- coordinator: route one request (writeRowToShard), propose at the target store
deriving Repr, Inhabited

def majority (s : State) (q : List Nat) : Bool := 2 * q.length > s.nodes.length

def minMatchOf (ms : List (Nat × Nat)) : Nat := ms.foldl (fun m p => if p.2 < m then p.2 else m) maxU64

/-- rows of entry `i` go to the memtable; answer for the waiting writer -/
def ackFor (x : Node) (e : Ent) (n : Nat) (ok : Bool) : Option (Nat × Bool) :=
  if e.prop = n ∧ e.ptag = lifeTag x.life then
    match x.pending.find? (fun p => p.1 = e.pseq) with
    | some p => some (p.2, if ackCarriesApplyResult then ok else true)
    | none => none
  else none

def doPropose (s : State) (p : Nat) (c : Cmd) (size : Nat) : Option State :=
  match s.nodes[p]? with
  | some x =>
    if x.up then
      match c with
      | .write .. =>
        let e : Ent := { cmd := c, size := size, prop := p, ptag := lifeTag x.life, pseq := x.nextSeq + 1, uid := s.nextUid }
        let x := { x with pending := x.pending ++ [(x.nextSeq + 1, s.nextUid)], nextSeq := x.nextSeq + 1 }
        some { setNode s p x with inflight := s.inflight ++ [e], nextUid := s.nextUid + 1 }
      | _ => none
    else none
  | none => none

def doGiveUp (s : State) (p : Nat) (seq : Nat) : Option State :=
  match s.nodes[p]? with
  | some x => some (setNode s p { x with pending := x.pending.filter (fun q => q.1 ≠ seq) })
  | none => none

def nodeUp (s : State) (m : Nat) : Bool := match s.nodes[m]? with | some x => x.up | none => false

/-- q: the nodes that hold the entry durably (a node that died with it in its log keeps it); the
leader and a majority of them are up, and each held the whole committed log before -/
def commitOK (s : State) (l : Nat) (q : List Nat) : Bool :=
  q.contains l && decide q.Nodup && majority s (q.filter (nodeUp s)) && nodeUp s l &&
  q.all (fun m => match s.nodes[m]? with | some x => x.last == s.clog.length | none => false)

def commitNodes (nodes : List Node) (q : List Nat) (l idx : Nat) : List Node :=
  nodes.mapIdx (fun m x =>
    if q.contains m then { x with last := idx, hsCommit := if m = l then idx else x.hsCommit } else x)

def doCommit (s : State) (j : Nat) (q : List Nat) : Option State :=
  match s.leader, s.inflight[j]? with
  | some l, some e =>
    if commitOK s l q then
      let idx := s.clog.length + 1
      let s := advanceFiles s idx e.size
      some { s with nodes := commitNodes s.nodes q l idx, clog := s.clog ++ [e], inflight := s.inflight.eraseIdx j }
    else none
  | _, _ => none

/-- the follower receives the entries it lacks and learns the commit index -/
def syncNode (x : Node) (total : Nat) : Node := { x with last := total, hsCommit := total }

/-- the leader no longer has what the follower needs: raft sends its snapshot, which carries no
rows; the follower's state machine position jumps to the snapshot index -/
def installNode (x : Node) (leaderSnap total : Nat) : Node :=
  { x with holes := x.holes ++ [(x.last, leaderSnap)], last := total, snapIdx := leaderSnap,
           hsCommit := total, pub := leaderSnap, applied := leaderSnap }

def doSync (s : State) (n : Nat) : Option State :=
  match s.leader with
  | some l =>
    match s.nodes[l]?, s.nodes[n]? with
    | some lx, some x =>
      if lx.up && x.up && lx.last == s.clog.length then
        if x.last + 1 ≥ lx.first then some (setNode s n (syncNode x s.clog.length))
        else some (setNode s n (installNode x lx.snapIdx s.clog.length))
      else none
    | _, _ => none
  | none => none

def doPublish (s : State) (n : Nat) : Option State :=
  match s.nodes[n]? with
  | some x => if x.up && x.pub ≤ x.hsCommit then some (setNode s n { x with pub := x.hsCommit }) else none
  | none => none

structure ApplyRes where
  node : Node
  ack : Option (Nat × Bool)     -- answer for a waiting writer
  applied : Bool                -- the rows went to the memtable

/-- dealCommitData for entry `e` (index `i`) on node `n` -/
def applyEnt (bounds : List Nat) (x : Node) (e : Ent) (n i : Nat) (fail : Bool) : ApplyRes :=
  match e.cmd with
  | .write _ _ sh =>
    let ack := ackFor x e n (!fail)
    let x := { x with pending := if e.prop = n ∧ e.ptag = lifeTag x.life then x.pending.filter (fun q => q.1 ≠ e.pseq) else x.pending }
    if fail then ⟨x, ack, false⟩
    else ⟨{ x with mem := x.mem ++ [i], hasSnp := if x.hasSnp.contains sh then x.hasSnp else sh :: x.hasSnp }, ack, true⟩
  | .clear idx => ⟨{ x with first := delBefore x bounds (clearIndex idx x.snapIdx) }, none, false⟩
  | .noop => ⟨x, none, false⟩

/-- SnapShotter.TryToUpdateCommittedIndex at the end of a batch -/
def bumpSc (x : Node) (i : Nat) (upd : Bool) : Node :=
  if upd && x.flag && x.sc ≤ i then { x with sc := i } else x

def doApply (s : State) (n : Nat) (fail : Bool) (upd : Bool) : Option State :=
  match s.nodes[n]? with
  | some x =>
    if x.up && x.applied < x.pub then
      match entAt s.clog (x.applied + 1) with
      | some e =>
        let r := applyEnt s.bounds { x with applied := x.applied + 1 } e n (x.applied + 1) fail
        some { setNode s n (bumpSc r.node (x.applied + 1) upd) with
               acked := s.acked ++ r.ack.toList,
               ghostApplied := if r.applied then s.ghostApplied ++ [(n, x.applied + 1)] else s.ghostApplied }
      | none => none
    else none
  | none => none

/-- tsstoreImpl.writeSnapshot up to the table switch (and, in the code as it was, the signal) -/
def flushBeginNode (clog : List Ent) (x : Node) (sh : Nat) : Node :=
  let knows := x.hasSnp.contains sh
  let moved := x.mem.filter (fun i => shardOf clog i == sh)
  let x := { x with imm := x.imm ++ [(sh, knows, moved)], mem := x.mem.filter (fun i => shardOf clog i != sh), gI := x.applied }
  -- `if snapShotter != nil { RaftFlag = 0 }`
  let x := if knows then { x with flag := false } else x
  -- code as it was: signal (and flag back to 1) right after the table switch
  if knows && !snapSignalAfterCommit then { x with snapIdx := snapTo x x.sc, flag := true } else x

def doFlushBegin (s : State) (n : Nat) (sh : Nat) : Option State :=
  match s.nodes[n]? with
  | some x =>
    if x.up && !(x.imm.any (·.1 == sh)) then some (setNode s n (flushBeginNode s.clog x sh)) else none
  | none => none

/-- commitSnapshot (files durable), then the signal through the SnapShotter seen at the start -/
def flushEndNode (x : Node) (sh : Nat) (t : Nat × Bool × List Nat) : Node :=
  let x := { x with files := x.files ++ t.2.2, imm := x.imm.filter (·.1 != sh), gF := x.gI }
  let sig := if snpCapturedOnce then t.2.1 else x.hasSnp.contains sh
  if sig && snapSignalAfterCommit then { x with snapIdx := snapTo x x.sc, flag := true } else x

def doFlushEnd (s : State) (n : Nat) (sh : Nat) : Option State :=
  match s.nodes[n]? with
  | some x =>
    match x.imm.find? (·.1 == sh) with
    | some t => if x.up then some (setNode s n (flushEndNode x sh t)) else none
    | none => none
  | none => none

/-- the progress the leader has: one value per member, never above what the member holds (its
own: exactly its last index) -/
def msOK (s : State) (l : Nat) (lx : Node) (ms : List (Nat × Nat)) : Bool :=
  ms.length == s.nodes.length && (ms.map (·.1)) == List.range s.nodes.length &&
  ms.all (fun p => match s.nodes[p.1]? with | some x => p.2 ≤ x.last && (p.1 != l || p.2 == lx.last) | none => false)

/-- deleteEntryLog on the leader: with every member alive the minimum Match of all of them
(prepareDeleteEntryLogProposeData); otherwise, once the tolerate time is over (`forced`), the
minimum over the active ones (forceDeleteEntryLog); then genProposeData -/
def doTruncPropose (s : State) (forced : Bool) (ms : List (Nat × Nat)) : Option State :=
  match s.leader with
  | some l =>
    match s.nodes[l]? with
    | some lx =>
      if lx.up && lx.snapIdx ≠ 0 && msOK s l lx ms && (forced != s.alive.all id) then
        let used := if forced then ms.filter (fun p => s.alive.getD p.1 false) else ms
        let x := genIndex (fileOf (lx.segs s.bounds)) maxU64 lx.snapIdx (minMatchOf used)
        some { s with inflight := s.inflight ++ [{ cmd := .clear x, size := 20, prop := l }] }
      else none
    | none => none
  | none => none

def doTruncBySize (s : State) (n : Nat) : Option State :=
  match s.nodes[n]? with
  | some x =>
    if x.up && x.snapIdx ≠ 0 then some (setNode s n { x with first := delBefore x s.bounds x.snapIdx }) else none
  | none => none

def killNode (x : Node) : Node :=
  { x with up := false, imm := [], mem := [], pending := [], hasSnp := [], flag := true, replayQ := [] }

def doKill (s : State) (n : Nat) : Option State :=
  match s.nodes[n]? with
  | some x =>
    if x.up then
      let s := if s.leader = some n then { s with leader := none } else s
      some (setNode s n (killNode x))
    else none
  | none => none

/-- raftlog.Init (deleteBefore(FirstIndexWithSnap() - 1)), then InitAndStartNode: appliedIndex =
HardState.Commit, CommittedIndex = snapshot index, replay of [lo, hi) through the apply path -/
def restartNode (clog : List Ent) (bounds : List Nat) (x : Node) : Node :=
  let x := { x with first := if x.snapIdx > 0 then delBefore x bounds x.snapIdx else x.first }
  let r := replayRange x.snapIdx x.hsCommit
  let replayed := if r.1 < x.first || r.2 > x.last + 1 then []   -- ErrCompacted / ErrUnavailable: logged, nothing replayed
    else (idxRange r.1 r.2).filter (fun i => isWrite clog i && !inHole x.holes i)
  { x with up := true, life := x.life + 1, pub := x.hsCommit, applied := x.hsCommit, sc := x.snapIdx,
           flag := true, hasSnp := [], pending := [], nextSeq := 0, imm := [], mem := replayed, replayQ := [] }

def doRestart (s : State) (n : Nat) : Option State :=
  match s.nodes[n]? with
  | some x => if !x.up then some (setNode s n (restartNode s.clog s.bounds x)) else none
  | none => none

/-- the code as it was: startRaftNode started the commit loop (`go readCommitFromRaft`) before the
caller applied the replayed entries (`readReplayForReplication`): entries committed meanwhile could be
applied first. Disabled when the regenerated `commitLoopAfterReplay` holds. -/
def restartNodeLate (clog : List Ent) (bounds : List Nat) (x : Node) : Node :=
  let y := restartNode clog bounds x
  { y with mem := [], replayQ := y.mem }

def doRestartLate (s : State) (n : Nat) : Option State :=
  if commitLoopAfterReplay then none   -- the commit loop waits for the replay: `restart` is the whole story
  else
    match s.nodes[n]? with
    | some x => if !x.up then some (setNode s n (restartNodeLate s.clog s.bounds x)) else none
    | none => none

def doReplayLate (s : State) (n : Nat) : Option State :=
  if commitLoopAfterReplay then none
  else
    match s.nodes[n]? with
    | some x => if x.up then some (setNode s n { x with mem := x.mem ++ x.replayQ, replayQ := [] }) else none
    | none => none

def doRaftLead (s : State) (l : Nat) : Option State :=
  match s.nodes[l]? with
  | some x =>
    let upCnt := (s.nodes.filter (·.up)).length
    if x.up && x.last == s.clog.length && 2 * upCnt > s.nodes.length then
      some { s with leader := some l, inflight := s.inflight ++ [{ cmd := .noop, prop := l }] }
    else none
  | none => none

def onlineCount (alive : List Bool) : Nat := (alive.filter id).length

/-- updatePtViewStatus(Offline) + ReplicaGroup.nextHealth: Health → SubHealth once no more than
half (integer division) of the partitions are online -/
def doMetaDown (s : State) (n : Nat) : Option State :=
  if n < s.alive.length then
    let alive := s.alive.set n false
    some { s with alive := alive,
                  health := if s.health && decide (onlineCount alive ≤ s.alive.length / 2) then false else s.health }
  else none

/-- updatePtStatus(Online) + ReplicaGroup.nextSubHealth: SubHealth → Health once more than half are online -/
def doMetaUp (s : State) (n : Nat) : Option State :=
  if n < s.alive.length then
    let alive := s.alive.set n true
    some { s with alive := alive,
                  health := if !s.health && decide (onlineCount alive > s.alive.length / 2) then true else s.health }
  else none

/-- Client.getAliveShardsForRepDB: the partition whose shard requests are mapped to - the master
while the group is Health, otherwise the first partition that is online -/
def route (s : State) : Option Nat :=
  (List.range s.alive.length).find? (fun i => if s.health then i == s.master else s.alive.getD i false)

/-- PointsWriter.writeRowToShard for one request: send it to the store that owns the target
partition; a store that cannot be reached gives a retryable error (nothing changes, the loop asks
again until its time-out) -/
def doCoordWrite (s : State) (c : Cmd) (size : Nat) : Option State :=
  match route s with
  | some p => match doPropose s p c size with
    | some s' => some s'
    | none => some s
  | none => some s

def doElect (s : State)  : Option State :=
  -- cluster_manager.processReplication / electRgMaster: the first Slave peer whose pt is Online
  if s.alive.getD s.master false then none
  else
    match s.peers.find? (fun p => s.alive.getD p false) with
    | some p => some { s with master := p, peers := s.peers.map (fun q => if q = p then s.master else q) }
    | none => none

def doSetMaster (s : State) (m : Nat) : Option State :=
  -- Data.GetNewRg: any peer, no liveness check
  if m ≠ s.master && s.peers.contains m then
    some { s with master := m, peers := s.master :: s.peers.filter (· ≠ m) }
  else none

def step (s : State) : Op → Option State
  | .propose p c size => doPropose s p c size
  | .giveUp p seq => doGiveUp s p seq
  | .commit j q => doCommit s j q
  | .sync n => doSync s n
  | .publish n => doPublish s n
  | .apply n fail upd => doApply s n fail upd
  | .flushBegin n sh => doFlushBegin s n sh
  | .flushEnd n sh => doFlushEnd s n sh
  | .truncPropose forced ms => doTruncPropose s forced ms
  | .truncBySize n => doTruncBySize s n
  | .kill n => doKill s n
  | .restart n => doRestart s n
  | .restartLate n => doRestartLate s n
  | .replayLate n => doReplayLate s n
  | .raftLead l => doRaftLead s l
  | .metaDown n => doMetaDown s n
  | .metaUp n => doMetaUp s n
  | .elect => doElect s
  | .setMaster m => doSetMaster s m
  | .coordWrite c size => doCoordWrite s c size

/-- the conf-change entries of the bootstrap, one per size -/
def bootLog (s : State) : List Nat → State
  | [] => s
  | sz :: rest =>
    bootLog { advanceFiles s (s.clog.length + 1) sz with clog := s.clog ++ [{ cmd := .noop, size := sz }] } rest

/-- the state after the bootstrap of `n` nodes: every node holds the n conf-change entries (sizes
`szs`), committed and applied -/
def boot (n : Nat) (szs : List Nat) : State :=
  let s := bootLog { nodes := [], alive := List.replicate n true, master := 0, peers := (List.range n).drop 1 }
    ((List.range n).map (fun i => szs.getD i 0))
  { s with nodes := List.replicate n { last := n, hsCommit := n, pub := n, applied := n } }

def run (s : State) : List Op → Option State
  | [] => some s
  | o :: os => match step s o with
    | some s' => run s' os
    | none => none

end OG.C05
