/-
C05 — property theorems (first part; the invariant proofs over the step relation are in Inv*.lean).
-/
import OG.C05.Model

namespace OG.C05
open OG.Gen.C05

/-- The writer is answered `ok` only if the local apply succeeded (dealCommitData hands the result
of dealNormalData to the waiting writer). -/
theorem ack_ok_only_after_successful_apply (x : Node) (e : Ent) (n u : Nat) (ok : Bool)
    (h : ackFor x e n ok = some (u, true)) : ok = true := by
  unfold ackFor at h
  split at h
  · split at h
    · simp [ackCarriesApplyResult] at h
      exact h.2
    · cases h
  · cases h

example : ackFor { pending := [(1, 7)] } { cmd := .write 1 2 0, prop := 0, ptag := lifeTag 1, pseq := 1 } 0 false = some (7, false) := by decide

/-- The start-up replay reads the entries from the snapshot index (or 1) through the commit index. -/
theorem replay_from_snapshot_through_commit (snap commit : Nat) :
    replayRange snap commit = (if snap = 0 then 1 else snap, commit + 1) := by
  unfold replayRange
  by_cases h : snap = 0 <;> simp [h]

end OG.C05
