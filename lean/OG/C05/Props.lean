/-
C05 — replicated data survives the loss of a minority of store nodes: the property theorems.

All statements are about `run (boot n szs) os`: any number of nodes, any sequence of steps (writes
incl. overwrites, commits on any quorum, catch-up, apply, flush begin / end, truncation, kill and
restart of any node at any point between two steps, raft and meta elections). Three invariants
carry them (InvAck, InvLog, InvData). Where the unchanged code does not satisfy the full statement
the file keeps it as a `def … : Prop`, proves its negation from a concrete run (`decide`) and proves
the `_partial` theorem under a decidable hypothesis on the steps that excludes exactly the defect
class (`LogOK`, `DataOK`).
-/
import OG.C05.Catchup

namespace OG.C05
open OG.Gen.C05

/-! ### answers to writers -/

/-- Every answer a writer gets — ok or error — is about a committed entry that this writer
proposed (never about another proposal, e.g. one of an earlier life of the node). -/
theorem acked_is_committed (n : Nat) (szs : List Nat) (os : List Op) (s : State)
    (h : run (boot n szs) os = some s) :
    ∀ a ∈ s.acked, ∃ i e, entAt s.clog i = some e ∧ e.isW = true ∧ e.uid = a.1 := by
  intro a ha
  obtain ⟨i, e, h1, h2, h3, _⟩ := (ackInv_run (ackInv_boot n szs) h).acks a ha
  exact ⟨i, e, h1, h2, h3⟩

/-- A writer is answered `ok` only after the node it wrote to (the proposer, i.e. the master
partition's node) applied its entry successfully. -/
theorem acked_is_applied_on_leader (n : Nat) (szs : List Nat) (os : List Op) (s : State)
    (h : run (boot n szs) os = some s) :
    ∀ a ∈ s.acked, a.2 = true →
      ∃ i e, entAt s.clog i = some e ∧ e.isW = true ∧ e.uid = a.1 ∧ (e.prop, i) ∈ s.ghostApplied := by
  intro a ha hok
  obtain ⟨i, e, h1, h2, h3, h4⟩ := (ackInv_run (ackInv_boot n szs) h).acks a ha
  exact ⟨i, e, h1, h2, h3, h4 hok⟩

/-- The writer is answered `ok` only if the local apply succeeded (dealCommitData hands the result
of dealNormalData to the waiting writer). -/
theorem ack_ok_only_after_successful_apply (x : Node) (e : Ent) (n u : Nat) (ok : Bool)
    (h : ackFor x e n ok = some (u, true)) : ok = true := by
  unfold ackFor at h
  split at h
  · split at h
    · simp [ackCarriesApplyResult] at h
      exact h.2
    · cases h
  · cases h

def mib : Nat := 1048576

/-- non-vacuity: a run in which a writer is answered ok, and one in which the apply fails on the
proposer and the writer gets the error -/
def ackRun (fail : Bool) : List Op := [
  .raftLead 0, .commit 0 [0, 1, 2], .propose 0 (.write 7 42 0) 60, .commit 0 [0, 1],
  .publish 0, .apply 0 false false, .apply 0 fail true]

example : (run (boot 3 [6, 6, 6]) (ackRun false)).map (·.acked) = some [(1, true)] := by decide
example : (run (boot 3 [6, 6, 6]) (ackRun true)).map (·.acked) = some [(1, false)] := by decide

/-! ### truncation of the entry log -/

/-- `truncate_safe`, full statement: along every run, every node still has the entry any member
needs next, can replay from its own snapshot index, and no member was ever moved forward by a
(dataless) snapshot. -/
def TruncateSafe (s : State) : Prop :=
  (∀ (a b : Nat) (x y : Node), s.nodes[a]? = some x → s.nodes[b]? = some y → x.first ≤ y.last + 1) ∧
  (∀ (a : Nat) (x : Node), s.nodes[a]? = some x → (x.first ≤ 1 ∨ x.first ≤ x.snapIdx) ∧ x.holes = [])

def truncate_safe_full : Prop :=
  ∀ (n : Nat) (szs : List Nat) (os : List Op) (s : State), n < maxU64 → run (boot n szs) os = some s → TruncateSafe s

/-- With the index rule of genProposeData (minimum Match of all members, file of the snapshot
index) and the clamp of a ClearEntryLog entry to the node's own snapshot index, truncation by
ClearEntryLog entries is safe — for every run in which the three truncation paths that do not look
at the members' progress (forced, by size, raftlog.Init at a restart) strand nobody (`LogOK`). -/
theorem truncate_safe_partial (n : Nat) (szs : List Nat) (os : List Op) (s : State) (hn : n < maxU64)
    (hok : runOK LogOK (boot n szs) os = true) (h : run (boot n szs) os = some s) : TruncateSafe s := by
  have hL := logInv_run (boot_inv n szs hn).1 hok h
  exact ⟨hL.avail, fun a x hx => ⟨(hL.node a x hx).replayable, (hL.node a x hx).noHoles⟩⟩

def availB (s : State) : Bool := s.nodes.all (fun x => s.nodes.all (fun y => decide (x.first ≤ y.last + 1)))

/-- forced truncation (after the tolerate time the minimum Match is taken over the active members
only): node 2 is down, two 20 MiB writes fill the first entry file, the leader flushes and truncates -/
def forcedRun : List Op := [
  .raftLead 0, .commit 0 [0, 1, 2], .kill 2, .metaDown 2,
  .propose 0 (.write 1 1 0) (20 * mib), .commit 0 [0, 1], .propose 0 (.write 2 2 0) (20 * mib), .commit 0 [0, 1],
  .publish 0, .apply 0 false false, .apply 0 false false, .apply 0 false true,
  .flushBegin 0 0, .flushEnd 0 0,
  .truncPropose true [(0, 6), (1, 6), (2, 3)], .commit 0 [0, 1], .publish 0, .apply 0 false true]

theorem forcedRun_strands : (run (boot 3 [6, 6, 6]) forcedRun).map availB = some false := by decide

/-- the same run is allowed by `LogOK` up to the forced truncation, which it refuses -/
example : runOK LogOK (boot 3 [6, 6, 6]) (forcedRun.take 14) = true := by decide
example : runOK LogOK (boot 3 [6, 6, 6]) forcedRun = false := by decide

theorem truncate_safe_full_fails : ¬ truncate_safe_full := by
  intro h
  have hrun : ∃ s, run (boot 3 [6, 6, 6]) forcedRun = some s ∧ availB s = false := by
    have := forcedRun_strands
    cases hr : run (boot 3 [6, 6, 6]) forcedRun with
    | none => rw [hr] at this; cases this
    | some s => rw [hr] at this; exact ⟨s, rfl, by simpa using this⟩
  obtain ⟨s, hs, hb⟩ := hrun
  have hts := (h 3 [6, 6, 6] forcedRun s (by decide) hs).1
  have : availB s = true := by
    unfold availB
    simp only [List.all_eq_true, decide_eq_true_eq]
    intro x hx y hy
    obtain ⟨a, ha⟩ := List.getElem?_of_mem hx
    obtain ⟨b, hb'⟩ := List.getElem?_of_mem hy
    exact hts a b x y ha hb'
  rw [this] at hb; cases hb

/-- non-vacuity of the partial theorem: a run with a real truncation (two entry files, the first one
dropped on every node by a ClearEntryLog entry) that `LogOK` allows -/
def truncRun : List Op := [
  .raftLead 0, .commit 0 [0, 1, 2],
  .propose 0 (.write 1 1 0) (20 * mib), .commit 0 [0, 1, 2], .propose 0 (.write 2 2 0) (20 * mib), .commit 0 [0, 1, 2],
  .publish 0, .apply 0 false false, .apply 0 false false, .apply 0 false true, .flushBegin 0 0, .flushEnd 0 0,
  .sync 1, .publish 1, .apply 1 false false, .apply 1 false false, .apply 1 false true, .flushBegin 1 0, .flushEnd 1 0,
  .truncPropose false [(0, 6), (1, 6), (2, 6)], .commit 0 [0, 1, 2], .publish 0, .apply 0 false true,
  .sync 1, .publish 1, .apply 1 false true]

example : runOK LogOK (boot 3 [6, 6, 6]) truncRun = true := by decide
example : (run (boot 3 [6, 6, 6]) truncRun).map (fun s => s.nodes.map (·.first)) = some [6, 6, 1] := by decide

/-! ### what a node holds -/

/-- `restart_replays_all` / `minority_loss_readable`, full statements -/
def NodeExact (s : State) : Prop :=
  ∀ (a : Nat) (x : Node), s.nodes[a]? = some x → x.up = true →
    ∀ k, readNode s.clog x k = look s.clog k (idxRange 1 (x.applied + 1))

def restart_replays_all_full : Prop :=
  ∀ (n : Nat) (szs : List Nat) (os : List Op) (s : State), n < maxU64 → run (boot n szs) os = some s → NodeExact s

/-- Every running node holds (data files ∪ table being flushed ∪ memtable) exactly the committed
writes up to its applied index, last write per key — in particular right after a restart, where
the applied index is the durable commit index: the replay from the snapshot index restores all of
them. For runs with one shard per partition and no failing apply (`DataOK`), and `LogOK`. -/
theorem restart_replays_all_partial (n : Nat) (szs : List Nat) (os : List Op) (s : State) (hn : n < maxU64)
    (hok : runOK AllOK (boot n szs) os = true) (h : run (boot n szs) os = some s) : NodeExact s := by
  obtain ⟨_, hD⟩ := inv_run (boot_inv n szs hn).1 (boot_inv n szs hn).2 hok h
  intro a x hx hu k
  exact ((hD.node a x hx).up hu).dataEq k

/-- after a restart step the applied index is the durable commit index -/
theorem restart_applied (clog : List Ent) (b : List Nat) (x : Node) :
    (restartNode clog b x).applied = x.hsCommit ∧ (restartNode clog b x).up = true := by
  simp [restartNode]

def minority_loss_readable_full : Prop :=
  ∀ (n : Nat) (szs : List Nat) (os : List Op) (s : State), n < maxU64 → run (boot n szs) os = some s →
    ∀ (a : Nat) (x : Node), s.nodes[a]? = some x → x.up = true → x.applied = s.clog.length →
      ∀ k, readNode s.clog x k = specRead s.clog k

/-- Whatever nodes were killed and restarted, whenever, and whichever node ts-meta makes master:
a node that has applied the committed log answers every key with its latest committed write — so
every acknowledged write (it is committed: `acked_is_committed`) is readable with its latest value. -/
theorem minority_loss_readable_partial (n : Nat) (szs : List Nat) (os : List Op) (s : State) (hn : n < maxU64)
    (hok : runOK AllOK (boot n szs) os = true) (h : run (boot n szs) os = some s) :
    ∀ (a : Nat) (x : Node), s.nodes[a]? = some x → x.up = true → x.applied = s.clog.length →
      ∀ k, readNode s.clog x k = specRead s.clog k := by
  intro a x hx hu hap k
  have := restart_replays_all_partial n szs os s hn hok h a x hx hu k
  rw [hap] at this
  exact this

/-- Which replica answers does not change the answer. -/
theorem replica_choice_irrelevant (n : Nat) (szs : List Nat) (os : List Op) (s : State) (hn : n < maxU64)
    (hok : runOK AllOK (boot n szs) os = true) (h : run (boot n szs) os = some s)
    (a b : Nat) (x y : Node) (hx : s.nodes[a]? = some x) (hy : s.nodes[b]? = some y)
    (hxu : x.up = true) (hyu : y.up = true) (hxa : x.applied = s.clog.length) (hya : y.applied = s.clog.length) :
    ∀ k, readNode s.clog x k = readNode s.clog y k := by
  intro k
  rw [minority_loss_readable_partial n szs os s hn hok h a x hx hxu hxa k,
    minority_loss_readable_partial n szs os s hn hok h b y hy hyu hya k]

/-- A member that lags catches up from the log: the leader always has its next entry (no snapshot
is ever needed), under `LogOK`. -/
theorem catch_up_from_log (n : Nat) (szs : List Nat) (os : List Op) (s : State) (hn : n < maxU64)
    (hok : runOK LogOK (boot n szs) os = true) (h : run (boot n szs) os = some s)
    (l m : Nat) (lx x : Node) (hl : s.nodes[l]? = some lx) (hx : s.nodes[m]? = some x) :
    x.last + 1 ≥ lx.first :=
  (truncate_safe_partial n szs os s hn hok h).1 l m lx x hl hx

/-! ### ts-meta and the coordinator -/

theorem find_range_eq (n m : Nat) (hm : m < n) : (List.range n).find? (fun i => i == m) = some m := by
  induction n with
  | zero => omega
  | succ n ih =>
    rw [List.range_succ, List.find?_append]
    by_cases h : m < n
    · rw [ih h]; rfl
    · have : m = n := by omega
      subst this
      have hnone : (List.range m).find? (fun i => i == m) = none := by
        apply List.find?_eq_none.mpr
        intro i hi
        have := List.mem_range.mp hi
        simp; omega
      rw [hnone]
      simp

/-- While the group is Health (a majority of its partitions online) requests are routed to the master. -/
theorem route_when_healthy (s : State) (hh : s.health = true) (hm : s.master < s.alive.length) :
    route s = some s.master := by
  unfold route
  simp only [hh, if_true]
  exact find_range_eq _ _ hm

/-- electRgMaster: the new master is a peer that ts-meta sees online, the old master (not online)
becomes a peer. -/
theorem elect_picks_online_peer (s s' : State) (h : doElect s = some s') :
    s'.master ∈ s.peers ∧ s.alive.getD s'.master false = true ∧ s.alive.getD s.master false = false ∧
    s.master ∈ s'.peers := by
  unfold doElect at h
  split at h
  · cases h
  · rename_i hnot
    split at h
    · rename_i p hp
      cases h
      have hmem := List.mem_of_find?_eq_some hp
      have hal := List.find?_some hp
      refine ⟨hmem, hal, by simpa using hnot, ?_⟩
      simp only [List.mem_map]
      exact ⟨p, hmem, by simp⟩
    · cases h

/-- `write_accepted_after_new_leader`: once ts-meta has made an online peer master (and the group is
Health), the coordinator's next request is routed to the new master's store and - that store being
up - accepted there: a waiter is registered and the proposal is in flight. (That it is then
committed by any quorum and answered only after the store applied it: `acked_is_committed`,
`acked_is_applied_on_leader`; the run `electRun` below goes all the way.) -/
theorem write_accepted_after_new_leader (s s1 : State) (k v size : Nat) (x : Node)
    (he : doElect s = some s1) (hh : s1.health = true) (hm : s1.master < s1.alive.length)
    (hx : s1.nodes[s1.master]? = some x) (hup : x.up = true) :
    s.alive.getD s1.master false = true ∧
    ∃ s2 e y, step s1 (.coordWrite (.write k v 0) size) = some s2 ∧ s2.inflight = s1.inflight ++ [e] ∧
      e.cmd = .write k v 0 ∧ e.prop = s1.master ∧ e.uid = s1.nextUid ∧
      s2.nodes[s1.master]? = some y ∧ (e.pseq, e.uid) ∈ y.pending ∧ e.ptag = lifeTag y.life := by
  refine ⟨(elect_picks_online_peer s s1 he).2.1, ?_⟩
  have hlt : s1.master < s1.nodes.length := by
    rcases List.getElem?_eq_some_iff.mp hx with ⟨hl, _⟩; exact hl
  let e : Ent := { cmd := .write k v 0, size := size, prop := s1.master, ptag := lifeTag x.life, pseq := x.nextSeq + 1, uid := s1.nextUid }
  let y : Node := { x with pending := x.pending ++ [(x.nextSeq + 1, s1.nextUid)], nextSeq := x.nextSeq + 1 }
  have hstep : step s1 (.coordWrite (.write k v 0) size) =
      some { setNode s1 s1.master y with inflight := s1.inflight ++ [e], nextUid := s1.nextUid + 1 } := by
    simp only [step, doCoordWrite, route_when_healthy s1 hh hm, doPropose, hx]
    rw [if_pos hup]
  refine ⟨_, e, y, hstep, rfl, rfl, rfl, rfl, ?_, ?_, rfl⟩
  · show (setNode s1 s1.master y).nodes[s1.master]? = some y
    rw [getElem?_setNode]; simp [hlt]
  · show (x.nextSeq + 1, s1.nextUid) ∈ x.pending ++ [(x.nextSeq + 1, s1.nextUid)]
    simp

/-! ### non-vacuity and the negations -/

def readB (s : State) (a k : Nat) : Option (Option Nat × Option Nat × Bool) :=
  match s.nodes[a]? with
  | some x => some (readNode s.clog x k, specRead s.clog k, x.up && x.applied == s.clog.length)
  | none => none

/-- a run with an overwrite, a flush, a kill during the flush of a follower, restarts and a meta
election, all allowed: every node answers the latest value -/
def goodRun : List Op := [
  .raftLead 0, .commit 0 [0, 1, 2],
  .propose 0 (.write 1 10 0) 60, .commit 0 [0, 1, 2], .propose 0 (.write 1 11 0) 60, .commit 0 [0, 1],
  .publish 0, .apply 0 false false, .apply 0 false false, .apply 0 false true,
  .sync 1, .publish 1, .apply 1 false false, .apply 1 false false, .apply 1 false true,
  .flushBegin 1 0, .kill 1, .restart 1,
  .flushBegin 0 0, .flushEnd 0 0, .kill 0, .metaDown 0, .elect, .raftLead 1, .sync 2, .commit 0 [1, 2],
  .restart 0, .sync 0, .publish 0, .apply 0 false true,
  .sync 2, .publish 2, .apply 2 false false, .apply 2 false false, .apply 2 false false, .apply 2 false true]

example : runOK AllOK (boot 3 [6, 6, 6]) goodRun = true := by decide
example : (run (boot 3 [6, 6, 6]) goodRun).bind (fun s => readB s 0 1) = some (some 11, some 11, true) := by decide
example : (run (boot 3 [6, 6, 6]) goodRun).bind (fun s => readB s 1 1) = some (some 11, some 11, false) := by decide
example : (run (boot 3 [6, 6, 6]) goodRun).bind (fun s => readB s 2 1) = some (some 11, some 11, true) := by decide
example : (run (boot 3 [6, 6, 6]) goodRun).map (·.master) = some 1 := by decide

/-- node 0 (master and raft leader) dies after an acknowledged write; ts-meta elects node 1, node 1
wins the raft election, the coordinator's next write goes to node 1 and is acknowledged -/
def electRun : List Op := [
  .raftLead 0, .commit 0 [0, 1, 2], .coordWrite (.write 1 10 0) 60, .commit 0 [0, 1, 2],
  .publish 0, .apply 0 false false, .apply 0 false true,
  .kill 0, .metaDown 0, .elect, .raftLead 1, .sync 2, .commit 0 [1, 2],
  .coordWrite (.write 1 11 0) 60, .commit 0 [1, 2], .publish 1, .apply 1 false false, .apply 1 false false, .apply 1 false false, .apply 1 false true]

example : runOK AllOK (boot 3 [6, 6, 6]) electRun = true := by decide
example : (run (boot 3 [6, 6, 6]) electRun).map (fun s => (s.master, s.acked)) = some (1, [(1, true), (2, true)]) := by decide
example : (run (boot 3 [6, 6, 6]) electRun).bind (fun s => readB s 1 1) = some (some 11, some 11, true) := by decide

/-- two shards: the flush of shard 0 moves the snapshot index over the write of shard 1 -/
def multishardRun : List Op := [
  .raftLead 0, .commit 0 [0, 1, 2],
  .propose 0 (.write 1 10 1) 60, .commit 0 [0, 1, 2], .propose 0 (.write 2 20 0) 60, .commit 0 [0, 1, 2],
  .sync 1, .publish 1, .apply 1 false false, .apply 1 false false, .apply 1 false true,
  .flushBegin 1 0, .flushEnd 1 0, .kill 1, .restart 1]

theorem multishardRun_loses :
    (run (boot 3 [6, 6, 6]) multishardRun).bind (fun s => readB s 1 1) = some (none, some 10, true) := by decide

/-- the apply of a committed entry fails on a follower and is only logged -/
def applyFailRun : List Op := [
  .raftLead 0, .commit 0 [0, 1, 2], .propose 0 (.write 1 10 0) 60, .commit 0 [0, 1, 2],
  .sync 1, .publish 1, .apply 1 false false, .apply 1 true true]

theorem applyFailRun_loses :
    (run (boot 3 [6, 6, 6]) applyFailRun).bind (fun s => readB s 1 1) = some (none, some 10, true) := by decide

/-- the member stranded by `forcedRun` rejoins: raft moves it forward by a snapshot without rows -/
def installRun : List Op := forcedRun ++ [.restart 2, .sync 2, .publish 2, .apply 2 false true]

theorem installRun_loses :
    (run (boot 3 [6, 6, 6]) installRun).bind (fun s => readB s 2 1) = some (none, some 1, true) := by decide

/-- The start-up replay cannot race with the commit loop: `startCommitLoop` applies nothing before
the caller has applied the replay (regenerated fact `commitLoopAfterReplay`), so the model's racy
restart (replayed entries applied after newer ones - the code as it was, see the fixed finding
replay_races_with_commit_loop) is not a step any more. -/
theorem restart_replay_not_racy (s : State) (n : Nat) :
    step s (.restartLate n) = none ∧ step s (.replayLate n) = none := by
  simp [step, doRestartLate, doReplayLate, commitLoopAfterReplay]

theorem minority_loss_readable_full_fails : ¬ minority_loss_readable_full := by
  intro h
  have hw := multishardRun_loses
  cases hr : run (boot 3 [6, 6, 6]) multishardRun with
  | none => rw [hr] at hw; cases hw
  | some s =>
    rw [hr] at hw
    simp only [Option.bind_some, readB] at hw
    cases hx : s.nodes[1]? with
    | none => rw [hx] at hw; cases hw
    | some x =>
      rw [hx] at hw
      simp only [Option.some.injEq, Prod.mk.injEq, Bool.and_eq_true, beq_iff_eq] at hw
      obtain ⟨h1, h2, h3, h4⟩ := hw
      have := h 3 [6, 6, 6] multishardRun s (by decide) hr 1 x hx h3 h4 1
      rw [h1, h2] at this
      cases this

theorem restart_replays_all_full_fails : ¬ restart_replays_all_full := by
  intro h
  apply minority_loss_readable_full_fails
  intro n szs os s hn hr a x hx hu hap k
  have := h n szs os s hn hr a x hx hu k
  rw [hap] at this
  exact this

end OG.C05
