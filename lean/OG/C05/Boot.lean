/-
C05 — the invariants hold in the state after the bootstrap.
-/
import OG.C05.InvData

namespace OG.C05
open OG.Gen.C05

theorem bootLog_facts (s : State) (szs : List Nat) :
    (bootLog s szs).inflight = s.inflight ∧ (bootLog s szs).nodes = s.nodes ∧
    (bootLog s szs).clog.length = s.clog.length + szs.length ∧
    (∀ b ∈ s.bounds, b ∈ (bootLog s szs).bounds) ∧
    ((∀ e ∈ s.clog, e.cmd = .noop) → ∀ e ∈ (bootLog s szs).clog, e.cmd = .noop) := by
  induction szs generalizing s with
  | nil => simp [bootLog]
  | cons z rest ih =>
    simp only [bootLog]
    obtain ⟨h1, h2, h3, h4, h5⟩ := ih { advanceFiles s (s.clog.length + 1) z with clog := s.clog ++ [{ cmd := .noop, size := z }] }
    refine ⟨h1.trans (by simp), h2.trans (by simp), ?_, ?_, fun hw => h5 ?_⟩
    · rw [h3]
      show (s.clog ++ [({ cmd := Cmd.noop, size := z } : Ent)]).length + rest.length = s.clog.length + (rest.length + 1)
      simp only [List.length_append, List.length_singleton]; omega
    · intro b hb
      apply h4
      simp only
      rcases advanceFiles_bounds s (s.clog.length + 1) z with h | h <;> rw [h]
      · exact hb
      · exact List.mem_append_left _ hb
    · intro e he
      simp only [List.mem_append, List.mem_singleton] at he
      rcases he with he | he
      · exact hw e he
      · subst he; rfl

theorem look_none {clog : List Ent} (hn : ∀ e ∈ clog, e.cmd = .noop) (k : Nat) (A : List Nat) :
    look clog k A = none := by
  induction A with
  | nil => rfl
  | cons i A ih =>
    simp only [look, ih]
    apply writesKey_of_not_isWrite
    unfold isWrite
    cases he : entAt clog i with
    | none => rfl
    | some e => simp [hn e (mem_of_entAt he)]

/-- the bootstrap state of `n` nodes satisfies the three invariants -/
theorem boot_inv (n : Nat) (szs : List Nat) (hn : n < maxU64) :
    LogInv (boot n szs) ∧ DataInv (boot n szs) := by
  obtain ⟨h1, _, h3, h4, h5⟩ := bootLog_facts
    { nodes := [], alive := List.replicate n true, master := 0, peers := (List.range n).drop 1 }
    ((List.range n).map (fun i => szs.getD i 0))
  have hnoop : ∀ e ∈ (boot n szs).clog, e.cmd = .noop := by
    intro e he; exact h5 (by intro e he; cases he) e he
  have hlen : (boot n szs).clog.length = n := by
    simp only [boot]; rw [h3]; simp
  have hinf : (boot n szs).inflight = [] := by simp only [boot]; rw [h1]
  have h1b : 1 ∈ (boot n szs).bounds := by
    simp only [boot]; exact h4 1 (by simp)
  have hnode : ∀ (m : Nat) (x : Node), (boot n szs).nodes[m]? = some x →
      x = { last := n, hsCommit := n, pub := n, applied := n } ∧ 0 < n := by
    intro m x hx
    simp only [boot] at hx
    rcases List.getElem?_eq_some_iff.mp hx with ⟨hl, hx⟩
    simp only [List.getElem_replicate] at hx
    simp only [List.length_replicate] at hl
    exact ⟨hx.symm, by omega⟩
  have hall : ∀ e ∈ allEnts (boot n szs), e.cmd = .noop := by
    intro e he
    simp only [allEnts, hinf, List.append_nil] at he
    exact hnoop e he
  refine ⟨⟨?_, ?_, ?_, by rw [hlen]; exact hn⟩, ⟨?_, ?_⟩⟩
  · intro m x hx
    obtain ⟨rfl, hpos⟩ := hnode m x hx
    exact ⟨Nat.le_refl _, h1b, hpos, by rw [hlen]; exact Nat.le_refl _, Nat.le_refl _, Nat.zero_le _, Or.inl (Nat.le_refl _), rfl⟩
  · intro a b x y hx hy
    obtain ⟨rfl, _⟩ := hnode a x hx
    obtain ⟨rfl, _⟩ := hnode b y hy
    simp
  · intro e he c hc
    rw [hall e he] at hc; cases hc
  · intro m x hx
    obtain ⟨rfl, _⟩ := hnode m x hx
    refine ⟨Nat.le_refl _, Nat.zero_le _, ?_, ?_, fun _ => ⟨Nat.le_refl _, Nat.le_refl _, Nat.zero_le _, Nat.zero_le _, ?_, ?_, Or.inl rfl⟩⟩
    · intro i hi; cases hi
    · intro k; rw [look_none hnoop, look_none hnoop]
    · intro i hi; simp [Node.data, Node.immIdx] at hi
    · intro k; rw [look_none hnoop, look_none hnoop]
  · intro e he k v sh hc
    rw [hall e he] at hc; cases hc

end OG.C05
