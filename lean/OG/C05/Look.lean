/-
C05 — facts about `look` (last applied write wins) and index ranges, used by the data invariant.
-/
import OG.C05.Model

namespace OG.C05

/-- `a` unless `b` has a value -/
def orr (b a : Option Nat) : Option Nat := match b with | some v => some v | none => a

theorem look_append (clog : List Ent) (k : Nat) (A B : List Nat) :
    look clog k (A ++ B) = orr (look clog k B) (look clog k A) := by
  induction A with
  | nil =>
    simp only [List.nil_append, look, orr]
    cases look clog k B <;> rfl
  | cons i A ih =>
    simp only [List.cons_append, look, ih, orr]
    cases look clog k B <;> rfl

theorem look_singleton (clog : List Ent) (k i : Nat) : look clog k [i] = writesKey clog k i := by
  simp [look]

/-- two index lists give the same answers -/
def Equiv (clog : List Ent) (A B : List Nat) : Prop := ∀ k, look clog k A = look clog k B

theorem Equiv.refl (clog : List Ent) (A : List Nat) : Equiv clog A A := fun _ => rfl

theorem Equiv.append {clog : List Ent} {A B C D : List Nat} (h1 : Equiv clog A B) (h2 : Equiv clog C D) :
    Equiv clog (A ++ C) (B ++ D) := by
  intro k
  rw [look_append, look_append, h1 k, h2 k]

theorem Equiv.trans {clog : List Ent} {A B C : List Nat} (h1 : Equiv clog A B) (h2 : Equiv clog B C) :
    Equiv clog A C := fun k => (h1 k).trans (h2 k)

theorem Equiv.symm {clog : List Ent} {A B : List Nat} (h1 : Equiv clog A B) : Equiv clog B A :=
  fun k => (h1 k).symm

/-- entries that are not writes do not count -/
theorem writesKey_of_not_isWrite {clog : List Ent} {k i : Nat} (h : isWrite clog i = false) :
    writesKey clog k i = none := by
  unfold isWrite at h
  unfold writesKey
  cases he : entAt clog i with
  | none => rfl
  | some e =>
    rw [he] at h
    simp only at h ⊢
    cases hc : e.cmd with
    | write k' v sh => rw [hc] at h; simp at h
    | clear c => rfl
    | noop => rfl

theorem look_filter_isWrite (clog : List Ent) (k : Nat) (A : List Nat) :
    look clog k (A.filter (fun i => isWrite clog i)) = look clog k A := by
  induction A with
  | nil => rfl
  | cons i A ih =>
    simp only [List.filter_cons]
    cases hw : isWrite clog i
    · simp only [Bool.false_eq_true, if_false, look, ih, writesKey_of_not_isWrite hw]
      cases look clog k A <;> rfl
    · simp only [if_true, look, ih]

/-! ### index ranges -/

theorem idxRange_self (lo : Nat) : idxRange lo lo = [] := by simp [idxRange]

theorem idxRange_succ {lo hi : Nat} (h : lo ≤ hi) : idxRange lo (hi + 1) = idxRange lo hi ++ [hi] := by
  unfold idxRange
  have : hi + 1 - lo = (hi - lo) + 1 := by omega
  rw [this, List.range_succ, List.map_append]
  simp only [List.map_cons, List.map_nil]
  congr 2
  omega

theorem idxRange_split {lo mid hi : Nat} (h1 : lo ≤ mid) (h2 : mid ≤ hi) :
    idxRange lo hi = idxRange lo mid ++ idxRange mid hi := by
  induction hi with
  | zero =>
    have : mid = 0 := by omega
    subst this
    have : lo = 0 := by omega
    subst this
    simp [idxRange]
  | succ hi ih =>
    by_cases hm : mid = hi + 1
    · subst hm; simp [idxRange_self]
    · have hmh : mid ≤ hi := by omega
      rw [idxRange_succ (by omega), idxRange_succ hmh, ih hmh, List.append_assoc]

theorem mem_idxRange {lo hi i : Nat} : i ∈ idxRange lo hi ↔ lo ≤ i ∧ i < hi := by
  unfold idxRange
  simp only [List.mem_map, List.mem_range]
  constructor
  · rintro ⟨a, ha, rfl⟩; omega
  · intro h; exact ⟨i - lo, by omega, by omega⟩

/-- the replay argument: entries 1 … a are in the files, lo … c are replayed on top, and lo ≤ a+1:
together they answer like 1 … c -/
theorem equiv_replay (clog : List Ent) {a lo c : Nat} (h1 : 1 ≤ lo) (h2 : lo ≤ a + 1) (h3 : a ≤ c) :
    Equiv clog (idxRange 1 (a + 1) ++ idxRange lo (c + 1)) (idxRange 1 (c + 1)) := by
  intro k
  have e1 : idxRange 1 (a + 1) = idxRange 1 lo ++ idxRange lo (a + 1) := idxRange_split h1 h2
  have e2 : idxRange lo (c + 1) = idxRange lo (a + 1) ++ idxRange (a + 1) (c + 1) := idxRange_split h2 (by omega)
  have e3 : idxRange 1 (c + 1) = idxRange 1 lo ++ idxRange lo (c + 1) := idxRange_split h1 (by omega)
  rw [e3, e1, e2]
  simp only [look_append, orr]
  cases look clog k (idxRange (a + 1) (c + 1)) <;> cases look clog k (idxRange lo (a + 1)) <;> rfl

/-! ### the committed log only grows -/

theorem entAt_append_le {clog : List Ent} {i : Nat} (e : Ent) (h : i ≤ clog.length) :
    entAt (clog ++ [e]) i = entAt clog i := by
  unfold entAt
  split
  · rfl
  · rw [List.getElem?_append_left (by omega)]

theorem look_append_log {clog : List Ent} (e : Ent) (k : Nat) {A : List Nat} (h : ∀ i ∈ A, i ≤ clog.length) :
    look (clog ++ [e]) k A = look clog k A := by
  induction A with
  | nil => rfl
  | cons i A ih =>
    have hi := h i (List.mem_cons_self)
    have hA : ∀ j ∈ A, j ≤ clog.length := fun j hj => h j (List.mem_cons_of_mem _ hj)
    simp only [look, ih hA, writesKey, entAt_append_le e hi]

theorem Equiv.append_log {clog : List Ent} {A B : List Nat} (e : Ent) (h : Equiv clog A B)
    (hA : ∀ i ∈ A, i ≤ clog.length) (hB : ∀ i ∈ B, i ≤ clog.length) : Equiv (clog ++ [e]) A B := by
  intro k
  rw [look_append_log e k hA, look_append_log e k hB]
  exact h k

end OG.C05
