/-
C05 — invariant about the raft logs (truncate_safe): with the index rule of genProposeData and the
clamp of a ClearEntryLog entry to the node's own snapshot index, no node ever drops an entry that a
member still needs, and every node can replay from its own snapshot index.
Hypothesis on the steps (`LogOK`): the truncation paths that do not look at the members' progress
(forced after the tolerate time, by size, the one of raftlog.Init at a restart) are taken only when
they strand nobody — `truncate_safe_full_fails` shows that they can.
-/
import OG.C05.InvAck

namespace OG.C05
open OG.Gen.C05

/-! ### list facts -/

theorem filter_length_lt {l : List Nat} {p q : Nat → Bool} (hpq : ∀ a, p a = true → q a = true)
    {b : Nat} (hb : b ∈ l) (hqb : q b = true) (hpb : p b = false) :
    (l.filter p).length < (l.filter q).length := by
  induction l with
  | nil => cases hb
  | cons a t ih =>
    have hle : ∀ t : List Nat, (t.filter p).length ≤ (t.filter q).length := by
      intro t
      induction t with
      | nil => simp
      | cons c t iht =>
        simp only [List.filter_cons]
        cases hp : p c
        · cases hq : q c <;> simp <;> omega
        · simp [hpq c hp]; exact iht
    simp only [List.filter_cons]
    rcases List.mem_cons.mp hb with h | h
    · subst h
      simp only [hpb, hqb, if_true, List.length_cons]
      have := hle t
      simp
      omega
    · have := ih h
      cases hp : p a
      · cases hq : q a <;> simp <;> omega
      · simp [hpq a hp]; exact this

theorem two_le_length {l : List Nat} {a b : Nat} (ha : a ∈ l) (hb : b ∈ l) (hab : a ≠ b) : 2 ≤ l.length := by
  match l, ha, hb with
  | [c], ha, hb =>
    simp only [List.mem_singleton] at ha hb
    exact absurd (ha.trans hb.symm) hab
  | _ :: _ :: _, _, _ => simp

/-- the heart of genProposeData: whatever file boundary lies at or below the proposed index is at or
below the smallest Match, or is the first retained boundary -/
theorem genIndex_safe {segs : List Nat} {first idx mm : Nat} (hf : first ∈ segs) (hfi : first ≤ idx)
    (hmm : mm ≠ maxU64) {b : Nat} (hb : b ∈ segs) (hbx : b ≤ genIndex (fileOf segs) maxU64 idx mm) :
    b ≤ mm ∨ b = first := by
  unfold genIndex at hbx
  have hne : (mm == maxU64) = false := by simpa using hmm
  simp only [hne] at hbx
  by_cases hfile : fileOf segs mm ≠ fileOf segs idx
  · have : (fileOf segs mm != fileOf segs idx) = true := by simpa using hfile
    simp only [this, if_true] at hbx
    left
    exact Nat.le_trans hbx (Nat.min_le_left _ _)
  · have hfe : fileOf segs mm = fileOf segs idx := by simpa using hfile
    have : (fileOf segs mm != fileOf segs idx) = false := by simp [hfe]
    simp only [this, Bool.false_eq_true, if_false] at hbx
    by_cases hbm : b ≤ mm
    · exact Or.inl hbm
    · right
      have hmi : mm < idx := by omega
      by_cases hbf : b = first
      · exact hbf
      · exfalso
        -- b and first are two files at or below idx, b is above mm: the two file ids differ
        have hlt : (segs.filter (· ≤ mm)).length < (segs.filter (· ≤ idx)).length := by
          apply filter_length_lt (b := b) _ hb
          · simpa using hbx
          · simpa using hbm
          · intro a ha
            simp only [decide_eq_true_eq] at ha ⊢
            omega
        have h2 : 2 ≤ (segs.filter (· ≤ idx)).length := by
          apply two_le_length (a := b) (b := first)
          · exact List.mem_filter.mpr ⟨hb, by simpa using hbx⟩
          · exact List.mem_filter.mpr ⟨hf, by simpa using hfi⟩
          · exact hbf
        have hle : (segs.filter (· ≤ idx)).length ≤ segs.length := List.length_filter_le _ _
        unfold fileOf at hfe
        simp only [] at hfe
        split at hfe
        · omega
        · split at hfe
          · omega
          · split at hfe <;> split at hfe <;> (try split at hfe) <;> (try split at hfe) <;> omega

/-- `delBefore` returns the old first index or a retained boundary at or below `i` -/
theorem delBefore_cases (x : Node) (bounds : List Nat) (i : Nat) :
    delBefore x bounds i = x.first ∨
    (delBefore x bounds i ∈ bounds ∧ x.first ≤ delBefore x bounds i ∧ delBefore x bounds i ≤ i ∧
      delBefore x bounds i ≤ x.last) := by
  unfold delBefore
  split
  · rename_i b hb
    right
    have hm := List.mem_of_getLast? hb
    have h1 := List.mem_filter.mp hm
    have h2 := List.mem_filter.mp h1.1
    simp only [Node.segs, Bool.and_eq_true, decide_eq_true_eq] at h2
    exact ⟨h2.1, h2.2.1, by simpa using h1.2, h2.2.2⟩
  · exact Or.inl rfl

theorem clearIndex_le (idx snap : Nat) : clearIndex idx snap ≤ snap ∧ clearIndex idx snap ≤ idx := by
  unfold clearIndex
  split <;> rename_i h <;> simp only [decide_eq_true_eq] at h <;> omega

/-! ### the invariant -/

structure NodeLog (s : State) (x : Node) : Prop where
  first1 : 1 ≤ x.first
  firstB : x.first ∈ s.bounds
  firstL : x.first ≤ x.last
  lastC : x.last ≤ s.clog.length
  hsL : x.hsCommit ≤ x.last
  snapL : x.snapIdx ≤ x.last
  replayable : x.first ≤ 1 ∨ x.first ≤ x.snapIdx
  noHoles : x.holes = []

structure LogInv (s : State) : Prop where
  node : ∀ (n : Nat) (x : Node), s.nodes[n]? = some x → NodeLog s x
  /-- every node still has the entry any member needs next -/
  avail : ∀ (n m : Nat) (x y : Node), s.nodes[n]? = some x → s.nodes[m]? = some y → x.first ≤ y.last + 1
  /-- what a ClearEntryLog entry allows to drop, every member already holds -/
  clears : ∀ e ∈ allEnts s, ∀ c, e.cmd = .clear c → c ≤ s.clog.length ∧
    ∀ b ∈ s.bounds, b ≤ c → ∀ (m : Nat) (y : Node), s.nodes[m]? = some y → b ≤ y.last + 1
  small : s.clog.length < maxU64

/-- one node changes: its log only grows at the end, and what it drops at the front nobody needs -/
theorem LogInv.update {s : State} (h : LogInv s) {n : Nat} {x y : Node} (hx : s.nodes[n]? = some x)
    (hy : NodeLog s y) (hl : x.last ≤ y.last)
    (hav : ∀ (m : Nat) (z : Node), s.nodes[m]? = some z → y.first ≤ z.last + 1) : LogInv (setNode s n y) := by
  have hlt : n < s.nodes.length := by
    rcases List.getElem?_eq_some_iff.mp hx with ⟨hl, _⟩; exact hl
  -- every node of the new state is the changed one or an old one, and its last index did not shrink
  have hold : ∀ (m : Nat) (z' : Node), (setNode s n y).nodes[m]? = some z' →
      (m = n ∧ z' = y) ∨ (m ≠ n ∧ s.nodes[m]? = some z') := by
    intro m z' hz'
    rw [getElem?_setNode] at hz'
    split at hz'
    · rename_i hnm
      simp only [hlt, if_true, Option.some.injEq] at hz'
      exact Or.inl ⟨hnm.symm, hz'.symm⟩
    · rename_i hnm
      exact Or.inr ⟨fun h => hnm h.symm, hz'⟩
  have hlast : ∀ (m : Nat) (z' : Node), (setNode s n y).nodes[m]? = some z' → ∃ z : Node, s.nodes[m]? = some z ∧ z.last ≤ z'.last := by
    intro m z' hz'
    rcases hold m z' hz' with ⟨hm, hz⟩ | ⟨_, hz⟩
    · subst hm; subst hz; exact ⟨x, hx, hl⟩
    · exact ⟨z', hz, Nat.le_refl _⟩
  refine ⟨?_, ?_, ?_, h.small⟩
  · intro m z' hz'
    rcases hold m z' hz' with ⟨_, hz⟩ | ⟨_, hz⟩
    · subst hz; exact ⟨hy.first1, hy.firstB, hy.firstL, hy.lastC, hy.hsL, hy.snapL, hy.replayable, hy.noHoles⟩
    · have := h.node m z' hz
      exact ⟨this.first1, this.firstB, this.firstL, this.lastC, this.hsL, this.snapL, this.replayable, this.noHoles⟩
  · intro a b xa yb hxa hyb
    obtain ⟨z, hz, hzl⟩ := hlast b yb hyb
    rcases hold a xa hxa with ⟨_, hxa'⟩ | ⟨_, hxa'⟩
    · subst hxa'
      have := hav b z hz
      omega
    · have := h.avail a b xa z hxa' hz
      omega
  · intro e he c hc
    have := h.clears e he c hc
    refine ⟨this.1, fun b hb hbc m z' hz' => ?_⟩
    obtain ⟨z, hz, hzl⟩ := hlast m z' hz'
    have := this.2 b hb hbc m z hz
    omega

/-- a change of a node that leaves its log fields alone -/
theorem LogInv.updateSame {s : State} (h : LogInv s) {n : Nat} {x y : Node} (hx : s.nodes[n]? = some x)
    (h1 : y.first = x.first) (h2 : y.last = x.last) (h3 : y.hsCommit = x.hsCommit) (h4 : y.snapIdx = x.snapIdx)
    (h5 : y.holes = x.holes) : LogInv (setNode s n y) := by
  have hn := h.node n x hx
  refine h.update hx ⟨by rw [h1]; exact hn.first1, by rw [h1]; exact hn.firstB, by rw [h1, h2]; exact hn.firstL,
    by rw [h2]; exact hn.lastC, by rw [h3, h2]; exact hn.hsL, by rw [h4, h2]; exact hn.snapL,
    by rw [h1, h4]; exact hn.replayable, by rw [h5]; exact hn.noHoles⟩ (by rw [h2]; exact Nat.le_refl _) ?_
  intro m z hz
  rw [h1]
  exact h.avail n m x z hx hz

/-- what makes a ClearEntryLog index harmless -/
def ClearOK (s : State) (c : Nat) : Prop :=
  c ≤ s.clog.length ∧ ∀ b ∈ s.bounds, b ≤ c → ∀ (m : Nat) (y : Node), s.nodes[m]? = some y → b ≤ y.last + 1

/-- only nodes, committed log, proposals in flight and file boundaries matter -/
theorem LogInv.frame {s s' : State} (h : LogInv s) (hn : s'.nodes = s.nodes) (hc : s'.clog = s.clog)
    (hb : s'.bounds = s.bounds)
    (hi : ∀ e ∈ s'.inflight, ∀ c, e.cmd = .clear c → e ∈ s.inflight ∨ ClearOK s c) : LogInv s' := by
  refine ⟨?_, ?_, ?_, by rw [hc]; exact h.small⟩
  · intro n x hx
    rw [hn] at hx
    have := h.node n x hx
    exact ⟨this.first1, by rw [hb]; exact this.firstB, this.firstL, by rw [hc]; exact this.lastC, this.hsL,
      this.snapL, this.replayable, this.noHoles⟩
  · intro n m x y hx hy
    rw [hn] at hx hy
    exact h.avail n m x y hx hy
  · intro e he c hcmd
    simp only [allEnts, hc, List.mem_append] at he
    have hok : ClearOK s c := by
      rcases he with he | he
      · exact h.clears e (by simp [allEnts, he]) c hcmd
      · rcases hi e he c hcmd with h1 | h1
        · exact h.clears e (by simp [allEnts, h1]) c hcmd
        · exact h1
    rw [hc, hb, hn]
    exact hok

theorem snapTo_cases (x : Node) (i : Nat) :
    snapTo x i = x.snapIdx ∨ (snapTo x i = i ∧ x.first ≤ i ∧ i ≤ x.last) := by
  unfold snapTo
  split
  · exact Or.inl rfl
  · split
    · exact Or.inl rfl
    · split
      · exact Or.inl rfl
      · right; exact ⟨rfl, by omega, by omega⟩

theorem genIndex_le (f : Nat → Int) (idx mm : Nat) : genIndex f maxU64 idx mm ≤ idx := by
  unfold genIndex
  split
  · exact Nat.le_refl _
  · simp only []
    split
    · exact Nat.min_le_right _ _
    · exact Nat.le_refl _

theorem minMatchOf_le {ms : List (Nat × Nat)} {p : Nat × Nat} (hp : p ∈ ms) : minMatchOf ms ≤ p.2 := by
  unfold minMatchOf
  have gen : ∀ (l : List (Nat × Nat)) (a : Nat),
      l.foldl (fun m p => if p.2 < m then p.2 else m) a ≤ a ∧
      ∀ p ∈ l, l.foldl (fun m p => if p.2 < m then p.2 else m) a ≤ p.2 := by
    intro l
    induction l with
    | nil => intro a; exact ⟨Nat.le_refl _, fun p hp => by cases hp⟩
    | cons q t ih =>
      intro a
      simp only [List.foldl_cons]
      by_cases hq : q.2 < a
      · simp only [hq, if_true]
        have h1 := ih q.2
        refine ⟨by have := h1.1; omega, ?_⟩
        intro p hp
        rcases List.mem_cons.mp hp with h | h
        · subst h; exact h1.1
        · exact h1.2 p h
      · simp only [hq, if_false]
        have h1 := ih a
        refine ⟨h1.1, ?_⟩
        intro p hp
        rcases List.mem_cons.mp hp with h | h
        · subst h; have := h1.1; omega
        · exact h1.2 p h
  exact (gen ms maxU64).2 p hp

variable {s s' : State}

/-- the steps that are allowed: the truncation paths that ignore the members' progress only when
they strand nobody; indexes fit a uint64 -/
def strands (s : State) (x : Node) (i : Nat) : Bool :=
  s.nodes.any (fun y => decide (y.last + 1 < delBefore x s.bounds i))

def LogOK (s : State) : Op → Bool
  | .truncPropose forced _ => !forced
  | .truncBySize n => match s.nodes[n]? with | some x => !strands s x x.snapIdx | none => true
  | .restart n => match s.nodes[n]? with | some x => !(decide (x.snapIdx > 0) && strands s x x.snapIdx) | none => true
  | .commit _ _ => decide (s.clog.length + 1 < maxU64)
  | _ => true

theorem not_strands {x : Node} {i : Nat} (h : strands s x i = false) :
    ∀ (m : Nat) (y : Node), s.nodes[m]? = some y → delBefore x s.bounds i ≤ y.last + 1 := by
  intro m y hy
  unfold strands at h
  have := List.any_eq_false.mp h y (List.mem_of_getElem? hy)
  simp only [decide_eq_true_eq] at this
  omega

/-- dropping the files below the one that holds `i ≤ snapshot index` -/
theorem LogInv.dropBelow (h : LogInv s) {n : Nat} {x y : Node} (hx : s.nodes[n]? = some x) {i : Nat}
    (hi : i ≤ x.snapIdx) (hy1 : y.first = delBefore x s.bounds i) (hy2 : y.last = x.last)
    (hy3 : y.hsCommit = x.hsCommit) (hy4 : y.snapIdx = x.snapIdx) (hy5 : y.holes = x.holes)
    (hav : ∀ (m : Nat) (z : Node), s.nodes[m]? = some z → delBefore x s.bounds i ≤ z.last + 1) :
    LogInv (setNode s n y) := by
  have hn := h.node n x hx
  rcases delBefore_cases x s.bounds i with hd | ⟨hd1, hd2, hd3, hd4⟩
  · exact h.updateSame hx (by rw [hy1, hd]) hy2 hy3 hy4 hy5
  · refine h.update hx ⟨?_, ?_, ?_, ?_, ?_, ?_, ?_, ?_⟩ (by rw [hy2]; exact Nat.le_refl _) ?_
    · rw [hy1]; have := hn.first1; omega
    · rw [hy1]; exact hd1
    · rw [hy1, hy2]; exact hd4
    · rw [hy2]; exact hn.lastC
    · rw [hy3, hy2]; exact hn.hsL
    · rw [hy4, hy2]; exact hn.snapL
    · rw [hy1, hy4]; right; omega
    · rw [hy5]; exact hn.noHoles
    · intro m z hz; rw [hy1]; exact hav m z hz

theorem logInv_propose {p : Nat} {c : Cmd} {size : Nat} (h : LogInv s)
    (hs : doPropose s p c size = some s') : LogInv s' := by
  unfold doPropose at hs
  split at hs
  · rename_i x hx
    split at hs
    · split at hs
      · cases hs
        have h1 := h.updateSame (y := { x with pending := x.pending ++ [(x.nextSeq + 1, s.nextUid)], nextSeq := x.nextSeq + 1 })
          hx rfl rfl rfl rfl rfl
        refine h1.frame rfl rfl rfl ?_
        intro e he c hc
        simp only [setNode_inflight, List.mem_append, List.mem_singleton] at he
        rcases he with he | he
        · exact Or.inl he
        · subst he; cases hc
      all_goals cases hs
    · cases hs
  · cases hs

theorem logInv_giveUp {p q : Nat} (h : LogInv s) (hs : doGiveUp s p q = some s') : LogInv s' := by
  unfold doGiveUp at hs
  split at hs
  · cases hs; rename_i x hx; exact h.updateSame hx rfl rfl rfl rfl rfl
  · cases hs

theorem logInv_publish {n : Nat} (h : LogInv s) (hs : doPublish s n = some s') : LogInv s' := by
  unfold doPublish at hs
  split at hs
  · split at hs
    · cases hs; rename_i x hx _; exact h.updateSame hx rfl rfl rfl rfl rfl
    · cases hs
  · cases hs

theorem logInv_kill {n : Nat} (h : LogInv s) (hs : doKill s n = some s') : LogInv s' := by
  unfold doKill at hs
  split at hs
  · split at hs
    · cases hs
      rename_i x hx _
      have h2 : LogInv (if s.leader = some n then { s with leader := none } else s) := by
        split
        · exact h.frame rfl rfl rfl (fun e he c hc => Or.inl he)
        · exact h
      refine h2.updateSame (x := x) ?_ rfl rfl rfl rfl rfl
      split <;> exact hx
    · cases hs
  · cases hs

theorem logInv_meta (h : LogInv s) (hn : s'.nodes = s.nodes) (hc : s'.clog = s.clog) (hb : s'.bounds = s.bounds)
    (hi : s'.inflight = s.inflight) : LogInv s' :=
  h.frame hn hc hb (fun e he c hcmd => Or.inl (by rw [← hi]; exact he))

theorem logInv_metaDown {n : Nat} (h : LogInv s) (hs : doMetaDown s n = some s') : LogInv s' := by
  unfold doMetaDown at hs
  split at hs
  · cases hs; exact logInv_meta h rfl rfl rfl rfl
  · cases hs

theorem logInv_metaUp {n : Nat} (h : LogInv s) (hs : doMetaUp s n = some s') : LogInv s' := by
  unfold doMetaUp at hs
  split at hs
  · cases hs; exact logInv_meta h rfl rfl rfl rfl
  · cases hs

theorem logInv_elect (h : LogInv s) (hs : doElect s = some s') : LogInv s' := by
  unfold doElect at hs
  split at hs
  · cases hs
  · split at hs
    · cases hs; exact logInv_meta h rfl rfl rfl rfl
    · cases hs

theorem logInv_setMaster {m : Nat} (h : LogInv s) (hs : doSetMaster s m = some s') : LogInv s' := by
  unfold doSetMaster at hs
  split at hs
  · cases hs; exact logInv_meta h rfl rfl rfl rfl
  · cases hs

theorem logInv_raftLead {l : Nat} (h : LogInv s) (hs : doRaftLead s l = some s') : LogInv s' := by
  unfold doRaftLead at hs
  split at hs
  · simp only [] at hs
    split at hs
    · cases hs
      refine h.frame rfl rfl rfl ?_
      intro e he c hc
      simp only [List.mem_append, List.mem_singleton] at he
      rcases he with he | he
      · exact Or.inl he
      · subst he; cases hc
    · cases hs
  · cases hs

theorem flushBeginNode_log (clog : List Ent) (x : Node) (sh : Nat) :
    (flushBeginNode clog x sh).first = x.first ∧ (flushBeginNode clog x sh).last = x.last ∧
    (flushBeginNode clog x sh).hsCommit = x.hsCommit ∧ (flushBeginNode clog x sh).snapIdx = x.snapIdx ∧
    (flushBeginNode clog x sh).holes = x.holes := by
  unfold flushBeginNode
  simp only [snapSignalAfterCommit, Bool.not_true, Bool.and_false, Bool.false_eq_true, if_false]
  split <;> simp

theorem logInv_flushBegin {n sh : Nat} (h : LogInv s) (hs : doFlushBegin s n sh = some s') : LogInv s' := by
  unfold doFlushBegin at hs
  split at hs
  · split at hs
    · cases hs
      rename_i x hx _
      have := flushBeginNode_log s.clog x sh
      exact h.updateSame hx this.1 this.2.1 this.2.2.1 this.2.2.2.1 this.2.2.2.2
    · cases hs
  · cases hs

theorem flushEndNode_log (x : Node) (sh : Nat) (t : Nat × Bool × List Nat) :
    (flushEndNode x sh t).first = x.first ∧ (flushEndNode x sh t).last = x.last ∧
    (flushEndNode x sh t).hsCommit = x.hsCommit ∧ (flushEndNode x sh t).holes = x.holes ∧
    ((flushEndNode x sh t).snapIdx = x.snapIdx ∨
      (x.first ≤ (flushEndNode x sh t).snapIdx ∧ (flushEndNode x sh t).snapIdx ≤ x.last)) := by
  unfold flushEndNode
  simp only [snpCapturedOnce, snapSignalAfterCommit, if_true, Bool.and_true]
  cases t.2.1
  · simp
  · simp only [if_true]
    refine ⟨trivial, trivial, trivial, trivial, ?_⟩
    rcases snapTo_cases { x with files := x.files ++ t.2.2, imm := x.imm.filter (·.1 != sh), gF := x.gI } x.sc with hsn | ⟨hsn, hf, hl⟩
    · left; simp only [hsn]
    · right; simp only [hsn]; exact ⟨hf, hl⟩

theorem logInv_flushEnd {n sh : Nat} (h : LogInv s) (hs : doFlushEnd s n sh = some s') : LogInv s' := by
  unfold doFlushEnd at hs
  split at hs
  · rename_i x hx
    split at hs
    · rename_i t _
      split at hs
      · cases hs
        have hn := h.node n x hx
        obtain ⟨h1, h2, h3, h5, h4⟩ := flushEndNode_log x sh t
        rcases h4 with h4 | ⟨h4a, h4b⟩
        · exact h.updateSame hx h1 h2 h3 h4 h5
        · refine h.update hx ⟨?_, ?_, ?_, ?_, ?_, ?_, ?_, ?_⟩ (by rw [h2]; exact Nat.le_refl _) ?_
          · rw [h1]; exact hn.first1
          · rw [h1]; exact hn.firstB
          · rw [h1, h2]; exact hn.firstL
          · rw [h2]; exact hn.lastC
          · rw [h3, h2]; exact hn.hsL
          · rw [h2]; exact h4b
          · rw [h1]; right; exact h4a
          · rw [h5]; exact hn.noHoles
          · intro m z hz; rw [h1]; exact h.avail n m x z hx hz
      · cases hs
    · cases hs
  · cases hs

theorem logInv_sync {n : Nat} (h : LogInv s) (hs : doSync s n = some s') : LogInv s' := by
  unfold doSync at hs
  split at hs
  · rename_i l hl
    split at hs
    · rename_i lx x hlx hx
      split at hs
      · split at hs
        · cases hs
          have hn := h.node n x hx
          refine h.update hx ⟨hn.first1, hn.firstB, ?_, ?_, ?_, ?_, hn.replayable, hn.noHoles⟩ ?_ ?_
          · simp only [syncNode]; have := hn.firstL; have := hn.lastC; omega
          · simp only [syncNode]; exact Nat.le_refl _
          · simp only [syncNode]; exact Nat.le_refl _
          · simp only [syncNode]; have := hn.snapL; have := hn.lastC; omega
          · simp only [syncNode]; exact hn.lastC
          · intro m z hz; exact h.avail n m x z hx hz
        · -- the leader always has what a member needs next
          rename_i hnot
          exact absurd (h.avail l n lx x hlx hx) (by omega)
      · cases hs
    · cases hs
  · cases hs

theorem bumpSc_log (x : Node) (i : Nat) (u : Bool) :
    (bumpSc x i u).first = x.first ∧ (bumpSc x i u).last = x.last ∧ (bumpSc x i u).hsCommit = x.hsCommit ∧
    (bumpSc x i u).snapIdx = x.snapIdx ∧ (bumpSc x i u).holes = x.holes := by
  unfold bumpSc; split <;> simp

theorem applyEnt_log (b : List Nat) (x : Node) (e : Ent) (n i : Nat) (f : Bool) :
    (applyEnt b x e n i f).node.last = x.last ∧ (applyEnt b x e n i f).node.hsCommit = x.hsCommit ∧
    (applyEnt b x e n i f).node.snapIdx = x.snapIdx ∧ (applyEnt b x e n i f).node.holes = x.holes ∧
    ((applyEnt b x e n i f).node.first = x.first ∨
      ∃ c, e.cmd = .clear c ∧ (applyEnt b x e n i f).node.first = delBefore x b (clearIndex c x.snapIdx)) := by
  cases hcmd : e.cmd with
  | write k v sh => cases f <;> simp [applyEnt, hcmd]
  | clear c => simp [applyEnt, hcmd]
  | noop => simp [applyEnt, hcmd]

theorem logInv_apply {n : Nat} {f u : Bool} (h : LogInv s) (hs : doApply s n f u = some s') : LogInv s' := by
  unfold doApply at hs
  split at hs
  · rename_i x hx
    split at hs
    · split at hs
      · rename_i e he
        simp only [] at hs
        cases hs
        generalize hr : applyEnt s.bounds { x with applied := x.applied + 1 } e n (x.applied + 1) f = r
        obtain ⟨a1, a2, a3, a4, a5⟩ := applyEnt_log s.bounds { x with applied := x.applied + 1 } e n (x.applied + 1) f
        rw [hr] at a1 a2 a3 a4 a5
        obtain ⟨b1, b2, b3, b4, b5⟩ := bumpSc_log r.node (x.applied + 1) u
        have hmain : LogInv (setNode s n (bumpSc r.node (x.applied + 1) u)) := by
          rcases a5 with a5 | ⟨c, hc, a5⟩
          · exact h.updateSame hx (by rw [b1, a5]) (by rw [b2, a1]) (by rw [b3, a2]) (by rw [b4, a3]) (by rw [b5, a4])
          · have hcl := h.clears e (by simp [allEnts, mem_of_entAt he]) c hc
            have hci := clearIndex_le c x.snapIdx
            refine h.dropBelow hx (i := clearIndex c x.snapIdx) hci.1 (by rw [b1, a5]; rfl) (by rw [b2, a1])
              (by rw [b3, a2]) (by rw [b4, a3]) (by rw [b5, a4]) ?_
            intro m z hz
            rcases delBefore_cases x s.bounds (clearIndex c x.snapIdx) with hd | ⟨hd1, _, hd3, _⟩
            · rw [hd]; exact h.avail n m x z hx hz
            · exact hcl.2 _ hd1 (by omega) m z hz
        exact hmain.frame rfl rfl rfl (fun e he c hc => Or.inl he)
      · cases hs
    · cases hs
  · cases hs

theorem logInv_truncBySize {n : Nat} (h : LogInv s) (hok : LogOK s (.truncBySize n) = true)
    (hs : doTruncBySize s n = some s') : LogInv s' := by
  unfold doTruncBySize at hs
  split at hs
  · rename_i x hx
    split at hs
    · cases hs
      simp only [LogOK, hx, Bool.not_eq_true'] at hok
      exact h.dropBelow hx (i := x.snapIdx) (Nat.le_refl _) rfl rfl rfl rfl rfl (not_strands hok)
    · cases hs
  · cases hs

theorem restartNode_log (clog : List Ent) (b : List Nat) (x : Node) :
    (restartNode clog b x).first = (if x.snapIdx > 0 then delBefore x b x.snapIdx else x.first) ∧
    (restartNode clog b x).last = x.last ∧ (restartNode clog b x).hsCommit = x.hsCommit ∧
    (restartNode clog b x).snapIdx = x.snapIdx ∧ (restartNode clog b x).holes = x.holes := by
  simp [restartNode]

theorem logInv_restart {n : Nat} (h : LogInv s) (hok : LogOK s (.restart n) = true)
    (hs : doRestart s n = some s') : LogInv s' := by
  unfold doRestart at hs
  split at hs
  · rename_i x hx
    split at hs
    · cases hs
      obtain ⟨r1, r2, r3, r4, r5⟩ := restartNode_log s.clog s.bounds x
      simp only [LogOK, hx] at hok
      by_cases hsn : x.snapIdx > 0
      · simp only [hsn, if_true] at r1
        simp only [hsn, decide_true, Bool.true_and, Bool.not_eq_true'] at hok
        exact h.dropBelow hx (i := x.snapIdx) (Nat.le_refl _) r1 r2 r3 r4 r5 (not_strands hok)
      · simp only [hsn, if_false] at r1
        exact h.updateSame hx r1 r2 r3 r4 r5
    · cases hs
  · cases hs

theorem logInv_restartLate {n : Nat} (_h : LogInv s) (hs : doRestartLate s n = some s') : LogInv s' := by
  simp [doRestartLate, commitLoopAfterReplay] at hs

theorem logInv_replayLate {n : Nat} (_h : LogInv s) (hs : doReplayLate s n = some s') : LogInv s' := by
  simp [doReplayLate, commitLoopAfterReplay] at hs

theorem msOK_spec {l : Nat} {lx : Node} {ms : List (Nat × Nat)} (h : msOK s l lx ms = true) :
    ∀ (m : Nat) (y : Node), s.nodes[m]? = some y → ∃ p ∈ ms, p.1 = m ∧ p.2 ≤ y.last := by
  intro m y hy
  unfold msOK at h
  simp only [Bool.and_eq_true, beq_iff_eq, List.all_eq_true] at h
  obtain ⟨⟨_, hmap⟩, hall⟩ := h
  have hm : m ∈ ms.map (·.1) := by
    rw [hmap]
    rcases List.getElem?_eq_some_iff.mp hy with ⟨hl, _⟩
    exact List.mem_range.mpr hl
  obtain ⟨p, hp, hpm⟩ := List.mem_map.mp hm
  refine ⟨p, hp, hpm, ?_⟩
  have := hall p hp
  rw [hpm, hy] at this
  simp only [Bool.and_eq_true, decide_eq_true_eq] at this
  exact this.1

theorem logInv_truncPropose {f : Bool} {ms : List (Nat × Nat)} (h : LogInv s)
    (hok : LogOK s (.truncPropose f ms) = true) (hs : doTruncPropose s f ms = some s') : LogInv s' := by
  unfold doTruncPropose at hs
  split at hs
  · rename_i l hl
    split at hs
    · rename_i lx hlx
      split at hs
      · rename_i hcond
        cases hs
        simp only [LogOK, Bool.not_eq_true'] at hok
        subst hok
        simp only [Bool.and_eq_true, bne_iff_ne, ne_eq, decide_eq_true_eq, Bool.false_eq_true, if_false] at hcond ⊢
        obtain ⟨⟨⟨_, hsnap⟩, hms⟩, _⟩ := hcond
        have hln := h.node l lx hlx
        have hspec := msOK_spec hms
        -- the smallest Match is below every member's last index, hence a real index
        have hmmle : ∀ (m : Nat) (y : Node), s.nodes[m]? = some y → minMatchOf ms ≤ y.last := by
          intro m y hy
          obtain ⟨p, hp, _, hpl⟩ := hspec m y hy
          exact Nat.le_trans (minMatchOf_le hp) hpl
        have hmm : minMatchOf ms ≠ maxU64 := by
          have := hmmle l lx hlx
          have := hln.lastC
          have := h.small
          omega
        have hfirst : lx.first ≤ lx.snapIdx := by
          rcases hln.replayable with h1 | h1
          · have := hln.first1; omega
          · exact h1
        refine h.frame rfl rfl rfl ?_
        intro e he c hc
        simp only [List.mem_append, List.mem_singleton] at he
        rcases he with he | he
        · exact Or.inl he
        · right
          subst he
          simp only [Cmd.clear.injEq] at hc
          subst hc
          have hxle := genIndex_le (fileOf (lx.segs s.bounds)) lx.snapIdx (minMatchOf ms)
          refine ⟨by have := hln.snapL; have := hln.lastC; omega, ?_⟩
          intro b hb hbx m y hy
          by_cases hbf : b < lx.first
          · have := h.avail l m lx y hlx hy; omega
          · have hbs : b ∈ lx.segs s.bounds := by
              simp only [Node.segs, List.mem_filter, Bool.and_eq_true, decide_eq_true_eq]
              have := hln.snapL
              exact ⟨hb, by omega, by omega⟩
            have hfs : lx.first ∈ lx.segs s.bounds := by
              simp only [Node.segs, List.mem_filter, Bool.and_eq_true, decide_eq_true_eq]
              exact ⟨hln.firstB, Nat.le_refl _, hln.firstL⟩
            rcases genIndex_safe hfs hfirst hmm hbs hbx with h1 | h1
            · have := hmmle m y hy; omega
            · have := h.avail l m lx y hlx hy; omega
      · cases hs
    · cases hs
  · cases hs

theorem advanceFiles_bounds (s : State) (i z : Nat) :
    (advanceFiles s i z).bounds = s.bounds ∨ (advanceFiles s i z).bounds = s.bounds ++ [i] := by
  unfold advanceFiles; split
  · exact Or.inr rfl
  · exact Or.inl rfl

theorem commitOK_spec {l : Nat} {q : List Nat} (h : commitOK s l q = true) :
    l ∈ q ∧ ∀ m ∈ q, ∀ x : Node, s.nodes[m]? = some x → x.last = s.clog.length := by
  unfold commitOK at h
  simp only [Bool.and_eq_true, List.all_eq_true] at h
  obtain ⟨⟨⟨⟨hl, _⟩, _⟩, _⟩, hall⟩ := h
  refine ⟨by simpa using hl, ?_⟩
  intro m hm x hx
  have := hall m hm
  rw [hx] at this
  simpa using this

theorem logInv_commit {j : Nat} {q : List Nat} (h : LogInv s) (hok : LogOK s (.commit j q) = true)
    (hs : doCommit s j q = some s') : LogInv s' := by
  unfold doCommit at hs
  split at hs
  · rename_i l e hl he
    split at hs
    · rename_i hcok
      cases hs
      simp only [LogOK, decide_eq_true_eq] at hok
      obtain ⟨hlq, hqlast⟩ := commitOK_spec hcok
      -- every node of the new state comes from an old one with the same front and a last index that did not shrink
      have hnode : ∀ (m : Nat) (x' : Node),
          (commitNodes (advanceFiles s (s.clog.length + 1) e.size).nodes q l (s.clog.length + 1))[m]? = some x' →
          ∃ x : Node, s.nodes[m]? = some x ∧ x'.first = x.first ∧ x'.snapIdx = x.snapIdx ∧ x'.holes = x.holes ∧
            x.last ≤ x'.last ∧ x'.last ≤ s.clog.length + 1 ∧ x'.hsCommit ≤ x'.last := by
        intro m x' hx'
        simp only [advanceFiles_nodes, commitNodes, List.getElem?_mapIdx] at hx'
        cases hx : s.nodes[m]? with
        | none => simp [hx] at hx'
        | some x =>
          simp only [hx, Option.map_some, Option.some.injEq] at hx'
          have hn := h.node m x hx
          refine ⟨x, rfl, ?_⟩
          subst hx'
          by_cases hmq : q.contains m = true
          · simp only [hmq, if_true]
            have hxl := hqlast m (by simpa using hmq) x hx
            refine ⟨trivial, trivial, trivial, by omega, Nat.le_refl _, ?_⟩
            split
            · exact Nat.le_refl _
            · have := hn.hsL; omega
          · simp only [hmq, Bool.false_eq_true, if_false]
            exact ⟨trivial, trivial, trivial, Nat.le_refl _, by have := hn.lastC; omega, hn.hsL⟩
      have hbsub : ∀ b ∈ s.bounds, b ∈ (advanceFiles s (s.clog.length + 1) e.size).bounds := by
        intro b hb
        rcases advanceFiles_bounds s (s.clog.length + 1) e.size with h1 | h1 <;> rw [h1]
        · exact hb
        · exact List.mem_append_left _ hb
      have hbnew : ∀ b ∈ (advanceFiles s (s.clog.length + 1) e.size).bounds, b ∈ s.bounds ∨ b = s.clog.length + 1 := by
        intro b hb
        rcases advanceFiles_bounds s (s.clog.length + 1) e.size with h1 | h1 <;> rw [h1] at hb
        · exact Or.inl hb
        · simpa using hb
      refine ⟨?_, ?_, ?_, ?_⟩
      · intro m x' hx'
        obtain ⟨x, hx, h1, h2, h3, h4, h5, h6⟩ := hnode m x' hx'
        have hn := h.node m x hx
        refine ⟨by rw [h1]; exact hn.first1, by rw [h1]; exact hbsub _ hn.firstB, ?_, ?_, h6, ?_, ?_, by rw [h3]; exact hn.noHoles⟩
        · rw [h1]; have := hn.firstL; omega
        · simp only [advanceFiles_clog, List.length_append, List.length_singleton]; exact h5
        · rw [h2]; have := hn.snapL; omega
        · rw [h1, h2]; exact hn.replayable
      · intro a b xa yb hxa hyb
        obtain ⟨x, hx, h1, _, _, _, _, _⟩ := hnode a xa hxa
        obtain ⟨y, hy, _, _, _, h4, _, _⟩ := hnode b yb hyb
        have := h.avail a b x y hx hy
        rw [h1]; omega
      · intro e' he' c hc
        have hold : e' ∈ allEnts s := by
          simp only [allEnts, advanceFiles_clog, advanceFiles_inflight, List.mem_append, List.mem_singleton] at he' ⊢
          rcases he' with (h1 | h1) | h1
          · exact Or.inl h1
          · subst h1; exact Or.inr (List.mem_of_getElem? he)
          · exact Or.inr (List.mem_of_mem_eraseIdx h1)
        have hcl := h.clears e' hold c hc
        refine ⟨?_, ?_⟩
        · simp only [advanceFiles_clog, List.length_append, List.length_singleton]; have := hcl.1; omega
        · intro b hb hbc m y' hy'
          obtain ⟨y, hy, _, _, _, h4, _, _⟩ := hnode m y' hy'
          rcases hbnew b hb with h1 | h1
          · have := hcl.2 b h1 hbc m y hy; omega
          · have := hcl.1; omega
      · simp only [advanceFiles_clog, List.length_append, List.length_singleton]; exact hok
    · cases hs
  · cases hs

theorem logInv_coordWrite {c : Cmd} {size : Nat} (h : LogInv s) (hs : doCoordWrite s c size = some s') : LogInv s' := by
  unfold doCoordWrite at hs
  split at hs
  · split at hs
    · rename_i s1 hp
      cases hs; exact logInv_propose h hp
    · cases hs; exact h
  · cases hs; exact h

/-- the log invariant holds after every allowed step -/
theorem logInv_step {o : Op} (h : LogInv s) (hok : LogOK s o = true) (hs : step s o = some s') : LogInv s' := by
  cases o <;> simp only [step] at hs
  · exact logInv_propose h hs
  · exact logInv_giveUp h hs
  · exact logInv_commit h hok hs
  · exact logInv_sync h hs
  · exact logInv_publish h hs
  · exact logInv_apply h hs
  · exact logInv_flushBegin h hs
  · exact logInv_flushEnd h hs
  · exact logInv_truncPropose h hok hs
  · exact logInv_truncBySize h hok hs
  · exact logInv_kill h hs
  · exact logInv_restart h hok hs
  · exact logInv_restartLate h hs
  · exact logInv_replayLate h hs
  · exact logInv_raftLead h hs
  · exact logInv_metaDown h hs
  · exact logInv_metaUp h hs
  · exact logInv_elect h hs
  · exact logInv_setMaster h hs
  · exact logInv_coordWrite h hs

/-- a run all of whose steps are allowed -/
def runOK (ok : State → Op → Bool) (s : State) : List Op → Bool
  | [] => true
  | o :: os => ok s o && match step s o with
    | some s' => runOK ok s' os
    | none => true

theorem logInv_run {os : List Op} (h : LogInv s) (hok : runOK LogOK s os = true) (hs : run s os = some s') :
    LogInv s' := by
  induction os generalizing s with
  | nil => simp [run] at hs; subst hs; exact h
  | cons o os ih =>
    simp only [run] at hs
    simp only [runOK, Bool.and_eq_true] at hok
    split at hs
    · rename_i s1 h1
      rw [h1] at hok
      exact ih (logInv_step h hok.1 h1) hok.2 hs
    · cases hs

end OG.C05
