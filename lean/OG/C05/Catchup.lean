/-
C05 — a store that rejoins catches up: from any state the invariants hold in, with a raft leader
that is up, the steps `sync m, publish m, apply m …` are all enabled (no snapshot is needed), keep
the invariants, and end with node m having applied the whole committed log — where it answers
every key with the latest committed write.
-/
import OG.C05.Boot

namespace OG.C05
open OG.Gen.C05

variable {s : State}

theorem entAt_some {clog : List Ent} {i : Nat} (h1 : 1 ≤ i) (h2 : i ≤ clog.length) : ∃ e, entAt clog i = some e := by
  unfold entAt
  have : ¬ i = 0 := by omega
  simp only [this, if_false]
  exact ⟨clog[i - 1]'(by omega), List.getElem?_eq_getElem (by omega)⟩

/-- one entry more is applied: the step is enabled whenever something is published and not applied -/
theorem apply_enabled {n : Nat} {x : Node} (hL : LogInv s) (hD : DataInv s) (hx : s.nodes[n]? = some x)
    (hup : x.up = true) (hlt : x.applied < x.pub) :
    ∃ s' x', doApply s n false true = some s' ∧ s'.clog = s.clog ∧ s'.leader = s.leader ∧
      s'.nodes[n]? = some x' ∧ x'.up = true ∧ x'.pub = x.pub ∧ x'.applied = x.applied + 1 := by
  have hn := hL.node n x hx
  have hu := (hD.node n x hx).up hup
  obtain ⟨e, he⟩ := entAt_some (clog := s.clog) (i := x.applied + 1) (by omega)
    (by have := hu.ph; have := hn.hsL; have := hn.lastC; omega)
  have hlt' : n < s.nodes.length := by
    rcases List.getElem?_eq_some_iff.mp hx with ⟨hl, _⟩; exact hl
  have hc : (x.up && decide (x.applied < x.pub)) = true := by simp [hup, hlt]
  unfold doApply
  simp only [hx, hc, if_true, he]
  obtain ⟨a1, a2, a3, a4, a5, a6, a7, a8, a9, a11, a12, a10⟩ :=
    applyEnt_data s.bounds { x with applied := x.applied + 1 } e n (x.applied + 1)
  obtain ⟨b1, b2, b3, b4, b5, b6, b7, b8, b9, b10, b11, b12⟩ :=
    bumpSc_data (applyEnt s.bounds { x with applied := x.applied + 1 } e n (x.applied + 1) false).node (x.applied + 1) true
  refine ⟨_, bumpSc (applyEnt s.bounds { x with applied := x.applied + 1 } e n (x.applied + 1) false).node (x.applied + 1) true,
    rfl, rfl, rfl, ?_, ?_, ?_, ?_⟩
  · show (setNode s n _).nodes[n]? = some _
    rw [getElem?_setNode]; simp [hlt']
  · rw [b5, a5]; exact hup
  · rw [b7, a7]
  · rw [b6, a6]

/-- … until everything published is applied -/
theorem apply_all (d : Nat) : ∀ (s : State) (n : Nat) (x : Node), LogInv s → DataInv s → s.nodes[n]? = some x →
    x.up = true → x.pub - x.applied = d →
    ∃ os s' x', run s os = some s' ∧ runOK AllOK s os = true ∧ LogInv s' ∧ DataInv s' ∧ s'.clog = s.clog ∧
      s'.nodes[n]? = some x' ∧ x'.up = true ∧ x'.applied = x.pub ∧ x'.pub = x.pub := by
  induction d with
  | zero =>
    intro s n x hL hD hx hup hd
    have := ((hD.node n x hx).up hup).ap
    exact ⟨[], s, x, rfl, rfl, hL, hD, rfl, hx, hup, by omega, rfl⟩
  | succ d ih =>
    intro s n x hL hD hx hup hd
    obtain ⟨s1, x1, hs1, hc1, _, hx1, hu1, hp1, ha1⟩ := apply_enabled hL hD hx hup (by omega)
    have hstep : step s (.apply n false true) = some s1 := hs1
    have hL1 := logInv_step hL (o := .apply n false true) rfl hstep
    have hD1 := dataInv_step hL hL1 hD (o := .apply n false true) rfl hstep
    obtain ⟨os, s', x', hr, hok, hL', hD', hc', hx', hu', ha', hp'⟩ := ih s1 n x1 hL1 hD1 hx1 hu1 (by omega)
    refine ⟨.apply n false true :: os, s', x', ?_, ?_, hL', hD', by rw [hc', hc1], hx', hu', by rw [ha', hp1], by rw [hp', hp1]⟩
    · simp only [run, hstep]; exact hr
    · simp only [runOK, hstep, AllOK, LogOK, DataOK, Bool.not_false, Bool.and_self, Bool.true_and]; exact hok

/-- `rejoined_store_catches_up`: whatever happened before (under the step hypotheses), a node that
is up — e.g. one that has just restarted — reaches the end of the committed log by catch-up from the
leader's log alone and then answers every key with its latest committed write. -/
theorem rejoined_store_catches_up (n : Nat) (szs : List Nat) (os : List Op) (s : State) (hn : n < maxU64)
    (hok : runOK AllOK (boot n szs) os = true) (h : run (boot n szs) os = some s)
    (l m : Nat) (lx x : Node) (hlead : s.leader = some l) (hl : s.nodes[l]? = some lx) (hlu : lx.up = true)
    (hll : lx.last = s.clog.length) (hx : s.nodes[m]? = some x) (hxu : x.up = true) :
    ∃ os' s' x', run s os' = some s' ∧ runOK AllOK s os' = true ∧ s'.clog = s.clog ∧
      s'.nodes[m]? = some x' ∧ x'.up = true ∧ x'.applied = s'.clog.length ∧
      ∀ k, readNode s'.clog x' k = specRead s'.clog k := by
  obtain ⟨hL, hD⟩ := inv_run (boot_inv n szs hn).1 (boot_inv n szs hn).2 hok h
  have hlt : m < s.nodes.length := by
    rcases List.getElem?_eq_some_iff.mp hx with ⟨hl', _⟩; exact hl'
  -- sync: the leader has the entry m needs next
  have hav := hL.avail l m lx x hl hx
  have hsync : step s (.sync m) = some (setNode s m (syncNode x s.clog.length)) := by
    simp only [step, doSync, hlead, hl, hx, hlu, hxu, hll, beq_self_eq_true, Bool.and_self, if_true]
    have : x.last + 1 ≥ lx.first := by omega
    simp [this]
  have hL1 := logInv_step hL (o := .sync m) rfl hsync
  have hD1 := dataInv_step hL hL1 hD (o := .sync m) rfl hsync
  have hx1 : (setNode s m (syncNode x s.clog.length)).nodes[m]? = some (syncNode x s.clog.length) := by
    rw [getElem?_setNode]; simp [hlt]
  -- publish
  have hu := (hD.node m x hx).up hxu
  have hnx := hL.node m x hx
  have hpub : step (setNode s m (syncNode x s.clog.length)) (.publish m) =
      some (setNode (setNode s m (syncNode x s.clog.length)) m { syncNode x s.clog.length with pub := s.clog.length }) := by
    simp only [step, doPublish, hx1]
    have h1 : (syncNode x s.clog.length).up = true := hxu
    have h2 : (syncNode x s.clog.length).pub ≤ (syncNode x s.clog.length).hsCommit := by
      simp only [syncNode]; have := hu.ph; have := hnx.hsL; have := hnx.lastC; omega
    simp only [h1, h2, decide_true, Bool.and_self, if_true]
    rfl
  have hL2 := logInv_step hL1 (o := .publish m) rfl hpub
  have hD2 := dataInv_step hL1 hL2 hD1 (o := .publish m) rfl hpub
  have hx2 : (setNode (setNode s m (syncNode x s.clog.length)) m { syncNode x s.clog.length with pub := s.clog.length }).nodes[m]? =
      some { syncNode x s.clog.length with pub := s.clog.length } := by
    rw [getElem?_setNode]; simp [hlt]
  -- apply everything
  obtain ⟨os3, s', x', hr, hok3, _, hD', hc', hx', hu', ha', _⟩ :=
    apply_all _ _ m _ hL2 hD2 hx2 hxu rfl
  have hcl : s'.clog = s.clog := by rw [hc']; rfl
  refine ⟨.sync m :: .publish m :: os3, s', x', ?_, ?_, hcl, hx', hu', ?_, ?_⟩
  · simp only [run, hsync, hpub]; exact hr
  · simp only [runOK, hsync, hpub, AllOK, LogOK, DataOK, Bool.and_self, Bool.true_and]; exact hok3
  · rw [ha', hcl]
  · intro k
    have := ((hD'.node m x' hx').up hu').dataEq k
    rw [ha'] at this
    have hpl : ({ syncNode x s.clog.length with pub := s.clog.length } : Node).pub = s'.clog.length := by rw [hcl]
    rw [hpl] at this
    exact this

end OG.C05
