/-
C05 — line-protocol driver of the model (core only). One op per line, one answer per line.
Every action line is one step of `OG.C05.step`; the answer is `ok`, or `bad-op` when the model does
not allow the step in its state (the harness only emits steps it saw the real code take).

  @1 <op …>                                  the same ops for a second replica group living on the same nodes
  new                                        forget everything (next scenario)
  boot <n> <sz,sz,…>                         n nodes after the bootstrap (conf-change entries of the given sizes)
  propose <p> <k> <v> <sh> <size>            WriteToRaft on node p (size = len(Entry.Data) of the proposal)
  giveup <p> <seq>
  commit <j> <size> <q,q,…>                  in-flight proposal j (0-based) is committed on quorum q
  sync <n> | publish <n> | apply <n> <fail> <upd>
  flushb <n> <sh> | flushe <n> <sh>
  trunc <forced> <m:match,…>                 deleteEntryLog on the leader
  truncsize <n>
  kill <n> | restart <n> | lead <l>
  restartlate <n> | replaylate <n>           restart with the replayed entries applied later
  metadown <n> | metaup <n> | elect | setmaster <m>
  coordwrite <k> <v> <sh> <size>             the coordinator routes one request and proposes it at the target store
  route                                      the partition requests are mapped to
  flushprobe                                 where the flush gives the raft snapshot signal (regenerated fact)
  digest                                     the whole state, canonical (files / flushing table / memtable apart)
  digestm                                    the same with only the merged view of each node's rows (real shards)
  read <n> <k>                               what node n answers for key k
  spec <k>                                   the latest committed write of k
-/
import OG.C05.Model

namespace OG.C05

def parseNats (s : String) : Option (List Nat) :=
  if s == "-" then some [] else (s.splitOn ",").mapM (·.toNat?)

def parsePairs (s : String) : Option (List (Nat × Nat)) :=
  if s == "-" then some [] else
  (s.splitOn ",").mapM (fun p => match p.splitOn ":" with
    | [a, b] => do let a ← a.toNat?; let b ← b.toNat?; pure (a, b)
    | _ => none)

def parseBool (s : String) : Option Bool :=
  if s == "1" then some true else if s == "0" then some false else none

/-- FNV-1a over the bytes of the parts, `;` after each part -/
def fnv (parts : List String) : UInt64 :=
  parts.foldl (fun h p =>
    let h := p.toUTF8.foldl (fun h b => (h ^^^ b.toUInt64) * 1099511628211) h
    (h ^^^ 59) * 1099511628211) 14695981039346656037

def hexDigit (n : Nat) : Char := if n < 10 then Char.ofNat (48 + n) else Char.ofNat (87 + n)

def hex16 (x : UInt64) : String :=
  String.ofList ((List.range 16).map (fun i => hexDigit ((x.toNat >>> (4 * (15 - i))) % 16)))

/-- last write per (shard, key) of a layer, as the sorted strings `sh.k=v` -/
def layerParts (clog : List Ent) (l : List Nat) : List String :=
  let m : List ((Nat × Nat) × Nat) := l.foldl (fun m i =>
    match entAt clog i with
    | some e => match e.cmd with
      | .write k v sh => ((sh, k), v) :: m.filter (fun p => p.1 != (sh, k))
      | _ => m
    | none => m) []
  let parts := m.map (fun p => s!"{p.1.1}.{p.1.2}={p.2}")
  parts.mergeSort (fun a b => a ≤ b)

def layerText (clog : List Ent) (l : List Nat) : String :=
  let parts := layerParts clog l
  s!"{parts.length}:{hex16 (fnv parts)}"

def natList (l : List Nat) : String := if l.isEmpty then "-" else ",".intercalate (l.map toString)

def nodeText (merged : Bool) (clog : List Ent) (bounds : List Nat) (i : Nat) (x : Node) : String :=
  if x.up then
    let base := s!"n{i} up f={if x.holes.isEmpty then toString x.first else "~"} l={x.last} fs={if x.holes.isEmpty then natList (x.segs bounds) else "~"} c={x.hsCommit} p={x.pub} a={x.applied} s={x.snapIdx} sc={x.sc} snp={natList (x.hasSnp.mergeSort (fun a b => a ≤ b))} w={x.pending.length} D={layerText clog x.data}"
    if merged then base
    else base ++ s!" F={layerText clog x.files} I={layerText clog x.immIdx} M={layerText clog x.mem}"
  else s!"n{i} down"

def digest (merged : Bool) (s : State) : String :=
  let acked := (s.acked.mergeSort (fun a b => a.1 ≤ b.1)).map (fun a => s!"{a.1}:{if a.2 then "ok" else "err"}")
  let hdr := s!"D clog={s.clog.length} infl={s.inflight.length} lead={match s.leader with | some l => toString l | none => "-"} master={s.master} peers={natList s.peers} alive={natList (s.alive.map (fun b => if b then 1 else 0))} health={if s.health then 1 else 0} acked={if acked.isEmpty then "-" else ",".intercalate acked}"
  " | ".intercalate (hdr :: (s.nodes.mapIdx (fun i x => nodeText merged s.clog s.bounds i x)))

def optText : Option Nat → String
  | some v => s!"v={v}"
  | none => "none"

def act (s : Option State) (o : Op) : Option State × String :=
  match s with
  | some st => match step st o with
    | some s' => (some s', "ok")
    | none => (s, "bad-op")
  | none => (s, "bad-op")

def stepLine (s : Option State) (line : String) : Option State × String :=
  let ws := (line.trimAscii.toString.splitOn " ").filter (· ≠ "")
  let bad : Option State × String := (s, "bad-op")
  match ws with
  | ["new"] => (none, "ok")
  | ["boot", n, szs] =>
    match n.toNat?, parseNats szs with
    | some n, some szs => (some (boot n szs), "ok")
    | _, _ => bad
  | ["propose", p, k, v, sh, size] =>
    match p.toNat?, k.toNat?, v.toNat?, sh.toNat?, size.toNat? with
    | some p, some k, some v, some sh, some size => act s (.propose p (.write k v sh) size)
    | _, _, _, _, _ => bad
  | ["giveup", p, q] =>
    match p.toNat?, q.toNat? with
    | some p, some q => act s (.giveUp p q)
    | _, _ => bad
  | ["commit", j, size, q] =>
    match s, j.toNat?, size.toNat?, parseNats q with
    | some st, some j, some size, some q =>
      -- the size of a leader-made entry is only known once it is in the log
      let st := { st with inflight := st.inflight.modify j (fun e => { e with size := size }) }
      match step st (.commit j q) with
      | some s' => (some s', "ok")
      | none => bad
    | _, _, _, _ => bad
  | ["sync", n] => match n.toNat? with | some n => act s (.sync n) | none => bad
  | ["publish", n] => match n.toNat? with | some n => act s (.publish n) | none => bad
  | ["apply", n, f, u] =>
    match n.toNat?, parseBool f, parseBool u with
    | some n, some f, some u => act s (.apply n f u)
    | _, _, _ => bad
  | ["flushb", n, sh] => match n.toNat?, sh.toNat? with | some n, some sh => act s (.flushBegin n sh) | _, _ => bad
  | ["flushe", n, sh] => match n.toNat?, sh.toNat? with | some n, some sh => act s (.flushEnd n sh) | _, _ => bad
  | ["trunc", f, ms] =>
    match parseBool f, parsePairs ms with
    | some f, some ms => act s (.truncPropose f ms)
    | _, _ => bad
  | ["truncsize", n] => match n.toNat? with | some n => act s (.truncBySize n) | none => bad
  | ["kill", n] => match n.toNat? with | some n => act s (.kill n) | none => bad
  | ["restart", n] => match n.toNat? with | some n => act s (.restart n) | none => bad
  | ["restartlate", n] => match n.toNat? with | some n => act s (.restartLate n) | none => bad
  | ["replaylate", n] => match n.toNat? with | some n => act s (.replayLate n) | none => bad
  | ["lead", n] => match n.toNat? with | some n => act s (.raftLead n) | none => bad
  | ["metadown", n] => match n.toNat? with | some n => act s (.metaDown n) | none => bad
  | ["metaup", n] => match n.toNat? with | some n => act s (.metaUp n) | none => bad
  | ["elect"] => act s .elect
  | ["setmaster", m] => match m.toNat? with | some m => act s (.setMaster m) | none => bad
  | ["flushprobe"] => (s, s!"signal-after-commit={if OG.Gen.C05.snapSignalAfterCommit then 1 else 0}")
  | ["coordwrite", k, v, sh, size] =>
    match k.toNat?, v.toNat?, sh.toNat?, size.toNat? with
    | some k, some v, some sh, some size => act s (.coordWrite (.write k v sh) size)
    | _, _, _, _ => bad
  | ["route"] => match s with | some st => (s, match route st with | some p => s!"pt={p}" | none => "none") | none => bad
  | ["digest"] => match s with | some st => (s, digest false st) | none => bad
  | ["digestm"] => match s with | some st => (s, digest true st) | none => bad
  | ["read", n, k] =>
    match s, n.toNat?, k.toNat? with
    | some st, some n, some k =>
      match st.nodes[n]? with
      | some x => if x.up then (s, optText (readNode st.clog x k)) else (s, "down")
      | none => bad
    | _, _, _ => bad
  | ["spec", k] =>
    match s, k.toNat? with
    | some st, some k => (s, optText (specRead st.clog k))
    | _, _ => bad
  | _ => bad

/-- two replica groups can share the nodes of a run: lines of the second one start with `@1 ` -/
partial def loop (h : IO.FS.Stream) (out : IO.FS.Stream) (s0 s1 : Option State) : IO Unit := do
  let line ← h.getLine
  if line.isEmpty then return ()
  if line.startsWith "@1 " then
    let (s', ans) := stepLine s1 (line.drop 3).toString
    out.putStrLn ans
    loop h out s0 s'
  else
    let (s', ans) := stepLine s0 line
    out.putStrLn ans
    loop h out s' s1

def main : IO Unit := do
  loop (← IO.getStdin) (← IO.getStdout) none none

end OG.C05
