/-
C05 — expectations about the regenerated facts. Each theorem compares what ogfacts extracted from
/repo *now* with what the hand-written model was written against (function bodies the model
transcribes, the order of the events of a flush and of WriteToRaft, the facts that select between
code variants). A failure here means the modelled source changed shape; the correspondence run
then decides whether the property still holds (and supplies the replay).
-/
import OG.C05.Model

namespace OG.C05.Facts
open OG.Gen.C05

theorem generation_ok : generationFailed = false := by rfl

/-- geometry of the entry files -/
theorem goCap_expected : goCap = 30000 := by rfl
theorem goDataOff_expected : goDataOff = 1048576 := by rfl
theorem goMaxSize_expected : goMaxSize = 33554432 := by rfl
theorem goLenPrefix_expected : goLenPrefix = 4 := by rfl

/-- dealCommitData answers the waiting writer after the local apply, with the apply's result -/
theorem ackDeferred_expected : ackDeferred = true := by rfl
theorem ackAfterApply_expected : ackAfterApply = true := by rfl
theorem ackCarriesApplyResult_expected : ackCarriesApplyResult = true := by rfl

/-- a flush signals the raft snapshot after the flushed table is in the data files, with the
committed index frozen from before the table switch -/
theorem snapSignalAfterCommit_expected : snapSignalAfterCommit = true := by rfl
theorem snpCapturedOnce_expected : snpCapturedOnce = true := by rfl
theorem flagFrozenAcrossFlush_expected : flagFrozenAcrossFlush = true := by rfl
theorem flushEvents_expected : flushEvents = ["flag0", "switch", "commit", "walremove", "signal", "flag1"] := by rfl

/-- WriteToRaft registers the waiter before it proposes and unregisters on return -/
theorem writeToRaftEvents_expected : writeToRaftEvents = ["register", "unregister", "propose", "wait", "timeout"] := by rfl
theorem returns_WriteToRaft_expected : returns_WriteToRaft = ["err", "err", "commitedErr", "errno.NewError(errno.WriteToRaftTimeoutAfterPropose, wrapper.Identity, wrapper.ProposeId)"] := by rfl

/-- the rules the model imports, on sample points (the definitions themselves are translated) -/
theorem replayRange_expected : replayRange 0 9 = (1, 10) ∧ replayRange 4 9 = (4, 10) := by decide
theorem genIndex_expected :
    genIndex (fun i => if i < 10 then 0 else -1) maxU64 12 7 = 7 ∧      -- different files: min(Match, index)
    genIndex (fun _ => -1) maxU64 12 7 = 12 ∧                            -- same file: the snapshot index
    genIndex (fun _ => 0) maxU64 12 maxU64 = 12 := by decide
theorem needRotate_expected :
    needRotate goCap goDataOff goMaxSize 30000 1048576 0 = true ∧
    needRotate goCap goDataOff goMaxSize 5 (33554432 - 4 - 10) 10 = false ∧
    needRotate goCap goDataOff goMaxSize 5 (33554432 - 4 - 10) 11 = true := by decide


/-- a ClearEntryLog entry is applied with the leader's index clamped to the node's own snapshot index -/
theorem clampClearToOwnSnap_expected : clampClearToOwnSnap = true := by rfl
theorem clearIndexCall_expected : clearIndexCall = "raftlog.ClearIndex(index, sp.Metadata.Index)" := by rfl
theorem clearIndex_expected : clearIndex 16 0 = 0 ∧ clearIndex 16 20 = 16 ∧ clearIndex 16 16 = 16 := by decide

/-- propose ids of two lives of a node differ -/
theorem pidSeededPerLife_expected : pidSeededPerLife = true := by rfl

/-- the commit loop of a partition waits for the start-up replay; the PT load path: start the raft
node, apply the replay, open the loop -/
theorem commitLoopAfterReplay_expected : commitLoopAfterReplay = true := by rfl
theorem assignReplayEvents_expected : assignReplayEvents = ["start", "replay", "open"] := by rfl

/-- the column-store flush gives the signal in the flush goroutine, after the commit -/
theorem csFlushEvents_expected : csFlushEvents = ["flag0", "switch", "commit", "signal", "flag1"] := by rfl

theorem src_genProposeData_expected : src_genProposeData = "{ var minIndex uint64 if minMatch == math.MaxUint64 { minIndex = index } else { memberFilId, _ := n.Store.SlotGe(minMatch) filId, _ := n.Store.SlotGe(index) err := n.comparePeerFileIdWithLeaderFileId(memberFilId, filId) if err != nil { minIndex = uint64(math.Min(float64(minMatch), float64(index))) } else { minIndex = index } } logger.GetLogger().Info(\"genProposeData marshal index is\", zap.Uint64(\"minIndex\", minIndex), zap.String(\"db\", n.database), zap.Uint32(\"pt\", n.ptId)) var dst []byte dst = encoding.MarshalUint64(dst, minIndex) wrapper := &raftlog.DataWrapper{ Data: dst, DataType: raftlog.ClearEntryLog, } marshal := wrapper.Marshal() return marshal }" := by rfl

theorem src_prepareDelete_expected : src_prepareDelete = "{ progress := n.node.Status().Progress var minMatch uint64 = math.MaxUint64 for _, v := range progress { match := v.Match if match < minMatch { minMatch = match } } marshal := n.genProposeData(index, minMatch) return marshal }" := by rfl

theorem src_forceDelete_expected : src_forceDelete = "{ if healthy, activePtSlice := n.CheckAllRgMembers(); !healthy { n.tolerateStartTime.CompareAndSwap(0, time.Now().UnixNano()) if time.Now().UnixNano()-n.tolerateStartTime.Load() > int64(config.GetStoreConfig().ClearEntryLogTolerateTime) { progress := n.node.Status().Progress var minIndex uint64 = math.MaxUint64 for _, ptId := range activePtSlice { if v, ok := progress[GetRaftNodeId(ptId)]; ok { if v.Match < minIndex { minIndex = v.Match } } } data := n.genProposeData(index, minIndex) select { case n.proposeC <- data: case <-n.ctx.Done(): } n.tolerateStartTime.Store(0) return false, nil } return false, errors.New(\"replica group status is unhealthy\") } else { n.tolerateStartTime.Store(0) } return true, nil }" := by rfl

theorem src_deleteEntryLog_expected : src_deleteEntryLog = "{ if !n.isLeader() { return nil } sp, err := n.Store.Snapshot() if err != nil { return err } index := sp.Metadata.Index if index == 0 { logger.GetLogger().Error(\"dont have a snapshot yet\", zap.String(\"db\", n.database), zap.Uint32(\"ptId\", n.ptId)) return errors.New(\"dont have a snapshot yet\") } toPropose, err := n.forceDeleteEntryLog(index) if !toPropose { return err } select { case n.proposeC <- n.prepareDeleteEntryLogProposeData(index): case <-n.ctx.Done(): } return nil }" := by rfl

theorem src_deleteBySize_expected : src_deleteBySize = "{ sp, err := n.Store.Snapshot() if err != nil { return err } index := sp.Metadata.Index if index == 0 { return errors.New(\"dont have a snapshot yet\") } return n.forceDeleteEntryLogBySize(index) }" := by rfl

theorem src_forceDeleteBySize_expected : src_forceDeleteBySize = "{ size := n.Store.EntrySize() if uint64(size) > uint64(config.GetStoreConfig().ClearEntryLogTolerateSize) { logger.GetLogger().Info(\"clear entry log by size, \", zap.Int(\"size\", size), zap.Uint64(\"current index is \", index), zap.String(\"db\", n.database), zap.Uint32(\"pt\", n.ptId)) err := n.Store.DeleteBefore(index) if err != nil { return err } } return nil }" := by rfl

theorem src_checkAllRgMembers_expected : src_checkAllRgMembers = "{ peers := n.peers var activePtSlice []uint32 for ptId, nodeId := range peers { node, _ := n.MetaClient.DataNode(nodeId) if node.Status == serf.StatusAlive { activePtSlice = append(activePtSlice, ptId) } } if len(activePtSlice) == len(peers) { return true, activePtSlice } logger.GetLogger().Info(\"rg member is not all active,active pt slice is \", zap.Uint32s(\"activePtSlice\", activePtSlice), zap.String(\"db\", n.database), zap.Uint32(\"pt\", n.ptId)) return false, activePtSlice }" := by rfl

theorem src_compareFileId_expected : src_compareFileId = "{ if memberFilId != filId { return errors.New(\"member file id is not equal leader file id \") } return nil }" := by rfl

theorem src_entriesToApply_expected : src_entriesToApply = "{ if len(ents) == 0 { return ents } firstIdx := ents[0].Index if firstIdx > n.appliedIndex+1 { n.logger.Warn(fmt.Sprintf(\"first index of committed entry[%d] should <= progress.appliedIndex[%d]+1\", firstIdx, n.appliedIndex)) return ents } if n.appliedIndex-firstIdx+1 < uint64(len(ents)) { nents = ents[n.appliedIndex-firstIdx+1:] } return nents }" := by rfl

theorem src_publishEntries_expected : src_publishEntries = "{ if len(ents) == 0 { return true } data := make([][]byte, 0, len(ents)) for i := range ents { switch ents[i].Type { case raftpb.EntryNormal: if len(ents[i].Data) == 0 { continue } data = append(data, ents[i].Data) case raftpb.EntryConfChange: var cc raftpb.ConfChange err := cc.Unmarshal(ents[i].Data) if err != nil { n.logger.Error(\"unmarshal conf changed failed\", zap.Error(err)) continue } n.confState = n.node.ApplyConfChange(cc) n.saveConfStateToMeta() switch cc.Type { case raftpb.ConfChangeAddNode: case raftpb.ConfChangeRemoveNode: } } } if len(data) > 0 { select { case n.commitC <- &Commit{ Database: n.database, PtId: GetPtId(n.id), Data: data, CommittedIndex: ents[len(ents)-1].Index, }: case <-n.ctx.Done(): return false } } n.appliedIndex = ents[len(ents)-1].Index return true }" := by rfl

theorem src_snapShot_expected : src_snapShot = "{ index := n.SnapShotter.CommittedIndex n.logger.Info(fmt.Sprintf(\"CreateSnapshot i=%d, cs=%+v\", index, n.ConfState()), zap.String(\"db\", n.database), zap.Uint32(\"pt\", n.ptId)) for { err := n.Store.CreateSnapshot(index, n.ConfState(), []byte(\"snapshot\")) if err == nil { break } if errors.Is(err, raft.ErrSnapOutOfDate) { logger.GetLogger().Error(\"Error while calling CreateSnapshot. \", zap.Error(err)) break } logger.GetLogger().Error(\"Error while calling CreateSnapshot. Retrying...\", zap.Error(err)) } return nil }" := by rfl

theorem src_initAndStart_expected : src_initAndStart = "{ _, restart, err := n.PastLife() if err != nil { return err } if restart { state, err := n.Store.HardState() if err != nil { panic(\"Unable to get existing hardState\") } n.appliedIndex = state.Commit sp, err := n.Store.Snapshot() n.SnapShotter.CommittedIndex = sp.Metadata.Index if err != nil { panic(\"Unable to get existing snapshot\") } if raftlog.IsValidSnapshot(sp) { n.SetConfState(&sp.Metadata.ConfState) err := n.replay(sp) if err != nil { n.logger.Error(\"replay wal error\", zap.Error(err)) } } n.node = raft.RestartNode(n.Cfg) } else { n.node = raft.StartNode(n.Cfg, n.RaftPeers) } go n.proposals() go n.serveChannels() go n.snapshotAfterFlush() go n.deleteEntryLogPeriodically() go n.sendRaftMessages() return nil }" := by rfl

theorem src_retCommittedDataC_expected : src_retCommittedDataC = "{ defer func() { if e := recover(); e != nil { logger.GetLogger().Error(\"runtime panic\", zap.String(\"RetCommittedDataC raise stack:\", string(debug.Stack())), zap.Error(errno.NewError(errno.RecoverPanic, e)), zap.String(\"db\", n.database), zap.Uint32(\"ptId\", n.ptId)) } }() n.dataCommittedMu.RLock() c, ok := n.DataCommittedC[dw.ProposeId] n.dataCommittedMu.RUnlock() if !ok { logger.GetLogger().Error(\"PushCommittedDataC proposeId not exist\", zap.String(\"identity\", dw.Identity), zap.Uint64(\"proposeId\", dw.ProposeId)) return } c <- committedErr }" := by rfl

theorem src_addCommittedDataC_expected : src_addCommittedDataC = "{ n.dataCommittedMu.Lock() defer n.dataCommittedMu.Unlock() _, ok := n.DataCommittedC[dw.ProposeId] if ok { return nil, errno.NewError(errno.UsedProposeId, dw.Identity, dw.ProposeId) } c := make(chan error) n.DataCommittedC[dw.ProposeId] = c return c, nil }" := by rfl

theorem src_generateProposeId_expected : src_generateProposeId = "{ n.proposeId.CompareAndSwap(maxProposeId, 0) return n.proposeId.Add(1) }" := by rfl

theorem src_saveConfState_expected : src_saveConfState = "{ snapshot := &raftpb.Snapshot{ Data: nil, Metadata: raftpb.SnapshotMetadata{ ConfState: *n.confState, Index: 0, Term: 0, }, } err := n.Store.Save(nil, nil, snapshot) if err != nil { n.logger.Error(\"store confstate error\", zap.Error(err)) } }" := by rfl

theorem src_replay_expected : src_replay = "{ n.logger.Info(\"replay from snapshot.\") hardState, err2 := n.Store.HardState() if err2 != nil { return err2 } committedIndex := hardState.Commit fromIndex := sp.Metadata.Index if fromIndex == 0 { fromIndex = 1 } first, last := n.Store.GetFirstLast() n.logger.Info(\"raftNode replay range\", zap.String(\"db\", n.database), zap.Uint32(\"ptid\", n.ptId), zap.Uint64(\"lo\", fromIndex), zap.Uint64(\"hi\", committedIndex+1), zap.Uint64(\"first\", first), zap.Uint64(\"last\", last)) entries, err1 := n.Store.Entries(fromIndex, committedIndex+1, math.MaxUint64) if err1 != nil { return err1 } if len(entries) == 0 { return nil } data := make([][]byte, 0, len(entries)) for i := range entries { switch entries[i].Type { case raftpb.EntryNormal: if len(entries[i].Data) == 0 { continue } data = append(data, entries[i].Data) } } if len(data) > 0 { select { case n.ReplayC <- &Commit{ Database: n.database, PtId: GetPtId(n.id), Data: data, fromReplay: true, }: case <-n.ctx.Done(): return nil } } return nil }" := by rfl

theorem src_dealCommitData_expected : src_dealCommitData = "{ dataWrapper, err := raftlog.Unmarshal(data) defer func() { retCommittedDataC(node, dataWrapper, err) }() if err != nil { logger.GetLogger().Error(\"Unmarshal commit data failed\", zap.Error(err)) return } if dataWrapper.DataType == raftlog.Normal { err = dealNormalData(dataWrapper, database, ptId, client, storage, node) if err != nil { logger.GetLogger().Error(\"deal normal data failed\", zap.Error(err)) } } else if dataWrapper.DataType == raftlog.ClearEntryLog { bytes := dataWrapper.Data index := encoding.UnmarshalUint64(bytes) sp, err := node.Store.Snapshot() if err != nil { logger.GetLogger().Error(\"reading snapshot err when dealCommitData\", zap.Error(err), zap.String(\"db\", database), zap.Uint32(\"pt\", ptId)) return } if index = raftlog.ClearIndex(index, sp.Metadata.Index); index == 0 { return } err = node.Store.DeleteBefore(index) if err != nil { logger.GetLogger().Error(\"deleting entryLog err when dealCommitData\", zap.Error(err), zap.String(\"db\", database), zap.Uint32(\"pt\", ptId)) } } else { logger.GetLogger().Error(\"not support this data type\") } }" := by rfl

theorem src_tryToUpdateCommittedIndex_expected : src_tryToUpdateCommittedIndex = "{ s.mu.Lock() defer s.mu.Unlock() if s.CommittedIndex > index { return } if atomic.LoadUint32(&s.RaftFlag) != 1 { return } s.CommittedIndex = index }" := by rfl

theorem src_storageInit_expected : src_storageInit = "{ dir = filepath.Join(dir, raftEntriesDir) rds := &RaftDiskStorage{ dir: dir, logger: logger.NewLogger(errno.ModuleStorageEngine), SyncInterval: SyncInterval, firstSync: true, } lockFile := fileops.FileLockOption(\"\") if err := fileops.MkdirAll(dir, 0750, lockFile); err != nil { return nil, errors.Wrapf(err, \"mkdir failed:%s\", dir) } var err error if rds.meta, err = newMetaFile(dir); err != nil { return nil, err } if rds.entryLog, err = openEntryLogs(dir); err != nil { return nil, err } snap, err := rds.meta.snapshot() if err != nil { return nil, err } first, err := rds.FirstIndexWithSnap() if err != nil { return nil, err } if !raft.IsEmptySnap(snap) { if snap.Metadata.Index+1 != first { last, err := rds.LastIndex() if err != nil { return nil, err } return nil, errors.Newf(\"snap index: %d + 1 should be equal to first: %d last: %d\\n\", snap.Metadata.Index, first, last) } } err = rds.entryLog.deleteBefore(first - 1) if err != nil { rds.logger.Error(\"Init deleteBefore err\", zap.Error(err), zap.String(\"dir\", dir), zap.Uint64(\"first\", first)) } last := rds.entryLog.lastIndex() rds.logger.Info(\"Init Raft Storage with snap\", zap.Uint64(\"index\", snap.Metadata.Index), zap.Uint64(\"first\", first), zap.Uint64(\"last\", last), zap.Duration(\"syncInterval\", rds.SyncInterval)) return rds, nil }" := by rfl

theorem src_firstIndexWithSnap_expected : src_firstIndexWithSnap = "{ rds.lock.Lock() defer rds.lock.Unlock() if si := rds.Uint(SnapshotIndex); si > 0 { return si + 1, nil } return rds.entryLog.firstIndex(), nil }" := by rfl

theorem src_createSnapshot_expected : src_createSnapshot = "{ rds.lock.Lock() defer rds.lock.Unlock() first := rds.firstIndex() if i < first { rds.logger.Error(fmt.Sprintf(\"i=%d<first=%d, ErrSnapOutOfDate\", i, first)) return raft.ErrSnapOutOfDate } e, err := rds.entryLog.seekEntry(i) if err != nil { return err } var snap raftpb.Snapshot snap.Metadata.Index = i snap.Metadata.Term = e.Term() if cs == nil { panic(\"raft ConfState is nil\") } snap.Metadata.ConfState = *cs snap.Data = data if err = rds.meta.StoreSnapshot(&snap); err != nil { return err } return nil }" := by rfl

theorem src_storageDeleteBefore_expected : src_storageDeleteBefore = "{ return rds.entryLog.deleteBefore(index) }" := by rfl

theorem src_entryLogDeleteBefore_expected : src_entryLogDeleteBefore = "{ fidx, off := l.slotGe(raftIndex) l.filesSync.Lock() defer l.filesSync.Unlock() if off < 0 || fidx >= len(l.files) { return fmt.Errorf(\"deleteBefore slotGe return inValid\") } var before []*logFile if fidx == -1 { before = l.files l.files = l.files[:0] } else { before = l.files[:fidx] l.files = l.files[fidx:] } for _, ef := range before { if err := ef.delete(); err != nil { logger.GetLogger().Error(fmt.Sprintf(\"while deleting file: %s\", ef.entry.Name()), zap.Error(err)) } } return nil }" := by rfl

theorem src_entryLogSlotGe_expected : src_entryLogSlotGe = "{ l.filesSync.RLock() defer l.filesSync.RUnlock() if offset := l.current.slotGe(raftIndex); offset >= 0 { return -1, offset } if len(l.files) == 0 { return -1, -1 } var hasNilFile bool fileIdx := sort.Search(len(l.files), func(i int) bool { entry := l.files[i].firstEntry() if entry == nil { hasNilFile = true } return entry != nil && entry.Index() >= raftIndex }) if hasNilFile { return -1, -1 } if fileIdx < len(l.files) && l.files[fileIdx].firstIndex() == raftIndex { return fileIdx, 0 } if fileIdx > 0 { fileIdx-- } offset := l.files[fileIdx].slotGe(raftIndex) return fileIdx, offset }" := by rfl

theorem src_logFileSlotGe_expected : src_logFileSlotGe = "{ fi := lf.firstIndex() if fi == 0 || raftIndex < fi { return -1 } if diff := int(raftIndex - fi); diff < maxNumEntries && diff >= 0 { e := lf.getEntry(diff) if e.Index() == raftIndex { return diff } } return sort.Search(maxNumEntries, func(i int) bool { e := lf.getEntry(i) if e.Index() == 0 { return true } return e.Index() >= raftIndex }) }" := by rfl

theorem src_isValidSnapshot_expected : src_isValidSnapshot = "{ if !raft.IsEmptySnap(snapshot) { return true } if snapshot.Metadata.ConfState.Voters != nil { return true } return false }" := by rfl

theorem src_readCommitFromRaft_expected : src_readCommitFromRaft = "{ commitC := node.GetCommitC() for commit := range commitC { if commit == nil { continue } committedIndex := commit.CommittedIndex database := commit.Database ptId := commit.PtId for _, data := range commit.Data { dealCommitData(node, client, storage, data, database, ptId) } node.SnapShotter.TryToUpdateCommittedIndex(committedIndex) } }" := by rfl

theorem src_readReplay_expected : src_readReplay = "{ if len(ReplayC) == 0 { return } defer func() { if e := recover(); e != nil { log.Error(\"runtime panic\", zap.String(\"readReplayForReplication raise stack:\", string(debug.Stack())), zap.Error(errno.NewError(errno.RecoverPanic, e)), zap.String(\"db\", db), zap.Uint32(\"ptId\", ptId)) } }() for commit := range ReplayC { if commit == nil { continue } database := commit.Database ptId := commit.PtId logger.GetLogger().Info(\"start read replay for replication\", zap.String(\"database\", database), zap.Uint32(\"ptId\", ptId)) for _, data := range commit.Data { dataWrapper, _ := raftlog.Unmarshal(data) if dataWrapper.DataType == raftlog.Normal { err := dealNormalData(dataWrapper, database, ptId, client, storage, nil) if err != nil { logger.GetLogger().Error(\"deal normal data failed\", zap.Error(err)) } } } } }" := by rfl

theorem src_dealNormalData_expected : src_dealNormalData = "{ tail := dataWrapper.GetData() ww := pointsdecoder.GetDecoderWork() ww.SetReqBuf(tail) defer pointsdecoder.PutDecoderWork(ww) masterShId, _, _, err := ww.DecodeShardAndRows(database, \"\", ptId, tail) if err != nil { logger.GetLogger().Error(\"decode shard and rows failed\", zap.Error(err)) return err } db, rp, sgi := client.ShardOwner(masterShId) if db != database { logger.GetLogger().Error(fmt.Sprintf(\"exp db: %v, but got: %v\", database, db)) return errors.New(\"db is not same\") } if sgi == nil || len(sgi.Shards) <= int(ptId) { return errors.New(\"sgi shards less than ptid\") } shardID := sgi.Shards[ptId].ID var snapShotter *raftlog.SnapShotter if node == nil { snapShotter = nil } else { snapShotter = node.SnapShotter } err = storage.Write(database, rp, ww.GetRows()[0].Name, ptId, shardID, func() error { return storage.WriteDataFunc(database, rp, ptId, shardID, ww.GetRows(), nil, snapShotter) }) if err != nil { logger.GetLogger().Error(\"write points to storage failed\", zap.Error(err)) return err } return nil }" := by rfl

theorem src_engineWriteRows_expected : src_engineWriteRows = "{ sh, err := e.getShard(db, ptId, shardID) if err != nil { return err } if snp != nil { sh.SetSnapShotter(snp) } if sh.GetEngineType() == config.COLUMNSTORE { err = e.updateColumnStoreMstInfoByRows(db, rp, rows) if err != nil { return err } } return sh.WriteRows(rows, binaryRows) }" := by rfl

theorem src_setSnapShotter_expected : src_setSnapShotter = "{ if s.SnapShotter == nil { s.SnapShotter = snp } }" := by rfl

theorem src_walWrite_expected : src_walWrite = "{ if !l.walEnabled { return nil } if len(rows) == 0 { return nil } l.mu.Lock() l.maxRowTime = max(l.maxRowTime, maxRowTime) l.mu.Unlock() start := time.Now() failpoint.Inject(\"SlowDownWalWrite\", nil) err := l.writeBinary(&walRecord{binary: rows, writeWalType: typ}) atomic.AddInt64(&statistics.PerfStat.WriteWalDurationNs, time.Since(start).Nanoseconds()) return err }" := by rfl

theorem src_electRgMaster_expected : src_electRgMaster = "{ var electSuccess bool var newMasterId uint32 peers := rg.Peers newPeers := make([]meta.Peer, len(rg.Peers)) for i := range peers { newPeers[i].ID = peers[i].ID newPeers[i].PtRole = peers[i].PtRole if peers[i].PtRole == meta.Slave && ptInfo[peers[i].ID].Status == meta.Online && !electSuccess { newMasterId = peers[i].ID newPeers[i].ID = rg.MasterPtID newPeers[i].PtRole = meta.Slave electSuccess = true } } if !electSuccess { meta.DataLogger.Error(\"electRgMaster fail\", zap.String(\"db\", db), zap.Uint32(\"rg\", rg.ID)) } return newMasterId, newPeers, electSuccess }" := by rfl

theorem src_getNewRg_expected : src_getNewRg = "{ dbRgs, ok := data.ReplicaGroups[db] if !ok { return 0, nil, fmt.Errorf(\"no rg of db\") } if rgId >= uint32(len(dbRgs)) { return 0, nil, fmt.Errorf(\"rgId > len(dbRgs), len:%v\", len(dbRgs)) } if newMasterPtId == dbRgs[rgId].MasterPtID { return 0, nil, fmt.Errorf(\"newMasterPtId == oldMasterPtId\") } newPeers := make([]Peer, 0) newPeers = append(newPeers, Peer{ID: dbRgs[rgId].MasterPtID, PtRole: Slave}) findNewMasterPtId := false for i := range dbRgs[rgId].Peers { if dbRgs[rgId].Peers[i].ID == newMasterPtId { findNewMasterPtId = true } else { newPeers = append(newPeers, Peer{ID: dbRgs[rgId].Peers[i].ID, PtRole: Slave}) } } if !findNewMasterPtId || len(newPeers) != len(dbRgs[rgId].Peers) { return 0, nil, fmt.Errorf(\"newMasterPtId find err\") } return newMasterPtId, newPeers, nil }" := by rfl

theorem src_updateReplication_expected : src_updateReplication = "{ rgs, ok := data.ReplicaGroups[database] if !ok { return 0, errno.NewError(errno.DatabaseNotFound, database) } rg := &rgs[rgId] oldMasterPtID := rg.MasterPtID rg.MasterPtID = masterId if len(peers) > 0 { rg.Peers = make([]Peer, len(peers)) for i := range peers { rg.Peers[i].ID = peers[i].GetID() rg.Peers[i].PtRole = Role(peers[i].GetRole()) } } return oldMasterPtID, nil }" := by rfl

theorem src_getAliveShardsForRepDB_expected : src_getAliveShardsForRepDB = "{ repGroups := c.DBRepGroups(database) aliveShardIdxes := make([]int, 0, len(sgi.Shards)/replicaN) addedRGID := make(map[uint32]interface{}, 0) c.mu.RLock() ptView := c.cacheData.PtView[database] for i := range sgi.Shards { for _, ptId := range sgi.Shards[i].Owners { if repGroups[ptView[ptId].RGID].Status == meta2.Health && repGroups[ptView[ptId].RGID].IsMasterPt(ptId) { aliveShardIdxes = append(aliveShardIdxes, i) addedRGID[ptView[ptId].RGID] = nil break } else if repGroups[ptView[ptId].RGID].Status == meta2.SubHealth && ptView[ptId].Status == meta2.Online { if _, ok := addedRGID[ptView[ptId].RGID]; !ok { aliveShardIdxes = append(aliveShardIdxes, i) addedRGID[ptView[ptId].RGID] = nil break } } } } c.mu.RUnlock() return aliveShardIdxes }" := by rfl

theorem src_startCommitLoop_expected : src_startCommitLoop = "{ go func() { <-replayDone readCommitFromRaft(node, client, storage) }() }" := by rfl

end OG.C05.Facts
