import OG.C05.Driver
def main : IO Unit := OG.C05.main
