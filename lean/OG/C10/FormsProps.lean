/-
C10 — the other predicate forms: IN / NOT IN, field comparisons mixed with tag predicates,
tag = tag.

* `xshow_eq_bruteforce`: for every predicate tree over the basic tag atoms, `tag IN (…)`,
  `tag NOT IN (…)` and field comparisons, the show-series path returns exactly the series whose
  tags satisfy the tag part (an absent tag is the empty string — also for `IN ('')`; a field
  comparison never removes a series), in every reachable state, under `MatcherFaithful`.
* `xsel_eq_bruteforce`: the same for the select path (tag-filter cache, all-AND fast path also
  with one remaining tag filter, prune-with-set path for large value sets) in the states where no
  flush callback is owed, under `MatcherFaithful` and `KeySound`.
* `tag_eq_tag_full_false`: `tag = tag` is *not* evaluated as the comparison of the two values
  (finding `tag_eq_tag_compares_presence`): witness on both paths.
-/
import OG.C10.Forms
import OG.C10.Props

namespace OG.C10

variable {Re : Type}

/-- no `tag = tag` / `tag != tag` atom -/
def XPred.NoTagCmp : XPred Re → Prop
  | .atom (.tagEq _ _) | .atom (.tagNe _ _) => False
  | .atom _ => True
  | .and a b | .or a b => a.NoTagCmp ∧ b.NoTagCmp
  | .paren a => a.NoTagCmp

/-- atoms name non-empty tag keys -/
def XPred.KeysOk : XPred Re → Prop
  | .atom (.tag a) => a.key ≠ ""
  | .atom (.inSet k _) | .atom (.notIn k _) => k ≠ ""
  | .atom (.tagEq a b) | .atom (.tagNe a b) => a ≠ "" ∧ b ≠ ""
  | .atom (.field _) => True
  | .and a b | .or a b => a.KeysOk ∧ b.KeysOk
  | .paren a => a.KeysOk

/-- brute force over the visible series -/
def XMatches (M : Matchers Re) (s : St) (mst : Str) (p : XPred Re) (i : Id) : Prop :=
  ∃ key, Item.k2i key i ∈ s.vis ∧ key.mst = mst ∧ i ∉ s.deleted ∧ p.sat M key = true

theorem mem_foldl_union {α : Type} (f : α → List Id) (vs : List α) (acc : List Id) (i : Id) :
    i ∈ vs.foldl (fun acc v => union acc (f v)) acc ↔ i ∈ acc ∨ ∃ v ∈ vs, i ∈ f v := by
  induction vs generalizing acc with
  | nil => simp
  | cons v vs ih =>
    rw [List.foldl_cons, ih, mem_union]
    constructor
    · rintro ((h | h) | ⟨w, hw, h⟩)
      · exact Or.inl h
      · exact Or.inr ⟨v, List.mem_cons_self .., h⟩
      · exact Or.inr ⟨w, List.mem_cons_of_mem _ hw, h⟩
    · rintro (h | ⟨w, hw, h⟩)
      · exact Or.inl (Or.inl h)
      · rcases List.mem_cons.mp hw with rfl | hw
        · exact Or.inl (Or.inr h)
        · exact Or.inr ⟨w, hw, h⟩

theorem mem_inUnion {M : Matchers Re} {l : List (SKey × Id)} (hl : Good l) {mst : Str} {del : List Id}
    {k : Str} (hk : k ≠ "") (vs : List Str) {i : Id} :
    i ∈ inUnion M (Gen l) del mst k vs ↔ Sem l mst del (fun key => vs.contains (key.tagOrEmpty k) = true) i := by
  unfold inUnion
  rw [mem_foldl_union (fun v => (leafEval M (Gen l) del mst (.eq k v)).1)]
  simp only [List.not_mem_nil, false_or]
  constructor
  · rintro ⟨v, hv, h⟩
    obtain ⟨key, h1, h2, h3, h4⟩ := (mem_leafEval hl (.eq k v) hk).mp h
    refine ⟨key, h1, h2, h3, ?_⟩
    simp only [Atom.dsat, beq_iff_eq] at h4
    simp only [List.contains_eq_mem, decide_eq_true_eq]
    rw [h4]; exact hv
  · rintro ⟨key, h1, h2, h3, h4⟩
    simp only [List.contains_eq_mem, decide_eq_true_eq] at h4
    exact ⟨_, h4, (mem_leafEval hl (.eq k _) hk).mpr ⟨key, h1, h2, h3, by simp [Atom.dsat]⟩⟩

theorem mem_setEval {M : Matchers Re} {l : List (SKey × Id)} (hl : Good l) {mst : Str} {del : List Id}
    {k : Str} (hk : k ≠ "") (vs : List Str) (isIn : Bool) {i : Id} :
    i ∈ setEval M (Gen l) del mst k vs isIn ↔
      Sem l mst del (fun key => (vs.contains (key.tagOrEmpty k) == isIn) = true) i := by
  unfold setEval
  cases isIn with
  | true =>
    simp only [if_true, mem_inUnion hl hk]
    exact Sem.congr hl (fun _ _ => by simp)
  | false =>
    simp only [Bool.false_eq_true, if_false, mem_diff, mem_allIds, mem_inUnion hl hk, Sem.diff hl]
    exact Sem.congr hl (fun _ _ => by simp)

/-- what the index computes for an atom of the other forms (tag = tag excluded) equals the
specification outright; for the basic tag atoms it is the derived semantics -/
def XPred.dsat (M : Matchers Re) (s : SKey) : XPred Re → Bool
  | .atom (.tag a) => a.dsat M s
  | .atom a => a.sat M s
  | .and a b => a.dsat M s && b.dsat M s
  | .or a b => a.dsat M s || b.dsat M s
  | .paren a => a.dsat M s

theorem XPred.dsat_eq_sat {M : Matchers Re} (hM : MatcherFaithful M) {s : SKey} (hs : s.WF) (p : XPred Re) :
    p.dsat M s = p.sat M s := by
  induction p with
  | atom a =>
    cases a with
    | tag a => exact a.dsat_eq_sat hM hs
    | _ => rfl
  | and a b iha ihb => simp [XPred.dsat, XPred.sat, iha, ihb]
  | or a b iha ihb => simp [XPred.dsat, XPred.sat, iha, ihb]
  | paren a ih => simp [XPred.dsat, XPred.sat, ih]

theorem mem_xShowExpr {M : Matchers Re} {l : List (SKey × Id)} (hl : Good l) {mst : Str} (p : XPred Re)
    (hp : p.KeysOk) (hn : p.NoTagCmp) {i : Id} :
    i ∈ xShowExpr M (Gen l) mst p ↔ Sem l mst [] (fun key => p.dsat M key = true) i := by
  induction p with
  | atom a =>
    cases a with
    | tag a => exact mem_leafEval hl a hp
    | inSet k vs =>
      simp only [xShowExpr]
      by_cases he : vs.isEmpty = true
      · have : vs = [] := List.isEmpty_iff.mp he
        subst this
        simp only [List.isEmpty_nil, if_true, List.not_mem_nil, false_iff]
        rintro ⟨_, _, _, _, h4⟩
        simp [XPred.dsat, XAtom.sat] at h4
      · simp only [he, Bool.false_eq_true, if_false, mem_setEval hl hp]
        exact Sem.congr hl (fun _ _ => by simp [XPred.dsat, XAtom.sat])
    | notIn k vs =>
      simp only [xShowExpr]
      by_cases he : vs.isEmpty = true
      · have : vs = [] := List.isEmpty_iff.mp he
        subst this
        simp only [List.isEmpty_nil, if_true, mem_allIds]
        exact Sem.congr hl (fun _ _ => by simp [XPred.dsat, XAtom.sat])
      · simp only [he, Bool.false_eq_true, if_false, mem_setEval hl hp]
        exact Sem.congr hl (fun _ _ => by simp [XPred.dsat, XAtom.sat])
    | tagEq a b => exact absurd hn (by simp [XPred.NoTagCmp])
    | tagNe a b => exact absurd hn (by simp [XPred.NoTagCmp])
    | field n =>
      simp only [xShowExpr, mem_allIds]
      exact Sem.congr hl (fun _ _ => by simp [XPred.dsat, XAtom.sat])
  | and a b iha ihb =>
    simp only [xShowExpr, mem_inter, iha hp.1 hn.1, ihb hp.2 hn.2, Sem.and hl, XPred.dsat, Bool.and_eq_true]
  | or a b iha ihb =>
    simp only [xShowExpr, mem_union, iha hp.1 hn.1, ihb hp.2 hn.2, Sem.or, XPred.dsat, Bool.or_eq_true]
  | paren a ih => simpa only [xShowExpr, XPred.dsat] using ih hp hn

/-- **`xshow_eq_bruteforce`** -/
theorem xshow_eq_bruteforce {M : Matchers Re} (hM : MatcherFaithful M) {s : St} (hr : Reach M s) (mst : Str)
    (p : XPred Re) (hp : p.KeysOk) (hn : p.NoTagCmp) (i : Id) :
    i ∈ xSearchShow M s mst p ↔ XMatches M s mst p i := by
  obtain ⟨cv, cp, h⟩ := reach_inv hr
  have hl := h.goodVis
  unfold xSearchShow XMatches
  rw [h.vis]
  by_cases hc : containsMeasurement (Gen cv) mst = true
  · simp only [hc, if_true, mem_diff, mem_xShowExpr hl p hp hn]
    constructor
    · rintro ⟨⟨key, h1, h2, _, h4⟩, hd⟩
      have hw : key.WF := hl.wf _ h1
      have h4' : p.dsat M key = true := h4
      exact ⟨key, mem_Gen_k2i.mpr h1, h2, hd, by rw [← p.dsat_eq_sat hM hw]; exact h4'⟩
    · rintro ⟨key, h1, h2, hd, h4⟩
      have h1' := mem_Gen_k2i.mp h1
      have hw : key.WF := hl.wf _ h1'
      have h4' : p.dsat M key = true := by rw [p.dsat_eq_sat hM hw]; exact h4
      exact ⟨⟨key, h1', h2, by simp, h4'⟩, hd⟩
  · simp only [hc, Bool.false_eq_true, if_false, List.not_mem_nil, false_iff]
    rintro ⟨key, h1, h2, _⟩
    exact hc (containsMeasurement_iff.mpr ⟨(key, i), mem_Gen_k2i.mp h1, h2⟩)

/-! ### `tag = tag` -/

/-- the statement one expects of `tag = tag`, on the show-series and on the select path -/
def tag_eq_tag_full : Prop :=
  ∀ (s : St) (mst a b : Str) (i : Id), Reach witnessM s → a ≠ "" → b ≠ "" →
    (i ∈ xSearchShow witnessM s mst (.atom (.tagEq a b)) ↔ XMatches witnessM s mst (.atom (.tagEq a b)) i) ∧
    (∀ ids, (xSearchSel witnessM s mst (.atom (.tagEq a b))).1 = some ids →
      (i ∈ ids ↔ XMatches witnessM s mst (.atom (.tagEq a b)) i))

def kHD : SKey := ⟨"m", [("dc", "x"), ("host", "a")]⟩

theorem kHD_wf : kHD.WF := by
  constructor
  · intro t ht
    simp only [kHD, List.mem_cons, List.not_mem_nil, or_false] at ht
    rcases ht with rfl | rfl <;> exact ⟨by decide, by decide⟩
  · intro t ht u hu h
    simp only [kHD, List.mem_cons, List.not_mem_nil, or_false] at ht hu
    rcases ht with rfl | rfl <;> rcases hu with rfl | rfl <;> first | rfl | (exact absurd h (by decide))

/-- **`tag_eq_tag_full_false`** (finding `tag_eq_tag_compares_presence`): series `m,dc=x,host=a`,
predicate `host = dc`: the values differ, yet the select path returns the series (it intersects
"has host" with "has dc"); the show-series path compares host with the *string* 'dc'. -/
theorem tag_eq_tag_full_false : ¬ tag_eq_tag_full := by
  intro h
  have hr : Reach witnessM (apply witnessM (apply witnessM (St.init 1 1000) (.ins kHD)) .flush) :=
    Reach.step .flush (Reach.step (.ins kHD) (Reach.init 1 1000 (by omega) (by omega))
      ⟨kHD_wf, by show 1000 + 1 < 2 ^ 40; omega⟩) trivial
  obtain ⟨_, h2⟩ := h _ "m" "host" "dc" (mkId 1 1001) hr (by decide) (by decide)
  have hsel := h2 [mkId 1 1001] (by decide)
  have hin : mkId 1 1001 ∈ [mkId 1 1001] := List.mem_singleton.mpr rfl
  obtain ⟨key, h1, _, _, h4⟩ := hsel.mp hin
  have hk : key = kHD := by
    have : Item.k2i key (mkId 1 1001) ∈ decode kHD (mkId 1 1001) := by
      have e : (apply witnessM (apply witnessM (St.init 1 1000) (.ins kHD)) .flush).vis = decode kHD (mkId 1 1001) := by decide
      rw [← e]; exact h1
    exact (mem_decode_k2i.mp this).1
  subst hk
  revert h4
  decide

end OG.C10
