/-
C10 — the other predicate forms: IN / NOT IN, field comparisons mixed with tag predicates,
tag = tag.

* `xshow_eq_bruteforce`: for every predicate tree over the basic tag atoms, `tag IN (…)`,
  `tag NOT IN (…)` and field comparisons, the show-series path returns exactly the series whose
  tags satisfy the tag part (an absent tag is the empty string — also for `IN ('')`; a field
  comparison never removes a series), in every reachable state, under `MatcherFaithful`.
* `xsel_eq_bruteforce`: the same for the select path (tag-filter cache, all-AND fast path also
  with one remaining tag filter, prune-with-set path for large value sets) in the states where no
  flush callback is owed, under `MatcherFaithful` and `KeySound`.
* `tag_eq_tag_full_false`: `tag = tag` is *not* evaluated as the comparison of the two values
  (finding `tag_eq_tag_compares_presence`): witness on both paths.
-/
import OG.C10.Forms
import OG.C10.Props

namespace OG.C10

variable {Re : Type}

/-- no `tag = tag` / `tag != tag` atom -/
def XPred.NoTagCmp : XPred Re → Prop
  | .atom (.tagEq _ _) | .atom (.tagNe _ _) => False
  | .atom _ => True
  | .and a b | .or a b => a.NoTagCmp ∧ b.NoTagCmp
  | .paren a => a.NoTagCmp

/-- atoms name non-empty tag keys -/
def XPred.KeysOk : XPred Re → Prop
  | .atom (.tag a) => a.key ≠ ""
  | .atom (.inSet k _) | .atom (.notIn k _) => k ≠ ""
  | .atom (.tagEq a b) | .atom (.tagNe a b) => a ≠ "" ∧ b ≠ ""
  | .atom (.field _) => True
  | .and a b | .or a b => a.KeysOk ∧ b.KeysOk
  | .paren a => a.KeysOk

/-- brute force over the visible series -/
def XMatches (M : Matchers Re) (s : St) (mst : Str) (p : XPred Re) (i : Id) : Prop :=
  ∃ key, Item.k2i key i ∈ s.vis ∧ key.mst = mst ∧ i ∉ s.deleted ∧ p.sat M key = true

theorem mem_foldl_union {α : Type} (f : α → List Id) (vs : List α) (acc : List Id) (i : Id) :
    i ∈ vs.foldl (fun acc v => union acc (f v)) acc ↔ i ∈ acc ∨ ∃ v ∈ vs, i ∈ f v := by
  induction vs generalizing acc with
  | nil => simp
  | cons v vs ih =>
    rw [List.foldl_cons, ih, mem_union]
    constructor
    · rintro ((h | h) | ⟨w, hw, h⟩)
      · exact Or.inl h
      · exact Or.inr ⟨v, List.mem_cons_self .., h⟩
      · exact Or.inr ⟨w, List.mem_cons_of_mem _ hw, h⟩
    · rintro (h | ⟨w, hw, h⟩)
      · exact Or.inl (Or.inl h)
      · rcases List.mem_cons.mp hw with rfl | hw
        · exact Or.inl (Or.inr h)
        · exact Or.inr ⟨w, hw, h⟩

theorem mem_inUnion {M : Matchers Re} {l : List (SKey × Id)} (hl : Good l) {mst : Str} {del : List Id}
    {k : Str} (hk : k ≠ "") (vs : List Str) {i : Id} :
    i ∈ inUnion M (Gen l) del mst k vs ↔ Sem l mst del (fun key => vs.contains (key.tagOrEmpty k) = true) i := by
  unfold inUnion
  rw [mem_foldl_union (fun v => (leafEval M (Gen l) del mst (.eq k v)).1)]
  simp only [List.not_mem_nil, false_or]
  constructor
  · rintro ⟨v, hv, h⟩
    obtain ⟨key, h1, h2, h3, h4⟩ := (mem_leafEval hl (.eq k v) hk).mp h
    refine ⟨key, h1, h2, h3, ?_⟩
    simp only [Atom.dsat, beq_iff_eq] at h4
    simp only [List.contains_eq_mem, decide_eq_true_eq]
    rw [h4]; exact hv
  · rintro ⟨key, h1, h2, h3, h4⟩
    simp only [List.contains_eq_mem, decide_eq_true_eq] at h4
    exact ⟨_, h4, (mem_leafEval hl (.eq k _) hk).mpr ⟨key, h1, h2, h3, by simp [Atom.dsat]⟩⟩

theorem mem_setEval {M : Matchers Re} {l : List (SKey × Id)} (hl : Good l) {mst : Str} {del : List Id}
    {k : Str} (hk : k ≠ "") (vs : List Str) (isIn : Bool) {i : Id} :
    i ∈ setEval M (Gen l) del mst k vs isIn ↔
      Sem l mst del (fun key => (vs.contains (key.tagOrEmpty k) == isIn) = true) i := by
  unfold setEval
  cases isIn with
  | true =>
    simp only [if_true, mem_inUnion hl hk]
    exact Sem.congr hl (fun _ _ => by simp)
  | false =>
    simp only [Bool.false_eq_true, if_false, mem_diff, mem_allIds, mem_inUnion hl hk, Sem.diff hl]
    exact Sem.congr hl (fun _ _ => by simp)

/-- what the index computes for an atom of the other forms (tag = tag excluded) equals the
specification outright; for the basic tag atoms it is the derived semantics -/
def XPred.dsat (M : Matchers Re) (s : SKey) : XPred Re → Bool
  | .atom (.tag a) => a.dsat M s
  | .atom a => a.sat M s
  | .and a b => a.dsat M s && b.dsat M s
  | .or a b => a.dsat M s || b.dsat M s
  | .paren a => a.dsat M s

theorem XPred.dsat_eq_sat {M : Matchers Re} (hM : MatcherFaithful M) {s : SKey} (hs : s.WF) (p : XPred Re) :
    p.dsat M s = p.sat M s := by
  induction p with
  | atom a =>
    cases a with
    | tag a => exact a.dsat_eq_sat hM hs
    | _ => rfl
  | and a b iha ihb => simp [XPred.dsat, XPred.sat, iha, ihb]
  | or a b iha ihb => simp [XPred.dsat, XPred.sat, iha, ihb]
  | paren a ih => simp [XPred.dsat, XPred.sat, ih]

theorem mem_xShowExpr {M : Matchers Re} {l : List (SKey × Id)} (hl : Good l) {mst : Str} (p : XPred Re)
    (hp : p.KeysOk) (hn : p.NoTagCmp) {i : Id} :
    i ∈ xShowExpr M (Gen l) mst p ↔ Sem l mst [] (fun key => p.dsat M key = true) i := by
  induction p with
  | atom a =>
    cases a with
    | tag a => exact mem_leafEval hl a hp
    | inSet k vs =>
      simp only [xShowExpr]
      by_cases he : vs.isEmpty = true
      · have : vs = [] := List.isEmpty_iff.mp he
        subst this
        simp only [List.isEmpty_nil, if_true, List.not_mem_nil, false_iff]
        rintro ⟨_, _, _, _, h4⟩
        simp [XPred.dsat, XAtom.sat] at h4
      · simp only [he, Bool.false_eq_true, if_false, mem_setEval hl hp]
        exact Sem.congr hl (fun _ _ => by simp [XPred.dsat, XAtom.sat])
    | notIn k vs =>
      simp only [xShowExpr]
      by_cases he : vs.isEmpty = true
      · have : vs = [] := List.isEmpty_iff.mp he
        subst this
        simp only [List.isEmpty_nil, if_true, mem_allIds]
        exact Sem.congr hl (fun _ _ => by simp [XPred.dsat, XAtom.sat])
      · simp only [he, Bool.false_eq_true, if_false, mem_setEval hl hp]
        exact Sem.congr hl (fun _ _ => by simp [XPred.dsat, XAtom.sat])
    | tagEq a b => exact absurd hn (by simp [XPred.NoTagCmp])
    | tagNe a b => exact absurd hn (by simp [XPred.NoTagCmp])
    | field n =>
      simp only [xShowExpr, mem_allIds]
      exact Sem.congr hl (fun _ _ => by simp [XPred.dsat, XAtom.sat])
  | and a b iha ihb =>
    simp only [xShowExpr, mem_inter, iha hp.1 hn.1, ihb hp.2 hn.2, Sem.and hl, XPred.dsat, Bool.and_eq_true]
  | or a b iha ihb =>
    simp only [xShowExpr, mem_union, iha hp.1 hn.1, ihb hp.2 hn.2, Sem.or, XPred.dsat, Bool.or_eq_true]
  | paren a ih => simpa only [xShowExpr, XPred.dsat] using ih hp hn

/-- **`xshow_eq_bruteforce`** -/
theorem xshow_eq_bruteforce {M : Matchers Re} (hM : MatcherFaithful M) {s : St} (hr : Reach M s) (mst : Str)
    (p : XPred Re) (hp : p.KeysOk) (hn : p.NoTagCmp) (i : Id) :
    i ∈ xSearchShow M s mst p ↔ XMatches M s mst p i := by
  obtain ⟨cv, cp, h⟩ := reach_inv hr
  have hl := h.goodVis
  unfold xSearchShow XMatches
  rw [h.vis]
  by_cases hc : containsMeasurement (Gen cv) mst = true
  · simp only [hc, if_true, mem_diff, mem_xShowExpr hl p hp hn]
    constructor
    · rintro ⟨⟨key, h1, h2, _, h4⟩, hd⟩
      have hw : key.WF := hl.wf _ h1
      have h4' : p.dsat M key = true := h4
      exact ⟨key, mem_Gen_k2i.mpr h1, h2, hd, by rw [← p.dsat_eq_sat hM hw]; exact h4'⟩
    · rintro ⟨key, h1, h2, hd, h4⟩
      have h1' := mem_Gen_k2i.mp h1
      have hw : key.WF := hl.wf _ h1'
      have h4' : p.dsat M key = true := by rw [p.dsat_eq_sat hM hw]; exact h4
      exact ⟨⟨key, h1', h2, by simp, h4'⟩, hd⟩
  · simp only [hc, Bool.false_eq_true, if_false, List.not_mem_nil, false_iff]
    rintro ⟨key, h1, h2, _⟩
    exact hc (containsMeasurement_iff.mpr ⟨(key, i), mem_Gen_k2i.mp h1, h2⟩)

/-! ### select path -/

theorem isAllField_sat {M : Matchers Re} (p : XPred Re) (h : isAllField p = true) (key : SKey) :
    p.sat M key = true := by
  induction p with
  | atom a => cases a <;> simp_all [isAllField, XPred.sat, XAtom.sat]
  | and a b iha ihb =>
    simp only [isAllField, Bool.and_eq_true] at h
    simp [XPred.sat, iha h.1, ihb h.2]
  | or a b iha ihb =>
    simp only [isAllField, Bool.and_eq_true] at h
    simp [XPred.sat, iha h.1]
  | paren a ih => simpa [XPred.sat] using ih h

/-- what the result of a sub-tree evaluation means -/
def XOk (M : Matchers Re) (l : List (SKey × Id)) (mst : Str) (del : List Id) (p : XPred Re) : XRes → Prop
  | .ids x => ∀ i, i ∈ x ↔ Sem l mst del (fun key => p.sat M key = true) i
  | .fieldExpr => isAllField p = true
  | .fail => False

theorem XOk.asIds {M : Matchers Re} {l : List (SKey × Id)} (hl : Good l) {mst : Str} {del : List Id} {p : XPred Re}
    {r : XRes} (h : XOk M l mst del p r) :
    ∃ x, asIds (Gen l) del mst r = some x ∧ ∀ i, i ∈ x ↔ Sem l mst del (fun key => p.sat M key = true) i := by
  cases r with
  | ids x => exact ⟨x, rfl, h⟩
  | fieldExpr =>
    refine ⟨_, rfl, fun i => ?_⟩
    rw [mem_allIds]
    exact Sem.congr hl (fun k _ => by simp [isAllField_sat p h k])
  | fail => exact absurd h id

theorem allAndLeaves_spec {M : Matchers Re} (p : XPred Re) :
    ∀ tags n, allAndLeaves p = some (tags, n) →
      (p.KeysOk → ∀ a ∈ tags, a.key ≠ "") ∧ ∀ key, (p.sat M key = true ↔ allSat M tags key) := by
  induction p with
  | atom a =>
    intro tags n h
    cases a with
    | tag a =>
      simp only [allAndLeaves, Option.some.injEq, Prod.mk.injEq] at h
      obtain ⟨rfl, _⟩ := h
      exact ⟨fun hk b hb => by simp only [List.mem_singleton] at hb; subst hb; exact hk,
        fun key => by simp [allSat, XPred.sat, XAtom.sat]⟩
    | field m =>
      simp only [allAndLeaves, Option.some.injEq, Prod.mk.injEq] at h
      obtain ⟨rfl, _⟩ := h
      exact ⟨fun _ b hb => by simp at hb, fun key => by simp [allSat, XPred.sat, XAtom.sat]⟩
    | inSet _ _ => simp [allAndLeaves] at h
    | notIn _ _ => simp [allAndLeaves] at h
    | tagEq _ _ => simp [allAndLeaves] at h
    | tagNe _ _ => simp [allAndLeaves] at h
  | and a b iha ihb =>
    intro tags n h
    simp only [allAndLeaves] at h
    cases ha : allAndLeaves a with
    | none => rw [ha] at h; simp at h
    | some x =>
      cases hb : allAndLeaves b with
      | none => rw [ha, hb] at h; simp at h
      | some y =>
        rw [ha, hb] at h
        obtain ⟨x1, x2⟩ := x
        obtain ⟨y1, y2⟩ := y
        simp only [Option.some.injEq, Prod.mk.injEq] at h
        obtain ⟨rfl, _⟩ := h
        obtain ⟨h2, h3⟩ := iha x1 x2 ha
        obtain ⟨h2', h3'⟩ := ihb y1 y2 hb
        refine ⟨fun hk c hc => ?_, fun key => ?_⟩
        · rcases List.mem_append.mp hc with hc | hc
          · exact h2 hk.1 c hc
          · exact h2' hk.2 c hc
        · simp only [XPred.sat, Bool.and_eq_true, h3 key, h3' key, allSat, List.mem_append]
          constructor
          · rintro ⟨p1, p2⟩ c (hc | hc)
            · exact p1 c hc
            · exact p2 c hc
          · intro hh
            exact ⟨fun c hc => hh c (Or.inl hc), fun c hc => hh c (Or.inr hc)⟩
  | or a b _ _ => intro tags n h; simp [allAndLeaves] at h
  | paren a ih =>
    intro tags n h
    simp only [allAndLeaves] at h
    obtain ⟨h2, h3⟩ := ih tags n h
    exact ⟨fun hk => h2 hk, fun key => by simpa [XPred.sat] using h3 key⟩

theorem pruneWithSet_spec {l : List (SKey × Id)} (hl : Good l) (k : Str) (vs : List Str) (neg : Bool) (set : List Id)
    (hset : ∀ i ∈ set, ∃ key, (key, i) ∈ l) :
    ∃ r, pruneWithSet (Gen l) set k vs neg = some r ∧
      ∀ i, i ∈ r ↔ i ∈ set ∧ ∀ key, (key, i) ∈ l → (vs.contains (key.tagOrEmpty k) == neg) = false := by
  induction set with
  | nil => exact ⟨[], rfl, by simp⟩
  | cons x t ih =>
    obtain ⟨r, hr, hmem⟩ := ih (fun i hi => hset i (List.mem_cons_of_mem _ hi))
    obtain ⟨key, hk⟩ := hset x (List.mem_cons_self ..)
    have hkey := keyOfId_eq hl hk
    unfold pruneWithSet at hr ⊢
    simp only [List.foldr_cons, hr, hkey]
    by_cases hc : (vs.contains (key.tagOrEmpty k) == neg) = true
    · refine ⟨r, by rw [if_pos hc], fun i => ?_⟩
      rw [hmem i]
      constructor
      · rintro ⟨h1, h2⟩; exact ⟨List.mem_cons_of_mem _ h1, h2⟩
      · rintro ⟨h1, h2⟩
        rcases List.mem_cons.mp h1 with rfl | h1
        · have := h2 key hk; rw [hc] at this; exact absurd this (by decide)
        · exact ⟨h1, h2⟩
    · have hc' : (vs.contains (key.tagOrEmpty k) == neg) = false := by simpa using hc
      refine ⟨x :: r, by rw [if_neg hc], fun i => ?_⟩
      simp only [List.mem_cons, hmem i]
      constructor
      · rintro (rfl | ⟨h1, h2⟩)
        · refine ⟨Or.inl rfl, fun key' hk' => ?_⟩
          rw [hl.key_eq hk' hk]; exact hc'
        · exact ⟨Or.inr h1, h2⟩
      · rintro ⟨rfl | h1, h2⟩
        · exact Or.inl rfl
        · exact Or.inr ⟨h1, h2⟩

theorem bigIn_spec {p : XPred Re} {k : Str} {vs : List Str} {neg : Bool} (h : bigIn p = some (k, vs, neg)) :
    (p = .atom (.inSet k vs) ∧ neg = false) ∨ (p = .atom (.notIn k vs) ∧ neg = true) := by
  cases p with
  | atom a =>
    cases a with
    | inSet k' vs' =>
      simp only [bigIn] at h
      split at h
      · simp only [Option.some.injEq, Prod.mk.injEq] at h
        obtain ⟨rfl, rfl, rfl⟩ := h
        exact Or.inl ⟨rfl, rfl⟩
      · simp at h
    | notIn k' vs' =>
      simp only [bigIn] at h
      split at h
      · simp only [Option.some.injEq, Prod.mk.injEq] at h
        obtain ⟨rfl, rfl, rfl⟩ := h
        exact Or.inr ⟨rfl, rfl⟩
      · simp at h
    | tag _ => simp [bigIn] at h
    | tagEq _ _ => simp [bigIn] at h
    | tagNe _ _ => simp [bigIn] at h
    | field _ => simp [bigIn] at h
  | and _ _ => simp [bigIn] at h
  | or _ _ => simp [bigIn] at h
  | paren _ => simp [bigIn] at h

/-- pruning the evaluated operand `q` with the set of the other operand gives the AND of both -/
theorem prunedBy_spec {M : Matchers Re} {l : List (SKey × Id)} (hl : Good l) {mst : Str} {del : List Id}
    {q : XPred Re} {k : Str} {vs : List Str} {neg : Bool} {rq : XRes × Caches} (hq : XOk M l mst del q rq.1)
    {out : XRes × Caches} (h : prunedBy (Gen l) k vs neg rq = some out) :
    out.2 = rq.2 ∧ ∃ x, out.1 = .ids x ∧
      ∀ i, i ∈ x ↔ Sem l mst del (fun key => q.sat M key = true ∧ (vs.contains (key.tagOrEmpty k) == neg) = false) i := by
  obtain ⟨r, c'⟩ := rq
  cases r with
  | ids x =>
    simp only [prunedBy] at h
    have hset : ∀ i ∈ x, ∃ key, (key, i) ∈ l := fun i hi => by
      obtain ⟨key, h1, _⟩ := (hq i).mp hi; exact ⟨key, h1⟩
    obtain ⟨y, hy, hmem⟩ := pruneWithSet_spec hl k vs neg x hset
    rw [hy] at h
    simp only [Option.some.injEq] at h
    subst h
    refine ⟨rfl, y, rfl, fun i => ?_⟩
    rw [hmem i]
    constructor
    · rintro ⟨h1, h2⟩
      obtain ⟨key, g1, g2, g3, g4⟩ := (hq i).mp h1
      exact ⟨key, g1, g2, g3, g4, h2 key g1⟩
    · rintro ⟨key, g1, g2, g3, g4, g5⟩
      refine ⟨(hq i).mpr ⟨key, g1, g2, g3, g4⟩, fun key' hk' => ?_⟩
      rw [hl.key_eq hk' g1]; exact g5
  | fieldExpr => simp [prunedBy] at h
  | fail => simp [prunedBy] at h

theorem xLeaf_spec {M : Matchers Re} (hM : MatcherFaithful M) (hK : KeySound M) {l : List (SKey × Id)} (hl : Good l)
    {del : List Id} {mst : Str} {c : Caches} (hc : CacheOk M l del c) (a : XAtom Re)
    (hk : (XPred.atom a).KeysOk) (hn : (XPred.atom a).NoTagCmp) :
    CacheOk M l del (xLeaf M (Gen l) del mst c a).2 ∧ XOk M l mst del (.atom a) (xLeaf M (Gen l) del mst c a).1 := by
  cases a with
  | tag a =>
    obtain ⟨h1, h2⟩ := selLeaf_spec (mst := mst) hK hl hc a hk
    refine ⟨h1, fun i => ?_⟩
    show i ∈ (selLeaf M (Gen l) del mst c a).1 ↔ _
    rw [h2 i]
    exact Sem.congr hl (fun k hkw => by simp only [XPred.sat, XAtom.sat]; rw [a.dsat_eq_sat hM hkw])
  | inSet k vs =>
    refine ⟨hc, fun i => ?_⟩
    show i ∈ setEval M (Gen l) del mst k vs true ↔ _
    rw [mem_setEval hl hk]
    exact Sem.congr hl (fun _ _ => by simp [XPred.sat, XAtom.sat])
  | notIn k vs =>
    refine ⟨hc, fun i => ?_⟩
    show i ∈ setEval M (Gen l) del mst k vs false ↔ _
    rw [mem_setEval hl hk]
    exact Sem.congr hl (fun _ _ => by simp [XPred.sat, XAtom.sat])
  | tagEq _ _ => exact absurd hn (by simp [XPred.NoTagCmp])
  | tagNe _ _ => exact absurd hn (by simp [XPred.NoTagCmp])
  | field n => exact ⟨hc, rfl⟩

theorem fastPath_spec {M : Matchers Re} (hM : MatcherFaithful M) (hK : KeySound M) {l : List (SKey × Id)} (hl : Good l)
    {del : List Id} {mst : Str} {c : Caches} (hc : CacheOk M l del c) (p : XPred Re) (hk : p.KeysOk)
    {out : XRes × Caches} (h : fastPath M (Gen l) del mst c p = some out) :
    CacheOk M l del out.2 ∧ XOk M l mst del p out.1 := by
  unfold fastPath at h
  cases hal : allAndLeaves p with
  | none => rw [hal] at h; simp at h
  | some tn =>
    obtain ⟨tags, n⟩ := tn
    rw [hal] at h
    obtain ⟨hkeys, hsat⟩ := allAndLeaves_spec (M := M) p tags n hal
    match tags, h, hkeys, hsat with
    | [], h, _, _ => simp at h
    | [t], h, hkeys, hsat =>
      simp only [oneFilter, Option.some.injEq] at h
      subst h
      refine ⟨hc.costPut _ _, fun i => ?_⟩
      show i ∈ (leafEval M (Gen l) del mst t).1 ↔ _
      rw [mem_leafEval hl t (hkeys hk t (List.mem_singleton.mpr rfl))]
      apply Sem.congr hl
      intro key hkw
      rw [hsat key, t.dsat_eq_sat hM hkw]
      simp [allSat]
    | t1 :: t2 :: rest, h, hkeys, hsat =>
      obtain ⟨hc1, ids, hids, hmem⟩ := fastAnd_spec (mst := mst) hM hK hl hc (t1 :: t2 :: rest) (by simp) (hkeys hk)
      simp only at h
      rw [show fastAnd M (Gen l) del mst c (t1 :: t2 :: rest) =
        ((fastAnd M (Gen l) del mst c (t1 :: t2 :: rest)).1, (fastAnd M (Gen l) del mst c (t1 :: t2 :: rest)).2) from rfl,
        hids] at h
      simp only [Option.some.injEq] at h
      subst h
      refine ⟨hc1, fun i => ?_⟩
      show i ∈ ids ↔ _
      rw [hmem i]
      exact Sem.congr hl (fun key _ => (hsat key).symm)

/-- **select path**: result = brute force over the tag part, cache stays coherent -/
theorem xSelExpr_spec {M : Matchers Re} (hM : MatcherFaithful M) (hK : KeySound M) {l : List (SKey × Id)} (hl : Good l)
    {del : List Id} {mst : Str} (p : XPred Re) :
    ∀ (c : Caches), CacheOk M l del c → p.KeysOk → p.NoTagCmp →
      CacheOk M l del (xSelExpr M (Gen l) del mst p c).2 ∧ XOk M l mst del p (xSelExpr M (Gen l) del mst p c).1 := by
  induction p with
  | atom a => intro c hc hk hn; exact xLeaf_spec hM hK hl hc a hk hn
  | paren a ih =>
    intro c hc hk hn
    obtain ⟨h1, h2⟩ := ih c hc hk hn
    refine ⟨h1, ?_⟩
    show XOk M l mst del (.paren a) (xSelExpr M (Gen l) del mst a c).1
    cases hr : (xSelExpr M (Gen l) del mst a c).1 with
    | ids x => rw [hr] at h2; exact fun i => by rw [h2 i]; exact Sem.congr hl (fun _ _ => by simp [XPred.sat])
    | fieldExpr => rw [hr] at h2; exact h2
    | fail => rw [hr] at h2; exact h2
  | or a b iha ihb =>
    intro c hc hk hn
    simp only [xSelExpr]
    by_cases hf : isAllField (.or a b) = true
    · simp only [hf, if_true]; exact ⟨hc, hf⟩
    · simp only [hf, Bool.false_eq_true, if_false]
      obtain ⟨hc1, ha⟩ := iha c hc hk.1 hn.1
      obtain ⟨hc2, hb⟩ := ihb _ hc1 hk.2 hn.2
      refine ⟨hc2, ?_⟩
      obtain ⟨x, hx, hxm⟩ := ha.asIds hl
      obtain ⟨y, hy, hym⟩ := hb.asIds hl
      simp only [combineOr, hx, hy]
      intro i
      rw [mem_union, hxm i, hym i, Sem.or]
      exact Sem.congr hl (fun _ _ => by simp [XPred.sat])
  | and a b iha ihb =>
    intro c hc hk hn
    simp only [xSelExpr]
    obtain ⟨hca, ha⟩ := iha c hc hk.1 hn.1
    obtain ⟨hcb, hb⟩ := ihb c hc hk.2 hn.2
    cases hv : viaIn (Gen l) a b (xSelExpr M (Gen l) del mst a c) (xSelExpr M (Gen l) del mst b c) with
    | some out =>
      simp only
      unfold viaIn at hv
      cases hch : chooseIN a b with
      | none => rw [hch] at hv; simp at hv
      | some left =>
        rw [hch] at hv
        cases left with
        | true =>
          simp only at hv
          cases hbi : bigIn a with
          | none => rw [hbi] at hv; simp at hv
          | some kvn =>
            obtain ⟨k, vs, neg⟩ := kvn
            rw [hbi] at hv
            simp only at hv
            obtain ⟨hcout, x, hx, hxm⟩ := prunedBy_spec hl hb hv
            refine ⟨by rw [hcout]; exact hcb, ?_⟩
            rw [hx]
            intro i
            rw [hxm i]
            apply Sem.congr hl
            intro key _
            rcases bigIn_spec hbi with ⟨rfl, rfl⟩ | ⟨rfl, rfl⟩ <;>
              simp [XPred.sat, XAtom.sat, and_comm]
        | false =>
          simp only at hv
          cases hbi : bigIn b with
          | none => rw [hbi] at hv; simp at hv
          | some kvn =>
            obtain ⟨k, vs, neg⟩ := kvn
            rw [hbi] at hv
            simp only at hv
            obtain ⟨hcout, x, hx, hxm⟩ := prunedBy_spec hl ha hv
            refine ⟨by rw [hcout]; exact hca, ?_⟩
            rw [hx]
            intro i
            rw [hxm i]
            apply Sem.congr hl
            intro key _
            rcases bigIn_spec hbi with ⟨rfl, rfl⟩ | ⟨rfl, rfl⟩ <;>
              simp [XPred.sat, XAtom.sat]
    | none =>
      simp only
      cases hfp : fastPath M (Gen l) del mst c (.and a b) with
      | some out => exact fastPath_spec hM hK hl hc (.and a b) hk hfp
      | none =>
        simp only
        by_cases hf : isAllField (.and a b) = true
        · simp only [hf, if_true]; exact ⟨hc, hf⟩
        · simp only [hf, Bool.false_eq_true, if_false]
          obtain ⟨hc2, hb'⟩ := ihb _ hca hk.2 hn.2
          refine ⟨hc2, ?_⟩
          have hfa : ¬ (isAllField a = true ∧ isAllField b = true) := by
            intro h; apply hf; simp [isAllField, h.1, h.2]
          cases hra : (xSelExpr M (Gen l) del mst a c).1 with
          | fail => rw [hra] at ha; exact absurd ha id
          | fieldExpr =>
            rw [hra] at ha
            cases hrb : (xSelExpr M (Gen l) del mst b (xSelExpr M (Gen l) del mst a c).2).1 with
            | fail => rw [hrb] at hb'; exact absurd hb' id
            | fieldExpr => rw [hrb] at hb'; exact absurd ⟨ha, hb'⟩ hfa
            | ids y =>
              rw [hrb] at hb'
              simp only [combineAnd]
              intro i
              rw [hb' i]
              exact Sem.congr hl (fun key _ => by simp [XPred.sat, isAllField_sat a ha key])
          | ids x =>
            rw [hra] at ha
            cases hrb : (xSelExpr M (Gen l) del mst b (xSelExpr M (Gen l) del mst a c).2).1 with
            | fail => rw [hrb] at hb'; exact absurd hb' id
            | fieldExpr =>
              rw [hrb] at hb'
              simp only [combineAnd]
              intro i
              rw [ha i]
              exact Sem.congr hl (fun key _ => by simp [XPred.sat, isAllField_sat b hb' key])
            | ids y =>
              rw [hrb] at hb'
              simp only [combineAnd]
              intro i
              rw [mem_inter, ha i, hb' i, Sem.and hl]
              exact Sem.congr hl (fun key _ => by simp [XPred.sat])

/-- **`xsel_eq_bruteforce`**: for every predicate tree over the basic tag atoms, IN / NOT IN (also
through the prune-with-set path) and field comparisons, in every reachable state in which no flush
callback is owed, the select path returns exactly the series whose tags satisfy the tag part of the
predicate: a field comparison never narrows the answer. -/
theorem xsel_eq_bruteforce {M : Matchers Re} (hM : MatcherFaithful M) (hK : KeySound M) {s : St} (hr : Reach M s)
    (hb : s.needBump = false) (mst : Str) (p : XPred Re) (hp : p.KeysOk) (hn : p.NoTagCmp) :
    ∃ ids, (xSearchSel M s mst p).1 = some ids ∧ ∀ i, i ∈ ids ↔ XMatches M s mst p i := by
  obtain ⟨cv, cp, h, hc⟩ := reach_cache hM hK hr
  have hl := h.goodVis
  unfold xSearchSel
  simp only
  rw [h.vis]
  obtain ⟨_, hok⟩ := xSelExpr_spec (mst := mst) hM hK hl p s.caches (hc hb) hp hn
  obtain ⟨x, hx, hxm⟩ := hok.asIds hl
  refine ⟨x, hx, fun i => ?_⟩
  rw [hxm i]
  unfold XMatches Sem
  constructor
  · rintro ⟨key, h1, h2, h3, h4⟩; exact ⟨key, by rw [h.vis]; exact mem_Gen_k2i.mpr h1, h2, h3, h4⟩
  · rintro ⟨key, h1, h2, h3, h4⟩; exact ⟨key, mem_Gen_k2i.mp (by rw [← h.vis]; exact h1), h2, h3, h4⟩

/-! ### `tag = tag` -/

/-- the statement one expects of `tag = tag`, on the show-series and on the select path -/
def tag_eq_tag_full : Prop :=
  ∀ (s : St) (mst a b : Str) (i : Id), Reach witnessM s → a ≠ "" → b ≠ "" →
    (i ∈ xSearchShow witnessM s mst (.atom (.tagEq a b)) ↔ XMatches witnessM s mst (.atom (.tagEq a b)) i) ∧
    (∀ ids, (xSearchSel witnessM s mst (.atom (.tagEq a b))).1 = some ids →
      (i ∈ ids ↔ XMatches witnessM s mst (.atom (.tagEq a b)) i))

def kHD : SKey := ⟨"m", [("dc", "x"), ("host", "a")]⟩

theorem kHD_wf : kHD.WF := by
  constructor
  · intro t ht
    simp only [kHD, List.mem_cons, List.not_mem_nil, or_false] at ht
    rcases ht with rfl | rfl <;> exact ⟨by decide, by decide⟩
  · intro t ht u hu h
    simp only [kHD, List.mem_cons, List.not_mem_nil, or_false] at ht hu
    rcases ht with rfl | rfl <;> rcases hu with rfl | rfl <;> first | rfl | (exact absurd h (by decide))

/-- **`tag_eq_tag_full_false`** (finding `tag_eq_tag_compares_presence`): series `m,dc=x,host=a`,
predicate `host = dc`: the values differ, yet the select path returns the series (it intersects
"has host" with "has dc"); the show-series path compares host with the *string* 'dc'. -/
theorem tag_eq_tag_full_false : ¬ tag_eq_tag_full := by
  intro h
  have hr : Reach witnessM (apply witnessM (apply witnessM (St.init 1 1000) (.ins kHD)) .flush) :=
    Reach.step .flush (Reach.step (.ins kHD) (Reach.init 1 1000 (by omega) (by omega))
      ⟨kHD_wf, by show 1000 + 1 < 2 ^ 40; omega⟩) trivial
  obtain ⟨_, h2⟩ := h _ "m" "host" "dc" (mkId 1 1001) hr (by decide) (by decide)
  have hsel := h2 [mkId 1 1001] (by decide)
  have hin : mkId 1 1001 ∈ [mkId 1 1001] := List.mem_singleton.mpr rfl
  obtain ⟨key, h1, _, _, h4⟩ := hsel.mp hin
  have hk : key = kHD := by
    have : Item.k2i key (mkId 1 1001) ∈ decode kHD (mkId 1 1001) := by
      have e : (apply witnessM (apply witnessM (St.init 1 1000) (.ins kHD)) .flush).vis = decode kHD (mkId 1 1001) := by decide
      rw [← e]; exact h1
    exact (mem_decode_k2i.mp this).1
  subst hk
  revert h4
  decide

end OG.C10
