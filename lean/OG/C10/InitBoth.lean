/-
C10 — `MatcherFaithful` and `KeySound` *derived* (not assumed) for the regular expressions the code
evaluates correctly, so that `search_eq_bruteforce_param`, `xsel_eq_bruteforce`, `cache_coherent` …
hold for both evaluation paths with the matchers `tagFilter.Init` computes.

Setting: `lib text v` is the regexp library (unanchored `MatchString` of the regex `text` on `v`);
the regex atoms of a predicate are `GoodRe lib`: library facts + a proof that the atom belongs to a
good class and that its specification matcher is `lib` of its text. Tag values (as bytes, `dec`)
contain none of the bytes 0, 1, 2 — the assumption under which the escaped item bytes a scan sees
are the value bytes (finding `regex_sees_escaped_separator_bytes` is what happens otherwise).
-/
import OG.C10.InitSearch

namespace OG.C10
open OG.C10.TF (RxAtom GoodClass Plain)

/-- a good regex atom whose specification is the library's answer for its text -/
structure GoodRe (lib : Bytes.B → Bytes.B → Bool) where
  atom : RxAtom
  good : GoodAtom atom
  spec : atom.matches = lib atom.rin.text

def goodMatchers (lib : Bytes.B → Bytes.B → Bool) (dec : Str → Bytes.B) (enc : Bytes.B → Str) :
    Matchers (GoodRe lib) where
  «matches» := fun r v => (initMatchers dec enc).matches r.atom v
  matchEmpty := fun r => (initMatchers dec enc).matchEmpty r.atom
  tfMatch := fun r v => (initMatchers dec enc).tfMatch r.atom v
  pruneMatch := fun r v => (initMatchers dec enc).pruneMatch r.atom v
  ckey := fun r => (initMatchers dec enc).ckey r.atom
  emptyText := fun r => (initMatchers dec enc).emptyText r.atom

/-- **`init_matcher_faithful`**: the matchers computed by the transcribed `tagFilter.Init` satisfy
`MatcherFaithful` on good atoms. -/
theorem init_matcher_faithful (lib : Bytes.B → Bytes.B → Bool) (dec : Str → Bytes.B) (enc : Bytes.B → Str)
    (hd : dec "" = []) (hplain : ∀ v, Plain (dec v)) : MatcherFaithful (goodMatchers lib dec enc) where
  empty := fun r => by
    show r.atom.rin.matchesEmpty = r.atom.matches (dec "")
    rw [hd]; exact r.good.empty
  mono := fun r v h => r.good.mono h (dec v)
  tf := fun r v _ => (TF.init_matcher_eq_regex_partial r.good.cls (hplain v)).1
  prune := fun r v => (TF.init_matcher_eq_regex_partial r.good.cls (hplain v)).2

theorem literal_class_of_isLiteral {a : RxAtom} (g : GoodClass a) (h : a.tf.isLiteralRegexp = true) :
    a.rin.expr = [] ∧ ∀ v, a.matches v = TF.containsB v a.rin.pfx := by
  have hex : a.rin.expr = [] := by
    cases he : a.rin.expr with
    | nil => rfl
    | cons x xs =>
      exfalso
      simp only [TF.RxAtom.tf, TF.initRegex, he] at h
      by_cases hc : a.rin.compileOk = true <;> simp [hc] at h
  cases g with
  | literal _ hc => exact ⟨hex, hc⟩
  | anchoredPrefix he => exact absurd hex he
  | anchoredOr he => exact absurd hex he
  | fallback he => exact absurd hex he
  | optimizedForm _ _ _ he => exact absurd hex he
  | suffix _ he => exact absurd hex he

theorem literal_value {a : RxAtom} (hex : a.rin.expr = []) : a.tf.value = a.rin.pfx ∧ a.tf.isLiteralRegexp = true := by
  simp [TF.RxAtom.tf, TF.initRegex, hex]

theorem nonliteral_value {a : RxAtom} (h : a.tf.isLiteralRegexp = false) : a.tf.value = a.rin.text := by
  simp only [TF.RxAtom.tf, TF.initRegex] at h ⊢
  split at h <;> (try split at h) <;> simp_all

/-- **`init_keysound`**: the cache key `tagFilter.Marshal` builds (literal flag + rewritten value)
identifies the matcher among good atoms. -/
theorem init_keysound (lib : Bytes.B → Bytes.B → Bool) (dec : Str → Bytes.B) (enc : Bytes.B → Str)
    (hplain : ∀ v, Plain (dec v)) (henc : ∀ a b, enc a = enc b → a = b) : KeySound (goodMatchers lib dec enc) where
  kind := fun r => initMatchers_ckey_kind dec enc r.atom
  same := fun r1 r2 hk => by
    have hk' : (initMatchers dec enc).ckey r1.atom = (initMatchers dec enc).ckey r2.atom := hk
    simp only [initMatchers, Prod.mk.injEq] at hk'
    obtain ⟨hkind, hval⟩ := hk'
    have hval' := henc _ _ hval
    simp only [TF.TF.ckey, tf_isRegexp, Bool.not_true, Bool.false_eq_true, if_false] at hkind hval'
    -- both literal or both not
    have hlit : r1.atom.tf.isLiteralRegexp = r2.atom.tf.isLiteralRegexp := by
      cases h1 : r1.atom.tf.isLiteralRegexp <;> cases h2 : r2.atom.tf.isLiteralRegexp <;> simp_all
    -- same specification matcher
    have hm : r1.atom.matches = r2.atom.matches := by
      cases h1 : r1.atom.tf.isLiteralRegexp with
      | true =>
        have h2 : r2.atom.tf.isLiteralRegexp = true := by rw [← hlit]; exact h1
        obtain ⟨e1, c1⟩ := literal_class_of_isLiteral r1.good.cls h1
        obtain ⟨e2, c2⟩ := literal_class_of_isLiteral r2.good.cls h2
        funext v
        rw [c1 v, c2 v, ← (literal_value e1).1, ← (literal_value e2).1, hval']
      | false =>
        have h2 : r2.atom.tf.isLiteralRegexp = false := by rw [← hlit]; exact h1
        rw [r1.spec, r2.spec, ← nonliteral_value h1, ← nonliteral_value h2, hval']
    constructor
    · show r1.atom.rin.matchesEmpty = r2.atom.rin.matchesEmpty
      rw [r1.good.empty, r2.good.empty, hm]
    · intro v
      show r1.atom.tfMatch (dec v) = r2.atom.tfMatch (dec v)
      rw [(TF.init_matcher_eq_regex_partial r1.good.cls (hplain v)).1,
        (TF.init_matcher_eq_regex_partial r2.good.cls (hplain v)).1, hm]

/-- **`search_eq_bruteforce_init`**: both evaluation paths of the index, with the matchers the
transcribed `tagFilter.Init` computes, return the brute-force answer for every predicate tree over
=, !=, AND, OR, parentheses and regex atoms of the good classes — no hypothesis on the matchers
is left, only the library contract carried by `GoodRe` and byte-plain tag values. -/
theorem search_eq_bruteforce_init (lib : Bytes.B → Bytes.B → Bool) (dec : Str → Bytes.B) (enc : Bytes.B → Str)
    (hd : dec "" = []) (hplain : ∀ v, Plain (dec v)) (henc : ∀ a b, enc a = enc b → a = b)
    {s : St} (hr : Reach (goodMatchers lib dec enc) s) (mst : Str) (p : Option (Pred (GoodRe lib)))
    (hp : optKeysOk p) :
    (∀ i, i ∈ searchShow (goodMatchers lib dec enc) s mst p ↔ Matches (goodMatchers lib dec enc) s mst p i) ∧
    (s.needBump = false → ∃ ids, (searchSel (goodMatchers lib dec enc) s mst p).1 = some ids ∧
      ∀ i, i ∈ ids ↔ Matches (goodMatchers lib dec enc) s mst p i) :=
  search_eq_bruteforce_param (init_matcher_faithful lib dec enc hd hplain) (init_keysound lib dec enc hplain henc)
    hr mst p hp

/-! ### non-vacuity -/

/-- a "library" in which every text is a literal, and the good atom `/eb/` of it -/
def litLib : Bytes.B → Bytes.B → Bool := fun t v => TF.containsB v t

def exGoodRe : GoodRe litLib :=
  ⟨TF.atomEb, ⟨.literal rfl (fun _ => rfl), by decide, by intro h; exact absurd h (by decide)⟩, rfl⟩

/-- a reading of strings as bytes that never produces 0, 1, 2 -/
def exDec (s : Str) : Bytes.B := s.toList.map (fun c => if c.toNat < 3 ∨ 255 < c.toNat then 63 else UInt8.ofNat c.toNat)

theorem exDec_plain (v : Str) : Plain (exDec v) := by
  intro x hx
  simp only [exDec, List.mem_map] at hx
  obtain ⟨c, _, rfl⟩ := hx
  split
  · decide
  · rename_i h
    have h3 : 3 ≤ c.toNat ∧ c.toNat ≤ 255 := by omega
    have e : (UInt8.ofNat c.toNat).toNat = c.toNat := by
      simp [UInt8.toNat_ofNat]; omega
    refine ⟨?_, ?_, ?_⟩ <;> intro hz <;> (have := congrArg UInt8.toNat hz; rw [e] at this; simp at this; omega)

example : MatcherFaithful (goodMatchers litLib exDec (fun _ => "")) :=
  init_matcher_faithful litLib exDec _ rfl exDec_plain

/-- on the witness state (series `m,host=web`) the select path with the *computed* matchers finds
the series for `host =~ /eb/` -/
example : (searchSel (goodMatchers litLib exDec (fun _ => "")) witnessState "m"
    (some (.atom (.re "host" exGoodRe)))).1 = some [mkId 1 1001] := by decide

end OG.C10
