/-
C10 — executable model of the series index (`MergeSetIndex`, `indexSearch`): items in three
namespaces, id generator, series-key cache, tag-filter cache and filter-cost cache, deleted set;
operations insert / lookup / flush / cache clear / reopen / restart / delete; predicate
evaluation on the show-series path (`searchTSIDsInternal`) and on the select path
(`seriesByExprIterator`, with the all-AND fast path, its cost ordering and the prune step).

Transcribed from the source as it is after the `fix:` commits listed in `known_findings.jsonl`.
Numeric thresholds come from the regenerated `OG.Generated.C10`.
-/
import OG.C10.Base
import OG.Generated.C10

namespace OG.C10
open OG.Gen.C10 (pruneThreshold defaultTagScanPruneThreshold)

variable {Re : Type}

/-- `tagFilter.Marshal`: name, key, value, isNegative, isRegexp (0 string, 1 regexp, 2 literal regexp). -/
structure FKey where
  mst : Str
  kind : Nat
  neg : Bool
  key : Str
  value : Str
deriving DecidableEq, Repr

/-- `tagFilterCache` (entries of older generations of `tagFilterKeyGen` are unreachable, so a
generation bump is modelled by dropping them) and `TagFilterCostCache`. -/
structure Caches where
  filter : List (FKey × List Id)
  cost : List (FKey × Int)
deriving Repr

def noCaches : Caches := ⟨[], []⟩
def Caches.bump (c : Caches) : Caches := { c with filter := [] }

structure St where
  vis : List Item          -- items in parts: what `TableSearch` sees
  pend : List Item         -- raw items not yet flushed
  clock : Nat              -- `IndexBuilder.logicalClock`
  seq : Nat                -- `*IndexBuilder.sequenceID`
  now : Nat                -- wall clock seconds (the partition seeds the sequence with it)
  tsid : List (SKey × Id)  -- `SeriesKeyToTSIDCache`, newest first
  caches : Caches
  deleted : List Id        -- `deleteMergeSet.deletedTSIDs`
  needBump : Bool          -- `Table.needFlushCallbackCall`: a non-final flush owes the flush callback
deriving Repr

def St.init (clock now : Nat) : St := ⟨[], [], clock, now, now, [], noCaches, [], false⟩

/-- `MergeSetIndex.decode`: one batch of items per created series. -/
def decode (key : SKey) (id : Id) : List Item :=
  .k2i key id :: .i2k id key ::
    (key.tags.map (fun t => Item.t2i key.mst t.1 t.2 id) ++ [.t2i key.mst "" "" id])

/-- `IndexBuilder.GenerateUUID`: three bytes of clock, five bytes of sequence. -/
def mkId (clock seq : Nat) : Id := (clock % 2 ^ 24) * 2 ^ 40 + seq % 2 ^ 40

def idsOfKey (items : List Item) (key : SKey) : List Id :=
  items.filterMap fun
    | .k2i k i => if k = key then some i else none
    | _ => none

def minId : List Id → Option Id
  | [] => none
  | x :: t =>
    match minId t with
    | none => some x
    | some m => some (min x m)

def maxId : List Id → Option Id
  | [] => none
  | x :: t =>
    match maxId t with
    | none => some x
    | some m => some (max x m)

/-- `indexSearch.getTSIDBySeriesKey`: the items of a key are visited by ascending tsid; the first
one that is not deleted answers, else the last one. -/
def lookupIndex (items : List Item) (deleted : List Id) (key : SKey) : Option Id :=
  let ids := idsOfKey items key
  match minId (ids.filter (fun i => !decide (i ∈ deleted))) with
  | some i => some i
  | none => maxId ids

def cacheGet (c : List (SKey × Id)) (key : SKey) : Option Id :=
  match c.find? (fun e => decide (e.1 = key)) with
  | some e => some e.2
  | none => none

/-- slow path of `getSeriesIdBySeriesKey`: index lookup; the deferred cache put also stores a
deleted tsid that the lookup found. -/
def slowLookup (s : St) (key : SKey) : Id × St :=
  match lookupIndex s.vis s.deleted key with
  | some id =>
    let s' := if id ≠ 0 then { s with tsid := (key, id) :: s.tsid } else s
    if id ∉ s.deleted then (id, s') else (0, s')
  | none => (0, s)

/-- `MergeSetIndex.getSeriesIdBySeriesKey` (bloom filter disabled). -/
def getSeriesId (s : St) (key : SKey) : Id × St :=
  match cacheGet s.tsid key with
  | some id => if id ∉ s.deleted then (id, s) else slowLookup s key
  | none => slowLookup s key

/-- `createIndexesIfNotExists` + `createIndexes`. -/
def insert (s : St) (key : SKey) : Id × St :=
  let (id, s1) := getSeriesId s key
  if id ≠ 0 then (id, s1) else
  let seq' := s1.seq + 1
  let nid := mkId s1.clock seq'
  (nid, { s1 with seq := seq', pend := s1.pend ++ decode key nid,
                  tsid := if nid ≠ 0 then (key, nid) :: s1.tsid else s1.tsid })

/-- `Table.DebugFlush`: raw items become parts; the final flush calls `invalidateTagCache`. -/
def flush (s : St) : St :=
  if s.pend.isEmpty then s else
  { s with vis := s.vis ++ s.pend, pend := [], caches := s.caches.bump }

/-- one tick of `rawItemsFlusher`: `flushRawItems(false)`. The raw items become parts (visible to
searches) but the flush callback (`invalidateTagCache`) is *not* called: `mergeRawItemsBlocks` only
sets `needFlushCallbackCall`, and the 10 s ticker of `OpenTable` calls it later (`bump`). -/
def pflush (s : St) : St :=
  if s.pend.isEmpty then s else
  { s with vis := s.vis ++ s.pend, pend := [], needBump := true }

/-- the 10 s ticker: `if CompareAndSwap(&needFlushCallbackCall, 1, 0) { flushCallback() }` -/
def bump (s : St) : St :=
  if s.needBump then { s with caches := s.caches.bump, needBump := false } else s

/-- an eviction from the series-key cache (`workingsetcache`: size limit, rotation): any entries
may vanish; the cache becomes the sub-list of the entries whose key satisfies `keep` -/
def evict (s : St) (keep : SKey → Bool) : St :=
  { s with tsid := s.tsid.filter (fun e => keep e.1) }

/-- eviction of every entry of the tag filter cache and of the filter cost cache -/
def evictFilters (s : St) : St := { s with caches := noCaches }

/-- `MergeSetIndex.ClearCache` (flushes first, since fix d720cb5). -/
def clear (s : St) : St :=
  let s := flush s
  { s with tsid := [], caches := noCaches }

/-- largest sequence part stored under the clock prefix (`maxStoredSequence`). -/
def maxStoredSeq (items : List Item) (clock : Nat) : Nat :=
  items.foldl (fun m it =>
    match it with
    | .i2k id _ => if id / 2 ^ 40 = clock % 2 ^ 24 then max m (id % 2 ^ 40) else m
    | _ => m) 0

/-- `IndexBuilder.raiseSequenceID`. -/
def raiseSeq (seq m : Nat) : Nat := if seq % 2 ^ 40 ≥ m then seq else seq - seq % 2 ^ 40 + m

/-- `Close` (final flush, caches dropped) then `Open` with the sequence pointer at `seq`. -/
def reopenWith (s : St) (seq : Nat) : St :=
  let s := flush s
  { s with tsid := [], caches := noCaches, seq := raiseSeq seq (maxStoredSeq s.vis s.clock), needBump := false }

def reopen (s : St) : St := reopenWith s s.seq

/-- process restart `dt` seconds later: same logical clock, sequence seeded with the wall clock. -/
def restart (s : St) (dt : Nat) : St :=
  reopenWith { s with now := s.now + dt } (s.now + dt)

/-! ### tag filters -/

def tagIds (items : List Item) (mst : Str) (p : Str → Str → Bool) : List Id :=
  items.filterMap fun
    | .t2i m k v i => if m = mst ∧ p k v = true then some i else none
    | _ => none

/-- `getTSIDsByMeasurementName`: every tag→tsids row of the measurement, minus `is.deleted`. -/
def allIds (items : List Item) (del : List Id) (mst : Str) : List Id :=
  diff (idSet (tagIds items mst (fun _ _ => true))) del

def scanIds (items : List Item) (del : List Id) (mst : Str) (p : Str → Str → Bool) : List Id :=
  diff (idSet (tagIds items mst p)) del

/-- `searchTSIDsByTagFilterAndDateRange` (`getTSIDsByTagFilterNoRegex` / `…WithRegex`): ids and cost. -/
def leafEval (M : Matchers Re) (items : List Item) (del : List Id) (mst : Str) : Atom Re → List Id × Int
  | .eq k v =>
    if v ≠ "" then
      let m := scanIds items del mst (fun k' v' => k' == k && v' == v)
      (m, m.length)
    else
      let a := allIds items del mst
      let m := scanIds items del mst (fun k' _ => k' == k)
      (diff a m, (a.length + m.length : Nat))
  | .ne k v =>
    if v ≠ "" then
      let a := allIds items del mst
      let m := scanIds items del mst (fun k' v' => k' == k && v' == v)
      (diff a m, (m.length + a.length : Nat))
    else
      let m := scanIds items del mst (fun k' _ => k' == k)
      (m, m.length)
  | .re k r =>
    if M.matchEmpty r then
      let a := allIds items del mst
      (a, a.length)
    else
      let m := scanIds items del mst (fun k' v' => k' == k && M.tfMatch r v')
      (m, m.length)
  | .nre k r =>
    if M.matchEmpty r then ([], 0)
    else
      let a := allIds items del mst
      let m := scanIds items del mst (fun k' v' => k' == k && M.tfMatch r v')
      (diff a m, (m.length + a.length : Nat))

/-! ### show-series path (`searchTSIDs` / `searchTSIDsInternal`) -/

def showExpr (M : Matchers Re) (items : List Item) (mst : Str) : Pred Re → List Id
  | .atom a => (leafEval M items [] mst a).1
  | .and a b => inter (showExpr M items mst a) (showExpr M items mst b)
  | .or a b => union (showExpr M items mst a) (showExpr M items mst b)
  | .paren a => showExpr M items mst a

def containsMeasurement (items : List Item) (mst : Str) : Bool :=
  items.any fun
    | .t2i m _ _ _ => m == mst
    | _ => false

def searchShow (M : Matchers Re) (s : St) (mst : Str) (p : Option (Pred Re)) : List Id :=
  if containsMeasurement s.vis mst then
    let r := match p with
      | none => allIds s.vis [] mst
      | some p => showExpr M s.vis mst p
    diff r s.deleted
  else []

/-! ### select path (`measurementSeriesByExprIterator` / `seriesByExprIterator`) -/

def Atom.fkey (M : Matchers Re) (mst : Str) : Atom Re → FKey
  | .eq k v => ⟨mst, 0, false, k, v⟩
  | .ne k v => ⟨mst, 0, true, k, v⟩
  | .re k r => ⟨mst, (M.ckey r).1, false, k, (M.ckey r).2⟩
  | .nre k r => ⟨mst, (M.ckey r).1, true, k, (M.ckey r).2⟩

def Atom.isEmptyValue (M : Matchers Re) : Atom Re → Bool
  | .eq _ v | .ne _ v => v == ""
  | .re _ r | .nre _ r => M.emptyText r

/-- `getFromTagFilterCache`: an empty entry reads as a miss. -/
def filterGet (c : Caches) (k : FKey) : Option (List Id) :=
  match c.filter.find? (fun e => decide (e.1 = k)) with
  | some e => if e.2.isEmpty then none else some e.2
  | none => none

def costGet (c : Caches) (k : FKey) : Int :=
  match c.cost.find? (fun e => decide (e.1 = k)) with
  | some e => e.2
  | none => 0

def costPut (c : Caches) (k : FKey) (v : Int) : Caches := { c with cost := (k, v) :: c.cost }

/-- `seriesByBinaryExpr`. -/
def selLeaf (M : Matchers Re) (items : List Item) (del : List Id) (mst : Str) (c : Caches) (a : Atom Re) :
    List Id × Caches :=
  let k := a.fkey M mst
  match filterGet c k with
  | some ids => (ids, c)
  | none =>
    let ids := (leafEval M items del mst a).1
    (ids, { c with filter := (k, ids) :: c.filter })

/-- `searchTSIDsWithTagFilter`: cost −1 on a cache hit; only non-empty results are cached. -/
def searchWithCache (M : Matchers Re) (items : List Item) (del : List Id) (mst : Str) (c : Caches) (a : Atom Re) :
    List Id × Int × Caches :=
  let k := a.fkey M mst
  match filterGet c k with
  | some ids => (ids, -1, c)
  | none =>
    let (ids, cost) := leafEval M items del mst a
    (ids, cost, if ids.isEmpty then c else { c with filter := (k, ids) :: c.filter })

/-- comparator of `sortTagFilterWithCost` (translated from the source by ogfacts). -/
def tfLess (M : Matchers Re) (a b : Atom Re × Int) : Bool :=
  OG.Gen.C10.tfLess (a.1.isEmptyValue M) (b.1.isEmptyValue M) a.2 b.2

/-- Go's `insertionSort` (what `sort.Slice` runs for at most 12 elements); the accumulator is the
sorted prefix in reverse. -/
def bubble {α : Type} (less : α → α → Bool) (x : α) : List α → List α
  | [] => [x]
  | y :: rest => if less x y then y :: bubble less x rest else x :: y :: rest

def isort {α : Type} (less : α → α → Bool) (l : List α) : List α :=
  (l.foldl (fun acc x => bubble less x acc) []).reverse

/-- `matchSeriesKeyTagFilter` (no tag arrays). -/
def matchTF (M : Matchers Re) (key : SKey) : Atom Re → Bool
  | .eq k v => key.tagOrEmpty k == v
  | .ne k v => key.tagOrEmpty k != v
  | .re k r => M.pruneMatch r (key.tagOrEmpty k)
  | .nre k r => !M.pruneMatch r (key.tagOrEmpty k)

/-- `searchSeriesKey` through the tsid→key namespace. -/
def keyOfId (items : List Item) (id : Id) : Option SKey :=
  items.findSome? fun
    | .i2k i k => if i = id then some k else none
    | _ => none

/-- `doPrune`; `none` = `searchSeriesKey` failed. -/
def prune (M : Matchers Re) (items : List Item) (set : List Id) (tfs : List (Atom Re)) : Option (List Id) :=
  set.foldr (fun id acc =>
    match acc, keyOfId items id with
    | some acc, some key => if tfs.all (matchTF M key) then some (id :: acc) else some acc
    | _, _ => none) (some [])

/-- third step of `seriesByTagFilters`. -/
def step3 (M : Matchers Re) (items : List Item) (del : List Id) (mst : Str) :
    List Id → List (Atom Re × Int) → Caches → Option (List Id) × Caches
  | set, [], c => (some set, c)
  | set, (a, cost) :: rest, c =>
    if Int.tdiv cost set.length > pruneThreshold ∨
        (a.isEmptyValue M = true ∧ set.length < defaultTagScanPruneThreshold) then
      (prune M items set (a :: rest.map (·.1)), c)
    else
      let (this, cst, c1) := searchWithCache M items del mst c a
      let c2 := costPut c1 (a.fkey M mst) cst
      let set' := inter set this
      if set'.isEmpty then (some set', c2) else step3 M items del mst set' rest c2

/-- `seriesByTagFilters` for two or more filters. -/
def fastAnd (M : Matchers Re) (items : List Item) (del : List Id) (mst : Str) (c : Caches)
    (atoms : List (Atom Re)) : Option (List Id) × Caches :=
  let tfcosts := atoms.map (fun a => (a, costGet c (a.fkey M mst)))
  match isort (tfLess M) tfcosts with
  | [] => (some [], c)
  | (a, _) :: rest =>
    let (this, cost, c1) := searchWithCache M items del mst c a
    let c2 := costPut c1 (a.fkey M mst) cost
    if this.isEmpty then (some [], c2) else step3 M items del mst this rest c2

/-- `isAllAndExpr` + `extractTagsAndFilters`: the leaves, left to right, of a tree without OR. -/
def andLeaves : Pred Re → Option (List (Atom Re))
  | .atom a => some [a]
  | .and a b =>
    match andLeaves a, andLeaves b with
    | some x, some y => some (x ++ y)
    | _, _ => none
  | .or _ _ => none
  | .paren a => andLeaves a

def combine (f : List Id → List Id → List Id) : Option (List Id) → Option (List Id) → Option (List Id)
  | some a, some b => some (f a b)
  | _, _ => none

def selExpr (M : Matchers Re) (items : List Item) (del : List Id) (mst : Str) :
    Pred Re → Caches → Option (List Id) × Caches
  | .atom a, c =>
    let (r, c') := selLeaf M items del mst c a
    (some r, c')
  | .paren a, c => selExpr M items del mst a c
  | .and a b, c =>
    match andLeaves (.and a b) with
    | some atoms => fastAnd M items del mst c atoms
    | none =>
      let (l, c1) := selExpr M items del mst a c
      let (r, c2) := selExpr M items del mst b c1
      (combine inter l r, c2)
  | .or a b, c =>
    let (l, c1) := selExpr M items del mst a c
    let (r, c2) := selExpr M items del mst b c1
    (combine union l r, c2)

def searchSel (M : Matchers Re) (s : St) (mst : Str) (p : Option (Pred Re)) : Option (List Id) × St :=
  match p with
  | none => (some (allIds s.vis s.deleted mst), s)
  | some p =>
    let (r, c) := selExpr M s.vis s.deleted mst p s.caches
    (r, { s with caches := c })

/-! ### listings, delete -/

/-- `IsExpectedTag`: no condition, or the tsid is among the eligible ones. -/
def eligible (elig : Option (List Id)) (i : Id) : Bool :=
  match elig with
  | none => true
  | some e => decide (i ∈ e)

/-- `searchTagValues` for one tag key. -/
def tagVals (M : Matchers Re) (s : St) (mst k : Str) (p : Option (Pred Re)) : List Str :=
  let elig : Option (List Id) := p.map (showExpr M s.vis mst)
  if elig.any (·.isEmpty) then [] else
  s.vis.filterMap fun
    | .t2i m k' v i =>
      if m = mst ∧ k' = k ∧ i ∉ s.deleted ∧ eligible elig i = true then some v
      else none
    | _ => none

/-- `SearchSeriesKeys`: the keys of the series the show-series path selects (`searchSeriesKey` per
tsid). Rendering a key as text is outside the model (see finding `listing_text_unescaped`). -/
def seriesKeys (M : Matchers Re) (s : St) (mst : Str) (p : Option (Pred Re)) : List SKey :=
  (searchShow M s mst p).filterMap (keyOfId s.vis)

/-- tag keys of a measurement as the engine derives them from the series keys (`handleTagKeys`). -/
def tagKeys (M : Matchers Re) (s : St) (mst : Str) (p : Option (Pred Re)) : List Str :=
  (seriesKeys M s mst p).flatMap (fun k => k.tags.map (·.1))

/-- `DeleteTSIDs` → `WriteDeleteTsids` (invalidates the tag filter cache since fix 1e92f07). -/
def delete (M : Matchers Re) (s : St) (mst : Str) (p : Option (Pred Re)) : St :=
  let ids := searchShow M s mst p
  { s with deleted := s.deleted ++ diff ids s.deleted, caches := s.caches.bump }

end OG.C10
