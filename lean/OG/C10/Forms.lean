/-
C10 — the other predicate forms of `seriesByExprIterator` / `searchTSIDsInternal`: `tag IN (…)`,
`tag NOT IN (…)` (also with a value set large enough for the prune-with-set path), `tag = tag`,
`tag != tag`, and comparisons on fields mixed with tag predicates. Transcribed from search.go /
search_prune.go as they are after the fixes recorded in `known_findings.jsonl`; the pure tag
sub-trees are evaluated by the functions of `Model.lean`.

Core Lean only (compiled into the driver).
-/
import OG.C10.Model

namespace OG.C10
open OG.Gen.C10 (pruneWithSetTagValSize)

variable {Re : Type}

inductive XAtom (Re : Type) where
  | tag (a : Atom Re)
  | inSet (k : Str) (vals : List Str)
  | notIn (k : Str) (vals : List Str)
  | tagEq (k1 k2 : Str)
  | tagNe (k1 k2 : Str)
  | field (n : Nat)      -- a comparison on a field: the index cannot decide it

inductive XPred (Re : Type) where
  | atom (a : XAtom Re)
  | and (a b : XPred Re)
  | or (a b : XPred Re)
  | paren (a : XPred Re)

/-- the property's reading on one series: an absent tag is the empty string; a field comparison
may hold for some row of the series, so it must not remove the series -/
def XAtom.sat (M : Matchers Re) (s : SKey) : XAtom Re → Bool
  | .tag a => a.sat M s
  | .inSet k vs => vs.contains (s.tagOrEmpty k)
  | .notIn k vs => !vs.contains (s.tagOrEmpty k)
  | .tagEq a b => s.tagOrEmpty a == s.tagOrEmpty b
  | .tagNe a b => s.tagOrEmpty a != s.tagOrEmpty b
  | .field _ => true

def XPred.sat (M : Matchers Re) (s : SKey) : XPred Re → Bool
  | .atom a => a.sat M s
  | .and a b => a.sat M s && b.sat M s
  | .or a b => a.sat M s || b.sat M s
  | .paren a => a.sat M s

/-- `seriesByBinaryExprSetLiteral`: one string filter per value, results united; NOT IN subtracts
the union from the series of the measurement -/
def inUnion (M : Matchers Re) (items : List Item) (del : List Id) (mst k : Str) (vs : List Str) : List Id :=
  vs.foldl (fun acc v => union acc (leafEval M items del mst (.eq k v)).1) []

def setEval (M : Matchers Re) (items : List Item) (del : List Id) (mst k : Str) (vs : List Str) (isIn : Bool) : List Id :=
  if isIn then inUnion M items del mst k vs else diff (allIds items del mst) (inUnion M items del mst k vs)

/-- series that carry the tag key (`Init(name, key, ".*", false, true)` without the match-all flag) -/
def hasKey (items : List Item) (del : List Id) (mst k : Str) : List Id :=
  scanIds items del mst (fun k' _ => k' == k)

/-! ### show-series path (`searchTSIDsByBinaryExpr`) -/

def xShowExpr (M : Matchers Re) (items : List Item) (mst : Str) : XPred Re → List Id
  | .atom (.tag a) => (leafEval M items [] mst a).1
  | .atom (.inSet k vs) => if vs.isEmpty then [] else setEval M items [] mst k vs true
  | .atom (.notIn k vs) => if vs.isEmpty then allIds items [] mst else setEval M items [] mst k vs false
  -- the name of the other tag is taken as a string value
  | .atom (.tagEq a b) => (leafEval M items [] mst (.eq a b)).1
  | .atom (.tagNe a b) => (leafEval M items [] mst (.ne a b)).1
  | .atom (.field _) => allIds items [] mst
  | .and a b => inter (xShowExpr M items mst a) (xShowExpr M items mst b)
  | .or a b => union (xShowExpr M items mst a) (xShowExpr M items mst b)
  | .paren a => xShowExpr M items mst a

def xSearchShow (M : Matchers Re) (s : St) (mst : Str) (p : XPred Re) : List Id :=
  if containsMeasurement s.vis mst then diff (xShowExpr M s.vis mst p) s.deleted else []

/-! ### select path (`seriesByExprIterator`) -/

inductive XRes where
  | ids (l : List Id)
  | fieldExpr            -- `ErrFieldExpr`: nothing but field comparisons below
  | fail                 -- `searchSeriesKey` failed in a prune step

/-- `isAllFieldExpr` -/
def isAllField : XPred Re → Bool
  | .atom (.field _) => true
  | .atom _ => false
  | .and a b | .or a b => isAllField a && isAllField b
  | .paren a => isAllField a

/-- `isAllAndExpr` + `extractTagsAndFilters`: the tag leaves (left to right) and the number of field
leaves of a tree of ANDs over plain comparisons; `none` if there is an OR, an IN or a tag = tag -/
def allAndLeaves : XPred Re → Option (List (Atom Re) × Nat)
  | .atom (.tag a) => some ([a], 0)
  | .atom (.field _) => some ([], 1)
  | .atom _ => none
  | .and a b =>
    match allAndLeaves a, allAndLeaves b with
    | some (x, n), some (y, m) => some (x ++ y, n + m)
    | _, _ => none
  | .or _ _ => none
  | .paren a => allAndLeaves a

/-- `checkINExpr`: an IN / NOT IN atom (not in parentheses) with more than `PruneWithSetTagValSize`
values: key, values, negated -/
def bigIn : XPred Re → Option (Str × List Str × Bool)
  | .atom (.inSet k vs) => if vs.length > pruneWithSetTagValSize then some (k, vs, false) else none
  | .atom (.notIn k vs) => if vs.length > pruneWithSetTagValSize then some (k, vs, true) else none
  | _ => none

def setSize : XPred Re → Nat
  | .atom (.inSet _ vs) | .atom (.notIn _ vs) => vs.length
  | _ => 0

/-- `chooseINPriority`: which operand of an AND is pruned with: `some true` = the left one is the
large IN (the right one is evaluated), `some false` = the right one -/
def chooseIN (a b : XPred Re) : Option Bool :=
  match (bigIn a).isSome, (bigIn b).isSome with
  | false, false => none
  | true, false => some true
  | false, true => some false
  | true, true => if setSize a < setSize b then some true else some false

/-- `doPruneWithSet`: keep the series whose tag value is (not) in the set; `none` = a series key
could not be read -/
def pruneWithSet (items : List Item) (l : List Id) (k : Str) (vs : List Str) (neg : Bool) : Option (List Id) :=
  l.foldr (fun id acc =>
    match acc, keyOfId items id with
    | some acc, some key => if vs.contains (key.tagOrEmpty k) == neg then some acc else some (id :: acc)
    | _, _ => none) (some [])

/-- `seriesByOneTagFilter`: no tag-filter cache; the cost is stored -/
def oneFilter (M : Matchers Re) (items : List Item) (del : List Id) (mst : Str) (c : Caches) (a : Atom Re) :
    List Id × Caches :=
  let (ids, cost) := leafEval M items del mst a
  (ids, costPut c (a.fkey M mst) cost)

def xLeaf (M : Matchers Re) (items : List Item) (del : List Id) (mst : Str) (c : Caches) : XAtom Re → XRes × Caches
  | .tag a => let (r, c') := selLeaf M items del mst c a; (.ids r, c')
  | .inSet k vs => (.ids (setEval M items del mst k vs true), c)
  | .notIn k vs => (.ids (setEval M items del mst k vs false), c)
  | .tagEq a b => (.ids (inter (hasKey items del mst a) (hasKey items del mst b)), c)
  | .tagNe a b => (.ids (diff (hasKey items del mst a) (hasKey items del mst b)), c)
  | .field _ => (.fieldExpr, c)

/-- an operand that is only field comparisons stands for every series of the measurement -/
def asIds (items : List Item) (del : List Id) (mst : Str) : XRes → Option (List Id)
  | .ids l => some l
  | .fieldExpr => some (allIds items del mst)
  | .fail => none

/-- `seriesByINExprIterator` after the other operand was evaluated: its series pruned with the set -/
def prunedBy (items : List Item) (k : Str) (vs : List Str) (neg : Bool) (r : XRes × Caches) : Option (XRes × Caches) :=
  match r with
  | (.ids l, c') =>
    match pruneWithSet items l k vs neg with
    | some x => some (.ids x, c')
    | none => none
  | _ => none

/-- the prune-with-set path of an AND: `ra`, `rb` are the operands evaluated on their own -/
def viaIn (items : List Item) (a b : XPred Re) (ra rb : XRes × Caches) : Option (XRes × Caches) :=
  match chooseIN a b with
  | some true =>
    match bigIn a with
    | some (k, vs, neg) => prunedBy items k vs neg rb
    | none => none
  | some false =>
    match bigIn b with
    | some (k, vs, neg) => prunedBy items k vs neg ra
    | none => none
  | none => none

/-- the all-AND fast path (`seriesByAllAndExprIterator`); `none` = not applicable / `ErrAllFields` -/
def fastPath (M : Matchers Re) (items : List Item) (del : List Id) (mst : Str) (c : Caches) (p : XPred Re) :
    Option (XRes × Caches) :=
  match allAndLeaves p with
  | some (tags, _) =>
    match tags with
    | [] => none
    | [t] => let (r, c') := oneFilter M items del mst c t; some (.ids r, c')
    | _ =>
      match fastAnd M items del mst c tags with
      | (some r, c') => some (.ids r, c')
      | (none, _) => none
  | none => none

def combineAnd (items : List Item) (del : List Id) (mst : Str) : XRes → XRes → XRes
  | .fail, _ | _, .fail => .fail
  | .fieldExpr, .ids y => .ids y
  | .ids x, .fieldExpr => .ids x
  | .fieldExpr, .fieldExpr => .ids (allIds items del mst)
  | .ids x, .ids y => .ids (inter x y)

def combineOr (items : List Item) (del : List Id) (mst : Str) (l r : XRes) : XRes :=
  match asIds items del mst l, asIds items del mst r with
  | some x, some y => .ids (union x y)
  | _, _ => .fail

def xSelExpr (M : Matchers Re) (items : List Item) (del : List Id) (mst : Str) :
    XPred Re → Caches → XRes × Caches
  | .atom a, c => xLeaf M items del mst c a
  | .paren a, c => xSelExpr M items del mst a c
  | .and a b, c =>
    match viaIn items a b (xSelExpr M items del mst a c) (xSelExpr M items del mst b c) with
    | some r => r
    | none =>
      match fastPath M items del mst c (.and a b) with
      | some r => r
      | none =>
        if isAllField (.and a b) then (.fieldExpr, c) else
        let (l, c1) := xSelExpr M items del mst a c
        let (r, c2) := xSelExpr M items del mst b c1
        (combineAnd items del mst l r, c2)
  | .or a b, c =>
    if isAllField (.or a b) then (.fieldExpr, c) else
    let (l, c1) := xSelExpr M items del mst a c
    let (r, c2) := xSelExpr M items del mst b c1
    (combineOr items del mst l r, c2)

/-- `measurementSeriesByExprIterator`: a condition of nothing but field comparisons selects every
series of the measurement -/
def xSearchSel (M : Matchers Re) (s : St) (mst : Str) (p : XPred Re) : Option (List Id) × St :=
  let (r, c) := xSelExpr M s.vis s.deleted mst p s.caches
  (asIds s.vis s.deleted mst r, { s with caches := c })

end OG.C10
