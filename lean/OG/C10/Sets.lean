/-
C10 — lemmas about id sets as lists, the transcribed insertion sort, and `decode`.
-/
import OG.C10.Model

namespace OG.C10

theorem mem_addId {x y : Id} {l : List Id} : x ∈ addId y l ↔ x = y ∨ x ∈ l := by
  unfold addId
  by_cases h : y ∈ l
  · simp only [h, if_true]
    constructor
    · intro hx; exact Or.inr hx
    · rintro (rfl | hx)
      · exact h
      · exact hx
  · simp [h]

theorem mem_idSet {x : Id} {l : List Id} : x ∈ idSet l ↔ x ∈ l := by
  unfold idSet
  induction l with
  | nil => simp
  | cons a t ih => simp [List.foldr, mem_addId, ih]

theorem mem_inter {x : Id} {a b : List Id} : x ∈ inter a b ↔ x ∈ a ∧ x ∈ b := by
  simp [inter, List.mem_filter]

theorem mem_diff {x : Id} {a b : List Id} : x ∈ diff a b ↔ x ∈ a ∧ x ∉ b := by
  simp [diff, List.mem_filter]

theorem mem_union {x : Id} {a b : List Id} : x ∈ union a b ↔ x ∈ a ∨ x ∈ b := by
  simp only [union, List.mem_append, List.mem_filter, Bool.not_eq_true', decide_eq_false_iff_not]
  constructor
  · rintro (h | ⟨h, _⟩)
    · exact Or.inl h
    · exact Or.inr h
  · rintro (h | h)
    · exact Or.inl h
    · by_cases ha : x ∈ a
      · exact Or.inl ha
      · exact Or.inr ⟨h, ha⟩

theorem isEmpty_iff_forall_not_mem {l : List Id} : l.isEmpty = true ↔ ∀ x, x ∉ l := by
  cases l with
  | nil => simp
  | cons a t => simp only [List.isEmpty_cons, Bool.false_eq_true, false_iff]; intro h; exact h a (List.mem_cons_self ..)

/-! insertion sort is a permutation (membership is all the search needs) -/

theorem mem_bubble {α : Type} (less : α → α → Bool) (x y : α) (l : List α) :
    y ∈ bubble less x l ↔ y = x ∨ y ∈ l := by
  induction l with
  | nil => simp [bubble]
  | cons a t ih =>
    unfold bubble
    by_cases h : less x a = true
    · simp only [h, if_true, List.mem_cons, ih]
      constructor
      · rintro (h1 | h1 | h1)
        · exact Or.inr (Or.inl h1)
        · exact Or.inl h1
        · exact Or.inr (Or.inr h1)
      · rintro (h1 | h1 | h1)
        · exact Or.inr (Or.inl h1)
        · exact Or.inl h1
        · exact Or.inr (Or.inr h1)
    · simp [h]

theorem mem_foldl_bubble {α : Type} (less : α → α → Bool) (l acc : List α) (y : α) :
    y ∈ l.foldl (fun acc x => bubble less x acc) acc ↔ y ∈ acc ∨ y ∈ l := by
  induction l generalizing acc with
  | nil => simp
  | cons a t ih =>
    simp only [List.foldl_cons, ih, mem_bubble, List.mem_cons]
    constructor
    · rintro ((h | h) | h)
      · exact Or.inr (Or.inl h)
      · exact Or.inl h
      · exact Or.inr (Or.inr h)
    · rintro (h | h | h)
      · exact Or.inl (Or.inr h)
      · exact Or.inl (Or.inl h)
      · exact Or.inr h

theorem mem_isort {α : Type} (less : α → α → Bool) (l : List α) (y : α) :
    y ∈ isort less l ↔ y ∈ l := by
  simp [isort, mem_foldl_bubble]

/-! `decode` -/

theorem mem_decode_k2i {key k : SKey} {id i : Id} :
    Item.k2i k i ∈ decode key id ↔ k = key ∧ i = id := by
  simp [decode]

theorem mem_decode_i2k {key k : SKey} {id i : Id} :
    Item.i2k i k ∈ decode key id ↔ k = key ∧ i = id := by
  simp [decode]
  constructor
  · rintro ⟨rfl, rfl⟩; exact ⟨rfl, rfl⟩
  · rintro ⟨rfl, rfl⟩; exact ⟨rfl, rfl⟩

theorem mem_decode_t2i {key : SKey} {id i : Id} {m tk tv : Str} :
    Item.t2i m tk tv i ∈ decode key id ↔
      m = key.mst ∧ i = id ∧ ((tk, tv) ∈ key.tags ∨ (tk = "" ∧ tv = "")) := by
  simp only [decode, List.mem_cons, List.mem_append, List.mem_map, reduceCtorEq, false_or,
    Item.t2i.injEq, List.mem_singleton, List.not_mem_nil, or_false]
  constructor
  · rintro (⟨t, ht, rfl, rfl, rfl, rfl⟩ | ⟨rfl, rfl, rfl, rfl⟩)
    · exact ⟨rfl, rfl, Or.inl ht⟩
    · exact ⟨rfl, rfl, Or.inr ⟨rfl, rfl⟩⟩
  · rintro ⟨rfl, rfl, (h | ⟨rfl, rfl⟩)⟩
    · exact Or.inl ⟨(tk, tv), h, rfl, rfl, rfl, rfl⟩
    · exact Or.inr ⟨rfl, rfl, rfl, rfl⟩

end OG.C10
