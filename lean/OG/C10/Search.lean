/-
C10 — what the index scans compute, in terms of the series that were created:
`Gen l` is the item list written for the created (key, id) pairs `l`; `Sem` is the set of ids of
the live series of one measurement that satisfy a condition on their key.
-/
import OG.C10.Sets

namespace OG.C10

variable {Re : Type}

/-- items written for a list of created series -/
def Gen (l : List (SKey × Id)) : List Item := l.flatMap (fun p => decode p.1 p.2)

/-- a well-formed series key: no empty tag key or value, tag keys pairwise distinct -/
structure SKey.WF (k : SKey) : Prop where
  nonempty : ∀ t ∈ k.tags, t.1 ≠ "" ∧ t.2 ≠ ""
  uniq : ∀ t ∈ k.tags, ∀ u ∈ k.tags, t.1 = u.1 → t = u

/-- created series: well-formed keys, an id belongs to one series -/
structure Good (l : List (SKey × Id)) : Prop where
  wf : ∀ p ∈ l, p.1.WF
  uniq : ∀ p ∈ l, ∀ q ∈ l, p.2 = q.2 → p = q

theorem Good.key_eq {l : List (SKey × Id)} (h : Good l) {k k' : SKey} {i : Id}
    (h1 : (k, i) ∈ l) (h2 : (k', i) ∈ l) : k = k' := by
  have := h.uniq _ h1 _ h2 rfl
  exact (Prod.mk.inj this).1

theorem mem_Gen {l : List (SKey × Id)} {it : Item} :
    it ∈ Gen l ↔ ∃ p ∈ l, it ∈ decode p.1 p.2 := by
  simp [Gen, List.mem_flatMap]

theorem mem_Gen_k2i {l : List (SKey × Id)} {k : SKey} {i : Id} :
    Item.k2i k i ∈ Gen l ↔ (k, i) ∈ l := by
  rw [mem_Gen]
  constructor
  · rintro ⟨⟨k', i'⟩, hp, h⟩
    obtain ⟨rfl, rfl⟩ := mem_decode_k2i.mp h
    exact hp
  · intro h
    exact ⟨(k, i), h, mem_decode_k2i.mpr ⟨rfl, rfl⟩⟩

theorem mem_Gen_i2k {l : List (SKey × Id)} {k : SKey} {i : Id} :
    Item.i2k i k ∈ Gen l ↔ (k, i) ∈ l := by
  rw [mem_Gen]
  constructor
  · rintro ⟨⟨k', i'⟩, hp, h⟩
    obtain ⟨rfl, rfl⟩ := mem_decode_i2k.mp h
    exact hp
  · intro h
    exact ⟨(k, i), h, mem_decode_i2k.mpr ⟨rfl, rfl⟩⟩

theorem mem_Gen_t2i {l : List (SKey × Id)} {m tk tv : Str} {i : Id} :
    Item.t2i m tk tv i ∈ Gen l ↔
      ∃ key, (key, i) ∈ l ∧ key.mst = m ∧ ((tk, tv) ∈ key.tags ∨ (tk = "" ∧ tv = "")) := by
  rw [mem_Gen]
  constructor
  · rintro ⟨⟨k', i'⟩, hp, h⟩
    obtain ⟨rfl, rfl, h3⟩ := mem_decode_t2i.mp h
    exact ⟨k', hp, rfl, h3⟩
  · rintro ⟨key, hp, rfl, h3⟩
    exact ⟨(key, i), hp, mem_decode_t2i.mpr ⟨rfl, rfl, h3⟩⟩

theorem Gen_append (a b : List (SKey × Id)) : Gen (a ++ b) = Gen a ++ Gen b := by
  simp [Gen]

/-! tags of a well-formed key -/

theorem find_tag {tags : List (Str × Str)} (hu : ∀ t ∈ tags, ∀ u ∈ tags, t.1 = u.1 → t = u) {k v : Str} :
    tags.find? (fun t => t.1 == k) = some (k, v) ↔ (k, v) ∈ tags := by
  induction tags with
  | nil => simp
  | cons t ts ih =>
    have hu' : ∀ t ∈ ts, ∀ u ∈ ts, t.1 = u.1 → t = u := fun a ha b hb =>
      hu a (List.mem_cons_of_mem _ ha) b (List.mem_cons_of_mem _ hb)
    by_cases ht : t.1 = k
    · have : (t.1 == k) = true := by simp [ht]
      simp only [List.find?_cons, this, List.mem_cons]
      constructor
      · intro h; exact Or.inl (Option.some.inj h).symm
      · rintro (h | h)
        · rw [h]
        · have := hu t (List.mem_cons_self ..) (k, v) (List.mem_cons_of_mem _ h) ht
          rw [this]
    · have : (t.1 == k) = false := by simp [ht]
      simp only [List.find?_cons, this, List.mem_cons, ih hu']
      constructor
      · intro h; exact Or.inr h
      · rintro (h | h)
        · exact absurd (by rw [← h]) ht
        · exact h

theorem find_tag_none {tags : List (Str × Str)} {k : Str} :
    tags.find? (fun t => t.1 == k) = none ↔ ∀ v, (k, v) ∉ tags := by
  simp only [List.find?_eq_none, beq_iff_eq]
  constructor
  · intro h v hv; exact h _ hv rfl
  · rintro h ⟨a, b⟩ hab rfl; exact h b hab

theorem find_tag_some_key {tags : List (Str × Str)} {k : Str} {t : Str × Str}
    (h : tags.find? (fun t => t.1 == k) = some t) : t.1 = k ∧ t ∈ tags := by
  have h1 := List.find?_some h
  have h2 := List.mem_of_find?_eq_some h
  exact ⟨by simpa using h1, h2⟩

theorem SKey.tag?_eq_some {s : SKey} (hs : s.WF) {k v : Str} : s.tag? k = some v ↔ (k, v) ∈ s.tags := by
  unfold SKey.tag?
  cases hf : s.tags.find? (fun t => t.1 == k) with
  | none =>
    simp only [reduceCtorEq, false_iff]
    exact find_tag_none.mp hf v
  | some t =>
    obtain ⟨h1, h2⟩ := find_tag_some_key hf
    obtain ⟨a, b⟩ := t
    simp only at h1
    subst h1
    simp only [Option.some.injEq]
    constructor
    · rintro rfl; exact h2
    · intro h
      have := hs.uniq _ h2 _ h rfl
      exact (Prod.mk.inj this).2

theorem SKey.tag?_eq_none {s : SKey} {k : Str} : s.tag? k = none ↔ ∀ v, (k, v) ∉ s.tags := by
  unfold SKey.tag?
  cases hf : s.tags.find? (fun t => t.1 == k) with
  | none => simp only [true_iff]; exact find_tag_none.mp hf
  | some t =>
    obtain ⟨h1, h2⟩ := find_tag_some_key hf
    simp only [reduceCtorEq, false_iff]
    intro h
    obtain ⟨a, b⟩ := t
    simp only at h1
    subst h1
    exact h b h2

theorem SKey.tagOrEmpty_eq {s : SKey} (hs : s.WF) {k v : Str} (hv : v ≠ "") :
    s.tagOrEmpty k = v ↔ (k, v) ∈ s.tags := by
  unfold SKey.tagOrEmpty
  cases h : s.tag? k with
  | none =>
    simp only
    constructor
    · intro h'; exact absurd h'.symm hv
    · intro h'; exact absurd h' (SKey.tag?_eq_none.mp h v)
  | some w =>
    simp only
    have hw := (SKey.tag?_eq_some hs).mp h
    constructor
    · rintro rfl; exact hw
    · intro h'
      have := hs.uniq _ hw _ h' rfl
      exact (Prod.mk.inj this).2

theorem SKey.tagOrEmpty_eq_empty {s : SKey} (hs : s.WF) {k : Str} :
    s.tagOrEmpty k = "" ↔ ∀ v, (k, v) ∉ s.tags := by
  unfold SKey.tagOrEmpty
  cases h : s.tag? k with
  | none => simp only [true_iff]; exact SKey.tag?_eq_none.mp h
  | some w =>
    simp only
    have hw := (SKey.tag?_eq_some hs).mp h
    constructor
    · rintro rfl; exact absurd rfl (hs.nonempty _ hw).2
    · intro h'; exact absurd hw (h' w)

/-! semantic id sets -/

/-- ids of the created series of measurement `mst`, not in `del`, whose key satisfies `φ` -/
def Sem (l : List (SKey × Id)) (mst : Str) (del : List Id) (φ : SKey → Prop) (id : Id) : Prop :=
  ∃ key, (key, id) ∈ l ∧ key.mst = mst ∧ id ∉ del ∧ φ key

theorem Sem.and {l : List (SKey × Id)} (h : Good l) {mst : Str} {del : List Id} {φ ψ : SKey → Prop} {id : Id} :
    (Sem l mst del φ id ∧ Sem l mst del ψ id) ↔ Sem l mst del (fun k => φ k ∧ ψ k) id := by
  constructor
  · rintro ⟨⟨k, h1, h2, h3, h4⟩, ⟨k', h1', _, _, h4'⟩⟩
    have := h.key_eq h1 h1'
    subst this
    exact ⟨k, h1, h2, h3, h4, h4'⟩
  · rintro ⟨k, h1, h2, h3, h4, h5⟩
    exact ⟨⟨k, h1, h2, h3, h4⟩, ⟨k, h1, h2, h3, h5⟩⟩

theorem Sem.or {l : List (SKey × Id)} {mst : Str} {del : List Id} {φ ψ : SKey → Prop} {id : Id} :
    (Sem l mst del φ id ∨ Sem l mst del ψ id) ↔ Sem l mst del (fun k => φ k ∨ ψ k) id := by
  constructor
  · rintro (⟨k, h1, h2, h3, h4⟩ | ⟨k, h1, h2, h3, h4⟩)
    · exact ⟨k, h1, h2, h3, Or.inl h4⟩
    · exact ⟨k, h1, h2, h3, Or.inr h4⟩
  · rintro ⟨k, h1, h2, h3, (h4 | h4)⟩
    · exact Or.inl ⟨k, h1, h2, h3, h4⟩
    · exact Or.inr ⟨k, h1, h2, h3, h4⟩

theorem Sem.diff {l : List (SKey × Id)} (h : Good l) {mst : Str} {del : List Id} {φ ψ : SKey → Prop} {id : Id} :
    (Sem l mst del φ id ∧ ¬ Sem l mst del ψ id) ↔ Sem l mst del (fun k => φ k ∧ ¬ ψ k) id := by
  constructor
  · rintro ⟨⟨k, h1, h2, h3, h4⟩, hn⟩
    exact ⟨k, h1, h2, h3, h4, fun hψ => hn ⟨k, h1, h2, h3, hψ⟩⟩
  · rintro ⟨k, h1, h2, h3, h4, h5⟩
    refine ⟨⟨k, h1, h2, h3, h4⟩, ?_⟩
    rintro ⟨k', h1', _, _, h4'⟩
    have := h.key_eq h1 h1'
    subst this
    exact h5 h4'

theorem Sem.congr {l : List (SKey × Id)} (h : Good l) {mst : Str} {del : List Id} {φ ψ : SKey → Prop} {id : Id}
    (hφψ : ∀ k, k.WF → (φ k ↔ ψ k)) : Sem l mst del φ id ↔ Sem l mst del ψ id := by
  constructor
  · rintro ⟨k, h1, h2, h3, h4⟩; exact ⟨k, h1, h2, h3, (hφψ k (h.wf _ h1)).mp h4⟩
  · rintro ⟨k, h1, h2, h3, h4⟩; exact ⟨k, h1, h2, h3, (hφψ k (h.wf _ h1)).mpr h4⟩

theorem mem_tagIds {items : List Item} {mst : Str} {p : Str → Str → Bool} {i : Id} :
    i ∈ tagIds items mst p ↔ ∃ k v, Item.t2i mst k v i ∈ items ∧ p k v = true := by
  unfold tagIds
  simp only [List.mem_filterMap]
  constructor
  · rintro ⟨it, hit, hf⟩
    cases it with
    | k2i _ _ => simp at hf
    | i2k _ _ => simp at hf
    | t2i m k v j =>
      simp only at hf
      split at hf
      · rename_i hc
        obtain ⟨rfl, hp⟩ := hc
        simp only [Option.some.injEq] at hf
        subst hf
        exact ⟨k, v, hit, hp⟩
      · simp at hf
  · rintro ⟨k, v, hit, hp⟩
    exact ⟨_, hit, by simp [hp]⟩

theorem mem_scanIds {l : List (SKey × Id)} {mst : Str} {del : List Id} {p : Str → Str → Bool} {i : Id} :
    i ∈ scanIds (Gen l) del mst p ↔
      Sem l mst del (fun key => (∃ t ∈ key.tags, p t.1 t.2 = true) ∨ p "" "" = true) i := by
  unfold scanIds Sem
  rw [mem_diff, mem_idSet, mem_tagIds]
  constructor
  · rintro ⟨⟨k, v, hit, hp⟩, hd⟩
    obtain ⟨key, h1, h2, h3⟩ := mem_Gen_t2i.mp hit
    refine ⟨key, h1, h2, hd, ?_⟩
    rcases h3 with h3 | ⟨rfl, rfl⟩
    · exact Or.inl ⟨(k, v), h3, hp⟩
    · exact Or.inr hp
  · rintro ⟨key, h1, h2, hd, h3⟩
    refine ⟨?_, hd⟩
    rcases h3 with ⟨t, ht, hp⟩ | hp
    · exact ⟨t.1, t.2, mem_Gen_t2i.mpr ⟨key, h1, h2, Or.inl ht⟩, hp⟩
    · exact ⟨"", "", mem_Gen_t2i.mpr ⟨key, h1, h2, Or.inr ⟨rfl, rfl⟩⟩, hp⟩

theorem mem_allIds {l : List (SKey × Id)} {mst : Str} {del : List Id} {i : Id} :
    i ∈ allIds (Gen l) del mst ↔ Sem l mst del (fun _ => True) i := by
  have := @mem_scanIds l mst del (fun _ _ => true) i
  unfold scanIds at this
  unfold allIds
  rw [this]
  unfold Sem
  constructor
  · rintro ⟨k, h1, h2, h3, _⟩; exact ⟨k, h1, h2, h3, trivial⟩
  · rintro ⟨k, h1, h2, h3, _⟩; exact ⟨k, h1, h2, h3, Or.inr rfl⟩

/-- what the index computes for an atom on one series: the tag filter's derived matcher on a
present value, `matchEmpty` as match-all -/
def Atom.dsat (M : Matchers Re) (s : SKey) : Atom Re → Bool
  | .eq k v => s.tagOrEmpty k == v
  | .ne k v => s.tagOrEmpty k != v
  | .re k r => M.matchEmpty r || (match s.tag? k with | some v => M.tfMatch r v | none => false)
  | .nre k r => !(M.matchEmpty r || (match s.tag? k with | some v => M.tfMatch r v | none => false))

def Pred.dsat (M : Matchers Re) (s : SKey) : Pred Re → Bool
  | .atom a => a.dsat M s
  | .and a b => a.dsat M s && b.dsat M s
  | .or a b => a.dsat M s || b.dsat M s
  | .paren a => a.dsat M s

/-- atoms name non-empty tag keys -/
def Pred.KeysOk : Pred Re → Prop
  | .atom a => a.key ≠ ""
  | .and a b | .or a b => a.KeysOk ∧ b.KeysOk
  | .paren a => a.KeysOk

/-- scan for `key = k ∧ value = v` -/
theorem scan_eq_iff {s : SKey} (_hs : s.WF) {k v : Str} (hk : k ≠ "") :
    ((∃ t ∈ s.tags, (t.1 == k && t.2 == v) = true) ∨ (("" : Str) == k && ("" : Str) == v) = true) ↔ (k, v) ∈ s.tags := by
  constructor
  · rintro (⟨⟨a, b⟩, ht, hp⟩ | hp)
    · simp only [Bool.and_eq_true, beq_iff_eq] at hp
      obtain ⟨rfl, rfl⟩ := hp
      exact ht
    · simp only [Bool.and_eq_true, beq_iff_eq] at hp
      exact absurd hp.1.symm hk
  · intro h
    exact Or.inl ⟨(k, v), h, by simp⟩

/-- scan for `key = k`, any value -/
theorem scan_key_iff {s : SKey} {k : Str} (hk : k ≠ "") :
    ((∃ t ∈ s.tags, (t.1 == k) = true) ∨ (("" : Str) == k) = true) ↔ ∃ v, (k, v) ∈ s.tags := by
  constructor
  · rintro (⟨⟨a, b⟩, ht, hp⟩ | hp)
    · simp only [beq_iff_eq] at hp
      subst hp
      exact ⟨b, ht⟩
    · simp only [beq_iff_eq] at hp
      exact absurd hp.symm hk
  · rintro ⟨v, h⟩
    exact Or.inl ⟨(k, v), h, by simp⟩

/-- scan with the derived regex matcher -/
theorem scan_re_iff {M : Matchers Re} {s : SKey} (hs : s.WF) {k : Str} {r : Re} (hk : k ≠ "") :
    ((∃ t ∈ s.tags, (t.1 == k && M.tfMatch r t.2) = true) ∨ (("" : Str) == k && M.tfMatch r "") = true) ↔
      (match s.tag? k with | some v => M.tfMatch r v | none => false) = true := by
  constructor
  · rintro (⟨⟨a, b⟩, ht, hp⟩ | hp)
    · simp only [Bool.and_eq_true, beq_iff_eq] at hp
      obtain ⟨rfl, hp⟩ := hp
      rw [(SKey.tag?_eq_some hs).mpr ht]
      exact hp
    · simp only [Bool.and_eq_true, beq_iff_eq] at hp
      exact absurd hp.1.symm hk
  · intro h
    cases ht : s.tag? k with
    | none => rw [ht] at h; simp at h
    | some v =>
      rw [ht] at h
      exact Or.inl ⟨(k, v), (SKey.tag?_eq_some hs).mp ht, by simpa using h⟩

/-- **leaf**: an index scan for one atom returns the live series of the measurement on which the
derived semantics of the atom holds -/
theorem mem_leafEval {M : Matchers Re} {l : List (SKey × Id)} (hl : Good l) {mst : Str} {del : List Id}
    (a : Atom Re) (hk : a.key ≠ "") {i : Id} :
    i ∈ (leafEval M (Gen l) del mst a).1 ↔ Sem l mst del (fun key => a.dsat M key = true) i := by
  cases a with
  | eq k v =>
    simp only [Atom.key] at hk
    simp only [leafEval]
    by_cases hv : v = ""
    · subst hv
      simp only [ne_eq, not_true_eq_false, if_false]
      rw [mem_diff, mem_allIds, mem_scanIds, Sem.diff hl]
      apply Sem.congr hl
      intro s hs
      rw [scan_key_iff hk]
      simp only [true_and, Atom.dsat, beq_iff_eq]
      rw [SKey.tagOrEmpty_eq_empty hs]
      simp
    · simp only [ne_eq, hv, not_false_eq_true, if_true]
      rw [mem_scanIds]
      apply Sem.congr hl
      intro s hs
      rw [scan_eq_iff hs hk]
      simp only [Atom.dsat, beq_iff_eq]
      exact (SKey.tagOrEmpty_eq hs hv).symm
  | ne k v =>
    simp only [Atom.key] at hk
    simp only [leafEval]
    by_cases hv : v = ""
    · subst hv
      simp only [ne_eq, not_true_eq_false, if_false]
      rw [mem_scanIds]
      apply Sem.congr hl
      intro s hs
      rw [scan_key_iff hk]
      simp only [Atom.dsat, bne_iff_ne, ne_eq]
      rw [SKey.tagOrEmpty_eq_empty hs]
      simp
    · simp only [ne_eq, hv, not_false_eq_true, if_true]
      rw [mem_diff, mem_allIds, mem_scanIds, Sem.diff hl]
      apply Sem.congr hl
      intro s hs
      rw [scan_eq_iff hs hk]
      simp only [true_and, Atom.dsat, bne_iff_ne, ne_eq]
      rw [SKey.tagOrEmpty_eq hs hv]
  | re k r =>
    simp only [Atom.key] at hk
    simp only [leafEval]
    by_cases hm : M.matchEmpty r = true
    · simp only [hm, if_true]
      rw [mem_allIds]
      apply Sem.congr hl
      intro s _
      simp [Atom.dsat, hm]
    · simp only [hm, Bool.false_eq_true, if_false]
      rw [mem_scanIds]
      apply Sem.congr hl
      intro s hs
      rw [scan_re_iff hs hk]
      simp only [Bool.not_eq_true] at hm
      simp [Atom.dsat, hm]
  | nre k r =>
    simp only [Atom.key] at hk
    simp only [leafEval]
    by_cases hm : M.matchEmpty r = true
    · simp only [hm, if_true]
      simp only [List.not_mem_nil, false_iff]
      rintro ⟨s, _, _, _, h⟩
      simp [Atom.dsat, hm] at h
    · simp only [hm, Bool.false_eq_true, if_false]
      rw [mem_diff, mem_allIds, mem_scanIds, Sem.diff hl]
      apply Sem.congr hl
      intro s hs
      rw [scan_re_iff hs hk]
      simp only [Bool.not_eq_true] at hm
      simp [Atom.dsat, hm]

end OG.C10
