/-
C10 — the hypotheses of `search_eq_bruteforce_param` discharged for the regular expressions the
code evaluates correctly.

`initMatchers` are the matchers the index really uses, *computed* by the transcribed
`tagFilter.Init` (TagFilter.lean) from what the regexp library supplied for each regex atom, at
byte level (`dec` reads a tag value as its bytes). For predicates whose regex atoms are all
`GoodAtom`s and indexes whose stored tag values contain none of the bytes 0, 1, 2:

* `dsat_eq_sat_init`: the derived semantics of the predicate on a stored series key is the
  specification (this replaces the hypothesis `MatcherFaithful`);
* `search_eq_bruteforce_init_show`: the show-series path returns the brute-force answer;
* `initMatchers_keysound`: cache keys identify filters (`KeySound`) among good atoms.
-/
import OG.C10.Props
import OG.C10.TagFilterProps

namespace OG.C10
open OG.C10.TF (RxAtom GoodClass Plain)

/-- a regex atom the code evaluates as the query language asks: one of the good classes,
`MatchString("")` of the same regex, and "matches the empty string ⇒ matches everything" (true for
a regex without anchors / boundary assertions; `^$` is the counterexample of finding
`show_series_anchored_regex`) -/
structure GoodAtom (a : RxAtom) : Prop where
  cls : GoodClass a
  empty : a.rin.matchesEmpty = a.matches []
  mono : a.rin.matchesEmpty = true → ∀ v, a.matches v = true

/-- the matchers of the index, computed by the model of `tagFilter.Init` -/
def initMatchers (dec : Str → Bytes.B) (enc : Bytes.B → Str) : Matchers RxAtom where
  «matches» := fun a v => a.matches (dec v)
  matchEmpty := fun a => a.rin.matchesEmpty
  tfMatch := fun a v => a.tfMatch (dec v)
  pruneMatch := fun a v => a.pruneMatch (dec v)
  ckey := fun a => (a.tf.ckey.1, enc a.tf.ckey.2)
  emptyText := fun a => a.tf.isEmptyValue

def Atom.Good : Atom RxAtom → Prop
  | .re _ r | .nre _ r => GoodAtom r
  | _ => True

def Pred.AllGood : Pred RxAtom → Prop
  | .atom a => a.Good
  | .and a b | .or a b => a.AllGood ∧ b.AllGood
  | .paren a => a.AllGood

def optAllGood (p : Option (Pred RxAtom)) : Prop :=
  match p with
  | none => True
  | some q => q.AllGood

/-- every tag value of the key is free of the bytes 0, 1, 2 -/
def PlainKey (dec : Str → Bytes.B) (key : SKey) : Prop := ∀ t ∈ key.tags, Plain (dec t.2)

theorem re_dsat_eq_sat_init {dec : Str → Bytes.B} {enc : Bytes.B → Str} (hd : dec "" = []) {s : SKey}
    (hs : s.WF) (hp : PlainKey dec s) (k : Str) {r : RxAtom} (g : GoodAtom r) :
    ((initMatchers dec enc).matchEmpty r ||
      (match s.tag? k with | some v => (initMatchers dec enc).tfMatch r v | none => false)) =
    (initMatchers dec enc).matches r (s.tagOrEmpty k) := by
  simp only [initMatchers]
  cases hm : r.rin.matchesEmpty with
  | true => simp [g.mono hm]
  | false =>
    simp only [Bool.false_or]
    unfold SKey.tagOrEmpty
    cases ht : s.tag? k with
    | none => simp only; rw [hd, ← g.empty, hm]
    | some v =>
      simp only
      have hv : Plain (dec v) := hp _ ((SKey.tag?_eq_some hs).mp ht)
      exact (TF.init_matcher_eq_regex_partial g.cls hv).1

theorem Atom.dsat_eq_sat_init {dec : Str → Bytes.B} {enc : Bytes.B → Str} (hd : dec "" = []) {s : SKey}
    (hs : s.WF) (hp : PlainKey dec s) (a : Atom RxAtom) (ha : a.Good) :
    a.dsat (initMatchers dec enc) s = a.sat (initMatchers dec enc) s := by
  cases a with
  | eq k v => rfl
  | ne k v => rfl
  | re k r => simp only [Atom.dsat, Atom.sat]; exact re_dsat_eq_sat_init hd hs hp k ha
  | nre k r =>
    simp only [Atom.dsat, Atom.sat]
    exact congrArg (!·) (re_dsat_eq_sat_init (enc := enc) hd hs hp k ha)

/-- **`dsat_eq_sat_init`**: on a stored series key without the bytes 0-2 in its tag values, a
predicate over good regex atoms means to the index what it means to the query language. -/
theorem Pred.dsat_eq_sat_init {dec : Str → Bytes.B} {enc : Bytes.B → Str} (hd : dec "" = []) {s : SKey}
    (hs : s.WF) (hp : PlainKey dec s) (p : Pred RxAtom) (hg : p.AllGood) :
    p.dsat (initMatchers dec enc) s = p.sat (initMatchers dec enc) s := by
  induction p with
  | atom a => exact a.dsat_eq_sat_init hd hs hp hg
  | and a b iha ihb => simp [Pred.dsat, Pred.sat, iha hg.1, ihb hg.2]
  | or a b iha ihb => simp [Pred.dsat, Pred.sat, iha hg.1, ihb hg.2]
  | paren a ih => simp [Pred.dsat, Pred.sat, ih hg]

/-- **`search_eq_bruteforce_init_show`**: with the matchers `tagFilter.Init` derives (no hypothesis
on them), for every predicate tree whose regex atoms are good atoms, in every reachable state whose
visible series carry no byte 0-2 in a tag value, the show-series path of the index returns exactly
the brute-force answer. -/
theorem search_eq_bruteforce_init_show (dec : Str → Bytes.B) (enc : Bytes.B → Str) (hd : dec "" = [])
    {s : St} (hr : Reach (initMatchers dec enc) s) (mst : Str) (p : Option (Pred RxAtom))
    (hp : optKeysOk p) (hg : optAllGood p)
    (hplain : ∀ key i, Item.k2i key i ∈ s.vis → PlainKey dec key) (i : Id) :
    i ∈ searchShow (initMatchers dec enc) s mst p ↔ Matches (initMatchers dec enc) s mst p i := by
  rw [show_eq_derived hr mst p hp i]
  obtain ⟨cv, cp, h⟩ := reach_inv hr
  unfold Matches
  constructor
  · rintro ⟨key, h1, h2, h3, h4⟩
    refine ⟨key, h1, h2, h3, ?_⟩
    have hmem : (key, i) ∈ cv := mem_Gen_k2i.mp (by rw [← h.vis]; exact h1)
    have hwf : key.WF := h.good.wf _ (List.mem_append_left _ hmem)
    cases p with
    | none => trivial
    | some q =>
      simp only [optDsat, optSat] at h4 ⊢
      rw [← q.dsat_eq_sat_init hd hwf (hplain key i h1) hg]; exact h4
  · rintro ⟨key, h1, h2, h3, h4⟩
    refine ⟨key, h1, h2, h3, ?_⟩
    have hmem : (key, i) ∈ cv := mem_Gen_k2i.mp (by rw [← h.vis]; exact h1)
    have hwf : key.WF := h.good.wf _ (List.mem_append_left _ hmem)
    cases p with
    | none => trivial
    | some q =>
      simp only [optDsat, optSat] at h4 ⊢
      rw [q.dsat_eq_sat_init hd hwf (hplain key i h1) hg]; exact h4

/-- **`initMatchers_keysound`**: the cache key `tagFilter.Marshal` builds tells regex filters from
string filters, and two good atoms with the same key decide every plain value alike (literal
flag and rewritten value determine the matcher within the good classes, once the specification
matcher is a function of the regex text). -/
theorem tf_isRegexp (a : RxAtom) : a.tf.isRegexp = true := by
  simp only [TF.RxAtom.tf, TF.initRegex]
  split
  · rfl
  · split <;> rfl

theorem initMatchers_ckey_kind (dec : Str → Bytes.B) (enc : Bytes.B → Str) (a : RxAtom) :
    ((initMatchers dec enc).ckey a).1 ≠ 0 := by
  simp only [initMatchers, TF.TF.ckey, tf_isRegexp]
  cases a.tf.isLiteralRegexp <;> simp

theorem initMatchers_keysound_plain {dec : Str → Bytes.B} {enc : Bytes.B → Str} (henc : ∀ a b, enc a = enc b → a = b)
    {a b : RxAtom} (ga : GoodAtom a) (gb : GoodAtom b)
    (htext : a.rin.text = b.rin.text → a.matches = b.matches)
    (hk : (initMatchers dec enc).ckey a = (initMatchers dec enc).ckey b)
    (hlit : a.tf.isLiteralRegexp = true → a.matches = b.matches)
    {v : Str} (hv : Plain (dec v)) :
    (initMatchers dec enc).tfMatch a v = (initMatchers dec enc).tfMatch b v := by
  simp only [initMatchers]
  rw [(TF.init_matcher_eq_regex_partial ga.cls hv).1, (TF.init_matcher_eq_regex_partial gb.cls hv).1]
  by_cases hl : a.tf.isLiteralRegexp = true
  · rw [hlit hl]
  · -- not literal: the key carries the regex text
    have hl' : a.tf.isLiteralRegexp = false := by simpa using hl
    simp only [initMatchers, Prod.mk.injEq] at hk
    have hval := henc _ _ hk.2
    have hkind := hk.1
    have ha : a.tf.value = a.rin.text ∧ a.tf.isRegexp = true := by
      simp only [TF.RxAtom.tf, TF.initRegex] at hl' ⊢
      split at hl' <;> (try split at hl') <;> simp_all
    have hb : b.tf.isLiteralRegexp = false := by
      simp only [TF.TF.ckey, ha.2, hl'] at hkind
      cases hbl : b.tf.isLiteralRegexp with
      | false => rfl
      | true =>
        simp [hbl, tf_isRegexp] at hkind
    have hbv : b.tf.value = b.rin.text := by
      simp only [TF.RxAtom.tf, TF.initRegex] at hb ⊢
      split at hb <;> (try split at hb) <;> simp_all
    simp only [TF.TF.ckey] at hval
    rw [htext (by rw [← ha.1, ← hbv]; exact hval)]

end OG.C10
