/-
C10 — both search paths compute the brute-force answer.

* show-series path: for every predicate tree the result is the set of live series of the
  measurement on which the *derived* semantics of the predicate holds (no hypothesis on the regex
  matchers); under `MatcherFaithful` the derived semantics is the specification.
* select path (tag-filter cache, all-AND fast path with cost ordering and pruning): under
  `MatcherFaithful` and `KeySound`, starting from a coherent cache, the result is the brute-force
  answer and the cache stays coherent.
-/
import OG.C10.Search

namespace OG.C10

variable {Re : Type}

/-- The derived matchers agree with unanchored matching (the hypothesis the regex findings violate). -/
structure MatcherFaithful (M : Matchers Re) : Prop where
  empty : ∀ r, M.matchEmpty r = M.matches r ""
  mono : ∀ r v, M.matchEmpty r = true → M.matches r v = true
  tf : ∀ r v, M.matchEmpty r = false → M.tfMatch r v = M.matches r v
  prune : ∀ r v, M.pruneMatch r v = M.matches r v

/-- The cache key of a regex atom determines what the tag filter computes for it, and differs from
the key of a string atom. -/
structure KeySound (M : Matchers Re) : Prop where
  kind : ∀ r, (M.ckey r).1 ≠ 0
  same : ∀ r1 r2, M.ckey r1 = M.ckey r2 →
    M.matchEmpty r1 = M.matchEmpty r2 ∧ ∀ v, M.tfMatch r1 v = M.tfMatch r2 v

theorem Atom.dsat_eq_sat {M : Matchers Re} (hM : MatcherFaithful M) {s : SKey} (_hs : s.WF) (a : Atom Re) :
    a.dsat M s = a.sat M s := by
  cases a with
  | eq k v => rfl
  | ne k v => rfl
  | re k r =>
    simp only [Atom.dsat, Atom.sat]
    cases hm : M.matchEmpty r with
    | true => simp [hM.mono r _ hm]
    | false =>
      simp only [Bool.false_or]
      unfold SKey.tagOrEmpty
      cases ht : s.tag? k with
      | none => simp only; rw [← hM.empty r, hm]
      | some v => simp only; exact hM.tf r v hm
  | nre k r =>
    simp only [Atom.dsat, Atom.sat]
    congr 1
    cases hm : M.matchEmpty r with
    | true => simp [hM.mono r _ hm]
    | false =>
      simp only [Bool.false_or]
      unfold SKey.tagOrEmpty
      cases ht : s.tag? k with
      | none => simp only; rw [← hM.empty r, hm]
      | some v => simp only; exact hM.tf r v hm

theorem Pred.dsat_eq_sat {M : Matchers Re} (hM : MatcherFaithful M) {s : SKey} (hs : s.WF) (p : Pred Re) :
    p.dsat M s = p.sat M s := by
  induction p with
  | atom a => exact a.dsat_eq_sat hM hs
  | and a b iha ihb => simp [Pred.dsat, Pred.sat, iha, ihb]
  | or a b iha ihb => simp [Pred.dsat, Pred.sat, iha, ihb]
  | paren a ih => simp [Pred.dsat, Pred.sat, ih]

theorem matchTF_eq_sat {M : Matchers Re} (hM : MatcherFaithful M) (s : SKey) (a : Atom Re) :
    matchTF M s a = a.sat M s := by
  cases a with
  | eq k v => rfl
  | ne k v => rfl
  | re k r => simp [matchTF, Atom.sat, hM.prune]
  | nre k r => simp [matchTF, Atom.sat, hM.prune]

/-! ### show-series path -/

theorem mem_showExpr {M : Matchers Re} {l : List (SKey × Id)} (hl : Good l) {mst : Str} (p : Pred Re)
    (hp : p.KeysOk) {i : Id} :
    i ∈ showExpr M (Gen l) mst p ↔ Sem l mst [] (fun key => p.dsat M key = true) i := by
  induction p with
  | atom a => exact mem_leafEval hl a hp
  | and a b iha ihb =>
    simp only [showExpr, mem_inter, iha hp.1, ihb hp.2, Sem.and hl, Pred.dsat, Bool.and_eq_true]
  | or a b iha ihb =>
    simp only [showExpr, mem_union, iha hp.1, ihb hp.2, Sem.or, Pred.dsat, Bool.or_eq_true]
  | paren a ih => simpa only [showExpr, Pred.dsat] using ih hp

theorem containsMeasurement_iff {l : List (SKey × Id)} {mst : Str} :
    containsMeasurement (Gen l) mst = true ↔ ∃ p ∈ l, p.1.mst = mst := by
  unfold containsMeasurement
  simp only [List.any_eq_true]
  constructor
  · rintro ⟨it, hit, h⟩
    cases it with
    | k2i _ _ => simp at h
    | i2k _ _ => simp at h
    | t2i m k v j =>
      simp only [beq_iff_eq] at h
      subst h
      obtain ⟨key, h1, h2, _⟩ := mem_Gen_t2i.mp hit
      exact ⟨(key, j), h1, h2⟩
  · rintro ⟨⟨key, j⟩, h1, h2⟩
    exact ⟨.t2i mst "" "" j, mem_Gen_t2i.mpr ⟨key, h1, h2, Or.inr ⟨rfl, rfl⟩⟩, by simp⟩

/-- what a predicate (or none) means on a series key, derived semantics -/
def optDsat (M : Matchers Re) (p : Option (Pred Re)) (key : SKey) : Prop :=
  match p with
  | none => True
  | some q => q.dsat M key = true

def optKeysOk (p : Option (Pred Re)) : Prop :=
  match p with
  | none => True
  | some q => q.KeysOk

theorem Sem.weaken_del {l : List (SKey × Id)} {mst : Str} {del : List Id} {φ : SKey → Prop} {i : Id} :
    (Sem l mst [] φ i ∧ i ∉ del) ↔ Sem l mst del φ i := by
  constructor
  · rintro ⟨⟨k, h1, h2, _, h4⟩, hd⟩; exact ⟨k, h1, h2, hd, h4⟩
  · rintro ⟨k, h1, h2, h3, h4⟩; exact ⟨⟨k, h1, h2, by simp, h4⟩, h3⟩

theorem mem_searchShow {M : Matchers Re} {s : St} {cv : List (SKey × Id)} (hl : Good cv) (hvis : s.vis = Gen cv)
    {mst : Str} (p : Option (Pred Re)) (hp : optKeysOk p) {i : Id} :
    i ∈ searchShow M s mst p ↔ Sem cv mst s.deleted (optDsat M p) i := by
  unfold searchShow
  rw [hvis]
  by_cases hc : containsMeasurement (Gen cv) mst = true
  · simp only [hc, if_true]
    rw [mem_diff]
    cases p with
    | none =>
      rw [mem_allIds, Sem.weaken_del]
      exact Sem.congr hl (fun _ _ => Iff.rfl)
    | some q =>
      rw [mem_showExpr hl q hp, Sem.weaken_del]
      exact Sem.congr hl (fun _ _ => Iff.rfl)
  · simp only [hc, Bool.false_eq_true, if_false, List.not_mem_nil, false_iff]
    rintro ⟨k, h1, h2, _⟩
    exact hc (containsMeasurement_iff.mpr ⟨(k, i), h1, h2⟩)

/-! ### select path -/

/-- every usable entry of the tag-filter cache is the scan result of the atoms it stands for -/
def CacheOk (M : Matchers Re) (l : List (SKey × Id)) (del : List Id) (c : Caches) : Prop :=
  ∀ e ∈ c.filter, e.2 ≠ [] → ∀ (a : Atom Re) (mst : Str), a.key ≠ "" → a.fkey M mst = e.1 →
    ∀ i, i ∈ e.2 ↔ Sem l mst del (fun key => a.dsat M key = true) i

theorem CacheOk.nil {M : Matchers Re} {l : List (SKey × Id)} {del : List Id} {c : Caches} (h : c.filter = []) :
    CacheOk M l del c := by
  intro e he; rw [h] at he; simp at he

theorem fkey_sound {M : Matchers Re} (hK : KeySound M) {a b : Atom Re} {m m' : Str}
    (h : a.fkey M m = b.fkey M m') : m = m' ∧ ∀ key, a.dsat M key = b.dsat M key := by
  cases a <;> cases b <;> simp only [Atom.fkey, FKey.mk.injEq] at h
  case eq.eq => obtain ⟨rfl, _, _, rfl, rfl⟩ := h; exact ⟨rfl, fun _ => rfl⟩
  case ne.ne => obtain ⟨rfl, _, _, rfl, rfl⟩ := h; exact ⟨rfl, fun _ => rfl⟩
  case re.re k r k' r' =>
    obtain ⟨rfl, h1, _, rfl, h2⟩ := h
    have := hK.same r r' (Prod.ext h1 h2)
    refine ⟨rfl, fun key => ?_⟩
    simp only [Atom.dsat, this.1]
    cases key.tag? k <;> simp [this.2]
  case nre.nre k r k' r' =>
    obtain ⟨rfl, h1, _, rfl, h2⟩ := h
    have := hK.same r r' (Prod.ext h1 h2)
    refine ⟨rfl, fun key => ?_⟩
    simp only [Atom.dsat, this.1]
    cases key.tag? k <;> simp [this.2]
  case eq.re => exact absurd h.2.1.symm (hK.kind _)
  case eq.nre => exact absurd h.2.1.symm (hK.kind _)
  case ne.re => exact absurd h.2.1.symm (hK.kind _)
  case ne.nre => exact absurd h.2.1.symm (hK.kind _)
  case re.eq => exact absurd h.2.1 (hK.kind _)
  case re.ne => exact absurd h.2.1 (hK.kind _)
  case nre.eq => exact absurd h.2.1 (hK.kind _)
  case nre.ne => exact absurd h.2.1 (hK.kind _)
  all_goals simp at h

theorem filterGet_some {c : Caches} {k : FKey} {ids : List Id} (h : filterGet c k = some ids) :
    ∃ e ∈ c.filter, e.1 = k ∧ e.2 = ids ∧ ids ≠ [] := by
  unfold filterGet at h
  cases hf : c.filter.find? (fun e => decide (e.1 = k)) with
  | none => rw [hf] at h; simp at h
  | some e =>
    rw [hf] at h
    simp only at h
    have h1 := List.find?_some hf
    have h2 := List.mem_of_find?_eq_some hf
    simp only [decide_eq_true_eq] at h1
    by_cases he : e.2.isEmpty = true
    · simp [he] at h
    · simp only [he, Bool.false_eq_true, if_false, Option.some.injEq] at h
      refine ⟨e, h2, h1, h, ?_⟩
      rw [← h]
      intro h0; rw [h0] at he; simp at he

theorem CacheOk.cons {M : Matchers Re} (hK : KeySound M) {l : List (SKey × Id)} (hl : Good l) {del : List Id}
    {c : Caches} (hc : CacheOk M l del c) (a : Atom Re) (ha : a.key ≠ "") (mst : Str) :
    CacheOk M l del { c with filter := (a.fkey M mst, (leafEval M (Gen l) del mst a).1) :: c.filter } := by
  intro e he hne b m hb hfk i
  simp only [List.mem_cons] at he
  rcases he with rfl | he
  · simp only at hfk
    obtain ⟨rfl, hd⟩ := fkey_sound hK hfk
    simp only
    rw [mem_leafEval hl a ha]
    apply Sem.congr hl
    intro key _
    rw [hd key]
  · exact hc e he hne b m hb hfk i

theorem selLeaf_spec {M : Matchers Re} (hK : KeySound M) {l : List (SKey × Id)} (hl : Good l) {del : List Id}
    {mst : Str} {c : Caches} (hc : CacheOk M l del c) (a : Atom Re) (ha : a.key ≠ "") :
    CacheOk M l del (selLeaf M (Gen l) del mst c a).2 ∧
      ∀ i, i ∈ (selLeaf M (Gen l) del mst c a).1 ↔ Sem l mst del (fun key => a.dsat M key = true) i := by
  unfold selLeaf
  cases hg : filterGet c (a.fkey M mst) with
  | some ids =>
    simp only [hg]
    obtain ⟨e, he, h1, h2, h3⟩ := filterGet_some hg
    refine ⟨hc, fun i => ?_⟩
    have := hc e he (by rw [h2]; exact h3) a mst ha h1.symm i
    rw [h2] at this
    exact this
  | none =>
    simp only [hg]
    exact ⟨hc.cons hK hl a ha mst, fun i => mem_leafEval hl a ha⟩

theorem searchWithCache_spec {M : Matchers Re} (hK : KeySound M) {l : List (SKey × Id)} (hl : Good l) {del : List Id}
    {mst : Str} {c : Caches} (hc : CacheOk M l del c) (a : Atom Re) (ha : a.key ≠ "") :
    CacheOk M l del (searchWithCache M (Gen l) del mst c a).2.2 ∧
      ∀ i, i ∈ (searchWithCache M (Gen l) del mst c a).1 ↔ Sem l mst del (fun key => a.dsat M key = true) i := by
  unfold searchWithCache
  cases hg : filterGet c (a.fkey M mst) with
  | some ids =>
    simp only [hg]
    obtain ⟨e, he, h1, h2, h3⟩ := filterGet_some hg
    refine ⟨hc, fun i => ?_⟩
    have := hc e he (by rw [h2]; exact h3) a mst ha h1.symm i
    rw [h2] at this
    exact this
  | none =>
    simp only [hg]
    refine ⟨?_, fun i => mem_leafEval hl a ha⟩
    split
    · exact hc
    · exact hc.cons hK hl a ha mst

theorem CacheOk.costPut {M : Matchers Re} {l : List (SKey × Id)} {del : List Id} {c : Caches}
    (hc : CacheOk M l del c) (k : FKey) (v : Int) : CacheOk M l del (costPut c k v) := hc

/-! the prune step -/

theorem keyOfId_mem {items : List Item} {i : Id} {k : SKey} (h : keyOfId items i = some k) :
    Item.i2k i k ∈ items := by
  unfold keyOfId at h
  induction items with
  | nil => simp at h
  | cons it t ih =>
    simp only [List.findSome?_cons] at h
    cases it with
    | k2i a b => simp only at h; exact List.mem_cons_of_mem _ (ih h)
    | t2i a b c d => simp only at h; exact List.mem_cons_of_mem _ (ih h)
    | i2k j kk =>
      simp only at h
      by_cases hj : j = i
      · simp only [hj, if_true, Option.some.injEq] at h
        subst h; subst hj
        exact List.mem_cons_self ..
      · simp only [hj, if_false] at h
        exact List.mem_cons_of_mem _ (ih h)

theorem keyOfId_isSome {items : List Item} {i : Id} {k : SKey} (h : Item.i2k i k ∈ items) :
    ∃ k', keyOfId items i = some k' := by
  unfold keyOfId
  induction items with
  | nil => simp at h
  | cons it t ih =>
    simp only [List.findSome?_cons]
    cases it with
    | k2i a b =>
      simp only
      exact ih (by simpa using h)
    | t2i a b c d =>
      simp only
      exact ih (by simpa using h)
    | i2k j kk =>
      simp only
      by_cases hj : j = i
      · simp [hj]
      · simp only [hj, if_false]
        apply ih
        simp only [List.mem_cons, Item.i2k.injEq] at h
        rcases h with ⟨h1, _⟩ | h
        · exact absurd h1.symm hj
        · exact h

theorem keyOfId_eq {l : List (SKey × Id)} (hl : Good l) {k : SKey} {i : Id} (h : (k, i) ∈ l) :
    keyOfId (Gen l) i = some k := by
  obtain ⟨k', hk'⟩ := keyOfId_isSome (mem_Gen_i2k.mpr h)
  have := mem_Gen_i2k.mp (keyOfId_mem hk')
  rw [hk', hl.key_eq this h]

theorem prune_spec {M : Matchers Re} {l : List (SKey × Id)} (hl : Good l) (tfs : List (Atom Re)) (set : List Id)
    (hset : ∀ i ∈ set, ∃ k, (k, i) ∈ l) :
    ∃ r, prune M (Gen l) set tfs = some r ∧
      ∀ i, i ∈ r ↔ i ∈ set ∧ ∀ k, (k, i) ∈ l → tfs.all (matchTF M k) = true := by
  induction set with
  | nil => exact ⟨[], rfl, by simp⟩
  | cons x t ih =>
    obtain ⟨r, hr, hmem⟩ := ih (fun i hi => hset i (List.mem_cons_of_mem _ hi))
    obtain ⟨k, hk⟩ := hset x (List.mem_cons_self ..)
    have hkey := keyOfId_eq hl hk
    unfold prune at hr ⊢
    simp only [List.foldr_cons, hr, hkey]
    by_cases hall : tfs.all (matchTF M k) = true
    · simp only [hall, if_true]
      refine ⟨x :: r, rfl, fun i => ?_⟩
      simp only [List.mem_cons, hmem]
      constructor
      · rintro (rfl | ⟨h1, h2⟩)
        · refine ⟨Or.inl rfl, fun k' hk' => ?_⟩
          rw [hl.key_eq hk' hk]; exact hall
        · exact ⟨Or.inr h1, h2⟩
      · rintro ⟨rfl | h1, h2⟩
        · exact Or.inl rfl
        · exact Or.inr ⟨h1, h2⟩
    · simp only [hall, Bool.false_eq_true, if_false]
      refine ⟨r, rfl, fun i => ?_⟩
      simp only [List.mem_cons, hmem]
      constructor
      · rintro ⟨h1, h2⟩; exact ⟨Or.inr h1, h2⟩
      · rintro ⟨rfl | h1, h2⟩
        · exact absurd (h2 k hk) hall
        · exact ⟨h1, h2⟩

/-- meaning of a list of atoms on a key (conjunction), specification semantics -/
def allSat (M : Matchers Re) (atoms : List (Atom Re)) (key : SKey) : Prop := ∀ a ∈ atoms, a.sat M key = true

theorem step3_spec {M : Matchers Re} (hM : MatcherFaithful M) (hK : KeySound M) {l : List (SKey × Id)} (hl : Good l)
    {del : List Id} {mst : Str} (rest : List (Atom Re × Int)) :
    ∀ (set : List Id) (c : Caches) (φ : SKey → Prop), CacheOk M l del c →
      (∀ a ∈ rest, a.1.key ≠ "") →
      (∀ i, i ∈ set ↔ Sem l mst del φ i) →
      CacheOk M l del (step3 M (Gen l) del mst set rest c).2 ∧
      ∃ ids, (step3 M (Gen l) del mst set rest c).1 = some ids ∧
        ∀ i, i ∈ ids ↔ Sem l mst del (fun key => φ key ∧ allSat M (rest.map (·.1)) key) i := by
  induction rest with
  | nil =>
    intro set c φ hc _ hset
    refine ⟨hc, set, rfl, fun i => ?_⟩
    rw [hset i]
    apply Sem.congr hl
    intro k _
    simp [allSat]
  | cons ac rest ih =>
    obtain ⟨a, cost⟩ := ac
    intro set c φ hc hkeys hset
    have ha : a.key ≠ "" := hkeys (a, cost) (List.mem_cons_self ..)
    have hkeys' : ∀ a ∈ rest, a.1.key ≠ "" := fun x hx => hkeys x (List.mem_cons_of_mem _ hx)
    unfold step3
    split
    · -- prune
      have hex : ∀ i ∈ set, ∃ k, (k, i) ∈ l := by
        intro i hi
        obtain ⟨k, h1, _⟩ := (hset i).mp hi
        exact ⟨k, h1⟩
      obtain ⟨r, hr, hmem⟩ := prune_spec (M := M) hl (a :: rest.map (·.1)) set hex
      refine ⟨hc, r, hr, fun i => ?_⟩
      rw [hmem i, hset i]
      constructor
      · rintro ⟨⟨k, h1, h2, h3, h4⟩, hall⟩
        refine ⟨k, h1, h2, h3, h4, ?_⟩
        have := hall k h1
        rw [List.all_eq_true] at this
        intro b hb
        simp only [List.map_cons] at hb
        rw [← matchTF_eq_sat hM]
        exact this b hb
      · rintro ⟨k, h1, h2, h3, h4, h5⟩
        refine ⟨⟨k, h1, h2, h3, h4⟩, fun k' hk' => ?_⟩
        rw [hl.key_eq hk' h1, List.all_eq_true]
        intro b hb
        rw [matchTF_eq_sat hM]
        exact h5 b (by simpa using hb)
    · -- index scan of the next filter
      obtain ⟨hc1, hthis⟩ := searchWithCache_spec (mst := mst) hK hl hc a ha
      simp only
      have hc2 := hc1.costPut (a.fkey M mst) (searchWithCache M (Gen l) del mst c a).2.1
      have hset' : ∀ i, i ∈ inter set (searchWithCache M (Gen l) del mst c a).1 ↔
          Sem l mst del (fun key => φ key ∧ a.sat M key = true) i := by
        intro i
        rw [mem_inter, hset i, hthis i, Sem.and hl]
        apply Sem.congr hl
        intro k hk
        rw [a.dsat_eq_sat hM hk]
      split
      · rename_i hemp
        refine ⟨hc2, _, rfl, fun i => ?_⟩
        have hnone := isEmpty_iff_forall_not_mem.mp hemp
        constructor
        · intro hi; exact absurd hi (hnone i)
        · rintro ⟨k, h1, h2, h3, h4, h5⟩
          exact absurd ((hset' i).mpr ⟨k, h1, h2, h3, h4, h5 a (by simp)⟩) (hnone i)
      · obtain ⟨hc3, ids, hids, hmem⟩ := ih _ _ _ hc2 hkeys' hset'
        refine ⟨hc3, ids, hids, fun i => ?_⟩
        rw [hmem i]
        apply Sem.congr hl
        intro k _
        simp only [allSat, List.map_cons, List.mem_cons]
        constructor
        · rintro ⟨⟨h1, h2⟩, h3⟩
          exact ⟨h1, fun b hb => by rcases hb with rfl | hb; exact h2; exact h3 b hb⟩
        · rintro ⟨h1, h2⟩
          exact ⟨⟨h1, h2 a (Or.inl rfl)⟩, fun b hb => h2 b (Or.inr hb)⟩

theorem fastAnd_spec {M : Matchers Re} (hM : MatcherFaithful M) (hK : KeySound M) {l : List (SKey × Id)} (hl : Good l)
    {del : List Id} {mst : Str} {c : Caches} (hc : CacheOk M l del c) (atoms : List (Atom Re))
    (hne : atoms ≠ []) (hkeys : ∀ a ∈ atoms, a.key ≠ "") :
    CacheOk M l del (fastAnd M (Gen l) del mst c atoms).2 ∧
    ∃ ids, (fastAnd M (Gen l) del mst c atoms).1 = some ids ∧
      ∀ i, i ∈ ids ↔ Sem l mst del (allSat M atoms) i := by
  unfold fastAnd
  simp only
  have hperm : ∀ x, x ∈ isort (tfLess M) (atoms.map (fun a => (a, costGet c (a.fkey M mst)))) ↔
      x ∈ atoms.map (fun a => (a, costGet c (a.fkey M mst))) := fun x => mem_isort _ _ x
  cases hs : isort (tfLess M) (atoms.map (fun a => (a, costGet c (a.fkey M mst)))) with
  | nil =>
    exfalso
    cases atoms with
    | nil => exact hne rfl
    | cons a t =>
      have := (hperm (a, costGet c (a.fkey M mst))).mpr (by simp)
      rw [hs] at this
      simp at this
  | cons ac rest =>
    obtain ⟨a, cost⟩ := ac
    simp only
    have hmemA : ∀ b, b ∈ atoms ↔ b = a ∨ b ∈ rest.map (·.1) := by
      intro b
      constructor
      · intro hb
        have := (hperm (b, costGet c (b.fkey M mst))).mpr (List.mem_map.mpr ⟨b, hb, rfl⟩)
        rw [hs] at this
        rcases List.mem_cons.mp this with h | h
        · exact Or.inl (Prod.mk.inj h).1
        · exact Or.inr (List.mem_map.mpr ⟨_, h, rfl⟩)
      · rintro (rfl | hb)
        · have := (hperm (b, cost)).mp (by rw [hs]; exact List.mem_cons_self ..)
          obtain ⟨x, hx, hx2⟩ := List.mem_map.mp this
          rw [← (Prod.mk.inj hx2).1]; exact hx
        · obtain ⟨x, hx, rfl⟩ := List.mem_map.mp hb
          have := (hperm x).mp (by rw [hs]; exact List.mem_cons_of_mem _ hx)
          obtain ⟨y, hy, hy2⟩ := List.mem_map.mp this
          rw [← hy2]; exact hy
    have ha : a.key ≠ "" := hkeys a ((hmemA a).mpr (Or.inl rfl))
    have hrest : ∀ x ∈ rest, x.1.key ≠ "" := fun x hx =>
      hkeys x.1 ((hmemA x.1).mpr (Or.inr (List.mem_map.mpr ⟨x, hx, rfl⟩)))
    obtain ⟨hc1, hthis⟩ := searchWithCache_spec (mst := mst) hK hl hc a ha
    have hc2 := hc1.costPut (a.fkey M mst) (searchWithCache M (Gen l) del mst c a).2.1
    have hthis' : ∀ i, i ∈ (searchWithCache M (Gen l) del mst c a).1 ↔
        Sem l mst del (fun key => a.sat M key = true) i := by
      intro i
      rw [hthis i]
      apply Sem.congr hl
      intro k hk
      rw [a.dsat_eq_sat hM hk]
    split
    · rename_i hemp
      refine ⟨hc2, [], rfl, fun i => ?_⟩
      have hnone := isEmpty_iff_forall_not_mem.mp hemp
      simp only [List.not_mem_nil, false_iff]
      rintro ⟨k, h1, h2, h3, h4⟩
      exact hnone i ((hthis' i).mpr ⟨k, h1, h2, h3, h4 a ((hmemA a).mpr (Or.inl rfl))⟩)
    · obtain ⟨hc3, ids, hids, hmem⟩ := step3_spec hM hK hl rest _ _ _ hc2 hrest hthis'
      refine ⟨hc3, ids, hids, fun i => ?_⟩
      rw [hmem i]
      apply Sem.congr hl
      intro k _
      simp only [allSat]
      constructor
      · rintro ⟨h1, h2⟩ b hb
        rcases (hmemA b).mp hb with rfl | hb
        · exact h1
        · exact h2 b hb
      · intro h
        exact ⟨h a ((hmemA a).mpr (Or.inl rfl)), fun b hb => h b ((hmemA b).mpr (Or.inr hb))⟩

theorem andLeaves_spec {M : Matchers Re} (p : Pred Re) :
    ∀ atoms, andLeaves p = some atoms →
      atoms ≠ [] ∧ (p.KeysOk → ∀ a ∈ atoms, a.key ≠ "") ∧
      ∀ key, (p.sat M key = true ↔ allSat M atoms key) := by
  induction p with
  | atom a =>
    intro atoms h
    simp only [andLeaves, Option.some.injEq] at h
    subst h
    refine ⟨by simp, fun hk b hb => by simp only [List.mem_singleton] at hb; subst hb; exact hk, fun key => ?_⟩
    simp [allSat, Pred.sat]
  | and a b iha ihb =>
    intro atoms h
    simp only [andLeaves] at h
    cases ha : andLeaves a with
    | none => rw [ha] at h; simp at h
    | some x =>
      cases hb : andLeaves b with
      | none => rw [ha, hb] at h; simp at h
      | some y =>
        rw [ha, hb] at h
        simp only [Option.some.injEq] at h
        subst h
        obtain ⟨h1, h2, h3⟩ := iha x ha
        obtain ⟨_, h2', h3'⟩ := ihb y hb
        refine ⟨by simp [h1], fun hk c hc => ?_, fun key => ?_⟩
        · rcases List.mem_append.mp hc with hc | hc
          · exact h2 hk.1 c hc
          · exact h2' hk.2 c hc
        · simp only [Pred.sat, Bool.and_eq_true, h3 key, h3' key, allSat, List.mem_append]
          constructor
          · rintro ⟨p1, p2⟩ c (hc | hc)
            · exact p1 c hc
            · exact p2 c hc
          · intro hh
            exact ⟨fun c hc => hh c (Or.inl hc), fun c hc => hh c (Or.inr hc)⟩
  | or a b _ _ => intro atoms h; simp [andLeaves] at h
  | paren a ih =>
    intro atoms h
    simp only [andLeaves] at h
    obtain ⟨h1, h2, h3⟩ := ih atoms h
    exact ⟨h1, fun hk => h2 hk, fun key => by simpa [Pred.sat] using h3 key⟩

/-- **select path**: result = brute force, cache stays coherent. -/
theorem selExpr_spec {M : Matchers Re} (hM : MatcherFaithful M) (hK : KeySound M) {l : List (SKey × Id)} (hl : Good l)
    {del : List Id} {mst : Str} (p : Pred Re) :
    ∀ (c : Caches), CacheOk M l del c → p.KeysOk →
      CacheOk M l del (selExpr M (Gen l) del mst p c).2 ∧
      ∃ ids, (selExpr M (Gen l) del mst p c).1 = some ids ∧
        ∀ i, i ∈ ids ↔ Sem l mst del (fun key => p.sat M key = true) i := by
  induction p with
  | atom a =>
    intro c hc hk
    obtain ⟨h1, h2⟩ := selLeaf_spec (mst := mst) hK hl hc a hk
    refine ⟨h1, (selLeaf M (Gen l) del mst c a).1, rfl, fun i => ?_⟩
    rw [h2 i]
    apply Sem.congr hl
    intro k hkw
    simp only [Pred.sat]
    rw [a.dsat_eq_sat hM hkw]
  | paren a ih =>
    intro c hc hk
    simpa only [selExpr, Pred.sat] using ih c hc hk
  | or a b iha ihb =>
    intro c hc hk
    obtain ⟨hc1, la, hla, hma⟩ := iha c hc hk.1
    obtain ⟨hc2, lb, hlb, hmb⟩ := ihb _ hc1 hk.2
    simp only [selExpr]
    refine ⟨hc2, union la lb, by rw [hla, hlb]; rfl, fun i => ?_⟩
    rw [mem_union, hma i, hmb i, Sem.or]
    apply Sem.congr hl
    intro k _
    simp [Pred.sat]
  | and a b iha ihb =>
    intro c hc hk
    simp only [selExpr]
    cases hal : andLeaves (Pred.and a b) with
    | some atoms =>
      simp only
      obtain ⟨h1, h2, h3⟩ := andLeaves_spec (M := M) _ atoms hal
      obtain ⟨hc1, ids, hids, hmem⟩ := fastAnd_spec (mst := mst) hM hK hl hc atoms h1 (h2 hk)
      refine ⟨hc1, ids, hids, fun i => ?_⟩
      rw [hmem i]
      apply Sem.congr hl
      intro k _
      exact (h3 k).symm
    | none =>
      simp only
      obtain ⟨hc1, la, hla, hma⟩ := iha c hc hk.1
      obtain ⟨hc2, lb, hlb, hmb⟩ := ihb _ hc1 hk.2
      refine ⟨hc2, inter la lb, by rw [hla, hlb]; rfl, fun i => ?_⟩
      rw [mem_inter, hma i, hmb i, Sem.and hl]
      apply Sem.congr hl
      intro k _
      simp [Pred.sat]

end OG.C10
