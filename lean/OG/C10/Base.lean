/-
C10 — base types of the series-index model (`engine/index/tsi`).

Strings are opaque to the model: only equality and (for sorted listings) order are used, so the
driver can feed hex-encoded bytes (byte-lexicographic order = order of the hex text).
-/
namespace OG.C10

abbrev Id := Nat
abbrev Str := String

/-- A series key: measurement (with version suffix) and its tags, sorted by tag key, no empty
keys or values (the line-protocol parser drops those before the index sees the row). -/
structure SKey where
  mst : Str
  tags : List (Str × Str)
deriving DecidableEq, Repr

/-- value of a tag key, `none` when the series does not carry it. -/
def SKey.tag? (s : SKey) (k : Str) : Option Str :=
  match s.tags.find? (fun t => t.1 == k) with
  | some t => some t.2
  | none => none

/-- "an absent tag behaves as the empty string" -/
def SKey.tagOrEmpty (s : SKey) (k : Str) : Str :=
  match s.tag? k with
  | some v => v
  | none => ""

/-- The items `MergeSetIndex.decode` writes, one constructor per namespace
(`nsPrefixKeyToTSID`, `nsPrefixTSIDToKey`, `nsPrefixTagToTSIDs`). The row with empty tag key and
value is the per-measurement marker row (`marshalCompositeTagKey(name, nil)`, `nil`). -/
inductive Item where
  | k2i (key : SKey) (id : Id)
  | i2k (id : Id) (key : SKey)
  | t2i (mst tagk tagv : Str) (id : Id)
deriving DecidableEq, Repr

/-- Abstract regular expressions: what the index code derives from a regex literal.
* `matches`     — the specification: InfluxQL's unanchored matching (Go `regexp.MatchString`);
* `matchEmpty`  — `value.Val.MatchString("")`, which the search code turns into `isAllMatch`;
* `tfMatch`     — the matcher `tagFilter.Init` derives for an index scan over present tag values
                  (item prefix, or-suffixes, `reSuffixMatch`);
* `pruneMatch`  — the matcher of the prune step (`matchSeriesKeyTagFilter`);
* `ckey`        — what `tagFilter.Marshal` puts into the cache keys for the value:
                  (2 for a literal regexp else 1, `tf.value` after Init);
* `emptyText`   — the regex text is empty (`tf.isEmptyValue`). -/
structure Matchers (Re : Type) where
  «matches» : Re → Str → Bool
  matchEmpty : Re → Bool
  tfMatch : Re → Str → Bool
  pruneMatch : Re → Str → Bool
  ckey : Re → Nat × Str
  emptyText : Re → Bool

/-- predicate atoms over tag keys -/
inductive Atom (Re : Type) where
  | eq (k v : Str)
  | ne (k v : Str)
  | re (k : Str) (r : Re)
  | nre (k : Str) (r : Re)
deriving Repr

/-- predicate trees (`influxql.BinaryExpr` with AND / OR, `influxql.ParenExpr`) -/
inductive Pred (Re : Type) where
  | atom (a : Atom Re)
  | and (a b : Pred Re)
  | or (a b : Pred Re)
  | paren (a : Pred Re)
deriving Repr

variable {Re : Type}

def Atom.key : Atom Re → Str
  | .eq k _ | .ne k _ | .re k _ | .nre k _ => k

/-- the property's reading of an atom on one series -/
def Atom.sat (M : Matchers Re) (s : SKey) : Atom Re → Bool
  | .eq k v => s.tagOrEmpty k == v
  | .ne k v => s.tagOrEmpty k != v
  | .re k r => M.matches r (s.tagOrEmpty k)
  | .nre k r => !M.matches r (s.tagOrEmpty k)

def Pred.sat (M : Matchers Re) (s : SKey) : Pred Re → Bool
  | .atom a => a.sat M s
  | .and a b => a.sat M s && b.sat M s
  | .or a b => a.sat M s || b.sat M s
  | .paren a => a.sat M s

/-! id sets as duplicate-free lists -/

def addId (x : Id) (l : List Id) : List Id := if x ∈ l then l else x :: l
def idSet (l : List Id) : List Id := l.foldr addId []
def inter (a b : List Id) : List Id := a.filter (fun x => decide (x ∈ b))
def diff (a b : List Id) : List Id := a.filter (fun x => !decide (x ∈ b))
def union (a b : List Id) : List Id := a ++ b.filter (fun x => !decide (x ∈ a))

end OG.C10
