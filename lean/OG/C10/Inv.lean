/-
C10 — the state invariant of the index model and its preservation by every operation.
`cv` / `cp` are the created (key, id) pairs whose items are visible / still pending.
-/
import OG.C10.Select

namespace OG.C10

variable {Re : Type}

/-! small facts about the helpers of `getSeriesId` -/

theorem mem_idsOfKey {l : List (SKey × Id)} {key : SKey} {i : Id} :
    i ∈ idsOfKey (Gen l) key ↔ (key, i) ∈ l := by
  unfold idsOfKey
  simp only [List.mem_filterMap]
  constructor
  · rintro ⟨it, hit, hf⟩
    cases it with
    | i2k _ _ => simp at hf
    | t2i _ _ _ _ => simp at hf
    | k2i k j =>
      simp only at hf
      by_cases hk : k = key
      · simp only [hk, if_true, Option.some.injEq] at hf
        subst hf; subst hk
        exact mem_Gen_k2i.mp hit
      · simp [hk] at hf
  · intro h
    exact ⟨.k2i key i, mem_Gen_k2i.mpr h, by simp⟩

theorem minId_mem {l : List Id} {m : Id} (h : minId l = some m) : m ∈ l := by
  induction l generalizing m with
  | nil => simp [minId] at h
  | cons x t ih =>
    simp only [minId] at h
    cases ht : minId t with
    | none => rw [ht] at h; simp only [Option.some.injEq] at h; subst h; exact List.mem_cons_self ..
    | some m' =>
      rw [ht] at h
      simp only [Option.some.injEq] at h
      have := ih ht
      rcases Nat.le_total x m' with hle | hle
      · rw [Nat.min_eq_left hle] at h; subst h; exact List.mem_cons_self ..
      · rw [Nat.min_eq_right hle] at h; subst h; exact List.mem_cons_of_mem _ this

theorem minId_none {l : List Id} (h : minId l = none) : l = [] := by
  cases l with
  | nil => rfl
  | cons x t =>
    simp only [minId] at h
    cases ht : minId t <;> rw [ht] at h <;> simp at h

theorem maxId_mem {l : List Id} {m : Id} (h : maxId l = some m) : m ∈ l := by
  induction l generalizing m with
  | nil => simp [maxId] at h
  | cons x t ih =>
    simp only [maxId] at h
    cases ht : maxId t with
    | none => rw [ht] at h; simp only [Option.some.injEq] at h; subst h; exact List.mem_cons_self ..
    | some m' =>
      rw [ht] at h
      simp only [Option.some.injEq] at h
      have := ih ht
      rcases Nat.le_total x m' with hle | hle
      · rw [Nat.max_eq_right hle] at h; subst h; exact List.mem_cons_of_mem _ this
      · rw [Nat.max_eq_left hle] at h; subst h; exact List.mem_cons_self ..

theorem cacheGet_mem {c : List (SKey × Id)} {key : SKey} {i : Id} (h : cacheGet c key = some i) :
    (key, i) ∈ c := by
  unfold cacheGet at h
  cases hf : c.find? (fun e => decide (e.1 = key)) with
  | none => rw [hf] at h; simp at h
  | some e =>
    rw [hf] at h
    simp only [Option.some.injEq] at h
    have h1 := List.find?_some hf
    have h2 := List.mem_of_find?_eq_some hf
    simp only [decide_eq_true_eq] at h1
    obtain ⟨a, b⟩ := e
    simp only at h1 h
    subst h1; subst h
    exact h2

theorem cacheGet_cons_self (c : List (SKey × Id)) (key : SKey) (i : Id) :
    cacheGet ((key, i) :: c) key = some i := by
  simp [cacheGet]

theorem cacheGet_cons_ne (c : List (SKey × Id)) {key k' : SKey} (i : Id) (h : k' ≠ key) :
    cacheGet ((k', i) :: c) key = cacheGet c key := by
  simp [cacheGet, h]

theorem mkId_div {c q : Nat} (hc : c < 2 ^ 24) (hq : q < 2 ^ 40) : mkId c q / 2 ^ 40 = c % 2 ^ 24 := by
  unfold mkId
  rw [Nat.mod_eq_of_lt hc, Nat.mod_eq_of_lt hq, Nat.add_comm, Nat.add_mul_div_right _ _ (by omega),
    Nat.div_eq_of_lt hq, Nat.zero_add]

theorem mkId_mod {c q : Nat} (hq : q < 2 ^ 40) : mkId c q % 2 ^ 40 = q := by
  unfold mkId
  rw [Nat.mod_eq_of_lt hq]
  omega

theorem mkId_ne_zero {c q : Nat} (hq : q < 2 ^ 40) (h0 : 0 < q) : mkId c q ≠ 0 := by
  intro h
  have := mkId_mod (c := c) hq
  rw [h] at this
  omega

/-- the invariant -/
structure Inv (s : St) (cv cp : List (SKey × Id)) : Prop where
  vis : s.vis = Gen cv
  pend : s.pend = Gen cp
  good : Good (cv ++ cp)
  clock : s.clock < 2 ^ 24
  seqb : s.seq < 2 ^ 40
  ids : ∀ p ∈ cv ++ cp, ∃ q, 0 < q ∧ q ≤ s.seq ∧ p.2 = mkId s.clock q
  live1 : ∀ p ∈ cv ++ cp, ∀ q ∈ cv ++ cp, p.1 = q.1 → p.2 ∉ s.deleted → q.2 ∉ s.deleted → p = q
  cacheSound : ∀ e ∈ s.tsid, e ∈ cv ++ cp
  pendCached : ∀ p ∈ cp, cacheGet s.tsid p.1 = some p.2 ∧ p.2 ∉ s.deleted
  delVis : ∀ i ∈ s.deleted, ∃ k, (k, i) ∈ cv
  disj : ∀ p ∈ cp, ∀ q ∈ cv, p.2 ≠ q.2

theorem Inv.id_ne_zero {s : St} {cv cp : List (SKey × Id)} (h : Inv s cv cp) {p : SKey × Id}
    (hp : p ∈ cv ++ cp) : p.2 ≠ 0 := by
  obtain ⟨q, h0, hq, he⟩ := h.ids p hp
  rw [he]
  exact mkId_ne_zero (by have := h.seqb; omega) h0

theorem Inv.goodVis {s : St} {cv cp : List (SKey × Id)} (h : Inv s cv cp) : Good cv :=
  ⟨fun p hp => h.good.wf p (List.mem_append_left _ hp),
   fun p hp q hq => h.good.uniq p (List.mem_append_left _ hp) q (List.mem_append_left _ hq)⟩

/-- what a lookup returns and does to the state -/
def LookupSpec (s : St) (cv cp : List (SKey × Id)) (key : SKey) (r : Id × St) : Prop :=
  Inv r.2 cv cp ∧ r.2.vis = s.vis ∧ r.2.pend = s.pend ∧ r.2.deleted = s.deleted ∧ r.2.caches = s.caches ∧
  r.2.seq = s.seq ∧ r.2.clock = s.clock ∧ r.2.now = s.now ∧
  (r.1 ≠ 0 → (key, r.1) ∈ cv ++ cp ∧ r.1 ∉ s.deleted) ∧
  (r.1 = 0 → ∀ j, (key, j) ∈ cv ++ cp → j ∈ s.deleted)

theorem Inv.cachePut {s : St} {cv cp : List (SKey × Id)} (h : Inv s cv cp) {key : SKey} {i : Id}
    (hmem : (key, i) ∈ cv ++ cp) (hnp : ∀ p ∈ cp, p.1 = key → p.2 = i) :
    Inv { s with tsid := (key, i) :: s.tsid } cv cp :=
  { h with
    cacheSound := by
      intro e he
      rcases List.mem_cons.mp he with rfl | he
      · exact hmem
      · exact h.cacheSound e he
    pendCached := by
      intro p hp
      obtain ⟨h1, h2⟩ := h.pendCached p hp
      refine ⟨?_, h2⟩
      show cacheGet ((key, i) :: s.tsid) p.1 = some p.2
      by_cases hk : key = p.1
      · rw [← hk, cacheGet_cons_self, hnp p hp hk.symm]
      · rw [cacheGet_cons_ne _ _ hk]; exact h1 }

theorem slowLookup_spec {s : St} {cv cp : List (SKey × Id)} (h : Inv s cv cp) (key : SKey)
    (hnp : ∀ j, (key, j) ∈ cp → False) : LookupSpec s cv cp key (slowLookup s key) := by
  have hnp' : ∀ i, ∀ p ∈ cp, p.1 = key → p.2 = i := by
    intro i p hp hk
    exfalso
    apply hnp p.2
    rw [← hk]; exact hp
  have hallDel : minId ((idsOfKey s.vis key).filter (fun i => !decide (i ∈ s.deleted))) = none →
      ∀ j, (key, j) ∈ cv ++ cp → j ∈ s.deleted := by
    intro hnone j hj
    rcases List.mem_append.mp hj with hj | hj
    · have hmem : j ∈ idsOfKey s.vis key := by rw [h.vis]; exact mem_idsOfKey.mpr hj
      have hf := minId_none hnone
      apply Classical.byContradiction
      intro hnd
      have : j ∈ (idsOfKey s.vis key).filter (fun i => !decide (i ∈ s.deleted)) := by
        simp [List.mem_filter, hmem, hnd]
      rw [hf] at this
      simp at this
    · exact absurd hj (hnp j)
  cases hmin : minId ((idsOfKey s.vis key).filter (fun i => !decide (i ∈ s.deleted))) with
  | some i =>
    have hi := minId_mem hmin
    simp only [List.mem_filter, Bool.not_eq_true', decide_eq_false_iff_not] at hi
    obtain ⟨hi1, hi2⟩ := hi
    rw [h.vis] at hi1
    have hcv : (key, i) ∈ cv ++ cp := List.mem_append_left _ (mem_idsOfKey.mp hi1)
    have hne : i ≠ 0 := h.id_ne_zero hcv
    have heq : slowLookup s key = (i, { s with tsid := (key, i) :: s.tsid }) := by
      simp [slowLookup, lookupIndex, hmin, hne, hi2]
    rw [heq]
    exact ⟨h.cachePut hcv (hnp' i), rfl, rfl, rfl, rfl, rfl, rfl, rfl, fun _ => ⟨hcv, hi2⟩, fun h0 => absurd h0 hne⟩
  | none =>
    have hdel := hallDel hmin
    cases hmax : maxId (idsOfKey s.vis key) with
    | none =>
      have heq : slowLookup s key = (0, s) := by
        simp [slowLookup, lookupIndex, hmin, hmax]
      rw [heq]
      exact ⟨h, rfl, rfl, rfl, rfl, rfl, rfl, rfl, fun h0 => absurd rfl h0, fun _ => hdel⟩
    | some i =>
      have hi1 := maxId_mem hmax
      rw [h.vis] at hi1
      have hcv : (key, i) ∈ cv ++ cp := List.mem_append_left _ (mem_idsOfKey.mp hi1)
      have hne : i ≠ 0 := h.id_ne_zero hcv
      have hd : i ∈ s.deleted := hdel i hcv
      have heq : slowLookup s key = (0, { s with tsid := (key, i) :: s.tsid }) := by
        simp [slowLookup, lookupIndex, hmin, hmax, hne, hd]
      rw [heq]
      exact ⟨h.cachePut hcv (hnp' i), rfl, rfl, rfl, rfl, rfl, rfl, rfl, fun h0 => absurd rfl h0, fun _ => hdel⟩

theorem getSeriesId_spec {s : St} {cv cp : List (SKey × Id)} (h : Inv s cv cp) (key : SKey) :
    LookupSpec s cv cp key (getSeriesId s key) := by
  unfold getSeriesId
  cases hc : cacheGet s.tsid key with
  | none =>
    simp only
    apply slowLookup_spec h
    intro j hj
    have := (h.pendCached _ hj).1
    simp only at this
    rw [hc] at this
    simp at this
  | some id =>
    simp only
    by_cases hd : id ∈ s.deleted
    · simp only [hd, not_true_eq_false, if_false]
      apply slowLookup_spec h
      intro j hj
      obtain ⟨h1, h2⟩ := h.pendCached _ hj
      simp only at h1 h2
      rw [hc] at h1
      simp only [Option.some.injEq] at h1
      subst h1
      exact h2 hd
    · simp only [hd, not_false_eq_true, if_true]
      have hmem := h.cacheSound _ (cacheGet_mem hc)
      exact ⟨h, rfl, rfl, rfl, rfl, rfl, rfl, rfl, fun _ => ⟨hmem, hd⟩, fun h0 => absurd h0 (h.id_ne_zero hmem)⟩

theorem Gen_singleton (key : SKey) (i : Id) : Gen [(key, i)] = decode key i := by
  simp [Gen]

/-- creating a series whose key has no live id -/
theorem Inv.insertNew {s : St} {cv cp : List (SKey × Id)} (h : Inv s cv cp) {key : SKey} (hk : key.WF)
    (hb : s.seq + 1 < 2 ^ 40) (hdead : ∀ j, (key, j) ∈ cv ++ cp → j ∈ s.deleted) :
    Inv { s with seq := s.seq + 1, pend := s.pend ++ decode key (mkId s.clock (s.seq + 1)),
                 tsid := (key, mkId s.clock (s.seq + 1)) :: s.tsid }
      cv (cp ++ [(key, mkId s.clock (s.seq + 1))]) := by
  have hfresh : ∀ p ∈ cv ++ cp, p.2 ≠ mkId s.clock (s.seq + 1) := by
    intro p hp he
    obtain ⟨q, _, hq, hpe⟩ := h.ids p hp
    rw [hpe] at he
    have h1 := mkId_mod (c := s.clock) (q := q) (by omega)
    have h2 := mkId_mod (c := s.clock) (q := s.seq + 1) hb
    rw [he, h2] at h1
    omega
  have hmem : ∀ p, p ∈ cv ++ (cp ++ [(key, mkId s.clock (s.seq + 1))]) ↔
      p ∈ cv ++ cp ∨ p = (key, mkId s.clock (s.seq + 1)) := by
    intro p; simp only [List.mem_append, List.mem_singleton]; constructor
    · rintro (h1 | h1 | h1)
      · exact Or.inl (Or.inl h1)
      · exact Or.inl (Or.inr h1)
      · exact Or.inr h1
    · rintro ((h1 | h1) | h1)
      · exact Or.inl h1
      · exact Or.inr (Or.inl h1)
      · exact Or.inr (Or.inr h1)
  have hnd : mkId s.clock (s.seq + 1) ∉ s.deleted := by
    intro hd
    obtain ⟨k, hk'⟩ := h.delVis _ hd
    exact hfresh (k, _) (List.mem_append_left _ hk') rfl
  refine
    { vis := h.vis
      pend := by
        show s.pend ++ decode key (mkId s.clock (s.seq + 1)) = Gen (cp ++ [(key, mkId s.clock (s.seq + 1))])
        rw [Gen_append, Gen_singleton, h.pend]
      good := ⟨?_, ?_⟩
      clock := h.clock
      seqb := hb
      ids := ?_
      live1 := ?_
      cacheSound := ?_
      pendCached := ?_
      delVis := h.delVis
      disj := ?_ }
  rotate_right
  · intro p hp q hq
    rcases List.mem_append.mp hp with hp | hp
    · exact h.disj p hp q hq
    · simp only [List.mem_singleton] at hp
      subst hp
      exact fun he => hfresh q (List.mem_append_left _ hq) he.symm
  · intro p hp
    rcases (hmem p).mp hp with hp | rfl
    · exact h.good.wf p hp
    · exact hk
  · intro p hp q hq he
    rcases (hmem p).mp hp with hp | rfl <;> rcases (hmem q).mp hq with hq | rfl
    · exact h.good.uniq p hp q hq he
    · exact absurd he (hfresh p hp)
    · exact absurd he.symm (hfresh q hq)
    · rfl
  · intro p hp
    rcases (hmem p).mp hp with hp | rfl
    · obtain ⟨q, h0, hq, he⟩ := h.ids p hp
      exact ⟨q, h0, by show q ≤ s.seq + 1; omega, he⟩
    · exact ⟨s.seq + 1, by omega, Nat.le_refl _, rfl⟩
  · intro p hp q hq he hp2 hq2
    rcases (hmem p).mp hp with hp | rfl <;> rcases (hmem q).mp hq with hq | rfl
    · exact h.live1 p hp q hq he hp2 hq2
    · exfalso; apply hp2; apply hdead p.2
      have : p = (key, p.2) := Prod.ext he rfl
      rw [← this]; exact hp
    · exfalso; apply hq2; apply hdead q.2
      have : q = (key, q.2) := Prod.ext he.symm rfl
      rw [← this]; exact hq
    · rfl
  · intro e he
    rcases List.mem_cons.mp he with rfl | he
    · exact (hmem _).mpr (Or.inr rfl)
    · exact (hmem _).mpr (Or.inl (h.cacheSound e he))
  · intro p hp
    rcases List.mem_append.mp hp with hp | hp
    · obtain ⟨h1, h2⟩ := h.pendCached p hp
      refine ⟨?_, h2⟩
      show cacheGet ((key, mkId s.clock (s.seq + 1)) :: s.tsid) p.1 = some p.2
      have : key ≠ p.1 := by
        intro hk'
        apply h2
        apply hdead p.2
        rw [hk']
        exact List.mem_append_right _ hp
      rw [cacheGet_cons_ne _ _ this]; exact h1
    · simp only [List.mem_singleton] at hp
      subst hp
      exact ⟨cacheGet_cons_self _ _ _, hnd⟩

/-- what an insert returns and does -/
def InsertSpec (s : St) (cv cp : List (SKey × Id)) (key : SKey) (r : Id × St) : Prop :=
  ∃ cp', Inv r.2 cv cp' ∧ (cp' = cp ∨ cp' = cp ++ [(key, r.1)]) ∧
    r.2.vis = s.vis ∧ r.2.deleted = s.deleted ∧ r.2.caches = s.caches ∧ r.2.clock = s.clock ∧ r.2.now = s.now ∧
    s.seq ≤ r.2.seq ∧
    (key, r.1) ∈ cv ++ cp' ∧ r.1 ∉ s.deleted ∧
    (∀ j, (key, j) ∈ cv ++ cp → j ∉ s.deleted → r.1 = j)

theorem insert_spec {s : St} {cv cp : List (SKey × Id)} (h : Inv s cv cp) {key : SKey} (hk : key.WF)
    (hb : s.seq + 1 < 2 ^ 40) : InsertSpec s cv cp key (insert s key) := by
  obtain ⟨h1, hvis, hpend, hdel, hcaches, hseq, hclock, hnow, hlive, hdead⟩ := getSeriesId_spec h key
  unfold insert
  cases hg : getSeriesId s key with
  | mk id s1 =>
    rw [hg] at h1 hvis hpend hdel hcaches hseq hclock hnow hlive hdead
    simp only at h1 hvis hpend hdel hcaches hseq hclock hnow hlive hdead
    simp only
    by_cases hid : id = 0
    · subst hid
      simp only [ne_eq, not_true_eq_false, if_false]
      have hdead' : ∀ j, (key, j) ∈ cv ++ cp → j ∈ s1.deleted := by
        intro j hj; rw [hdel]; exact hdead rfl j hj
      have hnz : mkId s1.clock (s1.seq + 1) ≠ 0 := mkId_ne_zero (by omega) (by omega)
      have hI := h1.insertNew hk (by omega) hdead'
      simp only [hnz, ne_eq, not_false_eq_true, if_true]
      refine ⟨_, hI, Or.inr rfl, hvis, hdel, hcaches, hclock, hnow, by show s.seq ≤ s1.seq + 1; omega, ?_, ?_, ?_⟩
      · simp
      · intro hd
        obtain ⟨k, hk'⟩ := h.delVis _ hd
        obtain ⟨q, _, hq, hpe⟩ := h1.ids (k, _) (List.mem_append_left _ hk')
        simp only at hpe
        have e1 := mkId_mod (c := s1.clock) (q := q) (by have := h1.seqb; omega)
        have e2 := mkId_mod (c := s1.clock) (q := s1.seq + 1) (by omega)
        rw [← hpe, e2] at e1
        omega
      · intro j hj hjd
        exact absurd (hdead rfl j hj) hjd
    · simp only [ne_eq, hid, not_false_eq_true, if_true]
      obtain ⟨hm, hnd⟩ := hlive hid
      refine ⟨cp, h1, Or.inl rfl, hvis, hdel, hcaches, hclock, hnow, by show s.seq ≤ s1.seq; omega, hm, hnd, ?_⟩
      intro j hj hjd
      have := h.live1 _ hm _ hj rfl hnd hjd
      exact (Prod.mk.inj this).2

/-! ### flush, clear, reopen, restart -/

theorem Gen_eq_nil {l : List (SKey × Id)} (h : Gen l = []) : l = [] := by
  cases l with
  | nil => rfl
  | cons p t => simp [Gen, decode] at h

/-- everything pending becomes visible (whatever happens to the caches) -/
theorem Inv.flushed {s : St} {cv cp : List (SKey × Id)} (h : Inv s cv cp) (c : Caches) (t : List (SKey × Id))
    (ht : ∀ e ∈ t, e ∈ cv ++ cp) :
    Inv { s with vis := s.vis ++ s.pend, pend := [], caches := c, tsid := t } (cv ++ cp) [] where
  vis := by show s.vis ++ s.pend = Gen (cv ++ cp); rw [Gen_append, h.vis, h.pend]
  pend := rfl
  good := by rw [List.append_nil]; exact h.good
  clock := h.clock
  seqb := h.seqb
  ids := by rw [List.append_nil]; exact h.ids
  live1 := by rw [List.append_nil]; exact h.live1
  cacheSound := by rw [List.append_nil]; exact ht
  pendCached := by intro p hp; simp at hp
  delVis := fun i hi => let ⟨k, hk⟩ := h.delVis i hi; ⟨k, List.mem_append_left _ hk⟩
  disj := by intro p hp; simp at hp

theorem flush_spec {s : St} {cv cp : List (SKey × Id)} (h : Inv s cv cp) : Inv (flush s) (cv ++ cp) [] := by
  unfold flush
  by_cases he : s.pend.isEmpty = true
  · simp only [he, if_true]
    have : cp = [] := Gen_eq_nil (by rw [← h.pend]; exact List.isEmpty_iff.mp he)
    subst this
    rw [List.append_nil]; exact h
  · simp only [he, Bool.false_eq_true, if_false]
    exact h.flushed _ _ h.cacheSound

theorem flush_cache {M : Matchers Re} {s : St} {cv cp : List (SKey × Id)} (h : Inv s cv cp)
    (hc : CacheOk M cv s.deleted s.caches) : CacheOk M (cv ++ cp) (flush s).deleted (flush s).caches := by
  unfold flush
  by_cases he : s.pend.isEmpty = true
  · simp only [he, if_true]
    have : cp = [] := Gen_eq_nil (by rw [← h.pend]; exact List.isEmpty_iff.mp he)
    subst this
    rw [List.append_nil]; exact hc
  · simp only [he, Bool.false_eq_true, if_false]
    exact CacheOk.nil rfl

theorem flush_frame (s : St) : (flush s).deleted = s.deleted ∧ (flush s).clock = s.clock ∧
    (flush s).seq = s.seq ∧ (flush s).now = s.now ∧ (flush s).tsid = s.tsid ∧ (flush s).pend = [] ∧
    (flush s).vis = s.vis ++ s.pend := by
  unfold flush
  by_cases he : s.pend.isEmpty = true
  · rw [if_pos he]
    simp [List.isEmpty_iff.mp he]
  · rw [if_neg he]
    simp

theorem clear_spec {s : St} {cv cp : List (SKey × Id)} (h : Inv s cv cp) : Inv (clear s) (cv ++ cp) [] := by
  have hf := flush_spec h
  unfold clear
  exact { hf with
    cacheSound := by intro e he; simp at he
    pendCached := by intro p hp; simp at hp }

theorem le_foldl_maxStored (items : List Item) (clock m : Nat) :
    m ≤ items.foldl (fun m it =>
      match it with
      | .i2k id _ => if id / 2 ^ 40 = clock % 2 ^ 24 then max m (id % 2 ^ 40) else m
      | _ => m) m := by
  induction items generalizing m with
  | nil => exact Nat.le_refl _
  | cons it t ih =>
    simp only [List.foldl_cons]
    refine Nat.le_trans ?_ (ih _)
    cases it with
    | i2k id k => simp only; split <;> omega
    | k2i _ _ => exact Nat.le_refl _
    | t2i _ _ _ _ => exact Nat.le_refl _

theorem le_maxStoredSeq {items : List Item} {clock : Nat} {id : Id} {k : SKey}
    (h : Item.i2k id k ∈ items) (hc : id / 2 ^ 40 = clock % 2 ^ 24) :
    id % 2 ^ 40 ≤ maxStoredSeq items clock := by
  unfold maxStoredSeq
  generalize 0 = m
  induction items generalizing m with
  | nil => simp at h
  | cons it t ih =>
    simp only [List.foldl_cons]
    rcases List.mem_cons.mp h with rfl | h
    · simp only [hc, if_true]
      exact Nat.le_trans (Nat.le_max_right _ _) (le_foldl_maxStored t clock _)
    · exact ih h _

theorem maxStoredSeq_lt (items : List Item) (clock : Nat) : maxStoredSeq items clock < 2 ^ 40 := by
  unfold maxStoredSeq
  have : ∀ m, m < 2 ^ 40 → items.foldl (fun m it =>
      match it with
      | .i2k id _ => if id / 2 ^ 40 = clock % 2 ^ 24 then max m (id % 2 ^ 40) else m
      | _ => m) m < 2 ^ 40 := by
    induction items with
    | nil => intro m hm; exact hm
    | cons it t ih =>
      intro m hm
      simp only [List.foldl_cons]
      apply ih
      cases it with
      | i2k id k =>
        simp only
        split
        · exact Nat.max_lt.mpr ⟨hm, Nat.mod_lt _ (Nat.two_pow_pos 40)⟩
        · exact hm
      | k2i _ _ => exact hm
      | t2i _ _ _ _ => exact hm
  exact this 0 (Nat.two_pow_pos 40)

theorem raiseSeq_spec {seq m : Nat} (hs : seq < 2 ^ 40) (hm : m < 2 ^ 40) :
    m ≤ raiseSeq seq m ∧ raiseSeq seq m < 2 ^ 40 ∧ seq ≤ raiseSeq seq m := by
  unfold raiseSeq
  rw [Nat.mod_eq_of_lt hs]
  split <;> omega

theorem reopenWith_spec {s : St} {cv cp : List (SKey × Id)} (h : Inv s cv cp) {seq0 : Nat} (hs : seq0 < 2 ^ 40) :
    Inv (reopenWith s seq0) (cv ++ cp) [] := by
  have hf := flush_spec h
  obtain ⟨_, hclock, _, _, _, _, _⟩ := flush_frame s
  obtain ⟨h1, h2, _⟩ := raiseSeq_spec hs (maxStoredSeq_lt (flush s).vis (flush s).clock)
  unfold reopenWith
  exact { hf with
    seqb := h2
    ids := by
      intro p hp
      obtain ⟨q, h0, hq, he⟩ := hf.ids p hp
      refine ⟨q, h0, ?_, he⟩
      show q ≤ raiseSeq seq0 (maxStoredSeq (flush s).vis (flush s).clock)
      refine Nat.le_trans ?_ h1
      have hq40 : q < 2 ^ 40 := by have := hf.seqb; omega
      have hmem : Item.i2k p.2 p.1 ∈ (flush s).vis := by
        rw [hf.vis]; exact mem_Gen_i2k.mpr (by simpa using hp)
      have := le_maxStoredSeq hmem (by rw [he]; exact mkId_div hf.clock hq40)
      rw [he, mkId_mod hq40] at this
      exact this
    cacheSound := by intro e he; simp at he
    pendCached := by intro p hp; simp at hp }

theorem reopenWith_cache {M : Matchers Re} (s : St) (seq0 : Nat) (l : List (SKey × Id)) :
    CacheOk M l (reopenWith s seq0).deleted (reopenWith s seq0).caches := CacheOk.nil rfl

theorem clear_cache {M : Matchers Re} (s : St) (l : List (SKey × Id)) :
    CacheOk M l (clear s).deleted (clear s).caches := CacheOk.nil rfl

/-! ### delete, searches -/

theorem delete_spec {M : Matchers Re} {s : St} {cv cp : List (SKey × Id)} (h : Inv s cv cp) (mst : Str)
    (p : Option (Pred Re)) (hp : optKeysOk p) : Inv (delete M s mst p) cv cp := by
  have hsub : ∀ i ∈ searchShow M s mst p, ∃ k, (k, i) ∈ cv := by
    intro i hi
    obtain ⟨k, hk, _⟩ := (mem_searchShow h.goodVis h.vis p hp).mp hi
    exact ⟨k, hk⟩
  have hdel : ∀ i, i ∈ s.deleted ++ diff (searchShow M s mst p) s.deleted → i ∈ s.deleted ∨ ∃ k, (k, i) ∈ cv := by
    intro i hi
    rcases List.mem_append.mp hi with hi | hi
    · exact Or.inl hi
    · exact Or.inr (hsub i (mem_diff.mp hi).1)
  unfold delete
  exact { h with
    live1 := by
      intro a ha b hb he ha2 hb2
      exact h.live1 a ha b hb he (fun hd => ha2 (List.mem_append_left _ hd)) (fun hd => hb2 (List.mem_append_left _ hd))
    pendCached := by
      intro a ha
      obtain ⟨h1, h2⟩ := h.pendCached a ha
      refine ⟨h1, fun hd => ?_⟩
      rcases hdel _ hd with hd | ⟨k, hk⟩
      · exact h2 hd
      · exact h.disj a ha (k, a.2) hk rfl
    delVis := by
      intro i hi
      rcases hdel i hi with hd | hk
      · exact h.delVis i hd
      · exact hk }

theorem delete_cache {M : Matchers Re} (s : St) (mst : Str) (p : Option (Pred Re)) (l : List (SKey × Id)) :
    CacheOk M l (delete M s mst p).deleted (delete M s mst p).caches := CacheOk.nil rfl

theorem Inv.setCaches {s : St} {cv cp : List (SKey × Id)} (h : Inv s cv cp) (c : Caches) :
    Inv { s with caches := c } cv cp :=
  ⟨h.vis, h.pend, h.good, h.clock, h.seqb, h.ids, h.live1, h.cacheSound, h.pendCached, h.delVis, h.disj⟩

/-- specification semantics of an optional predicate -/
def optSat (M : Matchers Re) (p : Option (Pred Re)) (key : SKey) : Prop :=
  match p with
  | none => True
  | some q => q.sat M key = true

theorem searchSel_spec {M : Matchers Re} (hM : MatcherFaithful M) (hK : KeySound M) {s : St}
    {cv cp : List (SKey × Id)} (h : Inv s cv cp) (hc : CacheOk M cv s.deleted s.caches) (mst : Str)
    (p : Option (Pred Re)) (hp : optKeysOk p) :
    Inv (searchSel M s mst p).2 cv cp ∧
    CacheOk M cv (searchSel M s mst p).2.deleted (searchSel M s mst p).2.caches ∧
    ∃ ids, (searchSel M s mst p).1 = some ids ∧ ∀ i, i ∈ ids ↔ Sem cv mst s.deleted (optSat M p) i := by
  cases p with
  | none =>
    refine ⟨h, hc, _, rfl, fun i => ?_⟩
    rw [h.vis, mem_allIds]
    exact Sem.congr h.goodVis (fun _ _ => Iff.rfl)
  | some q =>
    have hspec := selExpr_spec (mst := mst) hM hK h.goodVis q s.caches hc hp
    rw [← h.vis] at hspec
    obtain ⟨h1, ids, h2, h3⟩ := hspec
    unfold searchSel
    simp only
    refine ⟨h.setCaches _, h1, ids, h2, fun i => ?_⟩
    rw [h3 i]
    exact Sem.congr h.goodVis (fun _ _ => Iff.rfl)

theorem searchSel_inv {M : Matchers Re} {s : St} {cv cp : List (SKey × Id)} (h : Inv s cv cp) (mst : Str)
    (p : Option (Pred Re)) : Inv (searchSel M s mst p).2 cv cp := by
  cases p with
  | none => exact h
  | some q => exact h.setCaches _


/-! ### periodic flush, deferred cache-generation bump, evictions -/

theorem Inv.setNeedBump {s : St} {cv cp : List (SKey × Id)} (h : Inv s cv cp) (b : Bool) :
    Inv { s with needBump := b } cv cp :=
  ⟨h.vis, h.pend, h.good, h.clock, h.seqb, h.ids, h.live1, h.cacheSound, h.pendCached, h.delVis, h.disj⟩

theorem pflush_spec {s : St} {cv cp : List (SKey × Id)} (h : Inv s cv cp) : Inv (pflush s) (cv ++ cp) [] := by
  unfold pflush
  by_cases he : s.pend.isEmpty = true
  · simp only [he, if_true]
    have : cp = [] := Gen_eq_nil (by rw [← h.pend]; exact List.isEmpty_iff.mp he)
    subst this
    rw [List.append_nil]; exact h
  · simp only [he, Bool.false_eq_true, if_false]
    have hf := h.flushed s.caches s.tsid h.cacheSound
    exact ⟨hf.vis, hf.pend, hf.good, hf.clock, hf.seqb, hf.ids, hf.live1, hf.cacheSound, hf.pendCached, hf.delVis, hf.disj⟩

theorem bump_spec {s : St} {cv cp : List (SKey × Id)} (h : Inv s cv cp) : Inv (bump s) cv cp := by
  unfold bump
  split
  · exact ⟨h.vis, h.pend, h.good, h.clock, h.seqb, h.ids, h.live1, h.cacheSound, h.pendCached, h.delVis, h.disj⟩
  · exact h

theorem evictFilters_spec {s : St} {cv cp : List (SKey × Id)} (h : Inv s cv cp) : Inv (evictFilters s) cv cp :=
  h.setCaches _

theorem cacheGet_filter (c : List (SKey × Id)) (keep : SKey → Bool) (key : SKey) (hk : keep key = true) :
    cacheGet (c.filter (fun e => keep e.1)) key = cacheGet c key := by
  induction c with
  | nil => rfl
  | cons e c ih =>
    by_cases he : e.1 = key
    · have : keep e.1 = true := by rw [he]; exact hk
      simp only [List.filter_cons, this, if_true]
      simp [cacheGet, List.find?_cons, he]
    · by_cases hke : keep e.1 = true
      · simp only [List.filter_cons, hke, if_true]
        simp only [cacheGet, List.find?_cons, he, decide_false] at ih ⊢
        exact ih
      · have hke' : keep e.1 = false := by simpa using hke
        simp only [List.filter_cons, hke', Bool.false_eq_true, if_false]
        rw [ih]
        simp [cacheGet, List.find?_cons, he]

/-- an eviction that spares the series not yet flushed keeps the invariant: the cache stays a
subset of what was issued, and every pending series is still found through it -/
theorem evict_spec {s : St} {cv cp : List (SKey × Id)} (h : Inv s cv cp) (keep : SKey → Bool)
    (hk : ∀ p ∈ cp, keep p.1 = true) : Inv (evict s keep) cv cp where
  vis := h.vis
  pend := h.pend
  good := h.good
  clock := h.clock
  seqb := h.seqb
  ids := h.ids
  live1 := h.live1
  cacheSound := by
    intro e he
    exact h.cacheSound e (List.mem_filter.mp he).1
  pendCached := by
    intro p hp
    obtain ⟨h1, h2⟩ := h.pendCached p hp
    exact ⟨by show cacheGet (s.tsid.filter _) p.1 = some p.2; rw [cacheGet_filter _ _ _ (hk p hp)]; exact h1, h2⟩
  delVis := h.delVis
  disj := h.disj


theorem slowLookup_needBump (s : St) (key : SKey) : (slowLookup s key).2.needBump = s.needBump := by
  unfold slowLookup
  split
  · split <;> split <;> rfl
  · rfl

theorem getSeriesId_needBump (s : St) (key : SKey) : (getSeriesId s key).2.needBump = s.needBump := by
  unfold getSeriesId
  split
  · split
    · rfl
    · exact slowLookup_needBump s key
  · exact slowLookup_needBump s key

theorem insert_needBump (s : St) (key : SKey) : (insert s key).2.needBump = s.needBump := by
  unfold insert
  simp only
  split
  · exact getSeriesId_needBump s key
  · exact getSeriesId_needBump s key

theorem flush_needBump (s : St) : (flush s).needBump = s.needBump := by
  unfold flush; split <;> rfl

theorem searchSel_needBump (M : Matchers Re) (s : St) (mst : Str) (p : Option (Pred Re)) :
    (searchSel M s mst p).2.needBump = s.needBump := by
  unfold searchSel; cases p <;> rfl

/-! ### operation sequences -/

inductive Op (Re : Type) where
  | ins (k : SKey)
  | get (k : SKey)
  | flush
  | clear
  | reopen
  | restart (dt : Nat)
  | del (mst : Str) (p : Option (Pred Re))
  | sel (mst : Str) (p : Option (Pred Re))
  | pflush
  | bump
  | evict (keep : SKey → Bool)
  | evictFilters

def apply (M : Matchers Re) (s : St) : Op Re → St
  | .ins k => (insert s k).2
  | .get k => (getSeriesId s k).2
  | .flush => flush s
  | .clear => clear s
  | .reopen => reopen s
  | .restart dt => restart s dt
  | .del mst p => delete M s mst p
  | .sel mst p => (searchSel M s mst p).2
  | .pflush => pflush s
  | .bump => bump s
  | .evict keep => evict s keep
  | .evictFilters => evictFilters s

/-- what the harness (and the write path) guarantee about an operation: well-formed series keys,
predicates over non-empty tag keys, and no overflow of the 40-bit sequence part of a tsid -/
def Op.Ok (s : St) : Op Re → Prop
  | .ins k => k.WF ∧ s.seq + 1 < 2 ^ 40
  | .restart dt => s.now + dt < 2 ^ 40
  | .del _ p => optKeysOk p
  | .sel _ p => optKeysOk p
  | .evict keep => ∀ k i, Item.k2i k i ∈ s.pend → keep k = true   -- no series is evicted before it is flushed
  | _ => True

/-- states reachable from a fresh index by well-formed operations -/
inductive Reach (M : Matchers Re) : St → Prop where
  | init (clock now : Nat) : clock < 2 ^ 24 → now < 2 ^ 40 → Reach M (St.init clock now)
  | step {s : St} (op : Op Re) : Reach M s → op.Ok s → Reach M (apply M s op)

theorem init_inv (clock now : Nat) (hc : clock < 2 ^ 24) (hn : now < 2 ^ 40) : Inv (St.init clock now) [] [] where
  vis := rfl
  pend := rfl
  good := ⟨by simp, by simp⟩
  clock := hc
  seqb := hn
  ids := by simp
  live1 := by simp
  cacheSound := by intro e he; simp [St.init] at he
  pendCached := by simp
  delVis := by intro i hi; simp [St.init] at hi
  disj := by simp

/-- one step preserves the invariant (new ghost lists) -/
theorem apply_inv {M : Matchers Re} {s : St} {cv cp : List (SKey × Id)} (h : Inv s cv cp) (op : Op Re)
    (hok : op.Ok s) : ∃ cv' cp', Inv (apply M s op) cv' cp' ∧ (∀ p, p ∈ cv ++ cp → p ∈ cv' ++ cp') := by
  cases op with
  | ins k =>
    obtain ⟨cp', hI, hcp, _⟩ := insert_spec h hok.1 hok.2
    refine ⟨cv, cp', hI, fun p hp => ?_⟩
    rcases hcp with rfl | rfl
    · exact hp
    · rcases List.mem_append.mp hp with hp | hp
      · exact List.mem_append_left _ hp
      · exact List.mem_append_right _ (List.mem_append_left _ hp)
  | get k => exact ⟨cv, cp, (getSeriesId_spec h k).1, fun _ hp => hp⟩
  | flush => exact ⟨cv ++ cp, [], flush_spec h, fun _ hp => by simpa using hp⟩
  | clear => exact ⟨cv ++ cp, [], clear_spec h, fun _ hp => by simpa using hp⟩
  | reopen => exact ⟨cv ++ cp, [], reopenWith_spec h h.seqb, fun _ hp => by simpa using hp⟩
  | restart dt =>
    have hI : Inv { s with now := s.now + dt } cv cp :=
      ⟨h.vis, h.pend, h.good, h.clock, h.seqb, h.ids, h.live1, h.cacheSound, h.pendCached, h.delVis, h.disj⟩
    exact ⟨cv ++ cp, [], reopenWith_spec hI hok, fun _ hp => by simpa using hp⟩
  | del mst p => exact ⟨cv, cp, delete_spec h mst p hok, fun _ hp => hp⟩
  | sel mst p => exact ⟨cv, cp, searchSel_inv h mst p, fun _ hp => hp⟩
  | pflush => exact ⟨cv ++ cp, [], pflush_spec h, fun _ hp => by simpa using hp⟩
  | bump => exact ⟨cv, cp, bump_spec h, fun _ hp => hp⟩
  | evict keep =>
    refine ⟨cv, cp, evict_spec h keep ?_, fun _ hp => hp⟩
    intro p hp
    exact hok p.1 p.2 (by rw [h.pend]; exact mem_Gen_k2i.mpr hp)
  | evictFilters => exact ⟨cv, cp, evictFilters_spec h, fun _ hp => hp⟩

theorem reach_inv {M : Matchers Re} {s : St} (hr : Reach M s) : ∃ cv cp, Inv s cv cp := by
  induction hr with
  | init clock now hc hn => exact ⟨[], [], init_inv clock now hc hn⟩
  | step op _ hok ih =>
    obtain ⟨cv, cp, h⟩ := ih
    obtain ⟨cv', cp', h', _⟩ := apply_inv (M := M) h op hok
    exact ⟨cv', cp', h'⟩

/-- with faithful matchers the tag-filter cache is coherent in every reachable state in which no
flush callback is owed (between a non-final flush and the deferred callback it may be stale) -/
theorem reach_cache {M : Matchers Re} (hM : MatcherFaithful M) (hK : KeySound M) {s : St} (hr : Reach M s) :
    ∃ cv cp, Inv s cv cp ∧ (s.needBump = false → CacheOk M cv s.deleted s.caches) := by
  induction hr with
  | init clock now hc hn => exact ⟨[], [], init_inv clock now hc hn, fun _ => CacheOk.nil rfl⟩
  | @step s op _ hok ih =>
    obtain ⟨cv, cp, h, hc⟩ := ih
    cases op with
    | ins k =>
      obtain ⟨cp', hI, _, _, hdel, hcaches, _⟩ := insert_spec h hok.1 hok.2
      refine ⟨cv, cp', hI, ?_⟩
      have hnb : (insert s k).2.needBump = s.needBump := insert_needBump s k
      intro hb
      show CacheOk M cv (insert _ k).2.deleted (insert _ k).2.caches
      rw [hdel, hcaches]; exact hc (by rw [← hnb]; exact hb)
    | get k =>
      obtain ⟨hI, _, _, hdel, hcaches, _⟩ := getSeriesId_spec h k
      refine ⟨cv, cp, hI, ?_⟩
      have hnb : (getSeriesId s k).2.needBump = s.needBump := getSeriesId_needBump s k
      intro hb
      show CacheOk M cv (getSeriesId _ k).2.deleted (getSeriesId _ k).2.caches
      rw [hdel, hcaches]; exact hc (by rw [← hnb]; exact hb)
    | flush =>
      refine ⟨cv ++ cp, [], flush_spec h, fun hb => flush_cache h (hc ?_)⟩
      rw [← flush_needBump s]; exact hb
    | clear => exact ⟨cv ++ cp, [], clear_spec h, fun _ => clear_cache _ _⟩
    | reopen => exact ⟨cv ++ cp, [], reopenWith_spec h h.seqb, fun _ => reopenWith_cache _ _ _⟩
    | restart dt =>
      have hI : Inv { s with now := s.now + dt } cv cp :=
        ⟨h.vis, h.pend, h.good, h.clock, h.seqb, h.ids, h.live1, h.cacheSound, h.pendCached, h.delVis, h.disj⟩
      exact ⟨cv ++ cp, [], reopenWith_spec hI hok, fun _ => reopenWith_cache _ _ _⟩
    | del mst p => exact ⟨cv, cp, delete_spec h mst p hok, fun _ => delete_cache _ _ _ _⟩
    | sel mst p =>
      refine ⟨cv, cp, searchSel_inv h mst p, fun hb => ?_⟩
      have hb' : s.needBump = false := by rw [← searchSel_needBump M s mst p]; exact hb
      exact (searchSel_spec hM hK h (hc hb') mst p hok).2.1
    | pflush =>
      refine ⟨cv ++ cp, [], pflush_spec h, fun hb => ?_⟩
      -- nothing was pending (else the callback is owed now): the state is unchanged
      have hb' : (pflush s).needBump = false := hb
      show CacheOk M (cv ++ cp) (pflush s).deleted (pflush s).caches
      unfold pflush at hb' ⊢
      by_cases he : s.pend.isEmpty = true
      · simp only [he, if_true] at hb' ⊢
        have : cp = [] := Gen_eq_nil (by rw [← h.pend]; exact List.isEmpty_iff.mp he)
        subst this
        rw [List.append_nil]; exact hc hb'
      · simp only [he, Bool.false_eq_true, if_false] at hb'
        exact absurd hb' (by decide)
    | bump =>
      refine ⟨cv, cp, bump_spec h, fun _ => ?_⟩
      show CacheOk M cv (bump s).deleted (bump s).caches
      unfold bump
      cases hb : s.needBump with
      | true => simp only [if_true]; exact CacheOk.nil rfl
      | false => simp only [Bool.false_eq_true, if_false]; exact hc hb
    | evict keep =>
      refine ⟨cv, cp, evict_spec h keep ?_, fun hb => hc hb⟩
      intro p hp
      exact hok p.1 p.2 (by rw [h.pend]; exact mem_Gen_k2i.mpr hp)
    | evictFilters => exact ⟨cv, cp, evictFilters_spec h, fun _ => CacheOk.nil rfl⟩

end OG.C10
