/-
C10 — what `tagFilter.Init` derives from a predicate atom, and how a scan / the prune step decide
with it (`engine/index/tsi/tag_filters.go`, `search.go`, `search_prune.go`), at byte level.

The regexp library is opaque: a regular expression enters as
* the pair `extractRegexpPrefix` returned for its text (that function runs `syntax.Parse`,
  `simplifyRegexp`, `Regexp.Simplify`, `Regexp.String` — library code),
* the syntax tree `syntax.Parse` gives for the (escaped) remaining expression — the code's own
  decisions on that tree (`isLiteral`, `isDotStar`, `isDotPlus`, `getOrValuesExt`,
  `getOptimizedReMatchFuncExt`) are transcribed here and run by the model,
* `reMatch` = `regexp.Match` of the remaining expression, `matches` = unanchored
  `MatchString` of the whole text (the specification), `matchesEmpty` = `MatchString("")`.

Core Lean only (compiled into the driver).
-/
import OG.C10.Bytes

namespace OG.C10.TF
open OG.C10.Bytes
open OG.Gen.C10 (maxOrValues fullMatchCost prefixMatchCost literalMatchCost suffixMatchCost middleMatchCost reMatchCost)

/-! ### `regexp/syntax.Regexp`, as far as the tag filter code looks at it -/

inductive SOp where
  | noMatch | emptyMatch | literal | charClass | anyCharNotNL | anyChar | beginLine | endLine
  | beginText | endText | wordBoundary | noWordBoundary | capture | star | plus | quest | repeat_
  | concat | alternate
deriving DecidableEq, Repr

/-- `Op`, `Flags & FoldCase`, `Rune`, `Sub` -/
inductive Sre where
  | node (op : SOp) (foldCase : Bool) (runes : List Nat) (subs : List Sre)
deriving Repr

def Sre.op : Sre → SOp | .node o _ _ _ => o
def Sre.runes : Sre → List Nat | .node _ _ r _ => r
def Sre.subs : Sre → List Sre | .node _ _ _ s => s

/-- Go's `string(rune)`: UTF-8, U+FFFD for surrogates and values above U+10FFFF -/
def utf8 (r : Nat) : B :=
  let u (n : Nat) := UInt8.ofNat n
  if r < 0x80 then [u r]
  else if r < 0x800 then [u (0xC0 + r / 64), u (0x80 + r % 64)]
  else if (0xD800 ≤ r ∧ r < 0xE000) ∨ r > 0x10FFFF then [0xEF, 0xBF, 0xBD]
  else if r < 0x10000 then [u (0xE0 + r / 4096), u (0x80 + r / 64 % 64), u (0x80 + r % 64)]
  else [u (0xF0 + r / 262144), u (0x80 + r / 4096 % 64), u (0x80 + r / 64 % 64), u (0x80 + r % 64)]

/-- `string(sre.Rune)` -/
def runesText (rs : List Nat) : B := rs.flatMap utf8

def isLiteral : Sre → Bool
  | .node .capture _ _ (s :: _) => isLiteral s
  | .node .literal fold _ _ => !fold
  | _ => false

mutual
def isDotStar : Sre → Bool
  | .node .capture _ _ (s :: _) => isDotStar s
  | .node .alternate _ _ subs => anyDotStar subs
  | .node .star _ _ (.node .anyCharNotNL _ _ _ :: _) => true
  | .node .star _ _ (.node .anyChar _ _ _ :: _) => true
  | _ => false
def anyDotStar : List Sre → Bool
  | [] => false
  | s :: t => isDotStar s || anyDotStar t
end

mutual
def isDotPlus : Sre → Bool
  | .node .capture _ _ (s :: _) => isDotPlus s
  | .node .alternate _ _ subs => anyDotPlus subs
  | .node .plus _ _ (.node .anyCharNotNL _ _ _ :: _) => true
  | .node .plus _ _ (.node .anyChar _ _ _ :: _) => true
  | _ => false
def anyDotPlus : List Sre → Bool
  | [] => false
  | s :: t => isDotPlus s || anyDotPlus t
end

/-! ### `getOrValuesExt` -/

/-- the inner loop over one range of a character class: `for start <= end { a = append(a, string(start)); start++; if len(a) > maxOrValues { return nil } }` -/
def classRange : Nat → Nat → Nat → List B → Option (List B)
  | 0, _, _, a => some a           -- not reached: the limit stops the loop first
  | f + 1, lo, hi, a =>
    if lo ≤ hi then
      let a := a ++ [utf8 lo]
      if a.length > maxOrValues then none else classRange f (lo + 1) hi a
    else some a

def classRanges : List Nat → List B → Option (List B)
  | lo :: hi :: rest, a =>
    match classRange (maxOrValues + 2) lo hi a with
    | some a => classRanges rest a
    | none => none
  | _, a => some a

def product (ps ss : List B) : List B := ps.flatMap fun p => ss.map fun s => p ++ s

mutual
/-- `getOrValuesExt`; `[]` is Go's `nil` ("not a finite set of values the code handles") -/
def orVals : Sre → List B
  | .node .capture _ _ (s :: _) => orVals s
  | .node .literal fold rs _ => if fold then [] else [runesText rs]
  | .node .emptyMatch _ _ _ => [[]]
  | .node .alternate _ _ subs => orAlt subs []
  | .node .charClass _ rs _ =>
    match classRanges rs [] with
    | some a => a
    | none => []
  | .node .concat _ _ subs => orConcat subs
  | _ => []
/-- the loop of the `OpAlternate` case -/
def orAlt : List Sre → List B → List B
  | [], a => a
  | s :: t, a =>
    let ca := orVals s
    if ca.length = 0 then [] else
    let a := a ++ ca
    if a.length > maxOrValues then [] else orAlt t a
/-- the `OpConcat` case: first operand, then the same node with the operand dropped -/
def orConcat : List Sre → List B
  | [] => [[]]
  | s :: t =>
    let prefixes := orVals s
    if prefixes.length = 0 then [] else
    let suffixes := orConcat t
    if suffixes.length = 0 then [] else
    if prefixes.length * suffixes.length > maxOrValues then [] else product prefixes suffixes
end

def insertB (x : B) : List B → List B
  | [] => [x]
  | y :: t => if blt y x then y :: insertB x t else x :: y :: t

/-- `sort.Strings` (equal strings are indistinguishable, so any sorting algorithm gives this list) -/
def sortB (l : List B) : List B := l.foldr insertB []

/-- `getOrValues`: sorted -/
def getOrValues (sre : Sre) : List B := sortB (orVals sre)

/-! ### `getOptimizedReMatchFuncExt`: which closure is returned -/

inductive Shape where
  | dotStar | dotPlus
  | literal (s : B)
  | prefixDotStar (p : B) | prefixDotPlus (p : B)
  | dotStarSuffix (s : B) | dotPlusSuffix (s : B)
  | midSS (m : B) | midSP (m : B) | midPS (m : B) | midPP (m : B)   -- .*m.*  .*m.+  .+m.*  .+m.+
  | generic (literals : List B) (suffix : B)
  | fallback                 -- un-optimized `reMatch`
  | orValues (vs : List B)   -- `newMatchFuncForOrSuffixes`
  | containsValue (v : B)    -- literal regexp: `bytes.Contains(b, tf.value)`
deriving Repr, DecidableEq

def literalsOf : List Sre → List B
  | [] => []
  | s :: t => if isLiteral s then runesText s.runes :: literalsOf t else literalsOf t

/-- the `OpConcat` case (no recursion) -/
def optConcat (subs : List Sre) : Shape × B × Nat :=
  let two : Option (Shape × B × Nat) :=
    match subs with
    | [a, b] =>
      let first : Option (Shape × B × Nat) :=
        if isLiteral a then
          if isDotStar b then some (.prefixDotStar (runesText a.runes), [], prefixMatchCost)
          else if isDotPlus b then some (.prefixDotPlus (runesText a.runes), [], prefixMatchCost)
          else none
        else none
      match first with
      | some r => some r
      | none =>
        if isLiteral b then
          if isDotStar a then some (.dotStarSuffix (runesText b.runes), runesText b.runes, suffixMatchCost)
          else if isDotPlus a then some (.dotPlusSuffix (runesText b.runes), runesText b.runes, suffixMatchCost)
          else none
        else none
    | _ => none
  match two with
  | some r => r
  | none =>
    let three : Option (Shape × B × Nat) :=
      match subs with
      | [a, m, c] =>
        if isLiteral m then
          let mid := runesText m.runes
          if isDotStar a then
            if isDotStar c then some (.midSS mid, [], middleMatchCost)
            else if isDotPlus c then some (.midSP mid, [], middleMatchCost)
            else none
          else if isDotPlus a then
            if isDotStar c then some (.midPS mid, [], middleMatchCost)
            else if isDotPlus c then some (.midPP mid, [], middleMatchCost)
            else none
          else none
        else none
      | _ => none
    match three with
    | some r => r
    | none =>
      let lits := literalsOf subs
      match subs.getLast? with
      | some l =>
        if isLiteral l then
          (.generic lits.dropLast (lits.getLastD []), lits.getLastD [], reMatchCost)
        else (.generic lits [], [], reMatchCost)
      | none => (.generic lits [], [], reMatchCost)

/-- `getOptimizedReMatchFuncExt`: `none` = `nil, "", 0` -/
def optShape : Sre → Option (Shape × B × Nat)
  | .node op fold rs subs =>
    if isDotStar (.node op fold rs subs) then some (.dotStar, [], fullMatchCost)
    else if isDotPlus (.node op fold rs subs) then some (.dotPlus, [], fullMatchCost)
    else match op, subs with
      | .capture, s :: _ => optShape s
      | .literal, _ => if fold then none else some (.literal (runesText rs), runesText rs, literalMatchCost)
      | .concat, _ => some (optConcat subs)
      | _, _ => none

/-! ### evaluating a suffix matcher on the (escaped) rest of a value -/

def isSuffix (s b : B) : Bool := s.reverse.isPrefixOf b.reverse

/-- `bytes.Contains` -/
def containsB : B → B → Bool
  | [], m => m.isEmpty
  | x :: xs, m => m.isPrefixOf (x :: xs) || containsB xs m

/-- `bytes.Index(b, m)`, then `b = b[n+len(m):]`; `none` = not found -/
def afterFirst : B → B → Option B
  | [], m => if m.isEmpty then some [] else none
  | x :: xs, m => if m.isPrefixOf (x :: xs) then some ((x :: xs).drop m.length) else afterFirst xs m

def literalsInOrder : List B → B → Bool
  | [], _ => true
  | l :: ls, b =>
    match afterFirst b l with
    | some rest => literalsInOrder ls rest
    | none => false

def Shape.eval (reMatch : B → Bool) : Shape → B → Bool
  | .dotStar, _ => true
  | .dotPlus, b => b.length > 0
  | .literal s, b => b == s
  | .prefixDotStar p, b => p.isPrefixOf b
  | .prefixDotPlus p, b => b.length > p.length && p.isPrefixOf b
  | .dotStarSuffix s, b => isSuffix s b
  | .dotPlusSuffix s, b => b.length > s.length && isSuffix s (b.drop 1)
  | .midSS m, b => containsB b m
  | .midSP m, b => b.length > m.length && containsB b.dropLast m
  | .midPS m, b => b.length > m.length && containsB (b.drop 1) m
  | .midPP m, b => b.length > m.length + 1 && containsB (b.drop 1).dropLast m
  | .generic lits suf, b =>
    if suf.length > 0 && !isSuffix suf b then false
    else if !literalsInOrder lits b then false
    else reMatch b
  | .fallback, b => reMatch b
  | .orValues vs, b => vs.any (· == b)
  | .containsValue v, b => containsB b v

/-! ### `tagFilter.Init` (InfluxRegrep) -/

/-- what the regexp library and `extractRegexpPrefix` hand to `Init` for one regex text -/
structure RxIn where
  text : B
  pfx : B              -- literal prefix
  expr : B             -- remaining expression; empty = the regex is the literal `pfx`
  compileOk : Bool     -- `regexp.Compile` of the escaped remaining expression
  ast : Sre            -- `syntax.Parse` of the escaped remaining expression
  matchesEmpty : Bool  -- `MatchString("")` of the whole regex
deriving Repr

/-- the fields of a `tagFilter` after `Init` that searches read -/
structure TF where
  isRegexp : Bool
  value : B
  isLiteralRegexp : Bool
  valPrefix : B               -- what follows the key prefix in `tf.prefix` (escaped)
  orSuffixes : List B
  matcher : Option Shape      -- `reSuffixMatch`
  matchCost : Nat
  isEmptyMatch : Bool
  isEmptyValue : Bool
  initErr : Bool              -- `regexp.Compile` failed: `Init` returns the error
deriving Repr

/-- `Init(name, key, value, neg, false)` -/
def initString (value : B) : TF :=
  { isRegexp := false, value := value, isLiteralRegexp := false, valPrefix := escape value, orSuffixes := [],
    matcher := none, matchCost := 0, isEmptyMatch := value.length == 0, isEmptyValue := value.length == 0,
    initErr := false }

/-- `getOptimizedReMatchFunc` -/
def optimized (ast : Sre) : Shape × Nat :=
  match optShape ast with
  | some (sh, _, cost) => (sh, cost)
  | none => (.fallback, reMatchCost)

/-- `Init(name, key, text, neg, true)`; `reMatchNil` = `reSuffixMatch(nil)` of the result (read only
when the regex text is empty) -/
def initRegex (r : RxIn) (reMatchNil : Bool) : TF :=
  if r.expr.length == 0 then
    { isRegexp := true, value := r.pfx, isLiteralRegexp := true, valPrefix := [], orSuffixes := [],
      matcher := some (.containsValue r.pfx), matchCost := 0, isEmptyMatch := false,
      isEmptyValue := r.text.length == 0, initErr := false }
  else if !r.compileOk then
    { isRegexp := true, value := r.text, isLiteralRegexp := false, valPrefix := escape r.pfx, orSuffixes := [],
      matcher := none, matchCost := 0, isEmptyMatch := false, isEmptyValue := r.text.length == 0, initErr := true }
  else
    let ov := getOrValues r.ast
    let (sh, cost) := if ov.length > 0 then (Shape.orValues ov, ov.length * literalMatchCost) else optimized r.ast
    { isRegexp := true, value := r.text, isLiteralRegexp := false, valPrefix := escape r.pfx, orSuffixes := ov,
      matcher := some sh, matchCost := cost, isEmptyMatch := r.text.length == 0 && reMatchNil,
      isEmptyValue := r.text.length == 0, initErr := false }

/-- does the index scan of the filter accept a present tag value? (`updateTSIDsByOrSuffixes`:
seek to prefix ++ suffix ++ separator; else `getTSIDsForTagFilterSlow`: items below `tf.prefix`,
`matchSuffix` on the rest up to the separator) -/
def TF.accepts (tf : TF) (reMatch : B → Bool) (v : B) : Bool :=
  let ev := escape v
  if tf.orSuffixes.length > 0 then tf.orSuffixes.any (fun s => ev == tf.valPrefix ++ s)
  else if tf.valPrefix.isPrefixOf ev then
    let rest := ev.drop tf.valPrefix.length
    if tf.isEmptyValue && !tf.isRegexp then true
    else if !tf.isRegexp then rest.length == 0
    else match tf.matcher with
      | some sh => sh.eval reMatch rest
      | none => false
  else false

/-- `matchSeriesKeyTagFilter`'s `matchRegex` on the tag value (empty for an absent tag) -/
def TF.pruneMatch (tf : TF) («matches» : B → Bool) (v : B) : Bool :=
  if tf.isLiteralRegexp then containsB v tf.value else «matches» v

/-- `tagFilter.Marshal`: the regexp component of the cache key and the value -/
def TF.ckey (tf : TF) : Nat × B := (if !tf.isRegexp then 0 else if tf.isLiteralRegexp then 2 else 1, tf.value)

end OG.C10.TF
