/-
C10 — property theorems.

Property: "Every distinct series is assigned exactly one identifier, the same series always gets
the same identifier, two different series never share one, also after caches are dropped or the
index is closed and reopened. A tag predicate built from =, !=, =~, !~ (unanchored matching), AND,
OR and parentheses selects exactly the series whose tags satisfy it, an absent tag behaving as the
empty string; show-series, tag-key and tag-value listings report exactly what was written."

All theorems are about `Reach M s`: every state reachable from a fresh index by any sequence of
insert / lookup / flush / cache clear / reopen / restart / delete / select-search operations
(`Op.Ok`: well-formed series keys, predicates over non-empty tag keys, no overflow of the 40-bit
sequence part of a tsid).
-/
import OG.C10.Inv

namespace OG.C10

variable {Re : Type}

/-- the index stores the pair (series key, id), visible or still pending -/
def Issued (s : St) (k : SKey) (i : Id) : Prop := Item.k2i k i ∈ s.vis ++ s.pend

theorem issued_iff {s : St} {cv cp : List (SKey × Id)} (h : Inv s cv cp) {k : SKey} {i : Id} :
    Issued s k i ↔ (k, i) ∈ cv ++ cp := by
  unfold Issued
  rw [h.vis, h.pend, ← Gen_append, mem_Gen_k2i]

/-- **T1 `id_unique_stable`.** In every reachable state (any interleaving, including cache clear,
reopen and restart with a re-seeded sequence):
1. a series key has at most one id that is not deleted;
2. an id belongs to one series key;
3. every issued id carries the current logical clock and a sequence part that the generator has
   already passed, so the next generated id is new;
4. an issued pair is never lost or changed by a further operation;
5. writing a series that has a live id again returns that id. -/
theorem id_unique_stable {M : Matchers Re} {s : St} (hr : Reach M s) :
    (∀ k i j, Issued s k i → Issued s k j → i ∉ s.deleted → j ∉ s.deleted → i = j) ∧
    (∀ k k' i, Issued s k i → Issued s k' i → k = k') ∧
    (∀ k i, Issued s k i → ∃ q, 0 < q ∧ q ≤ s.seq ∧ i = mkId s.clock q) ∧
    (∀ (op : Op Re), op.Ok s → ∀ k i, Issued s k i → Issued (apply M s op) k i) ∧
    (∀ k i, k.WF → s.seq + 1 < 2 ^ 40 → Issued s k i → i ∉ s.deleted → (insert s k).1 = i) := by
  obtain ⟨cv, cp, h⟩ := reach_inv hr
  refine ⟨?_, ?_, ?_, ?_, ?_⟩
  · intro k i j hi hj hid hjd
    have := h.live1 _ ((issued_iff h).mp hi) _ ((issued_iff h).mp hj) rfl hid hjd
    exact (Prod.mk.inj this).2
  · intro k k' i hi hj
    exact h.good.key_eq ((issued_iff h).mp hi) ((issued_iff h).mp hj)
  · intro k i hi
    exact h.ids _ ((issued_iff h).mp hi)
  · intro op hok k i hi
    obtain ⟨cv', cp', h', hsub⟩ := apply_inv (M := M) h op hok
    exact (issued_iff h').mpr (hsub _ ((issued_iff h).mp hi))
  · intro k i hk hb hi hid
    obtain ⟨_, _, _, _, _, _, _, _, _, _, _, hst⟩ := insert_spec h hk hb
    exact hst i ((issued_iff h).mp hi) hid

/-- the next id the generator hands out is above every issued id (no wrap-around yet) -/
theorem generator_above {M : Matchers Re} {s : St} (hr : Reach M s) (hb : s.seq + 1 < 2 ^ 40)
    {k : SKey} {i : Id} (hi : Issued s k i) : i < mkId s.clock (s.seq + 1) := by
  obtain ⟨cv, cp, h⟩ := reach_inv hr
  obtain ⟨q, _, hq, he⟩ := h.ids _ ((issued_iff h).mp hi)
  simp only at he
  rw [he]
  unfold mkId
  rw [Nat.mod_eq_of_lt (show q < 2 ^ 40 by omega), Nat.mod_eq_of_lt hb]
  exact Nat.add_lt_add_left (by omega) _

/-- brute force: the visible, not deleted series of the measurement whose key satisfies the
predicate (absent tag = empty string, regexes by `M.matches`) -/
def Matches (M : Matchers Re) (s : St) (mst : Str) (p : Option (Pred Re)) (i : Id) : Prop :=
  ∃ key, Item.k2i key i ∈ s.vis ∧ key.mst = mst ∧ i ∉ s.deleted ∧ optSat M p key

theorem sem_iff_matches {M : Matchers Re} {s : St} {cv cp : List (SKey × Id)} (h : Inv s cv cp)
    {mst : Str} {p : Option (Pred Re)} {i : Id} :
    Sem cv mst s.deleted (optSat M p) i ↔ Matches M s mst p i := by
  unfold Sem Matches
  constructor
  · rintro ⟨k, h1, h2, h3, h4⟩; exact ⟨k, by rw [h.vis]; exact mem_Gen_k2i.mpr h1, h2, h3, h4⟩
  · rintro ⟨k, h1, h2, h3, h4⟩; exact ⟨k, mem_Gen_k2i.mp (by rw [← h.vis]; exact h1), h2, h3, h4⟩

theorem optDsat_iff_optSat {M : Matchers Re} (hM : MatcherFaithful M) (p : Option (Pred Re)) {k : SKey}
    (hk : k.WF) : optDsat M p k ↔ optSat M p k := by
  cases p with
  | none => exact Iff.rfl
  | some q => simp only [optDsat, optSat]; rw [q.dsat_eq_sat hM hk]

/-- **T2 `search_eq_bruteforce_param`.** (The select path answers from the tag-filter cache; between
a periodic, non-final flush and the deferred flush callback — `needBump` — cached results may be
stale, see `staleness_window_witness`; the statement for the select path is for the states in
which no callback is owed, the show-series path is exact in every state.) For every predicate tree over =, !=, =~, !~, AND, OR and
parentheses (or no predicate), in every reachable state, both evaluation paths of the index — the
show-series path and the select path with its tag-filter cache, cost ordering and pruning — return
exactly the brute-force answer, **provided** the matchers derived by `tagFilter.Init` agree with
unanchored matching (`MatcherFaithful`) and cache keys identify filters (`KeySound`). -/
theorem search_eq_bruteforce_param {M : Matchers Re} (hM : MatcherFaithful M) (hK : KeySound M) {s : St}
    (hr : Reach M s) (mst : Str) (p : Option (Pred Re)) (hp : optKeysOk p) :
    (∀ i, i ∈ searchShow M s mst p ↔ Matches M s mst p i) ∧
    (s.needBump = false →
      ∃ ids, (searchSel M s mst p).1 = some ids ∧ ∀ i, i ∈ ids ↔ Matches M s mst p i) := by
  obtain ⟨cv, cp, h, hc⟩ := reach_cache hM hK hr
  constructor
  · intro i
    rw [mem_searchShow h.goodVis h.vis p hp, ← sem_iff_matches h]
    exact Sem.congr h.goodVis (fun k hk => optDsat_iff_optSat hM p hk)
  · intro hb
    obtain ⟨_, _, ids, h1, h2⟩ := searchSel_spec hM hK h (hc hb) mst p hp
    exact ⟨ids, h1, fun i => by rw [h2 i, sem_iff_matches h]⟩

/-- Without any hypothesis on the matchers the show-series path still computes the set algebra
exactly — over the *derived* semantics of the atoms (this is what the correspondence run checks
against the real index on every input, including the ones where the regex findings apply). -/
theorem show_eq_derived {M : Matchers Re} {s : St} (hr : Reach M s) (mst : Str) (p : Option (Pred Re))
    (hp : optKeysOk p) (i : Id) :
    i ∈ searchShow M s mst p ↔
      ∃ key, Item.k2i key i ∈ s.vis ∧ key.mst = mst ∧ i ∉ s.deleted ∧ optDsat M p key := by
  obtain ⟨cv, cp, h⟩ := reach_inv hr
  rw [mem_searchShow h.goodVis h.vis p hp]
  unfold Sem
  constructor
  · rintro ⟨k, h1, h2, h3, h4⟩; exact ⟨k, by rw [h.vis]; exact mem_Gen_k2i.mpr h1, h2, h3, h4⟩
  · rintro ⟨k, h1, h2, h3, h4⟩; exact ⟨k, mem_Gen_k2i.mp (by rw [← h.vis]; exact h1), h2, h3, h4⟩

/-- The full statement (no hypothesis on the matchers): what the property asks of the code. -/
def search_eq_bruteforce_full : Prop :=
  ∀ (Re : Type) (M : Matchers Re) (s : St) (mst : Str) (p : Option (Pred Re)), Reach M s → optKeysOk p →
    ∀ i, i ∈ searchShow M s mst p ↔ Matches M s mst p i

/-- the matchers `tagFilter.Init` derives for `host =~ /[wd]/` over the values web, w, a
(observed on the real index): unanchored matching selects web and w, the tag filter only w -/
def witnessM : Matchers Unit where
  «matches» := fun _ v => v == "web" || v == "w"
  matchEmpty := fun _ => false
  tfMatch := fun _ v => v == "w"
  pruneMatch := fun _ v => v == "web" || v == "w"
  ckey := fun _ => (1, "[wd]")
  emptyText := fun _ => false

def witnessKey : SKey := ⟨"m", [("host", "web")]⟩

theorem witnessKey_wf : witnessKey.WF := by
  constructor
  · intro t ht
    simp only [witnessKey, List.mem_singleton] at ht
    subst ht
    exact ⟨by decide, by decide⟩
  · intro t ht u hu _
    simp only [witnessKey, List.mem_singleton] at ht hu
    rw [ht, hu]

def witnessState : St := apply witnessM (apply witnessM (St.init 1 1000) (.ins witnessKey)) .flush

theorem witness_reach : Reach witnessM witnessState :=
  Reach.step .flush (Reach.step (.ins witnessKey) (Reach.init 1 1000 (by omega) (by omega))
    ⟨witnessKey_wf, by show 1000 + 1 < 2 ^ 40; omega⟩) trivial

/-- **T2' the code as it is does not satisfy the full statement**: series `m,host=web`,
`host =~ /[wd]/` — brute force selects it, the index does not. -/
theorem search_eq_bruteforce_full_false : ¬ search_eq_bruteforce_full := by
  intro hfull
  have h := hfull Unit witnessM witnessState "m" (some (.atom (.re "host" ()))) witness_reach
    (by show ("host" : Str) ≠ ""; decide) (mkId 1 1001)
  have hno : mkId 1 1001 ∉ searchShow witnessM witnessState "m" (some (.atom (.re "host" ()))) := by decide
  apply hno
  rw [h]
  refine ⟨witnessKey, by decide, rfl, by decide, ?_⟩
  show Pred.sat witnessM witnessKey (.atom (.re "host" ())) = true
  decide

/-- **T3 `cache_coherent`.** Whatever filter results earlier searches left in the tag-filter cache:
after a series is written and the index flushed, a select-path search returns the series iff its
key satisfies the predicate. -/
theorem cache_coherent {M : Matchers Re} (hM : MatcherFaithful M) (hK : KeySound M) {s : St} (hr : Reach M s)
    (hnb : s.needBump = false)
    (key : SKey) (hk : key.WF) (hb : s.seq + 1 < 2 ^ 40) (p : Option (Pred Re)) (hp : optKeysOk p) :
    ∃ ids, (searchSel M (flush (insert s key).2) key.mst p).1 = some ids ∧
      ((insert s key).1 ∈ ids ↔ optSat M p key) := by
  have hr1 : Reach M (apply M s (.ins key)) := Reach.step _ hr ⟨hk, hb⟩
  have hr2 : Reach M (apply M (apply M s (.ins key)) .flush) := Reach.step _ hr1 trivial
  have hnb2 : (apply M (apply M s (.ins key)) .flush).needBump = false := by
    show (flush (insert s key).2).needBump = false
    rw [flush_needBump, insert_needBump]; exact hnb
  obtain ⟨_, hsel⟩ := search_eq_bruteforce_param hM hK hr2 key.mst p hp
  obtain ⟨ids, h1, h2⟩ := hsel hnb2
  refine ⟨ids, h1, ?_⟩
  rw [h2]
  -- the written series is stored under the returned id, visibly, and is not deleted
  obtain ⟨cv, cp, h⟩ := reach_inv hr
  obtain ⟨cp', hI, _, _, hdel, _, _, _, _, hmem, hnd, _⟩ := insert_spec h hk hb
  have hI2 := flush_spec hI
  obtain ⟨hdel2, _⟩ := flush_frame (insert s key).2
  constructor
  · rintro ⟨k', h1', _, _, h4⟩
    have hmem' : (k', (insert s key).1) ∈ (cv ++ cp') ++ [] := by
      have := (issued_iff hI2).mp (List.mem_append_left _ h1')
      exact this
    rw [List.append_nil] at hmem'
    rw [hI.good.key_eq hmem' hmem] at h4
    exact h4
  · intro hsat
    refine ⟨key, ?_, rfl, ?_, hsat⟩
    · show Item.k2i key (insert s key).1 ∈ (flush (insert s key).2).vis
      rw [hI2.vis]; exact mem_Gen_k2i.mpr hmem
    · show (insert s key).1 ∉ (flush (insert s key).2).deleted
      rw [hdel2, hdel]; exact hnd

/-- **T4 `listings_exact`.** In every reachable state
* the show-series listing (`SearchSeriesKeys`, any predicate) consists of the keys of the visible,
  not deleted series of the measurement on which the predicate's derived semantics holds — with
  no predicate: exactly what was written minus what was deleted;
* the tag keys derived from it are exactly the tag keys of those series;
* the tag-value listing of a tag key consists of the values these series carry for it. -/
theorem listings_exact {M : Matchers Re} {s : St} (hr : Reach M s) (mst : Str) (p : Option (Pred Re))
    (hp : optKeysOk p) :
    (∀ key, key ∈ seriesKeys M s mst p ↔
      ∃ i, Item.k2i key i ∈ s.vis ∧ key.mst = mst ∧ i ∉ s.deleted ∧ optDsat M p key) ∧
    (∀ k, k ∈ tagKeys M s mst p ↔
      ∃ key i v, Item.k2i key i ∈ s.vis ∧ key.mst = mst ∧ i ∉ s.deleted ∧ optDsat M p key ∧ (k, v) ∈ key.tags) ∧
    (∀ k v, k ≠ "" → (v ∈ tagVals M s mst k p ↔
      ∃ key i, Item.k2i key i ∈ s.vis ∧ key.mst = mst ∧ i ∉ s.deleted ∧ optDsat M p key ∧ (k, v) ∈ key.tags)) := by
  obtain ⟨cv, cp, h⟩ := reach_inv hr
  have hgv := h.goodVis
  have hkeys : ∀ key, key ∈ seriesKeys M s mst p ↔
      ∃ i, Item.k2i key i ∈ s.vis ∧ key.mst = mst ∧ i ∉ s.deleted ∧ optDsat M p key := by
    intro key
    unfold seriesKeys
    simp only [List.mem_filterMap]
    constructor
    · rintro ⟨i, hi, hk⟩
      obtain ⟨k', h1, h2, h3, h4⟩ := (mem_searchShow hgv h.vis p hp).mp hi
      rw [h.vis, keyOfId_eq hgv h1] at hk
      simp only [Option.some.injEq] at hk
      subst hk
      exact ⟨i, by rw [h.vis]; exact mem_Gen_k2i.mpr h1, h2, h3, h4⟩
    · rintro ⟨i, h1, h2, h3, h4⟩
      have h1' : (key, i) ∈ cv := mem_Gen_k2i.mp (by rw [← h.vis]; exact h1)
      exact ⟨i, (mem_searchShow hgv h.vis p hp).mpr ⟨key, h1', h2, h3, h4⟩, by rw [h.vis]; exact keyOfId_eq hgv h1'⟩
  refine ⟨hkeys, ?_, ?_⟩
  · intro k
    unfold tagKeys
    simp only [List.mem_flatMap, List.mem_map]
    constructor
    · rintro ⟨key, hkey, ⟨t, ht, rfl⟩⟩
      obtain ⟨i, h1, h2, h3, h4⟩ := (hkeys key).mp hkey
      exact ⟨key, i, t.2, h1, h2, h3, h4, ht⟩
    · rintro ⟨key, i, v, h1, h2, h3, h4, h5⟩
      exact ⟨key, (hkeys key).mpr ⟨i, h1, h2, h3, h4⟩, (k, v), h5, rfl⟩
  · intro k v hk
    unfold tagVals
    -- the eligible set of the condition
    have helig : ∀ q, p = some q → ∀ i, i ∈ showExpr M s.vis mst q ↔ Sem cv mst [] (fun key => q.dsat M key = true) i := by
      intro q hq i
      subst hq
      rw [h.vis]; exact mem_showExpr hgv q hp
    by_cases hany : (p.map (showExpr M s.vis mst)).any (·.isEmpty) = true
    · simp only [hany, if_true, List.not_mem_nil, false_iff]
      rintro ⟨key, i, h1, h2, _, h4, _⟩
      cases p with
      | none => simp at hany
      | some q =>
        simp only [Option.map_some, Option.any_some] at hany
        have hnone := isEmpty_iff_forall_not_mem.mp hany
        have h1' : (key, i) ∈ cv := mem_Gen_k2i.mp (by rw [← h.vis]; exact h1)
        exact hnone i ((helig q rfl i).mpr ⟨key, h1', h2, by simp, h4⟩)
    · simp only [hany, Bool.false_eq_true, if_false, List.mem_filterMap]
      constructor
      · rintro ⟨it, hit, hf⟩
        cases it with
        | k2i _ _ => simp at hf
        | i2k _ _ => simp at hf
        | t2i m k' v' i =>
          simp only at hf
          split at hf
          · rename_i hcond
            obtain ⟨rfl, rfl, hnd, hel⟩ := hcond
            simp only [Option.some.injEq] at hf
            subst hf
            rw [h.vis] at hit
            obtain ⟨key, h1, h2, h3⟩ := mem_Gen_t2i.mp hit
            have htag : (k', v') ∈ key.tags := by
              rcases h3 with h3 | ⟨h3, _⟩
              · exact h3
              · exact absurd h3 hk
            refine ⟨key, i, by rw [h.vis]; exact mem_Gen_k2i.mpr h1, h2, hnd, ?_, htag⟩
            cases p with
            | none => trivial
            | some q =>
              simp only [Option.map_some, eligible, decide_eq_true_eq] at hel
              obtain ⟨k2, g1, _, _, g4⟩ := (helig q rfl i).mp hel
              rw [hgv.key_eq g1 h1] at g4
              exact g4
          · simp at hf
      · rintro ⟨key, i, h1, h2, h3, h4, h5⟩
        have h1' : (key, i) ∈ cv := mem_Gen_k2i.mp (by rw [← h.vis]; exact h1)
        refine ⟨.t2i mst k v i, by rw [h.vis]; exact mem_Gen_t2i.mpr ⟨key, h1', h2, Or.inl h5⟩, ?_⟩
        have hel : eligible (p.map (showExpr M s.vis mst)) i = true := by
          cases p with
          | none => rfl
          | some q =>
            simp only [Option.map_some, eligible, decide_eq_true_eq]
            exact (helig q rfl i).mpr ⟨key, h1', h2, by simp, h4⟩
        simp [h3, hel]

/-! ### non-vacuity -/

/-- matchers that do satisfy the hypotheses: a regex is a flag "matches everything" plus one
literal it matches exactly otherwise -/
def exM : Matchers (Bool × Str) where
  «matches» := fun r v => r.1 || (v == r.2 && r.2 != "")
  matchEmpty := fun r => r.1
  tfMatch := fun r v => r.1 || (v == r.2 && r.2 != "")
  pruneMatch := fun r v => r.1 || (v == r.2 && r.2 != "")
  ckey := fun r => (if r.1 then 1 else 2, r.2)
  emptyText := fun _ => false

theorem exM_faithful : MatcherFaithful exM := by
  constructor
  · rintro ⟨b, t⟩
    cases b <;> simp [exM]
  · rintro ⟨b, t⟩ v h; simp [exM] at h; simp [exM, h]
  · rintro ⟨b, t⟩ v _; rfl
  · rintro ⟨b, t⟩ v; rfl

theorem exM_keysound : KeySound exM := by
  constructor
  · rintro ⟨b, t⟩; cases b <;> simp [exM]
  · rintro ⟨b, t⟩ ⟨b', t'⟩ h
    simp only [exM, Prod.mk.injEq] at h
    obtain ⟨h1, rfl⟩ := h
    have : b = b' := by cases b <;> cases b' <;> simp_all
    subst this
    exact ⟨rfl, fun _ => rfl⟩

/-- T2 instantiated: hypotheses satisfiable, on a state with a visible series and a regex predicate
that selects it -/
example : mkId 1 1001 ∈ searchShow exM witnessState "m" (some (.atom (.re "host" (false, "web")))) := by decide

example : Reach exM witnessState :=
  Reach.step .flush (Reach.step (.ins witnessKey) (Reach.init 1 1000 (by omega) (by omega))
    ⟨witnessKey_wf, by show 1000 + 1 < 2 ^ 40; omega⟩) trivial

/-- T1 on a concrete run: insert, clear, insert again, restart in the same second, insert again:
one id -/
example :
    let s0 := St.init 1 1000
    let r1 := insert s0 witnessKey
    let r2 := insert (clear r1.2) witnessKey
    let r3 := insert (restart r2.2 0) witnessKey
    r1.1 = r2.1 ∧ r2.1 = r3.1 ∧ r1.1 = mkId 1 1001 := by decide

end OG.C10
