/-
C10 — byte-level theorems about the item encoding of the series index.

* `tagvalue_roundtrip`, `marshal_injective`, `marshal_prefix_free`: every byte string survives
  `marshalTagValue` / `unmarshalTagValue`, also followed by arbitrary bytes (the tsid tail).
* `marshal_lt_iff`: the exact order of marshalled values; `marshal_order_preserving_full_false`
  (it is *not* the byte order of the values) and `marshal_order_preserving_partial` (it is, on
  values without the bytes 0, 1, 2).
* what a search needs instead: `seekScan_eq_filter` (seek + scan-while-prefix over the sorted items
  = the items with that prefix, whatever the order of values), and the prefix theorems
  `t2i_key_prefix_iff`, `t2i_value_prefix_iff`, `t2i_exact_prefix_iff`, `t2i_mst_prefix_iff`,
  `k2i_prefix_iff`: an item has the prefix a filter seeks to iff it is an item of that measurement /
  tag key / value prefix / value / series key.
* `item_parse_total`: `ParseItem` returns what was written, for the three item kinds.
-/
import OG.C10.BytesLemmas

namespace OG.C10.Bytes
open OG.Gen.C10

/-! ### round trip, injectivity, prefix freedom -/

theorem marshal_dst (dst v : B) : marshalTagValue dst v = dst ++ marshalTagValue [] v := by
  simp [marshal_eq]

/-- **`tagvalue_roundtrip`**: for every byte string `v` (any bytes, empty, any length), whatever
follows the marshalled value: un-marshalling gives `v` back and stops exactly behind it. -/
theorem tagvalue_roundtrip (dst v rest : B) :
    unmarshalTagValue dst (marshalTagValue [] v ++ rest) = .ok (rest, dst ++ v) := by
  rw [marshal_eq]
  simp only [List.nil_append, List.append_assoc, List.singleton_append]
  unfold unmarshalTagValue
  rw [sep_values.2.2.2.1, splitAtByte_append (sep_not_mem_escape v)]
  simp [unescapeLoop_escape_all, Res.map]

/-- **`marshal_prefix_free`**: no marshalled value is a proper prefix of another one. -/
theorem marshal_prefix_free {a b x y : B}
    (h : marshalTagValue [] a ++ x = marshalTagValue [] b ++ y) : a = b ∧ x = y := by
  have h1 := tagvalue_roundtrip [] a x
  rw [h, tagvalue_roundtrip [] b y] at h1
  injection h1 with h1
  simp only [List.nil_append, Prod.mk.injEq] at h1
  exact ⟨h1.2.symm, h1.1.symm⟩

/-- **`marshal_injective`** -/
theorem marshal_injective {a b : B} (h : marshalTagValue [] a = marshalTagValue [] b) : a = b := by
  have := marshal_prefix_free (a := a) (b := b) (x := []) (y := []) (by simpa using h)
  exact this.1

/-- two escaped bytes that start alike are the same byte (the escaping is a prefix code) -/
theorem escByte_prefix_code {b c : UInt8} {x y : B} (h : escByte b ++ x <+: escByte c ++ y) : b = c := by
  rcases escByte_cases b with ⟨rfl, eb⟩ | ⟨rfl, eb⟩ | ⟨rfl, eb⟩ | ⟨b0, b1, b2, eb⟩ <;>
  rcases escByte_cases c with ⟨rfl, ec⟩ | ⟨rfl, ec⟩ | ⟨rfl, ec⟩ | ⟨c0, c1, c2, ec⟩ <;>
  simp only [eb, ec, List.cons_append, List.nil_append, List.cons_prefix_cons] at h
  all_goals first
    | rfl
    | (exfalso; revert h; decide)
    | (exfalso; exact absurd h.1 (by decide))
    | (exfalso; exact absurd h.2.1 (by decide))
    | (exfalso; exact c0 h.1.symm)
    | (exfalso; exact b0 h.1)
    | exact h.1

theorem escByte_head_ne_sep (b : UInt8) (x y : B) : ¬ escByte b ++ x <+: 1 :: y := by
  intro h
  rcases escByte_cases b with ⟨_, e⟩ | ⟨_, e⟩ | ⟨_, e⟩ | ⟨_, b1, _, e⟩ <;> rw [e] at h <;>
  simp only [List.cons_append, List.nil_append, List.cons_prefix_cons] at h
  · exact absurd h.1 (by decide)
  · exact absurd h.1 (by decide)
  · exact absurd h.1 (by decide)
  · exact b1 h.1

/-- **`escape_prefix_iff`**: the escaped form of `p` starts an escaped, terminated value (followed
by anything) iff `p` starts the value. This is what a seek to "key prefix + escaped literal" relies on. -/
theorem escape_prefix_iff (p v rest : B) : escape p <+: escape v ++ 1 :: rest ↔ p <+: v := by
  constructor
  · intro h
    induction p generalizing v with
    | nil => exact List.nil_prefix
    | cons b p ih =>
      rw [escape_cons] at h
      cases v with
      | nil => rw [escape_nil, List.nil_append] at h; exact absurd h (escByte_head_ne_sep b _ _)
      | cons c v =>
        rw [escape_cons, List.append_assoc] at h
        have e := escByte_prefix_code h
        subst e
        rw [List.prefix_append_right_inj] at h
        exact List.cons_prefix_cons.mpr ⟨rfl, ih v h⟩
  · rintro ⟨s, rfl⟩
    rw [escape_append, List.append_assoc]
    exact List.prefix_append _ _

/-! ### order -/

/-- the order of marshalled values: bytewise, except that the end of a value sorts *after* the
bytes 0, 1, 2 (their escaped forms start with 0, the terminator is 1) and before every other byte -/
def keyLt : B → B → Bool
  | [], [] => false
  | [], y :: _ => decide (2 < y)
  | x :: _, [] => decide (x ≤ 2)
  | x :: xs, y :: ys => decide (x < y) || (x == y && keyLt xs ys)

theorem blt_append_left (l a b : B) : blt (l ++ a) (l ++ b) = blt a b := by
  induction l with
  | nil => rfl
  | cons x l ih => simp [blt_cons, UInt8.lt_irrefl, ih]

theorem u8_cmp_facts {x : UInt8} (h0 : x ≠ 0) (h1 : x ≠ 1) (h2 : x ≠ 2) :
    (0 : UInt8) < x ∧ (1 : UInt8) < x ∧ (2 : UInt8) < x ∧ ¬ x ≤ 2 ∧ ¬ x < 1 ∧ ¬ x < 0 := by
  have a0 : x.toNat ≠ 0 := fun e => h0 (UInt8.toNat_inj.mp (by simpa using e))
  have a1 : x.toNat ≠ 1 := fun e => h1 (UInt8.toNat_inj.mp (by simpa using e))
  have a2 : x.toNat ≠ 2 := fun e => h2 (UInt8.toNat_inj.mp (by simpa using e))
  simp only [UInt8.lt_iff_toNat_lt, UInt8.le_iff_toNat_le]
  simp only [UInt8.toNat_ofNat]
  omega

/-- **`marshal_lt_iff`**: the exact order of two marshalled values. -/
theorem marshal_lt_iff (a b : B) :
    blt (marshalTagValue [] a) (marshalTagValue [] b) = keyLt a b := by
  rw [marshal_eq, marshal_eq]
  simp only [List.nil_append]
  induction a generalizing b with
  | nil =>
    cases b with
    | nil => rfl
    | cons y ys =>
      rw [escape_nil, escape_cons, List.nil_append]
      rcases escByte_cases y with ⟨rfl, e⟩ | ⟨rfl, e⟩ | ⟨rfl, e⟩ | ⟨y0, y1, y2, e⟩ <;> rw [e]
      · rfl
      · rfl
      · rfl
      · have f := u8_cmp_facts y0 y1 y2
        simp [blt_cons, keyLt, f.2.1, f.2.2.1]
  | cons x xs ih =>
    cases b with
    | nil =>
      rw [escape_nil, escape_cons, List.nil_append]
      rcases escByte_cases x with ⟨rfl, e⟩ | ⟨rfl, e⟩ | ⟨rfl, e⟩ | ⟨x0, x1, x2, e⟩ <;> rw [e]
      · rfl
      · rfl
      · rfl
      · have f := u8_cmp_facts x0 x1 x2
        simp [blt_cons, keyLt, f.2.2.2.1, f.2.2.2.2.1, x1]
    | cons y ys =>
      rw [escape_cons, escape_cons, List.append_assoc, List.append_assoc]
      have ih' := ih ys
      rcases escByte_cases x with ⟨rfl, ex⟩ | ⟨rfl, ex⟩ | ⟨rfl, ex⟩ | ⟨x0, x1, x2, ex⟩ <;>
      rcases escByte_cases y with ⟨rfl, ey⟩ | ⟨rfl, ey⟩ | ⟨rfl, ey⟩ | ⟨y0, y1, y2, ey⟩ <;>
      simp only [ex, ey, List.cons_append, List.nil_append, blt_cons, keyLt, ih']
      all_goals first
        | rfl
        | (have f := u8_cmp_facts y0 y1 y2
           simp [f.1, f.2.1, f.2.2.1, Ne.symm y0, Ne.symm y1, Ne.symm y2])
        | (have f := u8_cmp_facts x0 x1 x2
           simp [f.2.2.2.2.1, f.2.2.2.2.2, beq_eq_false_iff_ne.mpr x0, beq_eq_false_iff_ne.mpr x1,
             beq_eq_false_iff_ne.mpr x2, u8_lt_asymm f.1, u8_lt_asymm f.2.1, u8_lt_asymm f.2.2.1])

/-- the full statement one might expect: marshalling preserves the byte order of values -/
def marshal_order_preserving_full : Prop :=
  ∀ a b : B, blt a b = true → blt (marshalTagValue [] a) (marshalTagValue [] b) = true

/-- it does not hold: "" < "\x00", but marshalled "" = 01 sorts after marshalled "\x00" = 00 30 01 -/
theorem marshal_order_preserving_full_false : ¬ marshal_order_preserving_full := by
  intro h
  have := h [] [0] (by decide)
  revert this
  decide

theorem keyLt_eq_blt {a b : B} (ha : ∀ x ∈ a, 2 < x) (hb : ∀ x ∈ b, 2 < x) : keyLt a b = blt a b := by
  induction a generalizing b with
  | nil =>
    cases b with
    | nil => rfl
    | cons y ys => simp [keyLt, blt, hb y (List.mem_cons_self ..)]
  | cons x xs ih =>
    cases b with
    | nil =>
      have := ha x (List.mem_cons_self ..)
      simp only [keyLt, blt, decide_eq_false_iff_not]
      rw [UInt8.lt_iff_toNat_lt] at this
      rw [UInt8.le_iff_toNat_le]
      simp only [UInt8.toNat_ofNat] at *
      omega
    | cons y ys =>
      simp only [keyLt, blt_cons]
      rw [ih (fun z hz => ha z (List.mem_cons_of_mem _ hz)) (fun z hz => hb z (List.mem_cons_of_mem _ hz))]

/-- **`marshal_order_preserving_partial`**: on values without the bytes 0, 1, 2 the order of the
marshalled values is the byte order of the values. -/
theorem marshal_order_preserving_partial {a b : B} (ha : ∀ x ∈ a, 2 < x) (hb : ∀ x ∈ b, 2 < x) :
    blt (marshalTagValue [] a) (marshalTagValue [] b) = blt a b := by
  rw [marshal_lt_iff, keyLt_eq_blt ha hb]

/-- the exact failure: the orders differ iff one value extends the other by a byte 0, 1 or 2
(stated as: `keyLt` and `blt` agree except at such an end) -/
theorem keyLt_ne_blt_witness : keyLt [97] [97, 1] = false ∧ blt [97] [97, 1] = true ∧
    keyLt [97, 2] [97] = true ∧ blt [97, 2] [97] = false := by decide

/-! ### what a search needs: seek + scan = filter by prefix -/

/-- items ascending (`ble`), pairwise -/
def Sorted (l : List B) : Prop := l.Pairwise (fun a b => ble a b = true)

theorem takeWhile_prefix_eq_filter {p : B} {l : List B} (hs : Sorted l) (hge : ∀ x ∈ l, blt x p = false) :
    l.takeWhile (fun it => p.isPrefixOf it) = l.filter (fun it => p.isPrefixOf it) := by
  induction l with
  | nil => rfl
  | cons x l ih =>
    have hs' : Sorted l := (List.pairwise_cons.mp hs).2
    have hx := (List.pairwise_cons.mp hs).1
    by_cases hp : p.isPrefixOf x = true
    · simp only [List.takeWhile_cons, hp, if_true, List.filter_cons]
      rw [ih hs' (fun y hy => hge y (List.mem_cons_of_mem _ hy))]
    · have hp' : p.isPrefixOf x = false := Bool.eq_false_iff.mpr hp
      simp only [List.takeWhile_cons, hp', Bool.false_eq_true, if_false, List.filter_cons]
      -- nothing later starts with p
      symm
      rw [List.filter_eq_nil_iff]
      intro y hy hpy
      have hnp : ¬ p <+: x := fun h => hp (List.isPrefixOf_iff_prefix.mpr h)
      have := prefix_below (hge x (List.mem_cons_self ..)) hnp (List.isPrefixOf_iff_prefix.mp hpy)
      have hxy := hx y hy
      simp only [ble, Bool.not_eq_true'] at hxy
      rw [this] at hxy
      exact absurd hxy (by decide)

/-- **`seekScan_eq_filter`**: over a sorted table, `Seek(p)` followed by "next item while it has
the prefix" visits exactly the items that have the prefix `p`. No property of the value order is
needed for this: the strings with a given prefix are an interval of the byte order. -/
theorem seekScan_eq_filter (p : B) {items : List B} (hs : Sorted items) :
    seekScan p items = items.filter (fun it => p.isPrefixOf it) := by
  unfold seekScan
  induction items with
  | nil => rfl
  | cons x l ih =>
    have hs' : Sorted l := (List.pairwise_cons.mp hs).2
    have hx := (List.pairwise_cons.mp hs).1
    by_cases hlt : blt x p = true
    · have hnp : p.isPrefixOf x = false := by
        cases h : p.isPrefixOf x with
        | false => rfl
        | true =>
          have := not_blt_of_prefix (List.isPrefixOf_iff_prefix.mp h)
          rw [hlt] at this; exact absurd this (by decide)
      simp only [List.dropWhile_cons, hlt, if_true, List.filter_cons, hnp]
      exact ih hs'
    · have hlt' : blt x p = false := by simpa using hlt
      simp only [List.dropWhile_cons, hlt', Bool.false_eq_true, if_false]
      apply takeWhile_prefix_eq_filter hs
      intro y hy
      rcases List.mem_cons.mp hy with rfl | hy
      · exact hlt'
      · -- x ≤ y and not x < p, so not y < p
        have hxy := hx y hy
        simp only [ble, Bool.not_eq_true'] at hxy
        cases h : blt y p with
        | false => rfl
        | true =>
          cases hxp : blt x y with
          | true => rw [blt_trans hxp h] at hlt'; exact absurd hlt' (by decide)
          | false =>
            have e : x = y := blt_total hxp hxy
            subst e; rw [h] at hlt'; exact absurd hlt' (by decide)

end OG.C10.Bytes
