/-
C10 — helper lemmas for the byte-level theorems (`BytesProps.lean`): what the regenerated escaping
tables say, how the escaping loop and the un-escaping loop compose, byte order.
-/
import OG.C10.Bytes

namespace OG.C10.Bytes
open OG.Gen.C10

/-! ### the regenerated tables, case by case -/

/-- the escaping switch as it is in the source now: three bytes get a two-byte form that starts
with the escape byte, every other byte is copied -/
theorem escByte_cases (b : UInt8) :
    (b = 0 ∧ escByte b = [0, 48]) ∨ (b = 1 ∧ escByte b = [0, 49]) ∨ (b = 2 ∧ escByte b = [0, 50]) ∨
    (b ≠ 0 ∧ b ≠ 1 ∧ b ≠ 2 ∧ escByte b = [b]) := by
  by_cases h0 : b = 0
  · subst h0; left; exact ⟨rfl, by decide⟩
  by_cases h1 : b = 1
  · subst h1; right; left; exact ⟨rfl, by decide⟩
  by_cases h2 : b = 2
  · subst h2; right; right; left; exact ⟨rfl, by decide⟩
  right; right; right
  refine ⟨h0, h1, h2, ?_⟩
  simp [escByte, lookup, escTable, h0, h1, h2]

theorem sep_values : tagSeparatorChar = 1 ∧ escapeChar = 0 ∧ kvSeparatorChar = 2 ∧
    unmarshalSeparator = 1 ∧ unmarshalEscape = 0 := by decide

theorem escape_nil : escape [] = [] := rfl

theorem escape_cons (b : UInt8) (v : B) : escape (b :: v) = escByte b ++ escape v := by
  simp [escape, List.flatMap_cons]

theorem escape_append (a b : B) : escape (a ++ b) = escape a ++ escape b := by
  simp [escape, List.flatMap_append]

/-- the separator never occurs inside an escaped value -/
theorem sep_not_mem_escape (v : B) : (1 : UInt8) ∉ escape v := by
  induction v with
  | nil => simp [escape]
  | cons b v ih =>
    rw [escape_cons]
    intro h
    rcases List.mem_append.mp h with h | h
    · rcases escByte_cases b with ⟨_, e⟩ | ⟨_, e⟩ | ⟨_, e⟩ | ⟨_, h1, _, e⟩ <;> rw [e] at h
      · revert h; decide
      · revert h; decide
      · revert h; decide
      · simp only [List.mem_singleton] at h; exact h1 h.symm
    · exact ih h

theorem hasSpecial_false {v : B} (h : hasSpecial v = false) : ∀ b ∈ v, b ≠ 0 ∧ b ≠ 1 ∧ b ≠ 2 := by
  intro b hb
  simp only [hasSpecial, specialBytes, List.any_cons, List.any_nil, Bool.or_false, Bool.or_eq_false_iff,
    List.contains_eq_mem, decide_eq_false_iff_not] at h
  refine ⟨?_, ?_, ?_⟩ <;> intro e <;> subst e
  · exact h.1 hb
  · exact h.2.1 hb
  · exact h.2.2 hb

theorem escape_of_no_special {v : B} (h : ∀ b ∈ v, b ≠ 0 ∧ b ≠ 1 ∧ b ≠ 2) : escape v = v := by
  induction v with
  | nil => rfl
  | cons b v ih =>
    rw [escape_cons, ih (fun x hx => h x (List.mem_cons_of_mem _ hx))]
    obtain ⟨h0, h1, h2⟩ := h b (List.mem_cons_self ..)
    rcases escByte_cases b with ⟨e, _⟩ | ⟨e, _⟩ | ⟨e, _⟩ | ⟨_, _, _, e⟩
    · exact absurd e h0
    · exact absurd e h1
    · exact absurd e h2
    · rw [e]; rfl

/-- both branches of `marshalTagValue` give the escaped value followed by the separator -/
theorem marshal_eq (dst src : B) : marshalTagValue dst src = dst ++ escape src ++ [1] := by
  unfold marshalTagValue
  cases h : hasSpecial src with
  | true => simp [sep_values.1]
  | false => simp [sep_values.1, escape_of_no_special (hasSpecial_false h)]

/-! ### un-escaping -/

theorem splitAtByte_append {c : UInt8} {a : B} (h : c ∉ a) (r : B) :
    splitAtByte c (a ++ c :: r) = some (a, r) := by
  induction a with
  | nil => simp [splitAtByte]
  | cons b a ih =>
    have hb : b ≠ c := fun e => h (e ▸ List.mem_cons_self ..)
    have ha : c ∉ a := fun e => h (List.mem_cons_of_mem _ e)
    simp [splitAtByte, hb, ih ha]

theorem unescapeLoop_plain {b : UInt8} (hb : b ≠ 0) (l : B) :
    unescapeLoop (b :: l) = (unescapeLoop l).map (b :: ·) := by
  cases l with
  | nil => simp [unescapeLoop, sep_values.2.2.2.2, hb, Res.map]
  | cons c t => simp [unescapeLoop, sep_values.2.2.2.2, hb]

theorem unescapeLoop_escape {c x : UInt8} (h : lookup c unescTable = some x) (t : B) :
    unescapeLoop (0 :: c :: t) = (unescapeLoop t).map (x :: ·) := by
  simp [unescapeLoop, sep_values.2.2.2.2, h]

theorem unescapeLoop_bad {c : UInt8} (h : lookup c unescTable = none) (t : B) :
    unescapeLoop (0 :: c :: t) = .err (.invalidEscape c) := by
  simp [unescapeLoop, sep_values.2.2.2.2, h]

theorem unescapeLoop_escByte (b : UInt8) (l : B) :
    unescapeLoop (escByte b ++ l) = (unescapeLoop l).map (b :: ·) := by
  rcases escByte_cases b with ⟨rfl, e⟩ | ⟨rfl, e⟩ | ⟨rfl, e⟩ | ⟨h0, _, _, e⟩ <;> rw [e]
  · simp only [List.cons_append, List.nil_append]; exact unescapeLoop_escape (by decide) l
  · simp only [List.cons_append, List.nil_append]; exact unescapeLoop_escape (by decide) l
  · simp only [List.cons_append, List.nil_append]; exact unescapeLoop_escape (by decide) l
  · simp only [List.cons_append, List.nil_append]; exact unescapeLoop_plain h0 l

theorem unescapeLoop_escape_all (v : B) : unescapeLoop (escape v) = .ok v := by
  induction v with
  | nil => rfl
  | cons b v ih => rw [escape_cons, unescapeLoop_escByte, ih]; rfl

/-! ### byte order -/

theorem u8_lt_or_gt {a b : UInt8} (h : a ≠ b) : a < b ∨ b < a := by
  rw [UInt8.lt_iff_toNat_lt, UInt8.lt_iff_toNat_lt]
  have : a.toNat ≠ b.toNat := fun e => h (UInt8.toNat_inj.mp e)
  omega

theorem u8_lt_asymm {a b : UInt8} (h : a < b) : ¬ b < a := by
  rw [UInt8.lt_iff_toNat_lt] at *; omega

theorem blt_irrefl (a : B) : blt a a = false := by
  induction a with
  | nil => rfl
  | cons x xs ih => simp [blt, ih, UInt8.lt_irrefl]

theorem blt_cons (x y : UInt8) (xs ys : B) :
    blt (x :: xs) (y :: ys) = (decide (x < y) || (x == y && blt xs ys)) := rfl

theorem blt_trans {a b c : B} (h1 : blt a b = true) (h2 : blt b c = true) : blt a c = true := by
  induction a generalizing b c with
  | nil =>
    cases c with
    | nil => cases b <;> simp [blt] at h1 h2
    | cons _ _ => rfl
  | cons x xs ih =>
    cases b with
    | nil => simp [blt] at h1
    | cons y ys =>
      cases c with
      | nil => simp [blt] at h2
      | cons z zs =>
        simp only [blt_cons, Bool.or_eq_true, decide_eq_true_eq, Bool.and_eq_true, beq_iff_eq] at h1 h2 ⊢
        rcases h1 with h1 | ⟨rfl, h1⟩
        · rcases h2 with h2 | ⟨rfl, _⟩
          · exact Or.inl (UInt8.lt_trans h1 h2)
          · exact Or.inl h1
        · rcases h2 with h2 | ⟨rfl, h2⟩
          · exact Or.inl h2
          · exact Or.inr ⟨rfl, ih h1 h2⟩

theorem blt_asymm {a b : B} (h : blt a b = true) : blt b a = false := by
  cases h' : blt b a with
  | false => rfl
  | true => have := blt_trans h h'; rw [blt_irrefl] at this; exact absurd this (by decide)

theorem blt_total {a b : B} (h1 : blt a b = false) (h2 : blt b a = false) : a = b := by
  induction a generalizing b with
  | nil => cases b with
    | nil => rfl
    | cons _ _ => simp [blt] at h1
  | cons x xs ih =>
    cases b with
    | nil => simp [blt] at h2
    | cons y ys =>
      simp only [blt_cons, Bool.or_eq_false_iff, decide_eq_false_iff_not, Bool.and_eq_false_iff,
        beq_eq_false_iff_ne] at h1 h2
      by_cases e : x = y
      · subst e
        have a1 : blt xs ys = false := by rcases h1.2 with h | h; exact absurd rfl h; exact h
        have a2 : blt ys xs = false := by rcases h2.2 with h | h; exact absurd rfl h; exact h
        rw [ih a1 a2]
      · rcases u8_lt_or_gt e with h | h
        · exact absurd h h1.1
        · exact absurd h h2.1

theorem ble_trans {a b c : B} (h1 : ble a b = true) (h2 : ble b c = true) : ble a c = true := by
  simp only [ble, Bool.not_eq_true'] at *
  cases h : blt c a with
  | false => rfl
  | true =>
    -- c < a, not b < a, not c < b
    cases hbc : blt b c with
    | true => rw [blt_trans hbc h] at h1; exact absurd h1 (by decide)
    | false =>
      have e : b = c := blt_total hbc h2
      subst e
      rw [h] at h1; exact absurd h1 (by decide)

/-- a string is not below its own prefix -/
theorem not_blt_of_prefix {p x : B} (h : p <+: x) : blt x p = false := by
  induction p generalizing x with
  | nil => cases x <;> rfl
  | cons a p ih =>
    cases x with
    | nil => simp at h
    | cons b x =>
      obtain ⟨rfl, h'⟩ := List.cons_prefix_cons.mp h
      simp [blt_cons, UInt8.lt_irrefl, ih h']

/-- the strings with a given prefix form an interval: whatever is at or above `p`, does not start
with `p`, is above everything that starts with `p` -/
theorem prefix_below {p x y : B} (hx : blt x p = false) (hnp : ¬ p <+: x) (hy : p <+: y) : blt y x = true := by
  induction p generalizing x y with
  | nil => exact absurd (List.nil_prefix) hnp
  | cons a p ih =>
    cases y with
    | nil => simp at hy
    | cons b y =>
      obtain ⟨rfl, hy'⟩ := List.cons_prefix_cons.mp hy
      cases x with
      | nil => simp [blt] at hx
      | cons c x =>
        simp only [blt_cons, Bool.or_eq_false_iff, decide_eq_false_iff_not, Bool.and_eq_false_iff,
          beq_eq_false_iff_ne] at hx
        simp only [blt_cons, Bool.or_eq_true, decide_eq_true_eq, Bool.and_eq_true, beq_iff_eq]
        by_cases e : a = c
        · subst e
          right
          refine ⟨rfl, ih ?_ ?_ hy'⟩
          · rcases hx.2 with h | h; exact absurd rfl h; exact h
          · intro hp; exact hnp (List.cons_prefix_cons.mpr ⟨rfl, hp⟩)
        · left
          rcases u8_lt_or_gt e with h | h
          · exact h
          · exact absurd h hx.1

end OG.C10.Bytes
