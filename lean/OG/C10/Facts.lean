/-
C10 — expectations about the regenerated facts (`OG.Generated.C10`, written by `ogfacts` from
/repo's working tree on every run). Each theorem compares what the source says *now* with what the
hand-written model was transcribed from: thresholds, the item namespaces and separator bytes, how
the partition seeds the tsid sequence, return shapes, and a fingerprint of every function the model
transcribes. A failure here means the modelled source changed: the correspondence run then decides
whether the property still holds (and supplies the replay).
-/
import OG.C10.Model

namespace OG.C10.Facts
open OG.Gen.C10

theorem generation_ok : generationFailed = false := by rfl

theorem pruneThreshold_expected : pruneThreshold = 10 := by rfl

theorem defaultTagScanPruneThreshold_expected : defaultTagScanPruneThreshold = 20000 := by rfl

/-- the comparator the model sorts with is the translated source -/
theorem tfLess_expected (ae be : Bool) (ac bc : Int) :
    OG.Gen.C10.tfLess ae be ac bc =
      (if ae && be then decide (ac < bc)
       else if be && !ae then true
       else if ae then false
       else decide (ac < bc)) := by rfl

theorem src_maxIndexMetrics_expected : src_maxIndexMetrics = "1500 * 10000" := by rfl

theorem src_tsidSequenceMask_expected : src_tsidSequenceMask = "1<<40 - 1" := by rfl

theorem src_MaxTSIDsPerRow_expected : src_MaxTSIDsPerRow = "64" := by rfl

theorem src_rawItemsFlushInterval_expected : src_rawItemsFlushInterval = "time.Second" := by rfl

theorem src_sequenceSeed_expected : src_sequenceSeed = "uint64(time.Now().Unix())" := by rfl

theorem nsPrefixes_expected : nsPrefixes = ["nsPrefixKeyToTSID", "nsPrefixTSIDToKey", "nsPrefixTagToTSIDs", "nsPrefixDeletedTSIDs", "nsPrefixTSIDToField", "nsPrefixFieldToPID", "nsPrefixMstToFieldKey", "nsPrefixTagKeysToTagValues"] := by rfl

theorem returns_getTSIDsByTagFilterWithRegex_expected : returns_getTSIDsByTagFilterWithRegex = ["nil, math.MaxInt64, err", "tsids, int64(tsids.Len()), nil", "nil, math.MaxInt64, err", "m, int64(m.Len()), nil", "&uint64set.Set{}, 0, nil", "nil, int64(tsids.Len()), err", "nil, math.MaxInt64, err", "nil, math.MaxInt64, err", "tsids, cost, nil"] := by rfl

theorem returns_getTSIDsByTagFilterNoRegex_expected : returns_getTSIDsByTagFilterNoRegex = ["tsids, int64(tsids.Len()), err", "nil, math.MaxInt64, err", "nil, math.MaxInt64, err", "tsids, cost, nil", "nil, math.MaxInt64, err", "nil, math.MaxInt64, err", "nil, math.MaxInt64, err", "tsids, cost, nil", "nil, math.MaxInt64, err", "tsids, int64(tsids.Len()), nil"] := by rfl

theorem returns_getTSIDBySeriesKey_expected : returns_getTSIDBySeriesKey = ["pid, nil", "0, fmt.Errorf(\"error when searching TSID by seriesKey; searchPrefix %q: %w\", kb.B, err)", "pid, nil", "0, io.EOF"] := by rfl

theorem returns_searchTSIDsInternal_expected : returns_searchTSIDsInternal = ["is.searchTSIDsByTimeRange(name)", "nil, err", "nil, err", "rtsids, nil", "ltsids, nil", "ltsids, nil", "ltsids, nil", "is.searchTSIDsByBinaryExpr(name, expr)", "is.searchTSIDsInternal(name, expr.Expr, tr)", "is.searchTSIDsByTimeRange(name)", "nil, nil", "nil, nil"] := by rfl

theorem separators_expected : separators = [
  ("escapeChar", "0"),
  ("tagSeparatorChar", "1"),
  ("kvSeparatorChar", "2"),
  ("compositeTagKeyPrefix", "'\\xfe'")
] := by rfl

theorem fingerprints_expected : fingerprints = [
  ("search.go:getTSIDsByTagFilterNoRegex", "ab8b3139d51ec010"),
  ("search.go:getTSIDsByTagFilterWithRegex", "55e35ead8dd8352a"),
  ("search.go:searchTSIDsByTagFilterAndDateRange", "874368136419567c"),
  ("search.go:searchTSIDsByTagFilter", "cbc1640a5e621ef4"),
  ("search.go:updateTSIDsByOrSuffixes", "acd0c89cb428ae93"),
  ("search.go:scanTSIDsForTagFilter", "ac8dfbc68e1d6971"),
  ("search.go:getTSIDsForTagFilterSlow", "b9d10d3ed04799cb"),
  ("search.go:getTSIDsByMeasurementName", "bbee4736eb3f0613"),
  ("search.go:updateTSIDsForPrefix", "8a0c0747ef28d61e"),
  ("search.go:searchTSIDs", "0c7989d846470148"),
  ("search.go:searchTSIDsInternal", "a5a0f3f2d66a9beb"),
  ("search.go:searchTSIDsByBinaryExpr", "163f58a31b2ccb5f"),
  ("search.go:containsMeasurement", "12eda58a41ec2b70"),
  ("search.go:measurementSeriesByExprIterator", "0d321f2ec7a496f2"),
  ("search.go:seriesByExprIterator", "5ee24fa3c1357fff"),
  ("search.go:seriesByBinaryExpr", "5e5bf134833900d7"),
  ("search.go:isAllAndExpr", "41a7de19422cc665"),
  ("search.go:seriesByAllAndExprIterator", "c0203fd0a2352890"),
  ("search.go:extractTagsAndFilters", "e76dd4dd196e2ba9"),
  ("search.go:initTagFilter", "c1e2bb60d2048fd2"),
  ("search.go:seriesByTagFilters", "8919c7e5b6da8310"),
  ("search.go:sortTagFilterWithCost", "c7210f1c3a22494f"),
  ("search.go:searchTSIDsWithTagFilter", "80990cce90ec99c7"),
  ("search.go:getTagFilterCost", "10a9f8e60d9a6799"),
  ("search.go:storeTagFilterCost", "7a7775cc1e72dabb"),
  ("search.go:marshalTagFilterKey", "939c1221e6db0b49"),
  ("search.go:getTSIDBySeriesKey", "2740918ad9cecf3d"),
  ("search.go:searchSeriesKey", "8db0610947de6ba4"),
  ("search.go:searchTagValues", "e1e0df8aad4a2cc9"),
  ("search.go:searchTagValuesBySingleKey", "11e5f6f11e0fcc24"),
  ("search_prune.go:doPrune", "ffdb8ff14c1fb0fc"),
  ("search_prune.go:matchSeriesKeyTagFilters", "c3c76077f4a87f83"),
  ("search_prune.go:matchSeriesKeyTagFilter", "b57d2b8ed03ad34e"),
  ("mergeset_index.go:decode", "16184bee5b4cd7a3"),
  ("mergeset_index.go:getSeriesIdBySeriesKey", "11b92efb5508c400"),
  ("mergeset_index.go:createIndexesIfNotExists", "738ab2c699b98c0c"),
  ("mergeset_index.go:createIndexes", "3e5d1ab7b872e399"),
  ("mergeset_index.go:CreateIndexIfNotExists", "4901e1d94782051a"),
  ("mergeset_index.go:ClearCache", "8698d6e595304bb8"),
  ("mergeset_index.go:Close", "5ec385d4975eedf0"),
  ("mergeset_index.go:Open", "99c1f5e31b27ed2f"),
  ("mergeset_index.go:maxStoredSequence", "3e555a2dc1cc9eab"),
  ("mergeset_index.go:DeleteTSIDs", "c5343af550c2e3d9"),
  ("mergeset_index.go:WriteDeleteTsids", "99592b38091da816"),
  ("mergeset_index.go:GetDeletedTSIDs", "13dc4e64de7b41be"),
  ("mergeset_index.go:SearchSeriesIterator", "658e5bca4ead85f0"),
  ("mergeset_index.go:SearchSeries", "54b76333fe035296"),
  ("mergeset_index.go:putIndexSearch", "82d42f223cfae950"),
  ("mergeset_index.go:invalidateTagCache", "21146eb9806fa816"),
  ("index_builder.go:GenerateUUID", "af0c161c4bef4e2d"),
  ("index_builder.go:raiseSequenceID", "64d334a9a3f41fa8"),
  ("tag_filters.go:Marshal", "67a89d9ca08f1c09"),
  ("tag_filters.go:matchSuffix", "520f861ae539e8a2"),
  ("cache.go:reset", "06c95275aad5263b"),
  ("cache.go:getFromTagFilterCache", "45750a3bc88179bd"),
  ("marshal.go:marshalTagValue", "87efd916d1022058"),
  ("marshal.go:marshalCompositeTagKey", "e99969cda4622cf5"),
  ("parser.go:IsExpectedTag", "14b1ee05204e5a77"),
  ("node.go:LoadLogicalClock", "ebc41faf5aa3ad31"),
  ("table.go:DebugFlush", "28d2918970caaf96"),
  ("table.go:mergeRawItemsBlocks", "daf2cdca706b3b23")
] := by rfl

/-! ### byte level (item encoding) -/

theorem nsPrefixKeyToTSID_expected : nsPrefixKeyToTSID = 0 := by rfl

theorem nsPrefixTSIDToKey_expected : nsPrefixTSIDToKey = 1 := by rfl

theorem nsPrefixTagToTSIDs_expected : nsPrefixTagToTSIDs = 2 := by rfl

theorem nsPrefixDeletedTSIDs_expected : nsPrefixDeletedTSIDs = 3 := by rfl

theorem nsPrefixTSIDToField_expected : nsPrefixTSIDToField = 4 := by rfl

theorem nsPrefixFieldToPID_expected : nsPrefixFieldToPID = 5 := by rfl

theorem nsPrefixMstToFieldKey_expected : nsPrefixMstToFieldKey = 6 := by rfl

theorem nsPrefixTagKeysToTagValues_expected : nsPrefixTagKeysToTagValues = 7 := by rfl

theorem escapeChar_expected : escapeChar = 0 := by rfl

theorem tagSeparatorChar_expected : tagSeparatorChar = 1 := by rfl

theorem kvSeparatorChar_expected : kvSeparatorChar = 2 := by rfl

theorem compositeTagKeyPrefix_expected : compositeTagKeyPrefix = 254 := by rfl

theorem specialBytes_expected : specialBytes = [0, 1, 2] := by rfl

theorem escTable_expected : escTable = [
  (0, [0, 48]),
  (1, [0, 49]),
  (2, [0, 50])
] := by rfl

theorem escDefaultIsIdentity_expected : escDefaultIsIdentity = true := by rfl

theorem src_marshalTagValue_expected : src_marshalTagValue = ["hasSpecialChars := <terms>", "if !hasSpecialChars { dst = append(dst, src...) dst = append(dst, tagSeparatorChar) return dst }", "for _, ch := range src { switch ch <table> }", "dst = append(dst, tagSeparatorChar)", "return dst"] := by rfl

theorem unmarshalSeparator_expected : unmarshalSeparator = 1 := by rfl

theorem unmarshalEscape_expected : unmarshalEscape = 0 := by rfl

theorem unescTable_expected : unescTable = [
  (48, 0),
  (49, 1),
  (50, 2)
] := by rfl

theorem unescDefaultIsError_expected : unescDefaultIsError = true := by rfl

theorem src_marshalNoTrailing_expected : src_marshalNoTrailing = ["dst = marshalTagValue(dst, src)", "if len(dst) > 0 { dst = dst[:len(dst)-1] }", "return dst"] := by rfl

theorem src_marshalCompositeTagKey_expected : src_marshalCompositeTagKey = ["dst = append(dst, compositeTagKeyPrefix)", "dst = encoding.MarshalVarUint64(dst, uint64(len(name)))", "dst = append(dst, name...)", "dst = append(dst, key...)", "return dst"] := by rfl

theorem src_unmarshalCompositeTagKey_expected : src_unmarshalCompositeTagKey = ["if len(src) < 1 { return nil, nil, fmt.Errorf(\"insufficient data for composite tag key\") }", "src = src[1:]", "l, nSize := encoding.UnmarshalVarUint64(src)", "if nSize <= 0 { return nil, nil, fmt.Errorf(\"unmarshal VarUint64 Fail\") }", "tail := src[nSize:]", "name := tail[:l]", "return tail[l:], name, nil"] := by rfl

theorem src_marshalCompositeNamePrefix_expected : src_marshalCompositeNamePrefix = ["dst = append(dst, compositeTagKeyPrefix)", "dst = encoding.MarshalVarUint64(dst, uint64(len(name)))", "dst = append(dst, name...)", "return dst"] := by rfl

theorem src_marshalTagToTSIDs_expected : src_marshalTagToTSIDs = ["tmpB = marshalCompositeTagKey(tmpB[:0], name, []byte(tag.Key))", "dstB = append(dstB, nsPrefixTagToTSIDs)", "dstB = marshalTagValue(dstB, tmpB)", "dstB = marshalTagValue(dstB, []byte(tag.Value))", "dstB = encoding.MarshalUint64(dstB, tsid)", "return dstB"] := by rfl

theorem src_decode_expected : src_decode = ["tsid := idx.indexBuilder.GenerateUUID()", "ii.B = append(ii.B, nsPrefixKeyToTSID)", "ii.B = append(ii.B, seriesKey...)", "ii.B = append(ii.B, kvSeparatorChar)", "ii.B = encoding.MarshalUint64(ii.B, tsid)", "ii.Next()", "ii.B = append(ii.B, nsPrefixTSIDToKey)", "ii.B = encoding.MarshalUint64(ii.B, tsid)", "ii.B = append(ii.B, seriesKey...)", "ii.Next()", "compositeKey := kbPool.Get()", "if enableTagArray {…} else { for i := range tags { ii.B = idx.marshalTagToTSIDs(compositeKey.B, ii.B, name, tags[i], tsid) ii.Next() } }", "compositeKey.B = marshalCompositeTagKey(compositeKey.B[:0], name, nil)", "ii.B = append(ii.B, nsPrefixTagToTSIDs)", "ii.B = marshalTagValue(ii.B, compositeKey.B)", "ii.B = marshalTagValue(ii.B, nil)", "ii.B = encoding.MarshalUint64(ii.B, tsid)", "ii.Next()", "kbPool.Put(compositeKey)", "return tsid"] := by rfl

theorem src_initPrefix_expected : src_initPrefix = ["tf.prefix = tf.prefix[:0]", "compositeKey := kbPool.Get()", "compositeKey.B = marshalCompositeTagKey(compositeKey.B[:0], name, key)", "tf.prefix = append(tf.prefix, nsPrefixTagToTSIDs)", "tf.prefix = marshalTagValue(tf.prefix, compositeKey.B)", "kbPool.Put(compositeKey)"] := by rfl

theorem byteFingerprints_expected : byteFingerprints = [
  ("marshal.go:unmarshalTagValue", "4e2515b84edf4d27"),
  ("marshal.go:ParseItem", "02a8236d54a26f94"),
  ("search.go:collectTSIDsForSuffix", "a42bb19f0cb6c35f"),
  ("search.go:seekToNextTagValue", "4c67d01e4b8cd531"),
  ("parser.go:MeasurementName", "72efd7795a72e264"),
  ("parser.go:UnmarshalIndexKeys", "0987f00cbf7eceb3"),
  ("int.go:MarshalVarUint64", "baf374ebc0c24b94"),
  ("int.go:UnmarshalVarUint64", "1b77313b638d86a2")
] := by rfl

/-! ### tagFilter.Init -/

theorem fullMatchCost_expected : fullMatchCost = 1 := by rfl

theorem prefixMatchCost_expected : prefixMatchCost = 2 := by rfl

theorem literalMatchCost_expected : literalMatchCost = 3 := by rfl

theorem suffixMatchCost_expected : suffixMatchCost = 4 := by rfl

theorem middleMatchCost_expected : middleMatchCost = 6 := by rfl

theorem reMatchCost_expected : reMatchCost = 100 := by rfl

theorem maxOrValues_expected : maxOrValues = 20 := by rfl

theorem cases_isDotStar_expected : cases_isDotStar = ["syntax.OpCapture", "syntax.OpAlternate", "syntax.OpStar", "default"] := by rfl

theorem cases_isDotPlus_expected : cases_isDotPlus = ["syntax.OpCapture", "syntax.OpAlternate", "syntax.OpPlus", "default"] := by rfl

theorem cases_getOrValuesExt_expected : cases_getOrValuesExt = ["syntax.OpCapture", "syntax.OpLiteral", "syntax.OpEmptyMatch", "syntax.OpAlternate", "syntax.OpCharClass", "syntax.OpConcat", "default"] := by rfl

theorem cases_getOptimizedReMatchFuncExt_expected : cases_getOptimizedReMatchFuncExt = ["syntax.OpCapture", "syntax.OpLiteral", "syntax.OpConcat", "default"] := by rfl

theorem cases_simplifyRegexpExt_expected : cases_simplifyRegexpExt = ["syntax.OpCapture", "syntax.OpStar", "syntax.OpPlus", "syntax.OpQuest", "syntax.OpRepeat", "syntax.OpAlternate", "syntax.OpConcat", "syntax.OpEmptyMatch", "default"] := by rfl

theorem src_isLiteral_expected : src_isLiteral = ["if sre.Op == syntax.OpCapture { return isLiteral(sre.Sub[0]) }", "return sre.Op == syntax.OpLiteral && sre.Flags&syntax.FoldCase == 0"] := by rfl

theorem src_matchSuffix_expected : src_matchSuffix = ["if len(b) == 0 || b[len(b)-1] != tagSeparatorChar { return false, fmt.Errorf(\"unexpected end of b; want %d; b=%q\", tagSeparatorChar, b) }", "b = b[:len(b)-1]", "if !tf.isRegexp { return len(b) == 0, nil }", "ok := tf.reSuffixMatch(b)", "return ok, nil"] := by rfl

theorem src_newMatchFuncForOrSuffixes_expected : src_newMatchFuncForOrSuffixes = ["if len(orValues) == 1 { v := orValues[0] reMatch = func(b []byte) bool { return string(b) == v } } else { reMatch = func(b []byte) bool { for _, v := range orValues { if string(b) == v { return true } } return false } }", "reCost = uint64(len(orValues)) * literalMatchCost", "return reMatch, reCost"] := by rfl

theorem tfFingerprints_expected : tfFingerprints = [
  ("tag_filters.go:Init", "1d390cde5a6f94ad"),
  ("tag_filters.go:InfluxRegrep", "374b0f3074d3651d"),
  ("tag_filters.go:getRegexpPrefix", "59ec75d7069514d7"),
  ("tag_filters.go:getRegexpFromCache", "e74102dc61187b8c"),
  ("tag_filters.go:getOptimizedReMatchFunc", "4ae38f77896fb984"),
  ("tag_filters.go:getOptimizedReMatchFuncExt", "57114b76b3840e24"),
  ("tag_filters.go:isDotStar", "201305f5d9b3a92a"),
  ("tag_filters.go:isDotPlus", "6f0909ae38ae5d58"),
  ("tag_filters.go:getOrValues", "e17636a1ef658d10"),
  ("tag_filters.go:getOrValuesExt", "ba52b0cda52bac3d"),
  ("tag_filters.go:extractRegexpPrefix", "7acc14ef62bca6cc"),
  ("tag_filters.go:simplifyRegexp", "3f6f1182c8daab6a"),
  ("tag_filters.go:simplifyRegexpExt", "689921beccd8a3fa"),
  ("tag_filters.go:SetRegexMatchAll", "91d22e68c10c5cb5"),
  ("search.go:getTSIDsForTagFilterSlow", "b9d10d3ed04799cb"),
  ("search.go:chooseINPriority", "262e2d046f5ad34e"),
  ("search.go:seriesByINExprIterator", "0f7232368bf00559"),
  ("search.go:seriesByBinaryExprSetLiteral", "d10f6c1c74ecbe9a"),
  ("search.go:seriesByBinaryExprVarRef", "ce704c78c9911f3e"),
  ("search.go:seriesByOneTagFilter", "0dd6cae0711b5d67"),
  ("search.go:seriesByAllIdsIterator", "a5a8cb35cebc0d18"),
  ("search.go:isFieldExpr", "c4e5aa1c8c2718da"),
  ("search.go:isAllFieldExpr", "cfff72775e69a66a"),
  ("search.go:isAllAndOpValid", "9f4b089873a6986a"),
  ("search.go:isAllAndSubExprValid", "cab58ee469678e14"),
  ("search.go:isAllAndValueExprValid", "dc8617da9ea2b8e5"),
  ("search_prune.go:doPruneWithSet", "bb32dd3aac852e02"),
  ("search_prune.go:matchSeriesKeyWithSet", "70eb74759be0520a"),
  ("search_prune.go:matchSeriesKeyWithSetTag", "944cb1a1b18a4d39"),
  ("search.go:collectTSIDsForSuffix", "a42bb19f0cb6c35f")
] := by rfl

theorem pruneWithSetTagValSize_expected : pruneWithSetTagValSize = 10 := by rfl

end OG.C10.Facts
