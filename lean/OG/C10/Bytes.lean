/-
C10 — byte level of the series index: how tag keys / values, composite keys and the three item
kinds are laid out in the mergeset (`engine/index/tsi/marshal.go`, `MergeSetIndex.decode`,
`tagFilter.Init`), and how a search finds them again (prefix seek + scan).

Transcribed from the source; the escaping and un-escaping switches, the separator bytes and the
namespace bytes are *not* written here: they are the tables `OG.Gen.C10.escTable`, `unescTable`, …
that `ogfacts` regenerates from marshal.go / mergeset_index.go on every run, so everything proved
about `marshalTagValue` / `unmarshalTagValue` is proved about what the source says now.

Core Lean only (also compiled into the driver).
-/
import OG.Generated.C10

namespace OG.C10.Bytes
open OG.Gen.C10 (escapeChar tagSeparatorChar kvSeparatorChar compositeTagKeyPrefix escTable unescTable
  specialBytes unmarshalSeparator unmarshalEscape nsPrefixKeyToTSID nsPrefixTSIDToKey nsPrefixTagToTSIDs)

abbrev B := List UInt8

/-- first row of a `switch` table whose label is `b` -/
def lookup {β : Type} (b : UInt8) : List (UInt8 × β) → Option β
  | [] => none
  | (k, v) :: t => if b == k then some v else lookup b t

/-! ### marshalTagValue / unmarshalTagValue -/

/-- one iteration of the escaping loop: the `case` of the byte, else `default: append(dst, ch)` -/
def escByte (b : UInt8) : B :=
  match lookup b escTable with
  | some l => l
  | none => [b]

/-- the escaping loop `for _, ch := range src { switch ch … }` -/
def escape (v : B) : B := v.flatMap escByte

/-- `hasSpecialChars` -/
def hasSpecial (v : B) : Bool := specialBytes.any (fun c => v.contains c)

/-- `marshalTagValue(dst, src)`: copy-through fast path, else escape; trailing separator. -/
def marshalTagValue (dst src : B) : B :=
  if !hasSpecial src then dst ++ src ++ [tagSeparatorChar]
  else dst ++ escape src ++ [tagSeparatorChar]

/-- `marshalTagValueNoTrailingTagSeparator` -/
def marshalNoTrailing (dst src : B) : B :=
  let d := marshalTagValue dst src
  if d.length > 0 then d.dropLast else d

inductive UErr where
  | missingSeparator
  | truncatedEscape
  | invalidEscape (c : UInt8)
deriving DecidableEq, Repr

inductive Res (ε α : Type) where
  | ok (a : α)
  | err (e : ε)
deriving DecidableEq, Repr

def Res.map {ε α β : Type} (f : α → β) : Res ε α → Res ε β
  | .ok a => .ok (f a)
  | .err e => .err e

/-- `bytes.IndexByte(src, c)` followed by the two slicings `src[:i]`, `src[i+1:]` -/
def splitAtByte (c : UInt8) : B → Option (B × B)
  | [] => none
  | b :: t =>
    if b == c then some ([], t)
    else match splitAtByte c t with
      | some (a, r) => some (b :: a, r)
      | none => none

/-- the loop over `encoded`: bytes up to the next escape byte are copied, the escape byte must be
followed by a code of the un-escaping switch -/
def unescapeLoop : B → Res UErr B
  | [] => .ok []
  | [b] => if b == unmarshalEscape then .err .truncatedEscape else .ok [b]
  | b :: c :: t =>
    if b == unmarshalEscape then
      match lookup c unescTable with
      | some x => (unescapeLoop t).map (x :: ·)
      | none => .err (.invalidEscape c)
    else (unescapeLoop (c :: t)).map (b :: ·)

/-- `unmarshalTagValue(dst, src)` → `(rest of src, dst ++ value)` -/
def unmarshalTagValue (dst src : B) : Res UErr (B × B) :=
  match splitAtByte unmarshalSeparator src with
  | none => .err .missingSeparator
  | some (encoded, rest) => (unescapeLoop encoded).map (fun v => (rest, dst ++ v))

/-! ### varuint (`encoding.MarshalVarUint64` = LEB128, `binary.Uvarint`), big-endian integers -/

/-- at most ten groups of seven bits -/
def uvarintF : Nat → Nat → B
  | 0, n => [UInt8.ofNat n]
  | f + 1, n => if n < 128 then [UInt8.ofNat n] else UInt8.ofNat (n % 128 + 128) :: uvarintF f (n / 128)

def uvarint (n : Nat) : B := uvarintF 9 n

/-- `binary.Uvarint`: `none` = "n ≤ 0" (buffer too small, or more than 64 bits) -/
def unUvarintF : Nat → Nat → Nat → B → Option (Nat × B)
  | _, _, _, [] => none
  | 0, _, _, _ :: _ => none
  | f + 1, shift, acc, b :: t =>
    if b.toNat < 128 then
      if f = 0 ∧ b.toNat > 1 then none else some (acc + b.toNat * 2 ^ shift, t)
    else unUvarintF f (shift + 7) (acc + (b.toNat - 128) * 2 ^ shift) t

def unUvarint (src : B) : Option (Nat × B) := unUvarintF 10 0 0 src

/-- `encoding.MarshalUint64` etc.: `w` bytes, big-endian -/
def beN : Nat → Nat → B
  | 0, _ => []
  | w + 1, n => UInt8.ofNat (n / 256 ^ w % 256) :: beN w n

def be64 (n : Nat) : B := beN 8 n

def unBe (l : B) : Nat := l.foldl (fun a b => a * 256 + b.toNat) 0

/-! ### composite tag key -/

/-- `marshalCompositeTagKey(dst, name, key)` -/
def marshalCompositeTagKey (dst name key : B) : B :=
  dst ++ [compositeTagKeyPrefix] ++ uvarint name.length ++ name ++ key

/-- `marshalCompositeNamePrefix(dst, name)` -/
def marshalCompositeNamePrefix (dst name : B) : B :=
  dst ++ [compositeTagKeyPrefix] ++ uvarint name.length ++ name

inductive CErr where
  | insufficient
  | badVarUint
  | slicePanic        -- `tail[:l]` with l > len(tail): the source panics here
deriving DecidableEq, Repr

/-- `unmarshalCompositeTagKey(src)` → `(key, name)` -/
def unmarshalCompositeTagKey (src : B) : Res CErr (B × B) :=
  match src with
  | [] => .err .insufficient
  | _ :: src =>
    match unUvarint src with
    | none => .err .badVarUint
    | some (l, tail) =>
      if l > tail.length then .err .slicePanic else .ok (tail.drop l, tail.take l)

/-! ### series (index) key: `Row.UnmarshalIndexKeys` -/

def tagsSize (tags : List (B × B)) : Nat := (tags.map (fun t => t.1.length + t.2.length)).sum

/-- total length (4) | name length (2) name | tag count (2) | (key length (2) key value length (2) value)* -/
def indexKey (name : B) (tags : List (B × B)) : B :=
  beN 4 (4 + 2 + name.length + 2 + 4 * tags.length + tagsSize tags) ++
  beN 2 name.length ++ name ++ beN 2 tags.length ++
  tags.flatMap (fun t => beN 2 t.1.length ++ t.1 ++ beN 2 t.2.length ++ t.2)

inductive MErr where
  | tooSmallForTags
  | tooSmallIndexKey
  | tooSmallForMeasurement
  | slicePanic
deriving DecidableEq, Repr

/-- `influx.MeasurementName(src)` → `(name, rest)` -/
def measurementName (src : B) : Res MErr (B × B) :=
  if src.length < 4 then .err .tooSmallForTags else
  let kl := unBe (src.take 4)
  if src.length < kl then .err .tooSmallIndexKey else
  let src := src.drop 4
  if src.length < 2 then .err .slicePanic else
  let mnl := unBe (src.take 2)
  let src := src.drop 2
  if mnl + 2 > src.length then .err .tooSmallForMeasurement else
  .ok (src.take mnl, src.drop mnl)

/-! ### the three item kinds (`MergeSetIndex.decode`) -/

/-- series key → tsid -/
def itemK2I (seriesKey : B) (tsid : Nat) : B :=
  [nsPrefixKeyToTSID] ++ seriesKey ++ [kvSeparatorChar] ++ be64 tsid

/-- tsid → series key -/
def itemI2K (tsid : Nat) (seriesKey : B) : B :=
  [nsPrefixTSIDToKey] ++ be64 tsid ++ seriesKey

/-- (measurement, tag key, tag value) → tsids; one tsid when written (`marshalTagToTSIDs`), up to
`MaxTSIDsPerRow` after `mergeIndexRows` -/
def itemT2I (name key value : B) (tsids : List Nat) : B :=
  marshalTagValue (marshalTagValue [nsPrefixTagToTSIDs] (marshalCompositeTagKey [] name key)) value ++
    tsids.flatMap be64

/-- the batch `decode` writes for one new series (tags as given, marker row last) -/
def decodeItems (name : B) (tags : List (B × B)) (tsid : Nat) : List B :=
  let sk := indexKey name tags
  itemK2I sk tsid :: itemI2K tsid sk ::
    (tags.map (fun t => itemT2I name t.1 t.2 [tsid]) ++ [itemT2I name [] [] [tsid]])

/-! ### `ParseItem` -/

structure Parsed where
  name : B
  tsid : Nat
  seriesKey : B
  key : B
  tagValue : B
deriving DecidableEq, Repr

inductive PErr where
  | tooShort
  | noKvSeparator
  | kvSeparatorMisplaced
  | noTagValue
  | tagValue (e : UErr)
  | composite (e : CErr)
  | measurement (e : MErr)
deriving DecidableEq, Repr

def emptyParsed : Parsed := ⟨[], 0, [], [], []⟩

/-- `ParseItem(item)`; an unknown namespace answers the empty result without error -/
def parseItem (item : B) : Res PErr Parsed :=
  if item.length < 9 then .err .tooShort else
  match item with
  | [] => .err .tooShort
  | header :: _ =>
    if header == nsPrefixKeyToTSID then
      let uStart := item.length - 8
      let tsid := unBe (item.drop uStart)
      let flagIndex := uStart - 1
      if flagIndex < 1 then .err .noKvSeparator else
      if (item.drop flagIndex).head? != some kvSeparatorChar then .err .kvSeparatorMisplaced else
      let str := (item.take flagIndex).drop 1
      match measurementName str with
      | .err e => .err (.measurement e)
      | .ok (mn, _) => .ok ⟨mn, tsid, str, [], []⟩
    else if header == nsPrefixTSIDToKey then
      let tsid := unBe ((item.take 9).drop 1)
      let str := item.drop 9
      match measurementName str with
      | .err e => .err (.measurement e)
      | .ok (mn, _) => .ok ⟨mn, tsid, str, [], []⟩
    else if header == nsPrefixTagToTSIDs then
      let uStart := item.length - 8
      let tsid := unBe (item.drop uStart)
      let body := (item.take uStart).drop 1
      if body.length = 0 then .err .noTagValue else
      match unmarshalTagValue [] body with
      | .err e => .err (.tagValue e)
      | .ok (src, dst1) =>
        match unmarshalTagValue [] src with
        | .err e => .err (.tagValue e)
        | .ok (_, dst2) =>
          match unmarshalCompositeTagKey dst1 with
          | .err e => .err (.composite e)
          | .ok (keyBytes, nameBytes) => .ok ⟨nameBytes, tsid, [], keyBytes, dst2⟩
    else .ok emptyParsed

/-! ### prefixes a search seeks to, and the scan -/

/-- `tagFilter.Init`: namespace byte + marshalled composite key of (measurement, tag key) -/
def tagKeyPrefix (name key : B) : B :=
  marshalTagValue [nsPrefixTagToTSIDs] (marshalCompositeTagKey [] name key)

/-- `InfluxRegrep`: the key prefix extended by the escaped literal prefix of the value -/
def tagValuePrefix (name key lit : B) : B := marshalNoTrailing (tagKeyPrefix name key) lit

/-- `updateTSIDsByOrSuffixes`: prefix ++ suffix ++ separator (the suffix is appended as it is) -/
def orSuffixPrefix (pre suffix : B) : B := pre ++ suffix ++ [tagSeparatorChar]

/-- `getTSIDsByMeasurementName`: marshalled composite *name* prefix without its separator -/
def mstPrefix (name : B) : B :=
  (marshalTagValue [nsPrefixTagToTSIDs] (marshalCompositeNamePrefix [] name)).dropLast

/-- `getTSIDBySeriesKey`: namespace byte + series key + kv separator -/
def seriesKeyPrefix (seriesKey : B) : B := [nsPrefixKeyToTSID] ++ seriesKey ++ [kvSeparatorChar]

/-- `bytes.Compare(a, b) < 0` -/
def blt : B → B → Bool
  | [], [] => false
  | [], _ :: _ => true
  | _ :: _, [] => false
  | x :: xs, y :: ys => x < y || (x == y && blt xs ys)

def ble (a b : B) : Bool := !blt b a

/-- `ts.Seek(p)`, then `for ts.NextItem() { if !bytes.HasPrefix(ts.Item, p) { break } … }` over the
sorted items of the table -/
def seekScan (p : B) (items : List B) : List B :=
  (items.dropWhile (fun it => blt it p)).takeWhile (fun it => p.isPrefixOf it)

/-- insertion into the sorted item list (the table is an ordered set of items) -/
def insertSorted (x : B) : List B → List B
  | [] => [x]
  | y :: t => if blt x y then x :: y :: t else if x == y then y :: t else y :: insertSorted x t

def sortItems (l : List B) : List B := l.foldr insertSorted []

/-- what `getTSIDsForTagFilterSlow` cuts out of an item below the filter prefix: the suffix up to
and including the separator, and the tsid tail -/
def splitSuffix (pre item : B) : Option (B × B) :=
  match splitAtByte tagSeparatorChar (item.drop pre.length) with
  | some (s, tail) => some (s ++ [tagSeparatorChar], tail)
  | none => none

/-- tsids of a tail (`ParseTSIDs`) -/
def parseTSIDs : Nat → B → List Nat
  | 0, _ => []
  | f + 1, l => if l.length < 8 then [] else unBe (l.take 8) :: parseTSIDs f (l.drop 8)

/-- `seekToNextTagValue`: the item without its tsid tail, last byte (the separator) incremented -/
def nextTagValueSeek (item tsidTail : B) : Option B :=
  let kb := item.take (item.length - tsidTail.length)
  match kb.getLast? with
  | some c => if c == tagSeparatorChar then some (kb.dropLast ++ [c + 1]) else none
  | none => none

end OG.C10.Bytes
