/-
C10 — `tagFilter.Init`'s derived matcher against unanchored regular-expression matching.

The regexp library is a parameter: an atom carries the facts the library supplied (`RxIn`), the
library's `reMatch` for the remaining expression and the specification `matches` (unanchored
`MatchString` of the whole text). For the classes of regular expressions on which the code is
right, the library's contract for the class (what `matches` means for such a regex) implies that
the scan of the initialised filter and the prune step decide every tag value without the bytes
0, 1, 2 exactly as `matches` does — `init_matcher_eq_regex_partial`. For the classes of the known
findings a concrete atom refutes the same statement.
-/
import OG.C10.TagFilter
import OG.C10.BytesProps

namespace OG.C10.TF
open OG.C10.Bytes
open OG.Gen.C10 (maxOrValues fullMatchCost prefixMatchCost literalMatchCost suffixMatchCost middleMatchCost reMatchCost)

/-- a regex atom: library facts, the library's matcher of the remaining expression, the
specification matcher of the whole text -/
structure RxAtom where
  rin : RxIn
  reMatch : B → Bool
  «matches» : B → Bool

def RxAtom.tf (a : RxAtom) : TF := initRegex a.rin (a.reMatch [])
def RxAtom.tfMatch (a : RxAtom) (v : B) : Bool := a.tf.accepts a.reMatch v
def RxAtom.pruneMatch (a : RxAtom) (v : B) : Bool := a.tf.pruneMatch a.matches v

/-- no byte 0, 1, 2 (escaping leaves such a value as it is) -/
def Plain (v : B) : Prop := ∀ x ∈ v, x ≠ 0 ∧ x ≠ 1 ∧ x ≠ 2

theorem escape_plain {v : B} (h : Plain v) : escape v = v := escape_of_no_special h

/-- the classes of regular expressions the code evaluates as InfluxQL asks, each with the
library contract that defines what the regex matches -/
inductive GoodClass (a : RxAtom) : Prop where
  /-- a pure literal `L` (after `simplifyRegexp`): matches the values that contain `L` -/
  | literal : a.rin.expr = [] → (∀ v, a.matches v = containsB v a.rin.pfx) → GoodClass a
  /-- `^L` (simplified to `L.*`): literal prefix `L`, rest `.*`: matches the values that start with `L` -/
  | anchoredPrefix : a.rin.expr ≠ [] → a.rin.compileOk = true → getOrValues a.rin.ast = [] →
      isDotStar a.rin.ast = true → Plain a.rin.pfx → (∀ v, a.matches v = a.rin.pfx.isPrefixOf v) → GoodClass a
  /-- `^(A|B|…)$`: literal prefix and or-values: matches exactly the values prefix ++ or-value -/
  | anchoredOr : a.rin.expr ≠ [] → a.rin.compileOk = true → getOrValues a.rin.ast ≠ [] →
      Plain a.rin.pfx → (∀ s ∈ getOrValues a.rin.ast, Plain s) →
      (∀ v, a.matches v = (getOrValues a.rin.ast).any (fun s => v == a.rin.pfx ++ s)) → GoodClass a
  /-- nothing extracted (no prefix, no or-values, no optimised form): the filter runs the library's
  matcher of the remaining expression, which is the whole regex, unanchored (`(?i)web`, `[a-c]+`) -/
  | fallback : a.rin.expr ≠ [] → a.rin.compileOk = true → a.rin.pfx = [] → getOrValues a.rin.ast = [] →
      optShape a.rin.ast = none → (∀ v, a.reMatch v = a.matches v) → GoodClass a
  /-- an optimised form without prefix whose closure is what the regex means unanchored
  (`.*m.*`, `.*m.+`, `.+m.*`, `.+m.+`) -/
  | optimizedForm (sh : Shape) (lit : B) (cost : Nat) : a.rin.expr ≠ [] → a.rin.compileOk = true → a.rin.pfx = [] →
      getOrValues a.rin.ast = [] → optShape a.rin.ast = some (sh, lit, cost) →
      (∀ v, a.matches v = sh.eval a.reMatch v) → GoodClass a
  /-- `L$` (simplified to `.*L$`): no prefix, the un-optimised matcher guarded by "contains `L`":
  matches the values that end with `L`; the library's matcher of the remaining expression is the
  specification itself (the remaining expression is the whole regex) -/
  | suffix (lit : B) : a.rin.expr ≠ [] → a.rin.compileOk = true → a.rin.pfx = [] → getOrValues a.rin.ast = [] →
      optShape a.rin.ast = some (.generic [lit] [], [], reMatchCost) →
      (∀ v, a.matches v = isSuffix lit v) → (∀ v, a.reMatch v = a.matches v) → GoodClass a

theorem containsB_of_isSuffix : ∀ (b lit : B), isSuffix lit b = true → containsB b lit = true := by
  intro b
  induction b with
  | nil =>
    intro lit h
    have : lit = [] := by
      cases lit with
      | nil => rfl
      | cons y ys =>
        have hs : (y :: ys).reverse <+: ([] : B).reverse := List.isPrefixOf_iff_prefix.mp h
        rw [List.reverse_prefix] at hs
        simp at hs
    subst this
    rfl
  | cons x xs ih =>
    intro lit h
    simp only [containsB, Bool.or_eq_true]
    by_cases hp : lit.isPrefixOf (x :: xs) = true
    · exact Or.inl hp
    · right
      apply ih
      -- lit is a suffix of x :: xs but not a prefix of it as a whole, so it is a suffix of xs
      have hs : lit.reverse <+: (x :: xs).reverse := List.isPrefixOf_iff_prefix.mp h
      rw [List.reverse_prefix] at hs
      rcases List.suffix_cons_iff.mp hs with e | hs'
      · exfalso; apply hp; rw [e]; exact List.isPrefixOf_iff_prefix.mpr (List.prefix_refl _)
      · apply List.isPrefixOf_iff_prefix.mpr; rw [List.reverse_prefix]; exact hs'

theorem literalsInOrder_single {b lit : B} (h : containsB b lit = true) : literalsInOrder [lit] b = true := by
  induction b with
  | nil =>
    simp only [containsB] at h
    simp [literalsInOrder, afterFirst, h]
  | cons x xs ih =>
    simp only [containsB, Bool.or_eq_true] at h
    simp only [literalsInOrder, afterFirst]
    by_cases hp : lit.isPrefixOf (x :: xs) = true
    · simp [hp, literalsInOrder]
    · rcases h with h | h
      · exact absurd h hp
      · have := ih h
        simp only [literalsInOrder] at this
        simp only [hp, Bool.false_eq_true, if_false]
        exact this

theorem optShape_dotStar {s : Sre} (h : isDotStar s = true) : optShape s = some (.dotStar, [], fullMatchCost) := by
  cases s with
  | node op f rs subs => unfold optShape; simp [h]

/-- **`init_matcher_eq_regex_partial`**: for an atom of a good class and every tag value without
the bytes 0, 1, 2, the scan of the filter `tagFilter.Init` built and the prune step decide the
value exactly as unanchored matching of the regex does. -/
theorem init_matcher_eq_regex_partial {a : RxAtom} (g : GoodClass a) {v : B} (hv : Plain v) :
    a.tfMatch v = a.matches v ∧ a.pruneMatch v = a.matches v := by
  cases g with
  | literal he hc =>
    constructor
    · simp only [RxAtom.tfMatch, RxAtom.tf, initRegex, he, TF.accepts, escape_plain hv]
      simp [Shape.eval, hc]
    · simp [RxAtom.pruneMatch, RxAtom.tf, initRegex, he, TF.pruneMatch, hc]
  | anchoredPrefix he hc hov hds hp hm =>
    have hne : (a.rin.expr.length == 0) = false := by
      cases h : a.rin.expr with
      | nil => exact absurd h he
      | cons _ _ => rfl
    have hopt : optimized a.rin.ast = (.dotStar, fullMatchCost) := by
      unfold optimized
      rw [optShape_dotStar hds]
    constructor
    · simp only [RxAtom.tfMatch, RxAtom.tf, initRegex, hne, hc, hov, hopt, TF.accepts, escape_plain hv, escape_plain hp]
      simp [Shape.eval, hm]
      cases h : a.rin.pfx.isPrefixOf v <;> simp [← List.isPrefixOf_iff_prefix, h]
    · simp [RxAtom.pruneMatch, RxAtom.tf, initRegex, hne, hc, TF.pruneMatch]
  | anchoredOr he hc hov hp hps hm =>
    have hne : (a.rin.expr.length == 0) = false := by
      cases h : a.rin.expr with
      | nil => exact absurd h he
      | cons _ _ => rfl
    have hlen : (getOrValues a.rin.ast).length > 0 := by
      cases h : getOrValues a.rin.ast with
      | nil => exact absurd h hov
      | cons _ _ => simp
    constructor
    · simp only [RxAtom.tfMatch, RxAtom.tf, initRegex, hne, hc, TF.accepts, escape_plain hv, escape_plain hp]
      simp only [Bool.false_eq_true, if_false, Bool.not_true, hlen, decide_true, if_true, hm]
    · simp [RxAtom.pruneMatch, RxAtom.tf, initRegex, hne, hc, TF.pruneMatch]
  | fallback he hc hpf hov hsh hre =>
    have hne : (a.rin.expr.length == 0) = false := by
      cases h : a.rin.expr with
      | nil => exact absurd h he
      | cons _ _ => rfl
    have hopt : optimized a.rin.ast = (.fallback, reMatchCost) := by simp [optimized, hsh]
    constructor
    · simp only [RxAtom.tfMatch, RxAtom.tf, initRegex, hne, hc, hov, hopt, hpf, TF.accepts, escape_plain hv]
      simp [Shape.eval, hre, escape_nil]
    · simp [RxAtom.pruneMatch, RxAtom.tf, initRegex, hne, hc, TF.pruneMatch]
  | optimizedForm sh lit cost he hc hpf hov hsh hm =>
    have hne : (a.rin.expr.length == 0) = false := by
      cases h : a.rin.expr with
      | nil => exact absurd h he
      | cons _ _ => rfl
    have hopt : optimized a.rin.ast = (sh, cost) := by simp [optimized, hsh]
    constructor
    · simp only [RxAtom.tfMatch, RxAtom.tf, initRegex, hne, hc, hov, hopt, hpf, TF.accepts, escape_plain hv]
      simp [hm, escape_nil]
    · simp [RxAtom.pruneMatch, RxAtom.tf, initRegex, hne, hc, TF.pruneMatch]
  | suffix lit he hc hpf hov hsh hm hre =>
    have hne : (a.rin.expr.length == 0) = false := by
      cases h : a.rin.expr with
      | nil => exact absurd h he
      | cons _ _ => rfl
    have hopt : optimized a.rin.ast = (.generic [lit] [], reMatchCost) := by
      simp [optimized, hsh]
    constructor
    · simp only [RxAtom.tfMatch, RxAtom.tf, initRegex, hne, hc, hov, hopt, hpf, TF.accepts, escape_plain hv]
      simp only [escape_nil, List.length_nil, Nat.lt_irrefl, decide_false, Bool.false_eq_true, if_false,
        List.isPrefixOf_nil_left, if_true, List.drop_zero, Bool.not_true, Bool.and_false, Shape.eval,
        Bool.false_and]
      cases hmv : a.matches v with
      | false => simp [hre, hmv]
      | true =>
        have hs : isSuffix lit v = true := by rw [← hm]; exact hmv
        simp [literalsInOrder_single (containsB_of_isSuffix _ _ hs), hre, hmv]
    · simp [RxAtom.pruneMatch, RxAtom.tf, initRegex, hne, hc, TF.pruneMatch]

/-! ### the classes of the known findings: the same statement fails -/

/-- `host =~ /[wd]/`: the library hands over no prefix and the class `[dw]`; unanchored matching
selects every value that contains `w` or `d` -/
def atomWD : RxAtom where
  rin := ⟨[91, 119, 100, 93], [], [91, 100, 119, 93], true, .node .charClass false [100, 100, 119, 119] [], false⟩
  reMatch := fun v => v.contains 119 || v.contains 100
  «matches» := fun v => v.contains 119 || v.contains 100

/-- finding `regex_nonliteral_unanchored`: on the value `web` the filter says no (its or-values
`d`, `w` are looked up exactly), unanchored matching says yes -/
theorem regex_nonliteral_unanchored_witness :
    atomWD.tf.orSuffixes = [[100], [119]] ∧ atomWD.tfMatch [119, 101, 98] = false ∧
      atomWD.matches [119, 101, 98] = true := by decide

/-- `host =~ /^a$/`: `simplifyRegexp` strips both anchors, the library hands over the literal `a`
and no remaining expression; unanchored matching of `^a$` selects only the value `a` -/
def atomAnchored : RxAtom where
  rin := ⟨[94, 97, 36], [97], [], true, .node .noMatch false [] [], false⟩
  reMatch := fun _ => false
  «matches» := fun v => v == [97]

/-- finding `show_series_anchored_regex`: the value `ab` is accepted (substring test) -/
theorem show_series_anchored_regex_witness :
    atomAnchored.tf.isLiteralRegexp = true ∧ atomAnchored.tfMatch [97, 98] = true ∧
      atomAnchored.pruneMatch [97, 98] = true ∧ atomAnchored.matches [97, 98] = false := by decide

/-- `/1/`: a literal; the scan matches it against the *escaped* value bytes -/
def atomOne : RxAtom where
  rin := ⟨[49], [49], [], true, .node .noMatch false [] [], false⟩
  reMatch := fun _ => false
  «matches» := fun v => containsB v [49]

theorem atomOne_good : GoodClass atomOne := .literal rfl (fun _ => rfl)

/-- finding `regex_sees_escaped_separator_bytes`: for the value `a\x01` (not `Plain`) the filter
of a good-class atom says yes — the escaped form `a 00 31` contains the byte `1` = 0x31 -/
theorem regex_sees_escaped_separator_bytes_witness :
    atomOne.tfMatch [97, 1] = true ∧ atomOne.matches [97, 1] = false := by decide

/-- the unrestricted statement, refuted by the three witnesses above -/
def init_matcher_eq_regex_full : Prop := ∀ (a : RxAtom) (v : B), a.tfMatch v = a.matches v

theorem init_matcher_eq_regex_full_false : ¬ init_matcher_eq_regex_full := by
  intro h
  have := h atomWD [119, 101, 98]
  rw [regex_nonliteral_unanchored_witness.2.1, regex_nonliteral_unanchored_witness.2.2] at this
  exact absurd this (by decide)

/-! ### non-vacuity: each good class has an atom, with the tables `ogh` read off the real code -/

/-- `/eb/` on `web` -/
def atomEb : RxAtom where
  rin := ⟨[101, 98], [101, 98], [], true, .node .noMatch false [] [], false⟩
  reMatch := fun _ => false
  «matches» := fun v => containsB v [101, 98]

example : GoodClass atomEb := .literal rfl (fun _ => rfl)
example : atomEb.tfMatch [119, 101, 98] = true := by decide

/-- `/^we/`: prefix `we`, remaining expression `(?-s:.*)` -/
def atomPrefix : RxAtom where
  rin := ⟨[94, 119, 101], [119, 101], [46, 42], true, .node .star false [] [.node .anyCharNotNL false [] []], false⟩
  reMatch := fun _ => true
  «matches» := fun v => [119, 101].isPrefixOf v

example : GoodClass atomPrefix :=
  .anchoredPrefix (by decide) rfl (by decide) (by decide) (by intro x hx; revert x; decide) (fun _ => rfl)

/-- `/^(web|db)$/`: no prefix, or-values `db`, `web` -/
def atomOr : RxAtom where
  rin := ⟨[94, 40, 119, 101, 98, 124, 100, 98, 41, 36], [], [119, 101, 98, 124, 100, 98], true,
    .node .alternate false [] [.node .literal false [119, 101, 98] [], .node .literal false [100, 98] []], false⟩
  reMatch := fun v => v == [119, 101, 98] || v == [100, 98]
  «matches» := fun v => v == [100, 98] || v == [119, 101, 98]

example : getOrValues atomOr.rin.ast = [[100, 98], [119, 101, 98]] := by decide

theorem atomOr_orValues : getOrValues atomOr.rin.ast = [[100, 98], [119, 101, 98]] := by decide

example : GoodClass atomOr :=
  .anchoredOr (by decide) rfl (by rw [atomOr_orValues]; decide) (by intro x hx; cases hx)
    (by rw [atomOr_orValues]; intro s hs; simp at hs; rcases hs with rfl | rfl <;> (intro x hx; revert x; decide))
    (fun v => by rw [atomOr_orValues]; simp [atomOr])

end OG.C10.TF
