/-
C10 — cache eviction and the two timer-driven steps of the index table as ordinary operations.

* `evict keep`: any entries of the series-key cache may vanish between two operations.
  `id_stable_under_eviction`: as long as a series is not evicted before it is flushed, every
  theorem about reachable states (`id_unique_stable`, …) holds with evictions in the run; in
  particular writing a series again after any such eviction returns its id.
  `id_stable_under_eviction_full_false`: without that condition it fails — an unflushed series is
  found only through the cache (finding `series_cache_evicted_before_flush`).
* `pflush` (periodic, non-final flush: no cache-generation bump) and `bump` (the deferred flush
  callback): `staleness_window_witness` — between the two, the select path may answer from a stale
  tag-filter cache entry and miss a series that is already visible; `cache_coherent_after_bump`
  — after the callback it is exact again.
-/
import OG.C10.Props

namespace OG.C10

variable {Re : Type}

/-- an eviction spares the series that are not flushed yet -/
def EvictOk (s : St) (keep : SKey → Bool) : Prop := ∀ k i, Item.k2i k i ∈ s.pend → keep k = true

/-- **`id_stable_under_eviction`**: evictions (any subset of the series-key cache, any number of
times, anywhere in the run — they are operations of `Reach`) do not disturb identity: after an
eviction that spares the unflushed series, a live id is still the answer of a lookup-or-create, a
key still has one live id, an id one key, and everything issued is still there. -/
theorem id_stable_under_eviction {M : Matchers Re} {s : St} (hr : Reach M s) (keep : SKey → Bool)
    (hk : EvictOk s keep) :
    Reach M (evict s keep) ∧
    (∀ k i, k.WF → s.seq + 1 < 2 ^ 40 → Issued s k i → i ∉ s.deleted → (insert (evict s keep) k).1 = i) ∧
    (∀ k i j, Issued (evict s keep) k i → Issued (evict s keep) k j →
      i ∉ (evict s keep).deleted → j ∉ (evict s keep).deleted → i = j) ∧
    (∀ k i, Issued s k i → Issued (evict s keep) k i) := by
  have hr' : Reach M (evict s keep) := Reach.step (.evict keep) hr hk
  obtain ⟨h1, _, _, _, h5⟩ := id_unique_stable hr'
  exact ⟨hr', fun k i hw hb hi hd => h5 k i hw hb hi hd, h1, fun _ _ hi => hi⟩

/-- the unrestricted statement: whatever is evicted, a series written again gets its id back -/
def id_stable_under_eviction_full : Prop :=
  ∀ (s : St) (keep : SKey → Bool) (k : SKey) (i : Id), Reach witnessM s → k.WF → Issued s k i → i ∉ s.deleted →
    (insert (evict s keep) k).1 = i

/-- **it fails**: write a series, lose its cache entry before the raw items are flushed, write it
again — the index lookup cannot see the unflushed items and a second id is created. -/
theorem id_stable_under_eviction_full_false : ¬ id_stable_under_eviction_full := by
  intro h
  have hr : Reach witnessM (apply witnessM (St.init 1 1000) (.ins witnessKey)) :=
    Reach.step (.ins witnessKey) (Reach.init 1 1000 (by omega) (by omega))
      ⟨witnessKey_wf, by show 1000 + 1 < 2 ^ 40; omega⟩
  have hi : Issued (apply witnessM (St.init 1 1000) (.ins witnessKey)) witnessKey (mkId 1 1001) := by
    unfold Issued; decide
  have := h _ (fun _ => false) witnessKey (mkId 1 1001) hr witnessKey_wf hi (by decide)
  revert this
  decide

/-! ### the staleness window of the select path -/

def kA : SKey := ⟨"m", [("host", "a")]⟩
def kB : SKey := ⟨"m", [("dc", "x"), ("host", "a")]⟩
def hostA : Option (Pred Unit) := some (.atom (.eq "host" "a"))

/-- write `m,host=a`, flush, select `host='a'` (the answer is cached); write `m,dc=x,host=a`; a
periodic flush makes it visible but owes the cache-generation bump -/
def windowState : St :=
  pflush (insert (searchSel witnessM (flush (insert (St.init 1 1000) kA).2) "m" hostA).2 kB).2

/-- **`staleness_window_witness`**: in the window the show-series path sees both series, the select
path answers from the stale cache entry and misses the new one; after the deferred callback
(`bump`) it sees both. -/
theorem staleness_window_witness :
    windowState.needBump = true ∧
    searchShow witnessM windowState "m" hostA = [mkId 1 1001, mkId 1 1002] ∧
    (searchSel witnessM windowState "m" hostA).1 = some [mkId 1 1001] ∧
    (searchSel witnessM (bump windowState) "m" hostA).1 = some [mkId 1 1001, mkId 1 1002] := by decide

/-- **`cache_coherent_after_bump`**: write, periodic flush, deferred callback — then a select-path
search returns the written series iff its key satisfies the predicate, whatever was cached. -/
theorem cache_coherent_after_bump {M : Matchers Re} (hM : MatcherFaithful M) (hK : KeySound M) {s : St}
    (hr : Reach M s) (key : SKey) (hk : key.WF) (hb : s.seq + 1 < 2 ^ 40) (p : Option (Pred Re))
    (hp : optKeysOk p) :
    ∃ ids, (searchSel M (bump (pflush (insert s key).2)) key.mst p).1 = some ids ∧
      ((insert s key).1 ∈ ids ↔ optSat M p key) := by
  have hr1 : Reach M (apply M s (.ins key)) := Reach.step _ hr ⟨hk, hb⟩
  have hr2 : Reach M (apply M (apply M s (.ins key)) .pflush) := Reach.step _ hr1 trivial
  have hr3 : Reach M (apply M (apply M (apply M s (.ins key)) .pflush) .bump) := Reach.step _ hr2 trivial
  have hnb : (bump (pflush (insert s key).2)).needBump = false := by
    unfold bump; split <;> simp_all
  obtain ⟨_, hsel⟩ := search_eq_bruteforce_param hM hK hr3 key.mst p hp
  obtain ⟨ids, h1, h2⟩ := hsel hnb
  refine ⟨ids, h1, ?_⟩
  rw [h2]
  obtain ⟨cv, cp, h⟩ := reach_inv hr
  obtain ⟨cp', hI, _, _, hdel, _, _, _, _, hmem, hnd, _⟩ := insert_spec h hk hb
  have hI2 := pflush_spec hI
  have hI3 := bump_spec hI2
  have hdel3 : (bump (pflush (insert s key).2)).deleted = s.deleted := by
    rw [← hdel]; unfold bump pflush; split <;> split <;> rfl
  constructor
  · rintro ⟨k', h1', _, _, h4⟩
    have hmem' : (k', (insert s key).1) ∈ (cv ++ cp') ++ [] :=
      (issued_iff hI3).mp (List.mem_append_left _ h1')
    rw [List.append_nil] at hmem'
    rw [hI.good.key_eq hmem' hmem] at h4
    exact h4
  · intro hsat
    refine ⟨key, ?_, rfl, ?_, hsat⟩
    · show Item.k2i key (insert s key).1 ∈ (bump (pflush (insert s key).2)).vis
      rw [hI3.vis]; exact mem_Gen_k2i.mpr hmem
    · show (insert s key).1 ∉ (bump (pflush (insert s key).2)).deleted
      rw [hdel3]; exact hnd

end OG.C10
