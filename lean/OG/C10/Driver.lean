/-
C10 — line-protocol driver of the model (core only).

  open <n>                                   → ok          (fresh index: clock 1, wall clock 1000)
  ins <mst> <k=v,…|->                        → id <n>
  get <mst> <k=v,…|->                        → id <n>
  flush | clear | reopen | restart <dt> | sib → ok
  pflush | bump | evictf                     → ok          (periodic flush, deferred flush callback, filter caches evicted)
  evict <n> (<mst> <tags>)*n                 → ok          (the series-key cache keeps only these series)
  del <mst> <PRED>                           → del <deleted ids, ascending>
  show | sel | keys <mst> <PRED>             → ids <ascending>
  tagvals <mst> <key> <PRED>                 → vals <ascending>

  mtv <v>                                    → b <bytes>            (marshalTagValue)
  utv <bytes>                                → ok <value> <rest> | err <class>
  ck <name> <key> | uck <bytes>              → b <bytes> | ok <key> <name> | err <class> | panic
  cmp <a> <b>                                → lt | ge              (order of the marshalled values, by `keyLt`)
  parse <item>                               → ok n=… id=… sk=… k=… v=… | err <class> | panic
  scan key|val|exact|mst|skey|id …           → p <prefix> items <n> <item>…   (seek + scan over the sorted
                                               single-tsid items of the visible series)

  tfinit T:<text> P:<prefix> E:<expr> C:<compiles> ME:<matches ""> A:<syntax tree> V:<value/reMatch/spec;…>
                                             → the R token of the atom (below) as `tagFilter.Init`, the scan and
                                               the prune step of the model derive it, then
                                               or=<or-suffixes> pre=<value prefix> cost=<n> em=<isEmptyMatch> err=<0|1>

  xshow | xsel <mst> <XPRED>                 → ids <ascending>   (XPRED = PRED plus `i k n v…` IN, `n k n v…` NOT IN,
                                               `e k1 k2` tag = tag, `d k1 k2` tag != tag, `f n` a field comparison)

PRED = <nre> R… <prefix tokens>: `& a b`, `| a b`, `( a`, `= k v`, `! k v`, `~ k i`, `^ k i`, `*`.
R = R:<matchEmpty><literal><emptyText>:<tf.value>:<text>:<value/tf/prune;…> — the matcher tables
of the i-th regex atom as the harness read them off the real tag filter (`_` = absent tag).
Strings are hex with an `x` prefix.
-/
import OG.C10.Model
import OG.C10.Bytes
import OG.C10.TagFilter
import OG.C10.Forms

namespace OG.C10

structure DRe where
  matchEmpty : Bool
  literal : Bool
  emptyText : Bool
  value : Str
  rows : List (Option Str × Bool × Bool)   -- value (none = absent tag), tag filter, prune
deriving Repr

def DRe.row (r : DRe) (v : Option Str) : Option (Bool × Bool) :=
  match r.rows.find? (fun x => x.1 == v) with
  | some x => some x.2
  | none => none

def dM : Matchers DRe where
  «matches» := fun _ _ => false   -- the specification matcher is not needed to run the model
  matchEmpty := fun r => r.matchEmpty
  tfMatch := fun r v => match r.row (some v) with | some x => x.1 | none => false
  pruneMatch := fun r v => match r.row (if v == "" then none else some v) with | some x => x.2 | none => false
  ckey := fun r => (if r.literal then 2 else 1, r.value)
  emptyText := fun r => r.emptyText

def unhex (t : String) : Option Str :=
  if t.startsWith "x" then some (t.drop 1).toString else none

def bit (c : Char) : Option Bool :=
  if c == '1' then some true else if c == '0' then some false else none

def parseRow (t : String) : Option (Option Str × Bool × Bool) :=
  match t.splitOn "/" with
  | [v, f, p] => do
    let v ← if v == "_" then some none else (unhex v).map some
    let f ← match f.toList with | [c] => bit c | _ => none
    let p ← match p.toList with | [c] => bit c | _ => none
    some (v, f, p)
  | _ => none

def parseRe (t : String) : Option DRe :=
  match t.splitOn ":" with
  | ["R", flags, value, _text, tbl] => do
    let (me, lit, et) ← match flags.toList with
      | [a, b, c] => do some ((← bit a), (← bit b), (← bit c))
      | _ => none
    let value ← unhex value
    let rows ← (tbl.splitOn ";").mapM parseRow
    some ⟨me, lit, et, value, rows⟩
  | _ => none

def parseTags (t : String) : Option (List (Str × Str)) :=
  if t == "-" then some [] else
  (t.splitOn ",").mapM fun kv =>
    match kv.splitOn "=" with
    | [k, v] => do some ((← unhex k), (← unhex v))
    | _ => none

partial def parsePredTok (res : Array DRe) : List String → Option (Pred DRe × List String)
  | "&" :: rest => do
    let (a, rest) ← parsePredTok res rest
    let (b, rest) ← parsePredTok res rest
    some (.and a b, rest)
  | "|" :: rest => do
    let (a, rest) ← parsePredTok res rest
    let (b, rest) ← parsePredTok res rest
    some (.or a b, rest)
  | "(" :: rest => do
    let (a, rest) ← parsePredTok res rest
    some (.paren a, rest)
  | "=" :: k :: v :: rest => do some (.atom (.eq (← unhex k) (← unhex v)), rest)
  | "!" :: k :: v :: rest => do some (.atom (.ne (← unhex k) (← unhex v)), rest)
  | "~" :: k :: i :: rest => do some (.atom (.re (← unhex k) (← res[(← i.toNat?)]?)), rest)
  | "^" :: k :: i :: rest => do some (.atom (.nre (← unhex k) (← res[(← i.toNat?)]?)), rest)
  | _ => none

/-- `<nre> R… pred`; `some none` = no condition. -/
def parsePred (toks : List String) : Option (Option (Pred DRe)) :=
  match toks with
  | n :: rest => do
    let n ← n.toNat?
    if rest.length < n then none else
    let res ← (rest.take n).mapM parseRe
    match rest.drop n with
    | ["*"] => some none
    | ts =>
      match parsePredTok res.toArray ts with
      | some (p, []) => some (some p)
      | _ => none
  | [] => none

/-- every present value the scan may meet must be in the atom's table (reject, never default) -/
def atomsOf : Pred DRe → List (Atom DRe)
  | .atom a => [a]
  | .and a b | .or a b => atomsOf a ++ atomsOf b
  | .paren a => atomsOf a

def tablesCover (items : List Item) (mst : Str) (p : Option (Pred DRe)) : Bool :=
  match p with
  | none => true
  | some p => (atomsOf p).all fun a =>
    match a with
    | .re k r | .nre k r =>
      (r.row none).isSome && items.all fun
        | .t2i m k' v _ => !(m == mst && k' == k) || (r.row (some v)).isSome
        | _ => true
    | _ => true


/-! ### byte-level ops -/

open OG.C10.Bytes in
def hexVal (c : Char) : Option Nat :=
  if '0' ≤ c ∧ c ≤ '9' then some (c.toNat - 48)
  else if 'a' ≤ c ∧ c ≤ 'f' then some (c.toNat - 87)
  else none

def hexBytesAux : List Char → Option Bytes.B
  | [] => some []
  | [_] => none
  | a :: b :: t => do
    let x ← hexVal a
    let y ← hexVal b
    let r ← hexBytesAux t
    some (UInt8.ofNat (x * 16 + y) :: r)

/-- hex text (without the `x`) → bytes -/
def hexBytes (s : Str) : Option Bytes.B := hexBytesAux s.toList

def unhexB (t : String) : Option Bytes.B := do hexBytes (← unhex t)

def hexDigit (n : Nat) : Char := if n < 10 then Char.ofNat (48 + n) else Char.ofNat (87 + n)

def showB (b : Bytes.B) : String :=
  "x" ++ String.ofList (b.flatMap fun c => [hexDigit (c.toNat / 16), hexDigit (c.toNat % 16)])

def keyLtB : Bytes.B → Bytes.B → Bool
  | [], [] => false
  | [], y :: _ => decide (2 < y)
  | x :: _, [] => decide (x ≤ 2)
  | x :: xs, y :: ys => decide (x < y) || (x == y && keyLtB xs ys)

def encTags (tags : List (Str × Str)) : Option (List (Bytes.B × Bytes.B)) :=
  tags.mapM fun t => do some ((← hexBytes t.1), (← hexBytes t.2))

/-- the bytes of a model item (one tsid per tag→tsids row) -/
def encodeItem : Item → Option Bytes.B
  | .k2i key id => do some (Bytes.itemK2I (Bytes.indexKey (← hexBytes key.mst) (← encTags key.tags)) id)
  | .i2k id key => do some (Bytes.itemI2K id (Bytes.indexKey (← hexBytes key.mst) (← encTags key.tags)))
  | .t2i m k v id => do some (Bytes.itemT2I (← hexBytes m) (← hexBytes k) (← hexBytes v) [id])

def dedupAdj : List Bytes.B → List Bytes.B
  | a :: b :: rest => if a == b then dedupAdj (b :: rest) else a :: dedupAdj (b :: rest)
  | l => l

def scanAnswer (s : St) (p : Bytes.B) : String :=
  match s.vis.mapM encodeItem with
  | none => "bad-op"
  | some items =>
    let table := dedupAdj (items.mergeSort (fun a b => Bytes.ble a b))
    let got := Bytes.seekScan p table
    got.foldl (fun acc it => acc ++ " " ++ showB it) s!"p {showB p} items {got.length}"

def uerrText : Bytes.UErr → String
  | .missingSeparator => "missing-separator"
  | .truncatedEscape => "truncated-escape"
  | .invalidEscape _ => "invalid-escape"

def perrText : Bytes.PErr → String
  | .tooShort => "err too-short"
  | .noKvSeparator => "err no-kv-separator"
  | .kvSeparatorMisplaced => "err kv-separator-misplaced"
  | .noTagValue => "err no-tag-value"
  | .tagValue e => "err " ++ uerrText e
  | .composite .insufficient => "err composite-insufficient"
  | .composite .badVarUint => "err bad-varuint"
  | .composite .slicePanic => "panic"
  | .measurement .tooSmallForTags => "err too-small-for-tags"
  | .measurement .tooSmallIndexKey => "err too-small-index-key"
  | .measurement .tooSmallForMeasurement => "err too-small-for-measurement"
  | .measurement .slicePanic => "panic"


/-! ### `tfinit`: the model's `tagFilter.Init` on the facts the regexp library supplied -/

def sopOfCode : String → Option TF.SOp
  | "nm" => some .noMatch | "em" => some .emptyMatch | "li" => some .literal | "cc" => some .charClass
  | "an" => some .anyCharNotNL | "ac" => some .anyChar | "bl" => some .beginLine | "el" => some .endLine
  | "bt" => some .beginText | "et" => some .endText | "wb" => some .wordBoundary | "nw" => some .noWordBoundary
  | "cp" => some .capture | "st" => some .star | "pl" => some .plus | "qu" => some .quest | "rp" => some .repeat_
  | "ct" => some .concat | "al" => some .alternate
  | _ => none

def takeNat : List Char → Nat → Nat × List Char
  | c :: t, acc => if c.isDigit then takeNat t (acc * 10 + (c.toNat - 48)) else (acc, c :: t)
  | [], acc => (acc, [])

/-- runes: decimal numbers separated by '.', closed by ']' -/
partial def parseRunes : List Char → List Nat → Option (List Nat × List Char)
  | ']' :: t, acc => some (acc.reverse, t)
  | '.' :: t, acc => parseRunes t acc
  | c :: t, acc =>
    if c.isDigit then
      let (n, rest) := takeNat (c :: t) 0
      parseRunes rest (n :: acc)
    else none
  | [], _ => none

mutual
/-- `<op:2 letters><fold:0|1>[runes](subs)` -/
partial def parseSre : List Char → Option (TF.Sre × List Char)
  | a :: b :: f :: '[' :: t => do
    let op ← sopOfCode (String.ofList [a, b])
    let fold ← bit f
    let (rs, t) ← parseRunes t []
    match t with
    | '(' :: t =>
      let (subs, t) ← parseSubs t []
      some (.node op fold rs subs, t)
    | _ => none
  | _ => none
partial def parseSubs : List Char → List TF.Sre → Option (List TF.Sre × List Char)
  | ')' :: t, acc => some (acc.reverse, t)
  | ',' :: t, acc => parseSubs t acc
  | cs, acc => do
    let (s, t) ← parseSre cs
    parseSubs t (s :: acc)
end

def field (pre : String) (t : String) : Option String :=
  if t.startsWith pre then some (t.drop pre.length).toString else none

/-- rows `value|_ / reMatch bit or - / spec bit` -/
def parseInRow (t : String) : Option (Option Bytes.B × Option Bool × Bool) :=
  match t.splitOn "/" with
  | [v, rm, sp] => do
    let v ← if v == "_" then some none else (unhexB v).map some
    let rm ← match rm.toList with | ['-'] => some none | [c] => (bit c).map some | _ => none
    let sp ← match sp.toList with | [c] => bit c | _ => none
    some (v, rm, sp)
  | _ => none

def b2c (b : Bool) : Char := if b then '1' else '0'

def tfinitOp : List String → Option String
  | [t, p, e, c, me, a, v] => do
    let text ← unhexB (← field "T:" t)
    let pfx ← unhexB (← field "P:" p)
    let expr ← unhexB (← field "E:" e)
    let cok ← match (← field "C:" c).toList with | [x] => bit x | _ => none
    let mE ← match (← field "ME:" me).toList with | [x] => bit x | _ => none
    let (ast, rest) ← parseSre (← field "A:" a).toList
    if !rest.isEmpty then none else
    let rows ← ((← field "V:" v).splitOn ";").mapM parseInRow
    let rin : TF.RxIn := ⟨text, pfx, expr, cok, ast, mE⟩
    let tf := TF.initRegex rin false
    -- reMatch / matches as tables over the candidate values of this atom
    let specOf (v : Bytes.B) : Bool :=
      match rows.find? (fun r => r.1 == (if v.isEmpty then none else some v)) with
      | some r => r.2.2
      | none => false
    let outRows := rows.map fun (v, rm, _) =>
      match v with
      | none => s!"_/0/{b2c (tf.pruneMatch specOf [])}"
      | some v =>
        let reMatch (_ : Bytes.B) : Bool := rm.getD false
        s!"{showB v}/{b2c (tf.accepts reMatch v)}/{b2c (tf.pruneMatch specOf v)}"
    -- a row that needs `reMatch` must carry the bit (reject, never default)
    let needs (v : Bytes.B) : Bool := tf.accepts (fun _ => true) v != tf.accepts (fun _ => false) v
    if rows.any (fun r => match r.1 with | some v => needs v && r.2.1.isNone | none => false) then none else
    let ors := if tf.orSuffixes.isEmpty then "-" else ",".intercalate (tf.orSuffixes.map showB)
    some (s!"R:{b2c mE}{b2c tf.isLiteralRegexp}{b2c tf.isEmptyValue}:{showB tf.value}:{showB text}:" ++
      ";".intercalate outRows ++
      s!" or={ors} pre={showB tf.valPrefix} cost={tf.matchCost} em={b2c tf.isEmptyMatch} err={b2c tf.initErr}")
  | _ => none

def byteOp (s : St) : List String → Option String
  | ["mtv", v] => do some ("b " ++ showB (Bytes.marshalTagValue [] (← unhexB v)))
  | ["utv", b] => do
    match Bytes.unmarshalTagValue [] (← unhexB b) with
    | .ok (rest, v) => some s!"ok {showB v} {showB rest}"
    | .err e => some ("err " ++ uerrText e)
  | ["ck", n, k] => do some ("b " ++ showB (Bytes.marshalCompositeTagKey [] (← unhexB n) (← unhexB k)))
  | ["uck", b] => do
    match Bytes.unmarshalCompositeTagKey (← unhexB b) with
    | .ok (k, n) => some s!"ok {showB k} {showB n}"
    | .err .insufficient => some "err composite-insufficient"
    | .err .badVarUint => some "err bad-varuint"
    | .err .slicePanic => some "panic"
  | ["cmp", a, b] => do some (if keyLtB (← unhexB a) (← unhexB b) then "lt" else "ge")
  | ["parse", it] => do
    match Bytes.parseItem (← unhexB it) with
    | .ok p => some s!"ok n={showB p.name} id={p.tsid} sk={showB p.seriesKey} k={showB p.key} v={showB p.tagValue}"
    | .err e => some (perrText e)
  | ["scan", "key", n, k] => do some (scanAnswer s (Bytes.tagKeyPrefix (← unhexB n) (← unhexB k)))
  | ["scan", "val", n, k, l] => do some (scanAnswer s (Bytes.tagValuePrefix (← unhexB n) (← unhexB k) (← unhexB l)))
  | ["scan", "exact", n, k, v] => do
    some (scanAnswer s (Bytes.tagKeyPrefix (← unhexB n) (← unhexB k) ++ Bytes.marshalTagValue [] (← unhexB v)))
  | ["scan", "mst", n] => do some (scanAnswer s (Bytes.mstPrefix (← unhexB n)))
  | ["scan", "skey", n, tags] => do
    let tags ← encTags (← parseTags tags)
    some (scanAnswer s (Bytes.seriesKeyPrefix (Bytes.indexKey (← unhexB n) tags)))
  | "tfinit" :: rest => tfinitOp rest
  | ["scan", "id", i] => do some (scanAnswer s ([OG.Gen.C10.nsPrefixTSIDToKey] ++ Bytes.be64 (← i.toNat?)))
  | _ => none

def isByteOp (k : String) : Bool :=
  k == "mtv" || k == "utv" || k == "ck" || k == "uck" || k == "cmp" || k == "parse" || k == "scan" || k == "tfinit"


/-- take `n` hex strings -/
def takeVals : Nat → List String → Option (List Str × List String)
  | 0, rest => some ([], rest)
  | n + 1, v :: rest => do
    let v ← unhex v
    let (vs, rest) ← takeVals n rest
    some (v :: vs, rest)
  | _, [] => none

partial def parseXPredTok (res : Array DRe) : List String → Option (XPred DRe × List String)
  | "&" :: rest => do
    let (a, rest) ← parseXPredTok res rest
    let (b, rest) ← parseXPredTok res rest
    some (.and a b, rest)
  | "|" :: rest => do
    let (a, rest) ← parseXPredTok res rest
    let (b, rest) ← parseXPredTok res rest
    some (.or a b, rest)
  | "(" :: rest => do
    let (a, rest) ← parseXPredTok res rest
    some (.paren a, rest)
  | "=" :: k :: v :: rest => do some (.atom (.tag (.eq (← unhex k) (← unhex v))), rest)
  | "!" :: k :: v :: rest => do some (.atom (.tag (.ne (← unhex k) (← unhex v))), rest)
  | "~" :: k :: i :: rest => do some (.atom (.tag (.re (← unhex k) (← res[(← i.toNat?)]?))), rest)
  | "^" :: k :: i :: rest => do some (.atom (.tag (.nre (← unhex k) (← res[(← i.toNat?)]?))), rest)
  | "i" :: k :: n :: rest => do
    let (vs, rest) ← takeVals (← n.toNat?) rest
    some (.atom (.inSet (← unhex k) vs), rest)
  | "n" :: k :: n :: rest => do
    let (vs, rest) ← takeVals (← n.toNat?) rest
    some (.atom (.notIn (← unhex k) vs), rest)
  | "e" :: a :: b :: rest => do some (.atom (.tagEq (← unhex a) (← unhex b)), rest)
  | "d" :: a :: b :: rest => do some (.atom (.tagNe (← unhex a) (← unhex b)), rest)
  | "f" :: n :: rest => do some (.atom (.field (← n.toNat?)), rest)
  | _ => none

def parseXPred (toks : List String) : Option (XPred DRe) :=
  match toks with
  | n :: rest => do
    let n ← n.toNat?
    if rest.length < n then none else
    let res ← (rest.take n).mapM parseRe
    match parseXPredTok res.toArray (rest.drop n) with
    | some (p, []) => some p
    | _ => none
  | [] => none

def xAtomsOf : XPred DRe → List (Atom DRe)
  | .atom (.tag a) => [a]
  | .atom _ => []
  | .and a b | .or a b => xAtomsOf a ++ xAtomsOf b
  | .paren a => xAtomsOf a

def xTablesCover (items : List Item) (mst : Str) (p : XPred DRe) : Bool :=
  (xAtomsOf p).all fun a =>
    match a with
    | .re k r | .nre k r =>
      (r.row none).isSome && items.all fun
        | .t2i m k' v _ => !(m == mst && k' == k) || (r.row (some v)).isSome
        | _ => true
    | _ => true

def sortIds (l : List Id) : List Id := l.mergeSort (fun a b => decide (a ≤ b))

def dedupSorted : List Str → List Str
  | a :: b :: rest => if a == b then dedupSorted (b :: rest) else a :: dedupSorted (b :: rest)
  | l => l

def showIds (pre : String) (l : List Id) : String :=
  (sortIds l).foldl (fun acc i => acc ++ " " ++ toString i) pre

/-- `<mst> <tags>` pairs -/
def parseKeyList : List String → Option (List SKey)
  | [] => some []
  | m :: t :: rest => do
    let m ← unhex m
    let tags ← parseTags t
    let ks ← parseKeyList rest
    some (⟨m, tags⟩ :: ks)
  | _ => none

def stepSearch (s : St) : List String → St × String
  | "xshow" :: m :: rest =>
    match unhex m, parseXPred rest with
    | some m, some p => if xTablesCover s.vis m p then (s, showIds "ids" (xSearchShow dM s m p)) else (s, "bad-op")
    | _, _ => (s, "bad-op")
  | "xsel" :: m :: rest =>
    match unhex m, parseXPred rest with
    | some m, some p =>
      if !xTablesCover s.vis m p then (s, "bad-op") else
      match xSearchSel dM s m p with
      | (some ids, s') => (s', showIds "ids" ids)
      | (none, s') => (s', "err searchSeriesKey")
    | _, _ => (s, "bad-op")
  | "del" :: m :: rest =>
    match unhex m, parsePred rest with
    | some m, some p =>
      if tablesCover s.vis m p then
        let s' := delete dM s m p
        (s', showIds "del" s'.deleted)
      else (s, "bad-op")
    | _, _ => (s, "bad-op")
  | kind :: m :: rest =>
    if kind == "show" || kind == "keys" || kind == "sel" then
      match unhex m, parsePred rest with
      | some m, some p =>
        if !tablesCover s.vis m p then (s, "bad-op")
        else if kind == "sel" then
          match searchSel dM s m p with
          | (some ids, s') => (s', showIds "ids" ids)
          | (none, s') => (s', "err searchSeriesKey")
        else (s, showIds "ids" (searchShow dM s m p))
      | _, _ => (s, "bad-op")
    else if kind == "tagvals" then
      match unhex m, rest with
      | some m, k :: rest =>
        match unhex k, parsePred rest with
        | some k, some p =>
          if !tablesCover s.vis m p then (s, "bad-op") else
          let vs := dedupSorted ((tagVals dM s m k p).mergeSort (fun a b => !decide (b < a)))
          (s, vs.foldl (fun acc v => acc ++ " x" ++ v) "vals")
        | _, _ => (s, "bad-op")
      | _, _ => (s, "bad-op")
    else (s, "bad-op")
  | _ => (s, "bad-op")

def step (s : St) (line : String) : St × String :=
  match (line.trimAscii.toString.splitOn " ").filter (· ≠ "") with
  | ["open", _] => (St.init 1 1000, "ok")
  | ["ins", m, tags] =>
    match unhex m, parseTags tags with
    | some m, some tags => let (id, s') := insert s ⟨m, tags⟩; (s', s!"id {id}")
    | _, _ => (s, "bad-op")
  | ["get", m, tags] =>
    match unhex m, parseTags tags with
    | some m, some tags => let (id, s') := getSeriesId s ⟨m, tags⟩; (s', s!"id {id}")
    | _, _ => (s, "bad-op")
  | ["flush"] => (flush s, "ok")
  | ["clear"] => (clear s, "ok")
  | ["reopen"] => (reopen s, "ok")
  | ["restart", dt] =>
    match dt.toNat? with
    | some dt => (restart s dt, "ok")
    | none => (s, "bad-op")
  | ["sib"] => (s, "ok")
  | ["pflush"] => (pflush s, "ok")
  | ["bump"] => (bump s, "ok")
  | ["evictf"] => (evictFilters s, "ok")
  | "evict" :: n :: rest =>
    match n.toNat?, parseKeyList rest with
    | some n, some keys => if keys.length == n then (evict s (fun k => keys.contains k), "ok") else (s, "bad-op")
    | _, _ => (s, "bad-op")
  | kind :: rest =>
    if isByteOp kind then
      match byteOp s (kind :: rest) with
      | some a => (s, a)
      | none => (s, "bad-op")
    else stepSearch s (kind :: rest)
  | _ => (s, "bad-op")

partial def loop (h out : IO.FS.Stream) (s : St) : IO Unit := do
  let line ← h.getLine
  if line.isEmpty then return ()
  let (s', ans) := step s line
  out.putStrLn ans
  loop h out s'

def main : IO Unit := do
  loop (← IO.getStdin) (← IO.getStdout) (St.init 1 1000)

end OG.C10

def main : IO Unit := OG.C10.main
