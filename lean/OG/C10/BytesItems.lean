/-
C10 — byte-level theorems about composite keys, the three item kinds and the prefixes a search
seeks to: an item has the prefix iff it is an item of that measurement / tag key / value prefix /
value / series key; `ParseItem` returns what `decode` wrote.
-/
import OG.C10.BytesProps

namespace OG.C10.Bytes
open OG.Gen.C10

/-! ### varuint -/

theorem u8_ofNat_toNat {n : Nat} (h : n < 256) : (UInt8.ofNat n).toNat = n := by
  simp [UInt8.toNat_ofNat, Nat.mod_eq_of_lt h]

theorem unUvarintF_uvarintF (f : Nat) : ∀ (n g shift acc : Nat) (rest : B), n < 128 ^ (f + 1) → f < g →
    unUvarintF (g + 1) shift acc (uvarintF f n ++ rest) = some (acc + n * 2 ^ shift, rest) := by
  induction f with
  | zero =>
    intro n g shift acc rest hn hg
    have hn' : n < 128 := by simpa using hn
    have h256 : n < 256 := by omega
    simp only [uvarintF, List.cons_append, List.nil_append, unUvarintF, u8_ofNat_toNat h256, hn', if_true]
    have : ¬ (g = 0 ∧ n > 1) := by omega
    simp [this]
  | succ f ih =>
    intro n g shift acc rest hn hg
    by_cases hlt : n < 128
    · have h256 : n < 256 := by omega
      simp only [uvarintF, hlt, if_true, List.cons_append, List.nil_append, unUvarintF, u8_ofNat_toNat h256]
      have : ¬ (g = 0 ∧ n > 1) := by omega
      simp [this]
    · obtain ⟨g', rfl⟩ : ∃ g', g = g' + 1 := ⟨g - 1, by omega⟩
      have hb : n % 128 + 128 < 256 := by omega
      have hge : ¬ (n % 128 + 128 < 128) := by omega
      simp only [uvarintF, hlt, if_false, List.cons_append, unUvarintF, u8_ofNat_toNat hb, hge]
      have hdiv : n / 128 < 128 ^ (f + 1) := by
        have : 128 ^ (f + 1 + 1) = 128 ^ (f + 1) * 128 := Nat.pow_succ _ _
        rw [this] at hn
        exact Nat.div_lt_of_lt_mul (by rw [Nat.mul_comm]; exact hn)
      rw [ih (n / 128) g' (shift + 7) _ rest hdiv (by omega)]
      congr 2
      have e : 2 ^ (shift + 7) = 2 ^ shift * 128 := by rw [Nat.pow_add]
      rw [e]
      have hm := Nat.mod_add_div n 128
      have : n % 128 + 128 - 128 = n % 128 := by omega
      rw [this]
      have key : ∀ r q s : Nat, acc + r * s + q * (s * 128) = acc + (r + 128 * q) * s := by
        intro r q s
        rw [Nat.add_mul, Nat.add_assoc, Nat.mul_comm s 128, ← Nat.mul_assoc q 128 s, Nat.mul_comm q 128]
      rw [key, hm]

theorem uvarintF_fuel (f : Nat) : ∀ n, n < 128 ^ (f + 1) → uvarintF (f + 1) n = uvarintF f n := by
  induction f with
  | zero => intro n hn; have : n < 128 := by simpa using hn
            simp [uvarintF, this]
  | succ f ih =>
    intro n hn
    by_cases hlt : n < 128
    · simp [uvarintF, hlt]
    · have hdiv : n / 128 < 128 ^ (f + 1) := by
        have : 128 ^ (f + 1 + 1) = 128 ^ (f + 1) * 128 := Nat.pow_succ _ _
        rw [this] at hn
        exact Nat.div_lt_of_lt_mul (by rw [Nat.mul_comm]; exact hn)
      simp only [uvarintF, hlt, if_false]
      rw [← ih (n / 128) hdiv]
      simp [uvarintF]

/-- varuint round trip (lengths below 2^63; the ten-byte overflow branch is not reached) -/
theorem unUvarint_uvarint {n : Nat} (hn : n < 2 ^ 63) (rest : B) :
    unUvarint (uvarint n ++ rest) = some (n, rest) := by
  unfold unUvarint uvarint
  have h9 : n < 128 ^ (8 + 1) := by
    have : (128 : Nat) ^ (8 + 1) = 2 ^ 63 := by rfl
    omega
  rw [uvarintF_fuel 8 n h9, unUvarintF_uvarintF 8 n 9 0 0 rest h9 (by omega)]
  simp

/-! ### composite tag key -/

theorem compositeKey_eq (name key : B) :
    marshalCompositeTagKey [] name key = 254 :: (uvarint name.length ++ (name ++ key)) := by
  simp [marshalCompositeTagKey, show compositeTagKeyPrefix = 254 from rfl]

theorem namePrefix_eq (name : B) :
    marshalCompositeNamePrefix [] name = 254 :: (uvarint name.length ++ name) := by
  simp [marshalCompositeNamePrefix, show compositeTagKeyPrefix = 254 from rfl]

/-- **`compositekey_roundtrip`** -/
theorem compositekey_roundtrip {name : B} (hn : name.length < 2 ^ 63) (key : B) :
    unmarshalCompositeTagKey (marshalCompositeTagKey [] name key) = .ok (key, name) := by
  rw [compositeKey_eq]
  simp only [unmarshalCompositeTagKey, unUvarint_uvarint hn]
  simp

theorem compositekey_injective {n n' k k' : B} (hn : n.length < 2 ^ 63) (hn' : n'.length < 2 ^ 63)
    (h : marshalCompositeTagKey [] n k = marshalCompositeTagKey [] n' k') : n = n' ∧ k = k' := by
  have h1 := compositekey_roundtrip hn k
  rw [h, compositekey_roundtrip hn' k'] at h1
  injection h1 with h1
  simp only [Prod.mk.injEq] at h1
  exact ⟨h1.2.symm, h1.1.symm⟩

/-- the composite *name* prefix starts a composite key iff it is a key of that measurement -/
theorem namePrefix_prefix_iff {n n' : B} (hn : n.length < 2 ^ 63) (hn' : n'.length < 2 ^ 63) (k' : B) :
    marshalCompositeNamePrefix [] n <+: marshalCompositeTagKey [] n' k' ↔ n = n' := by
  rw [namePrefix_eq, compositeKey_eq]
  constructor
  · intro h
    obtain ⟨z, hz⟩ := (List.cons_prefix_cons.mp h).2
    have h1 := unUvarint_uvarint hn (n ++ z)
    rw [List.append_assoc] at hz
    rw [hz, unUvarint_uvarint hn' (n' ++ k')] at h1
    simp only [Option.some.injEq, Prod.mk.injEq] at h1
    have hl : n'.length = n.length := h1.1
    have := h1.2
    have := congrArg (List.take n.length) this
    simpa [List.take_append_of_le_length, hl] using this.symm
  · rintro rfl
    exact List.cons_prefix_cons.mpr ⟨rfl, by rw [← List.append_assoc]; exact List.prefix_append _ _⟩

/-! ### tag → tsids items -/

theorem marshal_prefix_iff (a b y : B) :
    marshalTagValue [] a <+: marshalTagValue [] b ++ y ↔ a = b := by
  constructor
  · rintro ⟨z, hz⟩
    exact (marshal_prefix_free hz).1
  · rintro rfl; exact List.prefix_append _ _

theorem marshalNoTrailing_eq (dst src : B) : marshalNoTrailing dst src = dst ++ escape src := by
  unfold marshalNoTrailing
  rw [marshal_eq]
  simp [← List.append_assoc, List.dropLast_concat]

theorem ns_tag : nsPrefixTagToTSIDs = 2 := rfl

theorem itemT2I_eq (n k v : B) (ts : List Nat) :
    itemT2I n k v ts =
      2 :: (marshalTagValue [] (marshalCompositeTagKey [] n k) ++ (marshalTagValue [] v ++ ts.flatMap be64)) := by
  unfold itemT2I
  rw [marshal_dst, marshal_dst _ (marshalCompositeTagKey [] n k)]
  simp [ns_tag]

theorem tagKeyPrefix_eq (n k : B) :
    tagKeyPrefix n k = 2 :: marshalTagValue [] (marshalCompositeTagKey [] n k) := by
  unfold tagKeyPrefix; rw [marshal_dst]; simp [ns_tag]

/-- **`t2i_key_prefix_iff`**: the prefix `tagFilter.Init` builds for (measurement, tag key) starts
exactly the tag→tsids items of that measurement and tag key. -/
theorem t2i_key_prefix_iff {n k n' k' : B} (hn : n.length < 2 ^ 63) (hn' : n'.length < 2 ^ 63)
    (v' : B) (ts : List Nat) :
    tagKeyPrefix n k <+: itemT2I n' k' v' ts ↔ n = n' ∧ k = k' := by
  rw [tagKeyPrefix_eq, itemT2I_eq, List.cons_prefix_cons, marshal_prefix_iff]
  constructor
  · rintro ⟨_, h⟩; exact compositekey_injective hn hn' h
  · rintro ⟨rfl, rfl⟩; exact ⟨rfl, rfl⟩

/-- **`t2i_value_prefix_iff`**: key prefix + escaped literal (no separator) starts exactly the
items of that tag key whose *value* starts with the literal. -/
theorem t2i_value_prefix_iff {n k n' k' : B} (hn : n.length < 2 ^ 63) (hn' : n'.length < 2 ^ 63)
    (lit v' : B) (ts : List Nat) :
    tagValuePrefix n k lit <+: itemT2I n' k' v' ts ↔ n = n' ∧ k = k' ∧ lit <+: v' := by
  unfold tagValuePrefix
  rw [marshalNoTrailing_eq, tagKeyPrefix_eq, itemT2I_eq, marshal_eq [] v']
  simp only [List.cons_append, List.nil_append, List.cons_prefix_cons, true_and, List.append_assoc,
    List.singleton_append]
  constructor
  · intro h
    have hk : marshalTagValue [] (marshalCompositeTagKey [] n k) <+:
        marshalTagValue [] (marshalCompositeTagKey [] n' k') ++ (escape v' ++ 1 :: ts.flatMap be64) :=
      List.IsPrefix.trans (List.prefix_append _ _) h
    have e := (marshal_prefix_iff _ _ _).mp hk
    obtain ⟨rfl, rfl⟩ := compositekey_injective hn hn' e
    rw [List.prefix_append_right_inj] at h
    exact ⟨rfl, rfl, (escape_prefix_iff lit v' _).mp h⟩
  · rintro ⟨rfl, rfl, h⟩
    rw [List.prefix_append_right_inj]
    exact (escape_prefix_iff lit v' _).mpr h

/-- **`t2i_exact_prefix_iff`**: key prefix + marshalled value starts exactly the items of that tag
key and value (this is also the or-suffix lookup: `prefix ++ suffix ++ separator`). -/
theorem t2i_exact_prefix_iff {n k n' k' : B} (hn : n.length < 2 ^ 63) (hn' : n'.length < 2 ^ 63)
    (v v' : B) (ts : List Nat) :
    tagKeyPrefix n k ++ marshalTagValue [] v <+: itemT2I n' k' v' ts ↔ n = n' ∧ k = k' ∧ v = v' := by
  rw [tagKeyPrefix_eq, itemT2I_eq]
  simp only [List.cons_append, List.cons_prefix_cons, true_and]
  constructor
  · intro h
    have hk := List.IsPrefix.trans (List.prefix_append _ _) h
    have e := (marshal_prefix_iff _ _ _).mp hk
    obtain ⟨rfl, rfl⟩ := compositekey_injective hn hn' e
    rw [List.prefix_append_right_inj] at h
    exact ⟨rfl, rfl, (marshal_prefix_iff _ _ _).mp h⟩
  · rintro ⟨rfl, rfl, rfl⟩
    rw [List.prefix_append_right_inj]
    exact List.prefix_append _ _

/-- the or-suffix seek key is the exact-value prefix of `literal prefix ++ suffix` -/
theorem orSuffixPrefix_eq (n k lit w : B) :
    orSuffixPrefix (tagValuePrefix n k lit) (escape w) = tagKeyPrefix n k ++ marshalTagValue [] (lit ++ w) := by
  unfold orSuffixPrefix tagValuePrefix
  rw [marshalNoTrailing_eq, marshal_eq, escape_append, sep_values.1]
  simp

theorem mstPrefix_eq (n : B) : mstPrefix n = 2 :: escape (marshalCompositeNamePrefix [] n) := by
  unfold mstPrefix
  rw [marshal_eq]
  show (([nsPrefixTagToTSIDs] ++ escape (marshalCompositeNamePrefix [] n)) ++ [1]).dropLast = _
  rw [List.dropLast_concat]
  rfl

/-- **`t2i_mst_prefix_iff`**: the prefix of `getTSIDsByMeasurementName` starts exactly the
tag→tsids items (marker rows included) of that measurement. -/
theorem t2i_mst_prefix_iff {n n' : B} (hn : n.length < 2 ^ 63) (hn' : n'.length < 2 ^ 63)
    (k' v' : B) (ts : List Nat) :
    mstPrefix n <+: itemT2I n' k' v' ts ↔ n = n' := by
  rw [mstPrefix_eq, itemT2I_eq, marshal_eq [] (marshalCompositeTagKey [] n' k')]
  simp only [List.nil_append, List.cons_prefix_cons, true_and, List.append_assoc, List.singleton_append]
  rw [escape_prefix_iff]
  exact namePrefix_prefix_iff hn hn' k'

/-- **`splitSuffix_spec`**: below the prefix of a value-prefix filter the scan sees the *escaped*
rest of the value followed by the separator, then the tsid tail. -/
theorem splitSuffix_spec (n k lit s : B) (ts : List Nat) :
    splitSuffix (tagValuePrefix n k lit) (itemT2I n k (lit ++ s) ts) =
      some (escape s ++ [1], ts.flatMap be64) := by
  unfold splitSuffix tagValuePrefix
  rw [marshalNoTrailing_eq, tagKeyPrefix_eq, itemT2I_eq, marshal_eq [] (lit ++ s), escape_append]
  have e : (2 :: (marshalTagValue [] (marshalCompositeTagKey [] n k) ++
      ([] ++ (escape lit ++ escape s) ++ [1] ++ ts.flatMap be64))) =
      (2 :: marshalTagValue [] (marshalCompositeTagKey [] n k) ++ escape lit) ++
        (escape s ++ 1 :: ts.flatMap be64) := by simp
  rw [e, List.drop_left, sep_values.1, splitAtByte_append (sep_not_mem_escape s)]

/-- items of the other two namespaces never carry a tag prefix -/
theorem k2i_not_tag (p sk : B) (id : Nat) : ¬ (2 :: p) <+: itemK2I sk id := by
  intro h
  simp only [itemK2I, List.cons_append, List.nil_append, List.cons_prefix_cons] at h
  exact absurd h.1 (by decide)

theorem i2k_not_tag (p sk : B) (id : Nat) : ¬ (2 :: p) <+: itemI2K id sk := by
  intro h
  simp only [itemI2K, List.cons_append, List.nil_append, List.cons_prefix_cons] at h
  exact absurd h.1 (by decide)

/-! ### big-endian integers, series key → tsid items -/

theorem beN_length (w n : Nat) : (beN w n).length = w := by
  induction w with
  | zero => rfl
  | succ w ih => simp [beN, ih]

theorem unBe_foldl (l : B) (a : Nat) :
    l.foldl (fun a b => a * 256 + b.toNat) a = a * 256 ^ l.length + unBe l := by
  induction l generalizing a with
  | nil => simp [unBe]
  | cons b l ih =>
    simp only [List.foldl_cons, List.length_cons, unBe]
    rw [ih, ih (0 * 256 + b.toNat)]
    rw [Nat.pow_succ, Nat.add_mul]
    simp only [Nat.zero_mul, Nat.zero_add]
    rw [Nat.mul_assoc, Nat.mul_comm 256 (256 ^ l.length), Nat.add_assoc]

theorem beN_mod (w : Nat) : ∀ n, beN w n = beN w (n % 256 ^ w) := by
  induction w with
  | zero => intro n; rfl
  | succ v ih =>
    intro n
    simp only [beN]
    congr 1
    · rw [Nat.pow_succ, Nat.mod_mul_right_div_self, Nat.mod_mod]
    · rw [ih n, ih (n % 256 ^ (v + 1)), Nat.pow_succ, Nat.mod_mul_right_mod]

theorem unBe_beN (w : Nat) : ∀ n, n < 256 ^ w → unBe (beN w n) = n := by
  induction w with
  | zero => intro n h; simp at h; subst h; rfl
  | succ w ih =>
    intro n h
    simp only [beN, unBe, List.foldl_cons, Nat.zero_mul, Nat.zero_add]
    rw [unBe_foldl, beN_length]
    have hq : n / 256 ^ w < 256 := by
      rw [Nat.pow_succ] at h
      exact Nat.div_lt_of_lt_mul h
    rw [u8_ofNat_toNat (Nat.mod_lt _ (by decide)), Nat.mod_eq_of_lt hq]
    rw [beN_mod w n, ih _ (Nat.mod_lt _ (Nat.pow_pos (by decide)))]
    exact Nat.div_add_mod' n (256 ^ w)

theorem beN_injective {w a b : Nat} (ha : a < 256 ^ w) (hb : b < 256 ^ w) (h : beN w a = beN w b) : a = b := by
  rw [← unBe_beN w a ha, ← unBe_beN w b hb, h]

/-- a series key starts with its own length on four bytes (`Row.UnmarshalIndexKeys`) -/
structure LenPrefixed (sk : B) : Prop where
  len : sk.length < 2 ^ 32
  four : 4 ≤ sk.length
  head : sk.take 4 = beN 4 sk.length

theorem tags_flat_length (tags : List (B × B)) :
    (tags.flatMap (fun t => beN 2 t.1.length ++ t.1 ++ beN 2 t.2.length ++ t.2)).length =
      4 * tags.length + tagsSize tags := by
  induction tags with
  | nil => rfl
  | cons t tags ih =>
    simp only [List.flatMap_cons, List.length_append, ih, beN_length, List.length_cons, tagsSize, List.map_cons,
      List.sum_cons]
    omega

theorem indexKey_length (name : B) (tags : List (B × B)) :
    (indexKey name tags).length = 4 + 2 + name.length + 2 + 4 * tags.length + tagsSize tags := by
  simp only [indexKey, List.length_append, beN_length, tags_flat_length]
  omega

theorem indexKey_lenPrefixed (name : B) (tags : List (B × B)) (h : (indexKey name tags).length < 2 ^ 32) :
    LenPrefixed (indexKey name tags) := by
  refine ⟨h, by rw [indexKey_length]; omega, ?_⟩
  rw [indexKey_length]
  unfold indexKey
  simp only [List.append_assoc]
  exact List.take_left' (beN_length _ _)

theorem prefix_take {a c : B} (h : a <+: c) (n : Nat) (hn : n ≤ a.length) : a.take n = c.take n := by
  obtain ⟨z, rfl⟩ := h
  rw [List.take_append_of_le_length hn]

/-- **`k2i_prefix_iff`**: the seek key of `getTSIDBySeriesKey` (namespace, series key, kv separator)
starts exactly the key→tsid items of that series key: series keys are self-delimiting (they start
with their own length), so no key ++ separator is a prefix of another key's item. -/
theorem k2i_prefix_iff {sk sk' : B} (h : LenPrefixed sk) (h' : LenPrefixed sk') (id : Nat) :
    seriesKeyPrefix sk <+: itemK2I sk' id ↔ sk = sk' := by
  unfold seriesKeyPrefix itemK2I
  simp only [List.cons_append, List.nil_append, List.cons_prefix_cons, true_and, List.append_assoc]
  constructor
  · intro hp
    have h4 := prefix_take hp 4 (by rw [List.length_append]; have := h.four; omega)
    rw [List.take_append_of_le_length h.four, List.take_append_of_le_length h'.four, h.head, h'.head] at h4
    have hl : sk.length = sk'.length :=
      beN_injective (by have := h.len; simpa using this) (by have := h'.len; simpa using this) h4
    obtain ⟨z, hz⟩ := hp
    rw [List.append_assoc] at hz
    exact (List.append_inj hz hl).1
  · rintro rfl
    rw [List.prefix_append_right_inj]
    exact List.cons_prefix_cons.mpr ⟨rfl, List.nil_prefix⟩

/-! ### `ParseItem` -/

theorem be64_length (n : Nat) : (be64 n).length = 8 := beN_length 8 n

theorem measurementName_indexKey {name : B} (tags : List (B × B)) (hn : name.length < 2 ^ 16)
    (hl : (indexKey name tags).length < 2 ^ 32) :
    ∃ rest, measurementName (indexKey name tags) = .ok (name, rest) := by
  have hlen := indexKey_length name tags
  have hp := indexKey_lenPrefixed name tags hl
  refine ⟨beN 2 tags.length ++ tags.flatMap (fun t => beN 2 t.1.length ++ t.1 ++ beN 2 t.2.length ++ t.2), ?_⟩
  unfold measurementName
  have h4 : ¬ (indexKey name tags).length < 4 := by have := hp.four; omega
  simp only [h4, if_false, hp.head]
  rw [unBe_beN 4 _ (by have := hp.len; simpa using this)]
  simp only [Nat.lt_irrefl, if_false]
  have hd4 : (indexKey name tags).drop 4 =
      beN 2 name.length ++ (name ++ (beN 2 tags.length ++
        tags.flatMap (fun t => beN 2 t.1.length ++ t.1 ++ beN 2 t.2.length ++ t.2))) := by
    unfold indexKey
    simp only [List.append_assoc]
    exact List.drop_left' (beN_length _ _)
  rw [hd4]
  have h2 : ¬ (beN 2 name.length ++ (name ++ (beN 2 tags.length ++
        tags.flatMap (fun t => beN 2 t.1.length ++ t.1 ++ beN 2 t.2.length ++ t.2)))).length < 2 := by
    simp only [List.length_append, beN_length]; omega
  simp only [h2, if_false]
  rw [List.take_left' (beN_length _ _), List.drop_left' (beN_length _ _),
    unBe_beN 2 _ (by simpa using hn)]
  have h3 : ¬ name.length + 2 > (name ++ (beN 2 tags.length ++
        tags.flatMap (fun t => beN 2 t.1.length ++ t.1 ++ beN 2 t.2.length ++ t.2))).length := by
    simp only [List.length_append, beN_length]; omega
  simp only [h3, if_false]
  rw [List.take_left' rfl, List.drop_left' rfl]

/-- `ParseItem` on a key→tsid item of `decode` -/
theorem parse_k2i {name : B} (tags : List (B × B)) {id : Nat} (hn : name.length < 2 ^ 16)
    (hl : (indexKey name tags).length < 2 ^ 32) (hid : id < 2 ^ 64) :
    parseItem (itemK2I (indexKey name tags) id) = .ok ⟨name, id, indexKey name tags, [], []⟩ := by
  obtain ⟨rest, hm⟩ := measurementName_indexKey tags hn hl
  generalize hsk : indexKey name tags = sk at hm
  have hlen : (itemK2I sk id).length = sk.length + 10 := by
    simp [itemK2I, be64_length]
  have hitem : itemK2I sk id = 0 :: (sk ++ (2 :: be64 id)) := by
    simp [itemK2I, show nsPrefixKeyToTSID = 0 from rfl, show kvSeparatorChar = 2 from rfl]
  unfold parseItem
  have h9 : ¬ (itemK2I sk id).length < 9 := by omega
  simp only [h9, if_false]
  rw [hitem]
  simp only [show ((0 : UInt8) == nsPrefixKeyToTSID) = true from rfl, if_true]
  rw [← hitem, hlen]
  have e1 : sk.length + 10 - 8 = sk.length + 2 := by omega
  have e2 : sk.length + 2 - 1 = sk.length + 1 := by omega
  simp only [e1, e2]
  have hnot : ¬ sk.length + 1 < 1 := by omega
  simp only [hnot, if_false]
  have d1 : (itemK2I sk id).drop (sk.length + 1) = 2 :: be64 id := by
    rw [hitem, show (0 :: (sk ++ 2 :: be64 id)) = (0 :: sk) ++ (2 :: be64 id) from rfl]
    exact List.drop_left' (by simp)
  have d2 : (itemK2I sk id).drop (sk.length + 2) = be64 id := by
    rw [hitem, show (0 :: (sk ++ 2 :: be64 id)) = ((0 :: sk) ++ [2]) ++ be64 id from by simp]
    exact List.drop_left' (by simp)
  have t1 : ((itemK2I sk id).take (sk.length + 1)).drop 1 = sk := by
    rw [hitem, show (0 :: (sk ++ 2 :: be64 id)) = (0 :: sk) ++ (2 :: be64 id) from rfl,
      List.take_left' (by simp)]
    rfl
  rw [d1, d2, t1]
  simp only [List.head?_cons, show (some (2 : UInt8) != some kvSeparatorChar) = false from rfl,
    Bool.false_eq_true, if_false, hm]
  rw [show unBe (be64 id) = id from unBe_beN 8 id (by simpa using hid)]

/-- `ParseItem` on a tsid→key item of `decode` -/
theorem parse_i2k {name : B} (tags : List (B × B)) {id : Nat} (hn : name.length < 2 ^ 16)
    (hl : (indexKey name tags).length < 2 ^ 32) (hid : id < 2 ^ 64) :
    parseItem (itemI2K id (indexKey name tags)) = .ok ⟨name, id, indexKey name tags, [], []⟩ := by
  obtain ⟨rest, hm⟩ := measurementName_indexKey tags hn hl
  have h4 := (indexKey_lenPrefixed name tags hl).four
  generalize hsk : indexKey name tags = sk at hm h4
  have hitem : itemI2K id sk = 1 :: (be64 id ++ sk) := by
    simp [itemI2K, show nsPrefixTSIDToKey = 1 from rfl]
  have hlen : (itemI2K id sk).length = sk.length + 9 := by
    rw [hitem]; simp [be64_length]; omega
  unfold parseItem
  have h9 : ¬ (itemI2K id sk).length < 9 := by omega
  simp only [h9, if_false]
  rw [hitem]
  simp only [show ((1 : UInt8) == nsPrefixKeyToTSID) = false from rfl,
    show ((1 : UInt8) == nsPrefixTSIDToKey) = true from rfl, Bool.false_eq_true, if_false, if_true]
  have t1 : ((1 :: (be64 id ++ sk)).take 9).drop 1 = be64 id := by
    rw [show (1 :: (be64 id ++ sk)) = (1 :: be64 id) ++ sk from rfl, List.take_left' (by simp [be64_length])]
    rfl
  have d1 : (1 :: (be64 id ++ sk)).drop 9 = sk := by
    rw [show (1 :: (be64 id ++ sk)) = (1 :: be64 id) ++ sk from rfl]
    exact List.drop_left' (by simp [be64_length])
  rw [t1, d1]
  simp only [hm]
  rw [show unBe (be64 id) = id from unBe_beN 8 id (by simpa using hid)]

theorem marshal_length_pos (v : B) : 0 < (marshalTagValue [] v).length := by
  rw [marshal_eq]; simp

/-- `ParseItem` on a tag→tsids item as `decode` writes it (one tsid) -/
theorem parse_t2i {name : B} (key value : B) {id : Nat} (hn : name.length < 2 ^ 63) (hid : id < 2 ^ 64) :
    parseItem (itemT2I name key value [id]) = .ok ⟨name, id, [], key, value⟩ := by
  have hitem : itemT2I name key value [id] =
      2 :: ((marshalTagValue [] (marshalCompositeTagKey [] name key) ++ marshalTagValue [] value) ++ be64 id) := by
    rw [itemT2I_eq]; simp
  generalize hck : marshalTagValue [] (marshalCompositeTagKey [] name key) = mk at hitem
  generalize hmv : marshalTagValue [] value = mv at hitem
  have p1 : 0 < mk.length := by rw [← hck]; exact marshal_length_pos _
  have p2 : 0 < mv.length := by rw [← hmv]; exact marshal_length_pos _
  have hlen : (itemT2I name key value [id]).length = mk.length + mv.length + 9 := by
    rw [hitem]; simp [be64_length]; omega
  unfold parseItem
  have h9 : ¬ (itemT2I name key value [id]).length < 9 := by omega
  simp only [h9, if_false]
  rw [hlen, hitem]
  simp only [show ((2 : UInt8) == nsPrefixKeyToTSID) = false from rfl,
    show ((2 : UInt8) == nsPrefixTSIDToKey) = false from rfl,
    show ((2 : UInt8) == nsPrefixTagToTSIDs) = true from rfl, Bool.false_eq_true, if_false, if_true]
  have e1 : mk.length + mv.length + 9 - 8 = mk.length + mv.length + 1 := by omega
  rw [e1]
  have d1 : (2 :: ((mk ++ mv) ++ be64 id)).drop (mk.length + mv.length + 1) = be64 id := by
    rw [show (2 :: ((mk ++ mv) ++ be64 id)) = (2 :: (mk ++ mv)) ++ be64 id from rfl]
    exact List.drop_left' (by simp)
  have t1 : ((2 :: ((mk ++ mv) ++ be64 id)).take (mk.length + mv.length + 1)).drop 1 = mk ++ mv := by
    rw [show (2 :: ((mk ++ mv) ++ be64 id)) = (2 :: (mk ++ mv)) ++ be64 id from rfl,
      List.take_left' (by simp)]
    rfl
  rw [d1, t1]
  have hb : ¬ (mk ++ mv).length = 0 := by rw [List.length_append]; omega
  simp only [hb, if_false]
  rw [← hck, ← hmv, tagvalue_roundtrip [] _ (marshalTagValue [] value)]
  simp only [List.nil_append]
  have := tagvalue_roundtrip [] value []
  rw [List.append_nil] at this
  rw [this]
  simp only [List.nil_append, compositekey_roundtrip hn key]
  rw [show unBe (be64 id) = id from unBe_beN 8 id (by simpa using hid)]

/-- **`item_parse_total`**: for every series `decode` can write (measurement name shorter than
2^16 bytes, series key shorter than 2^32 bytes, tsid below 2^64) `ParseItem` succeeds on each of
the items written and returns the measurement, tsid, series key / tag key and tag value that
went in — for all three item kinds, whatever bytes the names and values contain. -/
theorem item_parse_total {name : B} (tags : List (B × B)) {id : Nat} (hn : name.length < 2 ^ 16)
    (hl : (indexKey name tags).length < 2 ^ 32) (hid : id < 2 ^ 64) :
    ∀ it ∈ decodeItems name tags id, ∃ p, parseItem it = .ok p ∧ p.name = name ∧ p.tsid = id ∧
      (p.seriesKey = indexKey name tags ∨
        (p.seriesKey = [] ∧ ((p.key, p.tagValue) ∈ tags ∨ (p.key = [] ∧ p.tagValue = [])))) := by
  intro it hit
  have hn63 : name.length < 2 ^ 63 := by omega
  simp only [decodeItems, List.mem_cons, List.mem_append, List.mem_map, List.not_mem_nil, or_false] at hit
  rcases hit with rfl | rfl | ⟨t, ht, rfl⟩ | rfl
  · exact ⟨_, parse_k2i tags hn hl hid, rfl, rfl, Or.inl rfl⟩
  · exact ⟨_, parse_i2k tags hn hl hid, rfl, rfl, Or.inl rfl⟩
  · exact ⟨_, parse_t2i t.1 t.2 hn63 hid, rfl, rfl, Or.inr ⟨rfl, Or.inl ht⟩⟩
  · exact ⟨_, parse_t2i [] [] hn63 hid, rfl, rfl, Or.inr ⟨rfl, Or.inr ⟨rfl, rfl⟩⟩⟩

/-- `ParseItem` is not total on arbitrary bytes: a tag→tsids item whose composite key announces a
longer measurement name than it carries makes `unmarshalCompositeTagKey` slice out of range (the
source panics; the function has no caller in the index itself). -/
theorem parse_panic_witness :
    parseItem [2, 254, 5, 1, 1, 0, 0, 0, 0, 0, 0, 0, 7] = .err (.composite .slicePanic) := by decide

/-! ### non-vacuity -/

/-- a series with awkward bytes: measurement `m\x01`, tag `k\x00` = `\x02a\x00` -/
def exName : B := [109, 1]
def exTags : List (B × B) := [([107, 0], [2, 97, 0])]

example : (indexKey exName exTags).length < 2 ^ 32 ∧ exName.length < 2 ^ 16 := by decide

example : LenPrefixed (indexKey exName exTags) := indexKey_lenPrefixed _ _ (by decide)

/-- `ParseItem` on the four items `decode` writes for it -/
example : (decodeItems exName exTags 7).map parseItem =
    [.ok ⟨exName, 7, indexKey exName exTags, [], []⟩, .ok ⟨exName, 7, indexKey exName exTags, [], []⟩,
     .ok ⟨exName, 7, [], [107, 0], [2, 97, 0]⟩, .ok ⟨exName, 7, [], [], []⟩] := by decide

/-- a seek to the prefix of "tag `k\x00`, value starting with `\x02`" over the sorted items finds
exactly the one tag row -/
example : seekScan (tagValuePrefix exName [107, 0] [2]) (sortItems (decodeItems exName exTags 7)) =
    [itemT2I exName [107, 0] [2, 97, 0] [7]] := by decide

/-- marshalled order differs from value order exactly where a value is extended by 0, 1 or 2 -/
example : blt [97] [97, 0] = true ∧ blt (marshalTagValue [] [97]) (marshalTagValue [] [97, 0]) = false := by decide

end OG.C10.Bytes
