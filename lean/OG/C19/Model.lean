/-
C19 — executable model of the HTTP front end's access decision (core Lean only).

What is *regenerated* from /repo on every run (OG.Generated.C19) and used here:
  `routes`            every Route{…} literal that reaches Handler.AddRoutes, with the handler's
                      Go signature class (`sig`) and the authorizers it reaches (`authz`)
  `preMuxPrefixes`    the URL prefixes Handler.ServeHTTP dispatches before the mux
What is hand-modelled (transcribed branch by branch, tied by the correspondence run and by the
shape expectations in Facts.lean):
  `parseCredentials`  httpd.ParseCredentials
  `authenticate`      httpd.authenticate (including the `default:` arm that reports an error
                      and does not return)
  `authorizeDatabase` meta.UserInfo.AuthorizeDatabase
  `authorizeQuery`    auth.QueryAuthorizer.AuthorizeQuery → meta.UserInfo.AuthorizeQuery
  `authorizeWrite`    auth.WriteAuthorizer.AuthorizeWrite
  `dispatch`          Handler.ServeHTTP + gorilla/mux matching of the registered patterns
  `decide`            AddRoutes' wrapping rule + the handler's own authorization gate
-/
import OG.Generated.C19

namespace OG.C19
open OG.Gen.C19 (RouteFact routes preMuxPrefixes preMuxPrefixesC)

/-! ## users and privileges -/

/-- `influxql.Privilege`: NoPrivileges, ReadPrivilege, WritePrivilege, AllPrivileges (iota). -/
inductive Priv where
  | none | read | write | all
deriving DecidableEq, Repr

def Priv.ofNat? : Nat → Option Priv
  | 0 => some .none | 1 => some .read | 2 => some .write | 3 => some .all | _ => Option.none

/-- `meta.UserInfo`. `privs` is the `Privileges` map as an association list (first entry for a
key wins; `setPriv` keeps keys unique). The password stands for the stored hash: the model
compares plaintexts, the hash functions are trusted. -/
structure User where
  name : String
  password : String
  admin : Bool
  rwuser : Bool
  privs : List (String × Priv)
deriving DecidableEq, Repr

def lookupPriv (db : String) : List (String × Priv) → Option Priv
  | [] => Option.none
  | (k, v) :: rest => if k = db then some v else lookupPriv db rest

/-- `UserInfo.AuthorizeDatabase(privilege, database)`. -/
def authorizeDatabase (u : User) (p : Priv) (db : String) : Bool :=
  if u.admin || u.rwuser || p == .none then true
  else match lookupPriv db u.privs with
    | some q => q == p || q == .all
    | Option.none => false

/-- `ui.Privileges[database] = p` (`Data.SetPrivilege`; REVOKE stores `NoPrivileges`). -/
def setPrivList (db : String) (p : Priv) : List (String × Priv) → List (String × Priv)
  | [] => [(db, p)]
  | (k, v) :: rest => if k = db then (k, p) :: rest else (k, v) :: setPrivList db p rest

def User.setPriv (u : User) (db : String) (p : Priv) : User :=
  { u with privs := setPrivList db p u.privs }

/-- the server's configuration and catalogue of users. -/
structure World where
  authEnabled : Bool     -- [http] auth-enabled
  sharedSecret : Bool    -- [http] shared-secret is non-empty (bearer tokens accepted)
  users : List User
deriving Repr

def World.findUser (w : World) (name : String) : Option User :=
  w.users.find? (fun u => u.name = name)

/-- `MetaClient.AdminUserExists()`. -/
def World.adminExists (w : World) : Bool := w.users.any (·.admin)

def World.grant (w : World) (name db : String) (p : Priv) : World :=
  { w with users := w.users.map (fun u => if u.name = name then u.setPriv db p else u) }

/-! ## credentials as carried by a request -/

inductive JwtUser where
  | missing            -- no "username" claim
  | notString          -- a claim of another JSON type
  | name (s : String)
deriving DecidableEq, Repr

/-- a bearer token, abstracted to what `authenticate` looks at. `parses` = `jwt.Parse` returns
no error (well-formed, HMAC signing method, signature made with the shared secret, not expired;
in jwt/v5 this is equivalent to `token.Valid`, and the claims of `jwt.Parse` are always
`MapClaims`). -/
structure Jwt where
  parses : Bool
  expOk : Bool         -- claims["exp"] is a float64 > 0
  user : JwtUser
deriving DecidableEq, Repr

/-- the Authorization header, parsed as far as `ParseCredentials` / `Request.BasicAuth` go. -/
inductive AuthHeader where
  | absent                      -- no header (or empty)
  | basic (u p : String)        -- "Basic " ++ base64(u ++ ":" ++ p)
  | bearer (t : Jwt)            -- "Bearer <token>", exactly two space-separated parts
  | token (s : String)          -- "Token <s>", exactly two space-separated parts
  | other                       -- anything else: unknown scheme, ≠ 2 parts, undecodable basic
deriving DecidableEq, Repr

structure Req where
  urlU : String                 -- URL parameter u ("" when absent)
  urlP : String                 -- URL parameter p
  hdr : AuthHeader
deriving DecidableEq, Repr

/-- `AuthenticationMethod`: 0 = UserAuthentication, 1 = BearerAuthentication (iota). Kept as a
number because `authenticate` switches on it with a `default:` arm. -/
structure Creds where
  method : Nat
  user : String
  pass : String
  tok : Jwt
deriving DecidableEq, Repr

def noTok : Jwt := ⟨false, false, .missing⟩

/-- index of the first ':' -/
def splitColon : List Char → List Char → Option (String × String)
  | _, [] => none
  | acc, c :: rest => if c = ':' then some (String.ofList acc.reverse, String.ofList rest) else splitColon (c :: acc) rest

/-- `parseToken`. -/
def parseToken (s : String) : Option (String × String) := splitColon [] s.toList

/-- `ParseCredentials`. -/
def parseCredentials (r : Req) : Option Creds :=
  if r.urlU ≠ "" ∧ r.urlP ≠ "" then some ⟨0, r.urlU, r.urlP, noTok⟩
  else match r.hdr with
    | .absent => none
    | .bearer t => some ⟨1, "", "", t⟩
    | .token s =>
      match parseToken s with
      | some (u, p) => some ⟨0, u, p, noTok⟩
      | none => none             -- falls to r.BasicAuth(), which rejects a non-Basic header
    | .basic u p => some ⟨0, u, p, noTok⟩
    | .other => none

/-- what the wrapper did. -/
inductive AuthOutcome where
  | deny (status : Nat)                 -- error written, handler not called
  | inner (u : Option User)             -- handler called with this user (none = nil)
  | denyThenInner (status : Nat)        -- error written *and* handler called with nil
deriving DecidableEq, Repr

/-- `MetaClient.Authenticate(username, password)`: the user exists and the password matches. -/
def World.metaAuthenticate (w : World) (name pass : String) : Option User :=
  match w.findUser name with
  | some u => if u.password = pass then some u else none
  | none => none

/-- the `case UserAuthentication:` arm. -/
def authUser (w : World) (user pass : String) : AuthOutcome :=
  if user = "" then .deny 401
  else match w.metaAuthenticate user pass with
    | some u => .inner (some u)
    | none => .deny 401

/-- the `case BearerAuthentication:` arm. -/
def authBearer (w : World) (t : Jwt) : AuthOutcome :=
  if !w.sharedSecret then .deny 401
  else if !t.parses then .deny 401
  else if !t.expOk then .deny 401
  else match t.user with
    | .missing => .deny 401
    | .notString => .deny 401
    | .name n =>
      if n = "" then .deny 401
      else match w.findUser n with
        | some u => .inner (some u)
        | none => .deny 401

/-- the switch on `creds.Method`. -/
def authSwitch (w : World) (c : Creds) : AuthOutcome :=
  match c.method with
  | 0 => authUser w c.user c.pass
  | 1 => authBearer w c.tok
  | _ => .denyThenInner 401     -- `default:` reports "unsupported authentication", no return

/-- `authenticate(inner, h, requireAuthentication)`. -/
def authenticate (w : World) (r : Req) : AuthOutcome :=
  if !w.authEnabled then .inner none
  else if !w.adminExists then .inner none
  else match parseCredentials r with
    | none => .deny 401
    | some c => authSwitch w c

/-! ## statement privileges and the authorizers -/

/-- `influxql.ExecutionPrivilege`. -/
structure ExecPriv where
  admin : Bool
  name : String
  rwuser : Bool
  priv : Priv
deriving DecidableEq, Repr

/-- one statement as the authorizers see it: its Go type name, the user/database name the
rwuser rules look at, and what `RequiredPrivileges()` returned. -/
structure Stmt where
  kind : String
  target : String
  privs : List ExecPriv
deriving DecidableEq, Repr

/-- the inner loop of `UserInfo.AuthorizeQuery` for one statement. -/
def authorizeStmt (u : User) (database : String) : List ExecPriv → Bool
  | [] => true
  | p :: rest =>
    if p.admin then false
    else
      let db := if p.name = "" then database else p.name
      if authorizeDatabase u p.priv db then authorizeStmt u database rest else false

/-- `UserInfo.AuthorizeQueryForRwUser`, one statement. -/
def authorizeStmtRw (u : User) (s : Stmt) : Bool :=
  let privsOk := s.privs.all (·.rwuser)
  match s.kind with
  | "ShowUsersStatement" => true
  | "CreateUserStatement" => true
  | "DropUserStatement" => if s.target ≠ "rwuser" then true else privsOk
  | "SetPasswordUserStatement" => !(u.name ≠ "rwuser" && s.target = "rwuser")
  | "GrantStatement" => true
  | "RevokeStatement" => true
  | "ShowGrantsForUserStatement" => true
  | "DropDatabaseStatement" => if s.target = "_internal" then false else privsOk
  | _ => privsOk

/-- `UserInfo.AuthorizeQuery(database, query)`. -/
def User.authorizeQuery (u : User) (database : String) (q : List Stmt) : Bool :=
  if u.admin then true
  else if u.rwuser then q.all (authorizeStmtRw u)
  else q.all (fun s => authorizeStmt u database s.privs)

/-- `QueryAuthorizer.AuthorizeQuery(u, query, database)` when at least one user exists. -/
def authorizeQuery (u : Option User) (database : String) (q : List Stmt) : Bool :=
  match u with
  | none => false
  | some u => u.authorizeQuery database q

/-- `WriteAuthorizer.AuthorizeWrite(username, database)`: looks the user up again by name. -/
def World.authorizeWrite (w : World) (u : Option User) (database : String) : Bool :=
  match u with
  | none => false
  | some u =>
    match w.findUser u.name with
    | some u' => authorizeDatabase u' .write database
    | none => false

/-! ## dispatch -/

/-- which registrations are live: product type logkeeper, flux-enabled, pprof-enabled, and
`ext` = the registrations other packages add to the handler are present (app/ts-sql adds
GET /runtime_config when [runtime-config] is enabled). -/
structure Cfg where
  logKeeper : Bool
  flux : Bool
  pprof : Bool
  ext : Bool
deriving DecidableEq, Repr

def startsWith (s pre : String) : Bool := (pre.toList).isPrefixOf s.toList

/-- is this Route literal registered by `NewHandler` under `c`? (NewHandler calls the five
Add…Routes functions, AddLogstreamAPIRoutes only for product type logkeeper; AddFluxAPIRoute
installs one of two handlers; routes added by other packages are present under `ext`).
Only string equalities: `String.toList` is very slow in the kernel. -/
def routeLive (c : Cfg) (r : RouteFact) : Bool :=
  if r.external then c.ext && r.cond = ""
  else if r.group = "AddLogstreamAPIRoutes" then c.logKeeper
  else if r.group = "AddFluxAPIRoute" then
    (if r.cond = "!FluxEnabled" then !c.flux else if r.cond = "!(!FluxEnabled)" then c.flux else false)
  else if r.group = "AddInfluxDBAPIRoutes" || r.group = "AddPrometheusAPIRoutes" || r.group = "AddSysAPIRoutes" then r.cond = ""
  else false

/-- split at '/', structurally. Paths and patterns are handled as `List Char` (the generated
table carries `patternC`; the driver converts the request path once). -/
def splitOnSlash : List Char → List Char → List (List Char)
  | acc, [] => [acc.reverse]
  | acc, c :: rest =>
    if c = '/' then acc.reverse :: splitOnSlash [] rest else splitOnSlash (c :: acc) rest

def splitPath (s : List Char) : List (List Char) := splitOnSlash [] s

/-- `{name}` -/
def isVar : List Char → Bool
  | '{' :: rest => rest.getLast? == some '}'
  | _ => false

/-- gorilla/mux template match: `{x}` matches one non-empty segment. -/
def matchSegs : List (List Char) → List (List Char) → Bool
  | [], [] => true
  | p :: ps, s :: ss => (if isVar p then !s.isEmpty else p == s) && matchSegs ps ss
  | _, _ => false

def patternMatches (pattern path : List Char) : Bool := matchSegs (splitPath pattern) (splitPath path)

inductive Target where
  | preMux (i : Nat)             -- i-th arm of ServeHTTP's dispatch chain
  | route (r : RouteFact)
  | notFound
  | methodNotAllowed
deriving DecidableEq, Repr

/-- first route (registration order) matching path and method; else 405 if some route matched
the path, else 404. -/
def muxFind (method : String) (path : List Char) : List RouteFact → Bool → Target
  | [], pathHit => if pathHit then .methodNotAllowed else .notFound
  | r :: rest, pathHit =>
    if patternMatches r.patternC path then
      if r.method = method then .route r else muxFind method path rest true
    else muxFind method path rest pathHit

/-- `Handler.ServeHTTP`: the i-th prefix wins if the path starts with it (the first arm,
/debug/pprof, additionally needs pprof-enabled); otherwise the mux. -/
def preMuxFind (c : Cfg) (path : List Char) : List (List Char) → Nat → Option Nat
  | [], _ => none
  | p :: rest, i =>
    if p.isPrefixOf path && (i ≠ 0 || c.pprof) then some i else preMuxFind c path rest (i + 1)

def dispatch (c : Cfg) (method : String) (path : List Char) : Target :=
  match preMuxFind c path preMuxPrefixesC 0 with
  | some i => .preMux i
  | none => muxFind method path (routes.filter (routeLive c)) false

/-! ## the decision -/

inductive Decision where
  | d401        -- denied by authenticate
  | d403        -- denied by the handler's authorization gate (403)
  | dAz         -- denied by the authorization gate, reported with another status (log queries)
  | d404 | d405
  | pass        -- the handler ran past every gate
  | broken      -- neither type assertion of AddRoutes matched: nil handler
deriving DecidableEq, Repr

/-- handlers whose authorization error is swallowed (`continue`) instead of denying. -/
def nonEnforcing : List String := ["serveMetrics"]

/-- handlers that report an authorization failure through their generic error path. -/
def azHandlers : List String := ["serveQueryLog", "serveContextQueryLog", "serveAggLogQuery", "serveAnalytics"]

def routeGates (r : RouteFact) : List String := if nonEnforcing.contains r.handler then [] else r.authz

def isAdmin : Option User → Bool
  | some u => u.admin
  | none => false

/-- the handler's own gate, given the user `authenticate` handed over. -/
def gate (w : World) (r : RouteFact) (u : Option User) (db : String) (dbExists : Bool) (q : List Stmt) : Decision :=
  let deny := if azHandlers.contains r.handler then Decision.dAz else Decision.d403
  if !w.authEnabled then .pass
  else if (routeGates r).contains "admin" && !isAdmin u then .d403
  else if (routeGates r).contains "write" && !w.authorizeWrite u db then .d403
  else if (routeGates r).contains "write@db" && dbExists && !w.authorizeWrite u db then .d403
       -- "write@db": the handler first looks the database up and answers its own 404 when absent
  else if (routeGates r).contains "query" && !authorizeQuery u db q then deny
  else .pass

/-- the func-literal handler installed for /api/v2/query when flux is disabled answers 403
itself (Facts.funcLitHandlers_expected). -/
def plainDecision (r : RouteFact) : Decision :=
  if r.handler = "<funclit>" then .d403 else .pass

def decide (w : World) (c : Cfg) (method : String) (path : List Char) (req : Req) (db : String) (dbExists : Bool) (q : List Stmt) : Decision :=
  match dispatch c method path with
  | .preMux _ => .pass                           -- no wrapper at all
  | .notFound => .d404
  | .methodNotAllowed => .d405
  | .route r =>
    if method = "OPTIONS" then .pass             -- cors() answers pre-flight before the handler
    else if r.sig = "plain" then plainDecision r -- installed as is
    else if r.sig = "user" then
      match authenticate w req with
      | .deny _ => .d401
      | .inner u => gate w r u db dbExists q
      | .denyThenInner _ => gate w r none db dbExists q
    else .broken

end OG.C19
