/-
C19 — expectations about the regenerated facts. Each `theorem` compares what ogfacts extracted
from /repo *now* with what the hand-written model was written against. A failure here means the
modelled source changed shape: the correspondence run then decides whether the property still
holds (and supplies the failing input). The route table itself (`routes`) is not pinned here: the
theorems of Props.lean are re-proved by `decide` over whatever the table is now.
-/
import OG.C19.Model
import OG.C19.Flow

namespace OG.C19.Facts
open OG.Gen.C19

theorem generation_ok : generationFailed = false := by rfl

/-- the only function-literal handler: flux disabled ⇒ 403 and nothing else (Props.rejectsItself). -/
theorem funcLitHandlers_expected : funcLitHandlers = [
  ("POST /api/v2/query [!FluxEnabled]", "{ http.Error(w, \"Flux query service disabled. Verify flux-enabled=true in the [http] section of the InfluxDB config.\", http.StatusForbidden) }")
] := by rfl

/-- packages outside httpd that call AddRoutes. -/
theorem externalRouteCallers_expected : externalRouteCallers = ["app/ts-sql/sql/"] := by rfl

theorem addRoutesCallers_expected : addRoutesCallers = ["AddFluxAPIRoute", "AddInfluxDBAPIRoutes", "AddPrometheusAPIRoutes", "AddSysAPIRoutes", "AddLogstreamAPIRoutes"] := by rfl

/-- the only places that touch the router: one registration site (AddRoutes), one dispatch site (ServeHTTP). -/
theorem muxCalls_expected : muxCalls = ["NewHandler: mux.NewRouter", "AddRoutes: h.mux.HandleFunc(r.Pattern, handler.ServeHTTP).Methods", "AddRoutes: h.mux.HandleFunc", "ServeHTTP: h.mux.ServeHTTP", "VerifRoutes: h.mux.Walk"] := by rfl

/-- what NewHandler registers (model: `routeLive`). -/
theorem newHandlerRegistrations_expected : newHandlerRegistrations = ["h.AddInfluxDBAPIRoutes(writeLogEnabled)", "h.AddPrometheusAPIRoutes()", "h.AddSysAPIRoutes()", "h.AddFluxAPIRoute(c.FluxEnabled)", "h.AddLogstreamAPIRoutes()"] := by rfl

/-- … AddLogstreamAPIRoutes only for product type logkeeper. -/
theorem newHandlerConditional_expected : newHandlerConditional = ["config2.IsLogKeeper() => { h.AddLogstreamAPIRoutes() }"] := by rfl

/-- AddRoutes: the two type assertions on the handler signature; the first wraps with `authenticate` (model: `sig = "user"` ⇒ wrapped), the second installs the handler as is. -/
theorem addRoutesWrap_expected : addRoutesWrap = [
  ("r.HandlerFunc.(func(http.ResponseWriter, *http.Request, meta2.User))", "handler = authenticate(hf, h, h.Config.AuthEnabled)"),
  ("r.HandlerFunc.(func(http.ResponseWriter, *http.Request))", "handler = http.HandlerFunc(hf)")
] := by rfl

/-- AddRoutes: everything wrapped around the handler, in order — authenticate is innermost, `cors` (answers OPTIONS itself) and `recovery` are outside it. -/
theorem addRoutesHandlerAssignments_expected : addRoutesHandlerAssignments = ["authenticate(hf, h, h.Config.AuthEnabled)", "http.HandlerFunc(hf)", "h.writeThrottler.Handler(handler)", "h.queryThrottler.Handler(handler)", "h.queryThrottler.Handler(handler)", "h.queryThrottler.Handler(handler)", "h.responseWriter(handler)", "compressFilter(handler)", "cors(handler)", "requestID(handler)", "h.logging(handler, r.Name)", "h.recovery(handler, r.Name)", "h.mux.HandleFunc(r.Pattern, handler.ServeHTTP).Methods(r.Method)"] := by rfl

/-- ServeHTTP: three prefix arms in front of the mux, the first also needs pprof-enabled (model: `preMuxFind`, `dispatch`). -/
theorem serveHTTPDispatch_expected : serveHTTPDispatch = [
  ("strings.HasPrefix(r.URL.Path, \"/debug/pprof\") && h.Config.PprofEnabled", "{ h.handleProfiles(w, r) }"),
  ("strings.HasPrefix(r.URL.Path, \"/debug/vars\")", "{ h.serveExpvar(w, r) }"),
  ("strings.HasPrefix(r.URL.Path, \"/debug/query\")", "{ h.serveDebugQuery(w, r) }"),
  ("else", "{ h.mux.ServeHTTP(w, r) }")
] := by rfl

/-- the prefixes of those arms. -/
theorem preMuxPrefixes_expected : preMuxPrefixes = ["/debug/pprof", "/debug/vars", "/debug/query"] := by rfl

/-- ParseCredentials builds credentials with these Method values only. -/
theorem parseCredentialsMethods_expected : parseCredentialsMethods = ["UserAuthentication", "BearerAuthentication", "UserAuthentication", "UserAuthentication"] := by rfl

theorem parseCredentialsReturns_expected : parseCredentialsReturns = ["&credentials{…}, nil", "&credentials{…}, nil", "&credentials{…}, nil", "&credentials{…}, nil", "nil, fmt.Errorf(\"unable to parse authentication credentials\")"] := by rfl

theorem src_ParseCredentials_expected : src_ParseCredentials = "{ q := r.URL.Query() if u, p := q.Get(\"u\"), q.Get(\"p\"); u != \"\" && p != \"\" { return &credentials{ Method: UserAuthentication, Username: u, Password: p, }, nil } if s := r.Header.Get(\"Authorization\"); s != \"\" { strs := strings.Split(s, \" \") if len(strs) == 2 { switch strs[0] { case \"Bearer\": return &credentials{ Method: BearerAuthentication, Token: strs[1], }, nil case \"Token\": if u, p, ok := parseToken(strs[1]); ok { return &credentials{ Method: UserAuthentication, Username: u, Password: p, }, nil } } } if u, p, ok := r.BasicAuth(); ok { return &credentials{ Method: UserAuthentication, Username: u, Password: p, }, nil } } return nil, fmt.Errorf(\"unable to parse authentication credentials\") }" := by rfl

/-- iota order of AuthenticationMethod (model: methods 0 and 1). -/
theorem authenticationMethodConsts_expected : authenticationMethodConsts = ["UserAuthentication", "BearerAuthentication"] := by rfl

/-- authenticate: per arm of the switch on creds.Method, the number of h.httpError calls and how many of them are not followed by `return`. The `default:` arm has one that is not. -/
theorem authenticateArms_expected : authenticateArms = [
  ("UserAuthentication", "errors=2 unguarded=0"),
  ("BearerAuthentication", "errors=9 unguarded=0"),
  ("default", "errors=1 unguarded=1")
] := by rfl

theorem fingerprint_authenticate_expected : fingerprint_authenticate = "16dfc60628c37dbe" := by rfl

theorem authenticateOuter_expected : authenticateOuter = ["if !requireAuthentication { inner(w, r, nil) return }", "var user meta2.User", "if requireAuthentication && h.MetaClient.AdminUserExists() {…}", "inner(w, r, user)"] := by rfl

theorem src_AuthorizeDatabase_expected : src_AuthorizeDatabase = "{ if u.Admin || u.Rwuser || privilege == originql.NoPrivileges { return true } p, ok := u.Privileges[database] return ok && (p == privilege || p == originql.AllPrivileges) }" := by rfl

theorem src_AuthorizeUnrestricted_expected : src_AuthorizeUnrestricted = "{ return u.Admin }" := by rfl

theorem src_AuthorizeQuery_expected : src_AuthorizeQuery = "{ if u.Admin { return nil } if u.Rwuser { return u.AuthorizeQueryForRwUser(database, query) } for _, stmt := range query.Statements { privs, err := stmt.RequiredPrivileges() if err != nil { return err } for _, p := range privs { if p.Admin { return &ErrAuthorize{ Query: query, User: u.Name, Database: database, Message: fmt.Sprintf(\"statement '%s', requires admin privilege\", stmt), } } db := p.Name if db == \"\" { db = database } if !u.AuthorizeDatabase(originql.Privilege(p.Privilege), db) { return &ErrAuthorize{ Query: query, User: u.Name, Database: database, Message: fmt.Sprintf(\"statement '%s', requires %s on %s\", stmt, p.Privilege.String(), db), } } } } return nil }" := by rfl

theorem src_QueryAuthorizer_AuthorizeQuery_expected : src_QueryAuthorizer_AuthorizeQuery = "{ if n := a.Client.UserCount(); n == 0 { if len(query.Statements) > 0 { cu, ok := query.Statements[0].(*influxql.CreateUserStatement) if ok && cu.Admin { return nil } } return &meta.ErrAuthorize{ Query: query, Database: database, Message: \"create admin user first or disable authentication\", } } if u == nil { return &meta.ErrAuthorize{ Query: query, Database: database, Message: \"no user provided\", } } return u.AuthorizeQuery(database, query) }" := by rfl

theorem src_WriteAuthorizer_AuthorizeWrite_expected : src_WriteAuthorizer_AuthorizeWrite = "{ u, err := a.Client.User(username) if err != nil || u == nil || !u.AuthorizeDatabase(originql.WritePrivilege, database) { return &meta.ErrAuthorize{ Database: database, Message: fmt.Sprintf(\"%s not authorized to write to %s\", username, database), } } return nil }" := by rfl

/-- serveMetrics: an authorization error of getMetrics is skipped with `continue` (model: `nonEnforcing`). -/
theorem src_serveMetrics_expected : src_serveMetrics = "{ if _, err := h.MetaClient.Database(internalDatabase); err != nil { promhttp.Handler().ServeHTTP(w, r) return } for _, moduleName := range metricMsts { moduleIndex, err := getMetrics(h, r, user, moduleName) if err != nil { continue } openGeminiCollector.writeIndexes(moduleName, moduleIndex) } promhttp.Handler().ServeHTTP(w, r) }" := by rfl

/-- iota order of influxql.Privilege (model: `Priv.ofNat?`). -/
theorem privilegeConsts_expected : privilegeConsts = ["NoPrivileges", "ReadPrivilege", "WritePrivilege", "AllPrivileges"] := by rfl

/-- statement type → RequiredPrivileges (trusted input of AuthorizeQuery; pinned so that a weakened entry is noticed). -/
theorem requiredPrivileges_expected : requiredPrivileges = [
  ("AlterRetentionPolicyStatement", "ExecutionPrivileges{{Admin: true, Name: \"\", Rwuser: true, Privilege: AllPrivileges}}"),
  ("AlterShardKeyStatement", "ExecutionPrivileges{{Admin: true, Name: \"\", Rwuser: true, Privilege: AllPrivileges}}"),
  ("CreateContinuousQueryStatement", "{ ep := ExecutionPrivileges{{Admin: false, Name: s.Database, Rwuser: true, Privilege: ReadPrivilege}} if s.Source.Target.Measurement.Database != \"\" { ep[0].Privilege = ReadPrivilege p := ExecutionPrivilege{ Admin: false, Rwuser: true, Name: s.Source.Target.Measurement.Database, Privilege: WritePrivilege, } ep = append(ep, p) } return ep, nil }"),
  ("CreateDatabaseStatement", "ExecutionPrivileges{{Admin: true, Name: \"\", Rwuser: true, Privilege: AllPrivileges}}"),
  ("CreateDownSampleStatement", "ExecutionPrivileges{{Admin: true, Name: \"\", Rwuser: true, Privilege: AllPrivileges}}"),
  ("CreateMeasurementStatement", "ExecutionPrivileges{{Admin: true, Name: \"\", Rwuser: true, Privilege: AllPrivileges}}"),
  ("CreateRetentionPolicyStatement", "ExecutionPrivileges{{Admin: true, Name: \"\", Rwuser: true, Privilege: AllPrivileges}}"),
  ("CreateStreamStatement", "ExecutionPrivileges{{Admin: true, Name: \"\", Rwuser: true, Privilege: AllPrivileges}}"),
  ("CreateSubscriptionStatement", "ExecutionPrivileges{{Admin: true, Name: \"\", Rwuser: true, Privilege: AllPrivileges}}"),
  ("CreateUserStatement", "ExecutionPrivileges{{Admin: true, Name: \"\", Rwuser: false, Privilege: AllPrivileges}}"),
  ("DeleteSeriesStatement", "ExecutionPrivileges{{Admin: false, Name: \"\", Rwuser: true, Privilege: WritePrivilege}}"),
  ("DeleteStatement", "ExecutionPrivileges{{Admin: false, Name: \"\", Rwuser: true, Privilege: WritePrivilege}}"),
  ("DropContinuousQueryStatement", "ExecutionPrivileges{{Admin: false, Name: s.Database, Rwuser: true, Privilege: WritePrivilege}}"),
  ("DropDatabaseStatement", "ExecutionPrivileges{{Admin: true, Name: \"\", Rwuser: true, Privilege: AllPrivileges}}"),
  ("DropDownSampleStatement", "ExecutionPrivileges{{Admin: true, Name: \"\", Rwuser: true, Privilege: AllPrivileges}}"),
  ("DropMeasurementStatement", "ExecutionPrivileges{{Admin: true, Name: \"\", Rwuser: true, Privilege: AllPrivileges}}"),
  ("DropRetentionPolicyStatement", "ExecutionPrivileges{{Admin: false, Name: s.Database, Rwuser: true, Privilege: WritePrivilege}}"),
  ("DropSeriesStatement", "ExecutionPrivileges{{Admin: false, Name: \"\", Rwuser: true, Privilege: WritePrivilege}}"),
  ("DropShardStatement", "ExecutionPrivileges{{Admin: true, Name: \"\", Rwuser: true, Privilege: AllPrivileges}}"),
  ("DropStreamsStatement", "ExecutionPrivileges{{Admin: true, Name: \"\", Rwuser: true, Privilege: AllPrivileges}}"),
  ("DropSubscriptionStatement", "ExecutionPrivileges{{Admin: true, Name: \"\", Rwuser: true, Privilege: AllPrivileges}}"),
  ("DropUserStatement", "ExecutionPrivileges{{Admin: true, Name: \"\", Rwuser: false, Privilege: AllPrivileges}}"),
  ("EndPrepareSnapshotStatement", "ExecutionPrivileges{{Admin: false, Name: \"\", Rwuser: true, Privilege: NoPrivileges}}"),
  ("ExplainStatement", "e.Statement.RequiredPrivileges()"),
  ("GetRuntimeInfoStatement", "ExecutionPrivileges{{Admin: false, Name: \"\", Rwuser: true, Privilege: NoPrivileges}}"),
  ("GrantAdminStatement", "ExecutionPrivileges{{Admin: true, Name: \"\", Rwuser: false, Privilege: AllPrivileges}}"),
  ("GrantStatement", "ExecutionPrivileges{{Admin: true, Name: \"\", Rwuser: false, Privilege: AllPrivileges}}"),
  ("GraphStatement", "ExecutionPrivileges{{Admin: true, Name: \"\", Rwuser: true, Privilege: AllPrivileges}}"),
  ("KillQueryStatement", "ExecutionPrivileges{{Admin: true, Name: \"\", Rwuser: false, Privilege: AllPrivileges}}"),
  ("LogPipeStatement", "ExecutionPrivileges{{Admin: true, Name: \"\", Rwuser: true, Privilege: AllPrivileges}}"),
  ("PrepareSnapshotStatement", "ExecutionPrivileges{{Admin: false, Name: \"\", Rwuser: true, Privilege: NoPrivileges}}"),
  ("RevokeAdminStatement", "ExecutionPrivileges{{Admin: true, Name: \"\", Rwuser: false, Privilege: AllPrivileges}}"),
  ("RevokeStatement", "ExecutionPrivileges{{Admin: true, Name: \"\", Rwuser: false, Privilege: AllPrivileges}}"),
  ("SelectStatement", "{ ep, err := s.Sources.RequiredPrivileges() if err != nil { return nil, err } if s.Target != nil { ep = append(ep, ExecutionPrivilege{Admin: false, Name: s.Target.Measurement.Database, Rwuser: true, Privilege: WritePrivilege}) } return ep, nil }"),
  ("SetConfigStatement", "ExecutionPrivileges{{Admin: true, Name: \"\", Rwuser: true, Privilege: AllPrivileges}}"),
  ("SetPasswordUserStatement", "ExecutionPrivileges{{Admin: true, Name: \"\", Rwuser: false, Privilege: AllPrivileges}}"),
  ("ShowClusterStatement", "ExecutionPrivileges{{Admin: true, Name: \"\", Rwuser: true, Privilege: AllPrivileges}}"),
  ("ShowConfigsStatement", "ExecutionPrivileges{{Admin: true, Name: \"\", Rwuser: true, Privilege: AllPrivileges}}"),
  ("ShowContinuousQueriesStatement", "ExecutionPrivileges{{Admin: false, Name: \"\", Rwuser: true, Privilege: ReadPrivilege}}"),
  ("ShowDatabasesStatement", "ExecutionPrivileges{{Admin: false, Name: \"\", Rwuser: true, Privilege: NoPrivileges}}"),
  ("ShowDiagnosticsStatement", "ExecutionPrivileges{{Admin: true, Name: \"\", Rwuser: false, Privilege: AllPrivileges}}"),
  ("ShowDownSampleStatement", "ExecutionPrivileges{{Admin: true, Name: \"\", Rwuser: true, Privilege: AllPrivileges}}"),
  ("ShowFieldKeyCardinalityStatement", "s.Sources.RequiredPrivileges()"),
  ("ShowFieldKeysStatement", "ExecutionPrivileges{{Admin: false, Name: s.Database, Rwuser: true, Privilege: ReadPrivilege}}"),
  ("ShowGrantsForUserStatement", "ExecutionPrivileges{{Admin: true, Name: \"\", Rwuser: false, Privilege: AllPrivileges}}"),
  ("ShowMeasurementCardinalityStatement", "{ if !s.Exact { return ExecutionPrivileges{{Admin: false, Name: s.Database, Rwuser: true, Privilege: ReadPrivilege}}, nil } return s.Sources.RequiredPrivileges() }"),
  ("ShowMeasurementKeysStatement", "ExecutionPrivileges{{Admin: true, Name: \"\", Rwuser: true, Privilege: AllPrivileges}}"),
  ("ShowMeasurementsDetailStatement", "ExecutionPrivileges{{Admin: false, Name: s.Database, Rwuser: true, Privilege: ReadPrivilege}}"),
  ("ShowMeasurementsStatement", "ExecutionPrivileges{{Admin: false, Name: s.Database, Rwuser: true, Privilege: ReadPrivilege}}"),
  ("ShowQueriesStatement", "ExecutionPrivileges{{Admin: false, Name: \"\", Rwuser: true, Privilege: ReadPrivilege}}"),
  ("ShowRetentionPoliciesStatement", "ExecutionPrivileges{{Admin: false, Name: s.Database, Rwuser: true, Privilege: ReadPrivilege}}"),
  ("ShowSeriesCardinalityStatement", "{ if !s.Exact { return ExecutionPrivileges{{Admin: false, Name: s.Database, Rwuser: true, Privilege: ReadPrivilege}}, nil } return s.Sources.RequiredPrivileges() }"),
  ("ShowSeriesStatement", "ExecutionPrivileges{{Admin: false, Name: s.Database, Rwuser: true, Privilege: ReadPrivilege}}"),
  ("ShowShardGroupsStatement", "ExecutionPrivileges{{Admin: true, Name: \"\", Rwuser: true, Privilege: AllPrivileges}}"),
  ("ShowShardsStatement", "ExecutionPrivileges{{Admin: true, Name: \"\", Rwuser: true, Privilege: AllPrivileges}}"),
  ("ShowStatsStatement", "ExecutionPrivileges{{Admin: true, Name: \"\", Rwuser: true, Privilege: AllPrivileges}}"),
  ("ShowStreamsStatement", "ExecutionPrivileges{{Admin: true, Name: \"\", Rwuser: true, Privilege: AllPrivileges}}"),
  ("ShowSubscriptionsStatement", "ExecutionPrivileges{{Admin: true, Name: \"\", Rwuser: true, Privilege: AllPrivileges}}"),
  ("ShowTagKeyCardinalityStatement", "s.Sources.RequiredPrivileges()"),
  ("ShowTagKeysStatement", "ExecutionPrivileges{{Admin: false, Name: s.Database, Rwuser: true, Privilege: ReadPrivilege}}"),
  ("ShowTagValuesCardinalityStatement", "{ privs, err := s.Sources.RequiredPrivileges() if err != nil { return nil, err } for i := range privs { p := &privs[i] if p.Name == \"\" { p.Name = s.Database } } return privs, nil }"),
  ("ShowTagValuesStatement", "ExecutionPrivileges{{Admin: false, Name: s.Database, Rwuser: true, Privilege: ReadPrivilege}}"),
  ("ShowUsersStatement", "ExecutionPrivileges{{Admin: true, Name: \"\", Rwuser: false, Privilege: AllPrivileges}}"),
  ("Sources", "{ var ep ExecutionPrivileges for _, source := range a { switch source := source.(type) { case *Measurement: ep = append(ep, ExecutionPrivilege{ Name: source.Database, Privilege: ReadPrivilege, Rwuser: true, }) case *SubQuery: privs, err := source.Statement.RequiredPrivileges() if err != nil { return nil, err } ep = append(ep, privs...) case *Join: var sources Sources sources = append(sources, source.LSrc) sources = append(sources, source.RSrc) privs, err := sources.RequiredPrivileges() if err != nil { return nil, err } ep = append(ep, privs...) case *Union: var sources Sources sources = append(sources, source.LSrc) sources = append(sources, source.RSrc) privs, err := sources.RequiredPrivileges() if err != nil { return nil, err } ep = append(ep, privs...) default: return nil, fmt.Errorf(\"invalid source: %s\", source) } } return ep, nil }"),
  ("WithSelectStatement", "ExecutionPrivileges{{Admin: true, Name: \"\", Rwuser: true, Privilege: AllPrivileges}}")
] := by rfl

/-- the registration sites and conditions `routeLive` knows how to interpret. -/
theorem routeSources_expected : (routes.map (fun r => (r.src, r.cond))).eraseDups = [
  ("lib/util/lifted/influx/httpd/handler.go:AddFluxAPIRoute", "!FluxEnabled"),
  ("lib/util/lifted/influx/httpd/handler.go:AddFluxAPIRoute", "!(!FluxEnabled)"),
  ("lib/util/lifted/influx/httpd/handler.go:AddInfluxDBAPIRoutes", ""),
  ("lib/util/lifted/influx/httpd/handler.go:AddPrometheusAPIRoutes", ""),
  ("lib/util/lifted/influx/httpd/handler.go:AddSysAPIRoutes", ""),
  ("lib/util/lifted/influx/httpd/handler.go:AddLogstreamAPIRoutes", ""),
  ("app/ts-sql/sql/server.go:NewServer", "")] := by decide +kernel

/-- signature classes and authorizer kinds the model's `decide` / `gate` distinguish. -/
theorem sigClasses_expected : (routes.map (·.sig)).eraseDups = ["plain", "user"] := by decide +kernel
theorem gateKinds_expected : (routes.map (·.authz)).eraseDups = [[], ["query"], ["write@db"], ["write"], ["admin"]] := by decide +kernel

/-- the character form of the patterns / prefixes (used by the model's dispatch, because
`String.toList` is slow in the kernel) spells the same strings. -/
theorem patternC_expected : routes.all (fun r => String.ofList r.patternC == r.pattern) = true := by decide +kernel
theorem preMuxPrefixesC_expected : preMuxPrefixesC.map String.ofList = preMuxPrefixes := by decide +kernel

/-- `group` / `external` restate `src`. -/
theorem routeGroups_expected : (routes.map (fun r => (r.group, r.external))).eraseDups = [
  ("AddFluxAPIRoute", false), ("AddInfluxDBAPIRoutes", false), ("AddPrometheusAPIRoutes", false),
  ("AddSysAPIRoutes", false), ("AddLogstreamAPIRoutes", false), ("NewServer", true)] := by decide +kernel

/-! ## the database flows (ogfacts c19flow.go) -/

/-- helper the Prometheus handlers take their database from (model: `stdInterp`, getDbRpByProm#0 = FormValue "db" or "prom"). -/
theorem src_getDbRpByProm_expected : src_getDbRpByProm = "{ db := r.FormValue(\"db\") if db == \"\" { db = promql2influxql.DefaultDatabaseName } rp := r.FormValue(\"rp\") if rp == \"\" && h.MetaClient != nil { dbi, err := h.MetaClient.Database(db) if dbi != nil && err == nil { rp = dbi.DefaultRetentionPolicy } } if rp == \"\" { rp = promql2influxql.DefaultRetentionPolicyName } return db, rp }" := by rfl

/-- helper of /api/v2/write (model: `stdInterp`, bucket2dbrp#0 = the bucket up to the first '/'). -/
theorem src_bucket2dbrp_expected : src_bucket2dbrp = "{ switch idx := strings.IndexByte(bucket, '/'); idx { case -1: switch db := bucket; db { case \"\": return \"\", \"\", fmt.Errorf(`bucket name %q is missing a slash; not in \"database/retention-policy\" format`, bucket) default: return db, \"\", nil } default: switch db, rp := bucket[:idx], bucket[idx+1:]; { case db == \"\": return \"\", \"\", fmt.Errorf(`bucket name %q is in db/rp form but has an empty database`, bucket) default: return db, rp, nil } } }" := by rfl

/-- handlers that call r.ParseForm() themselves (model: `viewOf`). -/
theorem parseFormHandlers_expected : parseFormHandlers = ["servePromQuerySeries", "servePromQueryMetaData", "servePromQuerySeriesWithMetricStore", "servePromQueryMetaDataWithMetricStore"] := by rfl

/-- the kinds of flow ends the extractor found: authorizer calls (query / write) and the acting
sinks; `stmtdb` ends write the database into a statement, which then names it itself (and is
authorized for it by name: `authorizeQuery_iff`). A new kind of sink shows up here. -/
theorem flowEndKinds_expected : (dbFlows.flatMap (fun f => (f.authz ++ f.exec).map (fun e => (e.what, e.kind)))).eraseDups = [
  ("db", "query"), ("q", "query"), ("stmtdb", "mstStmt.Database"), ("db", "ExecutionOptions.Database"), ("q", "ExecuteQuery#0"),
  ("db", "write"), ("db", "RetryWritePointRows#0"), ("db", "uw.Db"), ("db", "octx.Database"), ("stmtdb", "promCommand.Database"),
  ("db", "NewExecutionOptions#0")] := by decide +kernel

/-- every database end the correspondence run evaluates is an expression `stdInterp` gives its
real meaning to (serveMetrics reads its database from the configuration, not from the request). -/
theorem flowSrcsUnderstood_expected : dbFlows.all (fun f => f.handler == "serveMetrics" ||
    ((OG.C19.authzEnd f).all (·.src.understood) && (OG.C19.execEnd f).all (·.src.understood))) = true := by decide +kernel

/-! ## the other listeners and the password cache (ogfacts c19wide.go) -/

/-- lib/httpserver.Authenticate: one arm for the password methods, a `default:` arm that reports
the error *and returns* (model: `authenticatePlain`; before the repair: unguarded=1). -/
theorem plainAuthArms_expected : plainAuthArms = [
  ("httpd.UserAuthentication", "errors=2 unguarded=0"),
  ("default", "errors=1 unguarded=0")
] := by rfl

theorem plainAuthDefaultFallsThrough_expected : plainAuthDefaultFallsThrough = false := by rfl

theorem fingerprint_plainAuthenticate_expected : fingerprint_plainAuthenticate = "98fea19bddc57147" := by rfl

/-- both handlers wrap with httpserver.Authenticate under their own auth-enabled switch. -/
theorem src_meta_WrapHandler_expected : src_meta_WrapHandler = "{ return httpserver.Authenticate(http.HandlerFunc(func(w http.ResponseWriter, r *http.Request) { l := httpd.NewResponseLogger(w) hf.ServeHTTP(l, r) }), h.client, h.config.AuthEnabled) }" := by rfl
theorem src_store_WrapHandler_expected : src_store_WrapHandler = "{ return httpserver.Authenticate(http.HandlerFunc(func(w http.ResponseWriter, r *http.Request) { l := httpd.NewResponseLogger(w) hf.ServeHTTP(l, r) }), h.metaClient, h.config.OpsMonitor.AuthEnabled) }" := by rfl

/-- Auth.authenticate: cache first (entry must have been made against the user's current hash), then the stored hash; success is cached (model: `authCached`). -/
theorem authCacheChecksBase_expected : authCacheChecksBase = true := by rfl
theorem src_Auth_authenticate_expected : src_Auth_authenticate = "{ pwd := util.Str2bytes(password) if a.cache.CompareWithBase(user.Name, user.Hash, pwd) { return nil } if err := a.CompareHashAndPlainPwd(user.Hash, password); err != nil { return meta.ErrAuthenticate } a.cache.Create(user.Name, user.Hash, pwd) return nil }" := by rfl
theorem src_AuthCache_CompareWithBase_expected : src_AuthCache_CompareWithBase = "{ ac.mu.RLock() cache, ok := ac.cache[user] ac.mu.RUnlock() return ok && cache.base == base && cache.Compare(pwd) }" := by rfl
theorem src_AuthCache_CleanIfNeeded_expected : src_AuthCache_CleanIfNeeded = "{ ac.mu.Lock() defer ac.mu.Unlock() for name := range users { cache, ok := ac.cache[name] if ok && cache.base != users[name] { delete(ac.cache, name) } } for name := range ac.cache { if _, ok := users[name]; !ok { delete(ac.cache, name) } } }" := by rfl

end OG.C19.Facts
