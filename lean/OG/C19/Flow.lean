/-
C19 — request parameter resolution and the database a handler authorizes / acts on (core Lean only).

A request carries parameters in two places: the URL query string and (for some methods / content
types) the body. net/http merges them into `r.Form`; the handlers read either the merged form
(`r.FormValue`) or the URL only (`r.URL.Query().Get`). Which expression feeds the privilege check
and which one feeds the execution is *regenerated* from the handler source (`dbFlows`, ogfacts
c19flow.go); this file gives those expressions a meaning over a request and builds the
request-level decision `decideReq` = the existing `decide` with the database taken from the
request the way the handler takes it, plus the database the action is performed on.
-/
import OG.C19.Model

namespace OG.C19
open OG.Gen.C19 (RouteFact routes Src FlowEnd DbFlow dbFlows parseFormHandlers)

/-- the Content-Type classes net/http's form parsing distinguishes. -/
inductive CType where
  | none         -- no Content-Type header
  | urlencoded   -- application/x-www-form-urlencoded
  | multipart    -- multipart/form-data
  | other        -- anything else (application/json, protobuf …)
deriving DecidableEq, Repr

/-- an HTTP request as far as parameter resolution and credentials go. `body` = the key/value
pairs the body carries (urlencoded pairs, or the value fields of a multipart body), in order.
`vars` = the path variables gorilla/mux bound for the matched route. -/
structure HttpReq where
  method : String
  ctype : CType
  url : List (String × String)
  body : List (String × String)
  vars : List (String × String)
  hdr : AuthHeader
deriving Repr

/-- `url.Values.Get`: the first value of the key, "" when absent. -/
def firstOf (k : String) : List (String × String) → String
  | [] => ""
  | (k', v) :: rest => if k' = k then v else firstOf k rest

/-- `Request.ParseForm` reads a urlencoded body for these methods only. -/
def parsesBody (m : String) : Bool := m = "POST" || m = "PUT" || m = "PATCH"

/-- `r.PostForm` after `ParseMultipartForm` (which is what `FormValue` calls). -/
def HttpReq.postForm (r : HttpReq) : List (String × String) :=
  match r.ctype with
  | .urlencoded => if parsesBody r.method then r.body else []
  | .multipart => r.body          -- multipartReader does not look at the method
  | _ => []

/-- `r.Form` after `ParseMultipartForm`: a urlencoded body goes *in front of* the URL's
parameters (`ParseForm` copies PostForm first); multipart value fields are appended *after* them. -/
def HttpReq.form (r : HttpReq) : List (String × String) :=
  match r.ctype with
  | .urlencoded => if parsesBody r.method then r.body ++ r.url else r.url
  | .multipart => r.url ++ r.body
  | _ => r.url

def HttpReq.formValue (r : HttpReq) (k : String) : String := firstOf k r.form
def HttpReq.urlGet (r : HttpReq) (k : String) : String := firstOf k r.url
def HttpReq.postFormValue (r : HttpReq) (k : String) : String := firstOf k r.postForm

/-- what `ParseCredentials` sees: the URL's u / p (never the body's) and the Authorization header. -/
def HttpReq.creds (r : HttpReq) : Req := ⟨r.urlGet "u", r.urlGet "p", r.hdr⟩

/-- meaning of what the extractor leaves uninterpreted: helper functions (by name, result
index, evaluated arguments), opaque expressions, and the argument another package passes to a
callback. The alignment theorem holds for every interpretation. -/
structure Interp where
  fn : String → Nat → List String → HttpReq → String
  opq : String → HttpReq → String
  cb : String → HttpReq → String

def _root_.OG.Gen.C19.Src.eval (ι : Interp) (r : HttpReq) : Src → String
  | .formValue k => r.formValue k
  | .urlGet k => r.urlGet k
  | .postFormValue k => r.postFormValue k
  | .pathVar k => firstOf k r.vars
  | .const s => s
  | .callbackParam n => ι.cb n r
  | .app0 f i => ι.fn f i [] r
  | .app1 f i a => ι.fn f i [a.eval ι r] r
  | .app2 f i a b => ι.fn f i [a.eval ι r, b.eval ι r] r
  | .opaque t => ι.opq t r

def _root_.OG.Gen.C19.Src.isCallback : Src → Bool
  | .callbackParam _ => true
  | _ => false

/-- text in front of the first '/', and whether there was one. -/
def beforeSlash : List Char → List Char → List Char
  | acc, [] => acc.reverse
  | acc, c :: rest => if c = '/' then acc.reverse else beforeSlash (c :: acc) rest

/-- the helper functions of the httpd package the flows go through (bodies pinned in
Facts.lean: `src_getDbRpByProm_expected`, `src_bucket2dbrp_expected`):
  getDbRpByProm#0  = FormValue("db"), or "prom" when that is empty
  bucket2dbrp#0    = the bucket up to the first '/' ("" on error) -/
def stdInterp : Interp where
  fn := fun f i args r =>
    if f = "getDbRpByProm" && i = 0 then
      (let d := r.formValue "db"; if d = "" then "prom" else d)
    else if f = "bucket2dbrp" && i = 0 then
      match args with
      | [b] => String.ofList (beforeSlash [] b.toList)
      | _ => ""
    else ""
  opq := fun _ _ => ""
  cb := fun _ _ => ""

/-- the expressions the model's standard interpretation has to give a meaning to. -/
def _root_.OG.Gen.C19.Src.understood : Src → Bool
  | .formValue _ | .urlGet _ | .postFormValue _ | .pathVar _ | .const _ => true
  | .app0 f i => f == "getDbRpByProm" && i == 0
  | .app1 f i a => f == "bucket2dbrp" && i == 0 && a.understood
  | _ => false

/-! ## which database a handler authorizes and which one it acts on -/

def flowOf (handler : String) : Option DbFlow := dbFlows.find? (fun f => f.handler = handler)

/-- the database argument of the handler's authorizer call. -/
def authzEnd (f : DbFlow) : Option FlowEnd := f.authz.find? (fun a => a.what = "db")

/-- the database handed to what acts (execution options, unmarshal work, points writer, OTLP
context) — the first such end that is a request expression (not a callback parameter). -/
def execEnd (f : DbFlow) : Option FlowEnd := f.exec.find? (fun s => s.what = "db" && !s.src.isCallback)

/-- both ends of every flow category are the same request expression; an end that is a callback
parameter is exempt (it is fed by another package from a value that is itself a checked end,
see `callback_sinks_fed`). -/
def flowAligned (f : DbFlow) : Bool :=
  f.exec.all (fun s => s.src.isCallback || f.authz.all (fun a => a.what != s.what || a.src == s.src))

/-! ## path variables -/

def bindSegs : List (List Char) → List (List Char) → List (String × String)
  | p :: ps, s :: ss =>
    if isVar p then (String.ofList ((p.drop 1).dropLast), String.ofList s) :: bindSegs ps ss else bindSegs ps ss
  | _, _ => []

def bindVars (pattern path : List Char) : List (String × String) := bindSegs (splitPath pattern) (splitPath path)

/-! ## the request-level decision -/

structure ReqOutcome where
  decision : Decision
  actedOn : Option String   -- the database of the action, when the handler ran past its gates and acted
deriving DecidableEq, Repr

/-- does a handler that passed its gates act? The query handlers hand every statement to the
executor; the write handlers first require the database to be named and to exist. -/
def acts (r : RouteFact) (dbs : List String) (db : String) : Bool :=
  if (routeGates r).contains "write@db" then dbs.contains db && db ≠ "" else true

/-- the request as the matched handler sees it: the path variables bound, and — for a handler
that calls `r.ParseForm()` itself before its first `FormValue` (`parseFormHandlers`) — a
multipart body never merged into `r.Form` (ParseForm leaves multipart bodies alone and
`FormValue` only parses when `r.Form` is still nil), which is how any other content type behaves. -/
def viewOf (rt : RouteFact) (req : HttpReq) (path : List Char) : HttpReq :=
  { req with
    vars := bindVars rt.patternC path
    ctype := if parseFormHandlers.contains rt.handler && req.ctype = .multipart then .other else req.ctype }

/-- `q`: the statements the request's query text parses to; `none` = no query text (the
handler answers 400 before it authorizes; only serveQuery reads `q`). -/
def decideReq (w : World) (c : Cfg) (ι : Interp) (req : HttpReq) (path : List Char)
    (dbs : List String) (q : Option (List Stmt)) : ReqOutcome :=
  match dispatch c req.method path with
  | .route rt =>
    let req' := viewOf rt req path
    match flowOf rt.handler, q with
    | some f, some q =>
      match authzEnd f with
      | some a =>
        let adb := a.src.eval ι req'
        let d := decide w c req.method path req.creds adb (dbs.contains adb) q
        ⟨d, if d = .pass then
              (match execEnd f with
               | some s => let x := s.src.eval ι req'; if acts rt dbs x then some x else none
               | none => none)
            else none⟩
      | none => ⟨decide w c req.method path req.creds "" false q, none⟩
    | none, some q => ⟨decide w c req.method path req.creds "" false q, none⟩
    | _, none =>
      -- no query text: authenticate still runs, the handler answers its own error
      ⟨(match decide w c req.method path req.creds "" false [] with
        | .d401 => .d401
        | .d404 => .d404
        | .d405 => .d405
        | .broken => .broken
        | _ => .pass), none⟩
  | _ => ⟨decide w c req.method path req.creds "" false (q.getD []), none⟩

end OG.C19
