/-
C19 — property theorems.

Property: "When authentication is enabled and an administrator exists, every HTTP endpoint that
reads data, writes data, changes the catalogue or controls the server rejects requests that carry
no credentials, wrong credentials or a user lacking the needed privilege on the target database,
and performs no part of the requested action; only the liveness/status endpoints and pre-flight
requests answer anonymously. Granting and revoking a privilege changes what that user may do on
exactly that database."

Part 1 (table, `decide` on the regenerated route table): every endpoint is public by the property's
own wording, or wrapped by `authenticate` and not shadowed by the pre-mux dispatch — FALSE on the
unchanged tree (`all_routes_guarded_full`), with witnesses; true outside an explicit `knownOpen` list.
Part 2 (table): every wrapped endpoint's handler reaches an authorizer with its user — FALSE
(`all_routes_authorize_full`); true outside `knownNoAuthz` ∪ `authOnly`.
Part 3 (`authenticate`): the handler is reached only with a user the request's credentials
identify; the fall-through `default:` arm is unreachable because `ParseCredentials` produces two
methods only.
Part 4 (privileges): the decision for (user, database, privilege) depends only on `Admin`,
`Rwuser` and `Privileges[database]`; GRANT/REVOKE on one database moves exactly that entry.
-/
import OG.C19.Model

set_option maxRecDepth 100000
namespace OG.C19
open OG.Gen.C19 (RouteFact routes preMuxPrefixes preMuxPrefixesC)

/-! ## Part 1 — every endpoint is guarded -/

/-- everything that answers HTTP: a registration on the mux, or an arm of ServeHTTP's dispatch
chain in front of the mux (method "*": the arm does not look at the method). -/
structure Endpoint where
  method : String
  pattern : String
  handler : String
  cond : String
  wrapped : Bool        -- AddRoutes wraps it with `authenticate` (signature has the meta.User parameter)
  bypassesMux : Bool    -- served (or shadowed) by the dispatch in front of the mux: no wrapper applies
deriving DecidableEq, Repr

/-- a registered pattern is shadowed when a pre-mux prefix is a prefix of it. -/
def shadowed (r : RouteFact) : Bool := preMuxPrefixesC.any (fun p => p.isPrefixOf r.patternC)

def endpoints : List Endpoint :=
  routes.map (fun r => ⟨r.method, r.pattern, r.handler, r.cond, r.sig == "user", shadowed r⟩)
  ++ preMuxPrefixes.map (fun p => ⟨"*", p, "ServeHTTP", "", false, true⟩)

/-- `publicAllow`: what the property lets answer anonymously — "only the liveness/status
endpoints and pre-flight requests".
  GET,HEAD /ping     liveness probe (204, or the version with ?verbose)
  GET,HEAD /status   deprecated alias of /ping (204)
  OPTIONS /query, OPTIONS /write   CORS pre-flight: `cors` answers before any handler runs
Nothing else: /metrics, /debug/*, /runtime_config carry server data or control and are not public. -/
def publicAllow : List (String × String) :=
  [("GET", "/ping"), ("HEAD", "/ping"), ("GET", "/status"), ("HEAD", "/status"),
   ("OPTIONS", "/query"), ("OPTIONS", "/write")]

def Endpoint.isPublic (e : Endpoint) : Bool := publicAllow.contains (e.method, e.pattern)

/-- not wrapped, but the handler is a function literal whose whole body is
`http.Error(w, "Flux query service disabled…", http.StatusForbidden)` (Facts.funcLitHandlers_expected):
it rejects every request itself and does nothing else. -/
def Endpoint.rejectsItself (e : Endpoint) : Bool :=
  e.handler == "<funclit>" && e.method == "POST" && e.pattern == "/api/v2/query" && e.cond == "!FluxEnabled"

def Endpoint.guarded (e : Endpoint) : Bool := e.isPublic || e.rejectsItself || (e.wrapped && !e.bypassesMux)

/-- **the full statement** — every endpoint is public, or wrapped by `authenticate` and not bypassing it. -/
def all_routes_guarded_full : Prop := ∀ e ∈ endpoints, e.guarded = true

/-- the endpoints that violate it on the unchanged tree (each confirmed on the running handler by
the correspondence run; finding classes `route:<pattern>`). -/
def knownOpen : List (String × String) :=
  [("POST", "/failpoint"),        -- 2-argument signature: enables/disables failpoints, broadcasts a sysctrl command
   ("*", "/debug/pprof"),         -- pre-mux: profiles, cmdline, symbol
   ("*", "/debug/vars"),          -- pre-mux: server statistics
   ("*", "/debug/query"),         -- pre-mux: shard status query broadcast to the stores
   ("GET", "/runtime_config")]    -- registered by app/ts-sql with a 2-argument handler: tenant limits

theorem all_routes_guarded_false : ¬ all_routes_guarded_full := by
  intro h
  have := h ⟨"POST", "/failpoint", "failPoint", "", false, false⟩ (by decide)
  revert this; decide

/-- every single entry of `knownOpen` is a real counterexample (none is listed in vain). -/
theorem knownOpen_all_unguarded :
    ∀ k ∈ knownOpen, ∃ e ∈ endpoints, (e.method, e.pattern) = k ∧ e.guarded = false := by decide +kernel

/-- **partial**: outside the explicit `knownOpen` list every endpoint is guarded. -/
theorem all_routes_guarded_partial :
    ∀ e ∈ endpoints, knownOpen.contains (e.method, e.pattern) = false → e.guarded = true := by decide +kernel

/-- no registered route is shadowed by a pre-mux prefix (so `wrapped` is not moot for any of them). -/
theorem no_route_shadowed : ∀ r ∈ routes, shadowed r = false := by decide +kernel

/-- non-vacuity: the table has wrapped, public and open entries. -/
example : (endpoints.filter (·.wrapped)).length = 71 ∧ (endpoints.filter (·.isPublic)).length = 6
    ∧ (endpoints.filter (fun e => !e.guarded)).length = 5 := by decide +kernel

/-! ## Part 2 — every guarded handler authorizes -/

/-- wrapped routes that need no per-database privilege by the property's wording (they serve
no database's data and change nothing): any authenticated user may call them.
  GET /metrics          process / server-wide Prometheus metrics (the per-module authorization error is skipped)
  POST /api/v2/query    flux enabled: answers "not implementation" (400) -/
def authOnly : List (String × String) := [("GET", "/metrics"), ("POST", "/api/v2/query")]

/-- wrapped routes whose handler never consults an authorizer although they read or change a
database / the catalogue: an authenticated user without any privilege is served
(finding classes `noauthz:/api/v1/tsdb/{tsdb}` and `noauthz:logkeeper-api`). -/
def knownNoAuthz : List (String × String) :=
  [("POST", "/api/v1/tsdb/{tsdb}"),
   ("POST", "/api/v1/repository/{repository}"), ("DELETE", "/api/v1/repository/{repository}"),
   ("GET", "/api/v1/repository"), ("GET", "/api/v1/repository/{repository}"), ("PUT", "/api/v1/repository/{repository}"),
   ("POST", "/api/v1/logstream/{repository}/{logStream}"), ("DELETE", "/api/v1/logstream/{repository}/{logStream}"),
   ("GET", "/api/v1/logstream/{repository}"), ("GET", "/api/v1/logstream/{repository}/{logStream}"),
   ("PUT", "/api/v1/logstream/{repository}/{logStream}"),
   ("POST", "/repo/{repository}/logstreams/{logStream}/records"), ("POST", "/repo/{repository}/logstreams/{logStream}/upload"),
   ("GET", "/repo/{repository}/logstreams/{logStream}/logbycursor"), ("GET", "/repo/{repository}/logstreams/{logStream}/consume/logs"),
   ("GET", "/repo/{repository}/logstreams/{logStream}/consume/cursor-time"), ("GET", "/repo/{repository}/logstreams/{logStream}/consume/cursors"),
   ("GET", "/repo/{repository}/logstreams/{logStream}/cursor"), ("GET", "/repo/{repository}/logstreams/{logStream}/cursor/{cursor}"),
   ("POST", "/repo/{repository}/logstreams/{logStream}/recalldata"), ("POST", "/repo/{repository}/logstreams/{logStream}/stream-task"),
   ("DELETE", "/repo/{repository}/logstreams/{logStream}/stream-task/{taskId}")]

def authorizes (r : RouteFact) : Bool := !(routeGates r).isEmpty

/-- **the full statement** — every wrapped route's handler reaches an authorizer that can deny. -/
def all_routes_authorize_full : Prop :=
  ∀ r ∈ routes, r.sig = "user" → authOnly.contains (r.method, r.pattern) = false → authorizes r = true

theorem all_routes_authorize_false : ¬ all_routes_authorize_full := by
  intro h
  have := h ⟨"lib/util/lifted/influx/httpd/handler.go:AddPrometheusAPIRoutes", "", "prometheus-create-tsdb", "POST",
    "/api/v1/tsdb/{tsdb}", "false", "true", "servePromCreateTSDB", "user", [], "AddPrometheusAPIRoutes", false,
    ['/', 'a', 'p', 'i', '/', 'v', '1', '/', 't', 's', 'd', 'b', '/', '{', 't', 's', 'd', 'b', '}']⟩ (by decide) (by decide) (by decide)
  revert this; decide

theorem knownNoAuthz_all_real :
    ∀ k ∈ knownNoAuthz, ∃ r ∈ routes, (r.method, r.pattern) = k ∧ r.sig = "user" ∧ authorizes r = false := by decide

/-- **partial**: outside `knownNoAuthz` every wrapped route that needs a privilege checks one. -/
theorem all_routes_authorize_partial :
    ∀ r ∈ routes, r.sig = "user" → authOnly.contains (r.method, r.pattern) = false →
      knownNoAuthz.contains (r.method, r.pattern) = false → authorizes r = true := by decide

example : (routes.filter (fun r => r.sig == "user" && authorizes r)).length = 47 := by decide

/-! ## Part 3 — `authenticate` -/

/-- `ParseCredentials` produces UserAuthentication or BearerAuthentication, nothing else. -/
theorem parseCredentials_method (r : Req) (c : Creds) (h : parseCredentials r = some c) :
    c.method = 0 ∨ c.method = 1 := by
  unfold parseCredentials at h
  split at h
  · cases h; simp
  · split at h
    · cases h
    · cases h; simp
    · split at h
      · cases h; simp
      · cases h
    · cases h; simp
    · cases h

theorem authUser_no_fall (w : World) (n p : String) (s : Nat) : authUser w n p ≠ .denyThenInner s := by
  unfold authUser
  split
  · simp
  · split <;> simp

theorem authBearer_no_fall (w : World) (t : Jwt) (s : Nat) : authBearer w t ≠ .denyThenInner s := by
  unfold authBearer
  repeat' split
  all_goals simp

/-- hence the `default:` arm (error reported, no `return`, handler called with nil) is dead code. -/
theorem authenticate_no_fallthrough (w : World) (r : Req) (s : Nat) :
    authenticate w r ≠ .denyThenInner s := by
  unfold authenticate
  split
  · simp
  · split
    · simp
    · split
      · simp
      · rename_i c hc
        unfold authSwitch
        rcases parseCredentials_method r c hc with h0 | h1
        · rw [h0]; exact authUser_no_fall w _ _ s
        · rw [h1]; exact authBearer_no_fall w _ s

/-- the name/password pair the server looks at: the URL pair when both parts are present,
otherwise what the Authorization header carries (Basic, or `Token name:password`). -/
def Req.passwordPair (r : Req) : Option (String × String) :=
  if r.urlU ≠ "" ∧ r.urlP ≠ "" then some (r.urlU, r.urlP)
  else match r.hdr with
    | .basic u p => some (u, p)
    | .token s => parseToken s
    | _ => none

/-- the specification: the request's credentials identify user `u` of world `w`. -/
def Identifies (w : World) (r : Req) (u : User) : Prop :=
  w.findUser u.name = some u ∧ u.name ≠ "" ∧
  ((r.passwordPair = some (u.name, u.password)) ∨
   (r.passwordPair = none ∧ w.sharedSecret = true ∧
      ∃ t, r.hdr = .bearer t ∧ t.parses = true ∧ t.expOk = true ∧ t.user = .name u.name))

theorem findUser_name (w : World) (n : String) (u : User) (h : w.findUser n = some u) : u.name = n := by
  unfold World.findUser at h
  have := List.find?_some h
  simpa using this

/-- the password arm hands over exactly the user whose name and password were given. -/
theorem authUser_sound (w : World) (n p : String) (ou : Option User) (h : authUser w n p = .inner ou) :
    ∃ u, ou = some u ∧ w.findUser u.name = some u ∧ u.name ≠ "" ∧ u.name = n ∧ u.password = p := by
  unfold authUser at h
  split at h
  · cases h
  · rename_i hne
    unfold World.metaAuthenticate at h
    split at h
    · rename_i u hu
      split at hu
      · rename_i u' hf
        split at hu
        · rename_i hp
          cases hu; cases h
          have hn := findUser_name w n _ hf
          exact ⟨_, rfl, by rw [hn]; exact hf, by rw [hn]; exact hne, hn, hp⟩
        · cases hu
      · cases hu
    · cases h

theorem authBearer_sound (w : World) (t : Jwt) (ou : Option User) (h : authBearer w t = .inner ou) :
    ∃ u, ou = some u ∧ w.findUser u.name = some u ∧ u.name ≠ "" ∧ w.sharedSecret = true ∧ t.parses = true ∧ t.expOk = true
      ∧ t.user = .name u.name := by
  unfold authBearer at h
  split at h
  · cases h
  · rename_i h1
    split at h
    · cases h
    · rename_i h2
      split at h
      · cases h
      · rename_i h3
        split at h
        · cases h
        · cases h
        · rename_i n hn
          split at h
          · cases h
          · rename_i hne
            split at h
            · rename_i u hu
              cases h
              have hnm := findUser_name w n u hu
              refine ⟨u, rfl, by rw [hnm]; exact hu, by rw [hnm]; exact hne, by simpa using h1, by simpa using h2, by simpa using h3, by rw [hnm]; exact hn⟩
            · cases h

/-- **soundness of `authenticate`**: with authentication on and an administrator present, the
wrapped handler is called only with a user, and only with the user the credentials identify. -/
theorem authenticate_sound (w : World) (r : Req) (ou : Option User)
    (ha : w.authEnabled = true) (hadm : w.adminExists = true)
    (h : authenticate w r = .inner ou) : ∃ u, ou = some u ∧ Identifies w r u := by
  unfold authenticate at h
  simp only [ha, hadm, Bool.not_true, Bool.false_eq_true, ↓reduceIte] at h
  split at h
  · cases h
  · rename_i c hc
    unfold authSwitch at h
    unfold parseCredentials at hc
    split at hc
    · rename_i hurl
      cases hc
      obtain ⟨u, rfl, hf, hne, hn, hp⟩ := authUser_sound w _ _ ou h
      exact ⟨u, rfl, hf, hne, Or.inl (by simp [Req.passwordPair, hurl, hn, hp])⟩
    · rename_i hurl
      split at hc
      · cases hc
      · rename_i t hh
        cases hc
        obtain ⟨u, rfl, hf, hne, hs, hp, he, hu⟩ := authBearer_sound w _ ou h
        exact ⟨u, rfl, hf, hne, Or.inr ⟨by simp [Req.passwordPair, hurl, hh], hs, t, hh, hp, he, hu⟩⟩
      · rename_i s hh
        split at hc
        · rename_i tu tp hs
          cases hc
          obtain ⟨u, rfl, hf, hne, hn, hp⟩ := authUser_sound w _ _ ou h
          exact ⟨u, rfl, hf, hne, Or.inl (by simp [Req.passwordPair, hurl, hh, hs, hn, hp])⟩
        · cases hc
      · rename_i bu bp hh
        cases hc
        obtain ⟨u, rfl, hf, hne, hn, hp⟩ := authUser_sound w _ _ ou h
        exact ⟨u, rfl, hf, hne, Or.inl (by simp [Req.passwordPair, hurl, hh, hn, hp])⟩
      · cases hc

/-- **`authenticate_denies`** — for every credential class other than a valid user (no
credentials, malformed, unknown user, wrong password, bad / unsigned / expired token, bearer
without a shared secret …: whenever the credentials identify no user) the wrapper answers with
an error status and never reaches the handler. -/
theorem authenticate_denies (w : World) (r : Req)
    (ha : w.authEnabled = true) (hadm : w.adminExists = true)
    (hno : ∀ u, ¬ Identifies w r u) : ∃ s, authenticate w r = .deny s := by
  cases h : authenticate w r with
  | deny s => exact ⟨s, rfl⟩
  | inner ou =>
    obtain ⟨u, _, hu⟩ := authenticate_sound w r ou ha hadm h
    exact absurd hu (hno u)
  | denyThenInner s => exact absurd h (authenticate_no_fallthrough w r s)

/-- … and every such request is answered 401 on every wrapped, live, non-pre-flight route. -/
theorem decide_denies_unidentified (w : World) (c : Cfg) (method : String) (path : List Char) (req : Req)
    (db : String) (dbx : Bool) (q : List Stmt) (rt : RouteFact)
    (ha : w.authEnabled = true) (hadm : w.adminExists = true)
    (hd : dispatch c method path = .route rt) (hsig : rt.sig = "user") (hm : method ≠ "OPTIONS")
    (hno : ∀ u, ¬ Identifies w req u) : decide w c method path req db dbx q = .d401 := by
  obtain ⟨s, hs⟩ := authenticate_denies w req ha hadm hno
  unfold decide
  simp [hd, hm, hsig, hs]

/-- completeness (and non-vacuity of the hypotheses): a correct name/password pair in a Basic
header reaches the handler with that user. -/
theorem authenticate_accepts_basic (w : World) (u : User)
    (ha : w.authEnabled = true) (hadm : w.adminExists = true)
    (hu : w.findUser u.name = some u) (hn : u.name ≠ "") :
    authenticate w ⟨"", "", .basic u.name u.password⟩ = .inner (some u) := by
  unfold authenticate
  simp [ha, hadm, parseCredentials, authSwitch, authUser, hn, World.metaAuthenticate, hu]

def demoWorld : World := ⟨true, true,
  [⟨"root", "r", true, false, []⟩, ⟨"ro", "p", false, false, [("db0", .read)]⟩, ⟨"wo", "q", false, false, [("db0", .write)]⟩]⟩

example : authenticate demoWorld ⟨"", "", .basic "ro" "p"⟩ = .inner (some ⟨"ro", "p", false, false, [("db0", .read)]⟩) := by decide
example : authenticate demoWorld ⟨"", "", .basic "ro" "x"⟩ = .deny 401 := by decide
example : authenticate demoWorld ⟨"ro", "", .absent⟩ = .deny 401 := by decide
example : authenticate demoWorld ⟨"", "", .bearer ⟨true, true, .name "wo"⟩⟩ = .inner (some ⟨"wo", "q", false, false, [("db0", .write)]⟩) := by decide
example : authenticate demoWorld ⟨"", "", .bearer ⟨false, true, .name "root"⟩⟩ = .deny 401 := by decide
/-- the hypothesis of `authenticate_denies` is satisfiable (an unknown user identifies nobody). -/
example : ∃ s, authenticate demoWorld ⟨"", "", .basic "ghost" "x"⟩ = .deny s := ⟨401, by decide⟩

/-! ## Part 4 — privileges -/

/-- **`authorize_local`**: the decision for (user, database, privilege) reads nothing but
`Admin`, `Rwuser` and the user's entry for *that* database. -/
theorem authorize_local (u u' : User) (p : Priv) (db : String)
    (ha : u.admin = u'.admin) (hr : u.rwuser = u'.rwuser)
    (hp : lookupPriv db u.privs = lookupPriv db u'.privs) :
    authorizeDatabase u p db = authorizeDatabase u' p db := by
  unfold authorizeDatabase
  rw [ha, hr, hp]

theorem lookup_setPriv_same (db : String) (p : Priv) (l : List (String × Priv)) :
    lookupPriv db (setPrivList db p l) = some p := by
  induction l with
  | nil => simp [setPrivList, lookupPriv]
  | cons x xs ih =>
    obtain ⟨k, v⟩ := x
    by_cases h : k = db
    · simp [setPrivList, lookupPriv, h]
    · simp [setPrivList, lookupPriv, h, ih]

theorem lookup_setPriv_other (db db' : String) (p : Priv) (l : List (String × Priv)) (hne : db' ≠ db) :
    lookupPriv db' (setPrivList db p l) = lookupPriv db' l := by
  have hd : ¬ db = db' := fun e => hne e.symm
  induction l with
  | nil => simp [setPrivList, lookupPriv, hd]
  | cons x xs ih =>
    obtain ⟨k, v⟩ := x
    by_cases h : k = db
    · simp [setPrivList, lookupPriv, h, hd]
    · by_cases h' : k = db'
      · subst h'
        simp [setPrivList, lookupPriv, h]
      · simp [setPrivList, lookupPriv, h, h', ih]

/-- **`grant_revoke_local`** (1): GRANT / REVOKE on `db` leaves every decision on another database
as it was … -/
theorem grant_revoke_local (u : User) (db db' : String) (p q : Priv) (hne : db' ≠ db) :
    authorizeDatabase (u.setPriv db p) q db' = authorizeDatabase u q db' := by
  apply authorize_local
  · rfl
  · rfl
  · exact lookup_setPriv_other db db' p u.privs hne

/-- (2) … sets the decisions on `db` to exactly what the new privilege allows … -/
theorem grant_effect (u : User) (db : String) (p q : Priv) :
    authorizeDatabase (u.setPriv db p) q db = (u.admin || u.rwuser || q == .none || (p == q || p == .all)) := by
  unfold authorizeDatabase User.setPriv
  simp only [lookup_setPriv_same]
  cases u.admin <;> cases u.rwuser <;> cases q <;> cases p <;> rfl

/-- helper: mapping a name-preserving function that fixes every user called `m` does not change
who `find? (name = m)` returns. -/
theorem find_map_other (l : List User) (f : User → User) (m : String)
    (hname : ∀ u, (f u).name = u.name) (hfix : ∀ u, u.name = m → f u = u) :
    (l.map f).find? (fun u => u.name = m) = l.find? (fun u => u.name = m) := by
  induction l with
  | nil => rfl
  | cons x xs ih =>
    rw [List.map_cons, List.find?_cons, List.find?_cons]
    by_cases hx : x.name = m
    · have : (f x).name = m := by rw [hname]; exact hx
      simp only [this, hx, decide_true]
      rw [hfix x hx]
    · have : ¬ (f x).name = m := by rw [hname]; exact hx
      simp only [this, hx, decide_false]
      exact ih

/-- (3) … and touches no other user. -/
theorem grant_other_user (w : World) (n m db : String) (p : Priv) (hne : m ≠ n) :
    (w.grant n db p).findUser m = w.findUser m := by
  unfold World.grant World.findUser
  apply find_map_other
  · intro u
    by_cases h : u.name = n <;> simp [h, User.setPriv]
  · intro u hu
    have : ¬ u.name = n := fun e => hne (hu.symm.trans e)
    simp [this]

/-- revoke is `setPriv … none`: afterwards only the empty privilege is authorized on `db`. -/
example : authorizeDatabase ((⟨"u", "p", false, false, [("db0", .all)]⟩ : User).setPriv "db0" .none) .read "db0" = false := by decide
example : authorizeDatabase ((⟨"u", "p", false, false, [("db0", .all), ("db1", .read)]⟩ : User).setPriv "db0" .none) .read "db1" = true := by decide

/-! ## the handler gates -/

/-- a handler with the admin gate passes nobody but an administrator. -/
theorem gate_admin (w : World) (r : RouteFact) (u : Option User) (db : String) (dbx : Bool) (q : List Stmt)
    (ha : w.authEnabled = true) (hg : (routeGates r).contains "admin" = true)
    (hu : isAdmin u = false) : gate w r u db dbx q = .d403 := by
  unfold gate
  simp only [ha, hg, hu, Bool.not_true, Bool.not_false, Bool.and_self, Bool.false_eq_true, ↓reduceIte]

/-- a handler with the write gate passes only users whose current catalogue entry holds WRITE or
ALL on the target database (or admin / rwuser). -/
theorem gate_write (w : World) (r : RouteFact) (u : Option User) (db : String) (dbx : Bool) (q : List Stmt)
    (ha : w.authEnabled = true) (hg : (routeGates r).contains "write" = true)
    (hpass : gate w r u db dbx q = .pass) : w.authorizeWrite u db = true := by
  cases h : w.authorizeWrite u db with
  | true => rfl
  | false =>
    unfold gate at hpass
    simp only [ha, hg, h, Bool.not_true, Bool.not_false, Bool.and_self, Bool.false_eq_true, ↓reduceIte] at hpass
    split at hpass
    · cases hpass
    · cases hpass

/-- a handler with the query gate passes only what `AuthorizeQuery` allows. -/
theorem gate_query (w : World) (r : RouteFact) (u : Option User) (db : String) (dbx : Bool) (q : List Stmt)
    (ha : w.authEnabled = true) (hg : (routeGates r).contains "query" = true)
    (hpass : gate w r u db dbx q = .pass) : authorizeQuery u db q = true := by
  cases h : authorizeQuery u db q with
  | true => rfl
  | false =>
    unfold gate at hpass
    simp only [ha, hg, h, Bool.not_true, Bool.not_false, Bool.and_self, Bool.false_eq_true, ↓reduceIte] at hpass
    split at hpass
    · cases hpass
    · split at hpass
      · cases hpass
      · split at hpass
        · cases hpass
        · split at hpass <;> cases hpass

/-- a non-admin, non-rwuser user passes `AuthorizeQuery` only if no statement needs admin and it
holds every named privilege on the statement's database. -/
theorem authorizeStmt_sound (u : User) (database : String) (ps : List ExecPriv)
    (h : authorizeStmt u database ps = true) :
    ∀ p ∈ ps, p.admin = false ∧ authorizeDatabase u p.priv (if p.name = "" then database else p.name) = true := by
  induction ps with
  | nil => intro p hp; cases hp
  | cons x xs ih =>
    intro p hp
    unfold authorizeStmt at h
    by_cases hx : x.admin = true
    · simp [hx] at h
    · simp only [hx, Bool.false_eq_true, ↓reduceIte] at h
      by_cases hz : authorizeDatabase u x.priv (if x.name = "" then database else x.name) = true
      · simp only [hz, ↓reduceIte] at h
        cases hp with
        | head => exact ⟨by simpa using hx, hz⟩
        | tail _ hmem => exact ih h p hmem
      · simp [hz] at h

/-! ## query authorization is a conjunction over statements and privileges -/

/-- one required privilege is held: no admin requirement, and the privilege is held on the
database the requirement names, or else on the request's database. -/
def privOk (u : User) (database : String) (p : ExecPriv) : Bool :=
  !p.admin && authorizeDatabase u p.priv (if p.name = "" then database else p.name)

theorem authorizeStmt_iff (u : User) (database : String) (ps : List ExecPriv) :
    authorizeStmt u database ps = true ↔ ∀ p ∈ ps, privOk u database p = true := by
  induction ps with
  | nil => simp [authorizeStmt]
  | cons x xs ih =>
    unfold authorizeStmt
    cases hx : x.admin with
    | true => simp [privOk, hx]
    | false =>
      cases hz : authorizeDatabase u x.priv (if x.name = "" then database else x.name) with
      | false => simp [privOk, hx, hz]
      | true => simp [privOk, hx, hz, ih]

/-- **query authorization is a plain conjunction**: an ordinary user (not admin, not rwuser) may
run a query iff EVERY privilege required by EVERY statement is held on the database that
requirement names, or else on the request's database — nothing carries over from one privilege
or statement to the next. -/
theorem authorizeQuery_iff (u : User) (hna : u.admin = false) (hnr : u.rwuser = false)
    (database : String) (q : List Stmt) :
    u.authorizeQuery database q = true ↔ ∀ s ∈ q, ∀ p ∈ s.privs, privOk u database p = true := by
  unfold User.authorizeQuery
  simp only [hna, hnr, Bool.false_eq_true, ↓reduceIte, List.all_eq_true]
  constructor
  · intro h s hs
    exact (authorizeStmt_iff u database s.privs).mp (h s hs)
  · intro h s hs
    exact (authorizeStmt_iff u database s.privs).mpr (h s hs)

/-- no carry-over between statements: a concatenation is authorized iff both halves are. -/
theorem authorizeQuery_append (u : User) (database : String) (q1 q2 : List Stmt) :
    u.authorizeQuery database (q1 ++ q2) = (u.authorizeQuery database q1 && u.authorizeQuery database q2) := by
  unfold User.authorizeQuery
  cases u.admin <;> cases u.rwuser <;> simp [List.all_append]

/-- order independence: permuting the statements does not change the decision. -/
theorem authorizeQuery_perm (u : User) (database : String) (q q' : List Stmt) (h : q.Perm q') :
    u.authorizeQuery database q = u.authorizeQuery database q' := by
  have hall : ∀ f : Stmt → Bool, q.all f = q'.all f := by
    intro f
    cases hq : q.all f <;> cases hq' : q'.all f <;> try rfl
    · rw [List.all_eq_true] at hq'
      have : q.all f = true := List.all_eq_true.mpr (fun s hs => hq' s (h.mem_iff.mp hs))
      rw [this] at hq; cases hq
    · rw [List.all_eq_true] at hq
      have : q'.all f = true := List.all_eq_true.mpr (fun s hs => hq s (h.mem_iff.mpr hs))
      rw [this] at hq'; cases hq'
  unfold User.authorizeQuery
  rw [hall, hall]

/-- … and so does permuting the privileges one statement requires. -/
theorem authorizeStmt_perm (u : User) (database : String) (ps ps' : List ExecPriv) (h : ps.Perm ps') :
    authorizeStmt u database ps = authorizeStmt u database ps' := by
  cases h1 : authorizeStmt u database ps <;> cases h2 : authorizeStmt u database ps' <;> try rfl
  · have := (authorizeStmt_iff u database ps').mp h2
    have h3 := (authorizeStmt_iff u database ps).mpr (fun p hp => this p (h.mem_iff.mp hp))
    rw [h3] at h1; cases h1
  · have := (authorizeStmt_iff u database ps).mp h1
    have h3 := (authorizeStmt_iff u database ps').mpr (fun p hp => this p (h.mem_iff.mpr hp))
    rw [h3] at h2; cases h2

def roU : User := ⟨"ro", "p", false, false, [("dba", .read)]⟩
def showOnA : Stmt := ⟨"ShowMeasurementsStatement", "", [⟨false, "dba", true, .read⟩]⟩
def selUnq : Stmt := ⟨"SelectStatement", "", [⟨false, "", true, .read⟩]⟩
/-- the explicit database of an earlier statement / source does not leak into a later
unqualified one: with request db `dbb` a user holding READ on `dba` only is refused, in either order. -/
example : roU.authorizeQuery "dbb" [showOnA, selUnq] = false := by decide
example : roU.authorizeQuery "dbb" [selUnq, showOnA] = false := by decide
example : roU.authorizeQuery "dbb" [⟨"SelectStatement", "", [⟨false, "dba", true, .read⟩, ⟨false, "", true, .read⟩]⟩] = false := by decide
example : roU.authorizeQuery "dba" [showOnA, selUnq] = true := by decide

/-! ## end to end on the regenerated table (non-vacuity of the hypotheses above; paths are `List Char`) -/

def basicCfg : Cfg := ⟨false, false, true, false⟩
def readStmt : List Stmt := [⟨"SelectStatement", "", [⟨false, "", true, .read⟩]⟩]

-- no credentials on a wrapped route: 401 (instance of `decide_denies_unidentified`).
example : decide demoWorld basicCfg "POST" ['/', 'w', 'r', 'i', 't', 'e'] ⟨"", "", .absent⟩ "db0" true [] = .d401 := by decide
-- read-only user: may query, may not write; write-only user: the reverse.
example : decide demoWorld basicCfg "GET" ['/', 'q', 'u', 'e', 'r', 'y'] ⟨"", "", .basic "ro" "p"⟩ "db0" true readStmt = .pass := by decide
example : decide demoWorld basicCfg "POST" ['/', 'w', 'r', 'i', 't', 'e'] ⟨"", "", .basic "ro" "p"⟩ "db0" true [] = .d403 := by decide
example : decide demoWorld basicCfg "POST" ['/', 'w', 'r', 'i', 't', 'e'] ⟨"", "", .basic "wo" "q"⟩ "db0" true [] = .pass := by decide
example : decide demoWorld basicCfg "GET" ['/', 'q', 'u', 'e', 'r', 'y'] ⟨"", "", .basic "wo" "q"⟩ "db0" true readStmt = .d403 := by decide
-- a user of another database is refused on this one.
example : decide demoWorld basicCfg "POST" ['/', 'w', 'r', 'i', 't', 'e'] ⟨"", "", .basic "wo" "q"⟩ "db1" true [] = .d403 := by decide
-- the model reproduces the findings: these answer without any credentials.
example : decide demoWorld basicCfg "POST" ['/', 'f', 'a', 'i', 'l', 'p', 'o', 'i', 'n', 't'] ⟨"", "", .absent⟩ "" false [] = .pass := by decide
example : decide demoWorld basicCfg "GET" ['/', 'd', 'e', 'b', 'u', 'g', '/', 'v', 'a', 'r', 's'] ⟨"", "", .absent⟩ "" false [] = .pass := by decide
example : decide demoWorld basicCfg "GET" ['/', 'd', 'e', 'b', 'u', 'g', '/', 'q', 'u', 'e', 'r', 'y'] ⟨"", "", .absent⟩ "" false [] = .pass := by decide
example : decide demoWorld basicCfg "GET" ['/', 'd', 'e', 'b', 'u', 'g', '/', 'p', 'p', 'r', 'o', 'f', '/'] ⟨"", "", .absent⟩ "" false [] = .pass := by decide

-- control endpoints: administrators only.
example : decide demoWorld basicCfg "POST" ['/', 'd', 'e', 'b', 'u', 'g', '/', 'c', 't', 'r', 'l'] ⟨"", "", .basic "wo" "q"⟩ "" false [] = .d403 := by decide
example : decide demoWorld basicCfg "POST" ['/', 'd', 'e', 'b', 'u', 'g', '/', 'c', 't', 'r', 'l'] ⟨"", "", .basic "root" "r"⟩ "" false [] = .pass := by decide
example : decide demoWorld ⟨false, false, true, true⟩ "GET" ['/', 'r', 'u', 'n', 't', 'i', 'm', 'e', '_', 'c', 'o', 'n', 'f', 'i', 'g'] ⟨"", "", .absent⟩ "" false [] = .pass := by decide
-- … this one acts for any authenticated user.
example : decide demoWorld basicCfg "POST" ['/', 'a', 'p', 'i', '/', 'v', '1', '/', 't', 's', 'd', 'b', '/', 'x'] ⟨"", "", .basic "ro" "p"⟩ "" false [] = .pass := by decide
-- unregistered path / method.
example : decide demoWorld basicCfg "GET" ['/', 'n', 'o', 'p', 'e'] ⟨"", "", .absent⟩ "" false [] = .d404 := by decide
example : decide demoWorld basicCfg "PUT" ['/', 'q', 'u', 'e', 'r', 'y'] ⟨"", "", .absent⟩ "" false [] = .d405 := by decide
-- the logkeeper API exists only for that product type.
example : decide demoWorld basicCfg "GET" ['/', 'a', 'p', 'i', '/', 'v', '1', '/', 'r', 'e', 'p', 'o', 's', 'i', 't', 'o', 'r', 'y'] ⟨"", "", .absent⟩ "" false [] = .d404 := by decide
example : decide demoWorld ⟨true, false, true, false⟩ "GET" ['/', 'a', 'p', 'i', '/', 'v', '1', '/', 'r', 'e', 'p', 'o', 's', 'i', 't', 'o', 'r', 'y'] ⟨"", "", .absent⟩ "" false [] = .d401 := by decide

end OG.C19
