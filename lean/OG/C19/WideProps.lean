/-
C19 — theorems about the rest of the front door (Wide.lean).

Part 6  lib/httpserver.Authenticate (ts-meta, ts-store): every endpoint of the two handlers is
        answered through the wrapper; the wrapper reaches the handler only for a request whose
        password credentials identify a user; no arm reports an error and goes on.
Part 7  the password cache: `Client.Authenticate` accepts (name, password) only if the password
        is the user's *current* one, whatever was cached before the catalogue changed.
Part 8  the zero-user bootstrap rule: only a query that starts with CREATE USER … WITH ALL
        PRIVILEGES passes; the rest of such a query is not looked at (full statement false,
        outside the property's hypothesis — an administrator exists — and recorded as such).
Part 9  bearer tokens: a token reaches the handler only if it is HMAC-signed with the server's
        non-empty shared secret, unexpired, already valid, and names an existing user.
-/
import OG.C19.Wide
import OG.C19.Props

set_option maxRecDepth 100000
namespace OG.C19
open OG.Gen.C19 (RouteFact routes plainAuthDefaultFallsThrough authCacheChecksBase PlainEndpoint metaEndpoints storeEndpoints
  extraFlows DbFlow)

/-! ## Part 6 — lib/httpserver.Authenticate -/

/-- every arm of the two endpoint switches answers through `WrapHandler` and nothing else. -/
theorem plain_endpoints_all_wrapped : (metaEndpoints ++ storeEndpoints).all (·.wrapped) = true := by decide

example : metaEndpoints.length = 15 ∧ storeEndpoints.length = 1 := by decide

/-- no arm of the wrapper writes an error and then runs the handler. -/
theorem authenticatePlain_no_fallthrough (w : World) (r : Req) (s : Nat) :
    authenticatePlain w r ≠ .denyThenInner s := by
  have hf : plainAuthDefaultFallsThrough = false := by rfl
  unfold authenticatePlain
  split
  · simp
  · split
    · simp
    · split
      · simp
      · split
        · split
          · simp
          · split <;> simp
        · simp [hf]

/-- **soundness**: with authentication on and an administrator present the wrapped handler runs
only for a request whose name/password pair (URL pair, Basic header or `Token name:password`)
is an existing user's. A bearer token never gets through. -/
theorem authenticatePlain_sound (w : World) (r : Req)
    (ha : w.authEnabled = true) (hadm : w.adminExists = true)
    (h : authenticatePlain w r = .inner) :
    ∃ u, w.findUser u.name = some u ∧ u.name ≠ "" ∧ r.passwordPair = some (u.name, u.password) := by
  have hf : plainAuthDefaultFallsThrough = false := by rfl
  unfold authenticatePlain at h
  simp only [ha, hadm, Bool.not_true, Bool.false_eq_true, ↓reduceIte] at h
  split at h
  · cases h
  · rename_i c hc
    split at h
    · rename_i hm
      -- the password arm: same reasoning as `authenticate_sound`
      have hinner : authUser w c.user c.pass = .inner (w.metaAuthenticate c.user c.pass) ∨ True := Or.inr trivial
      clear hinner
      split at h
      · cases h
      · rename_i hne
        split at h
        · rename_i u hu
          have hau : authUser w c.user c.pass = .inner (some u) := by
            unfold authUser; simp [hne, hu]
          obtain ⟨u', hu', hf', hn', hname, hpw⟩ := authUser_sound w _ _ _ hau
          cases hu'
          refine ⟨u, hf', hn', ?_⟩
          -- the pair the server looked at is the request's password pair
          unfold parseCredentials at hc
          split at hc
          · rename_i hurl
            cases hc
            simp [Req.passwordPair, hurl, hname, hpw]
          · rename_i hurl
            split at hc
            · cases hc
            · cases hc; simp at hm
            · rename_i s hh
              split at hc
              · rename_i tu tp hs
                cases hc
                simp [Req.passwordPair, hurl, hh, hs, hname, hpw]
              · cases hc
            · rename_i bu bp hh
              cases hc
              simp [Req.passwordPair, hurl, hh, hname, hpw]
            · cases hc
        · cases h
    · simp [hf] at h

/-- a bearer token is refused by this wrapper, and the handler does not run. -/
theorem authenticatePlain_denies_bearer (w : World) (t : Jwt)
    (ha : w.authEnabled = true) (hadm : w.adminExists = true) :
    authenticatePlain w ⟨"", "", .bearer t⟩ = .deny 401 := by
  have hf : plainAuthDefaultFallsThrough = false := by rfl
  unfold authenticatePlain
  simp [ha, hadm, parseCredentials, hf]

/-- **ts-meta**: with its authentication on and an administrator present, a request whose
name/password pair is no existing user's (no credentials, wrong password, any bearer token …)
runs no endpoint handler, whatever the method and path. -/
theorem meta_no_action_without_credentials (w : World) (method path : String) (req : Req)
    (ha : w.authEnabled = true) (hadm : w.adminExists = true)
    (hno : ∀ u, ¬ (w.findUser u.name = some u ∧ u.name ≠ "" ∧ req.passwordPair = some (u.name, u.password))) :
    decideMeta w method path req = .d401 ∨ decideMeta w method path req = .noRoute := by
  unfold decideMeta
  cases hf : metaEndpoints.find? (fun e => e.method = method && e.path = path) with
  | none => exact Or.inr rfl
  | some e =>
    have hw : e.wrapped = true := by
      have hall := plain_endpoints_all_wrapped
      rw [List.all_eq_true] at hall
      exact hall e (List.mem_append_left _ (List.mem_of_find?_eq_some hf))
    simp only [hw, if_true]
    cases hp : authenticatePlain w req with
    | deny s => exact Or.inl rfl
    | inner =>
      obtain ⟨u, h1, h2, h3⟩ := authenticatePlain_sound w req ha hadm hp
      exact absurd ⟨h1, h2, h3⟩ (hno u)
    | denyThenInner s => exact absurd hp (authenticatePlain_no_fallthrough w req s)

example : decideMeta demoWorld "POST" "/takeover" ⟨"", "", .absent⟩ = .d401 := by decide
example : decideMeta demoWorld "POST" "/takeover" ⟨"", "", .bearer ⟨true, true, .name "root"⟩⟩ = .d401 := by decide
example : decideMeta demoWorld "POST" "/takeover" ⟨"", "", .basic "ro" "p"⟩ = .reached := by decide   -- any user: no authorization there
example : decideMeta demoWorld "GET" "/takeover" ⟨"", "", .basic "ro" "p"⟩ = .noRoute := by decide

example : authenticatePlain demoWorld ⟨"", "", .basic "ro" "p"⟩ = .inner := by decide
example : authenticatePlain demoWorld ⟨"", "", .basic "ro" "x"⟩ = .deny 401 := by decide
example : authenticatePlain demoWorld ⟨"", "", .absent⟩ = .deny 401 := by decide
example : authenticatePlain demoWorld ⟨"", "", .bearer ⟨true, true, .name "root"⟩⟩ = .deny 401 := by decide

/-! ## Part 7 — the password cache -/

/-- every cached entry was verified: its password is the one its base hash stands for. -/
def CacheOk (c : AuthCache) : Prop := ∀ e ∈ c, e.base = e.pw

theorem cacheOk_nil : CacheOk [] := by intro e he; cases he

/-- **`auth_cache_sound`** — whatever the cache holds from before (entries made against
passwords that have since been changed, users dropped and re-created …), `Client.Authenticate`
accepts a name/password pair only if the password is the user's current one; and the cache
stays well-formed. -/
theorem auth_cache_sound (w : World) (c c' : AuthCache) (name pass : String) (u : User)
    (hc : CacheOk c) (h : authCached authCacheChecksBase w c name pass = (some u, c')) :
    w.findUser name = some u ∧ u.password = pass ∧ CacheOk c' := by
  have hb : authCacheChecksBase = true := by rfl
  rw [hb] at h
  unfold authCached at h
  split at h
  · cases h
  · rename_i u0 hu0
    cases hh : cacheHit true c name pass u0.password with
    | true =>
      simp only [hh, if_true] at h
      cases h
      refine ⟨hu0, ?_, hc⟩
      unfold cacheHit at hh
      split at hh
      · rename_i e he
        simp only [Bool.not_true, Bool.false_or, Bool.and_eq_true, decide_eq_true_eq] at hh
        have hem : e ∈ c := List.mem_of_find?_eq_some he
        rw [← hh.2, hc e hem, hh.1]
      · cases hh
    | false =>
      simp only [hh, Bool.false_eq_true, if_false] at h
      by_cases hpw : u0.password = pass
      · simp only [hpw, if_true] at h
        cases h
        refine ⟨hu0, hpw, ?_⟩
        intro e he
        rcases List.mem_cons.mp he with rfl | hm
        · rfl
        · exact hc e hm
      · simp [hpw] at h

/-- completeness: the current password is always accepted. -/
theorem auth_cache_accepts_current (w : World) (c : AuthCache) (name : String) (u : User)
    (hu : w.findUser name = some u) :
    (authCached authCacheChecksBase w c name u.password).1 = some u := by
  unfold authCached
  simp only [hu]
  split
  · rfl
  · simp

/-- what goes wrong without the base check (`checksBase = false`, the code before the repair):
after a password change the old password is still accepted from the cache. -/
example :
    let w1 : World := ⟨true, false, [⟨"ro", "old", false, false, []⟩]⟩
    let c1 := (authCached false w1 [] "ro" "old").2
    (authCached false (w1.setPassword "ro" "new") c1 "ro" "old").1.isSome = true
    ∧ (authCached true (w1.setPassword "ro" "new") c1 "ro" "old").1.isSome = false := by decide

/-! ## Part 8 — the zero-user bootstrap rule -/

/-- with no user in the catalogue a request passes the query gate only if its query *starts*
with `CREATE USER … WITH ALL PRIVILEGES`. -/
theorem bootstrap_first_is_create_admin (w : World) (c : Cfg) (method : String) (path : List Char) (req : Req)
    (db : String) (dbx : Bool) (q : List Stmt) (rt : RouteFact)
    (ha : w.authEnabled = true) (h0 : w.users = [])
    (hd : dispatch c method path = .route rt) (hsig : rt.sig = "user") (hm : method ≠ "OPTIONS")
    (hg : (routeGates rt).contains "query" = true)
    (hp : decideBoot w c method path req db dbx q = .pass) :
    ∃ s rest, q = s :: rest ∧ s.isCreateAdmin = true := by
  unfold decideBoot at hp
  simp only [hd, hm, hsig, ha, h0, hg, ne_eq, not_false_eq_true, decide_true, Bool.and_self, List.isEmpty_nil, ↓reduceIte,
    List.length_nil, authorizeQueryBoot] at hp
  cases q with
  | nil => simp at hp; split at hp <;> cases hp
  | cons s rest =>
    refine ⟨s, rest, rfl, ?_⟩
    cases hs : s.isCreateAdmin with
    | true => rfl
    | false => simp [hs] at hp; split at hp <;> cases hp

/-- **the full statement** one would like — in the bootstrap state nothing but the creation of the
administrator is let through — is false: the rule looks at the first statement only. -/
def bootstrap_only_creates_admin_full : Prop :=
  ∀ (q : List Stmt), decideBoot ⟨true, false, []⟩ basicCfg "POST" ['/', 'q', 'u', 'e', 'r', 'y'] ⟨"", "", .absent⟩ "" false q = .pass →
    ∀ s ∈ q, s.isCreateAdmin = true

def createAdminStmt : Stmt := ⟨"CreateUserStatement", "admin", [⟨true, "", false, .all⟩]⟩
def dropDbStmt : Stmt := ⟨"DropDatabaseStatement", "db0", [⟨true, "", true, .all⟩]⟩

theorem bootstrap_only_creates_admin_false : ¬ bootstrap_only_creates_admin_full := by
  intro h
  have := h [createAdminStmt, dropDbStmt] (by decide) dropDbStmt (by simp)
  revert this; decide

/-- **partial**: for single-statement queries it holds. -/
theorem bootstrap_only_creates_admin_partial (s : Stmt)
    (h : decideBoot ⟨true, false, []⟩ basicCfg "POST" ['/', 'q', 'u', 'e', 'r', 'y'] ⟨"", "", .absent⟩ "" false [s] = .pass) :
    s.isCreateAdmin = true := by
  obtain ⟨s', rest, hq, hs⟩ := bootstrap_first_is_create_admin ⟨true, false, []⟩ basicCfg "POST" _ _ "" false [s]
    ⟨"lib/util/lifted/influx/httpd/handler.go:AddInfluxDBAPIRoutes", "", "query", "POST", "/query", "true", "true", "serveQuery", "user",
      ["query"], "AddInfluxDBAPIRoutes", false, ['/', 'q', 'u', 'e', 'r', 'y']⟩ rfl rfl (by decide) (by decide) (by decide) (by decide) h
  cases hq; exact hs

-- everything else is refused while no user exists
example : decideBoot ⟨true, false, []⟩ basicCfg "GET" ['/', 'q', 'u', 'e', 'r', 'y'] ⟨"", "", .absent⟩ "db0" true readStmt = .d403 := by decide
example : decideBoot ⟨true, false, []⟩ basicCfg "POST" ['/', 'w', 'r', 'i', 't', 'e'] ⟨"", "", .absent⟩ "db0" true [] = .d403 := by decide
example : decideBoot ⟨true, false, []⟩ basicCfg "POST" ['/', 'd', 'e', 'b', 'u', 'g', '/', 'c', 't', 'r', 'l'] ⟨"", "", .absent⟩ "" false [] = .d403 := by decide

/-! ## Part 9 — bearer tokens -/

/-- **`bearer_needs_signed_unexpired`** — through the bearer arm the handler is reached only with a
token that is HMAC-signed (never `alg: none`, never an asymmetric method) with the server's
shared secret, which must be set; whose `exp` lies in the future and whose `nbf` does not; and
that names an existing user — who is the user handed over. -/
theorem bearer_needs_signed_unexpired (w : World) (t : JwtTok) (ou : Option User)
    (h : authBearer w (t.abstract w.sharedSecret) = .inner ou) :
    w.sharedSecret = true ∧ t.alg.isHmac = true ∧ t.key = .server ∧ t.exp = .future ∧ t.nbf ≠ .future ∧
      ∃ u, ou = some u ∧ w.findUser u.name = some u ∧ u.name ≠ "" ∧ t.user = .name u.name := by
  obtain ⟨u, hou, hf, hne, hs, hp, he, hu⟩ := authBearer_sound w _ ou h
  have hp' : (t.alg.isHmac && (match t.key with | .server => true | .empty => !w.sharedSecret | .wrong => false)
      && ((t.exp == .future || t.exp == .missing || t.exp == .zero) && t.nbf != .future)) = true := hp
  have he' : (t.exp == .future) = true := he
  simp only [Bool.and_eq_true] at hp'
  obtain ⟨⟨halg, hkey⟩, _, hnbf⟩ := hp'
  refine ⟨hs, halg, ?_, by simpa using he', by simpa using hnbf, u, hou, hf, hne, hu⟩
  cases hk : t.key with
  | server => rfl
  | empty => rw [hk, hs] at hkey; cases hkey
  | wrong => rw [hk] at hkey; cases hkey

/-- completeness: a well-made token of an existing user is accepted. -/
theorem bearer_accepts_good (w : World) (u : User) (alg : JwtAlg)
    (hs : w.sharedSecret = true) (hu : w.findUser u.name = some u) (hn : u.name ≠ "") (halg : alg.isHmac = true) (nbf : JwtNbf) (hnbf : nbf ≠ .future) :
    authBearer w ((⟨alg, .server, .future, nbf, .name u.name⟩ : JwtTok).abstract w.sharedSecret) = .inner (some u) := by
  cases nbf <;> simp_all [authBearer, JwtTok.abstract]

example : authBearer demoWorld ((⟨.none, .server, .future, .absent, .name "root"⟩ : JwtTok).abstract true) = .deny 401 := by decide
example : authBearer demoWorld ((⟨.hs256, .server, .past, .absent, .name "root"⟩ : JwtTok).abstract true) = .deny 401 := by decide
example : authBearer demoWorld ((⟨.hs256, .server, .zero, .absent, .name "root"⟩ : JwtTok).abstract true) = .deny 401 := by decide
example : authBearer demoWorld ((⟨.hs256, .empty, .future, .absent, .name "root"⟩ : JwtTok).abstract true) = .deny 401 := by decide
example : authBearer { demoWorld with sharedSecret := false } ((⟨.hs256, .empty, .future, .absent, .name "root"⟩ : JwtTok).abstract false) = .deny 401 := by decide
example : authBearer demoWorld ((⟨.rs256, .server, .future, .absent, .name "root"⟩ : JwtTok).abstract true) = .deny 401 := by decide
example : authBearer demoWorld ((⟨.hs512, .server, .future, .past, .name "wo"⟩ : JwtTok).abstract true)
    = .inner (some ⟨"wo", "q", false, false, [("db0", .write)]⟩) := by decide

/-! ## the arrow flight handshake -/

/-- a token is issued only to a name/password pair `Client.Authenticate` accepts — with
`auth_cache_sound`: the user's current password. -/
theorem flight_issues_only_authenticated (w : World) (c c' : AuthCache) (st st' : FlightSt) (name pass : String) (i : Nat)
    (hc : CacheOk c) (he : st.enabled = true)
    (h : flightAuth authCacheChecksBase w c st name pass = (.token i, st', c')) :
    ∃ u, w.findUser name = some u ∧ u.password = pass ∧ st'.issued = st.issued ++ [name] ∧ i = st.issued.length := by
  unfold flightAuth at h
  simp only [he, Bool.not_true, Bool.false_eq_true, if_false] at h
  cases hau : authCached authCacheChecksBase w c name pass with
  | mk ou c2 =>
    rw [hau] at h
    cases ou with
    | none => simp at h
    | some u =>
      simp only [Prod.mk.injEq, FlightAuthAns.token.injEq] at h
      obtain ⟨hi, hst, _⟩ := h
      obtain ⟨hf, hp, _⟩ := auth_cache_sound w c c2 name pass u hc hau
      exact ⟨u, hf, hp, by rw [← hst], hi.symm⟩

/-- with flight authentication on, a token is valid only if it was issued, and for the user it
was issued to; no other text (empty, garbage, the "success" constant of the open mode) is. -/
theorem flight_valid_only_issued (st : FlightSt) (tok : Option Nat) (n : String)
    (he : st.enabled = true) (h : flightValid st tok = some n) : ∃ i, tok = some i ∧ st.issued[i]? = some n := by
  unfold flightValid at h
  simp only [he, Bool.not_true, Bool.false_eq_true, if_false] at h
  cases tok with
  | none => cases h
  | some i => exact ⟨i, rfl, h⟩

example : (flightAuth true demoWorld [] ⟨true, []⟩ "ro" "p").1 = .token 0 := by decide
example : (flightAuth true demoWorld [] ⟨true, []⟩ "ro" "x").1 = .denied := by decide
example : flightValid ⟨true, ["ro"]⟩ (some 0) = some "ro" ∧ flightValid ⟨true, ["ro"]⟩ none = none
    ∧ flightValid ⟨true, ["ro"]⟩ (some 1) = none := by decide

/-! ## registration switches -/

def allCfgs : List Cfg :=
  [false, true].flatMap fun a => [false, true].flatMap fun b => [false, true].flatMap fun c => [false, true].map fun d => ⟨a, b, c, d⟩

/-- no registration is dead: every Route literal is live under some combination of the switches
(product type, flux-enabled, pprof-enabled, runtime-config), and `routeLive` understands every
condition the extractor found (an unknown condition would make the literal live nowhere). -/
theorem routes_live_somewhere : ∀ r ∈ routes, allCfgs.any (fun c => routeLive c r) = true := by decide +kernel

/-- … and under every combination every live registration is guarded or listed (this is
`all_routes_guarded_partial`, which quantifies over the whole table, restated per configuration). -/
theorem live_routes_guarded (c : Cfg) : ∀ r ∈ routes.filter (routeLive c),
    knownOpen.contains (r.method, r.pattern) = false →
    (Endpoint.guarded ⟨r.method, r.pattern, r.handler, r.cond, r.sig == "user", shadowed r⟩) = true := by
  intro r hr hk
  have hm : r ∈ routes := (List.mem_filter.mp hr).1
  exact all_routes_guarded_partial _ (by unfold endpoints; exact List.mem_append_left _ (List.mem_map.mpr ⟨r, hm, rfl⟩)) hk

/-! ## the entry points that are not routes -/

/-- Handler.HandleQuery (arrow flight DoGet), the flight service's DoPut and the record-write gRPC
service's Write authorize the database they act on: same alignment as for the routes. -/
theorem extraFlows_aligned : ∀ f ∈ extraFlows, flowAligned f = true := by decide

example : (extraFlows.filter (fun f => (authzEnd f).isSome && (execEnd f).isSome)).map (·.handler)
    = ["HandleQuery", "arrowflight.flightServer.DoPut", "writer.Service.Write"] := by decide

end OG.C19
