/-
C19 — the database that is authorized is the database that is acted on.

`dbFlows` (regenerated from the handler source) names, for every wrapped handler, the request
expression that feeds the privilege check and the request expression that feeds the execution
options / the writer. Part 5 proves that for every request — any method, any content type, any
placement and duplication of parameters between URL and body — both evaluate to the same
database (`authz_db_is_exec_db`), because they are the same expression; that for the
request-parameter expressions sameness of expression is also *necessary* (`paramSrc_equiv_iff`:
two different parameter reads are told apart by some request, e.g. `FormValue "db"` and
`URL.Query().Get "db"` by a POST whose form body repeats `db`); and, on top of the
conjunction theorems of Props.lean, the end-to-end statements `no_exec_without_privilege` /
`no_write_without_privilege`: whatever database a passed request acts on, the user the
credentials identify holds every privilege the statements need on it.
-/
import OG.C19.Flow
import OG.C19.Props

set_option maxRecDepth 100000
namespace OG.C19
open OG.Gen.C19 (RouteFact routes Src FlowEnd DbFlow dbFlows)

/-! ## Part 5a — parameter resolution -/

theorem firstOf_append (k : String) (a b : List (String × String)) :
    firstOf k (a ++ b) = if a.any (fun p => p.1 = k) then firstOf k a else firstOf k b := by
  induction a with
  | nil => simp
  | cons x xs ih =>
    obtain ⟨k', v⟩ := x
    by_cases h : k' = k
    · simp [firstOf, h]
    · simp only [List.cons_append, firstOf, h, ↓reduceIte, List.any_cons, decide_false, Bool.false_or]
      exact ih

theorem firstOf_absent (k : String) (l : List (String × String)) (h : l.any (fun p => p.1 = k) = false) :
    firstOf k l = "" := by
  induction l with
  | nil => rfl
  | cons x xs ih =>
    obtain ⟨k', v⟩ := x
    simp only [List.any_cons, Bool.or_eq_false_iff, decide_eq_false_iff_not] at h
    simp [firstOf, h.1, ih h.2]

/-- when the body does not carry the key (or is not parsed at all), `FormValue` and the URL
agree — why requests that carry a parameter in one place only never tell the two reads apart. -/
theorem formValue_eq_urlGet_of_body_silent (r : HttpReq) (k : String)
    (h : r.body.any (fun p => p.1 = k) = false) : r.formValue k = r.urlGet k := by
  unfold HttpReq.formValue HttpReq.urlGet HttpReq.form
  cases r.ctype with
  | none => rfl
  | other => rfl
  | urlencoded =>
    by_cases hm : parsesBody r.method = true
    · simp only [hm, if_true]; rw [firstOf_append, h]; simp
    · simp [hm]
  | multipart =>
    simp only []
    rw [firstOf_append]
    cases hu : r.url.any (fun p => p.1 = k) with
    | true => simp
    | false => simp [firstOf_absent k r.body h, firstOf_absent k r.url hu]

/-- GET requests with a urlencoded body: the body is not parsed. -/
theorem formValue_get (r : HttpReq) (k : String) (hm : parsesBody r.method = false) (hc : r.ctype ≠ .multipart) :
    r.formValue k = r.urlGet k := by
  unfold HttpReq.formValue HttpReq.urlGet HttpReq.form
  cases h : r.ctype with
  | none => rfl
  | other => rfl
  | urlencoded => simp [hm]
  | multipart => exact absurd h hc

/-- the request of the seeded scenario: POST, form content type, `db=A` in the URL, `db=B` in the body. -/
def splitReq (k a b : String) : HttpReq := ⟨"POST", .urlencoded, [(k, a)], [(k, b)], [], .absent⟩

/-- `FormValue` takes the body's value, the URL read takes the URL's. -/
theorem formValue_urlGet_split (k a b : String) :
    (splitReq k a b).formValue k = b ∧ (splitReq k a b).urlGet k = a := by
  simp [splitReq, HttpReq.formValue, HttpReq.urlGet, HttpReq.form, parsesBody, firstOf]

/-- with a multipart body it is the other way round: the URL's value wins in `FormValue`. -/
theorem formValue_multipart_url_first (m k a b : String) :
    (⟨m, .multipart, [(k, a)], [(k, b)], [], .absent⟩ : HttpReq).formValue k = a := by
  simp [HttpReq.formValue, HttpReq.form, firstOf]

/-- the body's u / p never reach `ParseCredentials`. -/
theorem creds_ignore_body (r : HttpReq) (b : List (String × String)) :
    ({ r with body := b } : HttpReq).creds = r.creds := rfl

/-- the request-parameter reads. -/
def _root_.OG.Gen.C19.Src.isParam : Src → Bool
  | .formValue _ | .urlGet _ | .postFormValue _ => true
  | _ => false

/-- a request on which exactly the URL carries `k`. -/
def urlOnly (k v : String) : HttpReq := ⟨"GET", .none, [(k, v)], [], [], .absent⟩
/-- a request on which exactly a parsed urlencoded body carries `k`. -/
def bodyOnly (k v : String) : HttpReq := ⟨"POST", .urlencoded, [], [(k, v)], [], .absent⟩

theorem urlOnly_eval (ι : Interp) (k v k' : String) :
    (Src.formValue k').eval ι (urlOnly k v) = (if k = k' then v else "") ∧
    (Src.urlGet k').eval ι (urlOnly k v) = (if k = k' then v else "") ∧
    (Src.postFormValue k').eval ι (urlOnly k v) = "" := by
  by_cases h : k = k' <;>
    simp [Src.eval, urlOnly, HttpReq.formValue, HttpReq.urlGet, HttpReq.postFormValue, HttpReq.form, HttpReq.postForm, firstOf, h]

theorem bodyOnly_eval (ι : Interp) (k v k' : String) :
    (Src.formValue k').eval ι (bodyOnly k v) = (if k = k' then v else "") ∧
    (Src.urlGet k').eval ι (bodyOnly k v) = "" ∧
    (Src.postFormValue k').eval ι (bodyOnly k v) = (if k = k' then v else "") := by
  by_cases h : k = k' <;>
    simp [Src.eval, bodyOnly, HttpReq.formValue, HttpReq.urlGet, HttpReq.postFormValue, HttpReq.form, HttpReq.postForm, firstOf, parsesBody, h]

/-- **for parameter reads, "same expression" is exactly "same value on every request"**: two
different reads (other key, or other place) are told apart by a request that carries the key in
the URL only, or in the body only. The syntactic criterion `flowAligned` is therefore not
stricter than the semantic one on the expressions the handlers use. -/
theorem paramSrc_equiv_iff (ι : Interp) (a b : Src) (ha : a.isParam = true) (hb : b.isParam = true) :
    (∀ r : HttpReq, a.eval ι r = b.eval ι r) ↔ a = b := by
  constructor
  · intro h
    cases a <;> simp [Src.isParam] at ha <;> cases b <;> simp [Src.isParam] at hb
    all_goals rename_i k k'
    -- same constructor: the keys must agree; different constructor: refuted outright
    · -- formValue / formValue
      have := h (urlOnly k "x")
      rw [(urlOnly_eval ι k "x" k).1, (urlOnly_eval ι k "x" k').1] at this
      by_cases hk : k = k'
      · rw [hk]
      · simp [hk] at this
    · -- formValue / urlGet
      have := h (bodyOnly k "x")
      rw [(bodyOnly_eval ι k "x" k).1, (bodyOnly_eval ι k "x" k').2.1] at this
      simp at this
    · -- formValue / postFormValue
      have := h (urlOnly k "x")
      rw [(urlOnly_eval ι k "x" k).1, (urlOnly_eval ι k "x" k').2.2] at this
      simp at this
    · -- urlGet / formValue
      have := h (bodyOnly k' "x")
      rw [(bodyOnly_eval ι k' "x" k).2.1, (bodyOnly_eval ι k' "x" k').1] at this
      simp at this
    · -- urlGet / urlGet
      have := h (urlOnly k "x")
      rw [(urlOnly_eval ι k "x" k).2.1, (urlOnly_eval ι k "x" k').2.1] at this
      by_cases hk : k = k'
      · rw [hk]
      · simp [hk] at this
    · -- urlGet / postFormValue
      have := h (urlOnly k "x")
      rw [(urlOnly_eval ι k "x" k).2.1, (urlOnly_eval ι k "x" k').2.2] at this
      simp at this
    · -- postFormValue / formValue
      have := h (urlOnly k' "x")
      rw [(urlOnly_eval ι k' "x" k).2.2, (urlOnly_eval ι k' "x" k').1] at this
      simp at this
    · -- postFormValue / urlGet
      have := h (urlOnly k' "x")
      rw [(urlOnly_eval ι k' "x" k).2.2, (urlOnly_eval ι k' "x" k').2.1] at this
      simp at this
    · -- postFormValue / postFormValue
      have := h (bodyOnly k "x")
      rw [(bodyOnly_eval ι k "x" k).2.2, (bodyOnly_eval ι k "x" k').2.2] at this
      by_cases hk : k = k'
      · rw [hk]
      · simp [hk] at this
  · intro h r; rw [h]

/-! ## Part 5b — the regenerated flows -/

/-- table: in every handler, every acting end that is a request expression is the *same*
expression as the matching end of the privilege check (database with database, query with query). -/
theorem dbFlows_aligned : ∀ f ∈ dbFlows, flowAligned f = true := by decide

/-- **`authz_db_is_exec_db`** — for every wrapped handler and every request (any method and
content type, any placement, order and duplication of parameters in URL and body, any meaning
of the helper functions): the database handed to the executor / the writer is the database the
privilege check was made for, and the query that is executed is the query that was authorized. -/
theorem authz_db_is_exec_db (ι : Interp) (r : HttpReq) :
    ∀ f ∈ dbFlows, ∀ a ∈ f.authz, ∀ s ∈ f.exec, a.what = s.what → s.src.isCallback = false →
      a.src.eval ι r = s.src.eval ι r := by
  intro f hf a ha s hs hw hc
  have hal := dbFlows_aligned f hf
  unfold flowAligned at hal
  rw [List.all_eq_true] at hal
  have h1 := hal s hs
  rw [hc, Bool.false_or, List.all_eq_true] at h1
  have h2 := h1 a ha
  simp only [Bool.or_eq_true, bne_iff_ne, ne_eq, beq_iff_eq] at h2
  rcases h2 with h2 | h2
  · exact absurd hw h2
  · rw [h2]

/-- an acting end that is the parameter of a callback (serveWrite's unmarshal callback is
called with `uw.Db`) always comes with the `uw.Db` end, which `dbFlows_aligned` covers. -/
theorem callback_sinks_fed :
    ∀ f ∈ dbFlows, ∀ s ∈ f.exec, s.src.isCallback = true → ∃ s' ∈ f.exec, s'.kind = "uw.Db" ∧ s'.what = s.what := by
  decide

/-- handlers that authorize a database and then act on nothing that carries one (the fence
API keeps one process-wide fence table): the alignment statement is empty for them. -/
def noDbSink : List String := ["batchFenceMatch", "fenceDelete"]

/-- every route whose handler reaches a database authorizer has a flow with the authorized
database, and — outside `noDbSink` — an acting end for it. -/
theorem gated_routes_have_flow :
    ∀ r ∈ routes, r.sig = "user" → (r.authz.contains "query" || r.authz.contains "write" || r.authz.contains "write@db") = true →
      ∃ f, flowOf r.handler = some f ∧ (authzEnd f).isSome = true ∧
        (noDbSink.contains r.handler = false → (execEnd f).isSome = true) := by
  decide

/-- non-vacuity of `authz_db_is_exec_db`: 27 handlers have both ends for the database, and the
ends are not all one expression. -/
example : (dbFlows.filter (fun f => (authzEnd f).isSome && (execEnd f).isSome)).length = 27 := by decide
example : ((dbFlows.filterMap authzEnd).map (·.src)).eraseDups =
    [.formValue "db", .urlGet "db", .app1 "bucket2dbrp" 0 (.urlGet "bucket"),
     .opaque "opaque:h.SQLConfig.Monitor.StoreDatabase", .app0 "getDbRpByProm" 0, .pathVar "repository"] := by decide

/-- a misaligned flow (the seeded shape: check on the URL's `db`, execute on `FormValue "db"`)
is rejected by `flowAligned`, and a request exists on which the two ends differ. -/
def misaligned : DbFlow :=
  ⟨"serveQuery", [⟨"db", "query", "checkAuthorization", .urlGet "db"⟩], [⟨"db", "ExecutionOptions.Database", "serveQuery", .formValue "db"⟩]⟩
example : flowAligned misaligned = false := by decide
example : (Src.urlGet "db").eval stdInterp (splitReq "db" "A" "B") = "A"
    ∧ (Src.formValue "db").eval stdInterp (splitReq "db" "A" "B") = "B" := by
  simp [Src.eval, formValue_urlGet_split]

/-! ## Part 5c — end to end -/

theorem muxFind_mem (method : String) (path : List Char) (l : List RouteFact) (b : Bool) (rt : RouteFact)
    (h : muxFind method path l b = .route rt) : rt ∈ l := by
  induction l generalizing b with
  | nil => unfold muxFind at h; split at h <;> cases h
  | cons x xs ih =>
    unfold muxFind at h
    split at h
    · split at h
      · cases h; exact List.mem_cons_self
      · exact List.mem_cons_of_mem _ (ih _ h)
    · exact List.mem_cons_of_mem _ (ih _ h)

theorem dispatch_mem (c : Cfg) (method : String) (path : List Char) (rt : RouteFact)
    (h : dispatch c method path = .route rt) : rt ∈ routes := by
  unfold dispatch at h
  split at h
  · cases h
  · exact (List.mem_filter.mp (muxFind_mem _ _ _ _ _ h)).1

/-- a wrapped route's decision is `pass` only through `authenticate` handing over a user and the
handler's gate passing. -/
theorem decide_pass_inv (w : World) (c : Cfg) (method : String) (path : List Char) (req : Req) (db : String)
    (dbx : Bool) (q : List Stmt) (rt : RouteFact)
    (hd : dispatch c method path = .route rt) (hsig : rt.sig = "user") (hm : method ≠ "OPTIONS")
    (hp : decide w c method path req db dbx q = .pass) :
    ∃ ou, authenticate w req = .inner ou ∧ gate w rt ou db dbx q = .pass := by
  unfold decide at hp
  simp [hd, hm, hsig] at hp
  split at hp
  · cases hp
  · rename_i u hu; exact ⟨u, hu, hp⟩
  · rename_i s hs; exact absurd hs (authenticate_no_fallthrough w req s)

/-- what it means that user `u` may have statement list `q` executed with default database `x`:
`u` is an administrator (or the rwuser role, which the property's credential classes do not
include), or holds every privilege every statement requires — on the database the
requirement names, or else on `x`. -/
def Covered (u : User) (x : String) (q : List Stmt) : Prop :=
  u.admin = true ∨ u.rwuser = true ∨ ∀ s ∈ q, ∀ p ∈ s.privs, privOk u x p = true

theorem covered_of_authorizeQuery (u : User) (x : String) (q : List Stmt)
    (h : u.authorizeQuery x q = true) : Covered u x q := by
  cases ha : u.admin with
  | true => exact Or.inl ha
  | false =>
    cases hr : u.rwuser with
    | true => exact Or.inr (Or.inl hr)
    | false => exact Or.inr (Or.inr ((authorizeQuery_iff u ha hr x q).mp h))

/-- **`no_exec_without_privilege`** — with authentication on and an administrator present, if a
request to a wrapped route whose handler has the query gate is answered past the gate and the
handler acts with database `x` (whatever the request's method, content type and parameter
placement), then the request's credentials identify a user `u` of the catalogue and `u` is
covered for the statements on `x`: no statement is executed against a database the user lacks
the statement's privilege on. -/
theorem no_exec_without_privilege (w : World) (c : Cfg) (ι : Interp) (req : HttpReq) (path : List Char)
    (dbs : List String) (q : List Stmt) (rt : RouteFact) (x : String)
    (ha : w.authEnabled = true) (hadm : w.adminExists = true)
    (hd : dispatch c req.method path = .route rt) (hsig : rt.sig = "user") (hm : req.method ≠ "OPTIONS")
    (hg : (routeGates rt).contains "query" = true)
    (hres : decideReq w c ι req path dbs (some q) = ⟨.pass, some x⟩) :
    ∃ u, Identifies w req.creds u ∧ Covered u x q := by
  unfold decideReq at hres
  simp only [hd] at hres
  cases hf : flowOf rt.handler with
  | none => simp [hf] at hres
  | some f =>
    simp only [hf] at hres
    cases hae : authzEnd f with
    | none => simp [hae] at hres
    | some a =>
      simp only [hae] at hres
      have hdec : decide w c req.method path req.creds (a.src.eval ι (viewOf rt req path))
          (dbs.contains (a.src.eval ι (viewOf rt req path))) q = .pass := by
        have := congrArg ReqOutcome.decision hres
        simpa using this
      have hact := congrArg ReqOutcome.actedOn hres
      simp only [hdec, if_true] at hact
      cases hee : execEnd f with
      | none => simp [hee] at hact
      | some s =>
        simp only [hee] at hact
        split at hact
        · -- x is the acting end's value
          have hx : s.src.eval ι (viewOf rt req path) = x := by
            simpa using hact
          -- alignment: the authorized database is x
          have hfm : f ∈ dbFlows := List.mem_of_find?_eq_some hf
          have ham : a ∈ f.authz := List.mem_of_find?_eq_some hae
          have hsm : s ∈ f.exec := List.mem_of_find?_eq_some hee
          have hawhat : a.what = "db" := by simpa using List.find?_some hae
          have hsp := List.find?_some hee
          simp only [Bool.and_eq_true, decide_eq_true_eq, Bool.not_eq_true'] at hsp
          have heq := authz_db_is_exec_db ι (viewOf rt req path) f hfm a ham s hsm
            (by rw [hawhat, hsp.1]) hsp.2
          rw [heq, hx] at hdec
          obtain ⟨ou, hauth, hgate⟩ := decide_pass_inv w c req.method path req.creds x _ q rt hd hsig hm hdec
          obtain ⟨u, rfl, hid⟩ := authenticate_sound w req.creds ou ha hadm hauth
          have hq := gate_query w rt (some u) x _ q ha hg hgate
          exact ⟨u, hid, covered_of_authorizeQuery u x q hq⟩
        · cases hact

/-- **`no_write_without_privilege`** — the same for the write handlers: whatever database a
passed write request has its points written to, the identified user's catalogue entry holds
WRITE (or ALL) on it. -/
theorem no_write_without_privilege (w : World) (c : Cfg) (ι : Interp) (req : HttpReq) (path : List Char)
    (dbs : List String) (q : List Stmt) (rt : RouteFact) (x : String)
    (ha : w.authEnabled = true) (hadm : w.adminExists = true)
    (hd : dispatch c req.method path = .route rt) (hsig : rt.sig = "user") (hm : req.method ≠ "OPTIONS")
    (hg : (routeGates rt).contains "write@db" = true) (hna : (routeGates rt).contains "admin" = false)
    (hnw : (routeGates rt).contains "write" = false)
    (hres : decideReq w c ι req path dbs (some q) = ⟨.pass, some x⟩) :
    ∃ u, Identifies w req.creds u ∧ w.authorizeWrite (some u) x = true ∧ dbs.contains x = true := by
  unfold decideReq at hres
  simp only [hd] at hres
  cases hf : flowOf rt.handler with
  | none => simp [hf] at hres
  | some f =>
    simp only [hf] at hres
    cases hae : authzEnd f with
    | none => simp [hae] at hres
    | some a =>
      simp only [hae] at hres
      have hdec : decide w c req.method path req.creds (a.src.eval ι (viewOf rt req path))
          (dbs.contains (a.src.eval ι (viewOf rt req path))) q = .pass := by
        have := congrArg ReqOutcome.decision hres
        simpa using this
      have hact := congrArg ReqOutcome.actedOn hres
      simp only [hdec, if_true] at hact
      cases hee : execEnd f with
      | none => simp [hee] at hact
      | some s =>
        simp only [hee] at hact
        split at hact
        · rename_i hacts
          have hx : s.src.eval ι (viewOf rt req path) = x := by
            simpa using hact
          have hfm : f ∈ dbFlows := List.mem_of_find?_eq_some hf
          have ham : a ∈ f.authz := List.mem_of_find?_eq_some hae
          have hsm : s ∈ f.exec := List.mem_of_find?_eq_some hee
          have hawhat : a.what = "db" := by simpa using List.find?_some hae
          have hsp := List.find?_some hee
          simp only [Bool.and_eq_true, decide_eq_true_eq, Bool.not_eq_true'] at hsp
          have heq := authz_db_is_exec_db ι (viewOf rt req path) f hfm a ham s hsm
            (by rw [hawhat, hsp.1]) hsp.2
          rw [heq, hx] at hdec
          rw [hx] at hacts
          have hdbx : dbs.contains x = true := by
            unfold acts at hacts
            simp only [hg, if_true, Bool.and_eq_true] at hacts
            exact hacts.1
          obtain ⟨ou, hauth, hgate⟩ := decide_pass_inv w c req.method path req.creds x _ q rt hd hsig hm hdec
          obtain ⟨u, rfl, hid⟩ := authenticate_sound w req.creds ou ha hadm hauth
          refine ⟨u, hid, ?_, hdbx⟩
          cases hw : w.authorizeWrite (some u) x with
          | true => rfl
          | false =>
            unfold gate at hgate
            simp only [ha, hg, hna, hnw, hw, hdbx, Bool.not_true, Bool.not_false, Bool.and_self, Bool.false_and,
              Bool.false_eq_true, if_false, if_true] at hgate
            first | cases hgate | (split at hgate <;> cases hgate)
        · cases hact

/-! ## end-to-end instances on the regenerated table (non-vacuity; the seeded request shape) -/

def qPath : List Char := ['/', 'q', 'u', 'e', 'r', 'y']
def roHdr : AuthHeader := .basic "ro" "p"
def dbs01 : List String := ["db0", "db1"]

-- POST /query?db=db0 with form body db=db1: the check and the execution both use db1 (FormValue),
-- the read-only user of db0 is refused …
example : decideReq demoWorld basicCfg stdInterp ⟨"POST", .urlencoded, [("db", "db0")], [("db", "db1")], [], roHdr⟩ qPath dbs01 (some readStmt)
    = ⟨.d403, none⟩ := by decide
-- … the other way round the request is served, on db0 (the body's value), which ro may read.
example : decideReq demoWorld basicCfg stdInterp ⟨"POST", .urlencoded, [("db", "db1")], [("db", "db0")], [], roHdr⟩ qPath dbs01 (some readStmt)
    = ⟨.pass, some "db0"⟩ := by decide
-- GET ignores a form body; multipart puts the URL first.
example : decideReq demoWorld basicCfg stdInterp ⟨"GET", .urlencoded, [("db", "db0")], [("db", "db1")], [], roHdr⟩ qPath dbs01 (some readStmt)
    = ⟨.pass, some "db0"⟩ := by decide
example : decideReq demoWorld basicCfg stdInterp ⟨"POST", .multipart, [("db", "db0")], [("db", "db1")], [], roHdr⟩ qPath dbs01 (some readStmt)
    = ⟨.pass, some "db0"⟩ := by decide
-- credentials in the body are not credentials.
example : decideReq demoWorld basicCfg stdInterp ⟨"POST", .urlencoded, [("db", "db0")], [("u", "ro"), ("p", "p")], [], .absent⟩ qPath dbs01 (some readStmt)
    = ⟨.d401, none⟩ := by decide
-- /write takes the database from the URL only.
example : decideReq demoWorld basicCfg stdInterp ⟨"POST", .none, [("db", "db0")], [], [], .basic "wo" "q"⟩ ['/', 'w', 'r', 'i', 't', 'e'] dbs01 (some [])
    = ⟨.pass, some "db0"⟩ := by decide
example : decideReq demoWorld basicCfg stdInterp ⟨"POST", .none, [("db", "db1"), ("db", "db0")], [], [], .basic "wo" "q"⟩ ['/', 'w', 'r', 'i', 't', 'e'] dbs01 (some [])
    = ⟨.d403, none⟩ := by decide

end OG.C19
