/-
C19 — line-protocol driver of the model (core only). State = the world (users, auth flags).

  world auth=<0|1> secret=<0|1>                                  → ok        (users reset)
  user <name> <pw> <admin> <rw> [<db>:<priv> …]                  → ok | dup
  grant <name> <db> <priv>                                       → ok | nouser   (revoke = priv 0)
  authz <name> <db> <priv>                                       → true | false | nouser
  aquery <name> <db> <stmts>                                     → ok | denied | nouser
  auth u=<s> p=<s> h=<hdr>                                       → deny <st> | inner <name|nil> | deny+inner <st>
  routes cfg=<lk><flux><pprof><ext>                              → sorted METHOD:pattern list of the live registrations
  route cfg=<lk><flux><pprof><ext> <METHOD> <path> db=<s> dbx=<database exists> u=<s> p=<s> h=<hdr> q=<stmts>
                                                                 → 401 fx=0 | 403 fx=0 | az fx=0 | 404 fx=0 | 405 fx=0 | pass | broken
  bb … (same fields as route; a live server: no side-effect flag)  → 401 | 403 | az | 404 | 405 | pass | broken
  preq cfg=<…> <METHOD> <path> ct=<n|u|m|o> url=<pairs> body=<pairs> h=<hdr> dbs=<hex(,hex)*|-> q0=<stmts> qs=<alts>
       a request with its parameters placed in the URL and / or the body (ct = content type: none, urlencoded,
       multipart, other). The database that is authorized and the one that is acted on are resolved from the
       request the way the handler's regenerated flow says; serveQuery takes its statements from `qs` by the text
       FormValue("q") resolves to, every other handler from q0.
                                                                 → 401 fx=0 | 403 fx=0 | az fx=0 | 404 fx=0 | 405 fx=0 | pass | pass x=<db acted on> | broken
pairs = - | <k>:<v>(,<k>:<v>)*      alts = - | <hex of query text>=<stmts>(/<hex>=<stmts>)*
  mauth u=<s> p=<s> h=<hdr>       lib/httpserver.Authenticate (ts-meta / ts-store)      → deny <st> | inner | deny+inner <st>
  mroute <METHOD> <path> u=<s> p=<s> h=<hdr>   the ts-meta HTTP handler              → 401 | reached | deny+reached | none
  setpw <name> <pw>               the catalogue's password of the user changes; the password cache is not cleaned → ok | nouser
  cauth <name> <pw>               Client.Authenticate with the password cache (stateful)  → ok | fail
  boot cfg=<…> <METHOD> <path> db=<s> dbx=<0|1> u=<s> p=<s> h=<hdr> q=<stmts>   a world without users → decision as for route
  fworld enabled=<0|1>            a new arrow flight auth server (no token issued yet)                  → ok
  fauth <name> <pw>               handshake with {"username","password"}                                → open | token <i> | denied
  fauthbad <eof|json>             handshake without payload / with a payload that is not JSON           → open | denied
  fvalid t<i> | x                 IsValid(token #i) / IsValid(any other text)                           → user <name> | denied
strings are hex (UTF-8), "-" = empty.  priv = 0..3.
hdr also: jwt:<alg><key><exp><nbf>:<m|x|n<name>>   alg a=HS256 b=HS384 c=HS512 n=none r=RS256; key s=shared secret w=other e=empty;
          exp f=future p=past m=missing z=0 n=negative t=a string; nbf a=absent p=past f=future
hdr   = - | basic:<u>:<p> | bearer:<parses><expOk>:<m|x|n<name>> | token:<s> | other
stmts = - | stmt(;stmt)*     stmt = <Kind>,<target>,<priv(|priv)*>     priv = <admin><rwuser><0..3>.<dbname>
-/
import OG.C19.Model
import OG.C19.Flow
import OG.C19.Wide

namespace OG.C19

def hexVal (c : Char) : Option Nat :=
  if '0' ≤ c ∧ c ≤ '9' then some (c.toNat - '0'.toNat)
  else if 'a' ≤ c ∧ c ≤ 'f' then some (c.toNat - 'a'.toNat + 10)
  else none

def hexBytes : List Char → Option (List UInt8)
  | [] => some []
  | a :: b :: rest => do
    let x ← hexVal a
    let y ← hexVal b
    let tl ← hexBytes rest
    some (UInt8.ofNat (x * 16 + y) :: tl)
  | _ => none

/-- "-" is the empty string; anything else is hex of the UTF-8 bytes. -/
def unhex (s : String) : Option String :=
  if s = "-" then some "" else
  match hexBytes s.toList with
  | some bs => String.fromUTF8? (ByteArray.mk bs.toArray)
  | none => none

def hexDigit (n : Nat) : Char := if n < 10 then Char.ofNat (48 + n) else Char.ofNat (87 + n)

def hexOf (s : String) : String :=
  if s = "" then "-" else
  String.ofList (s.toUTF8.toList.foldr (fun b acc => hexDigit (b.toNat / 16) :: hexDigit (b.toNat % 16) :: acc) [])

def bit (c : Char) : Option Bool := if c = '1' then some true else if c = '0' then some false else none

def kv (key : String) (tok : String) : Option String :=
  let pre := key ++ "="
  if startsWith tok pre then some (String.ofList (tok.toList.drop pre.length)) else none

def parsePriv (s : String) : Option Priv := s.toNat? >>= Priv.ofNat?

def parseJwtUser (usr : String) : Option JwtUser :=
  match usr.toList with
  | ['m'] => some JwtUser.missing
  | ['x'] => some JwtUser.notString
  | 'n' :: rest => (unhex (String.ofList rest)).map JwtUser.name
  | _ => none

def parseJwtTok (flags usr : String) : Option JwtTok :=
  match flags.toList with
  | [a, k, e, n] => do
    let alg ← match a with
      | 'a' => some JwtAlg.hs256 | 'b' => some JwtAlg.hs384 | 'c' => some JwtAlg.hs512 | 'n' => some JwtAlg.none | 'r' => some JwtAlg.rs256
      | _ => none
    let key ← match k with
      | 's' => some JwtKey.server | 'w' => some JwtKey.wrong | 'e' => some JwtKey.empty | _ => none
    let exp ← match e with
      | 'f' => some JwtExp.future | 'p' => some JwtExp.past | 'm' => some JwtExp.missing | 'z' => some JwtExp.zero
      | 'n' => some JwtExp.negative | 't' => some JwtExp.text | _ => none
    let nbf ← match n with
      | 'a' => some JwtNbf.absent | 'p' => some JwtNbf.past | 'f' => some JwtNbf.future | _ => none
    some ⟨alg, key, exp, nbf, ← parseJwtUser usr⟩
  | _ => none

def parseHdr (secret : Bool) (s : String) : Option AuthHeader :=
  if s = "-" then some .absent
  else if s = "other" then some .other
  else match s.splitOn ":" with
    | ["basic", u, p] => do some (.basic (← unhex u) (← unhex p))
    | ["token", t] => do some (.token (← unhex t))
    | ["jwt", flags, usr] => (parseJwtTok flags usr).map (fun t => .bearer (t.abstract secret))
    | ["bearer", flags, usr] =>
      match flags.toList with
      | [a, b] => do
        let parses ← bit a
        let expOk ← bit b
        let u ← match usr.toList with
          | ['m'] => some JwtUser.missing
          | ['x'] => some JwtUser.notString
          | 'n' :: rest => (unhex (String.ofList rest)).map JwtUser.name
          | _ => none
        some (.bearer ⟨parses, expOk, u⟩)
      | _ => none
    | _ => none

def parseReq (secret : Bool) (u p h : String) : Option Req := do
  some ⟨← unhex (← kv "u" u), ← unhex (← kv "p" p), ← parseHdr secret (← kv "h" h)⟩

def parseExecPriv (s : String) : Option ExecPriv :=
  match s.splitOn "." with
  | [flags, name] =>
    match flags.toList with
    | [a, r, n] => do
      some ⟨← bit a, ← unhex name, ← bit r, ← parsePriv (String.ofList [n])⟩
    | _ => none
  | _ => none

def parseStmt (s : String) : Option Stmt :=
  match s.splitOn "," with
  | [kind, target, privs] => do
    let ps ← if privs = "" then some [] else (privs.splitOn "|").mapM parseExecPriv
    some ⟨kind, ← unhex target, ps⟩
  | _ => none

def parseStmts (s : String) : Option (List Stmt) :=
  if s = "-" then some [] else (s.splitOn ";").mapM parseStmt

def parseCfg (s : String) : Option Cfg :=
  match s.toList with
  | [a, b, c, d] => do some ⟨← bit a, ← bit b, ← bit c, ← bit d⟩
  | _ => none

def parsePrivEntry (s : String) : Option (String × Priv) :=
  match s.splitOn ":" with
  | [db, p] => do some (← unhex db, ← parsePriv p)
  | _ => none

def parsePair (s : String) : Option (String × String) :=
  match s.splitOn ":" with
  | [k, v] => do some (← unhex k, ← unhex v)
  | _ => none

def parsePairs (s : String) : Option (List (String × String)) :=
  if s = "-" then some [] else (s.splitOn ",").mapM parsePair

def parseAlt (s : String) : Option (String × List Stmt) :=
  match s.splitOn "=" with
  | [k, v] => do some (← unhex k, ← parseStmts v)
  | _ => none

def parseAlts (s : String) : Option (List (String × List Stmt)) :=
  if s = "-" then some [] else (s.splitOn "/").mapM parseAlt

def parseCType (s : String) : Option CType :=
  if s = "n" then some .none else if s = "u" then some .urlencoded else if s = "m" then some .multipart
  else if s = "o" then some .other else none

def parseDbs (s : String) : Option (List String) :=
  if s = "-" then some [] else (s.splitOn ",").mapM unhex

def lookupAlt (k : String) : List (String × List Stmt) → Option (List Stmt)
  | [] => none
  | (k', v) :: rest => if k' = k then some v else lookupAlt k rest

def showOutcome (o : ReqOutcome) : String :=
  match o.decision, o.actedOn with
  | .pass, some x => "pass x=" ++ hexOf x
  | d, _ => showDecision' d
where showDecision' : Decision → String
  | .d401 => "401 fx=0" | .d403 => "403 fx=0" | .dAz => "az fx=0" | .d404 => "404 fx=0" | .d405 => "405 fx=0"
  | .pass => "pass" | .broken => "broken"

/-- the handler a request is dispatched to ("" when none). -/
def handlerOf (c : Cfg) (method : String) (path : List Char) : String :=
  match dispatch c method path with
  | .route r => r.handler
  | _ => ""

def showDecision : Decision → String
  | .d401 => "401 fx=0" | .d403 => "403 fx=0" | .dAz => "az fx=0" | .d404 => "404 fx=0" | .d405 => "405 fx=0"
  | .pass => "pass" | .broken => "broken"

def showDecisionBare : Decision → String
  | .d401 => "401" | .d403 => "403" | .dAz => "az" | .d404 => "404" | .d405 => "405"
  | .pass => "pass" | .broken => "broken"

def showAuth : AuthOutcome → String
  | .deny s => "deny " ++ toString s
  | .inner none => "inner nil"
  | .inner (some u) => "inner " ++ hexOf u.name
  | .denyThenInner s => "deny+inner " ++ toString s

def insertSorted (x : String) : List String → List String
  | [] => [x]
  | y :: ys => if x < y then x :: y :: ys else y :: insertSorted x ys

def sortStrings (xs : List String) : List String := xs.foldr insertSorted []

def liveList (c : Cfg) : String :=
  ",".intercalate (sortStrings ((OG.Gen.C19.routes.filter (routeLive c)).map (fun r => r.method ++ ":" ++ r.pattern)))

def emptyWorld : World := ⟨true, false, []⟩

def step (w : World) (line : String) : World × String :=
  match (line.trimAscii.toString.splitOn " ").filter (· ≠ "") with
  | ["world", a, s] =>
    match (kv "auth" a).bind (fun x => x.toList.head?.bind bit), (kv "secret" s).bind (fun x => x.toList.head?.bind bit) with
    | some a, some s => (⟨a, s, []⟩, "ok")
    | _, _ => (w, "bad-op")
  | "user" :: name :: pw :: adm :: rw :: privs =>
    match unhex name, unhex pw, adm.toList.head?.bind bit, rw.toList.head?.bind bit, privs.mapM parsePrivEntry with
    | some n, some p, some a, some r, some ps =>
      if (w.findUser n).isSome then (w, "dup")
      else
        let u : User := ps.foldl (fun u (db, p) => u.setPriv db p) ⟨n, p, a, r, []⟩
        ({ w with users := w.users ++ [u] }, "ok")
    | _, _, _, _, _ => (w, "bad-op")
  | ["grant", name, db, p] =>
    match unhex name, unhex db, parsePriv p with
    | some n, some d, some p =>
      if (w.findUser n).isSome then (w.grant n d p, "ok") else (w, "nouser")
    | _, _, _ => (w, "bad-op")
  | ["authz", name, db, p] =>
    match unhex name, unhex db, parsePriv p with
    | some n, some d, some p =>
      match w.findUser n with
      | some u => (w, toString (authorizeDatabase u p d))
      | none => (w, "nouser")
    | _, _, _ => (w, "bad-op")
  | ["aquery", name, db, stmts] =>
    match unhex name, unhex db, parseStmts stmts with
    | some n, some d, some q =>
      match w.findUser n with
      | some u => (w, if u.authorizeQuery d q then "ok" else "denied")
      | none => (w, "nouser")
    | _, _, _ => (w, "bad-op")
  | ["auth", u, p, h] =>
    match parseReq w.sharedSecret u p h with
    | some r => (w, showAuth (authenticate w r))
    | none => (w, "bad-op")
  | ["routes", cfg] =>
    match (kv "cfg" cfg).bind parseCfg with
    | some c => (w, liveList c)
    | none => (w, "bad-op")
  | ["bb", cfg, method, path, db, dbx, u, p, h, q] =>
    match (kv "cfg" cfg).bind parseCfg, unhex path, (kv "db" db).bind unhex, (kv "dbx" dbx).bind (fun x => x.toList.head?.bind bit),
          parseReq w.sharedSecret u p h, (kv "q" q).bind parseStmts with
    | some c, some path, some d, some dx, some r, some q => (w, showDecisionBare (decide w c method path.toList r d dx q))
    | _, _, _, _, _, _ => (w, "bad-op")
  | ["preq", cfg, method, path, ct, url, body, h, dbs, q0, qs] =>
    match (kv "cfg" cfg).bind parseCfg, unhex path, (kv "ct" ct).bind parseCType, (kv "url" url).bind parsePairs,
          (kv "body" body).bind parsePairs, (kv "h" h).bind (parseHdr w.sharedSecret), (kv "dbs" dbs).bind parseDbs,
          (kv "q0" q0).bind parseStmts, (kv "qs" qs).bind parseAlts with
    | some c, some path, some ct, some url, some body, some hdr, some dbs, some q0, some qs =>
      let req : HttpReq := ⟨method, ct, url, body, [], hdr⟩
      if handlerOf c method path.toList = "serveQuery" then
        let qtext := req.formValue "q"
        if qtext = "" then (w, showOutcome (decideReq w c stdInterp req path.toList dbs none))
        else match lookupAlt qtext qs with
          | some q => (w, showOutcome (decideReq w c stdInterp req path.toList dbs (some q)))
          | none => (w, "bad-op")
      else (w, showOutcome (decideReq w c stdInterp req path.toList dbs (some q0)))
    | _, _, _, _, _, _, _, _, _ => (w, "bad-op")
  | ["route", cfg, method, path, db, dbx, u, p, h, q] =>
    match (kv "cfg" cfg).bind parseCfg, unhex path, (kv "db" db).bind unhex, (kv "dbx" dbx).bind (fun x => x.toList.head?.bind bit),
          parseReq w.sharedSecret u p h, (kv "q" q).bind parseStmts with
    | some c, some path, some d, some dx, some r, some q => (w, showDecision (decide w c method path.toList r d dx q))
    | _, _, _, _, _, _ => (w, "bad-op")
  | _ => (w, "bad-op")

/-- the driver's state: the world and the password cache of the (one) meta client serving it. -/
structure St where
  w : World
  cache : AuthCache
  flight : FlightSt := ⟨false, []⟩

def showPlain : PlainOutcome → String
  | .deny s => "deny " ++ toString s
  | .inner => "inner"
  | .denyThenInner s => "deny+inner " ++ toString s

def stepS (s : St) (line : String) : St × String :=
  let w := s.w
  match (line.trimAscii.toString.splitOn " ").filter (· ≠ "") with
  | "world" :: _ => let (w', a) := step w line; (⟨w', [], s.flight⟩, a)     -- a new world is served by a new client: empty cache
  | ["fworld", en] =>
    match (kv "enabled" en).bind (fun x => x.toList.head?.bind bit) with
    | some b => ({ s with flight := ⟨b, []⟩ }, "ok")
    | none => (s, "bad-op")
  | ["fauth", name, pw] =>
    match unhex name, unhex pw with
    | some n, some p =>
      let (a, f', c') := flightAuth OG.Gen.C19.authCacheChecksBase w s.cache s.flight n p
      (⟨w, c', f'⟩, match a with | .opened => "open" | .token i => "token " ++ toString i | .denied => "denied")
    | _, _ => (s, "bad-op")
  | ["fauthbad", _] => (s, if s.flight.enabled then "denied" else "open")   -- no payload / not JSON: nothing is issued
  | ["fvalid", tok] =>
    let t : Option (Option Nat) := match tok.toList with
      | 't' :: rest => (String.ofList rest).toNat?.map some
      | ['x'] => some none
      | _ => none
    match t with
    | some t => (s, match flightValid s.flight t with | some n => "user " ++ hexOf n | none => "denied")
    | none => (s, "bad-op")
  | ["setpw", name, pw] =>
    match unhex name, unhex pw with
    | some n, some p => if (w.findUser n).isSome then ({ s with w := w.setPassword n p }, "ok") else (s, "nouser")
    | _, _ => (s, "bad-op")
  | ["cauth", name, pw] =>
    match unhex name, unhex pw with
    | some n, some p =>
      let (ou, c') := authCached OG.Gen.C19.authCacheChecksBase w s.cache n p
      ({ s with cache := c' }, if ou.isSome then "ok" else "fail")
    | _, _ => (s, "bad-op")
  | ["mauth", u, p, h] =>
    match parseReq w.sharedSecret u p h with
    | some r => (s, showPlain (authenticatePlain w r))
    | none => (s, "bad-op")
  | ["mroute", method, path, u, p, h] =>
    match unhex path, parseReq w.sharedSecret u p h with
    | some path, some r =>
      (s, match decideMeta w method path r with
          | .d401 => "401" | .reached => "reached" | .reachedAfterDeny => "deny+reached" | .noRoute => "none")
    | _, _ => (s, "bad-op")
  | ["boot", cfg, method, path, db, dbx, u, p, h, q] =>
    match (kv "cfg" cfg).bind parseCfg, unhex path, (kv "db" db).bind unhex, (kv "dbx" dbx).bind (fun x => x.toList.head?.bind bit),
          parseReq w.sharedSecret u p h, (kv "q" q).bind parseStmts with
    | some c, some path, some d, some dx, some r, some q => (s, showDecision (decideBoot w c method path.toList r d dx q))
    | _, _, _, _, _, _ => (s, "bad-op")
  | _ => let (w', a) := step w line; ({ s with w := w' }, a)

partial def loop (s : St) (h : IO.FS.Stream) (out : IO.FS.Stream) : IO Unit := do
  let line ← h.getLine
  if line.isEmpty then return ()
  let (s', ans) := stepS s line
  out.putStrLn ans
  loop s' h out

def main : IO Unit := do
  loop ⟨emptyWorld, [], ⟨false, []⟩⟩ (← IO.getStdin) (← IO.getStdout)

end OG.C19

def main : IO Unit := OG.C19.main
