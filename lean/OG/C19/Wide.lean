/-
C19 — the rest of the front door (core Lean only):
  * `authenticatePlain`  lib/httpserver.Authenticate, the wrapper of the ts-meta and ts-store HTTP handlers
  * `authCached`         metaclient.Client.Authenticate with the process-wide password cache
  * `decideBoot`         the zero-user bootstrap rule of QueryAuthorizer.AuthorizeQuery
  * `JwtTok.abstract`    what jwt/v5 `Parse` with the handler's key function makes of a token
-/
import OG.C19.Flow

namespace OG.C19
open OG.Gen.C19 (RouteFact routes plainAuthDefaultFallsThrough authCacheChecksBase PlainEndpoint metaEndpoints)

/-! ## lib/httpserver.Authenticate -/

/-- the wrapped handler takes no user: reached or not. -/
inductive PlainOutcome where
  | deny (status : Nat)
  | inner
  | denyThenInner (status : Nat)
deriving DecidableEq, Repr

/-- `httpserver.Authenticate(inner, client, requireAuthentication)`: only the password methods
have an arm; what the `default:` arm does after reporting the error is regenerated
(`plainAuthDefaultFallsThrough`). -/
def authenticatePlain (w : World) (r : Req) : PlainOutcome :=
  if !w.authEnabled then .inner
  else if !w.adminExists then .inner
  else match parseCredentials r with
    | none => .deny 401
    | some c =>
      match c.method with
      | 0 =>
        if c.user = "" then .deny 401
        else match w.metaAuthenticate c.user c.pass with
          | some _ => .inner
          | none => .deny 401
      | _ => if plainAuthDefaultFallsThrough then .denyThenInner 401 else .deny 401

/-- what the ts-meta HTTP handler does with a request: its `ServeHTTP` switches on method and
path (`metaEndpoints`, regenerated); an arm answers through `WrapHandler` = `authenticatePlain`. -/
inductive MetaDecision where
  | d401               -- refused by the wrapper, handler not run
  | reached            -- the endpoint's handler ran
  | reachedAfterDeny   -- refused *and* the handler ran
  | noRoute            -- no arm for this method / path: nothing runs
deriving DecidableEq, Repr

def decideMeta (w : World) (method path : String) (req : Req) : MetaDecision :=
  match metaEndpoints.find? (fun e => e.method = method && e.path = path) with
  | some e =>
    if e.wrapped then
      match authenticatePlain w req with
      | .deny _ => .d401
      | .inner => .reached
      | .denyThenInner _ => .reachedAfterDeny
    else .reached
  | none => .noRoute

/-! ## the password cache of metaclient.Client.Authenticate -/

/-- one entry of `AuthCache`: the user, the stored hash the password was verified against
(`base`; in the model a user's password stands for its hash) and the verified password. -/
structure CacheEntry where
  name : String
  base : String
  pw : String
deriving DecidableEq, Repr

abbrev AuthCache := List CacheEntry   -- the newest entry of a name comes first

def cacheFind (c : AuthCache) (n : String) : Option CacheEntry := c.find? (fun e => e.name = n)

/-- `AuthCache.Compare…`: an entry for the name whose password is the given one — and, with
`checksBase`, that was made against the user's current hash. -/
def cacheHit (checksBase : Bool) (c : AuthCache) (name pass cur : String) : Bool :=
  match cacheFind c name with
  | some e => e.pw = pass && (!checksBase || e.base = cur)
  | none => false

/-- `Client.Authenticate` → `Auth.authenticate`: the cache is consulted first, then the stored
hash; a success through the hash is cached. `checksBase` (regenerated: `authCacheChecksBase`):
the cache comparison also requires the entry to have been made against the user's *current*
hash. Cache expiry (1 h) and the lock-out after five failures only ever turn an acceptance into
a slower acceptance or a refusal and are left out. -/
def authCached (checksBase : Bool) (w : World) (c : AuthCache) (name pass : String) : Option User × AuthCache :=
  match w.findUser name with
  | none => (none, c)
  | some u =>
    if cacheHit checksBase c name pass u.password then (some u, c)
    else if u.password = pass then (some u, ⟨name, u.password, pass⟩ :: c)
    else (none, c)

/-- SET PASSWORD as the sql node sees it before the cache is cleaned: the catalogue changes, the cache does not. -/
def World.setPassword (w : World) (name pw : String) : World :=
  { w with users := w.users.map (fun u => if u.name = name then { u with password := pw } else u) }

/-! ## the arrow flight handshake (services/arrowflight: authServer) -/

/-- tokens issued so far: the user name of token #i, in issue order (the token text is a hash the
client cannot choose; the harness names tokens by their index). `enabled` = flight-auth-enabled. -/
structure FlightSt where
  enabled : Bool
  issued : List String
deriving DecidableEq, Repr

inductive FlightAuthAns where
  | opened            -- authentication off: nothing read, nothing sent
  | token (i : Nat)   -- token #i sent back
  | denied
deriving DecidableEq, Repr

/-- `authServer.Authenticate`: the handshake payload names a user and a password; a token is
issued iff `Client.Authenticate` (password cache included) accepts them. -/
def flightAuth (checksBase : Bool) (w : World) (c : AuthCache) (st : FlightSt) (name pass : String) :
    FlightAuthAns × FlightSt × AuthCache :=
  if !st.enabled then (.opened, st, c)
  else match authCached checksBase w c name pass with
    | (some _, c') => (.token st.issued.length, { st with issued := st.issued ++ [name] }, c')
    | (none, c') => (.denied, st, c')

/-- `authServer.IsValid`: with authentication off every token is "valid" for the pseudo user
`ArrowFlightWriteSuccessfully`; otherwise only an issued token is, for the user it was issued to
(the 24 h expiry is left out). `tok` = index of an issued token, or none for any other text. -/
def flightValid (st : FlightSt) (tok : Option Nat) : Option String :=
  if !st.enabled then some "ArrowFlightWriteSuccessfully"
  else match tok with
    | some i => st.issued[i]?
    | none => none

/-! ## the zero-user bootstrap rule -/

/-- `CREATE USER … WITH ALL PRIVILEGES` (the harness puts "admin" into the statement's target). -/
def Stmt.isCreateAdmin (s : Stmt) : Bool := s.kind = "CreateUserStatement" && s.target = "admin"

/-- `QueryAuthorizer.AuthorizeQuery` including its first branch: with no user at all in the
catalogue only a query whose *first* statement creates an administrator is let through. -/
def authorizeQueryBoot (userCount : Nat) (u : Option User) (db : String) (q : List Stmt) : Bool :=
  if userCount = 0 then
    match q with
    | s :: _ => s.isCreateAdmin
    | [] => false
  else authorizeQuery u db q

/-- the decision on a wrapped route with the query gate in a world without users (authenticate
hands over nil because no administrator exists); everything else is `decide`. -/
def decideBoot (w : World) (c : Cfg) (method : String) (path : List Char) (req : Req) (db : String) (dbExists : Bool) (q : List Stmt) : Decision :=
  match dispatch c method path with
  | .route r =>
    if method ≠ "OPTIONS" && r.sig = "user" && w.authEnabled && w.users.isEmpty && (routeGates r).contains "query" then
      if authorizeQueryBoot w.users.length none db q then .pass
      else if azHandlers.contains r.handler then .dAz else .d403
    else decide w c method path req db dbExists q
  | _ => decide w c method path req db dbExists q

/-! ## bearer tokens in detail -/

inductive JwtAlg where
  | hs256 | hs384 | hs512 | none | rs256
deriving DecidableEq, Repr

def JwtAlg.isHmac : JwtAlg → Bool
  | .hs256 | .hs384 | .hs512 => true
  | _ => false

/-- the key the token was signed with. -/
inductive JwtKey where
  | server   -- the server's shared secret
  | wrong    -- some other key
  | empty    -- the empty key
deriving DecidableEq, Repr

inductive JwtExp where
  | future | past | missing | zero | negative | text
deriving DecidableEq, Repr

inductive JwtNbf where
  | absent | past | future
deriving DecidableEq, Repr

structure JwtTok where
  alg : JwtAlg
  key : JwtKey
  exp : JwtExp
  nbf : JwtNbf
  user : JwtUser
deriving DecidableEq, Repr

/-- what `jwt.Parse(token, keyLookupFn)` (jwt/v5) and the handler's `exp` check make of a token:
the key function refuses every non-HMAC method; the signature must verify under the shared
secret (the empty key verifies only against an empty secret); `exp` in the past, negative or not
a number and `nbf` in the future fail validation; `exp` = 0 counts as absent for the library and
is then refused by the handler's own `exp > 0` check, as is a missing `exp`. -/
def JwtTok.abstract (secretSet : Bool) (t : JwtTok) : Jwt :=
  let sigOk := match t.key with
    | .server => true
    | .empty => !secretSet
    | .wrong => false
  let timeOk := (t.exp == .future || t.exp == .missing || t.exp == .zero) && t.nbf != .future
  ⟨t.alg.isHmac && sigOk && timeOk, t.exp == .future, t.user⟩

end OG.C19
