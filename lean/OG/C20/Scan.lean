/-
C20 — soundness of the two search strategies of `Scan` over an abstract range test `check`:
every fragment `i` for which `check s e` holds on all ranges `[s,e) ∋ i` ends up inside a
returned range.
-/
import OG.C20.Model

namespace OG.C20

/-! ### binary search -/

theorem bsLeft_le (check : Nat → Nat → Bool) (n i : Nat)
    (hchk : ∀ s e, s ≤ i → i < e → e ≤ n → check s e = true) :
    ∀ fuel left right, left ≤ i → right ≤ n → bsLeft check fuel left right ≤ i := by
  intro fuel
  induction fuel with
  | zero => intro l r hl _; simpa [bsLeft] using hl
  | succ f ih =>
    intro l r hl hr
    simp only [bsLeft]
    split
    · rename_i hlt
      split
      · exact ih l _ hl (by omega)
      · rename_i hc
        apply ih _ r _ hr
        -- check 0 middle = false ⇒ middle ≤ i
        by_cases hm : (l + r) / 2 ≤ i
        · exact hm
        · exact absurd (hchk 0 ((l + r) / 2) (by omega) (by omega) (by omega)) hc
    · exact hl

theorem bsRight_gt (check : Nat → Nat → Bool) (n i : Nat) (hi : i < n)
    (hchk : ∀ s e, s ≤ i → i < e → e ≤ n → check s e = true) :
    ∀ fuel left right, i < right → right ≤ n →
      i < bsRight check n fuel left right ∧ bsRight check n fuel left right ≤ n := by
  intro fuel
  induction fuel with
  | zero => intro l r h1 h2; simpa [bsRight] using ⟨h1, h2⟩
  | succ f ih =>
    intro l r h1 h2
    simp only [bsRight]
    split
    · rename_i hlt
      split
      · exact ih _ r h1 h2
      · rename_i hc
        apply ih l _ _ (by omega)
        by_cases hm : i < (l + r) / 2
        · exact hm
        · exact absurd (hchk ((l + r) / 2) n (by omega) hi (by omega)) hc
    · exact ⟨h1, h2⟩

/-- **binary search keeps every matching fragment.** -/
theorem binarySearch_sound (check : Nat → Nat → Bool) (n i : Nat) (hi : i < n)
    (hchk : ∀ s e, s ≤ i → i < e → e ≤ n → check s e = true) :
    ∃ p ∈ binarySearch check n, p.1 ≤ i ∧ i < p.2 := by
  have hs := bsLeft_le check n i hchk n 0 n (by omega) (by omega)
  have he := bsRight_gt check n i hi hchk n (bsLeft check n 0 n) n hi (by omega)
  unfold binarySearch
  simp only []
  have hlt : bsLeft check n 0 n < bsRight check n n (bsLeft check n 0 n) n := by omega
  have hc := hchk _ _ hs he.1 he.2
  simp only [hlt, if_true, hc]
  exact ⟨(bsLeft check n 0 n, bsRight check n n (bsLeft check n 0 n) n), by simp, hs, he.1⟩

/-! ### exclusion search: the split -/

/-- consecutive ranges from `a` to `b`. -/
def Chain : Nat → Nat → List (Nat × Nat) → Prop
  | a, b, [] => a = b
  | a, b, p :: l => p.1 = a ∧ a < p.2 ∧ Chain p.2 b l

theorem Chain.append {a b c : Nat} {l1 l2 : List (Nat × Nat)} (h1 : Chain a b l1) (h2 : Chain b c l2) :
    Chain a c (l1 ++ l2) := by
  induction l1 generalizing a with
  | nil => simp only [Chain] at h1; subst h1; simpa using h2
  | cons p l ih => exact ⟨h1.1, h1.2.1, ih h1.2.2⟩

theorem Chain.cover {a b : Nat} {l : List (Nat × Nat)} (h : Chain a b l) (i : Nat) (h1 : a ≤ i) (h2 : i < b) :
    ∃ p ∈ l, p.1 ≤ i ∧ i < p.2 := by
  induction l generalizing a with
  | nil => simp only [Chain] at h; omega
  | cons p l ih =>
    obtain ⟨ha, hlt, hc⟩ := h
    by_cases hp : i < p.2
    · exact ⟨p, by simp, by omega, hp⟩
    · obtain ⟨q, hq, hq'⟩ := ih hc (by omega)
      exact ⟨q, by simp [hq], hq'⟩

theorem Chain.le {a b : Nat} {l : List (Nat × Nat)} (h : Chain a b l) : a ≤ b := by
  induction l generalizing a with
  | nil => simp only [Chain] at h; omega
  | cons p l ih => have := ih h.2.2; have := h.2.1; omega

theorem Chain.within {a b : Nat} {l : List (Nat × Nat)} (h : Chain a b l) :
    ∀ p ∈ l, a ≤ p.1 ∧ p.1 < p.2 ∧ p.2 ≤ b := by
  induction l generalizing a with
  | nil => intro p hp; simp at hp
  | cons q l ih =>
    obtain ⟨ha, hlt, hc⟩ := h
    intro p hp
    simp only [List.mem_cons] at hp
    rcases hp with rfl | hp
    · exact ⟨by omega, by omega, hc.le⟩
    · have := ih hc p hp; omega

theorem splitR_chain (s step : Nat) (hstep : 0 < step) :
    ∀ fuel e, s < e → Chain s e (splitR s step fuel e) := by
  intro fuel
  induction fuel with
  | zero => intro e he; exact ⟨rfl, he, rfl⟩
  | succ f ih =>
    intro e he
    simp only [splitR]
    split
    · rename_i hgt
      exact (ih (e - step) (by omega)).append ⟨rfl, by omega, rfl⟩
    · exact ⟨rfl, he, rfl⟩

/-- every piece of the split is strictly shorter than the range when the range has at least
two fragments, the step is shorter than the range, and there is fuel for one iteration. -/
theorem splitR_small (s step : Nat) (hstep : 0 < step) (E : Nat) :
    ∀ fuel e, s < e → e ≤ E → (e < E ∨ (0 < fuel ∧ s + step < e)) →
      ∀ p ∈ splitR s step fuel e, p.2 - p.1 < E - s := by
  intro fuel
  induction fuel with
  | zero =>
    intro e he hE h p hp
    simp only [splitR, List.mem_singleton] at hp
    subst hp
    rcases h with h | h
    · simp; omega
    · omega
  | succ f ih =>
    intro e he hE h p hp
    simp only [splitR] at hp
    split at hp
    · rename_i hgt
      simp only [List.mem_append, List.mem_singleton] at hp
      rcases hp with hp | rfl
      · exact ih (e - step) (by omega) (by omega) (Or.inl (by omega)) p hp
      · simp; omega
    · simp only [List.mem_singleton] at hp
      subst hp
      rcases h with h | h
      · simp; omega
      · omega

end OG.C20

namespace OG.C20

/-! ### exclusion search: leaves -/

theorem step_lt (coarse k : Nat) (hco : 2 ≤ coarse) (hk : 2 ≤ k) : (k - 1) / coarse + 1 < k := by
  have : (k - 1) / coarse ≤ (k - 1) / 2 := Nat.div_le_div_left hco (by omega)
  omega

theorem exclSplit_props (coarse s e : Nat) (hco : 2 ≤ coarse) (h2 : s + 2 ≤ e) :
    Chain s e (exclSplit coarse s e) ∧ ∀ p ∈ exclSplit coarse s e, p.2 - p.1 < e - s := by
  unfold exclSplit
  have hst := step_lt coarse (e - s) hco (by omega)
  have hpos : 0 < (e - s - 1) / coarse + 1 := Nat.succ_pos _
  generalize (e - s - 1) / coarse + 1 = step at hst hpos
  refine ⟨splitR_chain s step hpos _ e (by omega), ?_⟩
  exact splitR_small s step hpos e (e - s) e (by omega) (Nat.le_refl _) (Or.inr ⟨by omega, by omega⟩)

/-- a fragment on which every enclosing range tests positive is among the leaves. -/
theorem exclLeaves_mem (check : Nat → Nat → Bool) (coarse n i : Nat) (hco : 2 ≤ coarse)
    (hchk : ∀ s e, s ≤ i → i < e → e ≤ n → check s e = true) :
    ∀ fuel s e, s ≤ i → i < e → e ≤ n → e - s ≤ fuel → i ∈ exclLeaves check coarse fuel s e := by
  intro fuel
  induction fuel with
  | zero => intro s e h1 h2 _ h4; omega
  | succ f ih =>
    intro s e h1 h2 h3 h4
    simp only [exclLeaves, hchk s e h1 h2 h3, Bool.not_true, Bool.false_eq_true, if_false]
    split
    · rename_i he; simp; omega
    · rename_i he
      obtain ⟨hc, hsm⟩ := exclSplit_props coarse s e hco (by omega)
      obtain ⟨p, hp, hp1, hp2⟩ := hc.cover i h1 h2
      have hw := hc.within p hp
      have := hsm p hp
      exact List.mem_flatMap.2 ⟨p, hp, ih p.1 p.2 hp1 hp2 (by omega) (by omega)⟩

/-- flat-mapping a chain with a function whose results are sorted and stay inside their range
gives a sorted list inside the whole range. -/
theorem flatMap_chain_sorted (f : Nat × Nat → List Nat) :
    ∀ (l : List (Nat × Nat)) (a b : Nat), Chain a b l →
      (∀ p ∈ l, (f p).Pairwise (· < ·) ∧ ∀ x ∈ f p, p.1 ≤ x ∧ x < p.2) →
      (l.flatMap f).Pairwise (· < ·) ∧ ∀ x ∈ l.flatMap f, a ≤ x ∧ x < b := by
  intro l
  induction l with
  | nil => intro a b _ _; simp
  | cons p l ih =>
    intro a b hc hf
    obtain ⟨hpa, hlt, hcl⟩ := hc
    have hp := hf p (by simp)
    obtain ⟨ihs, ihw⟩ := ih p.2 b hcl (fun q hq => hf q (by simp [hq]))
    have hle := hcl.le
    constructor
    · simp only [List.flatMap_cons]
      refine List.pairwise_append.2 ⟨hp.1, ihs, ?_⟩
      intro x hx y hy
      have := hp.2 x hx
      have := ihw y hy
      omega
    · intro x hx
      simp only [List.flatMap_cons, List.mem_append] at hx
      rcases hx with hx | hx
      · have := hp.2 x hx; omega
      · have := ihw x hx; omega

theorem exclLeaves_sorted (check : Nat → Nat → Bool) (coarse : Nat) (hco : 2 ≤ coarse) :
    ∀ fuel s e, s < e →
      (exclLeaves check coarse fuel s e).Pairwise (· < ·) ∧
      ∀ x ∈ exclLeaves check coarse fuel s e, s ≤ x ∧ x < e := by
  intro fuel
  induction fuel with
  | zero => intro s e _; simp [exclLeaves]
  | succ f ih =>
    intro s e hse
    simp only [exclLeaves]
    split
    · simp
    · split
      · rename_i he; subst he; simp
      · rename_i he
        obtain ⟨hc, _⟩ := exclSplit_props coarse s e hco (by omega)
        apply flatMap_chain_sorted _ _ s e hc
        intro p hp
        have hw := hc.within p hp
        exact ih p.1 p.2 hw.2.1

/-! ### exclusion search: merging the leaves into ranges -/

def Cov (l : List (Nat × Nat)) (y : Nat) : Prop := ∃ p ∈ l, p.1 ≤ y ∧ y < p.2

theorem exclMerge_cover (minMarks : Nat) : ∀ (xs : List Nat) (acc : List (Nat × Nat)),
    xs.Pairwise (· < ·) →
    (∀ p, acc.head? = some p → p.1 < p.2 ∧ ∀ x ∈ xs, p.2 ≤ x) →
    ∀ y, (Cov acc y ∨ y ∈ xs) → Cov (exclMerge minMarks acc xs) y := by
  intro xs
  induction xs with
  | nil =>
    intro acc _ _ y hy
    rcases hy with ⟨p, hp, h⟩ | hy
    · exact ⟨p, by simp [exclMerge, hp], h⟩
    · simp at hy
  | cons x xs ih =>
    intro acc hs hh y hy
    have hs' := List.pairwise_cons.1 hs
    cases acc with
    | nil =>
      simp only [exclMerge]
      apply ih _ hs'.2
      · intro p hp
        simp only [List.head?_cons, Option.some.injEq] at hp
        subst hp
        exact ⟨by simp, fun z hz => by have := hs'.1 z hz; simp; omega⟩
      · rcases hy with ⟨p, hp, _⟩ | hy
        · simp at hp
        · simp only [List.mem_cons] at hy
          rcases hy with rfl | hy
          · exact Or.inl ⟨(y, y + 1), by simp, by simp, by simp⟩
          · exact Or.inr hy
    | cons q acc =>
      obtain ⟨hq1, hq2⟩ := hh q (by simp)
      have hqx := hq2 x (by simp)
      rcases q with ⟨s, e⟩
      simp only [] at hq1 hqx
      simp only [exclMerge]
      split
      · apply ih _ hs'.2
        · intro p hp
          simp only [List.head?_cons, Option.some.injEq] at hp
          subst hp
          exact ⟨by simp, fun z hz => by have := hs'.1 z hz; simp; omega⟩
        · rcases hy with ⟨p, hp, h⟩ | hy
          · exact Or.inl ⟨p, by simp only [List.mem_cons] at hp ⊢; exact Or.inr hp, h⟩
          · simp only [List.mem_cons] at hy
            rcases hy with rfl | hy
            · exact Or.inl ⟨(y, y + 1), by simp, by simp, by simp⟩
            · exact Or.inr hy
      · apply ih _ hs'.2
        · intro p hp
          simp only [List.head?_cons, Option.some.injEq] at hp
          subst hp
          exact ⟨by simp; omega, fun z hz => by have := hs'.1 z hz; simp; omega⟩
        · rcases hy with ⟨p, hp, h⟩ | hy
          · simp only [List.mem_cons] at hp
            rcases hp with rfl | hp
            · exact Or.inl ⟨(s, x + 1), by simp, by simp at h ⊢; omega⟩
            · exact Or.inl ⟨p, by simp [hp], h⟩
          · simp only [List.mem_cons] at hy
            rcases hy with rfl | hy
            · exact Or.inl ⟨(s, y + 1), by simp, by simp; omega⟩
            · exact Or.inr hy

/-- **exclusion search keeps every matching fragment.** -/
theorem exclusionSearch_sound (check : Nat → Nat → Bool) (coarse minMarks n i : Nat) (hco : 2 ≤ coarse)
    (hi : i < n) (hchk : ∀ s e, s ≤ i → i < e → e ≤ n → check s e = true) :
    ∃ p ∈ exclusionSearch check coarse minMarks n, p.1 ≤ i ∧ i < p.2 := by
  unfold exclusionSearch
  have hm := exclLeaves_mem check coarse n i hco hchk (n + 1) 0 n (by omega) hi (Nat.le_refl _) (by omega)
  have hs := (exclLeaves_sorted check coarse hco (n + 1) 0 n (by omega)).1
  exact exclMerge_cover minMarks _ [] hs (fun p hp => by simp at hp) i (Or.inr hm)

end OG.C20
