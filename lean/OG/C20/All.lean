/-
C20 — every property theorem and every fact expectation of C20 under one module, so that one
`lake build` and one axiom audit cover them (the check builds and audits each listed module
separately under the shared build lock; with fifteen modules the waiting dominated the quick
tier). The driver (`OG.C20.Driver`) imports model files only and is built on its own: a failing
proof never takes the executable model down.
-/
import OG.C20.Props
import OG.C20.DriverSound
import OG.C20.Facts
import OG.C20.SkipProps
import OG.C20.SkipFacts
import OG.C20.SkipIdxProps
import OG.C20.SkipIdxFacts
import OG.C20.TimeClusterProps
import OG.C20.TCFacts
import OG.C20.SkipMinMax
import OG.C20.SkipTextProps
import OG.C20.FragProps
import OG.C20.FragFacts
import OG.C20.SkipIpProps
import OG.C20.SeqProps
import OG.C20.SeqFacts
