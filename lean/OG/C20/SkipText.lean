/-
C20 — model of the text (inverted) skip index at token level (`engine/index/textindex`).

Write side: `SimpleGramTokenizer::NextBatch` (FullTextIndex.cpp) cuts every value into tokens and
`FullTextIndex` stores, per token, the rows that hold it (posting lists in roaring-style
containers, LZ4 blocks, block headers, part headers).  Query side: `TextIndexReader` =
`SKConditionImpl` over the text columns the condition mentions; every in-schema element — whatever
its operator — asks `TextIndexFilterReader.IsExist(segment, literal)`: the literal is cut by
`StandardTokenizer.Split`, the posting lists of its tokens are intersected, and the answer is
"some row of the segment holds all of them".

Modelled: the two tokenizers byte by byte, the per-segment answer, the RPN evaluation (Skip.lean).
The storage between the two (containers, blocks, headers, the first/last-item filters) is taken
as a faithful map token ↦ rows; the correspondence op `text` compares exact answers through the
real writer (cgo) and the real reader.  Core only.
-/
import OG.C20.Skip

namespace OG.C20.Skip

/-- `splitTable[c]` of the write side for a non-split byte: the UTF-8 width its range announces
(bytes 0x80..0xdf — continuation bytes included — count as 2-byte characters). -/
def txWidth (c : Nat) : Nat :=
  if c < 0x80 then 1 else if c < 0xe0 then 2 else if c < 0xf0 then 3 else if c < 0xf8 then 4
  else if c < 0xfc then 5 else 6

/-- `SimpleGramTokenizer::NextBatch` on one value: `rest` = bytes from `startloc`, `run` = the
pending bytes `[tokenStart, startloc)` reversed. A separator closes the pending token; a
multi-byte lead byte closes it too and emits the character (`width` bytes from `startloc`, fewer
when the value ends inside it) — since fix 0f0f78c; before, it emitted `width` bytes counted from
`tokenStart` and dropped the pending run (`ab日` ↦ `ab\xe6`). `none` = out of fuel (never). -/
def txWriteToks (sp : Nat → Bool) : Nat → List Nat → List Nat → Option (List (List Nat))
  | 0, _, _ => none
  | _ + 1, [], run => some (if run.isEmpty then [] else [run.reverse])
  | fuel + 1, c :: rest, run =>
    if sp c then
      (txWriteToks sp fuel rest []).map fun ts => if run.isEmpty then ts else run.reverse :: ts
    else if txWidth c > 1 then
      let w := txWidth c
      (txWriteToks sp fuel ((c :: rest).drop w) []).map fun ts =>
        let ts := (c :: rest).take w :: ts
        if run.isEmpty then ts else run.reverse :: ts
    else txWriteToks sp fuel rest (c :: run)

def txTokensOf (sp : Nat → Bool) (v : List Nat) : Option (List (List Nat)) :=
  txWriteToks sp (v.length + 1) v []

/-- `StandardTokenizer.Split`: `none` = slice bounds out of range (a multi-byte lead byte with
fewer bytes behind it than its range announces). -/
def txSplit (sp : Nat → Bool) : Nat → List Nat → List Nat → Option (List (List Nat))
  | 0, _, _ => none
  | _ + 1, [], run => some (if run.isEmpty then [] else [run.reverse])
  | fuel + 1, c :: rest, run =>
    if c < 0x80 && sp c then
      (txSplit sp fuel rest []).map fun ts => if run.isEmpty then ts else run.reverse :: ts
    else if c < 0x80 then txSplit sp fuel rest (c :: run)
    else
      let w := txWidth c
      if (c :: rest).length < w then none
      else
        (txSplit sp fuel ((c :: rest).drop w) []).map fun ts =>
          let ts := (c :: rest).take w :: ts
          if run.isEmpty then ts else run.reverse :: ts

def txQueryToks (sp : Nat → Bool) (v : List Nat) : Option (List (List Nat)) := txSplit sp (v.length + 1) v []

/-- `TextIndexFilterReader.IsExist(segment, literal)` for the index on column `n`: some row of the
segment holds every token of the literal (posting-list intersection); a literal without token is
"no". `none` = panic / unreadable value. -/
def txAnswer (sp : Nat → Bool) (seg : Seg) (n : Nat) (v : List Nat) : Option Bool :=
  match txQueryToks sp v with
  | none => none
  | some qs =>
    if qs.isEmpty then some false
    else
      let rows : List (Option (List (List Nat))) := seg.map fun row =>
        match row[n]? with
        | some (some s) => txTokensOf sp s
        | _ => some []
      if rows.any Option.isNone then none
      else some (rows.any fun r => match r with
        | some ts => qs.all fun q => ts.contains q
        | none => false)

/-- `TextIndexReader.MayBeInFragment`: schema = the text-index columns the condition mentions. -/
def txMayBe (sp : Nat → Bool) (schema : List Nat) (c : BCond) (seg : Seg) : Option (Option Bool) :=
  isExist (fun n => schema.contains n) (fun n b => txAnswer sp seg n b.v) c

end OG.C20.Skip
