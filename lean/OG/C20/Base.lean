/-
C20 — base types of the model: key values with infinities and ranges (`field.go`, `range.go`).
The range predicates themselves are regenerated from `range.go` (OG.Generated.C20).
-/
namespace OG.C20

/-- `FieldRef`: a key value, or one of the two infinities (a null key is `+∞`). -/
inductive Ext (α : Type) where
  | negInf
  | val (a : α)
  | posInf
deriving DecidableEq, Repr

variable {α : Type}

section defs
variable [LT α] [DecidableLT α] [DecidableEq α]

/-- `FieldRef.Less`. -/
def Ext.less : Ext α → Ext α → Bool
  | .negInf, .negInf => false
  | .negInf, _ => true
  | _, .negInf => false
  | .posInf, _ => false
  | .val _, .posInf => true
  | .val a, .val b => decide (a < b)

/-- `FieldRef.Equals`. -/
def Ext.eqv (a b : Ext α) : Bool := decide (a = b)

/-- `Range`. -/
structure Range (α : Type) where
  left : Ext α
  right : Ext α
  li : Bool
  ri : Bool
deriving Repr

end defs

end OG.C20
