/-
C20 — time cluster.  A measurement with a time-cluster index sorts its rows by the "clustered"
time `time.Duration(t).Truncate(tcDuration)` first (lib/record/sort.go `SortData.Init`,
engine/immutable/colstore_compact.go), the primary-key index gets that column as its first key
(`PKIndexWriterImpl.buildData`), and a query adds a condition on it to the key condition:
`GetTimeCondition(GetTimeRangeByTC(), pkSchema, tcIdx)` with
`GetTimeRangeByTC = {window(startTime, d), window(endTime, d)}` (engine/executor/schema.go,
engine/hybrid_index_reader.go `initKeyCondition`).  The primary-key scan then prunes on that
condition (`scan_sound`), so the property needs: a row whose time lies in the query's time range
satisfies the time-cluster condition.

`window` is **regenerated** (translated from schema.go, `OG.Gen.C20.tcWindow`), `MinTime` /
`MaxTime` too; `Duration.Truncate` is the Go standard library (`d - d%m` for `m > 0`, `%`
truncating toward zero); `GetTimeCondition` is transcribed (`tcCond`) and pinned (Facts).
Core only.
-/
import OG.Generated.C20

namespace OG.C20.TC
open OG.Gen.C20 (tcWindow tcMinTime tcMaxTime)

/-- write side: `int64(time.Duration(t).Truncate(d))`, `d > 0`. -/
def clusterOf (t d : Int) : Int := t - Int.tmod t d

/-- `GetTimeCondition(TimeRange{lo, hi}, schema, tcIdx)` evaluated on a value `x` of the
time-cluster column. -/
def tcCond (lo hi x : Int) : Bool :=
  if lo == hi then x == lo
  else if lo != tcMinTime && hi != tcMaxTime then decide (lo ≤ x) && decide (x ≤ hi)
  else if lo != tcMinTime then decide (lo ≤ x)
  else if hi != tcMaxTime then decide (x ≤ hi)
  else true

end OG.C20.TC
