/-
C20 — property theorems.

Property: "every data block that contains at least one row satisfying the condition is
still read".  For the primary-key sparse index that is: if some row of fragment `i`
satisfies the condition then `i` lies inside one of the fragment ranges returned by `Scan`.
-/
import OG.C20.Decomp
import OG.C20.Scan

set_option linter.unusedSectionVars false
namespace OG.C20
open OG.Gen.C20 (Mark)

variable {α : Type} [LT α] [LE α] [DecidableLT α] [DecidableEq α]
  [Std.IsLinearOrder α] [Std.LawfulOrderLT α]

/-- **T1** `MayBeInRange` never answers "no" for a lexicographic key interval that holds a
row satisfying the condition — for every key width, every key order, every condition
tree, null keys included.  (Repaired code, see `mayBeInRange_unsound_asWritten`.) -/
theorem mayBeInRange_sound (d : Disc α) (hd : d.Lawful) (c : Cond α) (us : List Bool)
    (ls rs : List (Ext α)) (k : List (Option α))
    (h1 : ls.length = k.length) (h2 : rs.length = k.length) (h3 : us.length = k.length)
    (hl : lexLE ls (k.map toExt)) (hr : lexLE (k.map toExt) rs) (hs : sat c k) :
    mayBeInRange true d c us ls rs = true := by
  unfold mayBeInRange
  apply anyRange_sound d hd (checkInRange d c) considerOnlyBeTrue k ls rs us [] [] true true h1 h2 h3
    InRect.nil (fun _ => hl) (fun _ => hr)
  intro rgs hin
  exact checkInRange_sound d hd c rgs k (by simpa using hin) hs

/-- the discrete structure used for integer key columns, on `Int`. -/
def intDisc : Disc Int := ⟨fun a => some (a + 1), fun a => some (a - 1)⟩

theorem intDisc_lawful : intDisc.Lawful := by
  constructor <;> intro a b h x hx <;> simp [intDisc] at h <;> omega

/-- no adjustment at all (string / float / bool columns). -/
def noDisc : Disc α := ⟨fun _ => none, fun _ => none⟩
theorem noDisc_lawful : (noDisc : Disc α).Lawful := by
  constructor <;> intro a b h <;> simp [noDisc] at h

/-- **T1'** the code as it was at the pinned commit (`checkRangeRightBound` returning the
last sub-result) is unsound for key width 2.  Witness found by the model and replayed on
the real `Scan`: rows (B,1)(B,2) | (C,2)(C,3) | (D,0)(D,1), `a = 'C' AND b != 1`; the
fragment with marks (C,2)…(D,0) holds the matching row (C,2) and is pruned. -/
theorem mayBeInRange_unsound_asWritten :
    ∃ (c : Cond Int) (ls rs : List (Ext Int)) (k : List (Option Int)),
      lexLE ls (k.map toExt) ∧ lexLE (k.map toExt) rs ∧ sat c k ∧
      mayBeInRange false intDisc c [false, false] ls rs = false := by
  refine ⟨.and (.atom 0 .eq 2) (.atom 1 .neq 1), [.val 2, .val 2], [.val 3, .val 0],
    [some 2, some 2], ?_, ?_, ?_, ?_⟩
  · simp [lexLE, toExt]
  · simp [lexLE, toExt, Ext.val_lt_val]
  · simp [sat, satAtom]
  · decide

/-- non-vacuity of T1: the same witness satisfies the hypotheses, and the repaired code keeps
the fragment. -/
example : mayBeInRange true intDisc (.and (.atom 0 .eq 2) (.atom 1 .neq 1)) [false, false]
    [.val 2, .val 2] [.val 3, .val 0] = true := by decide

end OG.C20

/-! ### end to end: `Scan` -/

namespace OG.C20
open OG.Gen.C20 (Mark)

variable {α : Type} [LT α] [LE α] [DecidableLT α] [DecidableEq α]
  [Std.IsLinearOrder α] [Std.LawfulOrderLT α]

theorem lexLE_trans : ∀ (a b c : List (Ext α)), lexLE a b → lexLE b c → lexLE a c := by
  intro a
  induction a with
  | nil => intro b c _ _; trivial
  | cons x xs ih =>
    intro b c h1 h2
    cases b with
    | nil => exact absurd h1 (by simp [lexLE])
    | cons y ys =>
      cases c with
      | nil => exact absurd h2 (by simp [lexLE])
      | cons z zs =>
        simp only [lexLE] at h1 h2 ⊢
        rcases h1 with h1 | ⟨rfl, h1⟩
        · rcases h2 with h2 | ⟨rfl, _⟩
          · left; grind
          · left; exact h1
        · rcases h2 with h2 | ⟨rfl, h2⟩
          · left; exact h2
          · right; exact ⟨rfl, ih ys zs h1 h2⟩

theorem lexLE_take : ∀ (m : Nat) (a b : List (Ext α)), lexLE a b → lexLE (a.take m) (b.take m) := by
  intro m
  induction m with
  | zero => intro a b _; simp [lexLE]
  | succ m ih =>
    intro a b h
    cases a with
    | nil => simp [lexLE]
    | cons x xs =>
      cases b with
      | nil => exact absurd h (by simp [lexLE])
      | cons y ys =>
        simp only [List.take_succ_cons, lexLE] at h ⊢
        rcases h with h | ⟨rfl, h⟩
        · left; exact h
        · right; exact ⟨rfl, ih xs ys h⟩

theorem sat_take (c : Cond α) (k : List (Option α)) (m : Nat) (hm : c.usedKeySize ≤ m) (hs : sat c k) :
    sat c (k.take m) := by
  induction c with
  | atom col op cst =>
    obtain ⟨x, hx, hsx⟩ := hs
    simp only [Cond.usedKeySize] at hm
    refine ⟨x, ?_, hsx⟩
    rw [List.getElem?_take_of_lt (by omega)]
    exact hx
  | other => trivial
  | and a b iha ihb =>
    simp only [Cond.usedKeySize] at hm
    exact ⟨iha (by omega) hs.1, ihb (by omega) hs.2⟩
  | or a b iha ihb =>
    simp only [Cond.usedKeySize] at hm
    rcases hs with h | h
    · exact Or.inl (iha (by omega) h)
    · exact Or.inr (ihb (by omega) h)

/-- **T2 (the property for the primary-key sparse index).** Let `marks` be the `n+1` index marks
(first key of every fragment, last key of the last one), lexicographically non-decreasing,
each at least as wide as the key prefix the condition uses. If some row with key `k` lies in
fragment `i` (between its two marks) and satisfies the condition, then `Scan` returns a fragment
range that contains `i` — for both search strategies, every coarse-index setting ≥ 2, every
seek threshold, every key width and order, null keys included. -/
theorem scan_sound (d : Disc α) (hd : d.Lawful) (c : Cond α) (hasKey : Bool) (us : List Bool)
    (marks : List (List (Ext α))) (coarse minMarks i : Nat) (k : List (Option α))
    (hco : 2 ≤ coarse)
    (hi : i < marks.length - 1)
    (hwidth : ∀ j, j < marks.length → c.usedKeySize ≤ (marks.getD j []).length)
    (hus : c.usedKeySize ≤ us.length) (hk : c.usedKeySize ≤ k.length)
    (hsorted : ∀ j j', j ≤ j' → j' < marks.length → lexLE (marks.getD j []) (marks.getD j' []))
    (hl : lexLE (marks.getD i []) (k.map toExt)) (hr : lexLE (k.map toExt) (marks.getD (i + 1) []))
    (hs : sat c k) :
    ∃ p ∈ scan true d c hasKey us marks coarse minMarks, p.1 ≤ i ∧ i < p.2 := by
  unfold scan
  simp only []
  cases hasKey with
  | false => exact ⟨(0, marks.length - 1), by simp, by omega, hi⟩
  | true =>
    simp only [Bool.not_true, Bool.false_eq_true, if_false]
    have hchk : ∀ s e, s ≤ i → i < e → e ≤ marks.length - 1 →
        mayBeInRange true d c (us.take c.usedKeySize) ((marks.getD s []).take c.usedKeySize)
          ((marks.getD e []).take c.usedKeySize) = true := by
      intro s e h1 h2 h3
      apply mayBeInRange_sound d hd c _ _ _ (k.take c.usedKeySize)
      · simp only [List.length_take]
        have := hwidth s (by omega); omega
      · simp only [List.length_take]
        have := hwidth e (by omega); omega
      · simp only [List.length_take]; omega
      · rw [List.map_take]
        exact lexLE_take _ _ _ (lexLE_trans _ _ _ (hsorted s i h1 (by omega)) hl)
      · rw [List.map_take]
        exact lexLE_take _ _ _ (lexLE_trans _ _ _ hr (hsorted (i + 1) e (by omega) (by omega)))
      · exact sat_take c k _ (Nat.le_refl _) hs
    split
    · exact binarySearch_sound _ _ i hi hchk
    · exact exclusionSearch_sound _ coarse minMarks _ i hco hi hchk

end OG.C20
