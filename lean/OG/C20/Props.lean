/-
C20 — property theorems.

Property: "every data block that contains at least one row satisfying the condition is
still read".  For the primary-key sparse index that is: if some row of fragment `i`
satisfies the condition then `i` lies inside one of the fragment ranges returned by `Scan`.
-/
import OG.C20.Decomp

set_option linter.unusedSectionVars false
namespace OG.C20
open OG.Gen.C20 (Mark)

variable {α : Type} [LT α] [LE α] [DecidableLT α] [DecidableEq α]
  [Std.IsLinearOrder α] [Std.LawfulOrderLT α]

/-- **T1** `MayBeInRange` never answers "no" for a lexicographic key interval that holds a
row satisfying the condition — for every key width, every key order, every condition
tree, null keys included.  (Repaired code, see `mayBeInRange_unsound_asWritten`.) -/
theorem mayBeInRange_sound (d : Disc α) (hd : d.Lawful) (c : Cond α) (us : List Bool)
    (ls rs : List (Ext α)) (k : List (Option α))
    (h1 : ls.length = k.length) (h2 : rs.length = k.length) (h3 : us.length = k.length)
    (hl : lexLE ls (k.map toExt)) (hr : lexLE (k.map toExt) rs) (hs : sat c k) :
    mayBeInRange true d c us ls rs = true := by
  unfold mayBeInRange
  apply anyRange_sound d hd (checkInRange d c) considerOnlyBeTrue k ls rs us [] [] true true h1 h2 h3
    InRect.nil (fun _ => hl) (fun _ => hr)
  intro rgs hin
  exact checkInRange_sound d hd c rgs k (by simpa using hin) hs

/-- the discrete structure used for integer key columns, on `Int`. -/
def intDisc : Disc Int := ⟨fun a => some (a + 1), fun a => some (a - 1)⟩

theorem intDisc_lawful : intDisc.Lawful := by
  constructor <;> intro a b h x hx <;> simp [intDisc] at h <;> omega

/-- no adjustment at all (string / float / bool columns). -/
def noDisc : Disc α := ⟨fun _ => none, fun _ => none⟩
theorem noDisc_lawful : (noDisc : Disc α).Lawful := by
  constructor <;> intro a b h <;> simp [noDisc] at h

/-- **T1'** the code as it was at the pinned commit (`checkRangeRightBound` returning the
last sub-result) is unsound for key width 2.  Witness found by the model and replayed on
the real `Scan`: rows (B,1)(B,2) | (C,2)(C,3) | (D,0)(D,1), `a = 'C' AND b != 1`; the
fragment with marks (C,2)…(D,0) holds the matching row (C,2) and is pruned. -/
theorem mayBeInRange_unsound_asWritten :
    ∃ (c : Cond Int) (ls rs : List (Ext Int)) (k : List (Option Int)),
      lexLE ls (k.map toExt) ∧ lexLE (k.map toExt) rs ∧ sat c k ∧
      mayBeInRange false intDisc c [false, false] ls rs = false := by
  refine ⟨.and (.atom 0 .eq 2) (.atom 1 .neq 1), [.val 2, .val 2], [.val 3, .val 0],
    [some 2, some 2], ?_, ?_, ?_, ?_⟩
  · simp [lexLE, toExt]
  · simp [lexLE, toExt, Ext.val_lt_val]
  · simp [sat, satAtom]
  · decide

/-- non-vacuity of T1: the same witness satisfies the hypotheses, and the repaired code keeps
the fragment. -/
example : mayBeInRange true intDisc (.and (.atom 0 .eq 2) (.atom 1 .neq 1)) [false, false]
    [.val 2, .val 2] [.val 3, .val 0] = true := by decide

end OG.C20
