/-
C20, time cluster and primary-key index writer — expectations about the regenerated facts
(ogfacts/c20tc.go): the two time sentinels, the bodies of the functions OG/C20/TimeCluster.lean
transcribes (`GetTimeCondition`) or relies on (`GetTimeRangeByTC`, `initKeyCondition`,
`SortData.Init`), and of the index writer (`buildData`, `generateColumn`, `buildFragment`: which
rows become marks). `window` itself is translated, not compared: `tcWindow_shape` states the
translated definition.
-/
import OG.Generated.C20

namespace OG.C20.TCFacts
open OG.Gen.C20

theorem tcWindow_shape (t w : Int) :
    tcWindow t w = if (t == tcMinTime || t == tcMaxTime || w == 0) then t else t - Int.tmod t w := by rfl

theorem tcMinTime_expected : tcMinTime = -9223372036854775806 := by rfl

theorem tcMaxTime_expected : tcMaxTime = 9223372036854775806 := by rfl

theorem src_tcGetTimeRangeByTC_expected : src_tcGetTimeRangeByTC = "{ startTime, endTime := qs.Options().GetStartTime(), qs.Options().GetEndTime() var interval int64 if indexR := qs.Options().GetMeasurements()[0].IndexRelation; indexR != nil { interval = indexR.GetTimeClusterDuration() } return util.TimeRange{Min: window(startTime, interval), Max: window(endTime, interval)} }" := by rfl

theorem src_tcGetTimeCondition_expected : src_tcGetTimeCondition = "{ if tcIdx < 0 || tcIdx >= len(schema) { return nil } if tr.Min == tr.Max { return &influxql.BinaryExpr{ Op: influxql.EQ, LHS: &influxql.VarRef{Val: schema[tcIdx].Name, Type: influxql.Integer}, RHS: &influxql.IntegerLiteral{Val: tr.Min}, } } if tr.Min != influxql.MinTime && tr.Max != influxql.MaxTime { return &influxql.BinaryExpr{ Op: influxql.AND, LHS: &influxql.BinaryExpr{ Op: influxql.GTE, LHS: &influxql.VarRef{Val: schema[tcIdx].Name, Type: influxql.Integer}, RHS: &influxql.IntegerLiteral{Val: tr.Min}, }, RHS: &influxql.BinaryExpr{ Op: influxql.LTE, LHS: &influxql.VarRef{Val: schema[tcIdx].Name, Type: influxql.Integer}, RHS: &influxql.IntegerLiteral{Val: tr.Max}, }, } } if tr.Min != influxql.MinTime { return &influxql.BinaryExpr{ Op: influxql.GTE, LHS: &influxql.VarRef{Val: schema[tcIdx].Name, Type: influxql.Integer}, RHS: &influxql.IntegerLiteral{Val: tr.Min}, } } if tr.Max != influxql.MaxTime { return &influxql.BinaryExpr{ Op: influxql.LTE, LHS: &influxql.VarRef{Val: schema[tcIdx].Name, Type: influxql.Integer}, RHS: &influxql.IntegerLiteral{Val: tr.Max}, } } return nil }" := by rfl

theorem src_tcCombineConditionWithAnd_expected : src_tcCombineConditionWithAnd = "{ if lhs == nil { return rhs } if rhs == nil { return lhs } return &influxql.BinaryExpr{Op: influxql.AND, LHS: lhs, RHS: rhs} }" := by rfl

theorem src_tcInitKeyCondition_expected : src_tcInitKeyCondition = "{ var err error tIdx := pkSchema.FieldIndex(record.TimeField) condition := ctx.schema.Options().GetCondition() timePrimaryCond := binaryfilterfunc.GetTimeCondition(ctx.tr, pkSchema, tIdx) var timeClusterCond influxql.Expr if tcIdx > colstore.DefaultTCLocation { timeClusterCond = binaryfilterfunc.GetTimeCondition(ctx.schema.GetTimeRangeByTC(), pkSchema, int(tcIdx)) } timeCondition := binaryfilterfunc.CombineConditionWithAnd(timePrimaryCond, timeClusterCond) if ctx.keyCondition, err = sparseindex.NewKeyCondition(timeCondition, condition, pkSchema); err != nil { return err } return nil }" := by rfl

theorem src_tcSortDataInit_expected : src_tcSortDataInit = "{ if len(record.ColVals) == 0 { return } size := len(times) if cap(d.RowIds) < size { d.RowIds = make([]int32, size) } d.RowIds = d.RowIds[:size] d.Data = d.Data[:0] for i := 0; i < size; i++ { d.RowIds[i] = int32(i) } if tcDuration > 0 { if cap(d.Times) < size { d.Times = make([]int64, size) } d.Times = d.Times[:size] for i, t := range times { d.Times[i] = int64(time.Duration(t).Truncate(tcDuration)) } is := IntegerSlice{} is.V = append(is.V, d.Times...) d.Data = append(d.Data, &is) } d.idx = 0 d.genSortData(times, sortKey, record, d.SortRec, 0) }" := by rfl

theorem src_pkBuildData_expected : src_pkBuildData = "{ if tcLocation > colstore.DefaultTCLocation { field := record.Field{Type: influx.Field_Type_Int, Name: record.TimeClusterCol} pkSchema = append([]record.Field{field}, pkSchema...) } dstRec := record.NewRecord(pkSchema, false) for i := 0; i < pkSchema.Len(); i++ { if idx := srcRec.Schema.FieldIndex(pkSchema.Field(i).Name); idx >= 0 { switch pkSchema.Field(i).Type { case influx.Field_Type_String, influx.Field_Type_Tag: w.generateColumn(srcRec, dstRec, rowsNumPerFragment, numFragment, pkSchema.Field(i).Type, idx, i) case influx.Field_Type_Int: w.generateColumn(srcRec, dstRec, rowsNumPerFragment, numFragment, influx.Field_Type_Int, idx, i) case influx.Field_Type_Float: w.generateColumn(srcRec, dstRec, rowsNumPerFragment, numFragment, influx.Field_Type_Float, idx, i) case influx.Field_Type_Boolean: w.generateColumn(srcRec, dstRec, rowsNumPerFragment, numFragment, influx.Field_Type_Boolean, idx, i) default: return nil, errors.New(\"unsupported data type\") } } else { return nil, fmt.Errorf(\"the table does not have a primary key field, %s\", pkSchema.Field(i).Name) } } return dstRec, nil }" := by rfl

theorem src_pkGenerateColumn_expected : src_pkGenerateColumn = "{ start := 0 dstRec.ColVals[dstColIdx].AppendColVal(&srcRec.ColVals[srcColIdx], dataType, start, start+1) for j := 0; j < numFragment; j++ { dstRec.ColVals[dstColIdx].AppendColVal(&srcRec.ColVals[srcColIdx], dataType, rowsNumPerFragment[j], rowsNumPerFragment[j]+1) } }" := by rfl

theorem src_pkBuildFragment_expected : src_pkBuildFragment = "{ if fixRowsPerSegment != 0 { return fragment.NewIndexFragmentFixedSize(uint32(numFragment), uint64(fixRowsPerSegment)) } accumulateRowCount := make([]uint64, numFragment) for i := 0; i < numFragment-1; i++ { accumulateRowCount[i] = uint64(rowsNumPerFragment[i]) } accumulateRowCount[numFragment-1] = uint64(rowsNumPerFragment[numFragment-1] + 1) return fragment.NewIndexFragmentVariable(accumulateRowCount) }" := by rfl

end OG.C20.TCFacts
