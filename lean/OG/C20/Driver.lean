/-
C20 — line-protocol driver of the model (core only).
  scan <fixed> <types> <coarse> <minMarks> <hasKey> <marks> <cond…>   →   ranges s-e s-e …
types: one letter per key column, `i` = integer column (discrete: open bounds are closed),
`o` = any other ordered type (values are order-preserving ranks). marks: `a,b;c,d;…`, `N` = null.
cond (prefix): `A col op const` | `O` | `& x y` | `| x y`.
-/
import OG.C20.Model
import OG.C20.Skip
import OG.C20.Seq
import OG.C20.SkipIdx
import OG.C20.TimeCluster
import OG.C20.SkipText
import OG.C20.Frag
import OG.C20.SkipIp

namespace OG.C20

/-- key values of the driver: a tag (integer column?) and an integer; ordered by tag, then
value (all values of one column carry the same tag). -/
structure DK where
  isInt : Bool
  v : Int
deriving DecidableEq, Repr

instance : LT DK := ⟨fun a b => (a.isInt = false ∧ b.isInt = true) ∨ (a.isInt = b.isInt ∧ a.v < b.v)⟩
instance : LE DK := ⟨fun a b => ¬ (b < a)⟩
instance : DecidableLT DK := fun a b =>
  inferInstanceAs (Decidable ((a.isInt = false ∧ b.isInt = true) ∨ (a.isInt = b.isInt ∧ a.v < b.v)))

def maxInt64 : Int := 9223372036854775807
def minInt64 : Int := -9223372036854775808

/-- `turnOpenRangeIntoClosed`: only integer columns, never past the int64 extremes. -/
def dkDisc : Disc DK where
  succ a := if a.isInt && a.v != maxInt64 then some ⟨true, a.v + 1⟩ else none
  pred a := if a.isInt && a.v != minInt64 then some ⟨true, a.v - 1⟩ else none

def parseOp : String → Option CmpOp
  | "eq" => some .eq | "neq" => some .neq | "lt" => some .lt | "lte" => some .lte
  | "gt" => some .gt | "gte" => some .gte | _ => none

/-- prefix-notation condition parser; `tys` gives the integer tag per column. -/
partial def parseCond (tys : List Bool) : List String → Option (Cond DK × List String)
  | "A" :: col :: op :: c :: rest => do
    let col ← col.toNat?
    let op ← parseOp op
    let c ← c.toInt?
    some (.atom col op ⟨tys.getD col false, c⟩, rest)
  | "O" :: rest => some (.other, rest)
  | "&" :: rest => do
    let (a, rest) ← parseCond tys rest
    let (b, rest) ← parseCond tys rest
    some (.and a b, rest)
  | "|" :: rest => do
    let (a, rest) ← parseCond tys rest
    let (b, rest) ← parseCond tys rest
    some (.or a b, rest)
  | _ => none

def parseMark (tys : List Bool) (s : String) : Option (List (Ext DK)) :=
  let cells := s.splitOn ","
  (cells.zip tys).mapM (fun (c, t) =>
    if c == "N" then some Ext.posInf else (c.toInt?).map (fun v => Ext.val ⟨t, v⟩))

def showRanges (rs : List (Nat × Nat)) : String :=
  rs.foldl (fun acc (s, e) => acc ++ " " ++ toString s ++ "-" ++ toString e) "ranges"

/-! ### skip indexes (OG.C20.Skip): ops `skip skipset minmax mmx isex pmatch bloom` -/
namespace SkipDrv
open OG.C20.Skip

def hexVal (c : Char) : Option Nat :=
  if '0' ≤ c && c ≤ '9' then some (c.toNat - '0'.toNat)
  else if 'a' ≤ c && c ≤ 'f' then some (c.toNat - 'a'.toNat + 10)
  else none

def hexBytesAux : List Char → Option (List Nat)
  | [] => some []
  | a :: b :: rest => do
    let x ← hexVal a
    let y ← hexVal b
    let r ← hexBytesAux rest
    some ((x * 16 + y) :: r)
  | _ => none

/-- `-` = empty string. -/
def hexBytes (s : String) : Option (List Nat) := if s == "-" then some [] else hexBytesAux s.toList

def parseRanges (s : String) : Option (List (Nat × Nat)) :=
  if s == "-" then some []
  else (s.splitOn ",").mapM fun p =>
    match p.splitOn "-" with
    | [a, b] => do some ((← a.toNat?), (← b.toNat?))
    | _ => none

def scriptReader (ans : List Char) : Reader := fun j =>
  match ans[j]? with
  | some '1' => some true
  | some '0' => some false
  | _ => none

def showScan : Option (List (Nat × Nat)) → String
  | some rs => showRanges rs
  | none => "err"

def parseBOp : String → Option BOp
  | "and" => some .and | "or" => some .or | "cmp" => some .cmp | "cmpo" => some .cmpo
  | "cmpns" => some .cmpns | "bad" => some .bad
  | _ => none

partial def parseSExpr : List String → Option (SExpr Nat × List String)
  | "V" :: n :: rest => do some (.var (← n.toNat?), rest)
  | "L" :: n :: rest => do some (.lit (← n.toNat?), rest)
  | "P" :: rest => do
    let (e, rest) ← parseSExpr rest
    some (.paren e, rest)
  | "B" :: op :: rest => do
    let op ← parseBOp op
    let (l, rest) ← parseSExpr rest
    let (r, rest) ← parseSExpr rest
    some (.bin op l r, rest)
  | _ => none

def parseCmpK : String → Option CmpK
  | "mp" => some .mp | "eq" => some .eq | "neq" => some .neq | "lt" => some .lt | "gt" => some .gt
  | "lte" => some .lte | "gte" => some .gte | _ => none

def parseField : String → Option Nat
  | "x" => some fieldOther
  | "L" => some fieldLog
  | s => s.toNat?

partial def parseBCond : List String → Option (BCond × List String)
  | "A" :: f :: op :: v :: rest => do
    let f ← parseField f
    let op ← parseCmpK op
    let v ← hexBytes v
    -- `=` and match-phrase are comparisons the readers look up; the others are not
    some (.bin (if op == .mp || op == .eq then .cmp else .cmpo) (.var f) (.lit ⟨op, v⟩), rest)
  | "P" :: rest => do
    let (e, rest) ← parseBCond rest
    some (.paren e, rest)
  | "&" :: rest => do
    let (l, rest) ← parseBCond rest
    let (r, rest) ← parseBCond rest
    some (.bin .and l r, rest)
  | "|" :: rest => do
    let (l, rest) ← parseBCond rest
    let (r, rest) ← parseBCond rest
    some (.bin .or l r, rest)
  | _ => none

def parseCell (s : String) : Option (Option (List Nat)) :=
  if s == "N" then some none else (hexBytes s).map some

def parseSeg (s : String) : Option Seg :=
  (s.splitOn ",").mapM fun row => (row.splitOn ":").mapM parseCell

def showIsExist : Option (Option Bool) → String
  | none => "err cond"
  | some none => "err exist"
  | some (some b) => toString b

def parseKind : String → Option IdxKind
  | "bf" => some .bloom | "ft" => some .fullText | "set" => some .set | "mm" => some .minMax
  | "tc" => some .timeCluster | _ => none

/-- `bf:0,1;ft:1,2;tc:0` — one index per entry, named by its type; `bf:` = empty index list. -/
def parseRel (s : String) : Option Relation :=
  if s == "-" then some []
  else (s.splitOn ";").mapM fun e =>
    match e.splitOn ":" with
    | [k, cols] => do
      let k ← parseKind k
      let cols ← (if cols == "" then some [] else (cols.splitOn ",").mapM (·.toNat?))
      some ⟨k, k.stdName, cols⟩
    | _ => none

/-- `NewSKCondition` of the reader created for `i` fails (`convertToRPNElem` returns an error). -/
def condFails (c : BCond) (i : SkInfo) : Bool :=
  let inSchema : Nat → Bool := fun n => i.fields.contains n || (i.kind == .fullText && n == fieldLog)
  (convElems inSchema (toRPN c)).isNone

/-- both bloom readers tokenise in `ReInit` (`getAllHashes` in `NewLineFilterReader` /
`NewMultiFiledLineFilterReader`): a phrase that ends inside a multi-byte sequence panics there,
whether or not a fragment is asked afterwards — the full-text reader for every element of its
condition, the plain reader for the match-phrase atoms on a key of `splitMap`. -/
def ftPanics (c : BCond) (i : SkInfo) : Bool :=
  (i.kind == .fullText && (atomsOf c).any fun a =>
    (i.fields.contains a.1 || a.1 == fieldLog) && (readerLookups contentSplit a.2.v).isNone) ||
  (i.kind == .bloom && (atomsOf c).any fun a =>
    a.2.op == .mp && (bfSplitKeys i.fields).contains a.1 && (readerLookups contentSplit a.2.v).isNone)

/-- `CreateSKFileReaders`, then per reader `ReInit` + `Scan`, as the harness (and the engine) does. -/
def runRel (wsp : Nat → Bool) (rel : Relation) (allCols : List Nat) (c : BCond) (segs : List Seg) (mm : Nat)
    (rgs : List (Nat × Nat)) : String :=
  match skInfos rel c with
  | none => "err create"
  | some infos =>
    if infos.isEmpty then showRanges rgs
    else if !(infos.all SkInfo.creatable) || infos.any (condFails c) then "err create"
    else if infos.any (ftPanics c) || infos.any (·.kind == .minMax) then "err panic"
    else
      match skipIndexScan wsp posV3 rel allCols c segs mm rgs with
      | some (some rs) => showRanges rs
      | _ => "err panic"

partial def parseIpCond : List String → Option (IpCond × List String)
  | "A" :: f :: op :: v :: rest => do
    let f ← parseField f
    let v ← hexBytes v
    match op with
    | "eq" => some (.bin .cmp (.var f) (.lit ⟨false, v⟩), rest)
    | "in" => some (.bin .cmp (.var f) (.lit ⟨true, v⟩), rest)
    | "neq" => some (.bin .cmpo (.var f) (.lit ⟨false, v⟩), rest)
    | _ => none
  | "P" :: rest => do
    let (e, rest) ← parseIpCond rest
    some (.paren e, rest)
  | "&" :: rest => do
    let (l, rest) ← parseIpCond rest
    let (r, rest) ← parseIpCond rest
    some (.bin .and l r, rest)
  | "|" :: rest => do
    let (l, rest) ← parseIpCond rest
    let (r, rest) ← parseIpCond rest
    some (.bin .or l r, rest)
  | _ => none

def stepSkip : List String → Option String
  | ["skip", rpf, minRows, ans, rgs] => do
    let rpf ← rpf.toNat?
    let minRows ← minRows.toNat?
    let rgs ← parseRanges rgs
    if rpf == 0 then none
    else some (showScan (skipScan (minMarks rpf minRows) (scriptReader ans.toList) rgs))
  | ["skipset", rpf, minRows, _nfrag, rgs] => do
    let rpf ← rpf.toNat?
    let minRows ← minRows.toNat?
    let rgs ← parseRanges rgs
    if rpf == 0 then none
    else
      match skipScan (minMarks rpf minRows) setMayBeInFragment rgs with
      | some rs => some ("readers 1 " ++ showRanges rs)
      | none => some "err scan"
  | ["minmax", "reinit"] =>
    -- `MinMaxIndexReader.init` calls `r.ReadFunc`, which nothing outside the tests assigns
    some "err panic"
  | "mmx" :: rec :: cond => do
    let rec ← (rec.splitOn ",").mapM fun s => s.toInt?.map fun v => (⟨true, v⟩ : DK)
    let (c, rest) ← parseCond [true] cond
    if !rest.isEmpty then none
    else
      let fs := List.range (rec.length - 1)
      some (fs.foldl (fun acc f =>
        match minMaxMayBe dkDisc c rec f with
        | some true => acc ++ "1"
        | some false => acc ++ "0"
        | none => acc ++ "e") "may ")
  | "mmt" :: ty :: rec :: cond => do
    let tag ← (match ty with | "i" => some true | "o" => some false | _ => none)
    let rec ← (rec.splitOn ",").mapM fun s => s.toInt?.map fun v => (⟨tag, v⟩ : DK)
    let (c, rest) ← parseCond [tag] cond
    if !rest.isEmpty then none
    else
      let fs := List.range (rec.length - 1)
      some (fs.foldl (fun acc f =>
        match minMaxMayBe dkDisc c rec f with
        | some true => acc ++ "1"
        | some false => acc ++ "0"
        | none => acc ++ "e") "may ")
  | "mmn" :: rec :: cond => do
    -- integer index record with nulls (`N`); a null compares below every value
    let rec ← (rec.splitOn ",").mapM fun s =>
      if s == "N" then some (none : Option DK) else s.toInt?.map fun v => some (⟨true, v⟩ : DK)
    let (c, rest) ← parseCond [true] cond
    if !rest.isEmpty then none
    else
      let (as, corrupted) := minMaxRunNull dkDisc c ⟨true, minInt64 - 1⟩ rec (rec.length - 1) 0 false
      let txt := as.foldl (fun acc a =>
        acc ++ (match a with | .yes => "1" | .no => "0" | .err => "e" | .panic => "p")) "may "
      some (if corrupted then txt ++ " sentinel-corrupted" else txt)
  | "isex" :: mask :: ans :: tree => do
    let (e, rest) ← parseSExpr tree
    if !rest.isEmpty then none
    else
      let m := mask.toList
      let a := ans.toList
      some (showIsExist (isExist (fun n => m[n]? == some '1') (fun _ id => scriptReader a id) e))
  | ["pmatch", c, p] => do
    let c ← hexBytes c
    let p ← hexBytes p
    some (toString (phraseMatch contentSplit c p))
  | "bloom" :: kind :: split :: rpf :: minRows :: rgs :: nIdx :: segs :: cond => do
    -- one index of type `kind` over the columns 0..nIdx-1; the record has the string columns 0..nIdx
    let rpf ← rpf.toNat?
    let minRows ← minRows.toNat?
    let rgs ← parseRanges rgs
    let nIdx ← nIdx.toNat?
    let segs ← (segs.splitOn "|").mapM parseSeg
    let (c, rest) ← parseBCond cond
    let wsp ← (match split with | "c" => some contentSplit | "e" => some noSplit | _ => none)
    let k ← parseKind kind
    if !rest.isEmpty || rpf == 0 then none
    else some (runRel wsp [⟨k, k.stdName, List.range nIdx⟩] (List.range (nIdx + 1)) c segs (minMarks rpf minRows) rgs)
  | "bloomip" :: rpf :: minRows :: rgs :: nIdx :: segs :: cond => do
    -- IP bloom-filter index over the columns 0..nIdx-1, unindexed column x
    let rpf ← rpf.toNat?
    let minRows ← minRows.toNat?
    let rgs ← parseRanges rgs
    let nIdx ← nIdx.toNat?
    let segs ← (segs.splitOn "|").mapM parseSeg
    let (c, rest) ← parseIpCond cond
    if !rest.isEmpty || rpf == 0 then none
    else
      let schema := (varsOf (toRPN c)).filter (· < nIdx)
      if schema.isEmpty then some (showRanges rgs)
      else if (convElems (fun n => schema.contains n) (toRPN c)).isNone then some "err create"
      else
        match skipScan (minMarks rpf minRows) (answerOf segs (ipMayBe posV3 schema c)) rgs with
        | some rs => some (showRanges rs)
        | none => some "err panic"
  | "text" :: rpf :: minRows :: rgs :: nIdx :: segs :: cond => do
    -- text index over the columns 0..nIdx-1 (split set CONTENT_SPLITTER), unindexed column x
    let rpf ← rpf.toNat?
    let minRows ← minRows.toNat?
    let rgs ← parseRanges rgs
    let nIdx ← nIdx.toNat?
    let segs ← (segs.splitOn "|").mapM parseSeg
    let (c, rest) ← parseBCond cond
    if !rest.isEmpty || rpf == 0 then none
    else
      let vars := varsOf (toRPN c)
      let schema := vars.filter (· < nIdx)
      if vars.contains fieldLog then some "err create"      -- `__log___` without a full-text index
      else if schema.isEmpty then some (showRanges rgs)
      else if (convElems (fun n => schema.contains n) (toRPN c)).isNone then some "err create"
      else
        match skipScan (minMarks rpf minRows) (answerOf segs (txMayBe contentSplit schema c)) rgs with
        | some rs => some (showRanges rs)
        | none => some "err panic"
  | ["segr", all, frs] => do
    let all ← parseRanges all
    let frs ← parseRanges frs
    some (match OG.C20.Frag.segRanges all frs with
      | .ok rs => showRanges rs
      | .err => "err"
      | .panic => "err panic")
  | ["locit", dir, limit, frs] => do
    let limit ← limit.toNat?
    let frs ← parseRanges frs
    let asc ← (match dir with | "a" => some true | "d" => some false | _ => none)
    some (match OG.C20.Frag.locIter frs asc limit with
      | some xs => "segs " ++ ",".intercalate (xs.map toString)
      | none => "err panic")
  | ["tcw", d, tmin, tmax, ts] => do
    let d ← d.toInt?
    let tmin ← tmin.toInt?
    let tmax ← tmax.toInt?
    let ts ← (ts.splitOn ",").mapM (·.toInt?)
    if d ≤ 0 then none
    else
      let lo := OG.Gen.C20.tcWindow tmin d
      let hi := OG.Gen.C20.tcWindow tmax d
      let shape :=
        if lo == hi then "eq"
        else if lo != OG.Gen.C20.tcMinTime && hi != OG.Gen.C20.tcMaxTime then "both"
        else if lo != OG.Gen.C20.tcMinTime then "ge"
        else if hi != OG.Gen.C20.tcMaxTime then "le"
        else "none"
      let cls := ts.map (OG.C20.TC.clusterOf · d)
      some (s!"tc {lo} {hi} {shape} " ++ ",".intercalate (cls.map toString) ++ " " ++
        String.join (cls.map fun x => if OG.C20.TC.tcCond lo hi x then "1" else "0"))
  | "bloomv" :: split :: mode :: nvert :: minRows :: rgs :: nIdx :: blocks :: cond => do
    -- detached layout, one row per block, every block has a filter (the first `nvert` in a
    -- vertical group): answered as the attached layout (`bfMayBeDetached`, `detached_bloom_sound`)
    let minRows ← minRows.toNat?
    let rgs ← parseRanges rgs
    let nIdx ← nIdx.toNat?
    let nvert ← nvert.toNat?
    let segs ← (blocks.splitOn "|").mapM parseSeg
    let (c, rest) ← parseBCond cond
    let wsp ← (match split with | "c" => some contentSplit | "e" => some noSplit | _ => none)
    if !rest.isEmpty || !(mode == "L" || mode == "R") || nvert > segs.length || segs.any (·.length != 1) then none
    else some (runRel wsp [⟨.bloom, IdxKind.bloom.stdName, List.range nIdx⟩] (List.range (nIdx + 1)) c segs (minMarks 1 minRows) rgs)
  | "bloomx" :: split :: rpf :: minRows :: rgs :: ncols :: rel :: segs :: cond => do
    -- any index relation over a record with the string columns 0..ncols-1
    let rpf ← rpf.toNat?
    let minRows ← minRows.toNat?
    let rgs ← parseRanges rgs
    let ncols ← ncols.toNat?
    let rel ← parseRel rel
    let segs ← (segs.splitOn "|").mapM parseSeg
    let (c, rest) ← parseBCond cond
    let wsp ← (match split with | "c" => some contentSplit | "e" => some noSplit | _ => none)
    if !rest.isEmpty || rpf == 0 then none
    else some (runRel wsp rel (List.range ncols) c segs (minMarks rpf minRows) rgs)
  | _ => none

end SkipDrv

def step (line : String) : String :=
  match (line.trimAscii.toString.splitOn " ").filter (· ≠ "") with
  | "scan" :: fixed :: types :: coarse :: minMarks :: hasKey :: marks :: cond =>
    let tys := types.toList.map (· == 'i')
    match coarse.toNat?, minMarks.toNat?, parseCond tys cond, (marks.splitOn ";").mapM (parseMark tys) with
    | some co, some mm, some (c, []), some ms =>
      showRanges (scan (fixed == "1") dkDisc c (hasKey == "1") (tys.map fun _ => false) ms co mm)
    | _, _, _, _ => "bad-op"
  | "scanseq" :: fixed :: types :: coarse :: minMarks :: hasKey :: files :: cond =>
    -- one reader (coarse, minMarks) and one key condition over the files in order
    let tys := types.toList.map (· == 'i')
    match coarse.toNat?, minMarks.toNat?, parseCond tys cond,
      (files.splitOn "/").mapM (fun f => (f.splitOn ";").mapM (parseMark tys)) with
    | some co, some mm, some (c, []), some fs =>
      let (_, answers) := scanSeq (fixed == "1") dkDisc c (hasKey == "1") (tys.map fun _ => false) ⟨co, mm⟩ fs
      "seq " ++ " | ".intercalate (answers.map showRanges)
    | _, _, _, _ => "bad-op"
  | toks => (SkipDrv.stepSkip toks).getD "bad-op"

partial def loop (h : IO.FS.Stream) (out : IO.FS.Stream) : IO Unit := do
  let line ← h.getLine
  if line.isEmpty then return ()
  out.putStrLn (step line)
  loop h out

def main : IO Unit := do
  loop (← IO.getStdin) (← IO.getStdout)

end OG.C20

def main : IO Unit := OG.C20.main
