/-
C20 — line-protocol driver of the model (core only).
  scan <fixed> <types> <coarse> <minMarks> <hasKey> <marks> <cond…>   →   ranges s-e s-e …
types: one letter per key column, `i` = integer column (discrete: open bounds are closed),
`o` = any other ordered type (values are order-preserving ranks). marks: `a,b;c,d;…`, `N` = null.
cond (prefix): `A col op const` | `O` | `& x y` | `| x y`.
-/
import OG.C20.Model

namespace OG.C20

/-- key values of the driver: a tag (integer column?) and an integer; ordered by tag, then
value (all values of one column carry the same tag). -/
structure DK where
  isInt : Bool
  v : Int
deriving DecidableEq, Repr

instance : LT DK := ⟨fun a b => (a.isInt = false ∧ b.isInt = true) ∨ (a.isInt = b.isInt ∧ a.v < b.v)⟩
instance : LE DK := ⟨fun a b => ¬ (b < a)⟩
instance : DecidableLT DK := fun a b =>
  inferInstanceAs (Decidable ((a.isInt = false ∧ b.isInt = true) ∨ (a.isInt = b.isInt ∧ a.v < b.v)))

def maxInt64 : Int := 9223372036854775807
def minInt64 : Int := -9223372036854775808

/-- `turnOpenRangeIntoClosed`: only integer columns, never past the int64 extremes. -/
def dkDisc : Disc DK where
  succ a := if a.isInt && a.v != maxInt64 then some ⟨true, a.v + 1⟩ else none
  pred a := if a.isInt && a.v != minInt64 then some ⟨true, a.v - 1⟩ else none

def parseOp : String → Option CmpOp
  | "eq" => some .eq | "neq" => some .neq | "lt" => some .lt | "lte" => some .lte
  | "gt" => some .gt | "gte" => some .gte | _ => none

/-- prefix-notation condition parser; `tys` gives the integer tag per column. -/
partial def parseCond (tys : List Bool) : List String → Option (Cond DK × List String)
  | "A" :: col :: op :: c :: rest => do
    let col ← col.toNat?
    let op ← parseOp op
    let c ← c.toInt?
    some (.atom col op ⟨tys.getD col false, c⟩, rest)
  | "O" :: rest => some (.other, rest)
  | "&" :: rest => do
    let (a, rest) ← parseCond tys rest
    let (b, rest) ← parseCond tys rest
    some (.and a b, rest)
  | "|" :: rest => do
    let (a, rest) ← parseCond tys rest
    let (b, rest) ← parseCond tys rest
    some (.or a b, rest)
  | _ => none

def parseMark (tys : List Bool) (s : String) : Option (List (Ext DK)) :=
  let cells := s.splitOn ","
  (cells.zip tys).mapM (fun (c, t) =>
    if c == "N" then some Ext.posInf else (c.toInt?).map (fun v => Ext.val ⟨t, v⟩))

def showRanges (rs : List (Nat × Nat)) : String :=
  rs.foldl (fun acc (s, e) => acc ++ " " ++ toString s ++ "-" ++ toString e) "ranges"

def step (line : String) : String :=
  match (line.trimAscii.toString.splitOn " ").filter (· ≠ "") with
  | "scan" :: fixed :: types :: coarse :: minMarks :: hasKey :: marks :: cond =>
    let tys := types.toList.map (· == 'i')
    match coarse.toNat?, minMarks.toNat?, parseCond tys cond, (marks.splitOn ";").mapM (parseMark tys) with
    | some co, some mm, some (c, []), some ms =>
      showRanges (scan (fixed == "1") dkDisc c (hasKey == "1") (tys.map fun _ => false) ms co mm)
    | _, _, _, _ => "bad-op"
  | _ => "bad-op"

partial def loop (h : IO.FS.Stream) (out : IO.FS.Stream) : IO Unit := do
  let line ← h.getLine
  if line.isEmpty then return ()
  out.putStrLn (step line)
  loop h out

def main : IO Unit := do
  loop (← IO.getStdin) (← IO.getStdout)

end OG.C20

def main : IO Unit := OG.C20.main
