/-
C20, fragment ranges -> segments — expectations about the regenerated bodies OG/C20/Frag.lean
transcribes (ogfacts/c20tc.go): getSegmentRanges, Location.SetFragmentRanges / hasNext /
nextSegment, and the two IndexFragment implementations the segment ranges come from.
-/
import OG.Generated.C20

namespace OG.C20.FragFacts
open OG.Gen.C20

theorem src_fragGetSegmentRanges_expected : src_fragGetSegmentRanges = "{ fragmentCount := len(allSegmentRanges) var segmentRanges fragment.FragmentRanges for _, fragmentRange := range fragmentRanges { fragmentEnd := fragmentRange.End fragmentStart := fragmentRange.Start if fragmentEnd > uint32(fragmentCount) { return nil, errors.New(\"can`t get segment ranges when init the read cursor\") } segmentRange := &fragment.FragmentRange{Start: allSegmentRanges[fragmentStart].Start, End: allSegmentRanges[fragmentEnd-1].End} segmentRanges = append(segmentRanges, segmentRange) } return segmentRanges, nil }" := by rfl

theorem src_locSetFragmentRanges_expected : src_locSetFragmentRanges = "{ if len(frs) == 0 { return } l.fragRgs = frs if l.ctx.Ascending { l.fragPos = 0 l.segPos = int(frs[0].Start) return } l.fragPos = len(l.fragRgs) - 1 l.segPos = int(l.fragRgs[l.fragPos].End - 1) }" := by rfl

theorem src_locHasNext_expected : src_locHasNext = "{ if l.meta == nil { return false } if l.ctx.Ascending { return l.segPos < int(l.fragRgs[len(l.fragRgs)-1].End) } return l.segPos >= int(l.fragRgs[0].Start) }" := by rfl

theorem src_locNextSegment_expected : src_locNextSegment = "{ if l.ctx.Ascending { if toLast { l.AscendingDone() } else { if (l.fragPos == len(l.fragRgs)-1 && int(l.fragRgs[l.fragPos].Start) <= l.segPos && l.segPos < int(l.fragRgs[l.fragPos].End)) || (l.fragPos < len(l.fragRgs)-1 && int(l.fragRgs[l.fragPos].Start) <= l.segPos && l.segPos < int(l.fragRgs[l.fragPos].End)-1) { l.segPos++ } else { l.fragPos++ l.segPos = int(l.fragRgs[l.fragPos].Start) } } } else { if toLast { l.DescendingDone() } else { if (l.fragPos == 0 && int(l.fragRgs[l.fragPos].Start) <= l.segPos && l.segPos < int(l.fragRgs[l.fragPos].End)) || (l.fragPos > 0 && int(l.fragRgs[l.fragPos].Start) < l.segPos && l.segPos < int(l.fragRgs[l.fragPos].End)) { l.segPos-- } else { l.fragPos-- l.segPos = int(l.fragRgs[l.fragPos].End - 1) } } } }" := by rfl

theorem src_fragNewIndexFragmentVariable_expected : src_fragNewIndexFragmentVariable = "{ f := &IndexFragmentVariableImpl{} f.accumulateRowCount = append(f.accumulateRowCount, accumulateRowCount...) var res FragmentRanges for _, ranges := range f.accumulateRowCount { high, low := util.SplitUint64(ranges) fragmentRange := FragmentRange{Start: high, End: high + low} res = append(res, &fragmentRange) } f.fragmentRanges = res return f }" := by rfl

theorem src_fragVarGetSegments_expected : src_fragVarGetSegments = "{ return f.fragmentRanges }" := by rfl

theorem src_fragFixGetSegments_expected : src_fragFixGetSegments = "{ return []*FragmentRange{{Start: 0, End: f.fragmentCount}} }" := by rfl

end OG.C20.FragFacts
