/-
C20 — property theorems for the reader-construction layer of the skip indexes
(model: OG/C20/SkipIdx.lean).

  * `bf_lookup_own_column`   — what `BloomFilterIndexReader.ReInit` sets up *now* (regenerated
    `splitMap` keys and file-name column): a column that may be looked up is the column whose
    filter file is opened.  This is the obligation a change of `ReInit` breaks.
  * `multi_column_bloom_sound` — for every schema the reader can be created with (any number of
    index columns in the condition, any order), every block, every AND/OR tree over any columns:
    a block holding a row that satisfies the condition is answered `true`.  Generic form
    `multi_column_bloom_sound_of_ownColumn` for any `splitMap`/file set-up with the own-column
    property; `multi_column_bloom_unsound_allKeys` shows the property is needed (every schema
    field in `splitMap`, one file: the block is pruned).
  * `skipScan_wf`, `scanReaders_sound` — the readers of a file chained as the engine does.
  * `multi_index_scan_sound` — end to end from the index relation: every index list, every
    condition, bloom-filter and full-text indexes side by side.
All bloom statements carry the token-coverage hypothesis of SkipProps.lean (the code as written
violates it for the known finding classes); it is stated per atom of the condition here.
-/
import OG.C20.SkipIdx
import OG.C20.SkipProps

set_option linter.unusedSectionVars false
set_option linter.unusedVariables false
namespace OG.C20.Skip

/-! ## 1. what `ReInit` sets up -/

theorem bfSplitKeys_now (schema : List Nat) : bfSplitKeys schema = schema.take 1 := by rfl

theorem bfFileCol_now (schema : List Nat) : bfFileCol schema = schema.head? := by rfl

/-- an atom is looked up only in the filter built from its own column. -/
def OwnColumn (keysOf : List Nat → List Nat) (fileOf : List Nat → Option Nat) : Prop :=
  ∀ schema n, n ∈ keysOf schema → fileOf schema = some n

/-- **I1** `BloomFilterIndexReader.ReInit` as it is now has the own-column property: the one key
of `splitMap` and the field naming the filter file are both `schema[0]`. -/
theorem bf_lookup_own_column : OwnColumn bfSplitKeys bfFileCol := by
  intro schema n hn
  rw [bfSplitKeys_now] at hn
  rw [bfFileCol_now]
  cases schema with
  | nil => simp at hn
  | cons a t => simp at hn; simp [hn]

/-- the shape `splitMap[field] = table for every field of r.schema` with the one file of
`schema[0]` does not have it. -/
theorem allKeys_not_ownColumn : ¬ OwnColumn (fun s => s) List.head? := by
  intro h
  have := h [0, 1] 1 (by simp)
  simp at this

/-! ## 2. conditions, rows -/

/-- AND/OR tree over `column op literal` atoms (what the parser produces for a WHERE clause;
`ConvertToRPNExpr` keeps the operand order of such atoms): `atom` for `=` / match-phrase, `atomO`
for the comparisons no filter lookup decides. -/
inductive WFB : BCond → Prop
  | atom (n : Nat) (b : BLit) : WFB (.bin .cmp (.var n) (.lit b))
  | atomO (n : Nat) (b : BLit) : WFB (.bin .cmpo (.var n) (.lit b))
  | and {l r : BCond} : WFB l → WFB r → WFB (.bin .and l r)
  | or {l r : BCond} : WFB l → WFB r → WFB (.bin .or l r)
  | paren {e : BCond} : WFB e → WFB (.paren e)

theorem WFB.wfc {c : BCond} (h : WFB c) : WFC c := by
  induction h with
  | atom n b => exact .atom n b
  | atomO n b => exact .atomO n b
  | and _ _ ihl ihr => exact .and ihl ihr
  | or _ _ ihl ihr => exact .or ihl ihr
  | paren _ ih => exact .paren ih

/-- row-level truth of an atom; columns are plain positions of the row, `__log___` = match-phrase
on one of the full-text columns `ftCols`; a null never satisfies. -/
def atomHoldsR (ftCols : List Nat) (row : Row) (n : Nat) (b : BLit) : Bool :=
  if n == fieldLog then
    ftCols.any fun f =>
      match row[f]? with
      | some (some s) => phraseMatch contentSplit s b.v
      | _ => false
  else
    match row[n]? with
    | some (some s) => cmpHolds b.op s b.v
    | _ => false

def rowSatR (ftCols : List Nat) (row : Row) (c : BCond) : Prop :=
  satE (fun n b => atomHoldsR ftCols row n b = true) c

/-- coverage hypothesis, per atom: every match-phrase atom tokenises and, when some row of the
block satisfies it, it has a lookup hash and each of them was written for *its own column* of
the block. -/
def OwnCovered (wsp : Nat → Bool) (ftCols : List Nat) (c : BCond) (seg : Seg) : Prop :=
  ∀ a ∈ atomsOf c, a.2.op = .mp →
    ∃ ls, readerLookups contentSplit a.2.v = some ls ∧
      ((∃ row ∈ seg, atomHoldsR ftCols row a.1 a.2 = true) →
        ls ≠ [] ∧ ∀ h ∈ ls, h ∈ segHashes wsp [a.1] seg)

/-! ## 3. the plain bloom-filter reader, any schema -/

theorem lineHitK_sound (keys : Nat → Bool) (fc : Nat) (hown : ∀ n, keys n = true → n = fc)
    (wsp : Nat → Bool) (pos : Nat → List Nat) (ftCols : List Nat) (seg : Seg) (row : Row) (hrow : row ∈ seg)
    {c : BCond} (h : WFB c) :
    (∀ a ∈ atomsOf c, a.2.op = .mp →
      ∃ ls, readerLookups contentSplit a.2.v = some ls ∧
        ((∃ row ∈ seg, atomHoldsR ftCols row a.1 a.2 = true) →
          ls ≠ [] ∧ ∀ h ∈ ls, h ∈ segHashes wsp [a.1] seg)) →
    (∃ v, lineHitK keys contentSplit pos (Filter.build pos (segHashes wsp [fc] seg)) c = some v) ∧
    (rowSatR ftCols row c →
      lineHitK keys contentSplit pos (Filter.build pos (segHashes wsp [fc] seg)) c = some true) := by
  induction h with
  | atom n b =>
    intro hc
    simp only [lineHitK]
    by_cases hm : (b.op == CmpK.mp && keys n) = true
    · simp only [hm, if_true]
      simp only [Bool.and_eq_true, beq_iff_eq] at hm
      obtain ⟨ls, hls, hcov⟩ := hc (n, b) (by simp [atomsOf]) hm.1
      have hn : n = fc := hown n hm.2
      rw [hls]
      refine ⟨⟨_, rfl⟩, ?_⟩
      intro hs
      simp only [rowSatR, satE] at hs
      obtain ⟨hne, hsub⟩ := hcov ⟨row, hrow, hs⟩
      simp only at hsub
      rw [hn] at hsub
      simp only [Option.map_some, Option.some.injEq, Bool.and_eq_true, Bool.not_eq_true']
      exact ⟨by cases ls <;> simp_all, allHit_of_subset pos _ ls hsub⟩
    · simp only [hm]; exact ⟨⟨_, rfl⟩, fun _ => rfl⟩
  | atomO n b => intro _; simp [lineHitK]
  | @and l r _ _ ihl ihr =>
    intro hc
    rw [atomsOf_and _ _ _ (Or.inl rfl)] at hc
    obtain ⟨⟨vl, hvl⟩, sl⟩ := ihl (fun a ha => hc a (List.mem_append_left _ ha))
    obtain ⟨⟨vr, hvr⟩, sr⟩ := ihr (fun a ha => hc a (List.mem_append_right _ ha))
    simp only [lineHitK, hvl]
    refine ⟨by cases vl <;> simp [hvr], ?_⟩
    intro hs
    simp only [rowSatR, satE] at hs
    have := sl hs.1
    rw [hvl] at this
    simp only [Option.some.injEq] at this
    subst this
    exact sr hs.2
  | @or l r _ _ ihl ihr =>
    intro hc
    rw [atomsOf_and _ _ _ (Or.inr rfl)] at hc
    obtain ⟨⟨vl, hvl⟩, sl⟩ := ihl (fun a ha => hc a (List.mem_append_left _ ha))
    obtain ⟨⟨vr, hvr⟩, sr⟩ := ihr (fun a ha => hc a (List.mem_append_right _ ha))
    simp only [lineHitK, hvl]
    refine ⟨by cases vl <;> simp [hvr], ?_⟩
    intro hs
    simp only [rowSatR, satE] at hs
    cases vl with
    | true => simp
    | false =>
      rcases hs with hs | hs
      · have := sl hs; rw [hvl] at this; simp at this
      · exact sr hs
  | paren _ ih =>
    intro hc
    simpa [lineHitK, atomsOf, rowSatR, satE] using ih (by simpa [atomsOf] using hc)

/-- **I2 (generic)** whatever `ReInit` puts into `splitMap` (`keysOf`) and whichever file it opens
(`fileOf`), as long as an atom is looked up only in the filter built from its own column: for
every schema, every block, every AND/OR tree over any columns, a block holding a row that
satisfies the condition is answered `true` (every hash family, either write-side split table). -/
theorem multi_column_bloom_sound_of_ownColumn (keysOf : List Nat → List Nat) (fileOf : List Nat → Option Nat)
    (hown : OwnColumn keysOf fileOf)
    (wsp : Nat → Bool) (pos : Nat → List Nat) (schema : List Nat) (fc : Nat) (hfile : fileOf schema = some fc)
    (ftCols : List Nat) (c : BCond) (seg : Seg) (row : Row)
    (hwf : WFB c) (hcov : OwnCovered wsp ftCols c seg) (hrow : row ∈ seg) (hs : rowSatR ftCols row c) :
    bfMayBeWith (keysOf schema) fc wsp pos schema c seg = some (some true) := by
  unfold bfMayBeWith
  simp only
  have hk : ∀ n, (keysOf schema).contains n = true → n = fc := by
    intro n hn
    have := hown schema n (by simpa using hn)
    rw [hfile] at this
    exact (Option.some.inj this).symm
  have := (lineHitK_sound (fun n => (keysOf schema).contains n) fc hk wsp pos ftCols seg row hrow hwf hcov).2 hs
  rw [this, isExist_eq _ _ hwf.wfc, evalE_const_true _ hwf.wfc]

/-- **I2** the bloom-filter index reader as `CreateSKFileReaders` + `ReInit` build it now, for a
multi-column index: every non-empty schema (the index columns the condition mentions, in any
order), every block, every AND/OR tree over any columns — a block holding a row that satisfies
the condition is kept. An atom on an index column other than the served one is unknown. -/
theorem multi_column_bloom_sound (wsp : Nat → Bool) (pos : Nat → List Nat) (schema : List Nat) (hne : schema ≠ [])
    (ftCols : List Nat) (c : BCond) (seg : Seg) (row : Row)
    (hwf : WFB c) (hcov : OwnCovered wsp ftCols c seg) (hrow : row ∈ seg) (hs : rowSatR ftCols row c) :
    bfMayBeIdx wsp pos schema c seg = some (some true) := by
  unfold bfMayBeIdx
  cases hf : bfFileCol schema with
  | none =>
    rw [bfFileCol_now] at hf
    cases schema <;> simp_all
  | some fc =>
    simp only
    exact multi_column_bloom_sound_of_ownColumn bfSplitKeys bfFileCol bf_lookup_own_column wsp pos schema fc hf
      ftCols c seg row hwf hcov hrow hs

def mpOn (n : Nat) (v : List Nat) : BCond := .bin .cmp (.var n) (.lit ⟨.mp, v⟩)

/-- `f0 match-phrase 'al' OR f1 match-phrase 'be'` over the block with the one row (`x`, `be`). -/
def exCond : BCond := .bin .or (mpOn 0 [97, 108]) (mpOn 1 [98, 101])
def exSeg : Seg := [[some [120], some [98, 101]]]

/-- the own-column property is needed: with every schema field in `splitMap` and the one filter
file of `schema[0]` (the shape `for i := range r.schema { splitMap[r.schema[i].Name] = … }`),
the atom on the second column is looked up in the first column's filter and the block holding
the matching row is pruned. -/
theorem multi_column_bloom_unsound_allKeys :
    rowSatR [] [some [120], some [98, 101]] exCond ∧
    bfMayBeWith [0, 1] 0 contentSplit posV3 [0, 1] exCond exSeg = some (some false) := by
  constructor
  · show atomHoldsR [] _ 0 _ = true ∨ atomHoldsR [] _ 1 _ = true
    right; decide
  · decide

/-- non-vacuity: the same block under `ReInit` as it is: kept (and the coverage hypothesis holds). -/
example : bfMayBeIdx contentSplit posV3 [0, 1] exCond exSeg = some (some true) := by decide

example : OwnCovered contentSplit [] exCond exSeg := by
  intro a ha hmp
  simp only [exCond, mpOn, atomsOf, List.cons_append, List.nil_append, List.mem_cons, List.not_mem_nil, or_false] at ha
  rcases ha with rfl | rfl
  · refine ⟨[hashBytes [97, 108]], by decide, ?_⟩
    intro ⟨row, hr, hh⟩
    simp only [exSeg, List.mem_singleton] at hr
    subst hr
    revert hh
    decide
  · refine ⟨[hashBytes [98, 101]], by decide, fun _ => ⟨by simp, ?_⟩⟩
    intro h hh
    simp only [List.mem_singleton] at hh
    subst hh
    decide

/-- … and a block the served column rules out is still dropped (the index is in use):
`f0 match-phrase 'al' AND f1 match-phrase 'be'`. -/
example : bfMayBeIdx contentSplit posV3 [0, 1] (.bin .and (mpOn 0 [97, 108]) (mpOn 1 [98, 101])) exSeg
    = some (some false) := by decide

/-- the single-column reader of SkipProps.lean is the instance `schema = [0]`. -/
theorem lineHit_eq_lineHitK (sp : Nat → Bool) (pos : Nat → List Nat) (f : List Nat) (c : BCond) :
    lineHit sp pos f c = lineHitK (fun n => n == 0) sp pos f c := by
  induction c with
  | var n => simp [lineHit, lineHitK]
  | lit b => simp [lineHit, lineHitK]
  | paren e ih => simp [lineHit, lineHitK, ih]
  | bin op l r ihl ihr =>
    cases op with
    | and =>
      simp only [lineHit, lineHitK, ihl, ihr]
      cases lineHitK (fun n => n == 0) sp pos f l with
      | none => rfl
      | some b => cases b <;> rfl
    | or =>
      simp only [lineHit, lineHitK, ihl, ihr]
      cases lineHitK (fun n => n == 0) sp pos f l with
      | none => rfl
      | some b => cases b <;> rfl
    | cmp =>
      cases l <;> cases r <;> simp [lineHit, lineHitK]
    | cmpo => simp [lineHit, lineHitK]
    | cmpns => simp [lineHit, lineHitK]
    | bad => simp [lineHit, lineHitK]

theorem bfMayBe_eq_idx (wsp : Nat → Bool) (pos : Nat → List Nat) (c : BCond) (seg : Seg) :
    bfMayBe wsp pos c seg = bfMayBeIdx wsp pos [0] c seg := by
  unfold bfMayBe bfMayBeIdx
  rw [bfFileCol_now, bfSplitKeys_now]
  simp only [List.head?_cons, List.take_succ_cons, List.take_zero, bfMayBeWith]
  have h1 : (fun n => [0].contains n) = (fun n : Nat => n == 0) := by
    funext n; by_cases h : n = 0 <;> simp [h]
  simp only [lineHit_eq_lineHitK, h1]

/-- **I2'** detached (OBS) layout: for a block that has a filter — in a vertical group of the
remote file or in the local line file — the reader answers as the attached one, so
`multi_column_bloom_sound` carries over. -/
theorem detached_bloom_sound (nv nl j : Nat) (hj : j < nv + nl)
    (wsp : Nat → Bool) (pos : Nat → List Nat) (schema : List Nat) (hne : schema ≠ [])
    (ftCols : List Nat) (c : BCond) (seg : Seg) (row : Row)
    (hwf : WFB c) (hcov : OwnCovered wsp ftCols c seg) (hrow : row ∈ seg) (hs : rowSatR ftCols row c) :
    bfMayBeDetached nv nl j wsp pos schema c seg = some (some true) := by
  unfold bfMayBeDetached
  rw [if_neg (by omega)]
  exact multi_column_bloom_sound wsp pos schema hne ftCols c seg row hwf hcov hrow hs

/-- … and the hypothesis is needed: a block past the filters of both files is answered "no"
whatever it holds (`FilterReader.IsExist`: `blockId >= verticalFilterCount+filterLogCount`). -/
theorem detached_block_without_filter_pruned :
    rowSatR [] [some [97, 108]] (mpOn 0 [97, 108]) ∧
    bfMayBeDetached 0 1 1 contentSplit posV3 [0] (mpOn 0 [97, 108]) [[some [97, 108]]] = some (some false) := by
  constructor
  · show atomHoldsR [] _ 0 _ = true; decide
  · decide

/-! ## 4. `Scan` returns well-formed ranges; readers chained -/

/-- accumulator of `Scan` (head = last range): ranges non-empty-or-equal, descending, below `B`. -/
def Desc : List (Nat × Nat) → Nat → Prop
  | [], _ => True
  | p :: rest, B => p.1 ≤ p.2 ∧ p.2 ≤ B ∧ Desc rest p.1

theorem Desc.mono {acc : List (Nat × Nat)} {B B' : Nat} (h : Desc acc B) (hb : B ≤ B') : Desc acc B' := by
  cases acc with
  | nil => trivial
  | cons p rest => exact ⟨h.1, Nat.le_trans h.2.1 hb, h.2.2⟩

theorem Desc.inv {acc : List (Nat × Nat)} : ∀ {B : Nat}, Desc acc B → Inv acc B := by
  induction acc with
  | nil => intro B _ q hq; simp at hq
  | cons p rest ih =>
    intro B h q hq
    simp only [List.mem_cons] at hq
    rcases hq with rfl | hq
    · exact ⟨h.1, h.2.1⟩
    · have := ih h.2.2 q hq
      exact ⟨this.1, by have := h.1; have := h.2.1; omega⟩

theorem Asc.mono {l : List (Nat × Nat)} {B B' : Nat} (h : Asc B l) (hb : B' ≤ B) : Asc B' l := by
  cases l with
  | nil => trivial
  | cons p rest => exact ⟨Nat.le_trans hb h.1, h.2.1, h.2.2⟩

theorem Desc.asc_reverse : ∀ (acc : List (Nat × Nat)) (B : Nat) (tail : List (Nat × Nat)),
    Desc acc B → Asc B tail → Asc 0 (acc.reverse ++ tail) := by
  intro acc
  induction acc with
  | nil => intro B tail _ ht; simpa using ht.mono (Nat.zero_le _)
  | cons p rest ih =>
    intro B tail h ht
    rw [List.reverse_cons, List.append_assoc]
    apply ih p.1 _ h.2.2
    exact ⟨Nat.le_refl _, h.1, ht.mono h.2.1⟩

theorem scanStep_desc (mm s e j : Nat) (acc : List (Nat × Nat)) (hs : s ≤ j) (he : j < e)
    (h : Desc acc j) : Desc (scanStep mm s e j acc) (j + 1) := by
  have h1 : max s j = j := Nat.max_eq_right hs
  have h2 : min e (j + 1) = j + 1 := Nat.min_eq_right (by omega)
  cases acc with
  | nil => simp [scanStep, h1, h2, Desc]
  | cons p rest =>
    obtain ⟨ls, le⟩ := p
    simp only [scanStep, h1, h2]
    simp only [Desc] at h
    split
    · exact ⟨by omega, Nat.le_refl _, h.1, h.2.1, h.2.2⟩
    · exact ⟨by simp only; omega, Nat.le_refl _, h.2.2⟩

theorem scanRange_desc (mm : Nat) (rd : Reader) (s e : Nat) :
    ∀ (n a : Nat) (acc acc' : List (Nat × Nat)), s ≤ a → a + n ≤ e → Desc acc a →
      scanRange mm rd s e (List.range' a n) acc = some acc' → Desc acc' (a + n) := by
  intro n
  induction n with
  | zero =>
    intro a acc acc' _ _ hd h
    simp [scanRange] at h
    subst h
    simpa using hd
  | succ n ih =>
    intro a acc acc' hsa hae hd h
    rw [List.range'_succ] at h
    unfold scanRange at h
    cases hr : rd a with
    | none => simp [hr] at h
    | some b =>
      cases b with
      | false =>
        simp only [hr] at h
        have := ih (a + 1) acc acc' (by omega) (by omega) (hd.mono (by omega)) h
        simpa [Nat.add_assoc, Nat.add_comm 1 n] using this
      | true =>
        simp only [hr] at h
        have := ih (a + 1) _ acc' (by omega) (by omega) (scanStep_desc mm s e a acc hsa (by omega) hd) h
        simpa [Nat.add_assoc, Nat.add_comm 1 n] using this

theorem scanAll_desc (mm : Nat) (rd : Reader) :
    ∀ (rgs : List (Nat × Nat)) (B : Nat) (acc acc' : List (Nat × Nat)), Asc B rgs → Desc acc B →
      scanAll mm rd rgs acc = some acc' → ∃ B', Desc acc' B' := by
  intro rgs
  induction rgs with
  | nil =>
    intro B acc acc' _ hd h
    simp [scanAll] at h
    subst h
    exact ⟨B, hd⟩
  | cons p rest ih =>
    intro B acc acc' hasc hd h
    obtain ⟨s, e⟩ := p
    obtain ⟨hB, hse, hrest⟩ := hasc
    simp only at hB hse hrest
    unfold scanAll at h
    cases h1 : scanRange mm rd s e (List.range' s (e - s)) acc with
    | none => simp [h1] at h
    | some acc1 =>
      simp only [h1] at h
      have r1 := scanRange_desc mm rd s e (e - s) s acc acc1 (Nat.le_refl _) (by omega) (hd.mono hB) h1
      have : s + (e - s) = e := by omega
      rw [this] at r1
      exact ih e acc1 acc' hrest r1 h

/-- **I3** what `Scan` returns is again ascending and pairwise disjoint: the next reader's `Scan`
gets input of the shape `skipScan_sound` needs. -/
theorem skipScan_wf (mm : Nat) (rd : Reader) (rgs out : List (Nat × Nat))
    (hwf : WFRanges rgs) (h : skipScan mm rd rgs = some out) : WFRanges out := by
  unfold skipScan at h
  cases h1 : scanAll mm rd rgs [] with
  | none => simp [h1] at h
  | some acc =>
    simp [h1] at h
    subst h
    obtain ⟨B', hd⟩ := scanAll_desc mm rd rgs 0 [] acc hwf trivial h1
    have := Desc.asc_reverse acc B' [] hd trivial
    simpa [WFRanges] using this

/-- **I4** the loop over the readers of a file: if every reader is sound, a fragment of the input
ranges that holds a match is inside the ranges left after the last reader — any number of
readers, in any order. -/
theorem scanReaders_sound (mm : Nat) (hasMatch : Nat → Prop) :
    ∀ (rds : List Reader) (rgs out : List (Nat × Nat)), (∀ rd ∈ rds, ReaderSound rd hasMatch) →
      WFRanges rgs → scanReaders mm rds rgs = some out →
      ∀ j, Covered rgs j → hasMatch j → Covered out j := by
  intro rds
  induction rds with
  | nil =>
    intro rgs out _ _ h j hc _
    simp [scanReaders] at h
    subst h
    exact hc
  | cons rd rest ih =>
    intro rgs out hsound hwf h j hc hm
    unfold scanReaders at h
    cases h1 : skipScan mm rd rgs with
    | none => simp [h1] at h
    | some r1 =>
      simp only [h1] at h
      obtain ⟨p, hp, hp1, hp2⟩ := hc
      have c1 : Covered r1 j :=
        skipIndex_sound mm rd hasMatch (hsound rd (by simp)) rgs r1 hwf h1 p hp j hp1 hp2 hm
      exact ih r1 out (fun rd' h' => hsound rd' (List.mem_cons_of_mem _ h')) (skipScan_wf mm rd rgs r1 hwf h1) h j c1 hm

example : scanReaders 0 [fun j => some (j != 1), fun j => some (j != 4)] [(0, 3), (3, 6)]
    = some [(0, 1), (2, 4), (5, 6)] := by decide

/-! ## 5. the full-text reader, any schema -/

/-- coverage hypothesis for the full-text reader, per atom of the condition on a column that
can be in a reader's schema (`inIdx`) or on `__log___`. -/
def FtCovered (wsp : Nat → Bool) (inIdx : Nat → Prop) (ftCols allCols : List Nat) (c : BCond) (seg : Seg) : Prop :=
  ∀ a ∈ atomsOf c, (inIdx a.1 ∨ a.1 = fieldLog) →
    ∃ ls, readerLookups contentSplit a.2.v = some ls ∧
      ((∃ row ∈ seg, atomHoldsR ftCols row a.1 a.2 = true) → ∀ h ∈ ls, h ∈ segHashes wsp allCols seg)

theorem evalB_true_on (inSchema : Nat → Bool) (ans : Nat → BLit → Option Bool) (holds : Nat → BLit → Prop)
    {e : BCond} (h : WFB e) :
    (∀ a ∈ atomsOf e, inSchema a.1 = true →
      (∃ v, ans a.1 a.2 = some v) ∧ (holds a.1 a.2 → ans a.1 a.2 = some true)) →
    (∃ v, evalE inSchema ans e = some v) ∧ (satE holds e → evalE inSchema ans e = some true) := by
  induction h with
  | atom n b =>
    intro hc
    simp only [evalE]
    cases hi : inSchema n
    · simp
    · simpa [satE] using hc (n, b) (by simp [atomsOf]) hi
  | atomO n b => intro _; simp [evalE]
  | @and l r _ _ ihl ihr =>
    intro hc
    rw [atomsOf_and _ _ _ (Or.inl rfl)] at hc
    obtain ⟨⟨vl, hvl⟩, sl⟩ := ihl (fun a ha => hc a (List.mem_append_left _ ha))
    obtain ⟨⟨vr, hvr⟩, sr⟩ := ihr (fun a ha => hc a (List.mem_append_right _ ha))
    simp only [evalE, hvl, hvr]
    refine ⟨⟨_, rfl⟩, ?_⟩
    intro hs
    simp only [satE] at hs
    have a1 := sl hs.1
    have a2 := sr hs.2
    rw [hvl] at a1
    rw [hvr] at a2
    simp_all
  | @or l r _ _ ihl ihr =>
    intro hc
    rw [atomsOf_and _ _ _ (Or.inr rfl)] at hc
    obtain ⟨⟨vl, hvl⟩, sl⟩ := ihl (fun a ha => hc a (List.mem_append_left _ ha))
    obtain ⟨⟨vr, hvr⟩, sr⟩ := ihr (fun a ha => hc a (List.mem_append_right _ ha))
    simp only [evalE, hvl, hvr]
    refine ⟨⟨_, rfl⟩, ?_⟩
    intro hs
    simp only [satE] at hs
    rcases hs with hs | hs
    · have a1 := sl hs; rw [hvl] at a1; simp_all
    · have a2 := sr hs; rw [hvr] at a2; simp_all
  | paren _ ih =>
    intro hc
    simpa [evalE, satE] using ih (by simpa [atomsOf] using hc)

/-- **I5 (partial)** full-text bloom-filter reader with any schema (the columns of the index the
condition mentions, or the whole index list when it mentions `__log___`). -/
theorem ftMayBeIdx_sound (wsp : Nat → Bool) (pos : Nat → List Nat) (inIdx : Nat → Prop)
    (schema allCols ftCols : List Nat) (hsch : ∀ n ∈ schema, inIdx n)
    (c : BCond) (seg : Seg) (row : Row)
    (hwf : WFB c) (hcov : FtCovered wsp inIdx ftCols allCols c seg) (hrow : row ∈ seg) (hs : rowSatR ftCols row c) :
    ftMayBeIdx wsp pos schema allCols c seg = some (some true) := by
  unfold ftMayBeIdx
  simp only
  rw [isExist_eq _ _ hwf.wfc]
  have := (evalB_true_on (fun n => schema.contains n || n == fieldLog)
    (fun _ b => multiHit contentSplit pos (Filter.build pos (segHashes wsp allCols seg)) b)
    (fun n b => atomHoldsR ftCols row n b = true) hwf ?_).2 hs
  · rw [this]
  · intro a ha hi
    simp only [Bool.or_eq_true, List.contains_iff_mem, beq_iff_eq] at hi
    obtain ⟨ls, hls, hsub⟩ := hcov a ha (hi.imp (hsch a.1) id)
    simp only [multiHit, hls, Option.map_some, Option.some.injEq]
    refine ⟨⟨_, rfl⟩, ?_⟩
    intro hh
    simp only [Bool.or_eq_true]
    right
    exact allHit_of_subset pos _ ls (hsub ⟨row, hrow, hh⟩)

/-! ## 6. from the index relation to the readers -/

def InIdx (rel : Relation) (f : Nat) : Prop := ∃ d ∈ rel, f ∈ d.cols

/-- what `getSKInfoByExpr` maintains for every entry of `skInfoMap`. -/
def InfoOK (rel : Relation) (i : SkInfo) : Prop :=
  i.fields ≠ [] ∧ (∀ f ∈ i.fields, InIdx rel f) ∧ (i.kind = .fullText ∨ ∃ d ∈ rel, d.kind = i.kind)

theorem mem_fieldIndexNames {rel : Relation} {f nm : Nat} (h : nm ∈ fieldIndexNames rel f) : InIdx rel f := by
  unfold fieldIndexNames at h
  rw [List.mem_flatMap] at h
  obtain ⟨d, hd, hm⟩ := h
  refine ⟨d, hd, ?_⟩
  split at hm
  · simp at hm
  · rw [List.mem_map] at hm
    obtain ⟨x, hx, _⟩ := hm
    rw [List.mem_filter] at hx
    have := hx.2
    simp only [beq_iff_eq] at this
    rw [← this]; exact hx.1

theorem oidByName_mem {rel : Relation} {nm : Nat} {k : IdxKind} (h : oidByName rel nm = some k) :
    ∃ d ∈ rel, d.kind = k := by
  unfold oidByName at h
  cases hf : rel.find? (·.name == nm) with
  | none => simp [hf] at h
  | some d =>
    simp [hf] at h
    exact ⟨d, List.mem_of_find?_eq_some hf, h⟩

theorem addField_ok (rel : Relation) (v : Nat) (hv : InIdx rel v) (infos infos' : List SkInfo) (nm : Nat)
    (hok : ∀ i ∈ infos, InfoOK rel i) (h : addField rel v infos nm = some infos') :
    ∀ i ∈ infos', InfoOK rel i := by
  unfold addField at h
  split at h
  · simp only [Option.some.injEq] at h
    subst h
    intro i hi
    rw [List.mem_map] at hi
    obtain ⟨i0, hi0, rfl⟩ := hi
    have ok0 := hok i0 hi0
    split
    · refine ⟨by simp, ?_, ok0.2.2⟩
      intro f hf
      simp only [List.mem_append, List.mem_singleton] at hf
      rcases hf with hf | rfl
      · exact ok0.2.1 f hf
      · exact hv
    · exact ok0
  · cases ho : oidByName rel nm with
    | none => simp [ho] at h
    | some k =>
      simp only [ho, Option.some.injEq] at h
      subst h
      intro i hi
      simp only [List.mem_append, List.mem_singleton] at hi
      rcases hi with hi | rfl
      · exact hok i hi
      · exact ⟨by simp, by intro f hf; simp at hf; subst hf; exact hv, Or.inr (oidByName_mem ho)⟩

theorem addFields_ok (rel : Relation) (v : Nat) (hv : InIdx rel v) :
    ∀ (nms : List Nat) (infos infos' : List SkInfo), (∀ i ∈ infos, InfoOK rel i) →
      addFields rel v nms infos = some infos' → ∀ i ∈ infos', InfoOK rel i := by
  intro nms
  induction nms with
  | nil => intro infos infos' hok h; simp [addFields] at h; subst h; exact hok
  | cons nm rest ih =>
    intro infos infos' hok h
    unfold addFields at h
    cases h1 : addField rel v infos nm with
    | none => simp [h1] at h
    | some i1 =>
      simp only [h1] at h
      exact ih i1 infos' (addField_ok rel v hv infos i1 nm hok h1) h

theorem fullTextCols_ok (rel : Relation) (h : (fullTextCols rel).isEmpty = false) :
    InfoOK rel ⟨ftKey, .fullText, fullTextCols rel⟩ := by
  refine ⟨by intro h0; simp at h; exact h h0, ?_, Or.inl rfl⟩
  intro f hf
  unfold fullTextCols at hf
  cases hd : rel.find? (·.kind == .fullText) with
  | none => simp [hd] at hf
  | some d =>
    simp only [hd] at hf
    exact ⟨d, List.mem_of_find?_eq_some hd, hf⟩

theorem addVar_ok (rel : Relation) (infos infos' : List SkInfo) (v : Nat)
    (hok : ∀ i ∈ infos, InfoOK rel i) (h : addVar rel infos v = some infos') :
    ∀ i ∈ infos', InfoOK rel i := by
  unfold addVar at h
  split at h
  · simp only at h
    split at h
    · simp at h
    · rename_i hne
      have okft := fullTextCols_ok rel (by simpa using hne)
      split at h
      · simp only [Option.some.injEq] at h
        subst h
        intro i hi
        rw [List.mem_map] at hi
        obtain ⟨i0, hi0, rfl⟩ := hi
        split
        · exact okft
        · exact hok i0 hi0
      · simp only [Option.some.injEq] at h
        subst h
        intro i hi
        simp only [List.mem_append, List.mem_singleton] at hi
        rcases hi with hi | rfl
        · exact hok i hi
        · exact okft
  · cases hn : fieldIndexNames rel v with
    | nil =>
      simp [hn, addFields] at h
      subst h
      exact hok
    | cons nm rest =>
      have hv : InIdx rel v := mem_fieldIndexNames (nm := nm) (by rw [hn]; simp)
      exact addFields_ok rel v hv _ infos infos' hok h

theorem addVars_ok (rel : Relation) :
    ∀ (vs : List Nat) (infos infos' : List SkInfo), (∀ i ∈ infos, InfoOK rel i) →
      addVars rel vs infos = some infos' → ∀ i ∈ infos', InfoOK rel i := by
  intro vs
  induction vs with
  | nil => intro infos infos' hok h; simp [addVars] at h; subst h; exact hok
  | cons v rest ih =>
    intro infos infos' hok h
    unfold addVars at h
    cases h1 : addVar rel infos v with
    | none => simp [h1] at h
    | some i1 =>
      simp only [h1] at h
      exact ih i1 infos' (addVar_ok rel infos i1 v hok h1) h

/-- every `SkInfo` `CreateSKFileReaders` ends up with has at least one field, all its fields are
columns of some index list, and its type is the full-text one or a type of the relation. -/
theorem skInfos_ok {β : Type} (rel : Relation) (c : SExpr β) (infos : List SkInfo) (h : skInfos rel c = some infos) :
    ∀ i ∈ infos, InfoOK rel i := by
  unfold skInfos at h
  split at h
  · simp at h; subst h; intro i hi; simp at hi
  · exact addVars_ok rel _ [] infos (fun i hi => by simp at hi) h

/-- a block of the file holds a row satisfying the condition. -/
def HasMatch (ftCols : List Nat) (c : BCond) (segs : List Seg) (j : Nat) : Prop :=
  ∃ seg row, segs[j]? = some seg ∧ row ∈ seg ∧ rowSatR ftCols row c

/-- **I6 (partial)** the property for the bloom-filter skip indexes, end to end from the index
relation: any number of bloom-filter / full-text indexes (and a time cluster), each over an index
list of any number of columns; every AND/OR condition over any columns; ranges from the
primary-key scan; any seek threshold.  If block `j` holds a row satisfying the condition, `j` is
in a range left after the last reader — under the token-coverage hypotheses (known finding
classes) and for a relation without set / min-max index (`setReader_unsound`; the min-max reader
cannot be initialised outside tests). -/
theorem multi_index_scan_sound (wsp : Nat → Bool) (pos : Nat → List Nat) (rel : Relation) (allCols : List Nat)
    (c : BCond) (segs : List Seg) (mm : Nat) (rgs out : List (Nat × Nat))
    (hkinds : ∀ d ∈ rel, d.kind = .bloom ∨ d.kind = .fullText ∨ d.kind = .timeCluster)
    (hwf : WFB c)
    (hcovB : ∀ seg ∈ segs, OwnCovered wsp (fullTextCols rel) c seg)
    (hcovF : ∀ seg ∈ segs, FtCovered wsp (InIdx rel) (fullTextCols rel) allCols c seg)
    (hr : WFRanges rgs)
    (h : skipIndexScan wsp pos rel allCols c segs mm rgs = some (some out)) :
    ∀ j, Covered rgs j → HasMatch (fullTextCols rel) c segs j → Covered out j := by
  unfold skipIndexScan at h
  cases hi : skInfos rel c with
  | none => simp [hi] at h
  | some infos =>
    simp only [hi] at h
    split at h
    case isFalse => simp at h
    rename_i hcr
    simp only [Option.some.injEq] at h
    have hok := skInfos_ok rel c infos hi
    apply scanReaders_sound mm (HasMatch (fullTextCols rel) c segs) _ rgs out _ hr h
    intro rd hrd
    rw [List.mem_map] at hrd
    obtain ⟨i, hi', rfl⟩ := hrd
    obtain ⟨hne, hfields, hkind⟩ := hok i hi'
    intro j ⟨seg, row, hseg, hrow, hs⟩
    have hmem : seg ∈ segs := List.mem_of_getElem? hseg
    unfold readerOf
    cases hk : i.kind with
    | bloom =>
      simp only [answerOf, hseg]
      rw [multi_column_bloom_sound wsp pos i.fields hne (fullTextCols rel) c seg row hwf (hcovB seg hmem) hrow hs]
    | fullText =>
      simp only [answerOf, hseg]
      rw [ftMayBeIdx_sound wsp pos (InIdx rel) i.fields allCols (fullTextCols rel) hfields c seg row hwf
        (hcovF seg hmem) hrow hs]
    | set =>
      rcases hkind with hkind | ⟨d, hd, hdk⟩
      · rw [hk] at hkind; cases hkind
      · rw [hk] at hdk; rcases hkinds d hd with h' | h' | h' <;> rw [hdk] at h' <;> cases h'
    | minMax =>
      rcases hkind with hkind | ⟨d, hd, hdk⟩
      · rw [hk] at hkind; cases hkind
      · rw [hk] at hdk; rcases hkinds d hd with h' | h' | h' <;> rw [hdk] at h' <;> cases h'
    | timeCluster =>
      · have := List.all_eq_true.mp hcr i hi'
        simp [SkInfo.creatable, hk] at this

end OG.C20.Skip
